/-
C11 — the invariant of spawn-only executions (any interleaving of the phases of any number of
Spawn / SpawnNamedFromFunc / SpawnChild calls, no Shutdown in flight) and its preservation.
-/
import GoaktVerif.Lemmas.C11

namespace GoaktVerif.C11
open GoaktVerif.Model.C11

structure Inv (s : St) : Prop where
  /-- every tree node holds a running actor whose path is the node id -/
  treeRun : ∀ k p, (k, p) ∈ s.tree → phaseOf s p = .running ∧ pathOf s p = k
  /-- every running actor is THE node of its path (nothing runs outside the tree) -/
  runTree : ∀ p, phaseOf s p = .running → lookup s.tree (pathOf s p) = some p
  /-- the name index only resolves to running actors -/
  namesRun : ∀ n q, lookup s.names n = some q → phaseOf s q = .running
  /-- every node is reachable through the name index entry of its name -/
  treeNames : ∀ k p, lookup s.tree k = some p → ∃ q, lookup s.names (lastName k) = some q
  /-- an open flight holds a process inside PreStart whose path is free in the tree -/
  flights : ∀ k p kind, (k, p, kind) ∈ s.flights →
    phaseOf s p = .starting ∧ pathOf s p = k ∧ lookup s.tree k = none ∧
    (kind = .child → ∃ par x, k = [par, x] ∧ (lookup s.tree [par]).isSome = true)
  /-- one flight per path (single flight) -/
  keys : (s.flights.map (·.1)).Nodup
  count : s.counter = runningCount s
  noStops : s.stops = []

theorem inv_init : Inv St.init where
  treeRun := by intro k p h; cases h
  runTree := by intro p h; simp [phaseOf, St.init] at h
  namesRun := by intro n q h; simp [lookup, St.init] at h
  treeNames := by intro k p h; simp [lookup, St.init] at h
  flights := by intro k p kind h; cases h
  keys := by simp [St.init]
  count := by simp [St.init, runningCount]
  noStops := rfl

theorem flightOpen_false {s : St} {k : Path} (h : flightOpen s k = false) : k ∉ s.flights.map (·.1) := by
  intro hm
  obtain ⟨x, hx, e⟩ := List.mem_map.mp hm
  have : flightOpen s k = true := by
    unfold flightOpen
    exact List.any_eq_true.mpr ⟨x, hx, by simp [e]⟩
  rw [h] at this; cases this

/-- a new process held in PreStart on a free path keeps the invariant -/
theorem inv_addProc {s : St} (h : Inv s) (path : Path) (kind : Kind) (hopen : flightOpen s path = false)
    (hfree : lookup s.tree path = none)
    (hchild : kind = .child → ∃ par x, path = [par, x] ∧ (lookup s.tree [par]).isSome = true) :
    Inv (addProc s path kind) := by
  have hph : ∀ q, phaseOf s q = .running → phaseOf (addProc s path kind) q = .running := by
    intro q hq
    rw [phaseOf_addProc]
    have : q ≠ s.procs.length := Nat.ne_of_lt (lt_of_phase_ne_stopped (by rw [hq]; exact fun x => nomatch x))
    rw [if_neg this]; exact hq
  have hpa : ∀ q, q < s.procs.length → pathOf (addProc s path kind) q = pathOf s q := by
    intro q hq; rw [pathOf_addProc, if_neg (Nat.ne_of_lt hq)]
  have hrun : ∀ q, phaseOf (addProc s path kind) q = .running → phaseOf s q = .running ∧ q < s.procs.length := by
    intro q hq
    rw [phaseOf_addProc] at hq
    by_cases e : q = s.procs.length
    · rw [if_pos e] at hq; cases hq
    · rw [if_neg e] at hq
      exact ⟨hq, lt_of_phase_ne_stopped (by rw [hq]; exact fun x => nomatch x)⟩
  refine ⟨?_, ?_, ?_, h.treeNames, ?_, ?_, ?_, h.noStops⟩
  · intro k p hm
    obtain ⟨a, b⟩ := h.treeRun k p hm
    refine ⟨hph p a, ?_⟩
    rw [hpa p (lt_of_phase_ne_stopped (by rw [a]; exact fun x => nomatch x))]; exact b
  · intro p hp
    obtain ⟨a, b⟩ := hrun p hp
    show lookup s.tree (pathOf (addProc s path kind) p) = some p
    rw [hpa p b]; exact h.runTree p a
  · intro n q hq
    exact hph q (h.namesRun n q hq)
  · intro k p kd hm
    rcases List.mem_cons.mp hm with e | e
    · injection e with e1 e2; injection e2 with e2 e3
      subst e1; subst e2; subst e3
      refine ⟨by rw [phaseOf_addProc, if_pos rfl], by rw [pathOf_addProc, if_pos rfl], hfree, hchild⟩
    · obtain ⟨a, b, c, d⟩ := h.flights k p kd e
      have hlt : p < s.procs.length := lt_of_phase_ne_stopped (by rw [a]; exact fun x => nomatch x)
      exact ⟨by rw [phaseOf_addProc, if_neg (Nat.ne_of_lt hlt)]; exact a, by rw [hpa p hlt]; exact b, c, d⟩
  · show ((path, s.procs.length, kind) :: s.flights).map (·.1) |>.Nodup
    rw [List.map_cons, List.nodup_cons]
    exact ⟨flightOpen_false hopen, h.keys⟩
  · show s.counter = runningCount (addProc s path kind)
    rw [h.count]
    unfold runningCount
    have hl : (addProc s path kind).procs.length = s.procs.length + 1 := by simp [addProc]
    rw [hl, List.range_succ, List.filter_append]
    have h1 : (List.range s.procs.length).filter (fun p => isRunning (addProc s path kind) p)
        = (List.range s.procs.length).filter (fun p => isRunning s p) := by
      apply filter_range_congr
      intro i hi
      unfold isRunning
      rw [phaseOf_addProc, if_neg (Nat.ne_of_lt hi)]
    have h2 : isRunning (addProc s path kind) s.procs.length = false := by
      unfold isRunning; rw [phaseOf_addProc, if_pos rfl]; rfl
    rw [h1]
    simp [List.filter_cons, h2]

end GoaktVerif.C11

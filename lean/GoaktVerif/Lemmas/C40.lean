/-
Helper lemmas for C40: rebuilding a map from its own (sorted) entry list, `mapM` round trips
through a lawful serializer, and maps over AMap values.
-/
import GoaktVerif.Model.C40
import GoaktVerif.Lemmas.Crdt.AMap

namespace GoaktVerif.C40
open GoaktVerif.Model.Crdt GoaktVerif.Model.C40

variable {V W B : Type}

/-! ### `AMap.ofList` of a sorted list is the list -/

theorem sorted_foldl_set (l : List (Nat × V)) (acc : AMap V) (h : AMap.Sorted acc) :
    AMap.Sorted (l.foldl (fun m p => AMap.set m p.1 p.2) acc) := by
  induction l generalizing acc with
  | nil => exact h
  | cons p t ih => exact ih _ (AMap.sorted_set h p.1 p.2)

theorem get?_foldl_set (l : List (Nat × V)) (hl : AMap.Sorted l) (acc : AMap V) (x : Nat) :
    AMap.get? (l.foldl (fun m p => AMap.set m p.1 p.2) acc) x =
      match AMap.get? l x with
      | some v => some v
      | none => AMap.get? acc x := by
  induction l generalizing acc with
  | nil => simp [AMap.get?]
  | cons p t ih =>
    obtain ⟨k, v⟩ := p
    have hs := AMap.sorted_cons.mp hl
    rw [List.foldl_cons, ih hs.2, AMap.get?_cons, AMap.get?_set]
    by_cases hx : x = k
    · subst hx
      have : AMap.get? t x = none := by
        rw [AMap.get?_eq_none_iff]
        intro q hq
        have := hs.1 q hq
        simp only at this
        omega
      simp [this]
    · simp only [hx, ↓reduceIte]

theorem ofList_sorted (l : AMap V) (hl : AMap.Sorted l) : AMap.ofList l = l := by
  apply AMap.ext (sorted_foldl_set l [] AMap.sorted_nil) hl
  intro x
  rw [get?_foldl_set l hl]
  cases h : AMap.get? l x <;> simp [AMap.get?]

/-! ### mapping the values of a map -/

def mapVals (f : V → W) (m : AMap V) : AMap W := m.map fun p => (p.1, f p.2)

theorem get?_mapVals (f : V → W) (m : AMap V) (x : Nat) :
    AMap.get? (mapVals f m) x = (AMap.get? m x).map f := by
  induction m with
  | nil => rfl
  | cons p t ih =>
    obtain ⟨k, v⟩ := p
    simp only [mapVals, List.map_cons] at ih ⊢
    rw [AMap.get?_cons, AMap.get?_cons]
    by_cases hx : x = k <;> simp [hx, ih]

theorem sorted_mapVals (f : V → W) (m : AMap V) (h : AMap.Sorted m) : AMap.Sorted (mapVals f m) := by
  unfold AMap.Sorted mapVals at *
  rw [List.pairwise_map]
  exact h

theorem mapVals_set (f : V → W) (m : AMap V) (k : Nat) (v : V) :
    mapVals f (AMap.set m k v) = AMap.set (mapVals f m) k (f v) := by
  induction m with
  | nil => rfl
  | cons p t ih =>
    obtain ⟨a, b⟩ := p
    simp only [mapVals, List.map_cons] at ih ⊢
    unfold AMap.set
    split
    · simp
    · split
      · simp
      · simp [ih]

theorem mapVals_setOpt (f : V → W) (m : AMap V) (k : Nat) (o : Option V) :
    mapVals f (AMap.setOpt m k o) = AMap.setOpt (mapVals f m) k (o.map f) := by
  cases o with
  | none => rfl
  | some v => exact mapVals_set f m k v

/-! ### serializer round trips through `mapM` -/

/-- the law of a lawful serializer: whatever Serialize accepts, Deserialize gives back -/
def SerLaw (S : Ser B) : Prop := ∀ x b, S.ser x = some b → S.des b = some x

theorem mapM_ser_des {α : Type} (S : Ser B) (hS : SerLaw S) (l : List (Nat × α)) (l' : List (B × α))
    (h : l.mapM (fun p => (S.ser p.1).map fun b => (b, p.2)) = some l') :
    l'.mapM (fun p => (S.des p.1).map fun e => (e, p.2)) = some l := by
  induction l generalizing l' with
  | nil => simp at h; subst h; rfl
  | cons p t ih =>
    obtain ⟨k, a⟩ := p
    rw [List.mapM_cons] at h
    cases hk : S.ser k with
    | none => simp [hk] at h
    | some b =>
      cases ht : t.mapM (fun p => (S.ser p.1).map fun b => (b, p.2)) with
      | none => simp [hk, ht] at h
      | some t' =>
        simp [hk, ht] at h
        subst h
        rw [List.mapM_cons]
        simp [hS k b hk, ih t' ht]

end GoaktVerif.C40

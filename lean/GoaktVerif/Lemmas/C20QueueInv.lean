import GoaktVerif.Lemmas.C20QueueBasic

/-
C20 — the inductive invariant of the repaired queue (`Mode.fresh`: nodes are never recycled).

All nodes ever linked form ONE chain `pre ++ head :: post` (nothing is ever unlinked, `next` is written once);
`post` carries the abstract queue; every other allocated node is owned by exactly one enqueuer that has not
linked it yet.  The ghost log of linearization events replays to the values of `post`.
-/
set_option linter.unusedSimpArgs false
set_option linter.unusedVariables false

namespace GoaktVerif.C20
open GoaktVerif.Model.C20 GoaktVerif.Model.C20.Queue
open GoaktVerif.Spec.C20 (replay enqVals deqVals legal)

/-- the node an enqueuer has allocated but not linked yet -/
def ownedBy (t : Thread) : Option (NodeId × Val) :=
  match t.pc with
  | some (.enqLoadTail n v) => some (n, v)
  | some (.enqLoadNext n v _) => some (n, v)
  | some (.enqHelp n v _ _) => some (n, v)
  | some (.enqLink n v _) => some (n, v)
  | _ => none

/-- what a thread knows about the pointers it has read (`chain` = all linked nodes, `front` = up to head) -/
def LocalOk (c : Cfg) (chain front : List NodeId) (t : Thread) : Prop :=
  match t.pc with
  | some (.enqLoadNext _ _ tl) => tl ∈ chain
  | some (.enqHelp _ _ tl x) => tl ∈ chain ∧ nextOf c tl = some x
  | some (.enqLink _ _ tl) => tl ∈ chain
  | some (.enqSwing n _) => n ∈ chain
  | some (.deqLoadNext _ h) => h ∈ front
  | some (.deqCas _ h x) => h ∈ front ∧ nextOf c h = some x
  | _ => True

/-- program counters that carry no pointer knowledge -/
def simplePc : Option PC → Prop
  | some (.enqLoadNext ..) => False
  | some (.enqHelp ..) => False
  | some (.enqLink ..) => False
  | some (.enqSwing ..) => False
  | some (.deqLoadNext ..) => False
  | some (.deqCas ..) => False
  | _ => True

theorem localOk_of_simple {c chain front} {t : Thread} (h : simplePc t.pc) : LocalOk c chain front t := by
  unfold LocalOk
  unfold simplePc at h
  split <;> simp_all

structure ThreadOk (c : Cfg) (chain front : List NodeId) (t : Thread) : Prop where
  loc : LocalOk c chain front t
  own : ∀ n v, ownedBy t = some (n, v) →
    n < c.nodes.length ∧ n ∉ chain ∧ nextOf c n = none ∧ valOf c n = some v

structure HeapOk (c : Cfg) (pre post : List NodeId) : Prop where
  nodup : (pre ++ c.head :: post).Nodup
  bound : ∀ i ∈ pre ++ c.head :: post, i < c.nodes.length
  linked : Linked c (pre ++ c.head :: post)
  tailIn : c.tail ∈ pre ++ c.head :: post
  vals : ∀ i ∈ post, (valOf c i).isSome
  lin : replay (c.lin.reverse.map (·.2)) [] = some (post.filterMap (valOf c))

/-- two different threads never own the same node -/
def Distinct (ths : List Thread) : Prop :=
  ∀ (i j : Nat) ti tj ni vi nj vj, i ≠ j → ths[i]? = some ti → ths[j]? = some tj →
    ownedBy ti = some (ni, vi) → ownedBy tj = some (nj, vj) → ni ≠ nj

structure Inv (c : Cfg) : Prop where
  mode : c.mode = .fresh
  ex : ∃ pre post, HeapOk c pre post ∧
    (∀ (tid : Nat) t, c.threads[tid]? = some t → ThreadOk c (pre ++ c.head :: post) (pre ++ [c.head]) t) ∧
    Distinct c.threads

/-! ### heap-irrelevant changes -/

/-- `c1` differs from `c` only in fields the invariant does not read (`len`, `active`, `pool`) -/
structure SameHeap (c c1 : Cfg) : Prop where
  nodes : c1.nodes = c.nodes
  head : c1.head = c.head
  tail : c1.tail = c.tail
  lin : c1.lin = c.lin
  mode : c1.mode = c.mode

theorem SameHeap.nextOf {c c1} (s : SameHeap c c1) (i) : nextOf c1 i = nextOf c i := by simp [Queue.nextOf, s.nodes]
theorem SameHeap.valOf {c c1} (s : SameHeap c c1) (i) : valOf c1 i = valOf c i := by simp [Queue.valOf, s.nodes]

theorem SameHeap.heapOk {c c1 pre post} (s : SameHeap c c1) (h : HeapOk c pre post) : HeapOk c1 pre post := by
  have hv : ∀ l : List NodeId, l.filterMap (Queue.valOf c1) = l.filterMap (Queue.valOf c) := by
    intro l; congr 1; funext i; exact s.valOf i
  constructor
  · rw [s.head]; exact h.nodup
  · rw [s.head, s.nodes]; exact h.bound
  · rw [s.head]; exact h.linked.frame (fun i _ => s.nextOf i)
  · rw [s.head, s.tail]; exact h.tailIn
  · intro i hi; rw [s.valOf]; exact h.vals i hi
  · rw [s.lin, hv]; exact h.lin

theorem SameHeap.threadOk {c c1 chain front} {t : Thread} (s : SameHeap c c1) (h : ThreadOk c chain front t) :
    ThreadOk c1 chain front t := by
  constructor
  · have := h.loc
    unfold LocalOk at this ⊢
    split <;> simp_all [s.nextOf]
  · intro n v ho
    obtain ⟨h1, h2, h3, h4⟩ := h.own n v ho
    exact ⟨by rw [s.nodes]; exact h1, h2, by rw [s.nextOf]; exact h3, by rw [s.valOf]; exact h4⟩

/-! ### the update lemma -/

/-- One step seen from the other threads: the heap `c` became `c1` (same thread list), the chain grew from
`chain` to `chain'`, the front from `front` to `front'`; `special` is the node the stepping thread owned. -/
structure Mono (c c1 : Cfg) (chain front chain' front' : List NodeId) (special : Option NodeId) : Prop where
  m1 : ∀ i, i ∈ chain → i ∈ chain'
  m2 : ∀ i, i ∈ front → i ∈ front'
  m3 : ∀ i x, nextOf c i = some x → nextOf c1 i = some x
  m4 : c.nodes.length ≤ c1.nodes.length
  m5 : ∀ n, n ∉ chain → n < c.nodes.length → special ≠ some n →
    n ∉ chain' ∧ nextOf c1 n = nextOf c n ∧ valOf c1 n = valOf c n

theorem threadOk_mono {c c1 chain front chain' front' special} (m : Mono c c1 chain front chain' front' special)
    {t : Thread} (h : ThreadOk c chain front t) (hs : ∀ n v, ownedBy t = some (n, v) → special ≠ some n) :
    ThreadOk c1 chain' front' t := by
  constructor
  · have := h.loc
    unfold LocalOk at this ⊢
    split <;> simp_all
    · exact m.m1 _ this
    · exact ⟨m.m1 _ this.1, m.m3 _ _ this.2⟩
    · exact m.m1 _ this
    · exact m.m1 _ this
    · exact m.m2 _ this
    · exact ⟨m.m2 _ this.1, m.m3 _ _ this.2⟩
  · intro n v ho
    obtain ⟨h1, h2, h3, h4⟩ := h.own n v ho
    obtain ⟨g1, g2, g3⟩ := m.m5 n h2 h1 (hs n v ho)
    exact ⟨Nat.lt_of_lt_of_le h1 m.m4, g1, by rw [g2, h3], by rw [g3, h4]⟩

theorem inv_update {c c1 : Cfg} {tid : Nat} {t t' : Thread} {pre post pre' post' : List NodeId}
    (hmode : c1.mode = .fresh) (hth : c1.threads = c.threads)
    (ht : c.threads[tid]? = some t)
    (hall : ∀ (tid : Nat) t, c.threads[tid]? = some t → ThreadOk c (pre ++ c.head :: post) (pre ++ [c.head]) t)
    (hdist : Distinct c.threads)
    (hheap : HeapOk c1 pre' post')
    (m : Mono c c1 (pre ++ c.head :: post) (pre ++ [c.head]) (pre' ++ c1.head :: post') (pre' ++ [c1.head])
      ((ownedBy t).map (·.1)))
    (hnew : ThreadOk c1 (pre' ++ c1.head :: post') (pre' ++ [c1.head]) t')
    (hown : ∀ n v, ownedBy t' = some (n, v) → ownedBy t = some (n, v) ∨ c.nodes.length ≤ n) :
    Inv { c1 with threads := c1.threads.set tid t' } := by
  have sh : SameHeap c1 { c1 with threads := c1.threads.set tid t' } := ⟨rfl, rfl, rfl, rfl, rfl⟩
  refine ⟨hmode, pre', post', sh.heapOk hheap, ?_, ?_⟩
  · intro j tj hj
    simp only [hth, List.getElem?_set] at hj
    by_cases hjt : tid = j
    · subst hjt
      have hlt : tid < c.threads.length := (List.getElem?_eq_some_iff.mp ht).1
      simp [hlt] at hj
      subst hj
      exact sh.threadOk hnew
    · simp only [hjt, if_false] at hj
      have hok := hall j tj hj
      have := threadOk_mono m hok (by
        intro n v ho
        cases hot : ownedBy t with
        | none => simp
        | some p =>
          obtain ⟨np, vp⟩ := p
          simp only [Option.map_some, ne_eq, Option.some.injEq]
          intro e
          exact hdist tid j t tj np vp n v hjt ht hj hot ho e)
      exact sh.threadOk this
  · intro i j ti tj ni vi nj vj hij hi hj hoi hoj
    simp only [hth, List.getElem?_set] at hi hj
    have hlt : tid < c.threads.length := (List.getElem?_eq_some_iff.mp ht).1
    by_cases hit : tid = i
    · subst hit
      simp [hlt] at hi
      subst hi
      have hjt : ¬ tid = j := hij
      simp only [hjt, if_false] at hj
      cases hown ni vi hoi with
      | inl h => exact hdist tid j t tj ni vi nj vj hij ht hj h hoj
      | inr h =>
        have := ((hall j tj hj).own nj vj hoj).1
        exact fun e => by subst e; exact absurd this (Nat.not_lt.mpr h)
    · simp only [hit, if_false] at hi
      by_cases hjt : tid = j
      · subst hjt
        simp [hlt] at hj
        subst hj
        cases hown nj vj hoj with
        | inl h => exact hdist i tid ti t ni vi nj vj hij hi ht hoi h
        | inr h =>
          have := ((hall i ti hi).own ni vi hoi).1
          exact fun e => by subst e; exact absurd this (Nat.not_lt.mpr h)
      · simp only [hjt, if_false] at hj
        exact hdist i j ti tj ni vi nj vj hij hi hj hoi hoj

/-! ### allocation -/

theorem SameHeap.mono {c c1 : Cfg} (s : SameHeap c c1) (pre post : List NodeId) (special) :
    Mono c c1 (pre ++ c.head :: post) (pre ++ [c.head]) (pre ++ c1.head :: post) (pre ++ [c1.head]) special := by
  constructor
  · intro i hi; rw [s.head]; exact hi
  · intro i hi; rw [s.head]; exact hi
  · intro i x h; rw [s.nextOf]; exact h
  · rw [s.nodes]; exact Nat.le_refl _
  · intro n hn _ _; rw [s.head]; exact ⟨hn, s.nextOf n, s.valOf n⟩

theorem SameHeap.refl (c : Cfg) : SameHeap c c := ⟨rfl, rfl, rfl, rfl, rfl⟩

theorem filterMap_congr' {α β} (f g : α → Option β) : ∀ (l : List α), (∀ a ∈ l, f a = g a) → l.filterMap f = l.filterMap g
  | [], _ => rfl
  | a :: l, h => by
    have ha := h a (by simp)
    have := filterMap_congr' f g l (fun b hb => h b (List.mem_cons_of_mem _ hb))
    simp [List.filterMap_cons, ha, this]

theorem heapOk_alloc {c pre post} (h : HeapOk c pre post) (nd : Node) : HeapOk (alloc c nd) pre post := by
  have hb := h.bound
  have hv : post.filterMap (valOf (alloc c nd)) = post.filterMap (valOf c) := by
    apply filterMap_congr'
    intro i hi
    exact valOf_alloc_old c nd i (hb i (by simp [hi]))
  constructor
  · exact h.nodup
  · intro i hi
    have := hb i hi
    show i < (c.nodes ++ [nd]).length
    rw [List.length_append]
    exact Nat.lt_of_lt_of_le this (Nat.le_add_right _ _)
  · exact h.linked.frame (fun i hi => nextOf_alloc_old c nd i (hb i hi))
  · exact h.tailIn
  · intro i hi
    rw [valOf_alloc_old c nd i (hb i (by simp [hi]))]
    exact h.vals i hi
  · show replay ((alloc c nd).lin.reverse.map (·.2)) [] = _
    rw [hv]; exact h.lin

theorem mono_alloc (c : Cfg) (nd : Node) (pre post : List NodeId) (special) :
    Mono c (alloc c nd) (pre ++ c.head :: post) (pre ++ [c.head]) (pre ++ (alloc c nd).head :: post)
      (pre ++ [(alloc c nd).head]) special := by
  constructor
  · intro i hi; exact hi
  · intro i hi; exact hi
  · intro i x h; rw [nextOf_alloc_old c nd i (nextOf_some_lt c i x h)]; exact h
  · simp [alloc]
  · intro n hn hlt _
    exact ⟨hn, nextOf_alloc_old c nd n hlt, valOf_alloc_old c nd n hlt⟩

theorem Mono.trans {c c1 c2 ch fr ch1 fr1 ch2 fr2 sp} (a : Mono c c1 ch fr ch1 fr1 sp) (b : Mono c1 c2 ch1 fr1 ch2 fr2 none) :
    Mono c c2 ch fr ch2 fr2 sp := by
  constructor
  · intro i hi; exact b.m1 _ (a.m1 _ hi)
  · intro i hi; exact b.m2 _ (a.m2 _ hi)
  · intro i x h; exact b.m3 _ _ (a.m3 _ _ h)
  · exact Nat.le_trans a.m4 b.m4
  · intro n hn hlt hsp
    obtain ⟨g1, g2, g3⟩ := a.m5 n hn hlt hsp
    obtain ⟨k1, k2, k3⟩ := b.m5 n g1 (Nat.lt_of_lt_of_le hlt a.m4) (by simp)
    exact ⟨k1, by rw [k2, g2], by rw [k3, g3]⟩

end GoaktVerif.C20

/-
C11 — the invariant along whole executions of spawn-only operation sequences.
-/
import GoaktVerif.Lemmas.C11Step

namespace GoaktVerif.C11
open GoaktVerif.Model.C11

/-- operations that belong to a spawn (any phase); the stop operations are the complement -/
def spawnOnly : Op → Bool
  | .kill _ | .kBegin _ | .kEnd _ => false
  | _ => true

def parStep (acc : St × List Out) (r : Req) : St × List Out :=
  let (s1, o) := fullSpawn acc.1 r
  (s1, o :: acc.2)

theorem par_ok : ∀ (rs : List Req) (s0 : St) (acc : St × List Out), Inv acc.1 → Keeps s0 acc.1 →
    (∀ o, o ∈ acc.2 → OutOK acc.1 o) →
    Inv (rs.foldl parStep acc).1 ∧ Keeps s0 (rs.foldl parStep acc).1 ∧
    (∀ o, o ∈ (rs.foldl parStep acc).2 → OutOK (rs.foldl parStep acc).1 o)
  | [], _, _, h, k, ok => ⟨h, k, ok⟩
  | r :: rs, s0, acc, h, k, ok => by
    rw [List.foldl_cons]
    obtain ⟨a, b, c⟩ := full_ok h r
    apply par_ok rs s0 (parStep acc r) a (keeps_trans k c)
    intro o ho
    rcases List.mem_cons.mp ho with e | e
    · rw [e]; exact b
    · exact okOf_keeps (ok o e) c

theorem ok_group {s : St} {outs : List Out} (h : ∀ o, o ∈ outs → OutOK s o) : OutOK s (.group outs) := by
  intro q b hm
  simp only [outPids, List.mem_filterMap] at hm
  obtain ⟨o, ho, e⟩ := hm
  cases o with
  | pid p r =>
    simp only [Option.some.injEq, Prod.mk.injEq] at e
    obtain ⟨e1, e2⟩ := e; subst e1; subst e2
    exact h _ ho p r (by simp [outPids])
  | _ => simp at e

theorem ok_trivial (s : St) (o : Out) (h : outPids o = []) : OutOK s o := by
  intro q b hm; rw [h] at hm; cases hm

/-- the invariant only reads the process table, tree, name index, counter, flights and stops -/
theorem inv_congr {s s' : St} (h : Inv s) (e1 : s'.procs = s.procs) (e2 : s'.tree = s.tree) (e3 : s'.names = s.names)
    (e4 : s'.counter = s.counter) (e5 : s'.flights = s.flights) (e6 : s'.stops = s.stops) : Inv s' where
  treeRun := by
    intro k p hm; rw [e2] at hm
    rw [phaseOf_congr e1, pathOf_congr e1]; exact h.treeRun k p hm
  runTree := by
    intro p hp; rw [phaseOf_congr e1] at hp
    rw [e2, pathOf_congr e1]; exact h.runTree p hp
  namesRun := by
    intro n q hq; rw [e3] at hq
    rw [phaseOf_congr e1]; exact h.namesRun n q hq
  treeNames := by
    intro k p hp; rw [e2] at hp
    rw [e3]; exact h.treeNames k p hp
  flights := by
    intro k p kind hm; rw [e5] at hm
    rw [phaseOf_congr e1, pathOf_congr e1, e2]; exact h.flights k p kind hm
  keys := by rw [e5]; exact h.keys
  count := by
    rw [e4, h.count]; unfold runningCount isRunning
    rw [e1]
    apply congrArg
    apply filter_range_congr
    intro i _
    rw [phaseOf_congr e1]
  noStops := by rw [e6]; exact h.noStops

theorem keeps_congr {s s' : St} (e1 : s'.procs = s.procs) : Keeps s s' := by
  intro q hq; rw [phaseOf_congr e1]; exact hq

theorem okOf_congr {s s' : St} {o : Out} (h : OutOK s o) (e1 : s'.procs = s.procs) : OutOK s' o :=
  okOf_keeps h (keeps_congr e1)

theorem step_ok {s : St} (h : Inv s) (op : Op) (hop : spawnOnly op = true) :
    Inv (step s op).1 ∧ OutOK (step s op).1 (step s op).2 ∧ Keeps s (step s op).1 := by
  cases op with
  | full r => exact full_ok h r
  | sBegin r =>
    simp only [step]
    cases hopen : flightOpen s r.path with
    | true => simp only [if_true]; exact ⟨h, ok_trivial _ _ rfl, keeps_refl s⟩
    | false =>
      simp only [Bool.false_eq_true, if_false]
      rcases begin_cases h r hopen with ⟨o, e, ok⟩ | ⟨e, hinv⟩
      · rw [e]; exact ⟨h, ok, keeps_refl s⟩
      · rw [e]; exact ⟨hinv, ok_trivial _ _ rfl, keeps_addProc s r.path r.kind⟩
  | sEnd key =>
    simp only [step]
    cases hf : s.flights.find? (·.1 = key) with
    | none => exact ⟨h, ok_trivial _ _ rfl, keeps_refl s⟩
    | some x =>
      obtain ⟨k, p, kind⟩ := x
      have hk : k = key := by simpa using List.find?_some hf
      subst hk
      obtain ⟨a, b, c, d⟩ := inv_end h k p kind (List.mem_of_find?_eq_some hf)
      simp only []
      refine ⟨inv_congr a rfl rfl rfl rfl rfl rfl, ?_, keeps_trans d (keeps_congr rfl)⟩
      rw [b]; exact okOf_congr (okPid_end c) rfl
  | par rs =>
    simp only [step]
    split
    · exact ⟨h, ok_trivial _ _ rfl, keeps_refl s⟩
    · split
      · exact ⟨h, ok_trivial _ _ rfl, keeps_refl s⟩
      · split
        · exact ⟨h, ok_trivial _ _ rfl, keeps_refl s⟩
        · obtain ⟨a, b, c⟩ := par_ok rs s (s, []) h (keeps_refl s) (fun o ho => by cases ho)
          refine ⟨a, ?_, b⟩
          apply ok_group
          intro o ho
          exact c o (List.mem_reverse.mp ho)
  | kill p => cases hop
  | kBegin p => cases hop
  | kEnd p => cases hop
  | bad => exact ⟨h, ok_trivial _ _ rfl, keeps_refl s⟩
  | follow r =>
    simp only [step]
    split
    · exact ⟨h, ok_trivial _ _ rfl, keeps_refl s⟩
    · split
      · rename_i o ho
        refine ⟨h, ?_, keeps_refl s⟩
        -- outputs of the pre-flight checks carry no un-shared PID
        have : outPids o = [] := by
          unfold preFlight at ho
          (repeat' split at ho) <;> first | (cases ho; done) | (injection ho with ho; subst ho; rfl) | (cases ho; rfl)
        exact ok_trivial _ _ this
      · exact ⟨inv_congr h rfl rfl rfl rfl rfl rfl, ok_trivial _ _ rfl, keeps_congr rfl⟩
  | cancel key =>
    simp only [step]
    split
    · split
      · exact ⟨inv_congr h rfl rfl rfl rfl rfl rfl, ok_trivial _ _ rfl, keeps_congr rfl⟩
      · exact ⟨inv_congr h rfl rfl rfl rfl rfl rfl, ok_trivial _ _ rfl, keeps_congr rfl⟩
    · exact ⟨h, ok_trivial _ _ rfl, keeps_refl s⟩
  | join key =>
    simp only [step]
    split
    · exact ⟨h, ok_trivial _ _ rfl, keeps_refl s⟩
    · split
      · exact ⟨inv_congr h rfl rfl rfl rfl rfl rfl, ok_trivial _ _ rfl, keeps_congr rfl⟩
      · exact ⟨h, ok_trivial _ _ rfl, keeps_refl s⟩

theorem run_ok : ∀ (ops : List Op) (s : St), Inv s → ops.all spawnOnly = true →
    Inv (run s ops).1 ∧ Keeps s (run s ops).1 ∧ (∀ o, o ∈ (run s ops).2 → OutOK (run s ops).1 o)
  | [], s, h, _ => ⟨h, keeps_refl s, fun o ho => by cases ho⟩
  | op :: ops, s, h, hall => by
    simp only [List.all_cons, Bool.and_eq_true] at hall
    obtain ⟨a, b, c⟩ := step_ok h op hall.1
    obtain ⟨a2, b2, c2⟩ := run_ok ops (step s op).1 a hall.2
    simp only [run]
    refine ⟨a2, keeps_trans c b2, ?_⟩
    intro o ho
    rcases List.mem_cons.mp ho with e | e
    · rw [e]; exact okOf_keeps b b2
    · exact c2 o e

/-! ### consequences -/

theorem live_le_one {s : St} (h : Inv s) (k : Path) : liveCount s k ≤ 1 := by
  unfold liveCount
  apply filter_le_one _ _ List.nodup_range
  intro a b _ _ pa pb
  simp only [Bool.and_eq_true, decide_eq_true_eq, isRunning] at pa pb
  have ha := h.runTree a pa.2
  have hb := h.runTree b pb.2
  rw [pa.1] at ha; rw [pb.1] at hb
  rw [ha] at hb; injection hb

theorem same_pid {s : St} (h : Inv s) (p q : ProcId) (hp : phaseOf s p = .running) (hq : phaseOf s q = .running)
    (e : pathOf s p = pathOf s q) : p = q := by
  have ha := h.runTree p hp
  have hb := h.runTree q hq
  rw [e, hb] at ha; injection ha with ha; exact ha.symm

end GoaktVerif.C11

/-
C25 helper lemmas: the selection loops of the dispatch.
-/
import GoaktVerif.Model.C25
import GoaktVerif.Spec.C25

namespace GoaktVerif.C25
open GoaktVerif.Model.C25 GoaktVerif.Spec.C25

variable {M : Type}

/-- "no entry mis-decodes": every registered entry either rejects the bytes or decodes them to `m` -/
def Agree (es : List (Entry M)) (d : Bytes) (m : M) : Prop :=
  ∀ e ∈ es, ∀ m', e.deser d = .ok m' → m' = m

theorem deserLoop_agree (es : List (Entry M)) (d : Bytes) (m : M) (last : Option Err)
    (hag : Agree es d m) (hex : ∃ e ∈ es, e.deser d = .ok m) : deserLoop es d last = .ok m := by
  induction es generalizing last with
  | nil => obtain ⟨e, he, _⟩ := hex; cases he
  | cons e es ih =>
    unfold deserLoop
    cases hd : e.deser d with
    | ok m' =>
      have := hag e (List.mem_cons_self) m' hd
      simp [this]
    | error err =>
      simp only
      apply ih
      · intro e' he' m' h'; exact hag e' (List.mem_cons_of_mem _ he') m' h'
      · obtain ⟨e', he', h'⟩ := hex
        rcases List.mem_cons.mp he' with rfl | hm
        · rw [hd] at h'; cases h'
        · exact ⟨e', hm, h'⟩

theorem deserLoop_ok_mem (es : List (Entry M)) (d : Bytes) (m : M) (last : Option Err)
    (h : deserLoop es d last = .ok m) : ∃ e ∈ es, e.deser d = .ok m := by
  induction es generalizing last with
  | nil => cases last <;> simp [deserLoop] at h
  | cons e es ih =>
    unfold deserLoop at h
    cases hd : e.deser d with
    | ok m' =>
      rw [hd] at h; simp only at h
      cases h
      exact ⟨e, List.mem_cons_self, hd⟩
    | error err =>
      rw [hd] at h; simp only at h
      obtain ⟨e', he', h'⟩ := ih _ h
      exact ⟨e', List.mem_cons_of_mem _ he', h'⟩

theorem deserLoop_all_fail (es : List (Entry M)) (d : Bytes) (last : Option Err)
    (h : ∀ e ∈ es, ∀ m, e.deser d ≠ .ok m) : ∃ err, deserLoop es d last = .error err := by
  induction es generalizing last with
  | nil => cases last <;> simp [deserLoop]
  | cons e es ih =>
    unfold deserLoop
    cases hd : e.deser d with
    | ok m' => exact absurd hd (h e List.mem_cons_self m')
    | error err =>
      simp only
      exact ih _ (fun e' he' => h e' (List.mem_cons_of_mem _ he'))

theorem firstProto_mem (es : List (Entry M)) (p : Entry M) (h : firstProto es = some p) : p ∈ es := by
  induction es with
  | nil => simp [firstProto] at h
  | cons e es ih =>
    unfold firstProto at h
    split at h
    · cases h; exact List.mem_cons_self
    · exact List.mem_cons_of_mem _ (ih h)

theorem dispDeserialize_agree (reg : Bytes → Bool) (es : List (Entry M)) (d : Bytes) (m : M)
    (hag : Agree es d m) (hex : ∃ e ∈ es, e.deser d = .ok m) : dispDeserialize reg es d = .ok m := by
  have hl := deserLoop_agree es d m none hag hex
  unfold dispDeserialize
  split
  · exact hl
  · rename_i p hp
    split
    · exact hl
    · split
      · cases hd : p.deser d with
        | ok m' =>
          have := hag p (firstProto_mem es p hp) m' hd
          simp [this]
        | error err => simpa using hl
      · exact hl

/-- whatever `Deserialize` returns was decoded by one of the registered serializers -/
theorem dispDeserialize_ok_mem (reg : Bytes → Bool) (es : List (Entry M)) (d : Bytes) (m : M)
    (h : dispDeserialize reg es d = .ok m) : ∃ e ∈ es, e.deser d = .ok m := by
  unfold dispDeserialize at h
  split at h
  · exact deserLoop_ok_mem es d m none h
  · rename_i p hp
    split at h
    · exact deserLoop_ok_mem es d m none h
    · split at h
      · cases hd : p.deser d with
        | ok m' =>
          rw [hd] at h; simp only at h; cases h
          exact ⟨p, firstProto_mem es p hp, hd⟩
        | error err =>
          rw [hd] at h; simp only at h
          exact deserLoop_ok_mem es d m none h
      · exact deserLoop_ok_mem es d m none h

/-! ### resolve (send path) -/

theorem resolveFrom_none (es : List (Entry M)) (m : M) (k : Nat) :
    resolveFrom es m k = none ↔ ∀ e ∈ es, e.accepts m = false := by
  induction es generalizing k with
  | nil => simp [resolveFrom]
  | cons e es ih =>
    unfold resolveFrom
    by_cases ha : e.accepts m
    · simp [ha]
    · simp [ha, ih]

/-- the chosen index is the FIRST entry whose type test passes -/
theorem resolveFrom_some (es : List (Entry M)) (m : M) (k i : Nat) (h : resolveFrom es m k = some i) :
    ∃ (j : Nat) (e : Entry M), i = k + j ∧ es[j]? = some e ∧ e.accepts m = true ∧
      ∀ (j' : Nat) (e' : Entry M), j' < j → es[j']? = some e' → e'.accepts m = false := by
  induction es generalizing k with
  | nil => simp [resolveFrom] at h
  | cons e es ih =>
    unfold resolveFrom at h
    by_cases ha : e.accepts m
    · simp [ha] at h
      refine ⟨0, e, by omega, rfl, ha, ?_⟩
      intro j' e' hj; omega
    · simp [ha] at h
      obtain ⟨j, e1, hi, hj, hacc, hbefore⟩ := ih (k + 1) h
      refine ⟨j + 1, e1, by omega, by simpa using hj, hacc, ?_⟩
      intro j' e' hlt hget
      cases j' with
      | zero => simp at hget; subst hget; simpa using ha
      | succ j'' => exact hbefore j'' e' (by omega) (by simpa using hget)

theorem getElem?_mem' {α} (l : List α) (i : Nat) (a : α) (h : l[i]? = some a) : a ∈ l :=
  List.mem_of_getElem? h

/-! ### serLoop -/

theorem serLoop_ok (es : List (Entry M)) (m : M) (d : Bytes) (last : Option Err)
    (h : serLoop es m last = .ok d) :
    ∃ (j : Nat) (e : Entry M), es[j]? = some e ∧ e.ser m = .ok d ∧
      ∀ (j' : Nat) (e' : Entry M), j' < j → es[j']? = some e' → ∃ err, e'.ser m = .error err := by
  induction es generalizing last with
  | nil => cases last <;> simp [serLoop] at h
  | cons e es ih =>
    unfold serLoop at h
    cases hs : e.ser m with
    | ok d' =>
      rw [hs] at h; simp only at h; cases h
      exact ⟨0, e, rfl, hs, by intro j' e' hj; omega⟩
    | error err =>
      rw [hs] at h; simp only at h
      obtain ⟨j, e1, hj, hser, hbefore⟩ := ih _ h
      refine ⟨j + 1, e1, by simpa using hj, hser, ?_⟩
      intro j' e' hlt hget
      cases j' with
      | zero => simp at hget; subst hget; exact ⟨err, hs⟩
      | succ j'' => exact hbefore j'' e' (by omega) (by simpa using hget)

theorem serLoop_all_fail (es : List (Entry M)) (m : M) (last : Option Err)
    (h : ∀ e ∈ es, ∀ d, e.ser m ≠ .ok d) : ∃ err, serLoop es m last = .error err := by
  induction es generalizing last with
  | nil => cases last <;> simp [serLoop]
  | cons e es ih =>
    unfold serLoop
    cases hs : e.ser m with
    | ok d => exact absurd hs (h e List.mem_cons_self d)
    | error err =>
      simp only
      exact ih _ (fun e' he' => h e' (List.mem_cons_of_mem _ he'))

/-! ### documented rule vs implemented rule -/

theorem resolveDocFrom_unshadowed (es : List (Entry M)) (m : M) (k : Nat) (h : shadowedFrom es m false = false) :
    resolveDocFrom es m k none = resolveFrom es m k := by
  induction es generalizing k with
  | nil => simp [resolveDocFrom, resolveFrom]
  | cons e es ih =>
    unfold resolveDocFrom resolveFrom
    unfold shadowedFrom at h
    by_cases ha : e.accepts m
    · by_cases hx : e.exact
      · simp [ha, hx]
      · simp only [ha, hx, if_true] at h ⊢
        -- an interface entry accepted first: no exact entry accepting m may follow
        have key : ∀ (es : List (Entry M)) (k j : Nat), shadowedFrom es m true = false →
            resolveDocFrom es m k (some j) = some j := by
          intro es
          induction es with
          | nil => intro k j _; simp [resolveDocFrom]
          | cons e' es' ih' =>
            intro k j hs
            unfold resolveDocFrom
            unfold shadowedFrom at hs
            by_cases ha' : e'.accepts m
            · by_cases hx' : e'.exact
              · simp [ha', hx'] at hs
              · simp only [ha', hx', if_true] at hs ⊢
                exact ih' _ _ hs
            · simp only [ha'] at hs ⊢
              exact ih' _ _ hs
        simpa using key es (k + 1) k h
    · simp only [ha] at h ⊢
      exact ih (k + 1) h

end GoaktVerif.C25

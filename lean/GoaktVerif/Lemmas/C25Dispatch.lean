/-
C25 helper lemmas: the selection loops of the dispatch.
-/
import GoaktVerif.Model.C25
import GoaktVerif.Spec.C25

namespace GoaktVerif.C25
open GoaktVerif.Model.C25 GoaktVerif.Spec.C25

variable {M : Type}

/-- "no entry mis-decodes": every registered entry either rejects the bytes or decodes them to `m` -/
def Agree (es : List (Entry M)) (d : Bytes) (m : M) : Prop :=
  ∀ e ∈ es, ∀ m', e.deser d = .ok m' → m' = m

theorem deserLoop_agree (es : List (Entry M)) (d : Bytes) (m : M) (last : Option Err)
    (hag : Agree es d m) (hex : ∃ e ∈ es, e.deser d = .ok m) : deserLoop es d last = .ok m := by
  induction es generalizing last with
  | nil => obtain ⟨e, he, _⟩ := hex; cases he
  | cons e es ih =>
    unfold deserLoop
    cases hd : e.deser d with
    | ok m' =>
      have := hag e (List.mem_cons_self) m' hd
      simp [this]
    | error err =>
      simp only
      apply ih
      · intro e' he' m' h'; exact hag e' (List.mem_cons_of_mem _ he') m' h'
      · obtain ⟨e', he', h'⟩ := hex
        rcases List.mem_cons.mp he' with rfl | hm
        · rw [hd] at h'; cases h'
        · exact ⟨e', hm, h'⟩

theorem deserLoop_ok_mem (es : List (Entry M)) (d : Bytes) (m : M) (last : Option Err)
    (h : deserLoop es d last = .ok m) : ∃ e ∈ es, e.deser d = .ok m := by
  induction es generalizing last with
  | nil => cases last <;> simp [deserLoop] at h
  | cons e es ih =>
    unfold deserLoop at h
    cases hd : e.deser d with
    | ok m' =>
      rw [hd] at h; simp only at h
      cases h
      exact ⟨e, List.mem_cons_self, hd⟩
    | error err =>
      rw [hd] at h; simp only at h
      obtain ⟨e', he', h'⟩ := ih _ h
      exact ⟨e', List.mem_cons_of_mem _ he', h'⟩

theorem deserLoop_all_fail (es : List (Entry M)) (d : Bytes) (last : Option Err)
    (h : ∀ e ∈ es, ∀ m, e.deser d ≠ .ok m) : ∃ err, deserLoop es d last = .error err := by
  induction es generalizing last with
  | nil => cases last <;> simp [deserLoop]
  | cons e es ih =>
    unfold deserLoop
    cases hd : e.deser d with
    | ok m' => exact absurd hd (h e List.mem_cons_self m')
    | error err =>
      simp only
      exact ih _ (fun e' he' => h e' (List.mem_cons_of_mem _ he'))

theorem firstProto_mem (es : List (Entry M)) (p : Entry M) (h : firstProto es = some p) : p ∈ es := by
  induction es with
  | nil => simp [firstProto] at h
  | cons e es ih =>
    unfold firstProto at h
    split at h
    · cases h; exact List.mem_cons_self
    · exact List.mem_cons_of_mem _ (ih h)

theorem dispDeserialize_agree (reg : Bytes → Bool) (es : List (Entry M)) (d : Bytes) (m : M)
    (hag : Agree es d m) (hex : ∃ e ∈ es, e.deser d = .ok m) : dispDeserialize reg es d = .ok m := by
  have hl := deserLoop_agree es d m none hag hex
  unfold dispDeserialize
  split
  · exact hl
  · rename_i p hp
    split
    · exact hl
    · split
      · cases hd : p.deser d with
        | ok m' =>
          have := hag p (firstProto_mem es p hp) m' hd
          simp [this]
        | error err => simpa using hl
      · exact hl

/-- whatever `Deserialize` returns was decoded by one of the registered serializers -/
theorem dispDeserialize_ok_mem (reg : Bytes → Bool) (es : List (Entry M)) (d : Bytes) (m : M)
    (h : dispDeserialize reg es d = .ok m) : ∃ e ∈ es, e.deser d = .ok m := by
  unfold dispDeserialize at h
  split at h
  · exact deserLoop_ok_mem es d m none h
  · rename_i p hp
    split at h
    · exact deserLoop_ok_mem es d m none h
    · split at h
      · cases hd : p.deser d with
        | ok m' =>
          rw [hd] at h; simp only at h; cases h
          exact ⟨p, firstProto_mem es p hp, hd⟩
        | error err =>
          rw [hd] at h; simp only at h
          exact deserLoop_ok_mem es d m none h
      · exact deserLoop_ok_mem es d m none h

/-! ### resolve (send path; two-rule loop after fix C25-F1) -/

theorem resolveFrom_none (es : List (Entry M)) (m : M) (k : Nat) :
    resolveFrom es m k none = none ↔ ∀ e ∈ es, e.accepts m = false := by
  have key : ∀ (es : List (Entry M)) (k j : Nat), resolveFrom es m k (some j) ≠ none := by
    intro es
    induction es with
    | nil => intro k j; simp [resolveFrom]
    | cons e es ih =>
      intro k j
      unfold resolveFrom
      by_cases ha : e.accepts m <;> by_cases hx : e.exact <;> simp [ha, hx, ih]
  induction es generalizing k with
  | nil => simp [resolveFrom]
  | cons e es ih =>
    unfold resolveFrom
    by_cases ha : e.accepts m
    · by_cases hx : e.exact
      · simp [ha, hx]
      · simp [ha, hx, key]
    · simp [ha, ih]

/-- whatever the loop returns is the index of an entry whose type test passes -/
theorem resolveFrom_accepts (full pre es : List (Entry M)) (m : M) (fi : Option Nat) (i : Nat)
    (hfull : full = pre ++ es)
    (hfi : ∀ j, fi = some j → ∃ e, full[j]? = some e ∧ e.accepts m = true)
    (h : resolveFrom es m pre.length fi = some i) :
    ∃ e, full[i]? = some e ∧ e.accepts m = true := by
  induction es generalizing pre fi with
  | nil => simp [resolveFrom] at h; exact hfi i h
  | cons e es ih =>
    have hget : full[pre.length]? = some e := by simp [hfull]
    have hfull' : full = (pre ++ [e]) ++ es := by simp [hfull]
    have hlen : (pre ++ [e]).length = pre.length + 1 := by simp
    unfold resolveFrom at h
    by_cases ha : e.accepts m
    · by_cases hx : e.exact
      · simp [ha, hx] at h; subst h; exact ⟨e, hget, ha⟩
      · simp only [ha, hx, if_true] at h
        rw [← hlen] at h
        refine ih (pre ++ [e]) _ hfull' ?_ h
        intro j hj
        cases fi with
        | none => simp at hj; subst hj; exact ⟨e, hget, ha⟩
        | some j0 => simp at hj; subst hj; exact hfi j0 rfl
    · simp only [ha] at h
      rw [← hlen] at h
      exact ih (pre ++ [e]) fi hfull' hfi h

/-- an exact-type entry that accepts the message wins wherever it sits: the first such entry is returned -/
theorem resolveFrom_exact (es : List (Entry M)) (m : M) (k : Nat) (fi : Option Nat) (j : Nat) (e : Entry M)
    (hj : es[j]? = some e) (ha : e.accepts m = true) (hx : e.exact = true)
    (hfirst : ∀ (j' : Nat) (e' : Entry M), j' < j → es[j']? = some e' → ¬ (e'.accepts m = true ∧ e'.exact = true)) :
    resolveFrom es m k fi = some (k + j) := by
  induction es generalizing k fi j with
  | nil => simp at hj
  | cons e0 es ih =>
    cases j with
    | zero =>
      simp at hj; subst hj
      simp [resolveFrom, ha, hx]
    | succ j =>
      have h0 := hfirst 0 e0 (by omega) rfl
      have hrest : ∀ (j' : Nat) (e' : Entry M), j' < j → es[j']? = some e' → ¬ (e'.accepts m = true ∧ e'.exact = true) :=
        fun j' e' hlt hg => hfirst (j' + 1) e' (by omega) (by simpa using hg)
      unfold resolveFrom
      by_cases ha0 : e0.accepts m
      · have hx0 : e0.exact = false := by
          cases hh : e0.exact with
          | false => rfl
          | true => exact absurd ⟨ha0, hh⟩ h0
        simp only [ha0, hx0, if_true]
        rw [ih (k + 1) _ j (by simpa using hj) hrest, show k + 1 + j = k + (j + 1) by omega]
        simp
      · simp only [ha0]
        rw [ih (k + 1) fi j (by simpa using hj) hrest, show k + 1 + j = k + (j + 1) by omega]
        simp

theorem getElem?_mem' {α} (l : List α) (i : Nat) (a : α) (h : l[i]? = some a) : a ∈ l :=
  List.mem_of_getElem? h

/-! ### serLoop -/

theorem serLoop_ok (es : List (Entry M)) (m : M) (d : Bytes) (last : Option Err)
    (h : serLoop es m last = .ok d) :
    ∃ (j : Nat) (e : Entry M), es[j]? = some e ∧ e.ser m = .ok d ∧
      ∀ (j' : Nat) (e' : Entry M), j' < j → es[j']? = some e' → ∃ err, e'.ser m = .error err := by
  induction es generalizing last with
  | nil => cases last <;> simp [serLoop] at h
  | cons e es ih =>
    unfold serLoop at h
    cases hs : e.ser m with
    | ok d' =>
      rw [hs] at h; simp only at h; cases h
      exact ⟨0, e, rfl, hs, by intro j' e' hj; omega⟩
    | error err =>
      rw [hs] at h; simp only at h
      obtain ⟨j, e1, hj, hser, hbefore⟩ := ih _ h
      refine ⟨j + 1, e1, by simpa using hj, hser, ?_⟩
      intro j' e' hlt hget
      cases j' with
      | zero => simp at hget; subst hget; exact ⟨err, hs⟩
      | succ j'' => exact hbefore j'' e' (by omega) (by simpa using hget)

theorem serLoop_all_fail (es : List (Entry M)) (m : M) (last : Option Err)
    (h : ∀ e ∈ es, ∀ d, e.ser m ≠ .ok d) : ∃ err, serLoop es m last = .error err := by
  induction es generalizing last with
  | nil => cases last <;> simp [serLoop]
  | cons e es ih =>
    unfold serLoop
    cases hs : e.ser m with
    | ok d => exact absurd hs (h e List.mem_cons_self d)
    | error err =>
      simp only
      exact ih _ (fun e' he' => h e' (List.mem_cons_of_mem _ he'))

/-! ### documented rule = implemented rule -/

theorem resolveFrom_eq_doc (es : List (Entry M)) (m : M) (k : Nat) (fi : Option Nat) :
    resolveFrom es m k fi = resolveDocFrom es m k fi := by
  induction es generalizing k fi with
  | nil => rfl
  | cons e es ih => unfold resolveFrom resolveDocFrom; simp [ih]

end GoaktVerif.C25

/-
Helper lemmas for Props/C26: the string primitives of Model/C26 on concatenations, decimal
digits round-trip, and what the name pattern excludes.
-/
import GoaktVerif.Model.C26

namespace GoaktVerif.C26
open GoaktVerif.Model.C26

/-! ### Cut on a one-character separator -/

theorem hasPrefix_single (c x : Char) (xs : Str) : hasPrefix (x :: xs) [c] = (x == c) := by
  simp [hasPrefix]

theorem cut_single (c : Char) (pre post : Str) (h : c ∉ pre) :
    cut? [c] (pre ++ c :: post) = some (pre, post) := by
  induction pre with
  | nil => simp [cut?, hasPrefix]
  | cons x xs ih =>
    have hx : x ≠ c := fun e => h (by simp [e])
    have hxs : c ∉ xs := fun e => h (by simp [e])
    simp [cut?, hasPrefix, hx, ih hxs]

theorem cut_single_none (c : Char) (s : Str) (h : c ∉ s) : cut? [c] s = none := by
  induction s with
  | nil => simp [cut?]
  | cons x xs ih =>
    have hx : x ≠ c := fun e => h (by simp [e])
    have hxs : c ∉ xs := fun e => h (by simp [e])
    simp [cut?, hasPrefix, hx, ih hxs]

theorem contains_single_false (c : Char) (s : Str) (h : c ∉ s) : contains s [c] = false := by
  simp [contains, cut_single_none c s h]

/-! ### "://" needs two adjacent slashes -/

def dblSlash : Str → Bool
  | [] => false
  | [_] => false
  | a :: b :: t => (a == '/' && b == '/') || dblSlash (b :: t)

theorem dblSlash_of_contains (s : Str) (h : contains s sepScheme = true) : dblSlash s = true := by
  induction s with
  | nil => simp [contains, cut?, sepScheme] at h
  | cons x xs ih =>
    unfold contains at h ih
    simp only [cut?] at h
    split at h
    · rename_i hp
      match xs, hp with
      | [], hp => simp [hasPrefix, sepScheme] at hp
      | [_], hp => simp [hasPrefix, sepScheme] at hp
      | a :: b :: t, hp =>
        simp [hasPrefix, sepScheme] at hp
        simp [dblSlash, hp.2.1, hp.2.2]
    · have : (cut? sepScheme xs).isSome = true := by
        cases hc : cut? sepScheme xs with
        | none => simp [hc] at h
        | some v => simp
      have := ih this
      match xs, this with
      | b :: t, this => simp [dblSlash, this]

theorem dblSlash_noSlash (s : Str) (h : '/' ∉ s) : dblSlash s = false := by
  induction s with
  | nil => rfl
  | cons x xs ih =>
    have hx : x ≠ '/' := fun e => h (by simp [e])
    have hxs : '/' ∉ xs := fun e => h (by simp [e])
    cases xs with
    | nil => rfl
    | cons b t => simp [dblSlash, hx, ih hxs]

/-- a slash-free block, one slash, then something that neither starts with a slash nor has a
    double slash: no double slash -/
theorem dblSlash_join (A B : Str) (hA : '/' ∉ A) (hB0 : hasPrefix B ['/'] = false) (hB : dblSlash B = false) :
    dblSlash (A ++ '/' :: B) = false := by
  induction A with
  | nil =>
    cases B with
    | nil => rfl
    | cons b t =>
      have : b ≠ '/' := by simpa [hasPrefix] using hB0
      simp [dblSlash, this, hB]
  | cons x xs ih =>
    have hx : x ≠ '/' := fun e => hA (by simp [e])
    have hxs : '/' ∉ xs := fun e => hA (by simp [e])
    have := ih hxs
    cases xs with
    | nil => simpa [dblSlash, hx] using this
    | cons y ys => simp only [List.cons_append] at this ⊢; simp [dblSlash, hx, this]

/-! ### LastIndex and the two slices -/

theorem lastIndex_none (c : Char) (s : Str) (h : c ∉ s) : lastIndex c s = none := by
  induction s with
  | nil => rfl
  | cons x xs ih =>
    have hx : x ≠ c := fun e => h (by simp [e])
    have hxs : c ∉ xs := fun e => h (by simp [e])
    simp [lastIndex, ih hxs, hx]

theorem lastIndex_join (c : Char) (pre post : Str) (h : c ∉ post) :
    lastIndex c (pre ++ c :: post) = some pre.length := by
  induction pre with
  | nil => simp [lastIndex, lastIndex_none c post h]
  | cons x xs ih => simp [lastIndex, ih]

/-- LastIndex returns an index inside the string: both slice expressions of Parse are in range -/
theorem lastIndex_lt (c : Char) (s : Str) (i : Nat) (h : lastIndex c s = some i) : i < s.length := by
  induction s generalizing i with
  | nil => simp [lastIndex] at h
  | cons x xs ih =>
    simp only [lastIndex] at h
    cases hl : lastIndex c xs with
    | some j =>
      simp [hl] at h
      have := ih j hl
      simp; omega
    | none =>
      simp [hl] at h
      simp; omega

theorem sliceTo_join (pre post : Str) : sliceTo (pre ++ post) pre.length = some pre := by
  simp [sliceTo]

theorem sliceFrom_join (c : Char) (pre post : Str) : sliceFrom (pre ++ c :: post) (pre.length + 1) = some post := by
  simp [sliceFrom]

/-! ### decimal digits -/

theorem digitChar_toNat (d : Nat) (h : d < 10) : (digitChar d).toNat = 48 + d := by
  unfold digitChar
  have : (48 + d).isValidChar := by
    left; omega
  simp [Char.ofNat, this, Char.toNat, Char.ofNatAux]
  omega

theorem isDigit_digitChar (d : Nat) (h : d < 10) : isDigit (digitChar d) = true := by
  simp [isDigit, digitChar_toNat d h]
  omega

theorem digitVal_digitChar (d : Nat) (h : d < 10) : digitVal (digitChar d) = d := by
  simp [digitVal, digitChar_toNat d h]

theorem natDigits_all (n : Nat) : ∀ c ∈ natDigits n, isDigit c = true := by
  induction n using natDigits.induct with
  | case1 n h =>
    intro c hc
    rw [natDigits, if_pos h] at hc
    simp at hc; subst hc; exact isDigit_digitChar n h
  | case2 n h ih =>
    intro c hc
    rw [natDigits, if_neg h] at hc
    simp at hc
    rcases hc with hc | hc
    · exact ih c hc
    · subst hc; exact isDigit_digitChar _ (Nat.mod_lt _ (by omega))

theorem natDigits_ne_nil (n : Nat) : natDigits n ≠ [] := by
  rw [natDigits]; split <;> simp

theorem parseUint_snoc (acc : Nat) (xs : Str) (c : Char) :
    parseUint acc (xs ++ [c]) = (match parseUint acc xs with
      | .ok v => parseUint v [c]
      | .error e => .error e) := by
  induction xs generalizing acc with
  | nil => simp [parseUint]
  | cons x t ih =>
    simp only [List.cons_append, parseUint]
    split
    · rfl
    · split
      · rfl
      · exact ih _

theorem parseUint_natDigits (n : Nat) (h : n < 2^64) : parseUint 0 (natDigits n) = .ok n := by
  induction n using natDigits.induct with
  | case1 n hn =>
    rw [natDigits, if_pos hn]
    simp [parseUint, isDigit_digitChar n hn, digitVal_digitChar n hn]
    omega
  | case2 n hn ih =>
    rw [natDigits, if_neg hn, parseUint_snoc, ih (by omega)]
    have hm : n % 10 < 10 := Nat.mod_lt _ (by omega)
    simp only [parseUint, isDigit_digitChar _ hm, digitVal_digitChar _ hm, Bool.not_true, Bool.false_eq_true, if_false]
    have : n / 10 * 10 + n % 10 = n := by omega
    rw [this, if_neg (by omega)]

theorem isDigit_ne (c : Char) (h : isDigit c = true) : c ≠ '+' ∧ c ≠ '-' ∧ c ≠ ':' ∧ c ≠ '/' ∧ c ≠ '@' := by
  refine ⟨?_, ?_, ?_, ?_, ?_⟩ <;> (intro e; subst e; revert h; decide)

/-- ParseInt32 reads back what AppendInt wrote, for every port Validate can accept (and more) -/
theorem parseInt32_intDigits (p : Int) (h0 : 0 ≤ p) (h1 : p < 2^31) : parseInt32 (intDigits p) = .ok p := by
  obtain ⟨n, rfl⟩ := Int.eq_ofNat_of_zero_le h0
  have hn : n < 2^31 := by omega
  unfold intDigits
  rw [if_neg (by omega)]
  simp only [Int.natAbs_natCast]
  have hne := natDigits_ne_nil n
  have hall := natDigits_all n
  have hpu := parseUint_natDigits n (by omega)
  cases hd : natDigits n with
  | nil => exact absurd hd hne
  | cons c cs =>
    have hc := isDigit_ne c (hall c (by simp [hd]))
    rw [hd] at hpu
    simp [parseInt32, hc.1, hc.2.1, hpu]
    rw [if_neg (by omega), if_neg (by omega)]

theorem intDigits_clean (p : Int) (h0 : 0 ≤ p) : ∀ c ∈ intDigits p, c ≠ ':' ∧ c ≠ '/' ∧ c ≠ '@' := by
  intro c hc
  unfold intDigits at hc
  rw [if_neg (by omega)] at hc
  have := isDigit_ne c (natDigits_all _ c hc)
  exact ⟨this.2.2.1, this.2.2.2.1, this.2.2.2.2⟩

/-! ### what the name pattern excludes -/

theorem isNameChar_ne (c : Char) (h : isNameChar c = true) : c ≠ ':' ∧ c ≠ '/' ∧ c ≠ '@' := by
  refine ⟨?_, ?_, ?_⟩ <;> (intro e; subst e; revert h; decide)

theorem isSpace_ne (c : Char) (h : isSpace c = true) : c ≠ ':' ∧ c ≠ '/' ∧ c ≠ '@' := by
  refine ⟨?_, ?_, ?_⟩ <;> (intro e; subst e; revert h; decide)

theorem isAlnum_nameChar (c : Char) (h : isAlnum c = true) : isNameChar c = true := by
  simp [isNameChar, h]

theorem matchesPattern_all (s : Str) (h : matchesPattern s = true) : ∀ c ∈ s, isNameChar c = true := by
  cases s with
  | nil => simp [matchesPattern] at h
  | cons x xs =>
    simp only [matchesPattern, Bool.and_eq_true, List.all_eq_true] at h
    intro c hc
    simp at hc
    rcases hc with hc | hc
    · subst hc; exact isAlnum_nameChar _ h.1
    · exact h.2 c hc

theorem matchesPattern_ne_nil (s : Str) (h : matchesPattern s = true) : s ≠ [] := by
  cases s with
  | nil => simp [matchesPattern] at h
  | cons x xs => simp

theorem mem_dropWhile_or (p : Char → Bool) (s : Str) (c : Char) (h : c ∈ s) : p c = true ∨ c ∈ s.dropWhile p := by
  induction s with
  | nil => simp at h
  | cons x xs ih =>
    simp only [List.dropWhile]
    cases hp : p x with
    | true =>
      simp at h
      rcases h with h | h
      · subst h; exact Or.inl hp
      · exact ih h
    | false => exact Or.inr h

/-- every character of a string is white space or survives TrimSpace -/
theorem mem_trimSpace_or (s : Str) (c : Char) (h : c ∈ s) : isSpace c = true ∨ c ∈ trimSpace s := by
  unfold trimSpace trimLeft
  rcases mem_dropWhile_or isSpace s c h with h1 | h1
  · exact Or.inl h1
  · have h2 : c ∈ (s.dropWhile isSpace).reverse := by simpa using h1
    rcases mem_dropWhile_or isSpace _ c h2 with h3 | h3
    · exact Or.inl h3
    · exact Or.inr (by simpa using h3)

/-- a name whose trimmed form matches the pattern has no delimiter character -/
theorem name_clean (s : Str) (h : matchesPattern (trimSpace s) = true) : ∀ c ∈ s, c ≠ ':' ∧ c ≠ '/' ∧ c ≠ '@' := by
  intro c hc
  rcases mem_trimSpace_or s c hc with h1 | h1
  · exact isSpace_ne c h1
  · exact isNameChar_ne c (matchesPattern_all _ h c h1)

theorem system_clean (s : Str) (h : matchesPattern s = true) : ∀ c ∈ s, c ≠ ':' ∧ c ≠ '/' ∧ c ≠ '@' :=
  fun c hc => isNameChar_ne c (matchesPattern_all _ h c hc)

end GoaktVerif.C26

/-
Helper lemmas for C41/C39: association-list facts and the per-handler preservation lemmas.
-/
import GoaktVerif.Model.C41
import GoaktVerif.Spec.C41

namespace GoaktVerif.C41
open GoaktVerif.Model.C41 GoaktVerif.Spec.C41

variable {α : Type} {V : Type}

/-! ### association lists -/

theorem aget_nil (k : Nat) : aget ([] : List (Nat × α)) k = none := rfl

theorem aget_cons (m : List (Nat × α)) (a : Nat) (b : α) (k : Nat) :
    aget ((a, b) :: m) k = if k = a then some b else aget m k := by
  unfold aget
  rw [List.lookup_cons]
  by_cases h : k = a
  · simp [h]
  · have : (k == a) = false := by simp [h]
    simp [this, h]

theorem aget_adel (m : List (Nat × α)) (k k' : Nat) :
    aget (adel m k) k' = if k' = k then none else aget m k' := by
  induction m with
  | nil => simp [adel, aget]
  | cons p m ih =>
    obtain ⟨a, b⟩ := p
    unfold adel at ih ⊢
    rw [List.filter_cons]
    by_cases hak : a = k
    · subst hak
      simp only [bne_self_eq_false, Bool.false_eq_true, ↓reduceIte]
      rw [ih, aget_cons]
      by_cases h : k' = a <;> simp [h]
    · have : (a != k) = true := by simp [hak]
      simp only [this, ↓reduceIte]
      rw [aget_cons, aget_cons, ih]
      by_cases h : k' = a
      · subst h; simp [hak]
      · simp [h]

theorem aget_aset (m : List (Nat × α)) (k : Nat) (v : α) (k' : Nat) :
    aget (aset m k v) k' = if k' = k then some v else aget m k' := by
  unfold aset
  rw [aget_cons, aget_adel]
  by_cases h : k' = k <;> simp [h]

theorem ahas_aset (m : List (Nat × α)) (k : Nat) (v : α) (k' : Nat) :
    ahas (aset m k v) k' = (decide (k' = k) || ahas m k') := by
  unfold ahas
  rw [aget_aset]
  by_cases h : k' = k <;> simp [h]

theorem ahas_adel (m : List (Nat × α)) (k k' : Nat) :
    ahas (adel m k) k' = (!decide (k' = k) && ahas m k') := by
  unfold ahas
  rw [aget_adel]
  by_cases h : k' = k <;> simp [h]

theorem aget_map {β : Type} (m : List (Nat × α)) (f : α → β) (k : Nat) :
    aget (m.map (fun p => (p.1, f p.2))) k = (aget m k).map f := by
  induction m with
  | nil => simp [aget]
  | cons p m ih =>
    obtain ⟨a, b⟩ := p
    rw [List.map_cons, aget_cons, aget_cons, ih]
    by_cases h : k = a <;> simp [h]

/-- a key bound in a filtered list is bound in the list -/
theorem ahas_of_filter (m : List (Nat × α)) (p : Nat × α → Bool) (k : Nat) :
    ahas (m.filter p) k = true → ahas m k = true := by
  induction m with
  | nil => simp [ahas, aget]
  | cons q m ih =>
    obtain ⟨a, b⟩ := q
    intro h
    unfold ahas at *
    rw [aget_cons]
    by_cases hk : k = a
    · simp [hk]
    · simp only [hk, ↓reduceIte]
      rw [List.filter_cons] at h
      split at h
      · rw [aget_cons] at h
        simp only [hk, ↓reduceIte] at h
        exact ih h
      · exact ih h

theorem aget_none_iff (m : List (Nat × α)) (k : Nat) :
    aget m k = none ↔ (m.map (·.1)).contains k = false := by
  induction m with
  | nil => simp [aget]
  | cons p m ih =>
    obtain ⟨a, b⟩ := p
    rw [aget_cons, List.map_cons, List.contains_cons]
    by_cases h : k = a
    · simp [h]
    · have : (k == a) = false := by simp [h]
      simp [h, this, ih]

theorem ahas_iff_any (m : List (Nat × α)) (k : Nat) :
    ahas m k = m.any (fun t => t.1 == k) := by
  induction m with
  | nil => simp [ahas, aget]
  | cons p m ih =>
    obtain ⟨a, b⟩ := p
    unfold ahas at *
    rw [aget_cons, List.any_cons]
    by_cases h : k = a
    · simp [h]
    · have : (a == k) = false := by simp; omega
      simp [h, this, ih]

/-- every binding of a list makes its key "bound" -/
theorem ahas_of_mem (m : List (Nat × α)) (k : Nat) (v : α) (h : (k, v) ∈ m) : ahas m k = true := by
  rw [ahas_iff_any]
  exact List.any_eq_true.mpr ⟨(k, v), h, by simp⟩

end GoaktVerif.C41

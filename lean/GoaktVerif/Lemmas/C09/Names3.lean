/-
C09 — `NWF` under `removeNode` / `deleteNode` (the name entry is handed back to the most recent survivor).
-/
import GoaktVerif.Lemmas.C09.Names2

set_option linter.unusedSimpArgs false

namespace GoaktVerif.Model.C09

/-- two live pointers to the same id are the same pointer -/
theorem live_ptr_unique (t : Tree) (q p : Ptr) (m n : Node) (hq : t.live q = some m) (hp : t.live p = some n)
    (hid : q.id = p.id) : q = p := by
  rw [live_eq_some] at hq hp
  have : m = n := by
    have h1 := hq.1
    rw [hid, hp.1] at h1
    simpa using h1.symm
  subst this
  cases q; cases p
  simp only at hid hq hp
  simp only [Ptr.mk.injEq]
  exact ⟨hid, by omega⟩

/-- the new name bookkeeping, described entry by entry.  `l` = the old shadowed list of `name`. -/
theorem dropName_spec (names : List (Nat × Ptr)) (sh : List (Nat × List Ptr)) (name : Nat) (p : Ptr) (l : List Ptr)
    (hl : (aget name sh).getD [] = l) :
    -- other names are untouched
    (∀ nm, nm ≠ name → aget nm (dropName names sh name p).1 = aget nm names
                      ∧ aget nm (dropName names sh name p).2 = aget nm sh)
    ∧ -- the name itself
    ((aget name names = some p ∧ ∃ ys q0, l = ys ++ [q0] ∧ aget name (dropName names sh name p).1 = some q0
        ∧ (aget name (dropName names sh name p).2 = some ys ∨ (ys = [] ∧ aget name (dropName names sh name p).2 = none)))
     ∨ (aget name names = some p ∧ l = [] ∧ aget name (dropName names sh name p).1 = none
        ∧ aget name (dropName names sh name p).2 = aget name sh)
     ∨ (aget name names ≠ some p ∧ aget name (dropName names sh name p).1 = aget name names
        ∧ (aget name (dropName names sh name p).2 = some (l.filter (· != p))
           ∨ (l.filter (· != p) = [] ∧ aget name (dropName names sh name p).2 = none)
           ∨ (l = [] ∧ aget name (dropName names sh name p).2 = aget name sh)))) := by
  unfold dropName
  rw [hl]
  by_cases hent : aget name names = some p
  · rw [if_pos hent]
    cases hlast : l.getLast? with
    | none =>
      have hnil : l = [] := List.getLast?_eq_none_iff.mp hlast
      refine ⟨fun nm hnm => ⟨by show aget nm (adel name names) = _; rw [aget_adel]; simp [hnm], rfl⟩, ?_⟩
      right; left
      exact ⟨hent, hnil, by show aget name (adel name names) = none; rw [aget_adel]; simp, rfl⟩
    | some q0 =>
      obtain ⟨ys, hys⟩ := List.getLast?_eq_some_iff.mp hlast
      subst hys
      have h1 : ∀ nm, aget nm (aset name q0 names) = if nm = name then some q0 else aget nm names :=
        fun nm => aget_aset _ _ _ _
      by_cases hlen : (ys ++ [q0]).length = 1
      · have hys : ys = [] := by
          simp only [List.length_append, List.length_cons, List.length_nil] at hlen
          exact List.eq_nil_of_length_eq_zero (by omega)
        refine ⟨fun nm hnm => ⟨by show aget nm (aset name q0 names) = _; rw [h1]; simp [hnm], ?_⟩, ?_⟩
        · show aget nm (if (ys ++ [q0]).length = 1 then adel name sh else _) = _
          rw [if_pos hlen, aget_adel]; simp [hnm]
        · left
          refine ⟨hent, ys, q0, rfl, by show aget name (aset name q0 names) = _; rw [h1]; simp, Or.inr ⟨hys, ?_⟩⟩
          show aget name (if (ys ++ [q0]).length = 1 then adel name sh else _) = _
          rw [if_pos hlen, aget_adel]; simp
      · refine ⟨fun nm hnm => ⟨by show aget nm (aset name q0 names) = _; rw [h1]; simp [hnm], ?_⟩, ?_⟩
        · show aget nm (if (ys ++ [q0]).length = 1 then _ else aset name (ys ++ [q0]).dropLast sh) = _
          rw [if_neg hlen, aget_aset]; simp [hnm]
        · left
          refine ⟨hent, ys, q0, rfl, by show aget name (aset name q0 names) = _; rw [h1]; simp, Or.inl ?_⟩
          show aget name (if (ys ++ [q0]).length = 1 then _ else aset name (ys ++ [q0]).dropLast sh) = _
          rw [if_neg hlen, aget_aset]; simp
  · rw [if_neg hent]
    by_cases hemp : l.isEmpty = true
    · rw [if_pos hemp]
      refine ⟨fun nm _ => ⟨rfl, rfl⟩, Or.inr (Or.inr ⟨hent, rfl, Or.inr (Or.inr ⟨by simpa using hemp, rfl⟩)⟩)⟩
    · rw [if_neg hemp]
      by_cases hk : (l.filter (· != p)).isEmpty = true
      · refine ⟨fun nm hnm => ⟨rfl, ?_⟩, Or.inr (Or.inr ⟨hent, rfl, Or.inr (Or.inl ⟨by simpa using hk, ?_⟩)⟩)⟩
        · show aget nm (if (l.filter (· != p)).isEmpty = true then adel name sh else _) = _
          rw [if_pos hk, aget_adel]; simp [hnm]
        · show aget name (if (l.filter (· != p)).isEmpty = true then adel name sh else _) = _
          rw [if_pos hk, aget_adel]; simp
      · refine ⟨fun nm hnm => ⟨rfl, ?_⟩, Or.inr (Or.inr ⟨hent, rfl, Or.inl ?_⟩)⟩
        · show aget nm (if (l.filter (· != p)).isEmpty = true then _ else aset name (l.filter (· != p)) sh) = _
          rw [if_neg hk, aget_aset]; simp [hnm]
        · show aget name (if (l.filter (· != p)).isEmpty = true then _ else aset name (l.filter (· != p)) sh) = _
          rw [if_neg hk, aget_aset]; simp

theorem nwf_removeNode (t : Tree) (p : Ptr) (h : NWF t) : NWF (t.removeNode p) := by
  cases hl : t.live p with
  | none => rw [removeNode_of_dead t p hl]; exact h
  | some n =>
    have hg := aget_removeNode t p n hl
    have hl' := (live_eq_some t p n).mp hl
    have hN : (t.removeNode p).names = (dropName t.names t.shadowed n.pid.name p).1 := by
      rw [removeNode_of_live t p n hl]
    have hS : (t.removeNode p).shadowed = (dropName t.names t.shadowed n.pid.name p).2 := by
      rw [removeNode_of_live t p n hl]
    -- survivors keep their node object (scrubbed)
    have keep : ∀ q m, t.live q = some m → q ≠ p → (t.removeNode p).live q = some (scrub n m) := by
      intro q m hq hne
      have hid : q.id ≠ p.id := fun he => hne (live_ptr_unique t q p m n hq hl he)
      have hq' := (live_eq_some t q m).mp hq
      rw [live_eq_some, hg]
      simp [hid, hq'.1, hq'.2]
    have back : ∀ k m', aget k (t.removeNode p).pids = some m' →
        k ≠ p.id ∧ ∃ m, aget k t.pids = some m ∧ m' = scrub n m := by
      intro k m' hk
      rw [hg] at hk
      split at hk
      · simp at hk
      · rename_i hkp
        obtain ⟨m, hm, rfl⟩ := Option.map_eq_some_iff.mp hk
        exact ⟨hkp, m, hm, rfl⟩
    -- where the pointer `p` can occur in the old bookkeeping
    have pname : ∀ nm, aget nm t.names = some p → nm = n.pid.name := by
      intro nm hnm
      obtain ⟨m, hm, hname⟩ := h.names_live nm p hnm
      rw [hl] at hm
      simp only [Option.some.injEq] at hm
      subst hm
      exact hname.symm
    have pshadow : ∀ nm l, aget nm t.shadowed = some l → p ∈ l → nm = n.pid.name := by
      intro nm l hsl hmem
      obtain ⟨m, hm, hname⟩ := h.shadow_live nm l p hsl hmem
      rw [hl] at hm
      simp only [Option.some.injEq] at hm
      subst hm
      exact hname.symm
    have hspec := dropName_spec t.names t.shadowed n.pid.name p _ rfl
    rw [← hN, ← hS] at hspec
    obtain ⟨hother, hname⟩ := hspec
    generalize hL : (aget n.pid.name t.shadowed).getD [] = L at hname
    have hLmem : ∀ q, q ∈ L → ∃ l, aget n.pid.name t.shadowed = some l ∧ q ∈ l := by
      intro q hq
      cases hsd : aget n.pid.name t.shadowed with
      | none => rw [hsd] at hL; simp at hL; subst hL; simp at hq
      | some l => rw [hsd] at hL; simp at hL; subst hL; exact ⟨l, rfl, hq⟩
    have hLnodup : L.Nodup := by
      cases hsd : aget n.pid.name t.shadowed with
      | none => rw [hsd] at hL; simp at hL; subst hL; simp
      | some l => rw [hsd] at hL; simp at hL; subst hL; exact h.shadow_nodup _ l hsd
    -- every new names entry / shadowed member is an old live pointer of that name, different from `p`
    have newname : ∀ nm q, aget nm (t.removeNode p).names = some q →
        q ≠ p ∧ ∃ m, t.live q = some m ∧ m.pid.name = nm := by
      intro nm q hq
      by_cases hnm : nm = n.pid.name
      · subst hnm
        rcases hname with ⟨hent, ys, q0, hys, hq0, _⟩ | ⟨_, _, hnone, _⟩ | ⟨hent, hsame, _⟩
        · rw [hq0] at hq
          simp only [Option.some.injEq] at hq
          subst hq
          obtain ⟨l, hsl, hm⟩ := hLmem q0 (by rw [hys]; simp)
          exact ⟨fun he => h.shadow_ne _ l q0 hsl hm (he ▸ hent), h.shadow_live _ l q0 hsl hm⟩
        · rw [hnone] at hq; simp at hq
        · rw [hsame] at hq
          exact ⟨fun he => hent (he ▸ hq), h.names_live _ _ hq⟩
      · rw [(hother nm hnm).1] at hq
        exact ⟨fun he => hnm (pname nm (he ▸ hq)), h.names_live _ _ hq⟩
    have newshadow : ∀ nm l' q, aget nm (t.removeNode p).shadowed = some l' → q ∈ l' →
        q ≠ p ∧ ∃ l, aget nm t.shadowed = some l ∧ q ∈ l := by
      intro nm l' q hsl hq
      by_cases hnm : nm = n.pid.name
      · subst hnm
        rcases hname with ⟨hent, ys, q0, hys, _, hsh⟩ | ⟨hent, hnil, _, hsh⟩ | ⟨_, _, hsh⟩
        · rcases hsh with hsh | ⟨_, hsh⟩
          · rw [hsh] at hsl
            simp only [Option.some.injEq] at hsl
            subst hsl
            obtain ⟨l, hl1, hm⟩ := hLmem q (by rw [hys]; exact List.mem_append_left _ hq)
            exact ⟨fun he => h.shadow_ne _ l q hl1 hm (he ▸ hent), l, hl1, hm⟩
          · rw [hsh] at hsl; simp at hsl
        · rw [hsh] at hsl
          have : l' = L := by rw [hsl] at hL; simpa using hL
          rw [this, hnil] at hq
          simp at hq
        · rcases hsh with hsh | ⟨_, hsh⟩ | ⟨hnil, hsh⟩
          · rw [hsh] at hsl
            simp only [Option.some.injEq] at hsl
            subst hsl
            simp only [List.mem_filter, bne_iff_ne, ne_eq] at hq
            obtain ⟨l, hl1, hm⟩ := hLmem q hq.1
            exact ⟨hq.2, l, hl1, hm⟩
          · rw [hsh] at hsl; simp at hsl
          · rw [hsh] at hsl
            have : l' = L := by rw [hsl] at hL; simpa using hL
            rw [this, hnil] at hq
            simp at hq
      · rw [(hother nm hnm).2] at hsl
        exact ⟨fun he => hnm (pshadow nm l' hsl (he ▸ hq)), l', hsl, hq⟩
    constructor
    · intro hru
      have : (t.removeNode p).rootUsed = t.rootUsed := by rw [removeNode_of_live t p n hl]
      rw [this] at hru
      have := h.root_empty hru
      rw [this] at hl'
      simp at hl'
    · intro nm q hq
      obtain ⟨hne, m, hm, hnm⟩ := newname nm q hq
      exact ⟨scrub n m, keep q m hm hne, by simpa using hnm⟩
    · intro nm l' q hsl hq
      obtain ⟨hne, l, hl1, hm⟩ := newshadow nm l' q hsl hq
      obtain ⟨m, hm1, hnm⟩ := h.shadow_live nm l q hl1 hm
      exact ⟨scrub n m, keep q m hm1 hne, by simpa using hnm⟩
    · -- the entry never waits in shadowed
      intro nm l' q hsl hq hentq
      by_cases hnm : nm = n.pid.name
      · subst hnm
        rcases hname with ⟨_, ys, q0, hys, hq0, hsh⟩ | ⟨_, hnil, hnone, _⟩ | ⟨_, hsame, hsh⟩
        · rw [hq0] at hentq
          simp only [Option.some.injEq] at hentq
          subst hentq
          rcases hsh with hsh | ⟨_, hsh⟩
          · rw [hsh] at hsl
            simp only [Option.some.injEq] at hsl
            subst hsl
            rw [hys] at hLnodup
            have := (List.nodup_append.mp hLnodup).2.2 q0 hq q0 (by simp)
            exact this rfl
          · rw [hsh] at hsl; simp at hsl
        · rw [hnone] at hentq; simp at hentq
        · rw [hsame] at hentq
          obtain ⟨_, l, hl1, hm⟩ := newshadow _ l' q hsl hq
          exact h.shadow_ne _ l q hl1 hm hentq
      · obtain ⟨_, l, hl1, hm⟩ := newshadow nm l' q hsl hq
        rw [(hother nm hnm).1] at hentq
        exact h.shadow_ne nm l q hl1 hm hentq
    · intro nm l' hsl
      by_cases hnm : nm = n.pid.name
      · subst hnm
        rcases hname with ⟨_, ys, q0, hys, _, hsh⟩ | ⟨_, _, _, hsh⟩ | ⟨_, _, hsh⟩
        · rcases hsh with hsh | ⟨_, hsh⟩
          · rw [hsh] at hsl
            simp only [Option.some.injEq] at hsl
            subst hsl
            rw [hys] at hLnodup
            exact (List.nodup_append.mp hLnodup).1
          · rw [hsh] at hsl; simp at hsl
        · rw [hsh] at hsl; exact h.shadow_nodup _ l' hsl
        · rcases hsh with hsh | ⟨_, hsh⟩ | ⟨_, hsh⟩
          · rw [hsh] at hsl
            simp only [Option.some.injEq] at hsl
            subst hsl
            exact hLnodup.filter _
          · rw [hsh] at hsl; simp at hsl
          · rw [hsh] at hsl; exact h.shadow_nodup _ l' hsl
      · rw [(hother nm hnm).2] at hsl
        exact h.shadow_nodup nm l' hsl
    · intro nm l' q hsl hq
      obtain ⟨_, l, hl1, hm⟩ := newshadow nm l' q hsl hq
      by_cases hnm : nm = n.pid.name
      · subst hnm
        rcases hname with ⟨_, ys, q0, _, hq0, _⟩ | ⟨_, hnil, _, _⟩ | ⟨_, hsame, _⟩
        · rw [hq0]; rfl
        · -- the old list was empty, so nothing can be a member
          have : l = L := by rw [hl1] at hL; simpa using hL
          rw [this, hnil] at hm; simp at hm
        · rw [hsame]; exact h.shadow_entry _ l q hl1 hm
      · rw [(hother nm hnm).1]
        exact h.shadow_entry nm l q hl1 hm
    · intro k m' hk
      obtain ⟨hkp, m, hm, rfl⟩ := back k m' hk
      simp only [scrub_pid, scrub_ref]
      have hne : (⟨k, m.ref⟩ : Ptr) ≠ p := by
        intro he; apply hkp; rw [← he]
      by_cases hnm : m.pid.name = n.pid.name
      · rw [hnm]
        rcases h.names_full k m hm with hent | ⟨l, hl1, hmem⟩
        · -- m held the entry of that name, but the entry of n's name... is m's pointer, so it is not p
          rw [hnm] at hent
          rcases hname with ⟨hentp, _⟩ | ⟨hentp, _⟩ | ⟨_, hsame, _⟩
          · rw [hentp] at hent; simp only [Option.some.injEq] at hent; exact absurd hent.symm hne
          · rw [hentp] at hent; simp only [Option.some.injEq] at hent; exact absurd hent.symm hne
          · left; rw [hsame]; exact hent
        · rw [hnm] at hl1
          have hmemL : (⟨k, m.ref⟩ : Ptr) ∈ L := by
            have : l = L := by rw [hl1] at hL; simpa using hL
            rw [← this]; exact hmem
          rcases hname with ⟨_, ys, q0, hys, hq0, hsh⟩ | ⟨_, hnil, _, _⟩ | ⟨_, _, hsh⟩
          · rw [hys] at hmemL
            rcases List.mem_append.mp hmemL with hin | hin
            · right
              rcases hsh with hsh | ⟨hysnil, _⟩
              · exact ⟨ys, hsh, hin⟩
              · rw [hysnil] at hin; simp at hin
            · left
              simp only [List.mem_singleton] at hin
              rw [hq0, hin]
          · rw [hnil] at hmemL; simp at hmemL
          · right
            have hkept : (⟨k, m.ref⟩ : Ptr) ∈ L.filter (· != p) := by
              simp only [List.mem_filter, bne_iff_ne, ne_eq]
              exact ⟨hmemL, hne⟩
            rcases hsh with hsh | ⟨hnil, _⟩ | ⟨hnil, _⟩
            · exact ⟨_, hsh, hkept⟩
            · rw [hnil] at hkept; simp at hkept
            · rw [hnil] at hmemL; simp at hmemL
      · rcases h.names_full k m hm with hent | ⟨l, hl1, hmem⟩
        · left; rw [(hother _ hnm).1]; exact hent
        · right; exact ⟨l, by rw [(hother _ hnm).2]; exact hl1, hmem⟩

theorem nwf_foldl_removeNode (l : List Ptr) (t : Tree) (h : NWF t) : NWF (l.foldl Tree.removeNode t) := by
  induction l generalizing t with
  | nil => exact h
  | cons p l ih => exact ih _ (nwf_removeNode t p h)

theorem nwf_deleteNode (t : Tree) (p : Pid) (h : NWF t) : NWF (t.deleteNode p) := by
  unfold Tree.deleteNode
  split
  · exact h
  split
  · exact h
  · exact nwf_foldl_removeNode _ t h

theorem nwf_step (t : Tree) (o : Op) (h : NWF t) : NWF (t.step o).1 := by
  cases o with
  | addRoot p => exact nwf_addRoot t p h
  | addNode a p => exact nwf_addNode t a p h
  | attach a p => exact nwf_attach t a p h
  | addOrAttach a p => exact nwf_addOrAttach t a p h
  | addWatcher p w => exact nwf_addWatcher t p w h
  | removeWatcher e w => exact nwf_removeWatcher t e w h
  | removeDescendant a c => exact nwf_removeDescendant t a c h
  | deleteNode p => exact nwf_deleteNode t p h
  | reset => exact nwf_reset t

theorem nwf_run (ops : List Op) (t : Tree) (h : NWF t) : NWF (t.run ops) := by
  induction ops generalizing t with
  | nil => exact h
  | cons o ops ih => exact ih _ (nwf_step t o h)

end GoaktVerif.Model.C09

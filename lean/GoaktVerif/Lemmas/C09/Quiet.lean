/-
C09 — the watch-only steps of the stop path (`UnWatch`, `freeWatchees`, `freeWatchers`) leave the shape of
the tree, the actor states and every PostStop record alone; and what `tree.children` returns.
-/
import GoaktVerif.Lemmas.C09.Shape

set_option linter.unusedSimpArgs false

namespace GoaktVerif.Model.C09

/-- `s'` differs from `s` only in watcher/watchee maps and in `Terminated` records appended to the log -/
structure Quiet (s s' : Sys) : Prop where
  shape : ShapeLe s.tree s'.tree
  desc : ∀ x, DescSame s.tree s'.tree x
  running : s'.running = s.running
  suspended : s'.suspended = s.suspended
  stopping : s'.stopping = s.stopping
  log : ∃ evs, s'.log = s.log ++ evs ∧ ∀ e ∈ evs, ∃ w a, e = Ev.terminated w a

theorem quiet_refl (s : Sys) : Quiet s s :=
  ⟨shapeLe_refl _, fun _ => rfl, rfl, rfl, rfl, [], by simp, by simp⟩

theorem quiet_trans {a b c : Sys} (h1 : Quiet a b) (h2 : Quiet b c) : Quiet a c := by
  obtain ⟨e1, hl1, ht1⟩ := h1.log
  obtain ⟨e2, hl2, ht2⟩ := h2.log
  refine ⟨shapeLe_trans h1.shape h2.shape, fun x => (h1.desc x).trans (h2.desc x), h2.running.trans h1.running,
    h2.suspended.trans h1.suspended, h2.stopping.trans h1.stopping, e1 ++ e2, ?_, ?_⟩
  · rw [hl2, hl1, List.append_assoc]
  · intro e he
    rcases List.mem_append.mp he with h | h
    · exact ht1 e h
    · exact ht2 e h

theorem quiet_unwatch (s : Sys) (w e : Nat) : Quiet s (s.unwatch w e) :=
  ⟨shapeLe_removeWatcher _ _ _, descSame_removeWatcher _ _ _, rfl, rfl, rfl, [], by simp [Sys.unwatch], by simp⟩

theorem quiet_foldl {α : Type} (f : Sys → α → Sys) (hf : ∀ s a, Quiet s (f s a)) (l : List α) (s : Sys) :
    Quiet s (l.foldl f s) := by
  induction l generalizing s with
  | nil => exact quiet_refl s
  | cons a l ih => exact quiet_trans (hf s a) (ih _)

theorem quiet_freeWatchees (s : Sys) (p : Nat) : Quiet s (s.freeWatchees p) := by
  unfold Sys.freeWatchees
  split
  · exact quiet_refl s
  · exact quiet_foldl _ (fun s (w : Pid) => quiet_unwatch s p w.id) _ s

theorem quiet_notify (p : Nat) (s : Sys) (w : Pid) : Quiet s (Sys.notify p s w) := by
  unfold Sys.notify
  split
  · have h := quiet_unwatch s w.id p
    exact ⟨h.shape, h.desc, rfl, rfl, rfl, [Ev.terminated w.id p], rfl, by simp⟩
  · exact quiet_refl s

theorem quiet_freeWatchers (s : Sys) (p : Nat) : Quiet s (s.freeWatchers p) := by
  unfold Sys.freeWatchers
  split
  · exact quiet_refl s
  · exact quiet_foldl _ (quiet_notify p) _ s

/-! ### `tree.children` -/

theorem children_edge (t : Tree) (p : Nat) (cs : List Pid) (h : t.children p = some cs) :
    (∀ c, c ∈ cs → edge t p c.id) ∧ (∀ y, edge t p y → ∃ c, c ∈ cs ∧ c.id = y) := by
  unfold Tree.children at h
  split at h
  · simp at h
  · cases hn : aget p t.pids with
    | none => simp [hn] at h
    | some n =>
      simp only [hn, Option.some.injEq] at h
      subst h
      constructor
      · intro c hc
        simp only [List.mem_filterMap] at hc
        obtain ⟨e, he, hm⟩ := hc
        obtain ⟨m, hm1, hm2⟩ := Option.map_eq_some_iff.mp hm
        exact ⟨n, e, m, hn, he, hm1, by rw [← hm2]⟩
      · intro y hy
        obtain ⟨nx, e, m, hx, he, hl, hid⟩ := hy
        have : nx = n := by rw [hn] at hx; simpa using hx.symm
        subst this
        exact ⟨m.pid, by simp only [List.mem_filterMap]; exact ⟨e, he, by simp [hl]⟩, hid⟩

theorem children_none_no_edge (t : Tree) (p : Nat) (h : t.children p = none) (hp : p ≠ NOS) (y : Nat) : ¬ edge t p y := by
  intro hy
  obtain ⟨nx, _, _, hx, _⟩ := hy
  unfold Tree.children at h
  simp [hp, hx] at h

/-! ### `Before` on logs -/

/-- some occurrence of `b` is preceded by an occurrence of `a` -/
def Before (l : List Ev) (a b : Ev) : Prop := ∃ l1 l2, l = l1 ++ b :: l2 ∧ a ∈ l1

theorem before_append {l : List Ev} {a b : Ev} (m : List Ev) (h : Before l a b) : Before (l ++ m) a b := by
  obtain ⟨l1, l2, hl, ha⟩ := h
  exact ⟨l1, l2 ++ m, by rw [hl]; simp, ha⟩

theorem before_of_mem {l m : List Ev} {a b : Ev} (ha : a ∈ l) (hb : b ∈ m) : Before (l ++ m) a b := by
  obtain ⟨m1, m2, hm⟩ := List.append_of_mem hb
  exact ⟨l ++ m1, m2, by rw [hm]; simp, List.mem_append_left _ ha⟩

end GoaktVerif.Model.C09

/-
C09 — `removeNode` (one iteration of deleteNode's clean-up loop) and hence `deleteNode` preserve `WF`.
-/
import GoaktVerif.Lemmas.C09.Ops3

set_option linter.unusedSimpArgs false

namespace GoaktVerif.Model.C09

@[simp] theorem scrub_ref (n m : Node) : (scrub n m).ref = m.ref := rfl
@[simp] theorem scrub_pid (n m : Node) : (scrub n m).pid = m.pid := rfl
@[simp] theorem scrub_parent (n m : Node) : (scrub n m).parent = m.parent := rfl

theorem scrub_watchers (n m : Node) :
    (scrub n m).watchers = if (aget m.pid.id n.watchees).isSome then adel n.pid.id m.watchers else m.watchers := rfl

theorem scrub_watchers_sub (n m : Node) (k : Nat) (v : Pid) (h : aget k (scrub n m).watchers = some v) :
    aget k m.watchers = some v ∧ (k = n.pid.id → (aget m.pid.id n.watchees).isSome = false) := by
  rw [scrub_watchers] at h
  split at h
  · rw [aget_adel] at h
    split at h
    · simp at h
    · exact ⟨h, fun hk => by contradiction⟩
  · rename_i hc
    exact ⟨h, fun _ => by simpa using hc⟩

theorem scrub_watchers_keep (n m : Node) (k : Nat) (hk : k ≠ n.pid.id) :
    aget k (scrub n m).watchers = aget k m.watchers := by
  rw [scrub_watchers]
  split
  · rw [aget_adel]; simp [hk]
  · rfl

/-- whether `m` is the node object `n.parentNode` points to -/
def isParentOf (n m : Node) : Bool :=
  match n.parent with
  | some pp => pp.id == m.pid.id && pp.ref == m.ref
  | none => false

theorem scrub_watchees (n m : Node) :
    (scrub n m).watchees = if (aget m.pid.id n.watchers).isSome || isParentOf n m then adel n.pid.id m.watchees else m.watchees := by
  unfold scrub isParentOf
  rfl

theorem scrub_watchees_sub (n m : Node) (k : Nat) (v : Pid) (h : aget k (scrub n m).watchees = some v) :
    aget k m.watchees = some v ∧ (k = n.pid.id → (aget m.pid.id n.watchers).isSome = false) := by
  rw [scrub_watchees] at h
  split at h
  · rw [aget_adel] at h
    split at h
    · simp at h
    · exact ⟨h, fun hk => by contradiction⟩
  · rename_i hc
    simp only [Bool.or_eq_true, not_or, Bool.not_eq_true] at hc
    exact ⟨h, fun _ => hc.1⟩

theorem scrub_watchees_keep (n m : Node) (k : Nat) (hk : k ≠ n.pid.id) :
    aget k (scrub n m).watchees = aget k m.watchees := by
  rw [scrub_watchees]
  split
  · rw [aget_adel]; simp [hk]
  · rfl

theorem removeNode_of_live (t : Tree) (p : Ptr) (n : Node) (hl : t.live p = some n) :
    t.removeNode p = { t with
      pids := amapv (scrub n) (adel p.id t.pids)
      names := (dropName t.names t.shadowed n.pid.name p).1
      shadowed := (dropName t.names t.shadowed n.pid.name p).2
      counter := t.counter - 1 } := by
  unfold Tree.removeNode
  rw [hl]

theorem removeNode_of_dead (t : Tree) (p : Ptr) (hl : t.live p = none) : t.removeNode p = t := by
  unfold Tree.removeNode
  rw [hl]

theorem aget_removeNode (t : Tree) (p : Ptr) (n : Node) (hl : t.live p = some n) (k : Nat) :
    aget k (t.removeNode p).pids = if k = p.id then none else (aget k t.pids).map (scrub n) := by
  rw [removeNode_of_live t p n hl]
  simp only [aget_amapv, aget_adel]
  split <;> simp

theorem wf_removeNode (t : Tree) (p : Ptr) (h : WF t) : WF (t.removeNode p) := by
  cases hl : t.live p with
  | none => rw [removeNode_of_dead t p hl]; exact h
  | some n =>
    have hg := aget_removeNode t p n hl
    have hl' := (live_eq_some t p n).mp hl
    have hnid : n.pid.id = p.id := h.key_id _ _ hl'.1
    constructor
    · rw [removeNode_of_live t p n hl]
      simpa using nodup_adel p.id t.pids h.nodup
    · intro k m hk
      rw [hg] at hk
      split at hk
      · simp at hk
      · obtain ⟨m0, hm0, rfl⟩ := Option.map_eq_some_iff.mp hk
        simpa using h.key_id k m0 hm0
    · rw [removeNode_of_live t p n hl]
      simp only [length_amapv]
      have hmem : p.id ∈ akeys t.pids := (aget_isSome_iff _ _).mp (by simp [hl'.1])
      have := length_adel_of_mem p.id t.pids h.nodup hmem
      have := h.counter
      omega
    · intro a na w pw ha hw
      rw [hg] at ha
      split at ha
      · simp at ha
      · obtain ⟨m0, hm0, rfl⟩ := Option.map_eq_some_iff.mp ha
        exact h.wval a m0 w pw hm0 (scrub_watchers_sub n m0 w pw hw).1
    · intro a na e pe ha he
      rw [hg] at ha
      split at ha
      · simp at ha
      · obtain ⟨m0, hm0, rfl⟩ := Option.map_eq_some_iff.mp ha
        exact h.eval a m0 e pe hm0 (scrub_watchees_sub n m0 e pe he).1
    · intro a na w ha hw
      rw [hg] at ha
      split at ha
      · simp at ha
      · rename_i hap
        obtain ⟨m0, hm0, rfl⟩ := Option.map_eq_some_iff.mp ha
        obtain ⟨pw, hpw⟩ := Option.isSome_iff_exists.mp hw
        have hs := scrub_watchers_sub n m0 w pw hpw
        obtain ⟨nw, hnw, h2⟩ := h.wsym a m0 w hm0 (by simp [hs.1])
        have hm0id : m0.pid.id = a := h.key_id _ _ hm0
        have hwp : w ≠ p.id := by
          intro he
          have : nw = n := by rw [he, hl'.1] at hnw; simpa using hnw.symm
          subst this
          have := hs.2 (by rw [hnid, he])
          rw [hm0id] at this
          rw [this] at h2
          simp at h2
        refine ⟨scrub n nw, by rw [hg]; simp [hwp, hnw], ?_⟩
        rw [scrub_watchees_keep n nw a (by rw [hnid]; exact hap)]
        exact h2
    · intro a na e ha he
      rw [hg] at ha
      split at ha
      · simp at ha
      · rename_i hap
        obtain ⟨m0, hm0, rfl⟩ := Option.map_eq_some_iff.mp ha
        obtain ⟨pe, hpe⟩ := Option.isSome_iff_exists.mp he
        have hs := scrub_watchees_sub n m0 e pe hpe
        obtain ⟨ne, hne, h2⟩ := h.esym a m0 e hm0 (by simp [hs.1])
        have hm0id : m0.pid.id = a := h.key_id _ _ hm0
        have hep : e ≠ p.id := by
          intro he'
          have : ne = n := by rw [he', hl'.1] at hne; simpa using hne.symm
          subst this
          have := hs.2 (by rw [hnid, he'])
          rw [hm0id] at this
          rw [this] at h2
          simp at h2
        refine ⟨scrub n ne, by rw [hg]; simp [hep, hne], ?_⟩
        rw [scrub_watchers_keep n ne a (by rw [hnid]; exact hap)]
        exact h2

theorem wf_foldl_removeNode (l : List Ptr) (t : Tree) (h : WF t) : WF (l.foldl Tree.removeNode t) := by
  induction l generalizing t with
  | nil => exact h
  | cons p l ih => exact ih _ (wf_removeNode t p h)

theorem wf_deleteNode (t : Tree) (p : Pid) (h : WF t) : WF (t.deleteNode p) := by
  unfold Tree.deleteNode
  split
  · exact h
  split
  · exact h
  · exact wf_foldl_removeNode _ t h

theorem wf_step (t : Tree) (o : Op) (h : WF t) : WF (t.step o).1 := by
  cases o with
  | addRoot p => exact wf_addRoot t p h
  | addNode a p => exact wf_addNode t a p h
  | attach a p => exact wf_attach t a p h
  | addOrAttach a p => exact wf_addOrAttach t a p h
  | addWatcher p w => exact wf_addWatcher t p w h
  | removeWatcher e w => exact wf_removeWatcher t e w h
  | removeDescendant a c => exact wf_removeDescendant t a c h
  | deleteNode p => exact wf_deleteNode t p h
  | reset => exact wf_reset t

theorem wf_run (ops : List Op) (t : Tree) (h : WF t) : WF (t.run ops) := by
  induction ops generalizing t with
  | nil => exact h
  | cons o ops ih => exact ih _ (wf_step t o h)

end GoaktVerif.Model.C09

/-
C09 — the shape of the tree (which nodes exist, their refs/pids/descendants) under the ops the stop
path performs: `removeWatcher` leaves it alone, `removeDescendant p c` only shrinks `descendants(p)`.
-/
import GoaktVerif.Lemmas.C09.WF
import GoaktVerif.Model.C09.Stop

set_option linter.unusedSimpArgs false

namespace GoaktVerif.Model.C09

/-- `y` is a live direct child of `x` (an entry of `descendants(x)` that points to a registered node object) -/
def edge (t : Tree) (x y : Nat) : Prop :=
  ∃ nx e n, aget x t.pids = some nx ∧ e ∈ nx.desc ∧ t.live ⟨e.1, e.2⟩ = some n ∧ n.pid.id = y

/-- same nodes, same node objects and PIDs; `descendants` may only have lost entries -/
def ShapeLe (t t' : Tree) : Prop :=
  ∀ x, (∀ n, aget x t.pids = some n → ∃ n', aget x t'.pids = some n' ∧ n'.ref = n.ref ∧ n'.pid = n.pid ∧
          ∀ e, e ∈ n'.desc → e ∈ n.desc)
     ∧ (∀ n', aget x t'.pids = some n' → ∃ n, aget x t.pids = some n)

/-- node `x` has the same `descendants` in both trees -/
def DescSame (t t' : Tree) (x : Nat) : Prop :=
  (aget x t.pids).map (·.desc) = (aget x t'.pids).map (·.desc)

theorem shapeLe_refl (t : Tree) : ShapeLe t t :=
  fun _ => ⟨fun n h => ⟨n, h, rfl, rfl, fun _ he => he⟩, fun n' h => ⟨n', h⟩⟩

theorem shapeLe_trans {a b c : Tree} (h1 : ShapeLe a b) (h2 : ShapeLe b c) : ShapeLe a c := by
  intro x
  constructor
  · intro n hn
    obtain ⟨n1, hn1, r1, p1, d1⟩ := (h1 x).1 n hn
    obtain ⟨n2, hn2, r2, p2, d2⟩ := (h2 x).1 n1 hn1
    exact ⟨n2, hn2, by rw [r2, r1], by rw [p2, p1], fun e he => d1 e (d2 e he)⟩
  · intro n' hn'
    obtain ⟨n1, hn1⟩ := (h2 x).2 n' hn'
    exact (h1 x).2 n1 hn1

theorem descSame_refl (t : Tree) (x : Nat) : DescSame t t x := rfl

theorem descSame_trans {a b c : Tree} {x : Nat} (h1 : DescSame a b x) (h2 : DescSame b c x) : DescSame a c x :=
  h1.trans h2

theorem live_of_shapeLe {t t' : Tree} (h : ShapeLe t t') (q : Ptr) (n : Node) (hl : t.live q = some n) :
    ∃ n', t'.live q = some n' ∧ n'.pid = n.pid := by
  rw [live_eq_some] at hl
  obtain ⟨n', hn', hr, hp, _⟩ := (h q.id).1 n hl.1
  exact ⟨n', by rw [live_eq_some]; exact ⟨hn', by rw [hr]; exact hl.2⟩, hp⟩

theorem live_of_shapeLe' {t t' : Tree} (h : ShapeLe t t') (q : Ptr) (n' : Node) (hl : t'.live q = some n') :
    ∃ n, t.live q = some n ∧ n'.pid = n.pid := by
  rw [live_eq_some] at hl
  obtain ⟨n, hn⟩ := (h q.id).2 n' hl.1
  obtain ⟨n2, hn2, hr, hp, _⟩ := (h q.id).1 n hn
  have : n2 = n' := by rw [hl.1] at hn2; simpa using hn2.symm
  subst this
  exact ⟨n, by rw [live_eq_some]; exact ⟨hn, by rw [← hr]; exact hl.2⟩, hp⟩

theorem edge_of_shapeLe {t t' : Tree} (h : ShapeLe t t') {x y : Nat} (he : edge t' x y) : edge t x y := by
  obtain ⟨nx', e, n', hx', hmem, hl, hid⟩ := he
  obtain ⟨nx, hx⟩ := (h x).2 nx' hx'
  obtain ⟨nx2, hx2, _, _, hd⟩ := (h x).1 nx hx
  have : nx2 = nx' := by rw [hx'] at hx2; simpa using hx2.symm
  subst this
  obtain ⟨n, hn, hp⟩ := live_of_shapeLe' h _ n' hl
  exact ⟨nx, e, n, hx, hd e hmem, hn, by rw [← hp]; exact hid⟩

theorem edge_of_descSame {t t' : Tree} (h : ShapeLe t t') {x y : Nat} (hd : DescSame t t' x) (he : edge t x y) :
    edge t' x y := by
  obtain ⟨nx, e, n, hx, hmem, hl, hid⟩ := he
  obtain ⟨nx', hx', _, _, _⟩ := (h x).1 nx hx
  have hdesc : nx'.desc = nx.desc := by
    unfold DescSame at hd
    rw [hx, hx'] at hd
    simpa using hd.symm
  obtain ⟨n', hn', hp⟩ := live_of_shapeLe h _ n hl
  exact ⟨nx', e, n', hx', by rw [hdesc]; exact hmem, hn', by rw [hp]; exact hid⟩

/-! ### modNode with a function that keeps ref and pid -/

theorem shapeLe_modNode (t : Tree) (id : Nat) (f : Node → Node)
    (hr : ∀ n, (f n).ref = n.ref) (hp : ∀ n, (f n).pid = n.pid) (hd : ∀ n e, e ∈ (f n).desc → e ∈ n.desc) :
    ShapeLe t (t.modNode id f) := by
  intro x
  constructor
  · intro n hn
    by_cases hx : x = id
    · subst hx
      exact ⟨f n, by rw [aget_modNode]; simp [hn], hr n, hp n, hd n⟩
    · exact ⟨n, by rw [aget_modNode]; simp [hx, hn], rfl, rfl, fun _ he => he⟩
  · intro n' hn'
    rw [aget_modNode] at hn'
    split at hn'
    · obtain ⟨n, hn, _⟩ := Option.map_eq_some_iff.mp hn'
      exact ⟨n, hn⟩
    · exact ⟨n', hn'⟩

theorem descSame_modNode (t : Tree) (id : Nat) (f : Node → Node) (x : Nat)
    (h : x ≠ id ∨ ∀ n, (f n).desc = n.desc) : DescSame t (t.modNode id f) x := by
  unfold DescSame
  rw [aget_modNode]
  by_cases hx : x = id
  · rcases h with h | h
    · exact absurd hx h
    · simp only [hx, if_true, Option.map_map]
      cases aget id t.pids <;> simp [h]
  · simp [hx]

theorem shapeLe_removeWatcher (t : Tree) (e w : Pid) : ShapeLe t (t.removeWatcher e w) := by
  unfold Tree.removeWatcher
  exact shapeLe_trans (shapeLe_modNode t w.id (Node.delWatchee e.id) (fun _ => rfl) (fun _ => rfl) (fun _ _ h => h))
    (shapeLe_modNode _ e.id (Node.delWatcher w.id) (fun _ => rfl) (fun _ => rfl) (fun _ _ h => h))

theorem descSame_removeWatcher (t : Tree) (e w : Pid) (x : Nat) : DescSame t (t.removeWatcher e w) x := by
  unfold Tree.removeWatcher
  exact descSame_trans (descSame_modNode t w.id (Node.delWatchee e.id) x (Or.inr fun _ => rfl))
    (descSame_modNode _ e.id (Node.delWatcher w.id) x (Or.inr fun _ => rfl))

theorem mem_adel {α : Type} (k : Nat) (l : List (Nat × α)) (e : Nat × α) : e ∈ adel k l ↔ e ∈ l ∧ e.1 ≠ k := by
  simp [adel]

theorem shapeLe_removeDescendant (t : Tree) (a c : Nat) : ShapeLe t (t.removeDescendant a c) := by
  unfold Tree.removeDescendant
  exact shapeLe_modNode t a (Node.delDesc c) (fun _ => rfl) (fun _ => rfl) (fun n e h => ((mem_adel c n.desc e).mp h).1)

theorem descSame_removeDescendant (t : Tree) (a c x : Nat) (h : x ≠ a) : DescSame t (t.removeDescendant a c) x := by
  unfold Tree.removeDescendant
  exact descSame_modNode t a (Node.delDesc c) x (Or.inl h)

end GoaktVerif.Model.C09

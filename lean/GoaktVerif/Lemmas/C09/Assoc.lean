/-
C09 helper lemmas: association lists (`aget/aset/adel/amod/amapv`) behave like Go maps.
-/
import GoaktVerif.Model.C09

namespace GoaktVerif.Model.C09

variable {α : Type}

@[simp] theorem aget_nil (k : Nat) : aget k ([] : List (Nat × α)) = none := rfl

theorem aget_cons (k : Nat) (e : Nat × α) (l : List (Nat × α)) :
    aget k (e :: l) = if e.1 = k then some e.2 else aget k l := rfl

theorem aget_adel (k k' : Nat) (l : List (Nat × α)) :
    aget k' (adel k l) = if k' = k then none else aget k' l := by
  induction l with
  | nil => simp [adel]
  | cons e l ih =>
    have ih' : aget k' (l.filter (fun e => e.1 != k)) = if k' = k then none else aget k' l := ih
    simp only [adel, List.filter_cons]
    by_cases h : e.1 = k
    · have h1 : (e.1 != k) = false := by simp [h]
      rw [h1]; simp only [Bool.false_eq_true, ↓reduceIte, ih', aget_cons]
      by_cases hk : k' = k
      · simp [hk]
      · have : ¬ e.1 = k' := by omega
        simp [hk, this]
    · have h1 : (e.1 != k) = true := by simpa using h
      rw [h1]; simp only [↓reduceIte, aget_cons, ih']
      by_cases hk : k' = k
      · subst hk
        simp [h]
      · simp [hk]

theorem aget_aset (k k' : Nat) (v : α) (l : List (Nat × α)) :
    aget k' (aset k v l) = if k' = k then some v else aget k' l := by
  simp only [aset, aget_cons, aget_adel]
  split <;> split <;> simp_all

theorem aget_amod (k k' : Nat) (f : α → α) (l : List (Nat × α)) :
    aget k' (amod k f l) = if k' = k then (aget k' l).map f else aget k' l := by
  induction l with
  | nil => simp [amod]
  | cons e l ih =>
    have ih' : aget k' (l.map (fun e => if e.1 = k then (e.1, f e.2) else e)) =
        if k' = k then (aget k' l).map f else aget k' l := ih
    simp only [amod, List.map_cons, aget_cons, ih']
    by_cases h : e.1 = k
    · by_cases hk : k' = k
      · simp [h, hk]
      · have : ¬ k = k' := fun h' => hk h'.symm
        simp [h, hk, this]
    · by_cases hk : k' = k
      · subst hk
        simp [h]
      · simp [h, hk]

theorem aget_amapv (k : Nat) (f : α → α) (l : List (Nat × α)) :
    aget k (amapv f l) = (aget k l).map f := by
  induction l with
  | nil => simp [amapv]
  | cons e l ih =>
    simp only [amapv, List.map_cons] at ih ⊢
    simp only [aget_cons, ih]
    split <;> simp

theorem aget_isSome_iff (k : Nat) (l : List (Nat × α)) : (aget k l).isSome ↔ k ∈ akeys l := by
  induction l with
  | nil => simp [akeys]
  | cons e l ih =>
    simp only [aget_cons, akeys, List.map_cons, List.mem_cons] at ih ⊢
    split
    · simp_all
    · rename_i h
      rw [ih]
      constructor
      · exact Or.inr
      · rintro (h' | h')
        · exact absurd h'.symm h
        · exact h'

theorem aget_none_iff (k : Nat) (l : List (Nat × α)) : aget k l = none ↔ k ∉ akeys l := by
  rw [← aget_isSome_iff]; cases aget k l <;> simp

@[simp] theorem akeys_amod (k : Nat) (f : α → α) (l : List (Nat × α)) : akeys (amod k f l) = akeys l := by
  simp only [akeys, amod, List.map_map]
  apply List.map_congr_left
  intro e _
  simp only [Function.comp]
  split <;> rfl

@[simp] theorem akeys_amapv (f : α → α) (l : List (Nat × α)) : akeys (amapv f l) = akeys l := by
  simp [akeys, amapv, List.map_map, Function.comp_def]

@[simp] theorem length_amod (k : Nat) (f : α → α) (l : List (Nat × α)) : (amod k f l).length = l.length := by
  simp [amod]

@[simp] theorem length_amapv (f : α → α) (l : List (Nat × α)) : (amapv f l).length = l.length := by
  simp [amapv]

theorem akeys_adel (k : Nat) (l : List (Nat × α)) : akeys (adel k l) = (akeys l).filter (· != k) := by
  induction l with
  | nil => rfl
  | cons e l ih =>
    simp only [adel, akeys, List.filter_cons, List.map_cons] at ih ⊢
    split <;> simp_all

theorem nodup_adel (k : Nat) (l : List (Nat × α)) (h : (akeys l).Nodup) : (akeys (adel k l)).Nodup := by
  rw [akeys_adel]; exact h.filter _

theorem not_mem_akeys_adel (k : Nat) (l : List (Nat × α)) : k ∉ akeys (adel k l) := by
  rw [akeys_adel]; simp

theorem nodup_aset (k : Nat) (v : α) (l : List (Nat × α)) (h : (akeys l).Nodup) : (akeys (aset k v l)).Nodup := by
  simp only [aset, akeys, List.map_cons, List.nodup_cons]
  exact ⟨not_mem_akeys_adel k l, nodup_adel k l h⟩

theorem adel_of_not_mem (k : Nat) (l : List (Nat × α)) (h : k ∉ akeys l) : adel k l = l := by
  induction l with
  | nil => rfl
  | cons e l ih =>
    simp only [akeys, List.map_cons, List.mem_cons, not_or] at h
    simp only [adel, List.filter_cons]
    have : (e.1 != k) = true := by simpa using fun h' => h.1 h'.symm
    simp only [this, ↓reduceIte]
    congr 1
    exact ih h.2

theorem length_adel_of_mem (k : Nat) (l : List (Nat × α)) (hn : (akeys l).Nodup) (h : k ∈ akeys l) :
    (adel k l).length + 1 = l.length := by
  induction l with
  | nil => simp [akeys] at h
  | cons e l ih =>
    simp only [akeys, List.map_cons, List.nodup_cons, List.mem_cons] at hn h
    simp only [adel, List.filter_cons]
    by_cases he : e.1 = k
    · subst he
      simp only [bne_self_eq_false, Bool.false_eq_true, ↓reduceIte, List.length_cons]
      have := adel_of_not_mem e.1 l hn.1
      simp only [adel] at this
      rw [this]
    · have : (e.1 != k) = true := by simpa using he
      simp only [this, ↓reduceIte, List.length_cons]
      have hk : k ∈ akeys l := by
        rcases h with h | h
        · exact absurd h.symm he
        · exact h
      have := ih hn.2 hk
      simp only [adel] at this
      omega

theorem length_aset_of_not_mem (k : Nat) (v : α) (l : List (Nat × α)) (h : k ∉ akeys l) :
    (aset k v l).length = l.length + 1 := by
  simp [aset, adel_of_not_mem k l h]

end GoaktVerif.Model.C09

/-
C09 — every writer of pid_tree.go preserves `WF` (in-place writers).
-/
import GoaktVerif.Lemmas.C09.WF

namespace GoaktVerif.Model.C09

theorem wf_removeWatcher (t : Tree) (e w : Pid) (h : WF t) : WF (t.removeWatcher e w) := by
  unfold Tree.removeWatcher
  constructor
  · simpa using h.nodup
  · intro k n hk
    have := h.key_id k
    grind
  · simpa using h.counter
  · have := h.wval
    grind
  · have := h.eval
    grind
  · have := h.wsym
    have := h.esym
    grind
  · have := h.wsym
    have := h.esym
    grind

theorem wf_removeDescendant (t : Tree) (a c : Nat) (h : WF t) : WF (t.removeDescendant a c) := by
  unfold Tree.removeDescendant
  constructor
  · simpa using h.nodup
  · intro k n hk
    have := h.key_id k
    grind
  · simpa using h.counter
  · have := h.wval
    grind
  · have := h.eval
    grind
  · have := h.wsym
    grind
  · have := h.esym
    grind

theorem wf_addWatcher (t : Tree) (p w : Pid) (h : WF t) : WF (t.addWatcher p w) := by
  unfold Tree.addWatcher
  split
  · exact h
  split
  · exact h
  rename_i h1 h2
  simp only [not_or, Option.isNone_iff_eq_none] at h2
  obtain ⟨np, hnp⟩ := Option.ne_none_iff_exists'.mp h2.1
  obtain ⟨nw, hnw⟩ := Option.ne_none_iff_exists'.mp h2.2
  constructor
  · simpa using h.nodup
  · intro k n hk
    have := h.key_id k
    grind
  · simpa using h.counter
  · have := h.wval
    grind
  · have := h.eval
    grind
  · have := h.wsym
    have := h.esym
    grind
  · have := h.wsym
    have := h.esym
    grind

end GoaktVerif.Model.C09

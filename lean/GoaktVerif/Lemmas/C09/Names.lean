/-
C09 — the name index (`names` + `shadowed`, pid_tree.go after fix 38faff1) and its invariant `NWF`:
every entry and every shadowed pointer is a live node of that name, the current entry never waits in `shadowed`,
and EVERY registered node is reachable through its name: it is the entry or waits in `shadowed` — hence a
registered actor's name always resolves to a registered actor of that name.
In-place writers.
-/
import GoaktVerif.Lemmas.C09.Delete

set_option linter.unusedSimpArgs false

namespace GoaktVerif.Model.C09

structure NWF (t : Tree) : Prop where
  root_empty : t.rootUsed = false → t.pids = []
  names_live : ∀ nm p, aget nm t.names = some p → ∃ n, t.live p = some n ∧ n.pid.name = nm
  shadow_live : ∀ nm l q, aget nm t.shadowed = some l → q ∈ l → ∃ n, t.live q = some n ∧ n.pid.name = nm
  shadow_ne : ∀ nm l q, aget nm t.shadowed = some l → q ∈ l → aget nm t.names ≠ some q
  shadow_nodup : ∀ nm l, aget nm t.shadowed = some l → l.Nodup
  shadow_entry : ∀ nm l q, aget nm t.shadowed = some l → q ∈ l → (aget nm t.names).isSome
  names_full : ∀ k n, aget k t.pids = some n →
    aget n.pid.name t.names = some ⟨k, n.ref⟩ ∨ ∃ l, aget n.pid.name t.shadowed = some l ∧ (⟨k, n.ref⟩ : Ptr) ∈ l

/-- a registered actor's name resolves to a registered actor carrying that name -/
theorem NWF.resolves {t : Tree} (h : NWF t) (k : Nat) (n : Node) (hn : aget k t.pids = some n) :
    ∃ q m, aget n.pid.name t.names = some q ∧ t.live q = some m ∧ m.pid.name = n.pid.name := by
  rcases h.names_full k n hn with h1 | ⟨l, hl, hmem⟩
  · obtain ⟨m, hm, hname⟩ := h.names_live _ _ h1
    exact ⟨_, m, h1, hm, hname⟩
  · obtain ⟨q, hq⟩ := Option.isSome_iff_exists.mp (h.shadow_entry _ l _ hl hmem)
    obtain ⟨m, hm, hname⟩ := h.names_live _ _ hq
    exact ⟨q, m, hq, hm, hname⟩

theorem live_modNode (t : Tree) (id : Nat) (f : Node → Node) (hr : ∀ n, (f n).ref = n.ref) (q : Ptr) (n : Node)
    (h : t.live q = some n) : (t.modNode id f).live q = some (if q.id = id then f n else n) := by
  rw [live_eq_some] at h
  rw [live_eq_some, aget_modNode]
  by_cases hid : q.id = id
  · subst hid
    simp [h.1, hr, h.2]
  · simp [hid, h.1, h.2]

theorem nwf_modNode (t : Tree) (id : Nat) (f : Node → Node)
    (hr : ∀ n, (f n).ref = n.ref) (hp : ∀ n, (f n).pid = n.pid) (h : NWF t) : NWF (t.modNode id f) := by
  have lv : ∀ q n nm, t.live q = some n → n.pid.name = nm →
      ∃ n', (t.modNode id f).live q = some n' ∧ n'.pid.name = nm := by
    intro q n nm hq hnm
    refine ⟨_, live_modNode t id f hr q n hq, ?_⟩
    split
    · rw [hp]; exact hnm
    · exact hnm
  constructor
  · intro hru
    have := h.root_empty hru
    simp [Tree.modNode, this, amod]
  · intro nm p hnm
    obtain ⟨n, hn, hname⟩ := h.names_live nm p hnm
    exact lv p n nm hn hname
  · intro nm l q hl hq
    obtain ⟨n, hn, hname⟩ := h.shadow_live nm l q hl hq
    exact lv q n nm hn hname
  · exact h.shadow_ne
  · exact h.shadow_nodup
  · exact h.shadow_entry
  · intro k n' hk
    rw [aget_modNode] at hk
    split at hk
    · obtain ⟨n, hn, rfl⟩ := Option.map_eq_some_iff.mp hk
      rw [hp, hr]
      exact h.names_full k n hn
    · exact h.names_full k n' hk

theorem nwf_removeWatcher (t : Tree) (e w : Pid) (h : NWF t) : NWF (t.removeWatcher e w) := by
  unfold Tree.removeWatcher
  exact nwf_modNode _ _ _ (fun _ => rfl) (fun _ => rfl) (nwf_modNode _ _ _ (fun _ => rfl) (fun _ => rfl) h)

theorem nwf_removeDescendant (t : Tree) (a c : Nat) (h : NWF t) : NWF (t.removeDescendant a c) := by
  unfold Tree.removeDescendant
  exact nwf_modNode _ _ _ (fun _ => rfl) (fun _ => rfl) h

theorem nwf_addWatcher (t : Tree) (p w : Pid) (h : NWF t) : NWF (t.addWatcher p w) := by
  unfold Tree.addWatcher
  split
  · exact h
  split
  · exact h
  exact nwf_modNode _ _ _ (fun _ => rfl) (fun _ => rfl) (nwf_modNode _ _ _ (fun _ => rfl) (fun _ => rfl) h)

theorem nwf_attach (t : Tree) (a p : Pid) (h : NWF t) : NWF (t.attach a p).1 := by
  unfold Tree.attach
  split
  · exact h
  split
  · exact h
  split
  · exact h
  split
  · exact h
  exact nwf_modNode _ _ _ (fun _ => rfl) (fun _ => rfl) (nwf_modNode _ _ _ (fun _ => rfl) (fun _ => rfl)
    (nwf_modNode _ _ _ (fun _ => rfl) (fun _ => rfl) (nwf_modNode _ _ _ (fun _ => rfl) (fun _ => rfl) h)))

theorem nwf_empty : NWF Tree.empty := by
  constructor <;> simp [Tree.empty]

theorem nwf_reset (t : Tree) : NWF t.reset := by
  constructor <;> simp [Tree.reset, Tree.empty]

end GoaktVerif.Model.C09

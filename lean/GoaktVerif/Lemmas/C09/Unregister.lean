/-
C09 — `deleteNode(q)` unregisters `q`, and nothing a later `deleteNode` does registers it again.
-/
import GoaktVerif.Lemmas.C09.Delete
import GoaktVerif.Model.C09.Stop

set_option linter.unusedSimpArgs false

namespace GoaktVerif.Model.C09

/-- `removeNode` only removes registrations and keeps the node objects of the others -/
theorem removeNode_sub (t : Tree) (r : Ptr) (k : Nat) (n' : Node) (h : aget k (t.removeNode r).pids = some n') :
    ∃ n, aget k t.pids = some n ∧ n'.ref = n.ref := by
  cases hl : t.live r with
  | none => rw [removeNode_of_dead t r hl] at h; exact ⟨n', h, rfl⟩
  | some m =>
    rw [aget_removeNode t r m hl] at h
    split at h
    · simp at h
    · obtain ⟨n, hn, rfl⟩ := Option.map_eq_some_iff.mp h
      exact ⟨n, hn, rfl⟩

theorem removeNode_self (t : Tree) (r : Ptr) : aget r.id (t.removeNode r).pids = none ∨ t.live r = none := by
  cases hl : t.live r with
  | none => exact Or.inr rfl
  | some m => left; rw [aget_removeNode t r m hl]; simp

theorem foldl_removeNode_sub (l : List Ptr) (t : Tree) (k : Nat) (n' : Node)
    (h : aget k (l.foldl Tree.removeNode t).pids = some n') : ∃ n, aget k t.pids = some n ∧ n'.ref = n.ref := by
  induction l generalizing t with
  | nil => exact ⟨n', h, rfl⟩
  | cons r l ih =>
    obtain ⟨n1, hn1, hr1⟩ := ih _ h
    obtain ⟨n, hn, hr⟩ := removeNode_sub t r k n1 hn1
    exact ⟨n, hn, hr1.trans hr⟩

/-- every pointer the clean-up loop visits is dead afterwards -/
theorem foldl_removeNode_dead (l : List Ptr) (t : Tree) (q : Ptr) (hq : q ∈ l) :
    (l.foldl Tree.removeNode t).live q = none := by
  induction l generalizing t with
  | nil => simp at hq
  | cons r l ih =>
    simp only [List.foldl_cons]
    rcases List.mem_cons.mp hq with rfl | hq'
    · -- after removing q itself it is dead, and stays dead
      cases hlive : (l.foldl Tree.removeNode (t.removeNode q)).live q with
      | none => rfl
      | some n' =>
        exfalso
        rw [live_eq_some] at hlive
        obtain ⟨n1, hn1, hr1⟩ := foldl_removeNode_sub l _ q.id n' hlive.1
        rcases removeNode_self t q with h | h
        · rw [h] at hn1; simp at hn1
        · obtain ⟨n0, hn0, hr0⟩ := removeNode_sub t q q.id n1 hn1
          have : t.live q = some n0 := by rw [live_eq_some]; exact ⟨hn0, by rw [← hr0, ← hr1]; exact hlive.2⟩
          rw [h] at this; simp at this
    · exact ih _ hq'

/-- `deleteNode(q)` leaves nothing registered under `q`'s id -/
theorem deleteNode_unregisters (t : Tree) (q : Pid) (hq : q.id ≠ NOS) : aget q.id (t.deleteNode q).pids = none := by
  unfold Tree.deleteNode
  simp only [hq, if_false]
  cases hn : aget q.id t.pids with
  | none => simp [hn]
  | some n =>
    simp only
    have hlive : t.live ⟨q.id, n.ref⟩ = some n := by rw [live_eq_some]; exact ⟨hn, rfl⟩
    have hmem : (⟨q.id, n.ref⟩ : Ptr) ∈ (t.subtree t.fuel ⟨q.id, n.ref⟩).reverse := by
      simp only [List.mem_reverse, Tree.fuel, Tree.subtree, hlive]
      exact List.mem_cons_self
    have hdead := foldl_removeNode_dead _ t _ hmem
    cases hres : aget q.id ((t.subtree t.fuel ⟨q.id, n.ref⟩).reverse.foldl Tree.removeNode t).pids with
    | none => rfl
    | some n' =>
      exfalso
      obtain ⟨n0, hn0, hr0⟩ := foldl_removeNode_sub _ t q.id n' hres
      have : n0 = n := by rw [hn] at hn0; simpa using hn0.symm
      subst this
      have : ((t.subtree t.fuel ⟨q.id, n0.ref⟩).reverse.foldl Tree.removeNode t).live ⟨q.id, n0.ref⟩ = some n' := by
        rw [live_eq_some]; exact ⟨hres, hr0⟩
      rw [hdead] at this
      simp at this

/-- `deleteNode` never registers anything -/
theorem deleteNode_sub (t : Tree) (q : Pid) (k : Nat) (h : aget k t.pids = none) : aget k (t.deleteNode q).pids = none := by
  unfold Tree.deleteNode
  split
  · exact h
  split
  · exact h
  · cases hres : aget k ((t.subtree t.fuel _).reverse.foldl Tree.removeNode t).pids with
    | none => rfl
    | some n' =>
      obtain ⟨n0, hn0, _⟩ := foldl_removeNode_sub _ t k n' hres
      rw [h] at hn0; simp at hn0

/-- once death watch has handled the `Terminated` messages it was sent, none of the actors they name is
    registered any more -/
theorem drain_unregisters (s : Sys) (dw since q : Nat) (hq : q ≠ NOS)
    (hmem : q ∈ terminatedTo dw (s.log.drop since)) : aget q (s.drainDeathWatch dw since).tree.pids = none := by
  unfold Sys.drainDeathWatch
  generalize terminatedTo dw (s.log.drop since) = l at hmem
  induction l generalizing s with
  | nil => simp at hmem
  | cons a l ih =>
    simp only [List.foldl_cons]
    rcases List.mem_cons.mp hmem with rfl | hmem'
    · -- handled now; later deleteNodes keep it unregistered
      have h0 : aget q (s.deathWatch q).tree.pids = none := deleteNode_unregisters s.tree (mkPid q) hq
      generalize s.deathWatch q = s1 at h0
      clear ih hmem
      induction l generalizing s1 with
      | nil => exact h0
      | cons b l ih2 => exact ih2 _ (deleteNode_sub s1.tree (mkPid b) q h0)
    · exact ih _ hmem'

end GoaktVerif.Model.C09

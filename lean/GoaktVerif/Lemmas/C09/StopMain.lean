/-
C09 — the stop procedure (`Sys.shutdown`): post-condition proved by induction on the recursion,
with a fold invariant over the children loop of `freeChildren`.
-/
import GoaktVerif.Lemmas.C09.Quiet

set_option linter.unusedSimpArgs false

namespace GoaktVerif.Model.C09

/-- standing assumptions on the tree: the live `descendants` graph is acyclic (witnessed by a rank that
    decreases along every edge) and NoSender has no children -/
def Hyp (rank : Nat → Nat) (t : Tree) : Prop :=
  (∀ x y, edge t x y → rank y < rank x) ∧ (∀ y, ¬ edge t NOS y)

theorem hyp_mono {rank : Nat → Nat} {t t' : Tree} (h : ShapeLe t t') (hy : Hyp rank t) : Hyp rank t' :=
  ⟨fun x y he => hy.1 x y (edge_of_shapeLe h he), fun y he => hy.2 y (edge_of_shapeLe h he)⟩

/-- what `Shutdown(p)` guarantees when it returns (from state `s` to `s'`) -/
structure Post (rank : Nat → Nat) (s : Sys) (p : Nat) (s' : Sys) : Prop where
  shape : ShapeLe s.tree s'.tree
  run_sub : ∀ x, x ∈ s'.running → x ∈ s.running
  stop_sub : ∀ x, x ∈ s'.stopping → x ∈ s.stopping
  desc_same : ∀ x, (x ∈ s'.running ∨ x ∉ s.running) → DescSame s.tree s'.tree x
  self_off : p ∉ s'.running
  closed : ∀ x y, x ∈ s.running → x ∉ s'.running → edge s.tree x y → y ∉ s'.running ∨ y ∈ s.stopping
  log_ext : ∃ evs, s'.log = s.log ++ evs ∧ ∀ x, x ∈ s.running → x ∉ s'.running → Ev.postStop x ∈ evs
  rank_le : ∀ x, x ∈ s.running → x ∉ s'.running → rank x ≤ rank p
  order : ∀ x y, x ∈ s.running → x ∉ s'.running → edge s.tree x y → y ∈ s.running → y ∉ s.stopping →
    Before s'.log (Ev.postStop y) (Ev.postStop x)

theorem post_offline (rank : Nat → Nat) (s : Sys) (p : Nat) (h : p ∉ s.running) : Post rank s p s :=
  ⟨shapeLe_refl _, fun _ h => h, fun _ h => h, fun _ _ => rfl, h, fun _ _ h1 h2 => absurd h1 h2,
   ⟨[], by simp, fun _ h1 h2 => absurd h1 h2⟩, fun _ h1 h2 => absurd h1 h2, fun _ _ h1 h2 => absurd h1 h2⟩

/-- the loop invariant of `freeChildren(p)`: `s1` = state when the loop starts, `si` = current state -/
structure FI (rank : Nat → Nat) (p : Nat) (s1 si : Sys) : Prop where
  shape : ShapeLe s1.tree si.tree
  run_sub : ∀ x, x ∈ si.running → x ∈ s1.running
  stop_sub : ∀ x, x ∈ si.stopping → x ∈ s1.stopping
  desc_same : ∀ x, x ≠ p → (x ∈ si.running ∨ x ∉ s1.running) → DescSame s1.tree si.tree x
  closed : ∀ x y, x ≠ p → x ∈ s1.running → x ∉ si.running → edge s1.tree x y → y ∉ si.running ∨ y ∈ s1.stopping
  log_ext : ∃ evs, si.log = s1.log ++ evs ∧ ∀ x, x ∈ s1.running → x ∉ si.running → Ev.postStop x ∈ evs
  rank_lt : ∀ x, x ∈ s1.running → x ∉ si.running → rank x < rank p
  order : ∀ x y, x ∈ s1.running → x ∉ si.running → edge s1.tree x y → y ∈ s1.running → y ∉ s1.stopping →
    Before si.log (Ev.postStop y) (Ev.postStop x)

theorem fi_refl (rank : Nat → Nat) (p : Nat) (s : Sys) : FI rank p s s :=
  ⟨shapeLe_refl _, fun _ h => h, fun _ h => h, fun _ _ _ => rfl, fun _ _ _ h1 h2 => absurd h1 h2,
   ⟨[], by simp, fun _ h1 h2 => absurd h1 h2⟩, fun _ h1 h2 => absurd h1 h2, fun _ _ h1 h2 => absurd h1 h2⟩

/-- the body of the children loop at recursion depth `fuel` -/
abbrev childStep (fuel p : Nat) : Sys → Pid → Option Sys := Sys.childStep (Sys.shutdown fuel) p

/-- the state right before the child's `Shutdown` (or the skip) -/
def prep (p : Nat) (s : Sys) (c : Pid) : Sys :=
  { (s.unwatch p c.id) with tree := (s.unwatch p c.id).tree.removeDescendant p c.id }

theorem prep_facts (p : Nat) (s : Sys) (c : Pid) :
    ShapeLe s.tree (prep p s c).tree ∧ (∀ x, x ≠ p → DescSame s.tree (prep p s c).tree x)
    ∧ (prep p s c).running = s.running ∧ (prep p s c).stopping = s.stopping
    ∧ (prep p s c).suspended = s.suspended ∧ (prep p s c).log = s.log := by
  refine ⟨shapeLe_trans (shapeLe_removeWatcher _ _ _) (shapeLe_removeDescendant _ _ _), ?_, rfl, rfl, rfl, rfl⟩
  intro x hx
  exact descSame_trans (descSame_removeWatcher _ _ _ x) (descSame_removeDescendant _ _ _ x hx)

/-- `Post` without the clause about `p` itself (also true of a skipped child, with `s' = s`) -/
structure PostC (rank : Nat → Nat) (s : Sys) (p : Nat) (s' : Sys) : Prop where
  shape : ShapeLe s.tree s'.tree
  run_sub : ∀ x, x ∈ s'.running → x ∈ s.running
  stop_sub : ∀ x, x ∈ s'.stopping → x ∈ s.stopping
  desc_same : ∀ x, (x ∈ s'.running ∨ x ∉ s.running) → DescSame s.tree s'.tree x
  closed : ∀ x y, x ∈ s.running → x ∉ s'.running → edge s.tree x y → y ∉ s'.running ∨ y ∈ s.stopping
  log_ext : ∃ evs, s'.log = s.log ++ evs ∧ ∀ x, x ∈ s.running → x ∉ s'.running → Ev.postStop x ∈ evs
  rank_le : ∀ x, x ∈ s.running → x ∉ s'.running → rank x ≤ rank p
  order : ∀ x y, x ∈ s.running → x ∉ s'.running → edge s.tree x y → y ∈ s.running → y ∉ s.stopping →
    Before s'.log (Ev.postStop y) (Ev.postStop x)

theorem Post.core {rank : Nat → Nat} {s : Sys} {p : Nat} {s' : Sys} (h : Post rank s p s') : PostC rank s p s' :=
  ⟨h.shape, h.run_sub, h.stop_sub, h.desc_same, h.closed, h.log_ext, h.rank_le, h.order⟩

theorem postC_refl (rank : Nat → Nat) (s : Sys) (p : Nat) : PostC rank s p s :=
  ⟨shapeLe_refl _, fun _ h => h, fun _ h => h, fun _ _ => rfl, fun _ _ h1 h2 => absurd h1 h2,
   ⟨[], by simp, fun _ h1 h2 => absurd h1 h2⟩, fun _ h1 h2 => absurd h1 h2, fun _ _ h1 h2 => absurd h1 h2⟩

/-- one iteration of the children loop keeps the invariant -/
theorem fi_step (rank : Nat → Nat) (p : Nat) (s1 si sj : Sys) (c : Pid)
    (fi : FI rank p s1 si) (hrank : rank c.id < rank p)
    (hP : PostC rank (prep p si c) c.id sj) :
    FI rank p s1 sj ∧ (∀ x, x ∈ sj.running → x ∈ si.running) := by
  obtain ⟨hsh, hdesc, hrun, hstop, _, hlog⟩ := prep_facts p si c
  generalize prep p si c = sb at hsh hdesc hrun hstop hlog hP
  have mono : ∀ x, x ∈ sj.running → x ∈ si.running := fun x hx => by rw [← hrun]; exact hP.run_sub x hx
  -- an edge of the start tree out of a node that is still running in `si` is an edge of `sb`
  have edge_sb : ∀ x y, x ≠ p → x ∈ si.running → edge s1.tree x y → edge sb.tree x y := by
    intro x y hxp hx he
    have h1 := edge_of_descSame fi.shape (fi.desc_same x hxp (Or.inl hx)) he
    exact edge_of_descSame hsh (hdesc x hxp) h1
  refine ⟨⟨shapeLe_trans fi.shape (shapeLe_trans hsh hP.shape), fun x hx => fi.run_sub x (mono x hx),
    fun x hx => fi.stop_sub x (by rw [← hstop]; exact hP.stop_sub x hx), ?_, ?_, ?_, ?_, ?_⟩, mono⟩
  · -- desc_same
    intro x hxp hx
    have hi : DescSame s1.tree si.tree x := by
      rcases hx with hx | hx
      · exact fi.desc_same x hxp (Or.inl (mono x hx))
      · exact fi.desc_same x hxp (Or.inr hx)
    have hj : DescSame sb.tree sj.tree x := by
      rcases hx with hx | hx
      · exact hP.desc_same x (Or.inl hx)
      · exact hP.desc_same x (Or.inr (fun h => hx (fi.run_sub x (by rw [← hrun]; exact h))))
    exact descSame_trans hi (descSame_trans (hdesc x hxp) hj)
  · -- closed
    intro x y hxp hx1 hxj he
    by_cases hxi : x ∈ si.running
    · have := hP.closed x y (by rw [hrun]; exact hxi) hxj (edge_sb x y hxp hxi he)
      rcases this with h | h
      · exact Or.inl h
      · exact Or.inr (fi.stop_sub y (by rw [← hstop]; exact h))
    · rcases fi.closed x y hxp hx1 hxi he with h | h
      · exact Or.inl (fun hy => h (mono y hy))
      · exact Or.inr h
  · -- log_ext
    obtain ⟨ei, hli, hpi⟩ := fi.log_ext
    obtain ⟨ej, hlj, hpj⟩ := hP.log_ext
    refine ⟨ei ++ ej, by rw [hlj, hlog, hli, List.append_assoc], ?_⟩
    intro x hx1 hxj
    by_cases hxi : x ∈ si.running
    · exact List.mem_append_right _ (hpj x (by rw [hrun]; exact hxi) hxj)
    · exact List.mem_append_left _ (hpi x hx1 hxi)
  · -- rank_lt
    intro x hx1 hxj
    by_cases hxi : x ∈ si.running
    · exact Nat.lt_of_le_of_lt (hP.rank_le x (by rw [hrun]; exact hxi) hxj) hrank
    · exact fi.rank_lt x hx1 hxi
  · -- order
    intro x y hx1 hxj he hy1 hys
    obtain ⟨ei, hli, hpi⟩ := fi.log_ext
    obtain ⟨ej, hlj, hpj⟩ := hP.log_ext
    by_cases hxi : x ∈ si.running
    · have hxp : x ≠ p := by
        intro h
        have := hP.rank_le x (by rw [hrun]; exact hxi) hxj
        rw [h] at this
        omega
      have heb := edge_sb x y hxp hxi he
      by_cases hyi : y ∈ si.running
      · have hys' : y ∉ sb.stopping := fun h => hys (fi.stop_sub y (by rw [← hstop]; exact h))
        exact hP.order x y (by rw [hrun]; exact hxi) hxj heb (by rw [hrun]; exact hyi) hys'
      · have hy_in : Ev.postStop y ∈ si.log := by rw [hli]; exact List.mem_append_right _ (hpi y hy1 hyi)
        have hx_in : Ev.postStop x ∈ ej := hpj x (by rw [hrun]; exact hxi) hxj
        rw [hlj, hlog]
        exact before_of_mem hy_in hx_in
    · have := fi.order x y hx1 hxi he hy1 hys
      rw [hlj, hlog]
      exact before_append _ this

end GoaktVerif.Model.C09

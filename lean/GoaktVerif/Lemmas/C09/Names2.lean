/-
C09 — `NWF` under the allocating writers (`addRoot`, `addNode`).
-/
import GoaktVerif.Lemmas.C09.Names

set_option linter.unusedSimpArgs false

namespace GoaktVerif.Model.C09

theorem live_id_present (t : Tree) (q : Ptr) (n : Node) (h : t.live q = some n) : aget q.id t.pids = some n :=
  ((live_eq_some t q n).mp h).1

/-- `t'` is `t` plus a brand-new node `c` for PID `p` (id not registered) that takes the name entry, the
    previous holder (if any) moving to `shadowed` -/
theorem nwf_insertNamed (t t' : Tree) (p : Pid) (c : Node) (hc : c.pid = p) (habs : aget p.id t.pids = none)
    (hp : t'.pids = aset p.id c t.pids) (hn : t'.names = aset p.name ⟨p.id, c.ref⟩ t.names)
    (hs : t'.shadowed = match aget p.name t.names with
      | some prev => aset p.name ((aget p.name t.shadowed).getD [] ++ [prev]) t.shadowed
      | none => t.shadowed)
    (hr : t'.rootUsed = true) (h : NWF t) : NWF t' := by
  -- pointers that were live stay live (their id is not the new one)
  have keep : ∀ q n, t.live q = some n → t'.live q = some n := by
    intro q n hq
    have hq' := (live_eq_some t q n).mp hq
    have hne : q.id ≠ p.id := by intro he; rw [he, habs] at hq'; simp at hq'
    rw [live_eq_some, hp]
    simp [aget_aset, hne, hq'.1, hq'.2]
  have newlive : t'.live ⟨p.id, c.ref⟩ = some c := by
    rw [live_eq_some, hp]; simp [aget_aset]
  have oldne : ∀ q n, t.live q = some n → q ≠ (⟨p.id, c.ref⟩ : Ptr) := by
    intro q n hq he
    have := live_id_present t q n hq
    rw [he] at this
    simp only at this
    rw [habs] at this; simp at this
  -- the shadowed list of a name after the insert
  have shget : ∀ nm l, aget nm t'.shadowed = some l →
      (nm = p.name ∧ ∃ prev, aget p.name t.names = some prev ∧ l = (aget p.name t.shadowed).getD [] ++ [prev])
      ∨ (aget nm t.shadowed = some l ∧ (nm = p.name → aget p.name t.names = none)) := by
    intro nm l hl
    rw [hs] at hl
    cases hprev : aget p.name t.names with
    | none => rw [hprev] at hl; exact Or.inr ⟨hl, fun _ => rfl⟩
    | some prev =>
      rw [hprev] at hl
      simp only [aget_aset] at hl
      split at hl
      · rename_i hnm
        simp only [Option.some.injEq] at hl
        exact Or.inl ⟨hnm, prev, rfl, hl.symm⟩
      · rename_i hnm
        exact Or.inr ⟨hl, fun h' => absurd h' hnm⟩
  have memold : ∀ q, q ∈ (aget p.name t.shadowed).getD [] → ∃ l, aget p.name t.shadowed = some l ∧ q ∈ l := by
    intro q hq
    cases hsd : aget p.name t.shadowed with
    | none => rw [hsd] at hq; simp at hq
    | some l => rw [hsd] at hq; exact ⟨l, rfl, hq⟩
  -- every member of a new shadowed list was live (and of that name) in the old tree
  have memlive : ∀ nm l q, aget nm t'.shadowed = some l → q ∈ l → ∃ n, t.live q = some n ∧ n.pid.name = nm := by
    intro nm l q hl hq
    rcases shget nm l hl with ⟨hnm, prev, hprev, rfl⟩ | ⟨hold, _⟩
    · subst hnm
      rcases List.mem_append.mp hq with hq | hq
      · obtain ⟨l0, hl0, hq0⟩ := memold q hq
        exact h.shadow_live _ l0 q hl0 hq0
      · simp only [List.mem_singleton] at hq
        subst hq
        exact h.names_live _ _ hprev
    · exact h.shadow_live nm l q hold hq
  constructor
  · intro hru; rw [hr] at hru; simp at hru
  · intro nm q hq
    rw [hn, aget_aset] at hq
    split at hq
    · rename_i hnm
      simp only [Option.some.injEq] at hq
      subst hq
      exact ⟨c, newlive, by rw [hc]; exact hnm.symm⟩
    · obtain ⟨n, hl, hname⟩ := h.names_live nm q hq
      exact ⟨n, keep q n hl, hname⟩
  · intro nm l q hl hq
    obtain ⟨n, hl', hname⟩ := memlive nm l q hl hq
    exact ⟨n, keep q n hl', hname⟩
  · intro nm l q hl hq
    obtain ⟨n, hl', _⟩ := memlive nm l q hl hq
    rw [hn, aget_aset]
    split
    · intro he
      simp only [Option.some.injEq] at he
      exact oldne q n hl' he.symm
    · rename_i hnm
      rcases shget nm l hl with ⟨h1, _⟩ | ⟨hold, _⟩
      · exact absurd h1 hnm
      · exact h.shadow_ne nm l q hold hq
  · intro nm l hl
    rcases shget nm l hl with ⟨hnm, prev, hprev, rfl⟩ | ⟨hold, _⟩
    · rw [List.nodup_append]
      refine ⟨?_, by simp, ?_⟩
      · cases hsd : aget p.name t.shadowed with
        | none => simp
        | some l0 => simp only [Option.getD_some]; exact h.shadow_nodup _ l0 hsd
      · intro a ha b hb
        simp only [List.mem_singleton] at hb
        subst hb
        obtain ⟨l0, hl0, ha0⟩ := memold a ha
        intro he
        subst he
        exact h.shadow_ne _ l0 a hl0 ha0 hprev
    · exact h.shadow_nodup nm l hold
  · intro nm l q hl hq
    rw [hn, aget_aset]
    split
    · simp
    · rename_i hnm
      rcases shget nm l hl with ⟨h1, _⟩ | ⟨hold, _⟩
      · exact absurd h1 hnm
      · exact h.shadow_entry nm l q hold hq
  · intro k n hk
    rw [hp, aget_aset] at hk
    split at hk
    · rename_i hkp
      simp only [Option.some.injEq] at hk
      subst hk; subst hkp
      left
      rw [hn, hc]; simp [aget_aset]
    · rename_i hkp
      have hold := h.names_full k n hk
      by_cases hnm : n.pid.name = p.name
      · -- the new node took this name: the old holder is now in `shadowed`
        right
        rcases hold with hent | ⟨l0, hl0, hm0⟩
        · rw [hnm] at hent
          refine ⟨(aget p.name t.shadowed).getD [] ++ [⟨k, n.ref⟩], ?_, by simp⟩
          rw [hs, hent, hnm]; simp [aget_aset]
        · rw [hnm] at hl0
          obtain ⟨prev, hprev⟩ := Option.isSome_iff_exists.mp (h.shadow_entry _ l0 _ hl0 hm0)
          refine ⟨l0 ++ [prev], ?_, List.mem_append_left _ hm0⟩
          rw [hs, hprev, hnm]; simp [aget_aset, hl0]
      · rcases hold with hent | ⟨l0, hl0, hm0⟩
        · left; rw [hn, aget_aset]; simp [hnm, hent]
        · right
          refine ⟨l0, ?_, hm0⟩
          rw [hs]
          cases hprev : aget p.name t.names with
          | none => exact hl0
          | some prev => simp [aget_aset, hnm, hl0]

theorem nwf_addRoot (t : Tree) (p : Pid) (h : NWF t) : NWF (t.addRoot p).1 := by
  unfold Tree.addRoot
  split
  · exact h
  split
  · exact h
  rename_i hnos habs
  rw [isSome_false_iff] at habs
  split
  · exact h
  rename_i hru
  have hru' : t.rootUsed = false := by simpa using hru
  have hempty := h.root_empty hru'
  -- nothing is registered, so no name entry exists
  have hnone : aget p.name t.names = none := by
    cases hq : aget p.name t.names with
    | none => rfl
    | some q =>
      obtain ⟨n, hn, _⟩ := h.names_live _ _ hq
      have := live_id_present t q n hn
      rw [hempty] at this; simp at this
  exact nwf_insertNamed t _ p (Node.mk t.next p none [] [] [])
    rfl habs rfl rfl (by simp [hnone]) rfl h

theorem nwf_addNode (t : Tree) (a p : Pid) (h : NWF t) : NWF (t.addNode a p).1 := by
  unfold Tree.addNode
  split
  · exact h
  split
  · exact h
  rename_i hnos habs
  rw [isSome_false_iff] at habs
  split
  · exact h
  rename_i pn hpn
  have hru : t.rootUsed = true := by
    cases hr : t.rootUsed with
    | true => rfl
    | false => have := h.root_empty hr; rw [this] at hpn; simp at hpn
  have hne : a.id ≠ p.id := by intro he; rw [he, habs] at hpn; simp at hpn
  have h1 : NWF ((t.modNode a.id (Node.setDesc p.id t.next)).modNode a.id (Node.setWatchee p.id p)) :=
    nwf_modNode _ _ _ (fun _ => rfl) (fun _ => rfl) (nwf_modNode _ _ _ (fun _ => rfl) (fun _ => rfl) h)
  refine nwf_insertNamed _ _ p
    (Node.mk t.next p (some ⟨a.id, pn.ref⟩) [(a.id, a)] [] []) rfl ?_ rfl rfl rfl hru h1
  have hne' : ¬ p.id = a.id := fun h' => hne h'.symm
  simp only [aget_modNode, hne', if_false]
  exact habs

theorem nwf_addOrAttach (t : Tree) (a p : Pid) (h : NWF t) : NWF (t.addOrAttach a p).1 := by
  unfold Tree.addOrAttach
  split
  · exact h
  split
  · exact nwf_attach t a p h
  · exact nwf_addNode t a p h

end GoaktVerif.Model.C09

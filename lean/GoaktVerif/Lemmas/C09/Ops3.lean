/-
C09 — the allocating writers `addRoot`, `addNode` (and `addOrAttach`) preserve `WF`.
-/
import GoaktVerif.Lemmas.C09.Ops2

set_option linter.unusedSimpArgs false

namespace GoaktVerif.Model.C09

theorem isSome_false_iff {α : Type} (o : Option α) : ¬ (o.isSome = true) ↔ o = none := by
  cases o <;> simp

theorem wf_addRoot (t : Tree) (p : Pid) (h : WF t) : WF (t.addRoot p).1 := by
  unfold Tree.addRoot
  split
  · exact h
  split
  · exact h
  rename_i hnos hp
  rw [isSome_false_iff] at hp
  split
  · exact h
  simp only
  have hnk : p.id ∉ akeys t.pids := (aget_none_iff _ _).mp hp
  constructor
  · exact nodup_aset _ _ _ h.nodup
  · intro k n hk
    simp only [aget_aset] at hk
    split at hk
    · simp_all; rw [← hk]
    · exact h.key_id k n hk
  · simp only [length_aset_of_not_mem _ _ _ hnk]
    have := h.counter
    omega
  · intro a na w pw ha hw
    simp only [aget_aset] at ha
    split at ha
    · simp only [Option.some.injEq] at ha; subst ha; simp at hw
    · exact h.wval a na w pw ha hw
  · intro a na e pe ha he
    simp only [aget_aset] at ha
    split at ha
    · simp only [Option.some.injEq] at ha; subst ha; simp at he
    · exact h.eval a na e pe ha he
  · intro a na w ha hw
    simp only [aget_aset] at ha
    split at ha
    · simp only [Option.some.injEq] at ha; subst ha; simp at hw
    · obtain ⟨nw, hnw, h2⟩ := h.wsym a na w ha hw
      refine ⟨nw, ?_, h2⟩
      have : w ≠ p.id := by intro he; rw [he, hp] at hnw; simp at hnw
      simp [aget_aset, this, hnw]
  · intro a na e ha he
    simp only [aget_aset] at ha
    split at ha
    · simp only [Option.some.injEq] at ha; subst ha; simp at he
    · obtain ⟨ne, hne, h2⟩ := h.esym a na e ha he
      refine ⟨ne, ?_, h2⟩
      have : e ≠ p.id := by intro he'; rw [he', hp] at hne; simp at hne
      simp [aget_aset, this, hne]

/-- net effect of `addNodeLocked(a, p)` on an already registered node filed under `k` -/
def addG (a p : Pid) (r : Nat) (k : Nat) (n : Node) : Node :=
  { n with
    desc := if k = a.id then aset p.id r n.desc else n.desc
    watchees := if k = a.id then aset p.id p n.watchees else n.watchees }

@[simp, grind =] theorem addG_ref (a p : Pid) (r k : Nat) (n : Node) : (addG a p r k n).ref = n.ref := rfl
@[simp, grind =] theorem addG_pid (a p : Pid) (r k : Nat) (n : Node) : (addG a p r k n).pid = n.pid := rfl
@[simp, grind =] theorem addG_watchers (a p : Pid) (r k : Nat) (n : Node) : (addG a p r k n).watchers = n.watchers := rfl
@[simp, grind =] theorem addG_watchees (a p : Pid) (r k : Nat) (n : Node) :
    (addG a p r k n).watchees = if k = a.id then aset p.id p n.watchees else n.watchees := rfl

theorem add_get (t : Tree) (a p : Pid) (r k : Nat) :
    aget k ((t.modNode a.id (Node.setDesc p.id r)).modNode a.id (Node.setWatchee p.id p)).pids
    = (aget k t.pids).map (addG a p r k) := by
  simp only [aget_modNode]
  generalize aget k t.pids = o
  cases o with
  | none => by_cases h : k = a.id <;> simp [h]
  | some n => by_cases h : k = a.id <;> simp [h, addG, Node.setDesc, Node.setWatchee]

theorem wf_addNode (t : Tree) (a p : Pid) (h : WF t) : WF (t.addNode a p).1 := by
  unfold Tree.addNode
  split
  · exact h
  split
  · exact h
  rename_i hnos hp
  rw [isSome_false_iff] at hp
  split
  · exact h
  rename_i pn hpn
  simp only
  have hnk : p.id ∉ akeys t.pids := (aget_none_iff _ _).mp hp
  have hg := add_get t a p t.next
  have hne : a.id ≠ p.id := by intro he; rw [he, hp] at hpn; simp at hpn
  generalize pn.ref = pr
  constructor
  · apply nodup_aset; simpa using h.nodup
  · intro k n hk
    simp only [aget_aset, hg] at hk
    split at hk
    · simp_all; rw [← hk]
    · obtain ⟨n0, hn0, rfl⟩ := Option.map_eq_some_iff.mp hk
      simpa using h.key_id k n0 hn0
  · rw [length_aset_of_not_mem _ _ _ (by simpa using hnk)]
    have := h.counter
    simp only [modNode_length]
    omega
  · intro x nx w pw hx hw
    simp only [aget_aset, hg] at hx
    split at hx
    · simp only [Option.some.injEq] at hx; subst hx
      simp only [aget_cons, aget_nil] at hw
      split at hw <;> simp_all
    · obtain ⟨n0, hn0, rfl⟩ := Option.map_eq_some_iff.mp hx
      exact h.wval x n0 w pw hn0 (by simpa using hw)
  · intro x nx e pe hx he
    simp only [aget_aset, hg] at hx
    split at hx
    · simp only [Option.some.injEq] at hx; subst hx; simp at he
    · obtain ⟨n0, hn0, rfl⟩ := Option.map_eq_some_iff.mp hx
      have := h.eval x n0 e pe hn0
      grind
  · intro x nx w hx hw
    simp only [aget_aset, hg] at hx ⊢
    split at hx
    · simp only [Option.some.injEq] at hx; subst hx
      simp only [aget_cons, aget_nil] at hw
      have hw' : w = a.id := by
        split at hw
        · rename_i h'; exact h'.symm
        · simp at hw
      subst hw'
      rename_i hx'
      subst hx'
      exact ⟨addG a p t.next a.id pn, by simp [hne, hpn], by simp [aget_aset]⟩
    · obtain ⟨n0, hn0, rfl⟩ := Option.map_eq_some_iff.mp hx
      obtain ⟨nw, hnw, h2⟩ := h.wsym x n0 w hn0 (by simpa using hw)
      have : w ≠ p.id := by intro he; rw [he, hp] at hnw; simp at hnw
      refine ⟨addG a p t.next w nw, by simp [this, hnw], ?_⟩
      simp only [addG_watchees]
      split
      · rename_i hx'
        simp only [aget_aset]
        split <;> simp_all
      · exact h2
  · intro x nx e hx he
    simp only [aget_aset, hg] at hx ⊢
    split at hx
    · simp only [Option.some.injEq] at hx; subst hx; simp at he
    · obtain ⟨n0, hn0, rfl⟩ := Option.map_eq_some_iff.mp hx
      simp only [addG_watchees] at he
      by_cases hxa : x = a.id
      · subst hxa
        simp only [if_true, aget_aset] at he
        by_cases hep : e = p.id
        · subst hep
          exact ⟨{ ref := t.next, pid := p, parent := some ⟨a.id, pr⟩, watchers := [(a.id, a)], watchees := [], desc := [] },
            by simp, by simp [aget_cons]⟩
        · simp only [hep, if_false] at he
          obtain ⟨ne, hne', h2⟩ := h.esym a.id n0 e hn0 he
          exact ⟨addG a p t.next e ne, by simp [hep, hne'], by simpa using h2⟩
      · simp only [hxa, if_false] at he
        obtain ⟨ne, hne', h2⟩ := h.esym x n0 e hn0 he
        have : e ≠ p.id := by intro he'; rw [he', hp] at hne'; simp at hne'
        exact ⟨addG a p t.next e ne, by simp [this, hne'], by simpa using h2⟩

theorem wf_addOrAttach (t : Tree) (a p : Pid) (h : WF t) : WF (t.addOrAttach a p).1 := by
  unfold Tree.addOrAttach
  split
  · exact h
  split
  · exact wf_attach t a p h
  · exact wf_addNode t a p h

end GoaktVerif.Model.C09

/-
C09 — the consistency invariant `WF` of the actor tree and its preservation by every writer of
pid_tree.go (one lemma per op).  `Props/C09.lean` assembles them into the reachability theorem.
-/
import GoaktVerif.Lemmas.C09.Assoc

namespace GoaktVerif.Model.C09

@[simp, grind =] theorem Node.setWatcher_ref (k : Nat) (p : Pid) (n : Node) : (n.setWatcher k p).ref = n.ref := rfl
@[simp, grind =] theorem Node.setWatcher_pid (k : Nat) (p : Pid) (n : Node) : (n.setWatcher k p).pid = n.pid := rfl
@[simp, grind =] theorem Node.setWatcher_parent (k : Nat) (p : Pid) (n : Node) : (n.setWatcher k p).parent = n.parent := rfl
@[simp, grind =] theorem Node.setWatcher_watchers (k : Nat) (p : Pid) (n : Node) : (n.setWatcher k p).watchers = aset k p n.watchers := rfl
@[simp, grind =] theorem Node.setWatcher_watchees (k : Nat) (p : Pid) (n : Node) : (n.setWatcher k p).watchees = n.watchees := rfl
@[simp, grind =] theorem Node.setWatcher_desc (k : Nat) (p : Pid) (n : Node) : (n.setWatcher k p).desc = n.desc := rfl
@[simp, grind =] theorem Node.delWatcher_ref (k : Nat) (n : Node) : (n.delWatcher k).ref = n.ref := rfl
@[simp, grind =] theorem Node.delWatcher_pid (k : Nat) (n : Node) : (n.delWatcher k).pid = n.pid := rfl
@[simp, grind =] theorem Node.delWatcher_parent (k : Nat) (n : Node) : (n.delWatcher k).parent = n.parent := rfl
@[simp, grind =] theorem Node.delWatcher_watchers (k : Nat) (n : Node) : (n.delWatcher k).watchers = adel k n.watchers := rfl
@[simp, grind =] theorem Node.delWatcher_watchees (k : Nat) (n : Node) : (n.delWatcher k).watchees = n.watchees := rfl
@[simp, grind =] theorem Node.delWatcher_desc (k : Nat) (n : Node) : (n.delWatcher k).desc = n.desc := rfl
@[simp, grind =] theorem Node.setWatchee_ref (k : Nat) (p : Pid) (n : Node) : (n.setWatchee k p).ref = n.ref := rfl
@[simp, grind =] theorem Node.setWatchee_pid (k : Nat) (p : Pid) (n : Node) : (n.setWatchee k p).pid = n.pid := rfl
@[simp, grind =] theorem Node.setWatchee_parent (k : Nat) (p : Pid) (n : Node) : (n.setWatchee k p).parent = n.parent := rfl
@[simp, grind =] theorem Node.setWatchee_watchers (k : Nat) (p : Pid) (n : Node) : (n.setWatchee k p).watchers = n.watchers := rfl
@[simp, grind =] theorem Node.setWatchee_watchees (k : Nat) (p : Pid) (n : Node) : (n.setWatchee k p).watchees = aset k p n.watchees := rfl
@[simp, grind =] theorem Node.setWatchee_desc (k : Nat) (p : Pid) (n : Node) : (n.setWatchee k p).desc = n.desc := rfl
@[simp, grind =] theorem Node.delWatchee_ref (k : Nat) (n : Node) : (n.delWatchee k).ref = n.ref := rfl
@[simp, grind =] theorem Node.delWatchee_pid (k : Nat) (n : Node) : (n.delWatchee k).pid = n.pid := rfl
@[simp, grind =] theorem Node.delWatchee_parent (k : Nat) (n : Node) : (n.delWatchee k).parent = n.parent := rfl
@[simp, grind =] theorem Node.delWatchee_watchers (k : Nat) (n : Node) : (n.delWatchee k).watchers = n.watchers := rfl
@[simp, grind =] theorem Node.delWatchee_watchees (k : Nat) (n : Node) : (n.delWatchee k).watchees = adel k n.watchees := rfl
@[simp, grind =] theorem Node.delWatchee_desc (k : Nat) (n : Node) : (n.delWatchee k).desc = n.desc := rfl
@[simp, grind =] theorem Node.setDesc_ref (k r : Nat) (n : Node) : (n.setDesc k r).ref = n.ref := rfl
@[simp, grind =] theorem Node.setDesc_pid (k r : Nat) (n : Node) : (n.setDesc k r).pid = n.pid := rfl
@[simp, grind =] theorem Node.setDesc_parent (k r : Nat) (n : Node) : (n.setDesc k r).parent = n.parent := rfl
@[simp, grind =] theorem Node.setDesc_watchers (k r : Nat) (n : Node) : (n.setDesc k r).watchers = n.watchers := rfl
@[simp, grind =] theorem Node.setDesc_watchees (k r : Nat) (n : Node) : (n.setDesc k r).watchees = n.watchees := rfl
@[simp, grind =] theorem Node.setDesc_desc (k r : Nat) (n : Node) : (n.setDesc k r).desc = aset k r n.desc := rfl
@[simp, grind =] theorem Node.delDesc_ref (k : Nat) (n : Node) : (n.delDesc k).ref = n.ref := rfl
@[simp, grind =] theorem Node.delDesc_pid (k : Nat) (n : Node) : (n.delDesc k).pid = n.pid := rfl
@[simp, grind =] theorem Node.delDesc_parent (k : Nat) (n : Node) : (n.delDesc k).parent = n.parent := rfl
@[simp, grind =] theorem Node.delDesc_watchers (k : Nat) (n : Node) : (n.delDesc k).watchers = n.watchers := rfl
@[simp, grind =] theorem Node.delDesc_watchees (k : Nat) (n : Node) : (n.delDesc k).watchees = n.watchees := rfl
@[simp, grind =] theorem Node.delDesc_desc (k : Nat) (n : Node) : (n.delDesc k).desc = adel k n.desc := rfl
@[simp, grind =] theorem Node.setParent_ref (q : Ptr) (n : Node) : (n.setParent q).ref = n.ref := rfl
@[simp, grind =] theorem Node.setParent_pid (q : Ptr) (n : Node) : (n.setParent q).pid = n.pid := rfl
@[simp, grind =] theorem Node.setParent_parent (q : Ptr) (n : Node) : (n.setParent q).parent = some q := rfl
@[simp, grind =] theorem Node.setParent_watchers (q : Ptr) (n : Node) : (n.setParent q).watchers = n.watchers := rfl
@[simp, grind =] theorem Node.setParent_watchees (q : Ptr) (n : Node) : (n.setParent q).watchees = n.watchees := rfl
@[simp, grind =] theorem Node.setParent_desc (q : Ptr) (n : Node) : (n.setParent q).desc = n.desc := rfl

/-- Consistency of the tree's bookkeeping.
* `nodup/key_id`: `pids` is a map and every node is filed under the ID of its PID;
* `counter`: the atomic counter equals the number of registered nodes;
* (the name index has its own invariant `NWF`, Lemmas/C09/Names.lean)
* `wval/eval`: the PID stored under key `k` in a watchers/watchees map has ID `k`;
* `wsym/esym`: `w ∈ watchers(a)` iff `a ∈ watchees(w)`, and both ends are registered. -/
structure WF (t : Tree) : Prop where
  nodup : (akeys t.pids).Nodup
  key_id : ∀ k n, aget k t.pids = some n → n.pid.id = k
  counter : t.counter = (t.pids.length : Int)
  wval : ∀ a na w pw, aget a t.pids = some na → aget w na.watchers = some pw → pw.id = w
  eval : ∀ a na e pe, aget a t.pids = some na → aget e na.watchees = some pe → pe.id = e
  wsym : ∀ a na w, aget a t.pids = some na → (aget w na.watchers).isSome →
    ∃ nw, aget w t.pids = some nw ∧ (aget a nw.watchees).isSome
  esym : ∀ a na e, aget a t.pids = some na → (aget e na.watchees).isSome →
    ∃ ne, aget e t.pids = some ne ∧ (aget a ne.watchers).isSome

@[grind =] theorem aget_modNode (t : Tree) (id k : Nat) (f : Node → Node) :
    aget k (t.modNode id f).pids = if k = id then (aget k t.pids).map f else aget k t.pids := by
  simp [Tree.modNode, aget_amod]

@[simp, grind =] theorem modNode_names (t : Tree) (id : Nat) (f : Node → Node) : (t.modNode id f).names = t.names := rfl
@[simp, grind =] theorem modNode_counter (t : Tree) (id : Nat) (f : Node → Node) : (t.modNode id f).counter = t.counter := rfl
@[simp, grind =] theorem modNode_next (t : Tree) (id : Nat) (f : Node → Node) : (t.modNode id f).next = t.next := rfl
@[simp] theorem modNode_keys (t : Tree) (id : Nat) (f : Node → Node) : akeys (t.modNode id f).pids = akeys t.pids := by
  simp [Tree.modNode]
@[simp] theorem modNode_length (t : Tree) (id : Nat) (f : Node → Node) : (t.modNode id f).pids.length = t.pids.length := by
  simp [Tree.modNode]

attribute [grind =] aget_adel aget_aset aget_amod aget_amapv Option.map_eq_some_iff Option.isSome_map Option.map_eq_none_iff

@[grind =] theorem live_eq_some (t : Tree) (p : Ptr) (n : Node) :
    t.live p = some n ↔ aget p.id t.pids = some n ∧ n.ref = p.ref := by
  unfold Tree.live
  split
  · rename_i m hm
    rw [hm]
    constructor
    · intro h
      split at h
      · simp_all
      · simp at h
    · rintro ⟨h1, h2⟩
      simp only [Option.some.injEq] at h1
      subst h1
      simp [h2]
  · rename_i hm
    simp [hm]

/-- an in-place update that keeps `ref`, `pid` of the node keeps every pointer as live as it was -/
theorem names_live_modNode (t : Tree) (id : Nat) (f : Node → Node)
    (hr : ∀ n, (f n).ref = n.ref) (hp : ∀ n, (f n).pid = n.pid)
    (h : ∀ nm p, aget nm t.names = some p → ∃ n, t.live p = some n ∧ n.pid.name = nm) :
    ∀ nm p, aget nm (t.modNode id f).names = some p → ∃ n, (t.modNode id f).live p = some n ∧ n.pid.name = nm := by
  intro nm p hnm
  obtain ⟨n, hn, hname⟩ := h nm p hnm
  rw [live_eq_some] at hn
  by_cases hid : p.id = id
  · subst hid
    refine ⟨f n, ?_, by rw [hp]; exact hname⟩
    rw [live_eq_some, aget_modNode]
    simp [hn.1, hr, hn.2]
  · refine ⟨n, ?_, hname⟩
    rw [live_eq_some, aget_modNode]
    simp [hid, hn.1, hn.2]

end GoaktVerif.Model.C09

/-
C09 — `Sys.shutdown` satisfies `Post` (induction on the recursion depth).
-/
import GoaktVerif.Lemmas.C09.StopMain

set_option linter.unusedSimpArgs false

namespace GoaktVerif.Model.C09

theorem fi_fold (rank : Nat → Nat) (fuel p : Nat) (s1 : Sys)
    (IH : ∀ s c s', Hyp rank s.tree → s.shutdown fuel c = some s' → Post rank s c s')
    (hyp : Hyp rank s1.tree) :
    ∀ (rest : List Pid) (si sf : Sys), FI rank p s1 si → (∀ c, c ∈ rest → edge s1.tree p c.id) →
      rest.foldlM (childStep fuel p) si = some sf →
      FI rank p s1 sf ∧ (∀ x, x ∈ sf.running → x ∈ si.running)
        ∧ (∀ c, c ∈ rest → c.id ∉ sf.running ∨ c.id ∈ s1.stopping) := by
  intro rest
  induction rest with
  | nil =>
    intro si sf fi _ h
    simp only [List.foldlM_nil, pure, Option.some.injEq] at h
    subst h
    exact ⟨fi, fun _ h => h, fun _ h => by simp at h⟩
  | cons c rest ih =>
    intro si sf fi hedge h
    simp only [List.foldlM_cons, bind, Option.bind] at h
    cases hc : childStep fuel p si c with
    | none => simp [hc] at h
    | some sj =>
      simp only [hc] at h
      have hrank : rank c.id < rank p := hyp.1 p c.id (hedge c List.mem_cons_self)
      have hsb := prep_facts p si c
      -- PostC for the child, and what we know about the child itself
      have hPc : PostC rank (prep p si c) c.id sj ∧ (c.id ∉ sj.running ∨ c.id ∈ s1.stopping) := by
        unfold childStep Sys.childStep at hc
        change (if (prep p si c).suspended.contains c.id || (prep p si c).isRunning c.id
                then Sys.shutdown fuel (prep p si c) c.id else some (prep p si c)) = some sj at hc
        split at hc
        · have hyp' : Hyp rank (prep p si c).tree := hyp_mono (shapeLe_trans fi.shape hsb.1) hyp
          have hpost := IH _ _ _ hyp' hc
          exact ⟨hpost.core, Or.inl hpost.self_off⟩
        · rename_i hcond
          simp only [Option.some.injEq] at hc
          subst hc
          refine ⟨postC_refl _ _ _, ?_⟩
          simp only [Bool.or_eq_true, not_or, Bool.not_eq_true] at hcond
          obtain ⟨hs, hr⟩ := hcond
          unfold Sys.isRunning at hr
          simp only [Bool.and_eq_false_iff, Bool.not_eq_false', hs, Bool.not_false, Bool.true_eq_false, or_false] at hr
          rcases hr with hr | hr
          · left
            intro hmem
            have : (prep p si c).running.contains c.id = true := by simpa using hmem
            rw [this] at hr
            simp at hr
          · right
            have : c.id ∈ (prep p si c).stopping := by simpa using hr
            rw [hsb.2.2.2.1] at this
            exact fi.stop_sub _ this
      obtain ⟨fij, monoj⟩ := fi_step rank p s1 si sj c fi hrank hPc.1
      obtain ⟨fif, monof, hrest⟩ := ih sj sf fij (fun c' hc' => hedge c' (List.mem_cons_of_mem _ hc')) h
      refine ⟨fif, fun x hx => monoj x (monof x hx), ?_⟩
      intro c' hc'
      rcases List.mem_cons.mp hc' with rfl | hc'
      · rcases hPc.2 with h' | h'
        · exact Or.inl (fun hx => h' (monof _ hx))
        · exact Or.inr h'
      · exact hrest c' hc'

/-- unfolding of one level of `Shutdown` for a running actor -/
theorem shutdown_succ_running (fuel : Nat) (s : Sys) (p : Nat) (hp : p ∈ s.running) :
    s.shutdown (fuel + 1) p =
      (match (({ s with stopping := p :: s.stopping }).freeWatchees p).tree.children p with
        | none => some (({ s with stopping := p :: s.stopping }).freeWatchees p)
        | some cs => cs.foldlM (childStep fuel p) (({ s with stopping := p :: s.stopping }).freeWatchees p)).bind
      (fun s2 => some ((({ s2 with log := s2.log ++ [Ev.postStop p] }).freeWatchers p).offline p)) := by
  have : s.running.contains p = true := by simpa using hp
  conv => lhs; unfold Sys.shutdown
  simp only [this, Bool.not_true, Bool.false_eq_true, if_false]
  rfl

theorem shutdown_post (rank : Nat → Nat) :
    ∀ (fuel : Nat) (s : Sys) (p : Nat) (s' : Sys), Hyp rank s.tree → s.shutdown fuel p = some s' → Post rank s p s' := by
  intro fuel
  induction fuel with
  | zero => intro s p s' _ h; simp [Sys.shutdown] at h
  | succ fuel IH =>
    intro s p s' hyp h
    by_cases hp : p ∈ s.running
    case neg =>
      have : s.running.contains p = false := by simpa using hp
      unfold Sys.shutdown at h
      simp only [this, Bool.not_false, if_true, Option.some.injEq] at h
      subst h
      exact post_offline rank s p hp
    rw [shutdown_succ_running fuel s p hp] at h
    -- the state when the children loop starts
    have hq01 := quiet_freeWatchees ({ s with stopping := p :: s.stopping }) p
    generalize hs1 : ({ s with stopping := p :: s.stopping } : Sys).freeWatchees p = s1 at h hq01
    have h1shape : ShapeLe s.tree s1.tree := hq01.shape
    have h1desc : ∀ x, DescSame s.tree s1.tree x := hq01.desc
    have h1run : s1.running = s.running := hq01.running
    have h1stop : s1.stopping = p :: s.stopping := hq01.stopping
    obtain ⟨e0, h1log, _⟩ := hq01.log
    have h1log : s1.log = s.log ++ e0 := h1log
    have hyp1 : Hyp rank s1.tree := hyp_mono h1shape hyp
    -- the loop
    obtain ⟨s2, hloop, h⟩ : ∃ s2, (match s1.tree.children p with
        | none => some s1
        | some cs => cs.foldlM (childStep fuel p) s1) = some s2 ∧
        some ((({ s2 with log := s2.log ++ [Ev.postStop p] }).freeWatchers p).offline p) = some s' := by
      cases hm : (match s1.tree.children p with
        | none => some s1
        | some cs => cs.foldlM (childStep fuel p) s1) with
      | none => rw [hm] at h; simp at h
      | some s2 => rw [hm] at h; exact ⟨s2, rfl, h⟩
    have hloopfacts : FI rank p s1 s2 ∧ (∀ y, edge s1.tree p y → y ∉ s2.running ∨ y ∈ s1.stopping) := by
      cases hc : s1.tree.children p with
      | none =>
        rw [hc] at hloop
        simp only [Option.some.injEq] at hloop
        subst hloop
        refine ⟨fi_refl _ _ _, fun y he => ?_⟩
        by_cases hnos : p = NOS
        · exact absurd (hnos ▸ he) (hyp1.2 y)
        · exact absurd he (children_none_no_edge _ _ hc hnos y)
      | some cs =>
        rw [hc] at hloop
        have hce := children_edge _ _ _ hc
        obtain ⟨fi, _, hk⟩ := fi_fold rank fuel p s1 IH hyp1 cs s1 s2 (fi_refl _ _ _) hce.1 hloop
        refine ⟨fi, fun y he => ?_⟩
        obtain ⟨c, hc1, hc2⟩ := hce.2 y he
        rw [← hc2]
        exact hk c hc1
    obtain ⟨fi, hkids⟩ := hloopfacts
    -- the tail: PostStop, freeWatchers, offline
    have hq34 := quiet_freeWatchers ({ s2 with log := s2.log ++ [Ev.postStop p] }) p
    generalize hs4 : ({ s2 with log := s2.log ++ [Ev.postStop p] } : Sys).freeWatchers p = s4 at h hq34
    simp only [Option.some.injEq] at h
    subst h
    have h4run : s4.running = s2.running := hq34.running
    have h4stop : s4.stopping = s2.stopping := hq34.stopping
    obtain ⟨e4, h4log, _⟩ := hq34.log
    have h4log : s4.log = s2.log ++ [Ev.postStop p] ++ e4 := h4log
    obtain ⟨ef, h2log, hpf⟩ := fi.log_ext
    have mem' : ∀ x, x ∈ (s4.offline p).running ↔ x ∈ s2.running ∧ x ≠ p := by
      intro x
      simp [Sys.offline, h4run]
    have stop' : ∀ x, x ∈ (s4.offline p).stopping → x ∈ s.stopping := by
      intro x hx
      simp only [Sys.offline, List.mem_filter, h4stop, bne_iff_ne, ne_eq] at hx
      have := fi.stop_sub x hx.1
      rw [h1stop] at this
      rcases List.mem_cons.mp this with h | h
      · exact absurd h hx.2
      · exact h
    have edge1 : ∀ x y, edge s.tree x y → edge s1.tree x y :=
      fun x y he => edge_of_descSame h1shape (h1desc x) he
    have hp1 : p ∈ s1.running := by rw [h1run]; exact hp
    -- a node other than p that stopped during this call stopped during the loop
    have off2 : ∀ x, x ≠ p → x ∉ (s4.offline p).running → x ∉ s2.running :=
      fun x hxp hx h2 => hx ((mem' x).mpr ⟨h2, hxp⟩)
    -- where a child of a stopped node ends up
    have settle : ∀ y, (y ∉ s2.running ∨ y ∈ s1.stopping) → y ∉ (s4.offline p).running ∨ y ∈ s.stopping := by
      intro y hy
      rcases hy with hy | hy
      · exact Or.inl (fun h => hy ((mem' y).mp h).1)
      · rw [h1stop] at hy
        rcases List.mem_cons.mp hy with h | h
        · exact Or.inl (fun h' => ((mem' y).mp h').2 h)
        · exact Or.inr h
    have logeq : (s4.offline p).log = s.log ++ (e0 ++ ef ++ [Ev.postStop p] ++ e4) := by
      show s4.log = _
      rw [h4log, h2log, h1log]
      simp [List.append_assoc]
    refine ⟨shapeLe_trans h1shape (shapeLe_trans fi.shape hq34.shape), ?_, stop', ?_, ?_, ?_, ?_, ?_, ?_⟩
    · intro x hx
      rw [← h1run]
      exact fi.run_sub x ((mem' x).mp hx).1
    · intro x hx
      have hxp : x ≠ p := by
        rcases hx with hx | hx
        · exact ((mem' x).mp hx).2
        · exact fun h => hx (h ▸ hp)
      have h12 : DescSame s1.tree s2.tree x := by
        rcases hx with hx | hx
        · exact fi.desc_same x hxp (Or.inl ((mem' x).mp hx).1)
        · exact fi.desc_same x hxp (Or.inr (by rw [h1run]; exact hx))
      exact descSame_trans (h1desc x) (descSame_trans h12 (hq34.desc x))
    · exact fun h => ((mem' p).mp h).2 rfl
    · intro x y hx hxo he
      have he1 := edge1 x y he
      by_cases hxp : x = p
      · subst hxp
        exact settle y (hkids y he1)
      · exact settle y (fi.closed x y hxp (by rw [h1run]; exact hx) (off2 x hxp hxo) he1)
    · refine ⟨_, logeq, ?_⟩
      intro x hx hxo
      by_cases hxp : x = p
      · subst hxp
        simp
      · have := hpf x (by rw [h1run]; exact hx) (off2 x hxp hxo)
        simp [this]
    · intro x hx hxo
      by_cases hxp : x = p
      · subst hxp; exact Nat.le_refl _
      · exact Nat.le_of_lt (fi.rank_lt x (by rw [h1run]; exact hx) (off2 x hxp hxo))
    · intro x y hx hxo he hy hys
      have he1 := edge1 x y he
      have hlog' : (s4.offline p).log = s2.log ++ (Ev.postStop p :: e4) := by
        show s4.log = _
        rw [h4log]; simp [List.append_assoc]
      by_cases hxp : x = p
      · subst hxp
        have hyp_ne : y ≠ x := by
          intro h
          have := hyp.1 x y he
          rw [h] at this
          omega
        have hy2 : y ∉ s2.running := by
          rcases hkids y he1 with h | h
          · exact h
          · rw [h1stop] at h
            rcases List.mem_cons.mp h with h | h
            · exact absurd h hyp_ne
            · exact absurd h hys
        have hin : Ev.postStop y ∈ s2.log := by
          rw [h2log]; exact List.mem_append_right _ (hpf y (by rw [h1run]; exact hy) hy2)
        rw [hlog']
        exact ⟨s2.log, e4, rfl, hin⟩
      · have hx2 := off2 x hxp hxo
        have hx1 : x ∈ s1.running := by rw [h1run]; exact hx
        have hyp_ne : y ≠ p := by
          intro h
          have h1 := hyp.1 x y he
          have h2 := fi.rank_lt x hx1 hx2
          rw [h] at h1
          omega
        have hys1 : y ∉ s1.stopping := by
          rw [h1stop]
          intro h
          rcases List.mem_cons.mp h with h | h
          · exact hyp_ne h
          · exact hys h
        have := fi.order x y hx1 hx2 he1 (by rw [h1run]; exact hy) hys1
        rw [hlog']
        exact before_append _ this

end GoaktVerif.Model.C09

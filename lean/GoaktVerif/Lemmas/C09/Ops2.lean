/-
C09 — `attach`, `addRoot`, `addNode`, `addOrAttach`, `reset` preserve `WF`.
-/
import GoaktVerif.Lemmas.C09.Ops

set_option linter.unusedSimpArgs false

namespace GoaktVerif.Model.C09

/-- net effect of `attachNodeLocked(a, p)` on the node filed under key `k` -/
def attachG (a p : Pid) (pr cr : Nat) (k : Nat) (n : Node) : Node :=
  { n with
    parent := if k = p.id then some ⟨a.id, pr⟩ else n.parent
    desc := if k = a.id then aset p.id cr n.desc else n.desc
    watchees := if k = a.id then aset p.id p n.watchees else n.watchees
    watchers := if k = p.id then aset a.id a n.watchers else n.watchers }

@[simp, grind =] theorem attachG_ref (a p : Pid) (pr cr k : Nat) (n : Node) : (attachG a p pr cr k n).ref = n.ref := rfl
@[simp, grind =] theorem attachG_pid (a p : Pid) (pr cr k : Nat) (n : Node) : (attachG a p pr cr k n).pid = n.pid := rfl
@[simp, grind =] theorem attachG_watchers (a p : Pid) (pr cr k : Nat) (n : Node) :
    (attachG a p pr cr k n).watchers = if k = p.id then aset a.id a n.watchers else n.watchers := rfl
@[simp, grind =] theorem attachG_watchees (a p : Pid) (pr cr k : Nat) (n : Node) :
    (attachG a p pr cr k n).watchees = if k = a.id then aset p.id p n.watchees else n.watchees := rfl

theorem attach_get (t : Tree) (a p : Pid) (pr cr k : Nat) :
    aget k ((((t.modNode p.id (Node.setParent ⟨a.id, pr⟩)).modNode a.id (Node.setDesc p.id cr)).modNode a.id
      (Node.setWatchee p.id p)).modNode p.id (Node.setWatcher a.id a)).pids
    = (aget k t.pids).map (attachG a p pr cr k) := by
  simp only [aget_modNode]
  generalize aget k t.pids = o
  cases o with
  | none => by_cases h1 : k = p.id <;> by_cases h2 : k = a.id <;> simp [h1, h2]
  | some n =>
    by_cases h1 : k = p.id
    · subst h1
      by_cases h2 : p.id = a.id <;>
        simp [h2, attachG, Node.setParent, Node.setDesc, Node.setWatchee, Node.setWatcher]
    · by_cases h2 : k = a.id
      · subst h2
        have h1' : ¬ p.id = a.id := fun h => h1 h.symm
        simp [h1, h1', attachG, Node.setParent, Node.setDesc, Node.setWatchee, Node.setWatcher]
      · simp [h1, h2, attachG, Node.setParent, Node.setDesc, Node.setWatchee, Node.setWatcher]

theorem wf_attach (t : Tree) (a p : Pid) (h : WF t) : WF (t.attach a p).1 := by
  unfold Tree.attach
  split
  · exact h
  split
  · exact h
  rename_i pn hpn
  split
  · exact h
  rename_i cn hcn
  split
  · exact h
  simp only
  have hg := attach_get t a p pn.ref cn.ref
  have hidp := h.key_id _ _ hpn
  have hidc := h.key_id _ _ hcn
  have hpw : (aget p.id t.pids).isSome := by simp [hcn]
  have haw : (aget a.id t.pids).isSome := by simp [hpn]
  generalize pn.ref = pr at hg
  generalize cn.ref = cr at hg
  clear hpn hcn hidp hidc
  constructor
  · simpa using h.nodup
  · intro k n hk
    rw [hg] at hk
    obtain ⟨n0, hn0, rfl⟩ := Option.map_eq_some_iff.mp hk
    simpa using h.key_id k n0 hn0
  · simpa using h.counter
  · intro x nx w pw hx hw
    rw [hg] at hx
    obtain ⟨n0, hn0, rfl⟩ := Option.map_eq_some_iff.mp hx
    have := h.wval x n0 w pw hn0
    grind
  · intro x nx e pe hx he
    rw [hg] at hx
    obtain ⟨n0, hn0, rfl⟩ := Option.map_eq_some_iff.mp hx
    have := h.eval x n0 e pe hn0
    grind
  · intro x nx w hx hw
    rw [hg] at hx
    obtain ⟨n0, hn0, rfl⟩ := Option.map_eq_some_iff.mp hx
    simp only [hg]
    have := h.wsym x n0 w hn0
    clear hg
    by_cases h1 : x = p.id ∧ w = a.id
    · obtain ⟨rfl, rfl⟩ := h1
      obtain ⟨na, hna⟩ := Option.isSome_iff_exists.mp haw
      exact ⟨attachG a p pr cr a.id na, by simp [hna], by simp [aget_aset]⟩
    · have hw' : (aget w n0.watchers).isSome := by grind
      obtain ⟨nw, hnw, hnw2⟩ := this hw'
      exact ⟨attachG a p pr cr w nw, by simp [hnw], by grind⟩
  · intro x nx e hx he
    rw [hg] at hx
    obtain ⟨n0, hn0, rfl⟩ := Option.map_eq_some_iff.mp hx
    simp only [hg]
    have := h.esym x n0 e hn0
    clear hg
    by_cases h1 : x = a.id ∧ e = p.id
    · obtain ⟨rfl, rfl⟩ := h1
      obtain ⟨np, hnp⟩ := Option.isSome_iff_exists.mp hpw
      exact ⟨attachG a p pr cr p.id np, by simp [hnp], by simp [aget_aset]⟩
    · have he' : (aget e n0.watchees).isSome := by grind
      obtain ⟨ne, hne, hne2⟩ := this he'
      exact ⟨attachG a p pr cr e ne, by simp [hne], by grind⟩

theorem wf_empty : WF Tree.empty := by
  constructor <;> simp [Tree.empty, akeys]

theorem wf_reset (t : Tree) : WF t.reset := by
  constructor <;> simp [Tree.reset, Tree.empty, akeys]

end GoaktVerif.Model.C09

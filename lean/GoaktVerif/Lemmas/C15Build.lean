import GoaktVerif.Lemmas.C15Step

/-
C15 — `Mode.fixed`: building a request (`Store:responseClosed` of `build`, `getResponseChannel`, enqueue).
-/
set_option linter.unusedSimpArgs false
set_option linter.unusedVariables false

namespace GoaktVerif.C15
open GoaktVerif.Model.C15

/-- the ghost map after channel `ch` has been handed out for request `k` -/
def ownSet (own : ChanId → ReqId) (ch : ChanId) (k : ReqId) : ChanId → ReqId := fun x => if x = ch then k else own x

theorem ownSet_self (own ch k) : ownSet own ch k ch = k := by simp [ownSet]
theorem ownSet_ne (own ch k x) (h : x ≠ ch) : ownSet own ch k x = own x := by simp [ownSet, h]

/-- abstract form of the build step: `c4` is `c` with context `i` rebuilt for request `k` on channel `ch`
(taken from the pool or freshly allocated) and enqueued -/
theorem finv_build_abs {c c4 : Cfg} {own : ChanId → ReqId} {tid : Nat} {t : Thread} {i : CtxId} {k : ReqId} {ch : ChanId}
    (h : FInv c own) (ht : c.threads[tid]? = some t) (hpc : t.pc = some (.askBuild i k))
    (e_mode : c4.mode = c.mode) (e_thr : c4.threads = c.threads) (e_len : c4.ctxs.length = c.ctxs.length)
    (e_cpool : c4.ctxPool = c.ctxPool) (e_sent : c4.sentinel = c.sentinel) (e_mbox : c4.mbox = c.mbox ++ [i])
    (e_ctx_i : ctxOf c4 i = { closed := false, response := some ch, msg := some k })
    (e_ctx : ∀ j, j ≠ i → ctxOf c4 j = ctxOf c j)
    (e_chan : ∀ x, chanOf c4 x = chanOf c x) (e_clen : c.chans.length ≤ c4.chans.length) (e_chlt : ch < c4.chans.length)
    (e_empty : chanOf c ch = none)
    (e_pool : ∀ x ∈ c4.chanPool, x ∈ c.chanPool ∧ x ≠ ch) (e_pnd : c4.chanPool.Nodup)
    (e_new : ch ∈ c.chanPool ∨ c.chans.length ≤ ch) :
    FInv (upd c4 tid { t with pc := some (.askSelect i ch k) }) (ownSet own ch k) := by
  have hok := h.thr tid t ht
  have hT := hok.1
  simp only [ThreadOk, hpc] at hT
  obtain ⟨hcur, hi_lt, hi_pool, hi_mbox, hi_sent⟩ := hT
  -- a channel that is in use (not pooled, allocated) is not the new one
  have used_ne : ∀ x, x < c.chans.length → x ∉ c.chanPool → x ≠ ch := by
    intro x h1 h2 e
    subst e
    rcases e_new with h3 | h3
    · exact h2 h3
    · exact Nat.lt_irrefl _ (Nat.lt_of_lt_of_le h1 h3)
  have pend_ne : ∀ j cl x k', Pending c own j cl x k' → x ≠ ch := by
    intro j cl x k' hp
    have : x < c.chans.length := h.g.b_resp j x (by rw [hp.1])
    exact used_ne x this hp.2.2.2
  have pend_tr : ∀ j cl x k', j ≠ i → Pending c own j cl x k' → Pending c4 (ownSet own ch k) j cl x k' := by
    intro j cl x k' hji hp
    have hx := pend_ne j cl x k' hp
    exact hp.transfer (e_ctx j hji) (ownSet_ne _ _ _ _ hx) (e_chan x) (fun hm => hp.2.2.2 (e_pool x hm).1)
  have hg : GInv c4 (ownSet own ch k) := by
    refine ⟨by rw [e_mode]; exact h.g.mode, by rw [e_sent, e_len]; exact h.g.b_sent, ?_, by rw [e_cpool, e_len]; exact h.g.b_cpool,
      ?_, ?_, ?_, ?_, ?_, e_pnd, ?_, ?_⟩
    · intro j hj
      rw [e_mbox] at hj; rw [e_len]
      rcases List.mem_append.mp hj with hj | hj
      · exact h.g.b_mbox j hj
      · simp at hj; subst hj; exact hi_lt
    · intro x hx; exact Nat.lt_of_lt_of_le (h.g.b_hpool x (e_pool x hx).1) e_clen
    · intro j x hj
      by_cases hji : j = i
      · subst hji; rw [e_ctx_i] at hj; simp at hj; subst hj; exact e_chlt
      · rw [e_ctx j hji] at hj; exact Nat.lt_of_lt_of_le (h.g.b_resp j x hj) e_clen
    · rw [e_cpool, e_mbox, e_sent]
      have hnd := h.g.lin
      simp only [List.nodup_append, List.mem_append, List.mem_singleton, List.nodup_cons, List.not_mem_nil,
        List.nodup_nil] at hnd ⊢
      grind
    · intro x v hx
      rw [e_chan] at hx
      have : x ≠ ch := by intro e; subst e; rw [e_empty] at hx; cases hx
      rw [ownSet_ne _ _ _ _ this]; exact h.g.val x v hx
    · intro x hx; rw [e_chan]; exact h.g.pool_empty x (e_pool x hx).1
    · intro j hj
      rw [e_mbox] at hj
      rcases List.mem_append.mp hj with hj | hj
      · obtain ⟨x, k', hp⟩ := h.g.mbox_ok j hj
        have hji : j ≠ i := fun e => hi_mbox (e ▸ hj)
        exact ⟨x, k', pend_tr j false x k' hji hp⟩
      · simp at hj; subst hj
        refine ⟨ch, k, e_ctx_i, ownSet_self _ _ _, by rw [e_chan]; exact e_empty, ?_⟩
        intro hm; exact (e_pool ch hm).2 rfl
    · intro a b ha hb hab
      rw [e_mbox] at ha hb
      have old : ∀ j, j ∈ c.mbox → (ctxOf c4 j).response ≠ some ch := by
        intro j hj
        obtain ⟨x, k', hp⟩ := h.g.mbox_ok j hj
        have hji : j ≠ i := fun e => hi_mbox (e ▸ hj)
        rw [e_ctx j hji, hp.1]
        simp
        exact pend_ne j false x k' hp
      rcases List.mem_append.mp ha with ha1 | ha1 <;> rcases List.mem_append.mp hb with hb1 | hb1
      · have hai : a ≠ i := fun e => hi_mbox (e ▸ ha1)
        have hbi : b ≠ i := fun e => hi_mbox (e ▸ hb1)
        rw [e_ctx a hai, e_ctx b hbi]; exact h.g.mbox_dist a b ha1 hb1 hab
      · have hbi : b = i := by simpa using hb1
        rw [hbi, e_ctx_i]; exact old a ha1
      · have hai : a = i := by simpa using ha1
        rw [hai, e_ctx_i]; exact fun e => old b hb1 e.symm
      · have hai : a = i := by simpa using ha1
        have hbi : b = i := by simpa using hb1
        exact absurd (hai.trans hbi.symm) hab
  have h' := finv_update (c1 := c4) (own1 := ownSet own ch k) (t' := { t with pc := some (.askSelect i ch k) }) h e_thr ht hg
  apply h'
  · intro j tj hne hj
    have hbd : buildCtx tj ≠ some i := h.build_dist tid j t tj i (fun e => hne e.symm) ht hj (by simp [buildCtx, hpc])
    apply (h.thr j tj hj).1.transfer
    · intro i' h1 h2 h3 h4 hb
      have hne' : i' ≠ i := by intro e; subst e; exact hbd hb
      refine ⟨by rw [e_len]; exact h1, by rw [e_cpool]; exact h2, ?_, by rw [e_sent]; exact h4⟩
      rw [e_mbox]; intro hm
      rcases List.mem_append.mp hm with hm | hm
      · exact h3 hm
      · simp at hm; exact hne' hm
    · intro x h1 h2 _
      exact ⟨ownSet_ne _ _ _ _ (used_ne x h1 h2), Nat.lt_of_lt_of_le h1 e_clen, fun hm => h2 (e_pool x hm).1⟩
    · intro i' k' cl x _ h1 h2 h3
      have hne' : i' ≠ i := by intro e; subst e; exact hi_sent h1
      refine ⟨by rw [e_sent]; exact h1, pend_tr i' cl x k' hne' h2, ?_⟩
      intro j hj
      rw [e_mbox] at hj
      rcases List.mem_append.mp hj with hj | hj
      · have hji : j ≠ i := fun e => hi_mbox (e ▸ hj)
        rw [e_ctx j hji]; exact h3 j hj
      · simp at hj; subst hj
        rw [e_ctx_i]; simp
        exact fun e => pend_ne i' cl x k' h2 e.symm
  · refine ⟨?_, hok.2⟩
    unfold ThreadOk
    dsimp only
    refine ⟨hcur, ownSet_self _ _ _, e_chlt, ?_⟩
    intro hm; exact (e_pool ch hm).2 rfl
  · intro i' hb; simp [buildCtx] at hb
  · intro x hs
    simp [selChan] at hs
    subst hs
    right
    intro j tj _ hj hsj
    have := (h.thr j tj hj).1
    cases hpcj : tj.pc with
    | none => simp [selChan, hpcj] at hsj
    | some pcj =>
      cases pcj <;> simp [selChan, hpcj] at hsj
      subst hsj
      simp only [ThreadOk, hpcj] at this
      exact used_ne _ this.2.2.1 this.2.2.2 rfl
  · intro hr
    rcases hr with hr | hr
    · left; exact hr
    · right; exact hr

end GoaktVerif.C15

import GoaktVerif.Lemmas.C23Total
import GoaktVerif.Spec.C23
/-
Reading frames from a stream: bounds, allocation limit, concatenation.
-/
namespace GoaktVerif.C23
open GoaktVerif.Model.C23

theorem spec_be4 (n : Nat) : Spec.C23.be 4 n = be32 n := by
  simp [Spec.C23.be, be32]

theorem spec_be2 (n : Nat) : Spec.C23.be 2 n = be16 n := by
  simp [Spec.C23.be, be16]

/-- everything `readFrame` can return -/
theorem readFrame_ok {max : Nat} {s : Bytes} {f : Frame} (h : readFrame max s = .ok f) :
    s = f.frame ++ f.rest ∧ f.frame.length = f.alloc ∧ 8 ≤ f.alloc ∧ f.alloc ≤ max ∧ f.alloc < 2 ^ 32 ∧
    f.frame.take 4 = be32 f.alloc := by
  unfold readFrame readFull at h
  split at h
  · simp at h
  · rename_i hdr s1 hrf
    split at hrf
    · rename_i h4
      simp only [Except.ok.injEq, Prod.mk.injEq] at hrf
      obtain ⟨rfl, rfl⟩ := hrf
      have hl : (s.take 4).length = 4 := by simp only [List.length_take]; omega
      obtain ⟨tl, htl, htl'⟩ := u32At_of_le (d := s.take 4) (pos := 0) (by omega)
      simp only [htl] at h
      split at h
      · simp at h
      · split at h
        · simp at h
        · split at h
          · simp at h
          · split at h
            · simp at h
            · rename_i body rest hb
              split at hb
              · rename_i hlen
                simp only [Except.ok.injEq, Prod.mk.injEq] at hb
                obtain ⟨rfl, rfl⟩ := hb
                simp only [Except.ok.injEq] at h
                subst h
                simp only [List.length_drop] at hlen
                dsimp only
                refine ⟨?_, ?_, by omega, by omega, htl', ?_⟩
                · simp only [List.append_assoc, List.take_append_drop]
                · simp only [List.length_append, List.length_take, List.length_drop]; omega
                · rw [List.take_append_of_le_length (by omega), List.take_take]
                  simp only [Nat.min_self]
                  -- the four header bytes are the big-endian encoding of the value read from them
                  match hs : s.take 4, hl with
                  | [a, b, c, e], _ =>
                    simp only [u32At, hs, List.drop_zero, Except.ok.injEq] at htl
                    subst htl
                    simp only [be32]
                    have := a.toNat_lt; have := b.toNat_lt; have := c.toNat_lt; have := e.toNat_lt
                    congr 1
                    · apply UInt8.toNat_inj.mp; simp only [UInt8.toNat_ofNat']; omega
                    congr 1
                    · apply UInt8.toNat_inj.mp; simp only [UInt8.toNat_ofNat']; omega
                    congr 1
                    · apply UInt8.toNat_inj.mp; simp only [UInt8.toNat_ofNat']; omega
                    congr 1
                    apply UInt8.toNat_inj.mp; simp only [UInt8.toNat_ofNat']; omega
              · split at hb <;> simp at hb
    · split at hrf <;> simp at hrf

theorem readFrame_nopanic (max : Nat) (s : Bytes) : readFrame max s ≠ .error .panic := by
  unfold readFrame readFull
  split
  · rename_i e he
    split at he
    · simp at he
    · split at he <;> (simp only [Except.error.injEq] at he; subst he; simp)
  · rename_i hdr s1 hrf
    split at hrf
    · simp only [Except.ok.injEq, Prod.mk.injEq] at hrf
      obtain ⟨rfl, rfl⟩ := hrf
      have hl : (s.take 4).length = 4 := by simp only [List.length_take]; omega
      obtain ⟨tl, htl, _⟩ := u32At_of_le (d := s.take 4) (pos := 0) (by omega)
      simp only [htl]
      split
      · simp
      · split
        · simp
        · split
          · omega
          · split
            · rename_i e he
              split at he
              · simp at he
              · split at he <;> (simp only [Except.error.injEq] at he; subst he; simp)
            · simp
    · split at hrf <;> simp at hrf

/-- the buffer size requested for an incoming frame never exceeds the frame limit -/
theorem allocRequest_le {max : Nat} {s : Bytes} {n : Nat} (h : allocRequest max s = some n) : 8 ≤ n ∧ n ≤ max := by
  unfold allocRequest at h
  split at h
  · simp at h
  · split at h
    · simp at h
    · split at h
      · simp at h
      · simp only [Option.some.injEq] at h; omega

/-- a frame is read only after its size was requested -/
theorem readFrame_alloc {max : Nat} {s : Bytes} {f : Frame} (h : readFrame max s = .ok f) :
    allocRequest max s = some f.alloc := by
  unfold readFrame at h
  unfold allocRequest
  split at h
  · simp at h
  · rename_i hdr s1 hrf
    split at h
    · simp at h
    · rename_i tl htl
      try simp only [htl]
      split at h
      · simp at h
      · split at h
        · simp at h
        · split at h
          · simp at h
          · split at h
            · simp at h
            · simp only [Except.ok.injEq] at h
              subst h
              simp only []
              rw [if_neg (by omega)]

/-- a complete well-framed frame at the head of the stream is returned whole -/
theorem readFrame_append {max : Nat} (f rest : Bytes) (hwf : Spec.C23.wellFramed max f = true) :
    readFrame max (f ++ rest) = .ok ⟨f, rest, f.length⟩ := by
  simp only [Spec.C23.wellFramed, Bool.and_eq_true, decide_eq_true_eq, beq_iff_eq, spec_be4] at hwf
  obtain ⟨⟨⟨h8, hmax⟩, h32⟩, htake⟩ := hwf
  have hf : f = be32 f.length ++ f.drop 4 := by
    conv => lhs; rw [← List.take_append_drop 4 f, htake]
  unfold readFrame readFull
  have h4 : 4 ≤ (f ++ rest).length := by simp only [List.length_append]; omega
  simp only [h4, if_true]
  have ht : (f ++ rest).take 4 = be32 f.length := by
    rw [List.take_append_of_le_length (by omega), htake]
  have hu : u32At ((f ++ rest).take 4) 0 = .ok f.length := by
    apply u32At_of_drop (rest := [])
    · simp only [List.drop_zero, ht, List.append_nil]
    · exact h32
  simp only [hu]
  rw [if_neg (by omega), if_neg (by omega), if_neg (by omega)]
  have hd : (f ++ rest).drop 4 = f.drop 4 ++ rest := by
    rw [List.drop_append_of_le_length (by omega)]
  have hle : f.length - 4 ≤ ((f ++ rest).drop 4).length := by
    simp only [List.length_drop, List.length_append]; omega
  simp only [hle, if_true]
  congr 1
  rw [ht, hd]
  have h1 : (f.drop 4 ++ rest).take (f.length - 4) = f.drop 4 := by
    rw [List.take_append_of_le_length (by simp only [List.length_drop]; omega)]
    apply List.take_of_length_le; simp only [List.length_drop]; omega
  have h2 : (f.drop 4 ++ rest).drop (f.length - 4) = rest := by
    rw [List.drop_append_of_le_length (by simp only [List.length_drop]; omega)]
    rw [List.drop_of_length_le (by simp only [List.length_drop]; omega)]
    rfl
  rw [h1, h2, ← hf]

theorem wellFramed_len {max : Nat} {f : Bytes} (h : Spec.C23.wellFramed max f = true) : 8 ≤ f.length := by
  simp only [Spec.C23.wellFramed, Bool.and_eq_true, decide_eq_true_eq] at h
  omega

/-- concatenated frames are read back one by one, in order, then EOF -/
theorem readAll_concat (max : Nat) : ∀ (fs : List Bytes), (∀ f ∈ fs, Spec.C23.wellFramed max f = true) →
    readAll max fs.flatten = (fs, .eof) := by
  intro fs
  induction fs with
  | nil =>
    intro _
    rw [readAll]
    simp [readFrame, readFull]
  | cons f rest ih =>
    intro h
    have hf := h f (by simp)
    have hrest := ih (fun g hg => h g (by simp [hg]))
    rw [readAll]
    simp only [List.flatten_cons]
    split
    · rename_i e he
      rw [readFrame_append f rest.flatten hf] at he
      simp at he
    · rename_i fr he
      rw [readFrame_append f rest.flatten hf] at he
      simp only [Except.ok.injEq] at he
      subst he
      have h8 := wellFramed_len hf
      have hlt : rest.flatten.length < (f ++ rest.flatten).length := by
        simp only [List.length_append]; omega
      simp only [hlt, dite_true, hrest]

/-- the terminating error of a read loop is never a bounds-check panic -/
theorem readAll_nopanic (max : Nat) (s : Bytes) : (readAll max s).2 ≠ .panic := by
  induction hn : s.length using Nat.strongRecOn generalizing s with
  | _ n ih =>
    rw [readAll]
    split
    · rename_i e he
      intro h
      simp only at h
      subst h
      exact readFrame_nopanic max s he
    · rename_i fr he
      obtain ⟨hs, hlen, h8, _⟩ := readFrame_ok he
      have hlt : fr.rest.length < s.length := by
        rw [hs]; simp only [List.length_append]; omega
      simp only [hlt, dite_true]
      exact ih fr.rest.length (by omega) fr.rest rfl

/-- every frame the read loop returns respects the frame limit, and the frames are the stream in order -/
theorem readAll_frames (max : Nat) (s : Bytes) :
    (∀ f ∈ (readAll max s).1, f.length ≤ max) ∧ ∃ rest, s = (readAll max s).1.flatten ++ rest := by
  induction hn : s.length using Nat.strongRecOn generalizing s with
  | _ n ih =>
    rw [readAll]
    split
    · exact ⟨by simp, s, by simp⟩
    · rename_i fr he
      obtain ⟨hs, hlen, h8, hmax, _⟩ := readFrame_ok he
      have hlt : fr.rest.length < s.length := by
        rw [hs]; simp only [List.length_append]; omega
      simp only [hlt, dite_true]
      obtain ⟨h1, rest, h2⟩ := ih fr.rest.length (by omega) fr.rest rfl
      refine ⟨?_, rest, ?_⟩
      · intro f hf
        simp only [List.mem_cons] at hf
        rcases hf with rfl | hf
        · omega
        · exact h1 f hf
      · simp only [List.flatten_cons, List.append_assoc]
        rw [← h2]; exact hs

/-- the server loop decodes every frame of a concatenation, in order -/
theorem serverLoop_concat (c : Codec) (max : Nat) (dec : Bytes → Decoded) : ∀ (fs : List Bytes),
    (∀ f ∈ fs, Spec.C23.wellFramed max f = true ∧ serverDecode c f = .ok (dec f)) →
    serverLoop c max fs.flatten = fs.map dec := by
  intro fs
  induction fs with
  | nil =>
    intro _
    rw [serverLoop]
    simp [readFrame, readFull]
  | cons f rest ih =>
    intro h
    obtain ⟨hf, hd⟩ := h f (by simp)
    have hrest := ih (fun g hg => h g (by simp [hg]))
    rw [serverLoop]
    simp only [List.flatten_cons]
    split
    · rename_i e he
      rw [readFrame_append f rest.flatten hf] at he
      simp at he
    · rename_i fr he
      rw [readFrame_append f rest.flatten hf] at he
      simp only [Except.ok.injEq] at he
      subst he
      have h8 := wellFramed_len hf
      have hlt : rest.flatten.length < (f ++ rest.flatten).length := by
        simp only [List.length_append]; omega
      simp only [hd, hlt, dite_true, hrest, List.map_cons]

/-- the client's batch read loop decodes `n` concatenated responses, in order -/
theorem clientReadN_concat (c : Codec) (max : Nat) (dec : Bytes → Decoded) : ∀ (fs : List Bytes) (rest : Bytes),
    (∀ f ∈ fs, Spec.C23.wellFramed max f = true ∧ clientDecode c f = .ok (dec f)) →
    clientReadN c max fs.length (fs.flatten ++ rest) = .ok (fs.map dec) := by
  intro fs
  induction fs with
  | nil => intro rest _; simp [clientReadN]
  | cons f tl ih =>
    intro rest h
    obtain ⟨hf, hd⟩ := h f (by simp)
    have htl := ih rest (fun g hg => h g (by simp [hg]))
    simp only [List.length_cons, clientReadN, List.flatten_cons, List.append_assoc]
    rw [readFrame_append f (tl.flatten ++ rest) hf]
    simp only [hd, htl, List.map_cons]

end GoaktVerif.C23

/-
C05 — the parking invariant for whole configurations: `hp` is the program counter of the thread
recorded in `parkMu`; preserved by every step of every thread.
-/
import GoaktVerif.Lemmas.C05.Park
import GoaktVerif.Lemmas.C05.Machine

namespace GoaktVerif.Model.C05

def Cfg.pcOf (c : Cfg) (t : Nat) : Option PC := (c.threads[t]?).bind (·.pc)
def Cfg.holderPC (c : Cfg) : Option PC := c.sh.parkMu.bind c.pcOf

structure PInv (c : Cfg) : Prop where
  vinv : VInv c.sh c.holderPC
  /-- mutual exclusion: a thread at a site inside a `parkMu` critical section is the recorded holder -/
  p1 : ∀ t pc, c.pcOf t = some pc → pc.holdsPark = true → c.sh.parkMu = some t

/-- `parkMu` is only ever acquired when free -/
theorem exec_acquire {s : Shared} {tid : Nat} {pc pc' : PC} (h : (exec s tid pc).2 = .goto pc')
    (hh : pc'.holdsPark = true) : pc.holdsPark = true ∨ s.parkMu = none := by
  cases pc with
  | pushLock x =>
    simp only [exec] at h; split at h
    · cases h
    · rename_i hf; right; cases hm : s.parkMu <;> simp_all
  | pushStore => left; rfl
  | pushSignal => left; rfl
  | plLock w x =>
    simp only [exec] at h; split at h
    · cases h
    · split at h <;> (cases h; simp [PC.holdsPark] at hh)
  | plStore w => simp [exec] at h
  | tkLoadLocal w => simp only [exec] at h; split at h <;> (cases h; simp [PC.holdsPark] at hh)
  | tkLockLocal w =>
    simp only [exec] at h; split at h
    · cases h
    · split at h <;> (cases h; simp [PC.holdsPark] at hh)
  | tkStoreLocal w x => simp only [exec] at h; split at h <;> (cases h; try simp [PC.holdsPark] at hh)
  | tkLoadGlobal w =>
    simp only [exec] at h; split at h
    · obtain ⟨p, e, hn⟩ := stealStart_nh s.locals.length w
      rw [e] at h; cases h; simp [hn] at hh
    · cases h; simp [PC.holdsPark] at hh
  | tkLockGlobal w =>
    simp only [exec] at h; split at h
    · cases h
    · rename_i hf; right; cases hm : s.parkMu <;> simp_all
  | tkStoreGlobal w x => left; rfl
  | stLoad w i =>
    simp only [exec] at h; split at h
    · obtain ⟨p, e, hn⟩ := stealNext_nh s.locals.length w i
      rw [e] at h; cases h; simp [hn] at hh
    · cases h; simp [PC.holdsPark] at hh
  | stLock1 w i =>
    simp only [exec] at h; split at h
    · cases h
    · cases h; simp [PC.holdsPark] at hh
  | stLock2 w i =>
    simp only [exec] at h; split at h
    · cases h
    · split at h
      · obtain ⟨p, e, hn⟩ := stealNext_nh (s.setL (min ((w + i) % s.locals.length) w)
            { s.getL (min ((w + i) % s.locals.length) w) with mu := none }).locals.length w i
        rw [e] at h; cases h; simp [hn] at hh
      · cases h; simp [PC.holdsPark] at hh
  | stStore1 w i x => simp only [exec] at h; cases h; simp [PC.holdsPark] at hh
  | stStore2 w i x =>
    simp only [exec] at h; split at h
    · cases h
    · obtain ⟨p, e, hn⟩ := stealNext_nh ((s.setL w { s.getL w with sizeAtomic := (s.getL w).ring.size, mu := none }).setL
          ((w + i) % s.locals.length) { (s.setL w { s.getL w with sizeAtomic := (s.getL w).ring.size, mu := none }).getL
            ((w + i) % s.locals.length) with mu := none }).locals.length w i
      rw [e] at h; cases h; simp [hn] at hh
  | pkLock w =>
    simp only [exec] at h; split at h
    · cases h
    · rename_i hf; right; cases hm : s.parkMu <;> simp_all
  | pkStore w x => left; rfl
  | pkWait w => left; rfl
  | pkWake w =>
    simp only [exec] at h; split at h
    · rename_i hc; right
      simp only [Bool.and_eq_true, Option.isNone_iff_eq_none] at hc
      exact hc.2
    · cases h
  | clCAS => simp only [exec] at h; split at h <;> (cases h; try simp [PC.holdsPark] at hh)
  | clLock =>
    simp only [exec] at h; split at h
    · cases h
    · rename_i hf; right; cases hm : s.parkMu <;> simp_all
  | clBroadcast => left; rfl

theorem begin_nh (tid : Nat) (op : Op) : (begin tid op).1.holdsPark = false := by cases op <;> rfl

theorem startNext_nh (tid : Nat) (t : Thread) (pc : PC) (h : (startNext tid t).pc = some pc) : pc.holdsPark = false := by
  unfold startNext at h
  split at h
  · simp at h
  · simp at h; rw [← h]; exact begin_nh _ _

/-- program counter of the stepping thread after the step -/
theorem applyNext_pc (tid : Nat) (t : Thread) (pc : PC) (hpc : t.pc = some pc) (nx : Next) :
    (∃ pc', nx = .goto pc' ∧ (applyNext tid t nx).pc = some pc') ∨
    (nx = .blocked ∧ (applyNext tid t nx).pc = some pc) ∨
    ((∀ pc', nx ≠ .goto pc') ∧ nx ≠ .blocked ∧ ∀ p, (applyNext tid t nx).pc = some p → p.holdsPark = false) := by
  cases nx with
  | goto pc' => exact Or.inl ⟨pc', rfl, rfl⟩
  | blocked => exact Or.inr (Or.inl ⟨rfl, hpc⟩)
  | ret r =>
    refine Or.inr (Or.inr ⟨(by intro _ h; cases h), (by intro h; cases h), ?_⟩)
    intro p hp
    simp only [applyNext] at hp
    split at hp <;> exact startNext_nh _ _ _ hp
  | retTake w x =>
    refine Or.inr (Or.inr ⟨(by intro _ h; cases h), (by intro h; cases h), ?_⟩)
    intro p hp
    simp only [applyNext] at hp
    split at hp
    · exact startNext_nh _ _ _ hp
    · simp at hp; rw [← hp]; rfl

theorem pcOf_set_self (c : Cfg) (tid : Nat) (t' : Thread) (h : tid < c.threads.length) :
    Cfg.pcOf { sh := s', threads := c.threads.set tid t' } tid = t'.pc := by
  simp [Cfg.pcOf, h]

theorem pcOf_set_ne (c : Cfg) (tid u : Nat) (t' : Thread) (h : tid ≠ u) :
    Cfg.pcOf { sh := s', threads := c.threads.set tid t' } u = c.pcOf u := by
  simp [Cfg.pcOf, List.getElem?_set_ne h]

theorem step_pinv {c : Cfg} (h : PInv c) (tid : Nat) : PInv (step c tid).2 := by
  unfold step
  split
  · exact h
  · rename_i t ht
    split
    · exact h
    · rename_i pc hpc
      have hlt : tid < c.threads.length := (List.getElem?_eq_some_iff.mp ht).1
      have hpcOf : c.pcOf tid = some pc := by simp [Cfg.pcOf, ht, hpc]
      -- the holder, if the stepping thread is inside the critical section
      have hh : pc.holdsPark = true → c.holderPC = some pc ∧ c.sh.parkMu = some tid := by
        intro hp
        have := h.p1 tid pc hpcOf hp
        exact ⟨by simp [Cfg.holderPC, this, hpcOf], this⟩
      -- a thread outside the critical section is not the recorded holder
      have hnot : pc.holdsPark = false → c.sh.parkMu ≠ some tid := by
        intro hp hm
        have v0 := h.vinv.v0
        have : c.holderPC = some pc := by simp [Cfg.holderPC, hm, hpcOf]
        have := h.vinv.v1 pc this
        simp [hp] at this
      obtain ⟨hv, hmu⟩ := exec_vinv (tid := tid) (pc := pc) h.vinv hh
      generalize hex : exec c.sh tid pc = r at hv hmu
      obtain ⟨s', nx⟩ := r
      simp only at hv hmu ⊢
      have hacq : ∀ pc', nx = .goto pc' → pc'.holdsPark = true → pc.holdsPark = true ∨ c.sh.parkMu = none := by
        intro pc' e hp; apply exec_acquire (s := c.sh) (tid := tid) (pc := pc) (pc' := pc') _ hp
        rw [hex]; exact e
      have hself := pcOf_set_self (s' := s') c tid (applyNext tid t nx) hlt
      have hother : ∀ u, tid ≠ u → Cfg.pcOf { sh := s', threads := c.threads.set tid (applyNext tid t nx) } u = c.pcOf u :=
        fun u hu => pcOf_set_ne (s' := s') c tid u _ hu
      -- holder's pc in the new configuration
      have hholder : Cfg.holderPC { sh := s', threads := c.threads.set tid (applyNext tid t nx) } = newHP pc c.holderPC nx := by
        have e0 : Cfg.holderPC { sh := s', threads := c.threads.set tid (applyNext tid t nx) }
            = (newMu pc c.sh.parkMu tid nx).bind (Cfg.pcOf { sh := s', threads := c.threads.set tid (applyNext tid t nx) }) := by
          simp [Cfg.holderPC, hmu]
        rw [e0]
        rcases applyNext_pc tid t pc hpc nx with ⟨pc', rfl, e⟩ | ⟨rfl, e⟩ | ⟨hng, hnb, e⟩
        · by_cases hp' : pc'.holdsPark = true
          · simp [newMu, newHP, hp', hself, e]
          · by_cases hp : pc.holdsPark = true
            · simp [newMu, newHP, hp', hp]
            · have hp : pc.holdsPark = false := by simpa using hp
              simp only [newMu, newHP, hp', hp, if_false, Bool.false_eq_true]
              cases hm : c.sh.parkMu with
              | none => simp [Cfg.holderPC, hm]
              | some u =>
                have : tid ≠ u := by intro e'; subst e'; exact hnot hp hm
                simp [Cfg.holderPC, hm, hother u this]
        · simp only [newMu, newHP]
          cases hm : c.sh.parkMu with
          | none => simp [Cfg.holderPC, hm]
          | some u =>
            by_cases e' : tid = u
            · subst e'; simp [Cfg.holderPC, hm, hself, e, hpcOf]
            · simp [Cfg.holderPC, hm, hother u e']
        · have hmu' : newMu pc c.sh.parkMu tid nx = if pc.holdsPark then none else c.sh.parkMu := by
            cases nx <;> simp_all [newMu]
          have hhp' : newHP pc c.holderPC nx = if pc.holdsPark then none else c.holderPC := by
            cases nx <;> simp_all [newHP]
          rw [hmu', hhp']
          by_cases hp : pc.holdsPark = true
          · simp [hp]
          · have hp : pc.holdsPark = false := by simpa using hp
            simp only [hp, if_false, Bool.false_eq_true]
            cases hm : c.sh.parkMu with
            | none => simp [Cfg.holderPC, hm]
            | some u =>
              have : tid ≠ u := by intro e'; subst e'; exact hnot hp hm
              simp [Cfg.holderPC, hm, hother u this]
      refine ⟨by rw [hholder]; exact hv, ?_⟩
      intro u pcu hu hpu
      simp only [hmu]
      by_cases e' : tid = u
      · subst e'
        rw [hself] at hu
        rcases applyNext_pc tid t pc hpc nx with ⟨pc', rfl, e⟩ | ⟨rfl, e⟩ | ⟨hng, hnb, e⟩
        · rw [e] at hu; cases hu; simp [newMu, hpu]
        · rw [e] at hu; cases hu; simpa [newMu] using (hh hpu).2
        · have := e pcu hu; simp [hpu] at this
      · rw [hother u e'] at hu
        have hm := h.p1 u pcu hu hpu
        have hpf : pc.holdsPark = false := by
          cases hp : pc.holdsPark with
          | false => rfl
          | true => have := (hh hp).2; rw [hm] at this; cases this; exact absurd rfl e'
        cases nx with
        | goto pc' =>
          by_cases hp' : pc'.holdsPark = true
          · rcases hacq pc' rfl hp' with h1 | h1
            · simp [hpf] at h1
            · rw [hm] at h1; cases h1
          · simp [newMu, hp', hpf, hm]
        | ret r => simp [newMu, hpf, hm]
        | retTake w x => simp [newMu, hpf, hm]
        | blocked => simp [newMu, hm]

theorem init_pinv (n : Nat) (progs : List (List Op)) : PInv (init n progs) := by
  refine ⟨?_, ?_⟩
  · have : (init n progs).holderPC = none := by simp [Cfg.holderPC, init, initShared]
    rw [this]
    exact ⟨rfl, by simp, by simp [init, initShared, isWait, b2n], by simp [isWait],
      by simp [init, initShared], by simp [init, initShared]⟩
  · intro t pc hpc hh
    simp only [Cfg.pcOf, init] at hpc
    cases hth : (mkThreads 0 progs)[t]? with
    | none => simp [hth] at hpc
    | some th =>
      obtain ⟨p, _, e⟩ := mkThreads_get progs 0 t th hth
      simp [hth] at hpc
      rw [e, mkThread] at hpc
      have := startNext_nh _ _ _ hpc
      simp [hh] at this

theorem reachable_pinv {n : Nat} {progs : List (List Op)} {c : Cfg} (hr : Reachable (init n progs) c) : PInv c := by
  induction hr with
  | init => exact init_pinv n progs
  | step c tid _ ih => exact step_pinv ih tid

end GoaktVerif.Model.C05

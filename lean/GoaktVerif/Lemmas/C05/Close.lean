/-
C05 — close: `closed` is never reset, and a worker that runs parkAndTake's loop on a closed queue returns false.
-/
import GoaktVerif.Lemmas.C05.LocalCfg

namespace GoaktVerif.Model.C05

theorem parkLoop_closed (s : Shared) (w : Nat) : (parkLoop s w).1.closed = s.closed := by
  unfold parkLoop; split
  · rfl
  · split <;> rfl

theorem exec_closed_mono (s : Shared) (tid : Nat) (pc : PC) (h : s.closed = true) : (exec s tid pc).1.closed = true := by
  cases pc <;> simp only [exec] <;> (try split) <;> (try split) <;> (try split) <;> simp_all [parkLoop_closed, Shared.setL]

theorem step_closed_mono (c : Cfg) (tid : Nat) (h : c.sh.closed = true) : (step c tid).2.sh.closed = true := by
  unfold step
  split
  · exact h
  · split
    · exact h
    · exact exec_closed_mono _ _ _ h

theorem reachable_closed_mono {c c' : Cfg} (hr : Reachable c c') (h : c.sh.closed = true) : c'.sh.closed = true := by
  induction hr with
  | init => exact h
  | step c'' tid _ ih => exact step_closed_mono c'' tid ih

theorem parkLoop_of_closed (s : Shared) (w : Nat) (h : s.closed = true) : (parkLoop s w).2 = .ret .closed := by
  unfold parkLoop; rw [if_pos h]

/-- parkAndTake entered on a closed queue with `parkMu` free returns (nil, false) in this very step -/
theorem pkLock_closed (s : Shared) (tid w : Nat) (hc : s.closed = true) (hm : s.parkMu = none) :
    (exec s tid (.pkLock w)).2 = .ret .closed := by
  simp only [exec, hm, Option.isSome_none, Bool.false_eq_true, if_false]
  exact parkLoop_of_closed _ _ hc

/-- a signalled waiter that gets `parkMu` on a closed queue returns (nil, false) in this very step -/
theorem pkWake_closed (s : Shared) (tid w : Nat) (hc : s.closed = true) (hm : s.parkMu = none) (hs : tid ∈ s.signalled) :
    (exec s tid (.pkWake w)).2 = .ret .closed := by
  have : (s.signalled.contains tid && s.parkMu.isNone) = true := by simp [hm, hs]
  simp only [exec, this, if_true]
  exact parkLoop_of_closed _ _ hc

end GoaktVerif.Model.C05

/-
C05 — ring arithmetic: every ring operation of actor/ready_queue.go acts on the live window
(`Ring.toList`) like the corresponding List operation (append at the back, remove at the front,
`grow` = identity, `stealHalf` = move a prefix), and preserves the ring's shape invariant.
-/
import GoaktVerif.Model.C05.Ring

namespace GoaktVerif.Model.C05
namespace Ring

structure WF (r : Ring) : Prop where
  head_lt : r.head < r.cap
  size_le : r.size ≤ r.cap
  tail_eq : r.tail = (r.head + r.size) % r.cap

theorem mod2 {a b c : Nat} (ha : a < c) (hb : b ≤ c) :
    (a + b) % c = if a + b < c then a + b else a + b - c := by
  split
  · exact Nat.mod_eq_of_lt ‹_›
  · rw [Nat.mod_eq_sub_mod (by omega)]; exact Nat.mod_eq_of_lt (by omega)

theorem empty_wf {c : Nat} (hc : 0 < c) : (empty c).WF := by
  constructor <;> simp [empty, cap, hc]

@[simp] theorem empty_toList (c : Nat) : (empty c).toList = [] := by simp [toList, empty]

@[simp] theorem length_toList (r : Ring) : r.toList.length = r.size := by simp [toList]

@[simp] theorem pushRaw_cap (r : Ring) (x : Nat) : (r.pushRaw x).cap = r.cap := by simp [pushRaw, cap]
@[simp] theorem popRaw_cap (r : Ring) : r.popRaw.2.cap = r.cap := by simp [popRaw, cap]
@[simp] theorem pushRaw_size (r : Ring) (x : Nat) : (r.pushRaw x).size = r.size + 1 := rfl
@[simp] theorem popRaw_size (r : Ring) : r.popRaw.2.size = r.size - 1 := rfl

theorem idx_ne {h i j c : Nat} (hh : h < c) (hi : i < c) (hj : j < c) (hij : i ≠ j) :
    (h + i) % c ≠ (h + j) % c := by
  rw [mod2 hh (Nat.le_of_lt hi), mod2 hh (Nat.le_of_lt hj)]
  split <;> split <;> omega

theorem pushRaw_wf {r : Ring} (x : Nat) (h : r.WF) (hs : r.size < r.cap) : (r.pushRaw x).WF := by
  obtain ⟨h1, h2, h3⟩ := h
  refine ⟨by simpa [pushRaw, cap] using h1, by simp; omega, ?_⟩
  show (r.tail + 1) % r.cap = (r.head + (r.size + 1)) % (r.pushRaw x).cap
  rw [pushRaw_cap, h3, Nat.mod_add_mod]; congr 1

theorem pushRaw_toList {r : Ring} (x : Nat) (h : r.WF) (hs : r.size < r.cap) :
    (r.pushRaw x).toList = r.toList ++ [x] := by
  obtain ⟨h1, h2, h3⟩ := h
  have hc : (r.pushRaw x).cap = r.cap := pushRaw_cap r x
  unfold toList
  rw [pushRaw_size, List.range_succ, List.map_append, hc]
  congr 1
  · apply List.map_congr_left
    intro i hi
    have hi : i < r.size := by simpa using hi
    show (r.buf.set r.tail x).getD ((r.head + i) % r.cap) 0 = r.buf.getD ((r.head + i) % r.cap) 0
    have : r.tail ≠ (r.head + i) % r.cap := by
      rw [h3]; exact idx_ne h1 (by omega) (by omega) (by omega)
    simp [List.getD_eq_getElem?_getD, List.getElem?_set_ne this]
  · show [(r.buf.set r.tail x).getD ((r.head + r.size) % r.cap) 0] = [x]
    have ht : r.tail < r.buf.length := by rw [h3]; exact Nat.mod_lt _ (by unfold cap at h1; omega)
    rw [← h3]; simp [List.getD_eq_getElem?_getD, ht]

theorem popRaw_wf {r : Ring} (h : r.WF) (hs : 0 < r.size) : r.popRaw.2.WF := by
  obtain ⟨h1, h2, h3⟩ := h
  have hc : 0 < r.cap := by omega
  refine ⟨?_, by simp; omega, ?_⟩
  · show (r.head + 1) % r.cap < r.popRaw.2.cap
    rw [popRaw_cap]; exact Nat.mod_lt _ hc
  · show r.tail = ((r.head + 1) % r.cap + (r.size - 1)) % r.popRaw.2.cap
    rw [popRaw_cap, Nat.mod_add_mod, h3]; congr 1; omega

theorem popRaw_toList {r : Ring} (h : r.WF) (hs : 0 < r.size) :
    r.toList = r.popRaw.1 :: r.popRaw.2.toList := by
  obtain ⟨h1, h2, h3⟩ := h
  have hc : 0 < r.cap := by omega
  unfold toList
  rw [popRaw_size, popRaw_cap]
  obtain ⟨k, hk⟩ : ∃ k, r.size = k + 1 := ⟨r.size - 1, by omega⟩
  rw [hk, List.range_succ_eq_map, List.map_cons, List.map_map]
  congr 1
  · show r.get ((r.head + 0) % r.cap) = r.get r.head
    simp [Nat.mod_eq_of_lt h1]
  · show _ = List.map _ (List.range (k + 1 - 1))
    rw [Nat.add_sub_cancel]
    apply List.map_congr_left
    intro i hi
    have hi : i < k := by simpa using hi
    show r.buf.getD ((r.head + (i + 1)) % r.cap) 0
        = (r.buf.set r.head 0).getD (((r.head + 1) % r.cap + i) % r.cap) 0
    rw [Nat.mod_add_mod]
    have e : r.head + 1 + i = r.head + (i + 1) := by omega
    rw [e]
    have : r.head ≠ (r.head + (i + 1)) % r.cap := by
      have := idx_ne (h := r.head) (i := 0) (j := i + 1) h1 hc (by omega) (by omega)
      simpa [Nat.mod_eq_of_lt h1] using this
    simp [List.getD_eq_getElem?_getD, List.getElem?_set_ne this]

theorem map_getD_range (l : List Nat) (z : List Nat) :
    (List.range l.length).map (fun i => (l ++ z).getD i 0) = l := by
  apply List.ext_getElem
  · simp
  · intro i h1 h2
    have : i < l.length := by simpa using h1
    simp [List.getD_eq_getElem?_getD, List.getElem?_append_left this, List.getElem?_eq_getElem this]

theorem newCap_gt (c : Nat) : c < (if c * 2 = 0 then globalQueueInitialCap else c * 2) := by
  unfold globalQueueInitialCap; split <;> omega

theorem grow_cap (r : Ring) (h : r.size ≤ r.cap) :
    r.grow.cap = if r.cap * 2 = 0 then globalQueueInitialCap else r.cap * 2 := by
  unfold grow cap
  simp only [List.length_append, length_toList, List.length_replicate]
  unfold cap at h
  have := newCap_gt r.buf.length
  omega

theorem grow_wf {r : Ring} (h : r.size ≤ r.cap) : r.grow.WF := by
  have hc := grow_cap r h
  refine ⟨?_, ?_, ?_⟩
  · show 0 < r.grow.cap
    rw [hc]; have := newCap_gt r.cap; omega
  · show r.size ≤ r.grow.cap
    rw [hc]; have := newCap_gt r.cap; omega
  · show r.size = (0 + r.size) % r.grow.cap
    rw [hc, Nat.zero_add, Nat.mod_eq_of_lt]
    have := newCap_gt r.cap; omega

theorem grow_size (r : Ring) : r.grow.size = r.size := rfl

theorem grow_toList {r : Ring} (h : r.size ≤ r.cap) : r.grow.toList = r.toList := by
  have hc := grow_cap r h
  have hlt : ∀ i, i < r.size → i % r.grow.cap = i := by
    intro i hi; apply Nat.mod_eq_of_lt; rw [hc]; have := newCap_gt r.cap; omega
  have : r.grow.toList = (List.range r.toList.length).map
      (fun i => (r.toList ++ List.replicate ((if r.cap * 2 = 0 then globalQueueInitialCap else r.cap * 2) - r.size) 0).getD i 0) := by
    conv => lhs; unfold toList
    rw [grow_size, length_toList]
    apply List.map_congr_left
    intro i hi
    have hi : i < r.size := by simpa using hi
    show r.grow.buf.getD ((0 + i) % r.grow.cap) 0 = _
    rw [Nat.zero_add, hlt i hi]; rfl
  rw [this, map_getD_range]

theorem gpush_wf {r : Ring} (x : Nat) (h : r.WF) : (r.gpush x).WF := by
  unfold gpush
  split
  · rename_i he
    apply pushRaw_wf x (grow_wf (by omega))
    rw [grow_size, grow_cap r (by omega)]
    have := newCap_gt r.cap; omega
  · exact pushRaw_wf x h (by have := h.size_le; omega)

theorem gpush_toList {r : Ring} (x : Nat) (h : r.WF) : (r.gpush x).toList = r.toList ++ [x] := by
  unfold gpush
  split
  · rename_i he
    rw [pushRaw_toList x (grow_wf (by omega)), grow_toList (by omega)]
    rw [grow_size, grow_cap r (by omega)]
    have := newCap_gt r.cap; omega
  · exact pushRaw_toList x h (by have := h.size_le; omega)

theorem gpush_size (r : Ring) (x : Nat) : (r.gpush x).size = r.size + 1 := by
  unfold gpush; split <;> simp [grow_size]

theorem gpop_of_pos {r : Ring} (hs : 0 < r.size) : r.gpop = r.popRaw := by
  unfold gpop; rw [if_neg (by omega)]

/-- the transfer loop moves a prefix `mv` of the victim's window to the back of the destination -/
theorem stealLoop_spec (k : Nat) : ∀ (q d : Ring), q.WF → d.WF → k ≤ q.size →
    (stealLoop k q d).1.WF ∧ (stealLoop k q d).2.WF ∧
    (stealLoop k q d).1.cap = q.cap ∧ (stealLoop k q d).2.cap = d.cap ∧
    ∃ mv, q.toList = mv ++ (stealLoop k q d).1.toList ∧ (stealLoop k q d).2.toList = d.toList ++ mv ∧
      mv.length = min k (d.cap - d.size) := by
  induction k with
  | zero => intro q d hq hd _; exact ⟨hq, hd, rfl, rfl, [], by simp [stealLoop], by simp [stealLoop], by simp⟩
  | succ k ih =>
    intro q d hq hd hk
    unfold stealLoop
    split
    · rename_i hfull
      exact ⟨hq, hd, rfl, rfl, [], by simp, by simp, by simp [hfull]⟩
    · rename_i hnf
      have hds : d.size < d.cap := by have := hd.size_le; omega
      have hq' := popRaw_wf hq (by omega)
      have hd' := pushRaw_wf q.popRaw.1 hd hds
      obtain ⟨w1, w2, c1, c2, mv, e1, e2, e3⟩ := ih q.popRaw.2 (d.pushRaw q.popRaw.1) hq' hd' (by simp; omega)
      refine ⟨w1, w2, by rw [c1, popRaw_cap], by rw [c2, pushRaw_cap], q.popRaw.1 :: mv, ?_, ?_, ?_⟩
      · rw [popRaw_toList hq (by omega), e1]; rfl
      · rw [e2, pushRaw_toList _ hd hds]; simp
      · simp [e3]; omega

theorem stealHalf_spec {q d : Ring} (hq : q.WF) (hd : d.WF) (hs : 0 < q.size) :
    (stealHalf q d).2.1.WF ∧ (stealHalf q d).2.2.WF ∧
    (stealHalf q d).2.1.cap = q.cap ∧ (stealHalf q d).2.2.cap = d.cap ∧
    ∃ mv, q.toList = (stealHalf q d).1 :: mv ++ (stealHalf q d).2.1.toList ∧
      (stealHalf q d).2.2.toList = d.toList ++ mv ∧
      mv.length = min ((q.size + 1) / 2 - 1) (d.cap - d.size) := by
  have hq' := popRaw_wf hq hs
  obtain ⟨w1, w2, c1, c2, mv, e1, e2, e3⟩ :=
    stealLoop_spec ((q.size + 1) / 2 - 1) q.popRaw.2 d hq' hd (by simp; omega)
  refine ⟨w1, w2, by rw [← popRaw_cap q]; exact c1, c2, mv, ?_, e2, e3⟩
  rw [popRaw_toList hq hs]
  show _ :: _ = _ :: _
  congr 1

end Ring
end GoaktVerif.Model.C05

/-
C05 — local rings: `sizeAtomic` never under-reports a ring to its owner, and a worker that has left
`popFront` empty-handed (and is stealing, taking from the global queue or parked) has an empty ring:
work in a local ring implies its owner is awake.
-/
import GoaktVerif.Lemmas.C05.Wait

namespace GoaktVerif.Model.C05

/-- the owner is inside a critical section that has grown its ring but not yet published `sizeAtomic` -/
def PC.adding : PC → Bool
  | .plStore _ => true | .stStore1 _ _ _ => true | .stStore2 _ _ _ => true
  | _ => false

/-- the owner has found its own ring empty in this `take` and has not returned yet -/
def PC.idle : PC → Bool
  | .tkLoadGlobal _ => true | .tkLockGlobal _ => true | .tkStoreGlobal _ _ => true
  | .stLoad _ _ => true | .stLock1 _ _ => true | .stLock2 _ _ => true
  | .pkLock _ => true | .pkStore _ _ => true | .pkWait _ => true | .pkWake _ => true
  | _ => false

theorem stealLoop_size (k : Nat) : ∀ q d : Ring, (Ring.stealLoop k q d).1.size ≤ q.size := by
  induction k with
  | zero => intro q d; simp [Ring.stealLoop]
  | succ k ih =>
    intro q d; unfold Ring.stealLoop; split
    · exact Nat.le_refl _
    · have := ih q.popRaw.2 (d.pushRaw q.popRaw.1); simp at this ⊢; omega

theorem stealHalf_size (q d : Ring) : (Ring.stealHalf q d).2.1.size ≤ q.size := by
  unfold Ring.stealHalf
  have := stealLoop_size ((q.size + 1) / 2 - 1) q.popRaw.2 d
  simp at this ⊢; omega

theorem parkLoop_getL (s : Shared) (w j : Nat) : (parkLoop s w).1.getL j = s.getL j := by
  unfold parkLoop; split
  · rfl
  · split <;> rfl

theorem getL_setL (s : Shared) (w j : Nat) (q : LocalQ) (hw : w < s.locals.length) :
    (s.setL w q).getL j = if w = j then q else s.getL j := by
  split
  · rename_i e; subst e; exact getL_setL_same s w q hw
  · rename_i e; exact getL_setL_ne s w j q e

@[simp] theorem getL_with_pushed (s : Shared) (p : List Nat) (j : Nat) : ({ s with pushed := p } : Shared).getL j = s.getL j := rfl
@[simp] theorem getL_with_taken (s : Shared) (p : List Nat) (j : Nat) : ({ s with taken := p } : Shared).getL j = s.getL j := rfl

/-- taking / releasing a local mutex changes neither ring nor sizeAtomic of any queue -/
theorem getL_setL_mu (s : Shared) (k j : Nat) (m : Option Nat) :
    ((s.setL k { s.getL k with mu := m }).getL j).ring = (s.getL j).ring ∧
    ((s.setL k { s.getL k with mu := m }).getL j).sizeAtomic = (s.getL j).sizeAtomic := by
  by_cases e : k = j
  · subst e
    by_cases hk : k < s.locals.length
    · rw [getL_setL_same s k _ hk]; exact ⟨rfl, rfl⟩
    · have : s.setL k { s.getL k with mu := m } = s := by
        simp [Shared.setL, List.set_eq_of_length_le (Nat.le_of_not_lt hk)]
      rw [this]; exact ⟨rfl, rfl⟩
  · rw [getL_setL_ne s k j _ e]; exact ⟨rfl, rfl⟩

/-- a step of another thread never grows ring `j`, and if it touches `sizeAtomic` it publishes the exact size -/
theorem exec_other {s : Shared} {n tid : Nat} {pc : PC} (hn : s.locals.length = n) (hok : pc.ok n tid)
    (j : Nat) (hj : tid ≠ j) :
    ((exec s tid pc).1.getL j).ring.size ≤ (s.getL j).ring.size ∧
    (((exec s tid pc).1.getL j).sizeAtomic = (s.getL j).sizeAtomic ∨
     ((exec s tid pc).1.getL j).sizeAtomic = ((exec s tid pc).1.getL j).ring.size) := by
  have triv : (s.getL j).ring.size ≤ (s.getL j).ring.size ∧
    ((s.getL j).sizeAtomic = (s.getL j).sizeAtomic ∨ (s.getL j).sizeAtomic = (s.getL j).ring.size) :=
    ⟨Nat.le_refl _, Or.inl rfl⟩
  cases pc with
  | pushLock x => simp only [exec]; split <;> (first | exact triv | exact ⟨Nat.le_refl _, Or.inl trivial⟩)
  | pushStore => simp only [exec]; split <;> (first | exact triv | exact ⟨Nat.le_refl _, Or.inl trivial⟩)
  | pushSignal => simp only [exec]; split <;> (first | exact triv | exact ⟨Nat.le_refl _, Or.inl trivial⟩)
  | plLock w x =>
    obtain ⟨hw, hwn, _⟩ := hok; subst hw
    simp only [exec]; split
    · (first | exact triv | exact ⟨Nat.le_refl _, Or.inl trivial⟩)
    · split
      · (first | exact triv | exact ⟨Nat.le_refl _, Or.inl trivial⟩)
      · simp only [getL_with_pushed, getL_setL_ne s w j _ hj]; (first | exact triv | exact ⟨Nat.le_refl _, Or.inl trivial⟩)
  | plStore w =>
    obtain ⟨hw, hwn⟩ := hok; subst hw
    simp only [exec, getL_setL_ne s w j _ hj]; (first | exact triv | exact ⟨Nat.le_refl _, Or.inl trivial⟩)
  | tkLoadLocal w => simp only [exec]; split <;> (first | exact triv | exact ⟨Nat.le_refl _, Or.inl trivial⟩)
  | tkLockLocal w =>
    obtain ⟨hw, hwn⟩ := hok; subst hw
    simp only [exec]; split
    · (first | exact triv | exact ⟨Nat.le_refl _, Or.inl trivial⟩)
    · split
      · (first | exact triv | exact ⟨Nat.le_refl _, Or.inl trivial⟩)
      · simp only [getL_with_taken, getL_setL_ne s w j _ hj]; (first | exact triv | exact ⟨Nat.le_refl _, Or.inl trivial⟩)
  | tkStoreLocal w x =>
    obtain ⟨hw, hwn, _⟩ := hok; subst hw
    simp only [exec, getL_setL_ne s w j _ hj]; (first | exact triv | exact ⟨Nat.le_refl _, Or.inl trivial⟩)
  | tkLoadGlobal w => simp only [exec]; split <;> (first | exact triv | exact ⟨Nat.le_refl _, Or.inl trivial⟩)
  | tkLockGlobal w =>
    simp only [exec]; split
    · (first | exact triv | exact ⟨Nat.le_refl _, Or.inl trivial⟩)
    · split
      · (first | exact triv | exact ⟨Nat.le_refl _, Or.inl trivial⟩)
      · split <;> (first | exact triv | exact ⟨Nat.le_refl _, Or.inl trivial⟩)
  | tkStoreGlobal w x => simp only [exec]; (first | exact triv | exact ⟨Nat.le_refl _, Or.inl trivial⟩)
  | stLoad w i => simp only [exec]; split <;> (first | exact triv | exact ⟨Nat.le_refl _, Or.inl trivial⟩)
  | stLock1 w i =>
    simp only [exec]; split
    · (first | exact triv | exact ⟨Nat.le_refl _, Or.inl trivial⟩)
    · have := getL_setL_mu s (min ((w + i) % s.locals.length) w) j (some tid)
      rw [this.1, this.2]; (first | exact triv | exact ⟨Nat.le_refl _, Or.inl trivial⟩)
  | stLock2 w i =>
    obtain ⟨hw, hwn, hi0, hi⟩ := hok
    subst hw
    simp only [exec]; split
    · (first | exact triv | exact ⟨Nat.le_refl _, Or.inl trivial⟩)
    · split
      · have := getL_setL_mu s (min ((w + i) % s.locals.length) w) j none
        rw [this.1, this.2]; (first | exact triv | exact ⟨Nat.le_refl _, Or.inl trivial⟩)
      · generalize (w + i) % s.locals.length = v at *
        generalize hs1 : s.setL (max v w) { s.getL (max v w) with mu := some w } = s1
        have h1 := getL_setL_mu s (max v w) j (some w)
        have h1v := getL_setL_mu s (max v w) v (some w)
        rw [hs1] at h1 h1v
        simp only [getL_with_taken, getL_setL_ne _ w j _ hj]
        by_cases e : v = j
        · subst e
          by_cases hv : v < s1.locals.length
          · rw [getL_setL_same s1 v _ hv]
            refine ⟨?_, Or.inl ?_⟩
            · exact Nat.le_trans (stealHalf_size _ _) (by rw [h1v.1]; exact Nat.le_refl _)
            · exact h1.2
          · have : s1.setL v { s1.getL v with ring := (Ring.stealHalf (s1.getL v).ring (s1.getL w).ring).2.1 } = s1 := by
              simp [Shared.setL, List.set_eq_of_length_le (Nat.le_of_not_lt hv)]
            rw [this, h1.1, h1.2]; (first | exact triv | exact ⟨Nat.le_refl _, Or.inl trivial⟩)
        · rw [getL_setL_ne s1 v j _ e, h1.1, h1.2]; (first | exact triv | exact ⟨Nat.le_refl _, Or.inl trivial⟩)
  | stStore1 w i x =>
    simp only [exec]
    generalize (w + i) % s.locals.length = v
    by_cases e : v = j
    · subst e
      by_cases hv : v < s.locals.length
      · rw [getL_setL_same s v _ hv]; exact ⟨Nat.le_refl _, Or.inr rfl⟩
      · have : s.setL v { s.getL v with sizeAtomic := (s.getL v).ring.size } = s := by
          simp [Shared.setL, List.set_eq_of_length_le (Nat.le_of_not_lt hv)]
        rw [this]; (first | exact triv | exact ⟨Nat.le_refl _, Or.inl trivial⟩)
    · rw [getL_setL_ne s v j _ e]; (first | exact triv | exact ⟨Nat.le_refl _, Or.inl trivial⟩)
  | stStore2 w i x =>
    obtain ⟨hw, hwn, _⟩ := hok; subst hw
    simp only [exec]
    have := getL_setL_mu (s.setL w { s.getL w with sizeAtomic := (s.getL w).ring.size, mu := none }) ((w + i) % s.locals.length) j none
    rw [this.1, this.2, getL_setL_ne s w j _ hj]; (first | exact triv | exact ⟨Nat.le_refl _, Or.inl trivial⟩)
  | pkLock w => simp only [exec]; split <;> (try simp only [parkLoop_getL]) <;> (first | exact triv | exact ⟨Nat.le_refl _, Or.inl trivial⟩)
  | pkStore w x => simp only [exec]; (first | exact triv | exact ⟨Nat.le_refl _, Or.inl trivial⟩)
  | pkWait w => simp only [exec]; (first | exact triv | exact ⟨Nat.le_refl _, Or.inl trivial⟩)
  | pkWake w => simp only [exec]; split <;> (try simp only [parkLoop_getL]) <;> (first | exact triv | exact ⟨Nat.le_refl _, Or.inl trivial⟩)
  | clCAS => simp only [exec]; split <;> (first | exact triv | exact ⟨Nat.le_refl _, Or.inl trivial⟩)
  | clLock => simp only [exec]; split <;> (first | exact triv | exact ⟨Nat.le_refl _, Or.inl trivial⟩)
  | clBroadcast => simp only [exec]; (first | exact triv | exact ⟨Nat.le_refl _, Or.inl trivial⟩)

end GoaktVerif.Model.C05

/-
C05 — every transition keeps the shared-state invariant `SInv` (ring shapes + conservation +
no nil items) and hands the thread a well-formed continuation.
-/
import GoaktVerif.Lemmas.C05.Cons

namespace GoaktVerif.Model.C05

/-- well-formed program counter of thread `tid` in a pool of `n` workers: ring indices are the
thread's own id (worker discipline) and in range, steal offsets are in `1 … n-1`, carried items are not nil -/
def PC.ok (n tid : Nat) : PC → Prop
  | .pushLock x => x ≠ 0
  | .pushStore => True | .pushSignal => True | .clCAS => True | .clLock => True | .clBroadcast => True
  | .plLock w x => w = tid ∧ w < n ∧ x ≠ 0
  | .plStore w => w = tid ∧ w < n
  | .tkLoadLocal w => w = tid ∧ w < n
  | .tkLockLocal w => w = tid ∧ w < n
  | .tkLoadGlobal w => w = tid ∧ w < n
  | .tkLockGlobal w => w = tid ∧ w < n
  | .pkLock w => w = tid ∧ w < n
  | .pkWait w => w = tid ∧ w < n
  | .pkWake w => w = tid ∧ w < n
  | .tkStoreLocal w x => w = tid ∧ w < n ∧ x ≠ 0
  | .tkStoreGlobal w x => w = tid ∧ w < n ∧ x ≠ 0
  | .pkStore w x => w = tid ∧ w < n ∧ x ≠ 0
  | .stLoad w i => w = tid ∧ w < n ∧ 0 < i ∧ i < n
  | .stLock1 w i => w = tid ∧ w < n ∧ 0 < i ∧ i < n
  | .stLock2 w i => w = tid ∧ w < n ∧ 0 < i ∧ i < n
  | .stStore1 w i x => w = tid ∧ w < n ∧ 0 < i ∧ i < n ∧ x ≠ 0
  | .stStore2 w i x => w = tid ∧ w < n ∧ 0 < i ∧ i < n ∧ x ≠ 0

def Next.ok (n tid : Nat) : Next → Prop
  | .goto pc => pc.ok n tid
  | .ret r => match r with | .ok => True | .closed => True | _ => False   -- items are returned through `retTake` only
  | .retTake w x => w = tid ∧ w < n ∧ x ≠ 0
  | .blocked => True

theorem victim_lt {n w i : Nat} (hn : 0 < n) : (w + i) % n < n := Nat.mod_lt _ hn

theorem victim_ne {n w i : Nat} (hw : w < n) (hi0 : 0 < i) (hi : i < n) : (w + i) % n ≠ w := by
  rw [Ring.mod2 hw (Nat.le_of_lt hi)]; split <;> omega

theorem stealNext_ok {n w i tid : Nat} (hw : w = tid) (hwn : w < n) (hi0 : 0 < i) :
    (stealNext n w i).ok n tid := by
  unfold stealNext; split
  · exact ⟨hw, hwn, by omega, by omega⟩
  · exact ⟨hw, hwn⟩

theorem stealStart_ok {n w tid : Nat} (hw : w = tid) (hwn : w < n) : (stealStart n w).ok n tid := by
  unfold stealStart; split
  · exact ⟨hw, hwn, by omega, by omega⟩
  · exact ⟨hw, hwn⟩

theorem parkLoop_ok {s : Shared} {n w tid : Nat} (h : SInv s) (hn : s.locals.length = n) (hw : w = tid) (hwn : w < n) :
    SInv (parkLoop s w).1 ∧ (parkLoop s w).2.ok n tid ∧ (parkLoop s w).1.locals.length = n := by
  unfold parkLoop
  split
  · exact ⟨h.congr rfl rfl rfl rfl, trivial, hn⟩
  · split
    · rename_i hpos
      have := SInv.globalPop (s' := { s with global := s.global.gpop.2, taken := s.global.gpop.1 :: s.taken }) h
        (by omega) rfl rfl rfl rfl
      exact ⟨this.1, ⟨hw, hwn, this.2⟩, hn⟩
    · exact ⟨h.congr rfl rfl rfl rfl, ⟨hw, hwn⟩, hn⟩

theorem exec_ok {s : Shared} {n tid : Nat} {pc : PC} (h : SInv s) (hn : s.locals.length = n) (hok : pc.ok n tid) :
    SInv (exec s tid pc).1 ∧ (exec s tid pc).2.ok n tid ∧ (exec s tid pc).1.locals.length = n := by
  cases pc with
  | pushLock x =>
    simp only [exec]; split
    · exact ⟨h, trivial, hn⟩
    · exact ⟨h.globalPush x hok rfl rfl rfl rfl, trivial, hn⟩
  | pushStore =>
    simp only [exec]; split
    · exact ⟨h.congr rfl rfl rfl rfl, trivial, hn⟩
    · exact ⟨h.congr rfl rfl rfl rfl, trivial, hn⟩
  | pushSignal =>
    simp only [exec]; split
    · exact ⟨h.congr rfl rfl rfl rfl, trivial, hn⟩
    · exact ⟨h.congr rfl rfl rfl rfl, trivial, hn⟩
  | plLock w x =>
    obtain ⟨hw, hwn, hx⟩ := hok
    simp only [exec]; split
    · exact ⟨h, trivial, hn⟩
    · split
      · exact ⟨h, hx, hn⟩
      · rename_i hfull
        refine ⟨h.localPush w x (by omega) hx hfull ?_ rfl rfl rfl, ⟨hw, hwn⟩, by simpa using hn⟩
        exact rings_setL s w _
  | plStore w =>
    simp only [exec]
    exact ⟨h.congr (rings_setL_same s w _ rfl) rfl rfl rfl, trivial, by simpa using hn⟩
  | tkLoadLocal w =>
    simp only [exec]; split <;> exact ⟨h, hok, hn⟩
  | tkLockLocal w =>
    obtain ⟨hw, hwn⟩ := hok
    simp only [exec]; split
    · exact ⟨h, trivial, hn⟩
    · split
      · exact ⟨h, ⟨hw, hwn⟩, hn⟩
      · rename_i hne
        have := SInv.localPop (s' := { s.setL w { s.getL w with ring := (s.getL w).ring.popRaw.2, mu := some tid } with
            taken := (s.getL w).ring.popRaw.1 :: s.taken }) h w (by omega) hne (rings_setL s w _) rfl rfl rfl
        exact ⟨this.1, ⟨hw, hwn, this.2⟩, by simpa using hn⟩
  | tkStoreLocal w x =>
    obtain ⟨hw, hwn, hx⟩ := hok
    simp only [exec]
    refine ⟨h.congr (rings_setL_same s w _ rfl) rfl rfl rfl, ?_, by simpa using hn⟩
    rw [if_pos hx]; exact ⟨hw, hwn, hx⟩
  | tkLoadGlobal w =>
    obtain ⟨hw, hwn⟩ := hok
    simp only [exec]; split
    · exact ⟨h, by rw [hn]; exact stealStart_ok hw hwn, hn⟩
    · exact ⟨h, ⟨hw, hwn⟩, hn⟩
  | tkLockGlobal w =>
    obtain ⟨hw, hwn⟩ := hok
    simp only [exec]; split
    · exact ⟨h, trivial, hn⟩
    · split
      · exact ⟨h, by rw [hn]; exact stealStart_ok hw hwn, hn⟩
      · rename_i hne
        have := SInv.globalPop (s' := { s with global := s.global.gpop.2, taken := s.global.gpop.1 :: s.taken }) h
          hne rfl rfl rfl rfl
        split
        · exact ⟨this.1.congr rfl rfl rfl rfl, ⟨hw, hwn, this.2⟩, hn⟩
        · exact ⟨this.1, by rw [hn]; exact stealStart_ok hw hwn, hn⟩
  | tkStoreGlobal w x =>
    simp only [exec]
    exact ⟨h.congr rfl rfl rfl rfl, hok, hn⟩
  | stLoad w i =>
    obtain ⟨hw, hwn, hi0, hi⟩ := hok
    simp only [exec]; split
    · exact ⟨h, by rw [hn]; exact stealNext_ok hw hwn hi0, hn⟩
    · exact ⟨h, ⟨hw, hwn, hi0, hi⟩, hn⟩
  | stLock1 w i =>
    simp only [exec]; split
    · exact ⟨h, trivial, hn⟩
    · exact ⟨h.congr (rings_setL_same s _ _ rfl) rfl rfl rfl, hok, by simpa using hn⟩
  | stLock2 w i =>
    obtain ⟨hw, hwn, hi0, hi⟩ := hok
    simp only [exec]; split
    · exact ⟨h, trivial, hn⟩
    · split
      · refine ⟨h.congr (rings_setL_same s _ _ rfl) rfl rfl rfl, ?_, by simpa using hn⟩
        simp only [setL_locals_length]; rw [hn]; exact stealNext_ok hw hwn hi0
      · rename_i hne
        have hvn : (w + i) % s.locals.length < s.locals.length := victim_lt (by omega)
        have hvw : (w + i) % s.locals.length ≠ w := by rw [hn]; exact victim_ne hwn hi0 hi
        generalize hv : (w + i) % s.locals.length = v at *
        -- the lock on `second` does not touch any ring
        generalize hs1 : s.setL (max v w) { s.getL (max v w) with mu := some tid } = s1
        have r1 : s1.rings = s.rings := by rw [← hs1]; exact rings_setL_same s _ _ rfl
        have gv : (s1.getL v).ring = (s.getL v).ring := by
          rw [← hs1]
          by_cases e : max v w = v
          · rw [e, getL_setL_same s v _ hvn]
          · rw [getL_setL_ne s _ v _ e]
        have gw : (s1.getL w).ring = (s.getL w).ring := by
          rw [← hs1]
          by_cases e : max v w = w
          · rw [e, getL_setL_same s w _ (by omega)]
          · rw [getL_setL_ne s _ w _ e]
        have l1 : s1.locals.length = s.locals.length := by rw [← hs1]; simp
        have h1 : SInv s1 := h.congr r1 (by rw [← hs1]; rfl) (by rw [← hs1]; rfl) (by rw [← hs1]; rfl)
        have hne1 : (s1.getL v).ring.size ≠ 0 := by rw [gv]; exact hne
        have := SInv.steal (s := s1) (s' := { (s1.setL v { s1.getL v with ring := (Ring.stealHalf (s1.getL v).ring (s1.getL w).ring).2.1 }).setL w
              { (s1.setL v { s1.getL v with ring := (Ring.stealHalf (s1.getL v).ring (s1.getL w).ring).2.1 }).getL w with
                ring := (Ring.stealHalf (s1.getL v).ring (s1.getL w).ring).2.2 } with
              taken := (Ring.stealHalf (s1.getL v).ring (s1.getL w).ring).1 :: s1.taken })
          h1 v w (by omega) (by omega) hvw hne1
          (by rw [show ∀ (a : Shared) (t : List Nat), ({ a with taken := t } : Shared).rings = a.rings from fun _ _ => rfl,
                  rings_setL, rings_setL])
          rfl rfl rfl
        exact ⟨this.1, ⟨hw, hwn, hi0, hi, this.2⟩, by simp [l1, hn]⟩
  | stStore1 w i x =>
    simp only [exec]
    exact ⟨h.congr (rings_setL_same s _ _ rfl) rfl rfl rfl, hok, by simpa using hn⟩
  | stStore2 w i x =>
    obtain ⟨hw, hwn, hi0, hi, hx⟩ := hok
    simp only [exec]
    refine ⟨?_, ?_, by simpa using hn⟩
    · refine SInv.congr h ?_ rfl rfl rfl
      refine Eq.trans (rings_setL_same _ _ _ ?_) (rings_setL_same s _ _ ?_) <;> rfl
    · rw [if_pos hx]; exact ⟨hw, hwn, hx⟩
  | pkLock w =>
    obtain ⟨hw, hwn⟩ := hok
    simp only [exec]; split
    · exact ⟨h, trivial, hn⟩
    · exact parkLoop_ok (h.congr rfl rfl rfl rfl) hn hw hwn
  | pkStore w x =>
    obtain ⟨hw, hwn, hx⟩ := hok
    simp only [exec]
    refine ⟨h.congr rfl rfl rfl rfl, ?_, hn⟩
    rw [if_pos hx]; exact ⟨hw, hwn, hx⟩
  | pkWait w =>
    simp only [exec]
    exact ⟨h.congr rfl rfl rfl rfl, hok, hn⟩
  | pkWake w =>
    obtain ⟨hw, hwn⟩ := hok
    simp only [exec]; split
    · exact parkLoop_ok (h.congr rfl rfl rfl rfl) hn hw hwn
    · exact ⟨h, trivial, hn⟩
  | clCAS =>
    simp only [exec]; split
    · exact ⟨h, trivial, hn⟩
    · exact ⟨h.congr rfl rfl rfl rfl, trivial, hn⟩
  | clLock =>
    simp only [exec]; split
    · exact ⟨h, trivial, hn⟩
    · exact ⟨h.congr rfl rfl rfl rfl, trivial, hn⟩
  | clBroadcast =>
    simp only [exec]
    exact ⟨h.congr rfl rfl rfl rfl, trivial, hn⟩

end GoaktVerif.Model.C05

/-
C05 — the invariant of whole configurations (shared state + threads) and its preservation by
`step`, for every thread id chosen by the scheduler: hence for every schedule.
-/
import GoaktVerif.Lemmas.C05.Exec

namespace GoaktVerif.Model.C05

/-- item removed from a ring that the thread has not returned yet -/
def PC.held : PC → List Nat
  | .tkStoreLocal _ x => [x]
  | .tkStoreGlobal _ x => [x]
  | .stStore1 _ _ x => [x]
  | .stStore2 _ _ x => [x]
  | .pkStore _ x => [x]
  | _ => []

def Next.held (pc : PC) : Next → List Nat
  | .goto pc' => pc'.held
  | .ret _ => []
  | .retTake _ x => [x]
  | .blocked => pc.held

def Res.items : Res → List Nat
  | .item x => [x]
  | .ran xs => xs
  | _ => []

def Thread.held (t : Thread) : List Nat :=
  match t.pc with
  | some pc => pc.held
  | none => []

/-- every item the thread's takes have returned so far (results of `take`, items run by `run`) -/
def Thread.returned (t : Thread) : List Nat := t.results.flatMap Res.items ++ t.run.getD []

@[simp] theorem stealNext_held (n w i : Nat) (pc : PC) : (stealNext n w i).held pc = [] := by
  unfold stealNext; split <;> rfl
@[simp] theorem stealStart_held (n w : Nat) (pc : PC) : (stealStart n w).held pc = [] := by
  unfold stealStart; split <;> rfl

theorem parkLoop_taken {s : Shared} (w : Nat) (pc : PC) (y : Nat) :
    (parkLoop s w).1.taken.count y = s.taken.count y + ((parkLoop s w).2.held pc).count y := by
  unfold parkLoop
  split
  · simp [Next.held]
  · split
    · simp [Next.held, PC.held, List.count_cons]
    · simp [Next.held, PC.held]

/-- the ghost log `taken` grows exactly by what the thread now holds -/
theorem exec_taken {s : Shared} {n tid : Nat} {pc : PC} (h : SInv s) (hok : pc.ok n tid) (y : Nat) :
    (exec s tid pc).1.taken.count y + pc.held.count y = s.taken.count y + ((exec s tid pc).2.held pc).count y := by
  cases pc with
  | pushLock x => simp only [exec]; split <;> simp [Next.held, PC.held]
  | pushStore => simp only [exec]; split <;> simp [Next.held, PC.held]
  | pushSignal => simp only [exec]; split <;> simp [Next.held, PC.held]
  | plLock w x =>
    simp only [exec]; split
    · simp [Next.held]
    · split <;> simp [Next.held, PC.held, Shared.setL]
  | plStore w => simp [exec, Next.held, PC.held, Shared.setL]
  | tkLoadLocal w => simp only [exec]; split <;> simp [Next.held, PC.held]
  | tkLockLocal w =>
    simp only [exec]; split
    · simp [Next.held]
    · split <;> simp [Next.held, PC.held, List.count_cons]
  | tkStoreLocal w x =>
    obtain ⟨_, _, hx⟩ := hok
    simp [exec, Next.held, PC.held, Shared.setL, hx]
  | tkLoadGlobal w =>
    simp only [exec]; split
    · simp [PC.held]
    · simp [Next.held, PC.held]
  | tkLockGlobal w =>
    simp only [exec]; split
    · simp [Next.held]
    · split
      · simp [PC.held]
      · rename_i hne
        have := (SInv.globalPop (s' := { s with global := s.global.gpop.2, taken := s.global.gpop.1 :: s.taken }) h
          hne rfl rfl rfl rfl).2
        rw [if_pos this]
        simp [Next.held, PC.held, List.count_cons]
  | tkStoreGlobal w x => simp [exec, Next.held, PC.held]
  | stLoad w i =>
    simp only [exec]; split
    · simp [PC.held]
    · simp [Next.held, PC.held]
  | stLock1 w i => simp only [exec]; split <;> simp [Next.held, PC.held, Shared.setL]
  | stLock2 w i =>
    simp only [exec]; split
    · simp [Next.held]
    · split
      · simp [PC.held, Shared.setL]
      · simp [Next.held, PC.held, Shared.setL, List.count_cons]
  | stStore1 w i x => simp [exec, Next.held, PC.held, Shared.setL]
  | stStore2 w i x =>
    obtain ⟨_, _, _, _, hx⟩ := hok
    simp [exec, Next.held, PC.held, Shared.setL, hx]
  | pkLock w =>
    simp only [exec]; split
    · simp [Next.held]
    · have := parkLoop_taken (s := { s with parkMu := some tid }) w (.pkLock w) y
      simpa [PC.held] using this
  | pkStore w x =>
    obtain ⟨_, _, hx⟩ := hok
    simp [exec, Next.held, PC.held, hx]
  | pkWait w => simp [exec, Next.held, PC.held]
  | pkWake w =>
    simp only [exec]; split
    · have := parkLoop_taken (s := { s with signalled := s.signalled.erase tid, parkMu := some tid, parked := s.parked - 1 }) w (.pkWake w) y
      simpa [PC.held] using this
    · simp [Next.held]
  | clCAS => simp only [exec]; split <;> simp [Next.held, PC.held]
  | clLock => simp only [exec]; split <;> simp [Next.held, PC.held]
  | clBroadcast => simp [exec, Next.held, PC.held]

/-! ### threads -/

/-- which operations a thread may issue: only workers (`tid < n`) take and push locally -/
def Op.ok (n tid : Nat) : Op → Prop
  | .push _ => True
  | .close => True
  | _ => tid < n

structure TOk (n tid : Nat) (t : Thread) : Prop where
  pc : ∀ pc, t.pc = some pc → pc.ok n tid
  prog : ∀ op ∈ t.prog, op.ok n tid

theorem begin_ok {n tid : Nat} {op : Op} (h : op.ok n tid) : (begin tid op).1.ok n tid := by
  cases op <;> simp [begin, PC.ok] <;> exact h

@[simp] theorem begin_held (tid : Nat) (op : Op) : (begin tid op).1.held = [] := by
  cases op <;> rfl

@[simp] theorem begin_run (tid : Nat) (op : Op) : (begin tid op).2.getD [] = [] := by
  cases op <;> rfl

theorem startNext_ok {n tid : Nat} {t : Thread} (h : ∀ op ∈ t.prog, op.ok n tid) : TOk n tid (startNext tid t) := by
  unfold startNext
  split
  · exact ⟨by simp, by simp_all⟩
  · rename_i op rest hp
    rw [hp] at h
    refine ⟨?_, fun o ho => h o (List.mem_cons_of_mem _ ho)⟩
    intro pc hpc
    simp at hpc; rw [← hpc]; exact begin_ok (h op List.mem_cons_self)

theorem startNext_acct (tid : Nat) (t : Thread) (y : Nat) :
    (startNext tid t).held.count y + (startNext tid t).returned.count y = (t.results.flatMap Res.items).count y := by
  unfold startNext
  split <;> simp [Thread.held, Thread.returned]

theorem applyNext_ok {n tid : Nat} {t : Thread} {nx : Next} (h : TOk n tid t) (hnx : nx.ok n tid) :
    TOk n tid (applyNext tid t nx) := by
  cases nx with
  | goto pc => exact ⟨by intro p hp; simp [applyNext] at hp; rw [← hp]; exact hnx, h.prog⟩
  | ret r =>
    simp only [applyNext]; split <;> exact startNext_ok h.prog
  | retTake w x =>
    simp only [applyNext]; split
    · exact startNext_ok h.prog
    · exact ⟨by intro p hp; simp at hp; rw [← hp]; exact ⟨hnx.1, hnx.2.1⟩, h.prog⟩
  | blocked => exact h

theorem applyNext_acct {n : Nat} (tid : Nat) (t : Thread) (pc : PC) (hpc : t.pc = some pc) (nx : Next)
    (hnx : nx.ok n tid) (y : Nat) :
    (applyNext tid t nx).held.count y + (applyNext tid t nx).returned.count y
      = (nx.held pc).count y + t.returned.count y := by
  cases nx with
  | goto pc' => simp [applyNext, Thread.held, Thread.returned, Next.held]
  | ret r =>
    have hr : r.items = [] := by cases r <;> simp_all [Next.ok, Res.items]
    simp only [applyNext]
    split
    · rename_i hrun
      rw [finishOp, startNext_acct]
      simp [Thread.returned, hrun, Next.held, hr]
    · rename_i acc hrun
      rw [finishOp, startNext_acct]
      simp [Thread.returned, hrun, Next.held, Res.items]
      omega
  | retTake w x =>
    simp only [applyNext]
    split
    · rename_i hrun
      rw [finishOp, startNext_acct]
      simp [Thread.returned, hrun, Next.held, Res.items, List.count_cons]
      omega
    · rename_i acc hrun
      simp [Thread.held, PC.held, Thread.returned, hrun, Next.held, List.count_cons]
      omega
  | blocked => simp [applyNext, Thread.held, Next.held, hpc]

/-! ### configurations -/

/-- reachability by ANY schedule: the scheduler may pick any thread id at every step -/
inductive Reachable (c0 : Cfg) : Cfg → Prop where
  | init : Reachable c0 c0
  | step (c : Cfg) (tid : Nat) : Reachable c0 c → Reachable c0 (step c tid).2

structure CInv (n : Nat) (c : Cfg) : Prop where
  sinv : SInv c.sh
  len : c.sh.locals.length = n
  tok : ∀ tid t, c.threads[tid]? = some t → TOk n tid t
  /-- every item removed from a ring is held by exactly one thread or was returned exactly once -/
  acct : ∀ y, c.sh.taken.count y = (c.threads.map fun t => t.held.count y + t.returned.count y).sum

theorem step_cinv {n : Nat} {c : Cfg} (h : CInv n c) (tid : Nat) : CInv n (step c tid).2 := by
  unfold step
  split
  · exact h
  · rename_i t ht
    split
    · exact h
    · rename_i pc hpc
      have htok := h.tok tid t ht
      have hlt : tid < c.threads.length := (List.getElem?_eq_some_iff.mp ht).1
      have hget : c.threads[tid] = t := (List.getElem?_eq_some_iff.mp ht).2
      obtain ⟨e1, e2, e3⟩ := exec_ok h.sinv h.len (htok.pc pc hpc)
      refine ⟨e1, e3, ?_, ?_⟩
      · intro tid' t' ht'
        by_cases e : tid = tid'
        · subst e
          simp only [List.getElem?_set_self hlt, Option.some.injEq] at ht'
          rw [← ht']; exact applyNext_ok htok e2
        · simp only [List.getElem?_set_ne e] at ht'
          exact h.tok tid' t' ht'
      · intro y
        have hs := sum_map_set (fun t : Thread => t.held.count y + t.returned.count y) c.threads tid hlt
          (applyNext tid t (exec c.sh tid pc).2)
        have ha := applyNext_acct tid t pc hpc (exec c.sh tid pc).2 e2 y
        have ht := exec_taken h.sinv (htok.pc pc hpc) y
        have hacct := h.acct y
        have hh : t.held = pc.held := by simp [Thread.held, hpc]
        simp only [hget, hh] at hs
        simp only
        omega

theorem reachable_cinv {n : Nat} {c0 c : Cfg} (h0 : CInv n c0) (hr : Reachable c0 c) : CInv n c := by
  induction hr with
  | init => exact h0
  | step c tid _ ih => exact step_cinv ih tid

/-! ### the initial configuration -/

/-- thread `tid` runs program `progs[tid]`; only workers (`tid < n`) may take / push locally -/
def ProgsOk (n : Nat) (progs : List (List Op)) : Prop :=
  ∀ (tid : Nat) (p : List Op), progs[tid]? = some p → ∀ op ∈ p, Op.ok n tid op

theorem mkThreads_get (progs : List (List Op)) : ∀ (k tid : Nat) (t : Thread),
    (mkThreads k progs)[tid]? = some t → ∃ p, progs[tid]? = some p ∧ t = mkThread (k + tid) p := by
  induction progs with
  | nil => intro k tid t h; simp [mkThreads] at h
  | cons p ps ih =>
    intro k tid t h
    cases tid with
    | zero => simp [mkThreads] at h; exact ⟨p, by simp, by simp [h]⟩
    | succ j =>
      simp [mkThreads] at h
      obtain ⟨q, hq, e⟩ := ih (k + 1) j t h
      exact ⟨q, by simpa using hq, by rw [e]; congr 1; omega⟩

theorem mkThreads_acct (progs : List (List Op)) (y : Nat) : ∀ k,
    ((mkThreads k progs).map fun t => t.held.count y + t.returned.count y).sum = 0 := by
  induction progs with
  | nil => intro k; simp [mkThreads]
  | cons p ps ih =>
    intro k
    simp only [mkThreads, List.map_cons, List.sum_cons, ih]
    have := startNext_acct k { pc := none, prog := p, results := [], run := none } y
    simpa [mkThread] using this

theorem initShared_sinv (n : Nat) : SInv (initShared n) := by
  refine ⟨?_, Ring.empty_wf (by decide), ?_, ?_, by simp [initShared]⟩
  · intro r hr
    simp [Shared.rings, initShared] at hr
    rw [hr.2]; exact Ring.empty_wf (by decide)
  · intro x
    simp [Shared.cnt, Shared.rings, initShared]
  · intro r hr
    simp [Shared.rings, initShared] at hr
    rw [hr.2]; simp

theorem init_cinv {n : Nat} {progs : List (List Op)} (hp : ProgsOk n progs) : CInv n (init n progs) := by
  refine ⟨initShared_sinv n, by simp [init, initShared], ?_, ?_⟩
  · intro tid t ht
    obtain ⟨p, hp', e⟩ := mkThreads_get progs 0 tid t ht
    rw [e, Nat.zero_add]
    exact startNext_ok (hp tid p hp')
  · intro y
    simp only [init, mkThreads_acct progs y 0]
    simp [initShared]

end GoaktVerif.Model.C05

/-
C05 — local-ring invariant for whole configurations.
-/
import GoaktVerif.Lemmas.C05.LocalOwn

namespace GoaktVerif.Model.C05

structure LInv (n : Nat) (c : Cfg) : Prop where
  /-- unless owner `i` is inside an adding critical section, `sizeAtomic` covers ring `i` -/
  m : ∀ i, i < n → (∀ pc, c.pcOf i = some pc → pc.adding = false) →
        (c.sh.getL i).ring.size ≤ (c.sh.getL i).sizeAtomic
  /-- a worker past `popFront` in its current `take` has an empty ring -/
  l : ∀ i pc, i < n → c.pcOf i = some pc → pc.idle = true → (c.sh.getL i).ring.size = 0

theorem parkLoop_blocked (s : Shared) (w : Nat) : (parkLoop s w).2 ≠ .blocked := (parkLoop_cond s w).2.2.2

theorem exec_blocked (s : Shared) (tid : Nat) (pc : PC) : (exec s tid pc).2 = .blocked → (exec s tid pc).1 = s := by
  cases pc <;> simp only [exec] <;> (try split) <;> (try split) <;> (try split) <;> intro h <;>
    first
    | rfl
    | (exfalso; exact parkLoop_blocked _ _ h)
    | (exfalso; revert h; first | (unfold stealStart; split <;> simp) | (unfold stealNext; split <;> simp) | simp)
    | simp_all

theorem begin_plain (tid : Nat) (op : Op) : (begin tid op).1.adding = false ∧ (begin tid op).1.idle = false := by
  cases op <;> exact ⟨rfl, rfl⟩

theorem startNext_plain (tid : Nat) (t : Thread) (p : PC) (h : (startNext tid t).pc = some p) :
    p.adding = false ∧ p.idle = false := by
  unfold startNext at h
  split at h
  · simp at h
  · simp at h; rw [← h]; exact begin_plain _ _

theorem applyNext_plain (tid : Nat) (t : Thread) (nx : Next) (hg : ∀ pc', nx ≠ .goto pc') (hb : nx ≠ .blocked)
    (p : PC) (h : (applyNext tid t nx).pc = some p) : p.adding = false ∧ p.idle = false := by
  cases nx with
  | goto pc' => exact absurd rfl (hg pc')
  | blocked => exact absurd rfl hb
  | ret r => simp only [applyNext] at h; split at h <;> exact startNext_plain _ _ _ h
  | retTake w x =>
    simp only [applyNext] at h; split at h
    · exact startNext_plain _ _ _ h
    · simp at h; rw [← h]; exact ⟨rfl, rfl⟩

theorem step_linv {n : Nat} {c : Cfg} (hc : CInv n c) (h : LInv n c) (tid : Nat) : LInv n (step c tid).2 := by
  unfold step
  split
  · exact h
  · rename_i t ht
    split
    · exact h
    · rename_i pc hpc
      have hlt : tid < c.threads.length := (List.getElem?_eq_some_iff.mp ht).1
      have hpcOf : c.pcOf tid = some pc := by simp [Cfg.pcOf, ht, hpc]
      have hok := (hc.tok tid t ht).pc pc hpc
      have hother_lem := @exec_other c.sh n tid pc hc.len hok
      have hown := @exec_own c.sh n tid pc hc.len hok
      have hblk := exec_blocked c.sh tid pc
      generalize hex : exec c.sh tid pc = r at hother_lem hown hblk
      obtain ⟨s', nx⟩ := r
      simp only at hother_lem hown hblk ⊢
      have hself := pcOf_set_self (s' := s') c tid (applyNext tid t nx) hlt
      have hother : ∀ u, tid ≠ u → Cfg.pcOf { sh := s', threads := c.threads.set tid (applyNext tid t nx) } u = c.pcOf u :=
        fun u hu => pcOf_set_ne (s' := s') c tid u _ hu
      -- facts about the stepping thread's own ring, available when it is a worker
      have own : tid < n → nx.post s' tid := fun hi =>
        hown (fun ha => h.m tid hi (fun p hp => by rw [hpcOf] at hp; cases hp; exact ha))
             (fun hl => h.l tid pc hi hpcOf hl)
      refine ⟨?_, ?_⟩
      · intro i hi hadd
        by_cases e : tid = i
        · subst e
          rw [hself] at hadd
          have post := own hi
          cases nx with
          | goto pc' => exact post.1 (hadd pc' rfl)
          | blocked =>
            rw [hblk rfl]
            apply h.m tid hi
            intro p hp; rw [hpcOf] at hp; cases hp
            exact hadd pc (by simp [applyNext, hpc])
          | ret r => exact post
          | retTake w x => exact post
        · rw [hother i e] at hadd
          have := h.m i hi hadd
          show (s'.getL i).ring.size ≤ (s'.getL i).sizeAtomic
          obtain ⟨a, b | b⟩ := hother_lem i e
          · omega
          · omega
      · intro i p hi hp hidle
        by_cases e : tid = i
        · subst e
          rw [hself] at hp
          have post := own hi
          cases nx with
          | goto pc' => simp [applyNext] at hp; subst hp; exact post.2 hidle
          | blocked =>
            rw [hblk rfl]
            simp [applyNext, hpc] at hp; subst hp
            exact h.l tid pc hi hpcOf hidle
          | ret r =>
            have := (applyNext_plain tid t (.ret r) (by intro _ h; cases h) (by intro h; cases h) p hp).2
            simp [hidle] at this
          | retTake w x =>
            have := (applyNext_plain tid t (.retTake w x) (by intro _ h; cases h) (by intro h; cases h) p hp).2
            simp [hidle] at this
        · rw [hother i e] at hp
          have := h.l i p hi hp hidle
          have := (hother_lem i e).1
          show (s'.getL i).ring.size = 0
          omega

theorem init_linv (n : Nat) (progs : List (List Op)) : LInv n (init n progs) := by
  have hz : ∀ i, ((init n progs).sh.getL i).ring.size = 0 := by
    intro i
    simp only [init, initShared, Shared.getL, List.getD_eq_getElem?_getD]
    cases hq : (List.replicate n ({ ring := Ring.empty localQueueCap, sizeAtomic := 0, mu := none } : LocalQ))[i]? with
    | none => rfl
    | some q =>
      have := List.mem_replicate.mp (List.mem_of_getElem? hq)
      simp [this.2, Ring.empty]
  exact ⟨fun i _ _ => by rw [hz]; exact Nat.zero_le _, fun i _ _ _ _ => hz i⟩

theorem reachable_linv {n : Nat} {progs : List (List Op)} (hp : ProgsOk n progs) {c : Cfg}
    (hr : Reachable (init n progs) c) : LInv n c := by
  induction hr with
  | init => exact init_linv n progs
  | step c tid hr' ih => exact step_linv (reachable_cinv (init_cinv hp) hr') ih tid

end GoaktVerif.Model.C05

/-
C05 — conservation at the level of the shared state: every transition of `exec` keeps
  count x pushed = count x taken + (number of x in all rings)
and the shape invariants of all rings.
-/
import GoaktVerif.Model.C05.Queue
import GoaktVerif.Lemmas.C05.Ring

namespace GoaktVerif.Model.C05

/-! ### list helpers -/

theorem sum_map_set {α : Type} (f : α → Nat) : ∀ (l : List α) (i : Nat) (h : i < l.length) (a : α),
    ((l.set i a).map f).sum + f l[i] = (l.map f).sum + f a := by
  intro l
  induction l with
  | nil => intro i h; simp at h
  | cons b t ih =>
    intro i h a
    cases i with
    | zero => simp; omega
    | succ j =>
      have := ih j (by simpa using h) a
      simp at this ⊢; omega

/-! ### rings of the shared state -/

def Shared.rings (s : Shared) : List Ring := s.locals.map (·.ring)

/-- number of occurrences of `x` in all rings -/
def Shared.cnt (s : Shared) (x : Nat) : Nat :=
  (s.rings.map fun r => r.toList.count x).sum + s.global.toList.count x

@[simp] theorem setL_locals_length (s : Shared) (w : Nat) (q : LocalQ) :
    (s.setL w q).locals.length = s.locals.length := by simp [Shared.setL]

theorem rings_length (s : Shared) : s.rings.length = s.locals.length := by simp [Shared.rings]

theorem rings_setL (s : Shared) (w : Nat) (q : LocalQ) :
    (s.setL w q).rings = s.rings.set w q.ring := by simp [Shared.setL, Shared.rings, List.map_set]

theorem getL_ring (s : Shared) (w : Nat) (h : w < s.locals.length) :
    (s.getL w).ring = s.rings[w]'(by rw [rings_length]; exact h) := by
  simp [Shared.getL, Shared.rings, List.getD_eq_getElem?_getD, List.getElem?_eq_getElem h]

theorem getL_setL_same (s : Shared) (w : Nat) (q : LocalQ) (h : w < s.locals.length) :
    (s.setL w q).getL w = q := by
  simp [Shared.getL, Shared.setL, List.getD_eq_getElem?_getD, h]

theorem getL_setL_ne (s : Shared) (w v : Nat) (q : LocalQ) (h : w ≠ v) :
    (s.setL w q).getL v = s.getL v := by
  simp [Shared.getL, Shared.setL, List.getD_eq_getElem?_getD, List.getElem?_set_ne h]

/-- replacing a local queue by one with the same ring does not change the rings -/
theorem rings_setL_same (s : Shared) (w : Nat) (q : LocalQ) (h : q.ring = (s.getL w).ring) :
    (s.setL w q).rings = s.rings := by
  rw [rings_setL]
  apply List.ext_getElem?
  intro i
  by_cases hi : w = i
  · subst hi
    by_cases hl : w < s.locals.length
    · have hl' : w < s.rings.length := by rw [rings_length]; exact hl
      simp [hl', h, getL_ring s w hl]
    · have hl' : ¬ w < s.rings.length := by rw [rings_length]; exact hl
      rw [List.set_eq_of_length_le (by omega)]
  · simp [List.getElem?_set_ne hi]

structure SInv (s : Shared) : Prop where
  lwf : ∀ r ∈ s.rings, r.WF
  gwf : s.global.WF
  cons : ∀ x, s.pushed.count x = s.taken.count x + s.cnt x
  lnz : ∀ r ∈ s.rings, 0 ∉ r.toList
  gnz : 0 ∉ s.global.toList

/-- SInv only looks at the rings and the two ghost logs -/
theorem SInv.congr {s s' : Shared} (h : SInv s) (hr : s'.rings = s.rings) (hg : s'.global = s.global)
    (hp : s'.pushed = s.pushed) (ht : s'.taken = s.taken) : SInv s' := by
  obtain ⟨a, b, c, d, e⟩ := h
  refine ⟨by rw [hr]; exact a, by rw [hg]; exact b, ?_, by rw [hr]; exact d, by rw [hg]; exact e⟩
  intro x; unfold Shared.cnt; rw [hp, ht, hr, hg]; exact c x

theorem cnt_set (s s' : Shared) (w : Nat) (h : w < s.locals.length) (r : Ring) (x : Nat)
    (hr : s'.rings = s.rings.set w r) (hg : s'.global = s.global) :
    s'.cnt x + (s.getL w).ring.toList.count x = s.cnt x + r.toList.count x := by
  unfold Shared.cnt
  rw [hr, hg, getL_ring s w h]
  have := sum_map_set (fun r : Ring => r.toList.count x) s.rings w (by rw [rings_length]; exact h) r
  omega

theorem getL_ring_mem (s : Shared) (w : Nat) (h : w < s.locals.length) : (s.getL w).ring ∈ s.rings := by
  rw [getL_ring s w h]; exact List.getElem_mem _

theorem mem_set_rings {l : List Ring} {w : Nat} {r q : Ring} (h : q ∈ l.set w r) : q = r ∨ q ∈ l := by
  rcases List.mem_or_eq_of_mem_set h with h | h
  · exact Or.inr h
  · exact Or.inl h

/-- a local push keeps the invariant -/
theorem SInv.localPush {s s' : Shared} (h : SInv s) (w x : Nat) (hw : w < s.locals.length) (hx : x ≠ 0)
    (hfull : (s.getL w).ring.size ≠ (s.getL w).ring.cap)
    (hr : s'.rings = s.rings.set w ((s.getL w).ring.pushRaw x)) (hg : s'.global = s.global)
    (hp : s'.pushed = x :: s.pushed) (ht : s'.taken = s.taken) : SInv s' := by
  have hwf := h.lwf _ (getL_ring_mem s w hw)
  have hlt : (s.getL w).ring.size < (s.getL w).ring.cap := by have := hwf.size_le; omega
  refine ⟨?_, by rw [hg]; exact h.gwf, ?_, ?_, by rw [hg]; exact h.gnz⟩
  · intro r hr'; rw [hr] at hr'
    rcases mem_set_rings hr' with e | e
    · rw [e]; exact Ring.pushRaw_wf x hwf hlt
    · exact h.lwf r e
  · intro y
    have := cnt_set s s' w hw _ y hr hg
    rw [Ring.pushRaw_toList x hwf hlt, List.count_append] at this
    have hc := h.cons y
    rw [hp, ht, List.count_cons]
    simp only [List.count_cons, List.count_nil] at this
    by_cases e : x = y <;> simp [e] at this ⊢ <;> omega
  · intro r hr'; rw [hr] at hr'
    rcases mem_set_rings hr' with e | e
    · rw [e, Ring.pushRaw_toList x hwf hlt]
      have := h.lnz _ (getL_ring_mem s w hw)
      simp [this]; omega
    · exact h.lnz r e

/-- a local pop keeps the invariant, and the popped item is not nil -/
theorem SInv.localPop {s s' : Shared} (h : SInv s) (w : Nat) (hw : w < s.locals.length)
    (hne : (s.getL w).ring.size ≠ 0)
    (hr : s'.rings = s.rings.set w (s.getL w).ring.popRaw.2) (hg : s'.global = s.global)
    (hp : s'.pushed = s.pushed) (ht : s'.taken = (s.getL w).ring.popRaw.1 :: s.taken) :
    SInv s' ∧ (s.getL w).ring.popRaw.1 ≠ 0 := by
  have hwf := h.lwf _ (getL_ring_mem s w hw)
  have hpos : 0 < (s.getL w).ring.size := by omega
  have hl := Ring.popRaw_toList hwf hpos
  have hnz := h.lnz _ (getL_ring_mem s w hw)
  rw [hl] at hnz
  refine ⟨⟨?_, by rw [hg]; exact h.gwf, ?_, ?_, by rw [hg]; exact h.gnz⟩, ?_⟩
  · intro r hr'; rw [hr] at hr'
    rcases mem_set_rings hr' with e | e
    · rw [e]; exact Ring.popRaw_wf hwf hpos
    · exact h.lwf r e
  · intro y
    have := cnt_set s s' w hw _ y hr hg
    rw [hl, List.count_cons] at this
    have hc := h.cons y
    rw [hp, ht, List.count_cons]
    omega
  · intro r hr'; rw [hr] at hr'
    rcases mem_set_rings hr' with e | e
    · rw [e]; intro h0; exact hnz (List.mem_cons_of_mem _ h0)
    · exact h.lnz r e
  · intro h0; apply hnz; rw [h0]; exact List.mem_cons_self

theorem SInv.globalPush {s s' : Shared} (h : SInv s) (x : Nat) (hx : x ≠ 0)
    (hr : s'.rings = s.rings) (hg : s'.global = s.global.gpush x)
    (hp : s'.pushed = x :: s.pushed) (ht : s'.taken = s.taken) : SInv s' := by
  refine ⟨by rw [hr]; exact h.lwf, by rw [hg]; exact Ring.gpush_wf x h.gwf, ?_, by rw [hr]; exact h.lnz, ?_⟩
  · intro y
    have hc := h.cons y
    unfold Shared.cnt at hc ⊢
    rw [hp, ht, hr, hg, Ring.gpush_toList x h.gwf, List.count_append, List.count_cons]
    simp only [List.count_cons, List.count_nil]
    by_cases e : x = y <;> simp [e] <;> omega
  · rw [hg, Ring.gpush_toList x h.gwf]
    have := h.gnz
    simp [this]; omega

theorem SInv.globalPop {s s' : Shared} (h : SInv s) (hne : s.global.size ≠ 0)
    (hr : s'.rings = s.rings) (hg : s'.global = s.global.gpop.2)
    (hp : s'.pushed = s.pushed) (ht : s'.taken = s.global.gpop.1 :: s.taken) :
    SInv s' ∧ s.global.gpop.1 ≠ 0 := by
  have hpos : 0 < s.global.size := by omega
  rw [Ring.gpop_of_pos hpos] at hg ht ⊢
  have hl := Ring.popRaw_toList h.gwf hpos
  have hnz := h.gnz
  rw [hl] at hnz
  refine ⟨⟨by rw [hr]; exact h.lwf, by rw [hg]; exact Ring.popRaw_wf h.gwf hpos, ?_, by rw [hr]; exact h.lnz, ?_⟩, ?_⟩
  · intro y
    have hc := h.cons y
    unfold Shared.cnt at hc ⊢
    rw [hp, ht, hr, hg, List.count_cons]
    rw [hl, List.count_cons] at hc
    omega
  · rw [hg]; intro h0; exact hnz (List.mem_cons_of_mem _ h0)
  · intro h0; apply hnz; rw [h0]; exact List.mem_cons_self

end GoaktVerif.Model.C05

namespace GoaktVerif.Model.C05

/-- `stealHalf` between two distinct local rings keeps the invariant, and the returned head is not nil -/
theorem SInv.steal {s s' : Shared} (h : SInv s) (v w : Nat) (hv : v < s.locals.length) (hw : w < s.locals.length)
    (hvw : v ≠ w) (hne : (s.getL v).ring.size ≠ 0)
    (hr : s'.rings = (s.rings.set v (Ring.stealHalf (s.getL v).ring (s.getL w).ring).2.1).set w
                        (Ring.stealHalf (s.getL v).ring (s.getL w).ring).2.2)
    (hg : s'.global = s.global) (hp : s'.pushed = s.pushed)
    (ht : s'.taken = (Ring.stealHalf (s.getL v).ring (s.getL w).ring).1 :: s.taken) :
    SInv s' ∧ (Ring.stealHalf (s.getL v).ring (s.getL w).ring).1 ≠ 0 := by
  have hqv := h.lwf _ (getL_ring_mem s v hv)
  have hqw := h.lwf _ (getL_ring_mem s w hw)
  have hnzv := h.lnz _ (getL_ring_mem s v hv)
  have hnzw := h.lnz _ (getL_ring_mem s w hw)
  obtain ⟨w1, w2, _, _, mv, e1, e2, _⟩ := Ring.stealHalf_spec hqv hqw (by omega)
  generalize Ring.stealHalf (s.getL v).ring (s.getL w).ring = res at *
  obtain ⟨hd, qr, dr⟩ := res
  simp only at w1 w2 e1 e2 hr ht ⊢
  -- intermediate state: only the victim replaced
  let s1 := s.setL v { s.getL v with ring := qr }
  have hr1 : s1.rings = s.rings.set v qr := rings_setL s v _
  have hw1 : (s1.getL w).ring = (s.getL w).ring := by rw [getL_setL_ne s v w _ hvw]
  have hlen1 : w < s1.locals.length := by simpa [s1] using hw
  rw [e1] at hnzv
  refine ⟨⟨?_, by rw [hg]; exact h.gwf, ?_, ?_, by rw [hg]; exact h.gnz⟩, ?_⟩
  · intro r hr'; rw [hr] at hr'
    rcases mem_set_rings hr' with e | e
    · rw [e]; exact w2
    · rcases mem_set_rings e with e | e
      · rw [e]; exact w1
      · exact h.lwf r e
  · intro y
    have c1 := cnt_set s s1 v hv qr y hr1 rfl
    have c2 := cnt_set s1 s' w hlen1 dr y (by rw [hr, hr1]) (by rw [hg]; rfl)
    rw [hw1] at c2
    rw [e1] at c1
    rw [e2] at c2
    simp only [List.count_append, List.count_cons] at c1 c2
    have hc := h.cons y
    rw [hp, ht, List.count_cons]
    omega
  · intro r hr'; rw [hr] at hr'
    rcases mem_set_rings hr' with e | e
    · rw [e, e2]; intro h0
      rcases List.mem_append.mp h0 with h0 | h0
      · exact hnzw h0
      · exact hnzv (by simp [h0])
    · rcases mem_set_rings e with e | e
      · rw [e]; intro h0; exact hnzv (by simp [h0])
      · exact h.lnz r e
  · intro h0; apply hnzv; rw [h0]; simp

end GoaktVerif.Model.C05

/-
C05 — parking protocol: `parkMu`, the `parked` counter, the condition variable's waiters and the
pending wake-ups, as a function of the shared state and of the program counter of the thread
that holds `parkMu` (`hp`).
-/
import GoaktVerif.Model.C05.Queue
import GoaktVerif.Lemmas.C05.Ring

namespace GoaktVerif.Model.C05

/-- sites at which the thread holds `parkMu` -/
def PC.holdsPark : PC → Bool
  | .pushStore => true | .pushSignal => true | .tkStoreGlobal _ _ => true
  | .pkStore _ _ => true | .pkWait _ => true | .clBroadcast => true
  | _ => false

def isWait : Option PC → Bool
  | some (.pkWait _) => true
  | _ => false

def inPush : Option PC → Bool
  | some .pushStore => true
  | some .pushSignal => true
  | _ => false

def b2n (b : Bool) : Nat := if b then 1 else 0

/-- invariant of the parking protocol; `hp` = program counter of the holder of `parkMu` -/
structure VInv (s : Shared) (hp : Option PC) : Prop where
  v0 : s.parkMu.isSome = hp.isSome
  v1 : ∀ pc, hp = some pc → pc.holdsPark = true
  /-- `parked` counts exactly: the thread about to wait + the waiters + the woken-but-not-yet-running -/
  p2 : s.parked = b2n (isWait hp) + s.waiters.length + s.signalled.length
  /-- a thread only goes to wait having seen, under the lock, an empty global queue that is not closed -/
  p3 : isWait hp = true → s.global.size = 0 ∧ s.closed = false
  /-- NO LOST SIGNAL: while some worker waits un-signalled, every queued item is covered by a pending
      wake-up or by the pusher that still holds `parkMu` and is about to signal -/
  p4 : s.waiters ≠ [] → s.global.size ≤ s.signalled.length + b2n (inPush hp)
  /-- after close nobody waits un-signalled (except during the closing critical section itself) -/
  p7 : s.closed = true → s.waiters = [] ∨ hp = some .clBroadcast

def newHP (pc : PC) (hp : Option PC) : Next → Option PC
  | .goto pc' => if pc'.holdsPark then some pc' else if pc.holdsPark then none else hp
  | .blocked => hp
  | _ => if pc.holdsPark then none else hp

def newMu (pc : PC) (mu : Option Nat) (tid : Nat) : Next → Option Nat
  | .goto pc' => if pc'.holdsPark then some tid else if pc.holdsPark then none else mu
  | .blocked => mu
  | _ => if pc.holdsPark then none else mu

/-- the fields the parking protocol talks about -/
def Shared.parkView (s : Shared) : Option Nat × Nat × List Nat × List Nat × Nat × Bool :=
  (s.parkMu, s.parked, s.waiters, s.signalled, s.global.size, s.closed)

theorem VInv.congr {s s' : Shared} {hp : Option PC} (h : VInv s hp) (e : s'.parkView = s.parkView) : VInv s' hp := by
  simp only [Shared.parkView, Prod.mk.injEq] at e
  obtain ⟨e1, e2, e3, e4, e5, e6⟩ := e
  obtain ⟨a, b, c, d, f, g⟩ := h
  exact ⟨by rw [e1]; exact a, b, by rw [e2, e3, e4]; exact c, by rw [e5, e6]; exact d,
    by rw [e3, e4, e5]; exact f, by rw [e3, e6]; exact g⟩

@[simp] theorem setL_parkView (s : Shared) (w : Nat) (q : LocalQ) : (s.setL w q).parkView = s.parkView := rfl

theorem stealNext_nh (n w i : Nat) : ∃ pc, stealNext n w i = .goto pc ∧ pc.holdsPark = false := by
  unfold stealNext; split <;> exact ⟨_, rfl, rfl⟩
theorem stealStart_nh (n w : Nat) : ∃ pc, stealStart n w = .goto pc ∧ pc.holdsPark = false := by
  unfold stealStart; split <;> exact ⟨_, rfl, rfl⟩

/-- a transition that does not touch the parking state and ends at a site not holding `parkMu` -/
theorem vinv_neutral {s s' : Shared} {hp : Option PC} {pc : PC} {tid : Nat} {nx : Next} (h : VInv s hp)
    (hpc : pc.holdsPark = false) (e : s'.parkView = s.parkView)
    (hnx : nx = .blocked ∨ (∃ r, nx = .ret r) ∨ (∃ w x, nx = .retTake w x) ∨ ∃ pc', nx = .goto pc' ∧ pc'.holdsPark = false) :
    VInv s' (newHP pc hp nx) ∧ s'.parkMu = newMu pc s.parkMu tid nx := by
  have e1 : s'.parkMu = s.parkMu := by
    have := congrArg Prod.fst e; exact this
  rcases hnx with rfl | ⟨r, rfl⟩ | ⟨w, x, rfl⟩ | ⟨pc', rfl, hh⟩
  · exact ⟨h.congr e, by simp [newMu, e1]⟩
  · exact ⟨by simpa [newHP, hpc] using h.congr e, by simp [newMu, hpc, e1]⟩
  · exact ⟨by simpa [newHP, hpc] using h.congr e, by simp [newMu, hpc, e1]⟩
  · exact ⟨by simpa [newHP, hpc, hh] using h.congr e, by simp [newMu, hpc, hh, e1]⟩

/-- the loop of parkAndTake entered with `parkMu` just taken by `tid` (nobody else can be the holder) -/
theorem parkLoop_vinv {s1 : Shared} {tid w : Nat} {pc : PC} (hpc : pc.holdsPark = false)
    (hmu : s1.parkMu = some tid)
    (q2 : s1.parked = s1.waiters.length + s1.signalled.length)
    (q4 : s1.waiters ≠ [] → s1.global.size ≤ s1.signalled.length + 1)
    (q7 : s1.closed = true → s1.waiters = []) :
    VInv (parkLoop s1 w).1 (newHP pc none (parkLoop s1 w).2) ∧
      (parkLoop s1 w).1.parkMu = newMu pc none tid (parkLoop s1 w).2 := by
  unfold parkLoop
  split
  · rename_i hc
    refine ⟨⟨by simp [newHP, hpc], by simp [newHP, hpc], by simpa [newHP, hpc, isWait, b2n] using q2,
      by simp [newHP, hpc, isWait], ?_, ?_⟩, by simp [newMu, hpc]⟩
    · intro hw; exact absurd (q7 hc) hw
    · intro _; exact Or.inl (q7 hc)
  · rename_i hc
    split
    · rename_i hpos
      have hsz : s1.global.gpop.2.size = s1.global.size - 1 := by
        unfold Ring.gpop; rw [if_neg (by omega)]; rfl
      refine ⟨⟨by simp [newHP, PC.holdsPark, hmu], by simp [newHP, PC.holdsPark],
        by simpa [newHP, PC.holdsPark, isWait, b2n] using q2, by simp [newHP, PC.holdsPark, isWait], ?_, ?_⟩,
        by simp [newMu, PC.holdsPark, hmu]⟩
      · intro hw
        have := q4 hw
        simp only [newHP, PC.holdsPark, if_true, inPush, b2n, hsz]
        simp; omega
      · intro h; simp [hc] at h
    · rename_i hz
      refine ⟨⟨by simp [newHP, PC.holdsPark, hmu], by simp [newHP, PC.holdsPark],
        by simp [newHP, PC.holdsPark, isWait, b2n, q2]; omega, ?_, ?_, ?_⟩,
        by simp [newMu, PC.holdsPark, hmu]⟩
      · intro _; show s1.global.size = 0 ∧ s1.closed = false
        exact ⟨by omega, by simpa using hc⟩
      · intro _; show s1.global.size ≤ _; have : s1.global.size = 0 := by omega
        rw [this]; exact Nat.zero_le _
      · intro h; simp [hc] at h

theorem hp_none_of_free {s : Shared} {hp : Option PC} (h : VInv s hp) (hf : ¬ s.parkMu.isSome = true) :
    hp = none ∧ s.parkMu = none := by
  have := h.v0
  cases hm : s.parkMu <;> cases hhp : hp <;> simp_all

/-- every transition keeps the parking invariant; `newHP`/`newMu` say who holds `parkMu` afterwards -/
theorem exec_vinv {s : Shared} {hp : Option PC} {tid : Nat} {pc : PC} (h : VInv s hp)
    (hh : pc.holdsPark = true → hp = some pc ∧ s.parkMu = some tid) :
    VInv (exec s tid pc).1 (newHP pc hp (exec s tid pc).2) ∧
      (exec s tid pc).1.parkMu = newMu pc s.parkMu tid (exec s tid pc).2 := by
  cases pc with
  | pushLock x =>
    simp only [exec]; split
    · exact vinv_neutral h rfl rfl (Or.inl rfl)
    · rename_i hf
      obtain ⟨rfl, hm⟩ := hp_none_of_free h hf
      obtain ⟨v0, v1, p2, p3, p4, p7⟩ := h
      refine ⟨⟨by simp [newHP, PC.holdsPark], by simp [newHP, PC.holdsPark], by simpa [newHP, PC.holdsPark, isWait] using p2,
        by simp [newHP, PC.holdsPark, isWait], ?_, ?_⟩, by simp [newMu, PC.holdsPark]⟩
      · intro hw
        have := p4 hw
        simp [b2n, inPush] at this
        show (s.global.gpush x).size ≤ _
        rw [Ring.gpush_size]
        simp [newHP, PC.holdsPark, inPush, b2n]; omega
      · intro hc; exact Or.inl (by simpa using p7 hc)
  | pushStore =>
    obtain ⟨rfl, hm⟩ := hh rfl
    obtain ⟨v0, v1, p2, p3, p4, p7⟩ := h
    simp only [exec]; split
    · exact ⟨⟨by simpa [newHP, PC.holdsPark] using v0, by simp [newHP, PC.holdsPark],
        by simpa [newHP, PC.holdsPark, isWait] using p2, by simp [newHP, PC.holdsPark, isWait],
        by simpa [newHP, PC.holdsPark, inPush] using p4, by simpa [newHP, PC.holdsPark] using p7⟩,
        by simp [newMu, PC.holdsPark, hm]⟩
    · rename_i hz
      have hz : s.parked = 0 := by simpa using hz
      have hw : s.waiters = [] := by
        simp [isWait, b2n] at p2; cases hw : s.waiters <;> simp_all
      exact ⟨⟨by simp [newHP, PC.holdsPark], by simp [newHP, PC.holdsPark],
        by simpa [newHP, PC.holdsPark, isWait] using p2, by simp [newHP, PC.holdsPark, isWait],
        by intro h'; exact absurd hw h', by intro _; exact Or.inl hw⟩, by simp [newMu, PC.holdsPark]⟩
  | pushSignal =>
    obtain ⟨rfl, hm⟩ := hh rfl
    obtain ⟨v0, v1, p2, p3, p4, p7⟩ := h
    simp only [exec]; split
    · rename_i hw
      exact ⟨⟨by simp [newHP, PC.holdsPark], by simp [newHP, PC.holdsPark],
        by simpa [newHP, PC.holdsPark, isWait] using p2, by simp [newHP, PC.holdsPark, isWait],
        by intro h'; exact absurd hw h', by intro _; exact Or.inl hw⟩, by simp [newMu, PC.holdsPark]⟩
    · rename_i t ws hw
      refine ⟨⟨by simp [newHP, PC.holdsPark], by simp [newHP, PC.holdsPark], ?_, by simp [newHP, PC.holdsPark, isWait], ?_, ?_⟩,
        by simp [newMu, PC.holdsPark]⟩
      · simp [newHP, PC.holdsPark, isWait, b2n, hw] at p2 ⊢; omega
      · intro _
        have := p4 (by simp [hw])
        simp [newHP, PC.holdsPark, inPush, b2n] at this ⊢; omega
      · intro hc
        have := p7 hc
        simp [hw] at this
  | plLock w x =>
    simp only [exec]; split
    · exact vinv_neutral h rfl rfl (Or.inl rfl)
    · split
      · exact vinv_neutral h rfl rfl (Or.inr (Or.inr (Or.inr ⟨_, rfl, rfl⟩)))
      · exact vinv_neutral h rfl rfl (Or.inr (Or.inr (Or.inr ⟨_, rfl, rfl⟩)))
  | plStore w => simp only [exec]; exact vinv_neutral h rfl rfl (Or.inr (Or.inl ⟨_, rfl⟩))
  | tkLoadLocal w =>
    simp only [exec]; split <;> exact vinv_neutral h rfl rfl (Or.inr (Or.inr (Or.inr ⟨_, rfl, rfl⟩)))
  | tkLockLocal w =>
    simp only [exec]; split
    · exact vinv_neutral h rfl rfl (Or.inl rfl)
    · split <;> exact vinv_neutral h rfl rfl (Or.inr (Or.inr (Or.inr ⟨_, rfl, rfl⟩)))
  | tkStoreLocal w x =>
    simp only [exec]; split
    · exact vinv_neutral h rfl rfl (Or.inr (Or.inr (Or.inl ⟨_, _, rfl⟩)))
    · exact vinv_neutral h rfl rfl (Or.inr (Or.inr (Or.inr ⟨_, rfl, rfl⟩)))
  | tkLoadGlobal w =>
    simp only [exec]; split
    · exact vinv_neutral h rfl rfl (Or.inr (Or.inr (Or.inr (stealStart_nh _ _))))
    · exact vinv_neutral h rfl rfl (Or.inr (Or.inr (Or.inr ⟨_, rfl, rfl⟩)))
  | tkLockGlobal w =>
    simp only [exec]; split
    · exact vinv_neutral h rfl rfl (Or.inl rfl)
    · rename_i hf
      split
      · exact vinv_neutral h rfl rfl (Or.inr (Or.inr (Or.inr (stealStart_nh _ _))))
      · rename_i hne
        obtain ⟨rfl, hm⟩ := hp_none_of_free h hf
        obtain ⟨v0, v1, p2, p3, p4, p7⟩ := h
        have hsz : s.global.gpop.2.size = s.global.size - 1 := by
          unfold Ring.gpop; rw [if_neg hne]; rfl
        split
        · refine ⟨⟨by simp [newHP, PC.holdsPark], by simp [newHP, PC.holdsPark], by simpa [newHP, PC.holdsPark, isWait] using p2,
            by simp [newHP, PC.holdsPark, isWait], ?_, ?_⟩, by simp [newMu, PC.holdsPark]⟩
          · intro hw
            have := p4 hw
            simp [newHP, PC.holdsPark, inPush, b2n, hsz] at this ⊢; omega
          · intro hc; exact Or.inl (by simpa using p7 hc)
        · obtain ⟨pc', e, hnh⟩ := stealStart_nh s.locals.length w
          rw [e]
          have e1 : newHP (.tkLockGlobal w) none (.goto pc') = none := by
            simp [newHP, hnh]
          have e2 : newMu (.tkLockGlobal w) s.parkMu tid (.goto pc') = s.parkMu := by
            simp [newMu, hnh]; intro h; cases h
          rw [e1, e2]
          refine ⟨⟨v0, v1, p2, by intro h; simp [isWait] at h, ?_, p7⟩, rfl⟩
          intro hw
          have := p4 hw
          simp [inPush, b2n, hsz] at this ⊢; omega
  | tkStoreGlobal w x =>
    obtain ⟨rfl, hm⟩ := hh rfl
    obtain ⟨v0, v1, p2, p3, p4, p7⟩ := h
    simp only [exec]
    exact ⟨⟨by simp [newHP, PC.holdsPark], by simp [newHP, PC.holdsPark],
      by simpa [newHP, PC.holdsPark, isWait] using p2, by simp [newHP, PC.holdsPark, isWait],
      by simpa [newHP, PC.holdsPark, inPush] using p4, by simpa [newHP, PC.holdsPark] using p7⟩,
      by simp [newMu, PC.holdsPark]⟩
  | stLoad w i =>
    simp only [exec]; split
    · exact vinv_neutral h rfl rfl (Or.inr (Or.inr (Or.inr (stealNext_nh _ _ _))))
    · exact vinv_neutral h rfl rfl (Or.inr (Or.inr (Or.inr ⟨_, rfl, rfl⟩)))
  | stLock1 w i =>
    simp only [exec]; split
    · exact vinv_neutral h rfl rfl (Or.inl rfl)
    · exact vinv_neutral h rfl rfl (Or.inr (Or.inr (Or.inr ⟨_, rfl, rfl⟩)))
  | stLock2 w i =>
    simp only [exec]; split
    · exact vinv_neutral h rfl rfl (Or.inl rfl)
    · split
      · exact vinv_neutral h rfl rfl (Or.inr (Or.inr (Or.inr (stealNext_nh _ _ _))))
      · exact vinv_neutral h rfl rfl (Or.inr (Or.inr (Or.inr ⟨_, rfl, rfl⟩)))
  | stStore1 w i x => simp only [exec]; exact vinv_neutral h rfl rfl (Or.inr (Or.inr (Or.inr ⟨_, rfl, rfl⟩)))
  | stStore2 w i x =>
    simp only [exec]; split
    · exact vinv_neutral h rfl rfl (Or.inr (Or.inr (Or.inl ⟨_, _, rfl⟩)))
    · exact vinv_neutral h rfl rfl (Or.inr (Or.inr (Or.inr (stealNext_nh _ _ _))))
  | pkLock w =>
    simp only [exec]; split
    · exact vinv_neutral h rfl rfl (Or.inl rfl)
    · rename_i hf
      obtain ⟨rfl, hm⟩ := hp_none_of_free h hf
      obtain ⟨v0, v1, p2, p3, p4, p7⟩ := h
      have := parkLoop_vinv (s1 := { s with parkMu := some tid }) (tid := tid) (w := w) (pc := .pkLock w) rfl rfl
        (by simpa [isWait, b2n] using p2)
        (by intro hw; have := p4 hw; simp [inPush, b2n] at this; show s.global.size ≤ s.signalled.length + 1; omega)
        (by intro hc; simpa using p7 hc)
      rw [hm]; exact this
  | pkStore w x =>
    obtain ⟨rfl, hm⟩ := hh rfl
    obtain ⟨v0, v1, p2, p3, p4, p7⟩ := h
    simp only [exec]
    split
    · exact ⟨⟨by simp [newHP, PC.holdsPark], by simp [newHP, PC.holdsPark],
        by simpa [newHP, PC.holdsPark, isWait] using p2, by simp [newHP, PC.holdsPark, isWait],
        by simpa [newHP, PC.holdsPark, inPush] using p4, by simpa [newHP, PC.holdsPark] using p7⟩,
        by simp [newMu, PC.holdsPark]⟩
    · exact ⟨⟨by simp [newHP, PC.holdsPark], by simp [newHP, PC.holdsPark],
        by simpa [newHP, PC.holdsPark, isWait] using p2, by simp [newHP, PC.holdsPark, isWait],
        by simpa [newHP, PC.holdsPark, inPush] using p4, by simpa [newHP, PC.holdsPark] using p7⟩,
        by simp [newMu, PC.holdsPark]⟩
  | pkWait w =>
    obtain ⟨rfl, hm⟩ := hh rfl
    obtain ⟨v0, v1, p2, p3, p4, p7⟩ := h
    obtain ⟨hz, hc⟩ := p3 rfl
    simp only [exec]
    refine ⟨⟨by simp [newHP, PC.holdsPark], by simp [newHP, PC.holdsPark], ?_, by simp [newHP, PC.holdsPark, isWait], ?_, ?_⟩,
      by simp [newMu, PC.holdsPark]⟩
    · simp [newHP, PC.holdsPark, isWait, b2n] at p2 ⊢; omega
    · intro _; show s.global.size ≤ _; rw [hz]; exact Nat.zero_le _
    · intro h'; simp [hc] at h'
  | pkWake w =>
    simp only [exec]; split
    · rename_i hcond
      simp only [Bool.and_eq_true, Option.isNone_iff_eq_none] at hcond
      obtain ⟨hmem, hm⟩ := hcond
      have hmem : tid ∈ s.signalled := by simpa using hmem
      obtain ⟨rfl, _⟩ := hp_none_of_free h (by simp [hm])
      obtain ⟨v0, v1, p2, p3, p4, p7⟩ := h
      have hlen : (s.signalled.erase tid).length = s.signalled.length - 1 := List.length_erase_of_mem hmem
      have hpos : 0 < s.signalled.length := List.length_pos_of_mem hmem
      have := parkLoop_vinv (s1 := { s with signalled := s.signalled.erase tid, parkMu := some tid, parked := s.parked - 1 })
        (tid := tid) (w := w) (pc := .pkWake w) rfl rfl
        (by simp [isWait, b2n] at p2; simp [hlen]; omega)
        (by intro hw; have := p4 hw; simp [inPush, b2n] at this; simp [hlen]; omega)
        (by intro hc; simpa using p7 hc)
      rw [hm]; exact this
    · exact vinv_neutral h rfl rfl (Or.inl rfl)
  | clCAS =>
    simp only [exec]; split
    · exact vinv_neutral h rfl rfl (Or.inr (Or.inl ⟨_, rfl⟩))
    · exact vinv_neutral h rfl rfl (Or.inr (Or.inr (Or.inr ⟨_, rfl, rfl⟩)))
  | clLock =>
    simp only [exec]; split
    · exact vinv_neutral h rfl rfl (Or.inl rfl)
    · rename_i hf
      obtain ⟨rfl, hm⟩ := hp_none_of_free h hf
      obtain ⟨v0, v1, p2, p3, p4, p7⟩ := h
      exact ⟨⟨by simp [newHP, PC.holdsPark], by simp [newHP, PC.holdsPark], by simpa [newHP, PC.holdsPark, isWait] using p2,
        by simp [newHP, PC.holdsPark, isWait], by simpa [newHP, PC.holdsPark, inPush] using p4,
        by intro _; exact Or.inr (by simp [newHP, PC.holdsPark])⟩, by simp [newMu, PC.holdsPark]⟩
  | clBroadcast =>
    obtain ⟨rfl, hm⟩ := hh rfl
    obtain ⟨v0, v1, p2, p3, p4, p7⟩ := h
    simp only [exec]
    refine ⟨⟨by simp [newHP, PC.holdsPark], by simp [newHP, PC.holdsPark], ?_, by simp [newHP, PC.holdsPark, isWait],
      by intro h'; simp at h', by intro _; exact Or.inl rfl⟩, by simp [newMu, PC.holdsPark]⟩
    simp [newHP, PC.holdsPark, isWait, b2n] at p2 ⊢; omega

end GoaktVerif.Model.C05

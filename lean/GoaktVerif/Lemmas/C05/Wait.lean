/-
C05 — the condition variable's lists against the program counters: the threads recorded as
waiting / signalled are exactly the threads inside `cond.Wait` (site `Wake:cond`), without duplicates.
-/
import GoaktVerif.Lemmas.C05.ParkCfg

namespace GoaktVerif.Model.C05

def Shared.inCond (s : Shared) : List Nat := s.waiters ++ s.signalled

theorem parkLoop_cond (s : Shared) (w : Nat) :
    (parkLoop s w).1.waiters = s.waiters ∧ (parkLoop s w).1.signalled = s.signalled ∧
    (∀ w', (parkLoop s w).2 ≠ .goto (.pkWake w')) ∧ (parkLoop s w).2 ≠ .blocked := by
  unfold parkLoop
  split
  · exact ⟨rfl, rfl, (by intro _ h; cases h), (by intro h; cases h)⟩
  · split
    · exact ⟨rfl, rfl, (by intro _ h; cases h), (by intro h; cases h)⟩
    · exact ⟨rfl, rfl, (by intro _ h; cases h), (by intro h; cases h)⟩

theorem stealNext_nw (n w i w' : Nat) : stealNext n w i ≠ .goto (.pkWake w') := by
  unfold stealNext; split <;> (intro h; cases h)
theorem stealStart_nw (n w w' : Nat) : stealStart n w ≠ .goto (.pkWake w') := by
  unfold stealStart; split <;> (intro h; cases h)

/-- transitions other than Wait/Wake only permute the cond lists and never enter `Wake:cond` -/
theorem exec_wait_other (s : Shared) (tid : Nat) (pc : PC) (h1 : ∀ w, pc ≠ .pkWait w) (h2 : ∀ w, pc ≠ .pkWake w) :
    (exec s tid pc).1.inCond.Perm s.inCond ∧ ∀ w, (exec s tid pc).2 ≠ .goto (.pkWake w) := by
  cases pc with
  | pkWait w => exact absurd rfl (h1 w)
  | pkWake w => exact absurd rfl (h2 w)
  | pushSignal =>
    simp only [exec]; split
    · exact ⟨List.Perm.refl _, by intro _ h; cases h⟩
    · rename_i t ws hw
      refine ⟨?_, by intro _ h; cases h⟩
      simp only [Shared.inCond, hw]
      rw [← List.append_assoc]
      exact (List.perm_append_comm (l₁ := ws ++ s.signalled) (l₂ := [t])).trans (by simp)
  | clBroadcast =>
    simp only [exec]
    refine ⟨?_, by intro _ h; cases h⟩
    simp only [Shared.inCond, List.nil_append]
    exact List.perm_append_comm
  | pkLock w =>
    simp only [exec]; split
    · exact ⟨List.Perm.refl _, by intro _ h; cases h⟩
    · obtain ⟨a, b, c, _⟩ := parkLoop_cond { s with parkMu := some tid } w
      exact ⟨by simp only [Shared.inCond, a, b]; exact List.Perm.refl _, c⟩
  | pushLock x => simp only [exec]; split <;> exact ⟨List.Perm.refl _, by intro _ h; cases h⟩
  | pushStore => simp only [exec]; split <;> exact ⟨List.Perm.refl _, by intro _ h; cases h⟩
  | plLock w x =>
    simp only [exec]; split
    · exact ⟨List.Perm.refl _, by intro _ h; cases h⟩
    · split <;> exact ⟨List.Perm.refl _, by intro _ h; cases h⟩
  | plStore w => simp only [exec]; exact ⟨List.Perm.refl _, by intro _ h; cases h⟩
  | tkLoadLocal w => simp only [exec]; split <;> exact ⟨List.Perm.refl _, by intro _ h; cases h⟩
  | tkLockLocal w =>
    simp only [exec]; split
    · exact ⟨List.Perm.refl _, by intro _ h; cases h⟩
    · split <;> exact ⟨List.Perm.refl _, by intro _ h; cases h⟩
  | tkStoreLocal w x => simp only [exec]; split <;> exact ⟨List.Perm.refl _, by intro _ h; cases h⟩
  | tkLoadGlobal w =>
    simp only [exec]; split
    · exact ⟨List.Perm.refl _, fun w' => stealStart_nw _ _ w'⟩
    · exact ⟨List.Perm.refl _, by intro _ h; cases h⟩
  | tkLockGlobal w =>
    simp only [exec]; split
    · exact ⟨List.Perm.refl _, by intro _ h; cases h⟩
    · split
      · exact ⟨List.Perm.refl _, fun w' => stealStart_nw _ _ w'⟩
      · split
        · exact ⟨List.Perm.refl _, by intro _ h; cases h⟩
        · exact ⟨List.Perm.refl _, fun w' => stealStart_nw _ _ w'⟩
  | tkStoreGlobal w x => simp only [exec]; exact ⟨List.Perm.refl _, by intro _ h; cases h⟩
  | stLoad w i =>
    simp only [exec]; split
    · exact ⟨List.Perm.refl _, fun w' => stealNext_nw _ _ _ w'⟩
    · exact ⟨List.Perm.refl _, by intro _ h; cases h⟩
  | stLock1 w i => simp only [exec]; split <;> exact ⟨List.Perm.refl _, by intro _ h; cases h⟩
  | stLock2 w i =>
    simp only [exec]; split
    · exact ⟨List.Perm.refl _, by intro _ h; cases h⟩
    · split
      · exact ⟨List.Perm.refl _, fun w' => stealNext_nw _ _ _ w'⟩
      · exact ⟨List.Perm.refl _, by intro _ h; cases h⟩
  | stStore1 w i x => simp only [exec]; exact ⟨List.Perm.refl _, by intro _ h; cases h⟩
  | stStore2 w i x =>
    simp only [exec]; split
    · exact ⟨List.Perm.refl _, by intro _ h; cases h⟩
    · exact ⟨List.Perm.refl _, fun w' => stealNext_nw _ _ _ w'⟩
  | pkStore w x => simp only [exec]; split <;> exact ⟨List.Perm.refl _, by intro _ h; cases h⟩
  | clCAS => simp only [exec]; split <;> exact ⟨List.Perm.refl _, by intro _ h; cases h⟩
  | clLock => simp only [exec]; split <;> exact ⟨List.Perm.refl _, by intro _ h; cases h⟩

theorem exec_wake (s : Shared) (tid w : Nat) :
    exec s tid (.pkWake w) = (s, .blocked) ∨
    (tid ∈ s.signalled ∧ s.parkMu = none ∧ (exec s tid (.pkWake w)).1.waiters = s.waiters ∧
      (exec s tid (.pkWake w)).1.signalled = s.signalled.erase tid ∧
      (∀ w', (exec s tid (.pkWake w)).2 ≠ .goto (.pkWake w')) ∧ (exec s tid (.pkWake w)).2 ≠ .blocked) := by
  simp only [exec]; split
  · rename_i hc
    simp only [Bool.and_eq_true, Option.isNone_iff_eq_none] at hc
    right
    obtain ⟨a, b, c, d⟩ := parkLoop_cond { s with signalled := s.signalled.erase tid, parkMu := some tid, parked := s.parked - 1 } w
    exact ⟨by simpa using hc.1, hc.2, a, b, c, d⟩
  · left; rfl

structure WInv (c : Cfg) : Prop where
  w1 : ∀ t, t ∈ c.sh.inCond → ∃ w, c.pcOf t = some (.pkWake w)
  w2 : ∀ t w, c.pcOf t = some (.pkWake w) → t ∈ c.sh.inCond
  w3 : c.sh.inCond.Nodup

theorem begin_nw (tid : Nat) (op : Op) (w : Nat) : (begin tid op).1 ≠ .pkWake w := by
  cases op <;> (intro h; cases h)

theorem startNext_nw (tid : Nat) (t : Thread) (w : Nat) : (startNext tid t).pc ≠ some (.pkWake w) := by
  unfold startNext
  split
  · simp
  · intro h; simp at h; exact begin_nw _ _ _ h

/-- the stepping thread ends in `Wake:cond` only by going there or by staying there -/
theorem applyNext_wake (tid : Nat) (t : Thread) (pc : PC) (hpc : t.pc = some pc) (nx : Next) (w : Nat)
    (h : (applyNext tid t nx).pc = some (.pkWake w)) :
    nx = .goto (.pkWake w) ∨ (nx = .blocked ∧ pc = .pkWake w) := by
  cases nx with
  | goto pc' => left; simp [applyNext] at h; rw [h]
  | blocked => right; simp [applyNext, hpc] at h; exact ⟨rfl, h⟩
  | ret r =>
    simp only [applyNext] at h
    split at h <;> exact absurd h (startNext_nw _ _ _)
  | retTake w' x =>
    simp only [applyNext] at h
    split at h
    · exact absurd h (startNext_nw _ _ _)
    · simp at h

theorem step_winv {c : Cfg} (h : WInv c) (tid : Nat) : WInv (step c tid).2 := by
  unfold step
  split
  · exact h
  · rename_i t ht
    split
    · exact h
    · rename_i pc hpc
      have hlt : tid < c.threads.length := (List.getElem?_eq_some_iff.mp ht).1
      have hpcOf : c.pcOf tid = some pc := by simp [Cfg.pcOf, ht, hpc]
      generalize hex : exec c.sh tid pc = r
      obtain ⟨s', nx⟩ := r
      simp only
      have hself := pcOf_set_self (s' := s') c tid (applyNext tid t nx) hlt
      have hother : ∀ u, tid ≠ u → Cfg.pcOf { sh := s', threads := c.threads.set tid (applyNext tid t nx) } u = c.pcOf u :=
        fun u hu => pcOf_set_ne (s' := s') c tid u _ hu
      by_cases hW : ∃ w, pc = .pkWait w
      · -- Wait: the thread joins the waiters
        obtain ⟨w, rfl⟩ := hW
        simp only [exec, Prod.mk.injEq] at hex
        obtain ⟨rfl, rfl⟩ := hex
        have hnot : tid ∉ c.sh.inCond := by
          intro hm; obtain ⟨w', e⟩ := h.w1 tid hm; rw [hpcOf] at e; cases e
        refine ⟨?_, ?_, ?_⟩
        · intro u hu
          by_cases e : tid = u
          · subst e; exact ⟨w, by rw [hself]; rfl⟩
          · rw [hother u e]; apply h.w1
            simp only [Shared.inCond, List.mem_append, List.mem_singleton] at hu ⊢
            rcases hu with (hu | hu) | hu
            · exact Or.inl hu
            · exact absurd hu.symm e
            · exact Or.inr hu
        · intro u w' hu
          by_cases e : tid = u
          · subst e; simp [Shared.inCond]
          · rw [hother u e] at hu
            have := h.w2 u w' hu
            simp only [Shared.inCond, List.mem_append] at this ⊢
            rcases this with hu | hu
            · exact Or.inl (Or.inl hu)
            · exact Or.inr hu
        · have : (c.sh.waiters ++ [tid] ++ c.sh.signalled).Perm (tid :: c.sh.inCond) := by
            simp only [Shared.inCond]
            exact (List.perm_append_comm (l₁ := c.sh.waiters ++ [tid]) (l₂ := c.sh.signalled)).trans
              ((List.perm_append_comm (l₁ := c.sh.signalled) (l₂ := c.sh.waiters ++ [tid])).trans (by
                rw [List.append_assoc]
                exact List.perm_middle))
          exact (List.Perm.nodup_iff this).mpr (List.nodup_cons.mpr ⟨hnot, h.w3⟩)
      · by_cases hK : ∃ w, pc = .pkWake w
        · obtain ⟨w, rfl⟩ := hK
          have hnotW : ∀ w', (applyNext tid t nx).pc = some (.pkWake w') → nx = .blocked := by
            intro w' hp
            rcases applyNext_wake tid t _ hpc nx w' hp with e | ⟨e, _⟩
            · rcases exec_wake c.sh tid w with e' | ⟨_, _, _, _, hng, _⟩
              · rw [hex] at e'; cases e'; cases e
              · rw [hex] at hng; exact absurd e (hng w')
            · exact e
          rcases exec_wake c.sh tid w with e | ⟨hm, _, ew, es, hng, hnb⟩
          · -- blocked: nothing changed
            rw [hex] at e; cases e
            have hp : ∀ u, Cfg.pcOf { sh := c.sh, threads := c.threads.set tid (applyNext tid t .blocked) } u = c.pcOf u := by
              intro u
              by_cases e : tid = u
              · subst e; rw [hself, hpcOf]; simp [applyNext, hpc]
              · exact hother u e
            exact ⟨fun u hu => by rw [hp]; exact h.w1 u hu, fun u w' hu => h.w2 u w' (by rw [← hp]; exact hu), h.w3⟩
          · rw [hex] at ew es hng hnb
            simp only at ew es hng hnb
            have hnd := h.w3
            simp only [Shared.inCond] at hnd
            have hnw : tid ∉ c.sh.waiters := fun hw => (List.nodup_append.mp hnd).2.2 tid hw tid hm rfl
            have hself' : ∀ w', (applyNext tid t nx).pc ≠ some (.pkWake w') := by
              intro w' hp; exact hnb (hnotW w' hp)
            refine ⟨?_, ?_, ?_⟩
            · intro u hu
              simp only [Shared.inCond, ew, es, List.mem_append] at hu
              have hne : tid ≠ u := by
                rintro rfl
                rcases hu with hu | hu
                · exact hnw hu
                · exact (List.Nodup.mem_erase_iff (List.nodup_append.mp hnd).2.1).mp hu |>.1 rfl
              rw [hother u hne]
              apply h.w1
              simp only [Shared.inCond, List.mem_append]
              rcases hu with hu | hu
              · exact Or.inl hu
              · exact Or.inr (List.mem_of_mem_erase hu)
            · intro u w' hu
              have hne : tid ≠ u := by rintro rfl; rw [hself] at hu; exact hself' w' hu
              rw [hother u hne] at hu
              have := h.w2 u w' hu
              simp only [Shared.inCond, ew, es, List.mem_append] at this ⊢
              rcases this with hu | hu
              · exact Or.inl hu
              · exact Or.inr ((List.mem_erase_of_ne (Ne.symm hne)).mpr hu)
            · simp only [Shared.inCond, ew, es]
              exact List.Nodup.sublist (List.Sublist.append (List.Sublist.refl _) List.erase_sublist) hnd
        · -- every other site: the lists are permuted, the thread is not (and does not become) a waiter
          have h1 : ∀ w, pc ≠ .pkWait w := fun w e => hW ⟨w, e⟩
          have h2 : ∀ w, pc ≠ .pkWake w := fun w e => hK ⟨w, e⟩
          obtain ⟨hperm, hng⟩ := exec_wait_other c.sh tid pc h1 h2
          rw [hex] at hperm hng
          simp only at hperm hng
          have hself' : ∀ w', (applyNext tid t nx).pc ≠ some (.pkWake w') := by
            intro w' hp
            rcases applyNext_wake tid t _ hpc nx w' hp with e | ⟨_, e⟩
            · exact hng w' e
            · exact h2 w' e
          have hnot : tid ∉ c.sh.inCond := by
            intro hm; obtain ⟨w', e⟩ := h.w1 tid hm; rw [hpcOf] at e; cases e; exact h2 w' rfl
          refine ⟨?_, ?_, (List.Perm.nodup_iff hperm).mpr h.w3⟩
          · intro u hu
            have hu' := (List.Perm.mem_iff hperm).mp hu
            have hne : tid ≠ u := by rintro rfl; exact hnot hu'
            rw [hother u hne]; exact h.w1 u hu'
          · intro u w' hu
            have hne : tid ≠ u := by rintro rfl; rw [hself] at hu; exact hself' w' hu
            rw [hother u hne] at hu
            exact (List.Perm.mem_iff hperm).mpr (h.w2 u w' hu)

theorem init_winv (n : Nat) (progs : List (List Op)) : WInv (init n progs) := by
  refine ⟨by intro t ht; simp [Shared.inCond, init, initShared] at ht, ?_, by simp [Shared.inCond, init, initShared]⟩
  intro t w hpc
  simp only [Cfg.pcOf, init] at hpc
  cases hth : (mkThreads 0 progs)[t]? with
  | none => simp [hth] at hpc
  | some th =>
    obtain ⟨p, _, e⟩ := mkThreads_get progs 0 t th hth
    simp [hth] at hpc
    rw [e, mkThread] at hpc
    exact absurd hpc (startNext_nw _ _ _)

theorem reachable_winv {n : Nat} {progs : List (List Op)} {c : Cfg} (hr : Reachable (init n progs) c) : WInv c := by
  induction hr with
  | init => exact init_winv n progs
  | step c tid _ ih => exact step_winv ih tid

end GoaktVerif.Model.C05

/-
C05 — the owner's own steps: after each of them `sizeAtomic` covers the ring unless the owner is
still inside an adding critical section, and the ring is empty whenever the owner is past `popFront`.
-/
import GoaktVerif.Lemmas.C05.Local

namespace GoaktVerif.Model.C05

def Next.post (s' : Shared) (tid : Nat) : Next → Prop
  | .goto pc' => (pc'.adding = false → ((s'.getL tid).ring.size ≤ (s'.getL tid).sizeAtomic)) ∧
                 (pc'.idle = true → (s'.getL tid).ring.size = 0)
  | .blocked => True
  | _ => (s'.getL tid).ring.size ≤ (s'.getL tid).sizeAtomic

theorem stealNext_post {s' : Shared} {tid n w i : Nat} (h0 : (s'.getL tid).ring.size = 0) :
    (stealNext n w i).post s' tid := by
  unfold stealNext; split <;> exact ⟨fun _ => by rw [h0]; exact Nat.zero_le _, fun _ => h0⟩

theorem stealStart_post {s' : Shared} {tid n w : Nat} (h0 : (s'.getL tid).ring.size = 0) :
    (stealStart n w).post s' tid := by
  unfold stealStart; split <;> exact ⟨fun _ => by rw [h0]; exact Nat.zero_le _, fun _ => h0⟩

theorem parkLoop_post {s : Shared} {tid w : Nat} (h0 : (s.getL tid).ring.size = 0) :
    (parkLoop s w).2.post (parkLoop s w).1 tid := by
  have hz : ((parkLoop s w).1.getL tid).ring.size = 0 := by rw [parkLoop_getL]; exact h0
  unfold parkLoop at hz ⊢
  split
  · simp only [Next.post]; split at hz <;> simp_all
  · split
    · exact ⟨fun _ => by split at hz <;> simp_all, fun _ => by split at hz <;> simp_all⟩
    · exact ⟨fun _ => by split at hz <;> simp_all, fun _ => by split at hz <;> simp_all⟩

theorem exec_own {s : Shared} {n tid : Nat} {pc : PC} (hn : s.locals.length = n) (hok : pc.ok n tid)
    (hM : pc.adding = false → (s.getL tid).ring.size ≤ (s.getL tid).sizeAtomic)
    (hL : pc.idle = true → (s.getL tid).ring.size = 0) :
    (exec s tid pc).2.post (exec s tid pc).1 tid := by
  cases pc with
  | pushLock x => simp only [exec]; split <;> simp_all [Next.post, PC.adding, PC.idle, Shared.getL]
  | pushStore => simp only [exec]; split <;> simp_all [Next.post, PC.adding, PC.idle, Shared.getL]
  | pushSignal => simp only [exec]; split <;> simp_all [Next.post, PC.adding, PC.idle, Shared.getL]
  | plLock w x =>
    obtain ⟨hw, hwn, _⟩ := hok; subst hw
    simp only [exec]; split
    · trivial
    · split
      · simp_all [Next.post, PC.adding, PC.idle, Shared.getL]
      · simp [Next.post, PC.adding, PC.idle]
  | plStore w =>
    obtain ⟨hw, hwn⟩ := hok; subst hw
    simp only [exec, Next.post, getL_setL_same s w _ (by omega)]; exact Nat.le_refl _
  | tkLoadLocal w =>
    obtain ⟨hw, hwn⟩ := hok; subst hw
    have hM := hM rfl
    simp only [exec]; split
    · rename_i h0
      exact ⟨fun _ => hM, fun _ => by show (s.getL w).ring.size = 0; omega⟩
    · exact ⟨fun _ => hM, fun h => by simp [PC.idle] at h⟩
  | tkLockLocal w =>
    obtain ⟨hw, hwn⟩ := hok; subst hw
    have hM := hM rfl
    simp only [exec]; split
    · trivial
    · split
      · rename_i h0; exact ⟨fun _ => hM, fun _ => h0⟩
      · simp only [Next.post, getL_with_taken, getL_setL_same s w _ (show w < s.locals.length by omega)]
        exact ⟨fun _ => by show (s.getL w).ring.size - 1 ≤ _; omega, fun h => by simp [PC.idle] at h⟩
  | tkStoreLocal w x =>
    obtain ⟨hw, hwn, hx⟩ := hok; subst hw
    simp only [exec, if_pos hx, Next.post, getL_setL_same s w _ (show w < s.locals.length by omega)]
    exact Nat.le_refl _
  | tkLoadGlobal w =>
    obtain ⟨hw, hwn⟩ := hok; subst hw
    have h0 := hL rfl
    simp only [exec]; split
    · exact stealStart_post h0
    · exact ⟨fun _ => by rw [h0]; exact Nat.zero_le _, fun _ => h0⟩
  | tkLockGlobal w =>
    obtain ⟨hw, hwn⟩ := hok; subst hw
    have h0 := hL rfl
    simp only [exec]; split
    · trivial
    · split
      · exact stealStart_post h0
      · split
        · exact ⟨fun _ => by show (s.getL w).ring.size ≤ _; rw [h0]; exact Nat.zero_le _, fun _ => h0⟩
        · exact stealStart_post (s' := { s with global := s.global.gpop.2, taken := s.global.gpop.1 :: s.taken }) h0
  | tkStoreGlobal w x =>
    obtain ⟨hw, hwn, hx⟩ := hok; subst hw
    have h0 := hL rfl
    simp only [exec, Next.post]
    show (s.getL w).ring.size ≤ _; rw [h0]; exact Nat.zero_le _
  | stLoad w i =>
    obtain ⟨hw, hwn, _⟩ := hok; subst hw
    have h0 := hL rfl
    simp only [exec]; split
    · exact stealNext_post h0
    · exact ⟨fun _ => by rw [h0]; exact Nat.zero_le _, fun _ => h0⟩
  | stLock1 w i =>
    obtain ⟨hw, hwn, _⟩ := hok; subst hw
    have h0 := hL rfl
    simp only [exec]; split
    · trivial
    · have := getL_setL_mu s (min ((w + i) % s.locals.length) w) w (some w)
      exact ⟨fun _ => by rw [this.1, h0]; exact Nat.zero_le _, fun _ => by rw [this.1]; exact h0⟩
  | stLock2 w i =>
    obtain ⟨hw, hwn, _⟩ := hok; subst hw
    have h0 := hL rfl
    simp only [exec]; split
    · trivial
    · split
      · have := getL_setL_mu s (min ((w + i) % s.locals.length) w) w none
        exact stealNext_post (by rw [this.1]; exact h0)
      · exact ⟨fun h => by simp [PC.adding] at h, fun h => by simp [PC.idle] at h⟩
  | stStore1 w i x => simp only [exec]; exact ⟨fun h => by simp [PC.adding] at h, fun h => by simp [PC.idle] at h⟩
  | stStore2 w i x =>
    obtain ⟨hw, hwn, hi0, hi, hx⟩ := hok; subst hw
    have hvw : (w + i) % s.locals.length ≠ w := by rw [hn]; exact victim_ne hwn hi0 hi
    simp only [exec, if_pos hx, Next.post]
    have := getL_setL_mu (s.setL w { s.getL w with sizeAtomic := (s.getL w).ring.size, mu := none }) ((w + i) % s.locals.length) w none
    rw [this.1, this.2, getL_setL_same s w _ (show w < s.locals.length by omega)]
    exact Nat.le_refl _
  | pkLock w =>
    obtain ⟨hw, hwn⟩ := hok; subst hw
    have h0 := hL rfl
    simp only [exec]; split
    · trivial
    · exact parkLoop_post (s := { s with parkMu := some w }) h0
  | pkStore w x =>
    obtain ⟨hw, hwn, hx⟩ := hok; subst hw
    have h0 := hL rfl
    simp only [exec, if_pos hx, Next.post]
    show (s.getL w).ring.size ≤ _; rw [h0]; exact Nat.zero_le _
  | pkWait w =>
    obtain ⟨hw, hwn⟩ := hok; subst hw
    have h0 := hL rfl
    simp only [exec]
    exact ⟨fun _ => by show (s.getL w).ring.size ≤ _; rw [h0]; exact Nat.zero_le _, fun _ => h0⟩
  | pkWake w =>
    obtain ⟨hw, hwn⟩ := hok; subst hw
    have h0 := hL rfl
    simp only [exec]; split
    · exact parkLoop_post (s := { s with signalled := s.signalled.erase w, parkMu := some w, parked := s.parked - 1 }) h0
    · trivial
  | clCAS => simp only [exec]; split <;> simp_all [Next.post, PC.adding, PC.idle, Shared.getL]
  | clLock => simp only [exec]; split <;> simp_all [Next.post, PC.adding, PC.idle, Shared.getL]
  | clBroadcast => simp only [exec]; simp_all [Next.post, PC.adding, PC.idle, Shared.getL]

end GoaktVerif.Model.C05

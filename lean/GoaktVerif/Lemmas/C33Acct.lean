/-
C33 part B — every stage of the worker's run produces exactly one record per item it is given.
Core Lean only (re-uses the C32 plan theorems).
-/
import GoaktVerif.Model.C33
import GoaktVerif.Lemmas.C32Alloc
import GoaktVerif.Lemmas.C32Grains
import GoaktVerif.Lemmas.C32Redis

namespace GoaktVerif.C33
open GoaktVerif.Model.C32 GoaktVerif.Model.C33 GoaktVerif.C32

def recItems (l : List Rec) : List Item := l.map Rec.item

@[simp] theorem recItems_nil : recItems [] = [] := rfl
@[simp] theorem recItems_append (a b : List Rec) : recItems (a ++ b) = recItems a ++ recItems b := by
  simp [recItems]

@[simp] theorem itemsA_append (a b : List Actor) : itemsA (a ++ b) = itemsA a ++ itemsA b := by simp [itemsA]
@[simp] theorem itemsG_append (a b : List Grain) : itemsG (a ++ b) = itemsG a ++ itemsG b := by simp [itemsG]
@[simp] theorem itemsA_nil : itemsA [] = [] := rfl
@[simp] theorem itemsG_nil : itemsG [] = [] := rfl

theorem itemsA_perm {a b : List Actor} (h : a.Perm b) : (itemsA a).Perm (itemsA b) := h.map _
theorem itemsG_perm {a b : List Grain} (h : a.Perm b) : (itemsG a).Perm (itemsG b) := h.map _

theorem localRec_item (env : Env) (it : Item) : (localRec env it).item = it := by
  unfold localRec; split <;> rfl

theorem remoteRec_item (env : Env) (p : Nat) (it : Item) : (remoteRec env p it).item = it := by
  unfold remoteRec; split <;> rfl

theorem unsentRec_item (env : Env) (it : Item) : (unsentRec env it).item = it := by
  cases it with
  | actor a => rfl
  | grain g =>
    simp only [unsentRec]
    split
    · rfl
    · split <;> rfl

theorem recItems_map_of (f : Item → Rec) (hf : ∀ it, (f it).item = it) (l : List Item) :
    recItems (l.map f) = l := by
  induction l with
  | nil => rfl
  | cons x xs ih =>
    simp only [recItems, List.map_cons, List.map_map] at ih ⊢
    rw [hf x]
    congr 1

theorem recItems_failed (l : List Item) : recItems (l.map Rec.failed) = l :=
  recItems_map_of Rec.failed (fun _ => rfl) l

theorem enqueueLocal_items (env : Env) (actors : List Actor) (grains : List Grain) :
    recItems (enqueueLocal env actors grains) = itemsA actors ++ itemsG grains := by
  simp only [enqueueLocal, recItems_append]
  rw [recItems_map_of _ (localRec_item env), recItems_map_of _ (localRec_item env)]

@[simp] theorem batchesItems_nil : batchesItems [] = [] := rfl
@[simp] theorem batchesItems_cons (b : Batch) (bs : List Batch) :
    batchesItems (b :: bs) = batchItems b ++ batchesItems bs := by simp [batchesItems]
theorem batchesItems_append (x y : List Batch) : batchesItems (x ++ y) = batchesItems x ++ batchesItems y := by
  simp [batchesItems]

/-- delivered records ++ unsent remainder account for exactly the batches handed to `sendBatches` -/
theorem sendBatches_items (env : Env) (p : Nat) (bs : List Batch) :
    recItems (sendBatches env p bs).1 ++ batchesItems (sendBatches env p bs).2 = batchesItems bs := by
  induction bs with
  | nil => rfl
  | cons b bs ih =>
    simp only [sendBatches]
    split
    · simp only [recItems_append, batchesItems_cons, List.append_assoc]
      rw [recItems_map_of _ (remoteRec_item env p), ih]
    · simp

theorem unsent_items (env : Env) (bs : List Batch) : recItems (unsent env bs) = batchesItems bs :=
  recItems_map_of _ (unsentRec_item env) _

theorem batchesItems_map_actors (cs : List (List Actor)) : batchesItems (cs.map Batch.actors) = itemsA cs.flatten := by
  induction cs with
  | nil => rfl
  | cons c cs ih => simp [batchItems, ih]

theorem batchesItems_map_grains (cs : List (List Grain)) : batchesItems (cs.map Batch.grains) = itemsG cs.flatten := by
  induction cs with
  | nil => rfl
  | cons c cs ih => simp [batchItems, ih]

theorem buildBatches_items (bs : Nat) (hbs : 0 < bs) (actors : List Actor) (grains : List Grain) :
    batchesItems (buildBatches bs actors grains) = itemsA actors ++ itemsG grains := by
  simp only [buildBatches, batchesItems_append, batchesItems_map_actors, batchesItems_map_grains,
    chunkify_flatten _ _ hbs]

/-- a whole share sent to one target: delivered ++ (recorded or released) unsent = the share -/
theorem send_share_items (env : Env) (bs : Nat) (hbs : 0 < bs) (p : Nat) (a : List Actor) (g : List Grain) :
    recItems ((sendBatches env p (buildBatches bs a g)).1 ++ unsent env (sendBatches env p (buildBatches bs a g)).2)
      = itemsA a ++ itemsG g := by
  rw [recItems_append, unsent_items, sendBatches_items, buildBatches_items bs hbs]

theorem perm_shuffle {α : Type} (x y u v : List α) : ((x ++ y) ++ (u ++ v)).Perm ((x ++ u) ++ (y ++ v)) := by
  rw [List.append_assoc, List.append_assoc]
  refine List.Perm.append_left x ?_
  rw [← List.append_assoc, ← List.append_assoc]
  exact List.Perm.append_right v List.perm_append_comm

theorem sendShares_items (env : Env) (bs : Nat) (hbs : 0 < bs) (target : Nat) (i : Nat)
    (as : List (List Actor)) (gs : List (List Grain)) (hl : as.length = gs.length) :
    (recItems (sendShares env bs target i as gs)).Perm (itemsA as.flatten ++ itemsG gs.flatten) := by
  induction as generalizing gs i with
  | nil =>
    cases gs with
    | nil => simp [sendShares]
    | cons g gs => simp at hl
  | cons a as ih =>
    cases gs with
    | nil => simp at hl
    | cons g gs =>
      simp only [sendShares, recItems_append, List.flatten_cons, itemsA_append, itemsG_append]
      have hpiece : recItems (if (a.isEmpty && g.isEmpty) = true then []
          else (sendBatches env (survivorIndex target i) (buildBatches bs a g)).1 ++
            unsent env (sendBatches env (survivorIndex target i) (buildBatches bs a g)).2) = itemsA a ++ itemsG g := by
        split
        · rename_i he
          simp only [Bool.and_eq_true, List.isEmpty_iff] at he
          rw [he.1, he.2]; rfl
        · exact send_share_items env bs hbs _ a g
      rw [hpiece]
      have := ih (i + 1) gs (by simpa using hl)
      exact (List.Perm.append_left _ this).trans (perm_shuffle _ _ _ _)

/-- the items of a list of batches, split by kind -/
theorem requests_items (rs : List Batch) :
    (batchesItems rs).Perm (itemsA (requestActors (rs.map toRequest)) ++ itemsG (requestGrains (rs.map toRequest))) := by
  induction rs with
  | nil => simp [requestActors, requestGrains]
  | cons b rs ih =>
    have hA : requestActors ((b :: rs).map toRequest) = (toRequest b).actors ++ requestActors (rs.map toRequest) := by
      simp [requestActors]
    have hG : requestGrains ((b :: rs).map toRequest) = (toRequest b).grains ++ requestGrains (rs.map toRequest) := by
      simp [requestGrains]
    rw [hA, hG, batchesItems_cons, itemsA_append, itemsG_append]
    have hb : batchItems b = itemsA (toRequest b).actors ++ itemsG (toRequest b).grains := by
      cases b <;> simp [batchItems, toRequest]
    rw [hb]
    exact (List.Perm.append_left _ ih).trans (perm_shuffle _ _ _ _)

/-- `relocateShare` accounts for every item of the share exactly once -/
theorem relocateShare_items (env : Env) (bs : Nat) (hbs : 0 < bs) (leaderRoles : List Role)
    (peers : List (List Role)) (target : Nat) (requests : List Batch) :
    (recItems (relocateShare env bs leaderRoles peers target requests)).Perm (batchesItems requests) := by
  simp only [relocateShare]
  have hsend := sendBatches_items env target requests
  split
  · rename_i hemp
    have : (sendBatches env target requests).2 = [] := by simpa using hemp
    rw [this] at hsend
    simp only [batchesItems_nil, List.append_nil] at hsend
    rw [hsend]
  · have hd := redistribute_accounting ((sendBatches env target requests).2.map toRequest) (peers.eraseIdx target) leaderRoles
    simp only at hd
    obtain ⟨hlenA, hpermA, hpermG, hne, hnil⟩ := hd
    generalize hdd : redistribute ((sendBatches env target requests).2.map toRequest) (peers.eraseIdx target) leaderRoles = d at *
    have hlen : d.actorShares.length = d.grainShares.length := by
      by_cases hs : peers.eraseIdx target = []
      · rw [hs] at hlenA
        rw [hnil hs, hlenA]; rfl
      · rw [hne hs, hlenA]
    have hshares := sendShares_items env bs hbs target 0 d.actorShares d.grainShares hlen
    have hreq := requests_items (sendBatches env target requests).2
    -- rewrite the goal's right-hand side through the delivered/unsent split
    rw [← hsend]
    simp only [recItems_append, recItems_failed, enqueueLocal_items, List.append_assoc]
    refine List.Perm.append_left _ ?_
    refine List.Perm.trans ?_ hreq.symm
    -- actors: failed ++ leader ++ shares ; grains: leaderGrains ++ grainShares
    have hA : (itemsA (requestActors ((sendBatches env target requests).2.map toRequest))).Perm
        (itemsA d.failedActors ++ itemsA d.leaderActors ++ itemsA d.actorShares.flatten) := by
      refine (itemsA_perm hpermA).trans ?_
      simp only [itemsA_append]
      -- (S ++ L) ++ F ~ (F ++ L) ++ S
      refine List.perm_append_comm.trans ?_
      rw [List.append_assoc]
      refine List.Perm.append_left _ ?_
      exact List.perm_append_comm
    have hG : (itemsG (requestGrains ((sendBatches env target requests).2.map toRequest))).Perm
        (itemsG d.leaderGrains ++ itemsG d.grainShares.flatten) := by
      refine (itemsG_perm hpermG.symm).trans ?_
      simp only [itemsG_append]
      exact List.perm_append_comm
    refine List.Perm.trans ?_ (List.Perm.append hA hG).symm
    -- F ++ (LA ++ (LG ++ rest)) with rest ~ SA ++ SG  vs  ((F ++ LA) ++ SA) ++ (LG ++ SG)
    rw [List.append_assoc, List.append_assoc]
    refine List.Perm.append_left _ ?_
    refine List.Perm.append_left _ ?_
    refine (List.Perm.append_left _ hshares).trans ?_
    rw [← List.append_assoc, ← List.append_assoc]
    exact List.Perm.append_right _ List.perm_append_comm

theorem fanOut_items (f : Nat → List Actor → List Grain → List Rec)
    (hf : ∀ p a g, (recItems (f p a g)).Perm (itemsA a ++ itemsG g))
    (n p : Nat) (as : List (List Actor)) (gs : List (List Grain)) (ha : as.length ≤ n) (hg : gs.length ≤ n) :
    (recItems (fanOut f n p as gs)).Perm (itemsA as.flatten ++ itemsG gs.flatten) := by
  induction n generalizing p as gs with
  | zero =>
    have h1 : as = [] := List.eq_nil_of_length_eq_zero (by omega)
    have h2 : gs = [] := List.eq_nil_of_length_eq_zero (by omega)
    subst h1; subst h2; simp [fanOut]
  | succ n ih =>
    simp only [fanOut, recItems_append]
    have ih' := ih (p + 1) as.tail gs.tail (by simp; omega) (by simp; omega)
    have hfl : ∀ {α : Type} (l : List (List α)), l.flatten = l.headD [] ++ l.tail.flatten := by
      intro α l; cases l <;> simp
    rw [hfl as, hfl gs, itemsA_append, itemsG_append]
    exact (List.Perm.append (hf p _ _) ih').trans (perm_shuffle _ _ _ _)

/-- the whole run: one record per actor of the snapshot and per relocatable grain -/
theorem relocate_items (env : Env) (bs : Nat) (hbs : 0 < bs) (leaderRoles : List Role) (peers : List (List Role))
    (base : List Nat) (actorOrder : List Actor) (grainOrder : List Grain) :
    (recItems (relocate env bs leaderRoles peers base actorOrder grainOrder)).Perm
      (itemsA actorOrder ++ itemsG (relocatableGrains grainOrder)) := by
  have inv := allocInv_run (leaderRoles :: peers) base actorOrder
  have hpart := alloc_partition (leaderRoles :: peers) base actorOrder
  have hlenA : (allocateActors leaderRoles peers base actorOrder).2.1.length = (leaderRoles :: peers).length :=
    inv.len_shares
  have hlead : (allocateActors leaderRoles peers base actorOrder).1 =
      actorOrder.filter (·.singleton) ++ (allocateActors leaderRoles peers base actorOrder).2.1.headD [] := by
    show (allocRun (leaderRoles :: peers) base actorOrder).singles ++ _ = _
    rw [inv.singles_eq]; rfl
  have hpermA : actorOrder.Perm (actorOrder.filter (·.singleton) ++
      (allocateActors leaderRoles peers base actorOrder).2.1.flatten ++ (allocateActors leaderRoles peers base actorOrder).2.2) := by
    have := hpart
    simp only [inv.singles_eq] at this
    exact this
  have hGs := allocateGrains_spec (peers.length + 1) (relocatableGrains grainOrder) (by omega)
  obtain ⟨hgeq, hlenG, _, _⟩ := hGs
  simp only [relocate, recItems_append, recItems_failed, enqueueLocal_items]
  generalize hplan : allocateActors leaderRoles peers base actorOrder = plan at *
  generalize hgplan : allocateGrains (peers.length + 1) (relocatableGrains grainOrder) = gplan at *
  have hfan := fanOut_items (fun p a g => relocateShare env bs leaderRoles peers p (buildBatches bs a g))
    (by
      intro p a g
      have := relocateShare_items env bs hbs leaderRoles peers p (buildBatches bs a g)
      rw [buildBatches_items bs hbs] at this
      exact this)
    peers.length 0 (plan.2.1.drop 1) (gplan.2.drop 1)
    (by rw [List.length_drop, hlenA]; simp)
    (by rw [List.length_drop]; omega)
  -- actors: unpl ++ lead ++ shares[1:] ~ order ; grains: leadG ++ sharesG[1:] = relocatable
  have hactors : (itemsA plan.2.2 ++ itemsA plan.1 ++ itemsA (plan.2.1.drop 1).flatten).Perm (itemsA actorOrder) := by
    rw [← itemsA_append, ← itemsA_append]
    refine itemsA_perm ?_
    rw [hlead, List.append_assoc, List.append_assoc, headD_append_flatten_tail]
    refine List.Perm.trans ?_ hpermA.symm
    -- unpl ++ (singles ++ flat) ~ (singles ++ flat) ++ unpl
    exact List.perm_append_comm
  have hgrains : itemsG gplan.1 ++ itemsG (gplan.2.drop 1).flatten = itemsG (relocatableGrains grainOrder) := by
    rw [← itemsG_append, hgeq]
  rw [← hgrains]
  refine List.Perm.trans ?_ (List.Perm.append_right _ hactors)
  -- U ++ ((LA ++ LG) ++ fan)   vs   ((U ++ LA) ++ SA) ++ (LG ++ SG)
  rw [List.append_assoc, List.append_assoc, List.append_assoc, List.append_assoc]
  refine List.Perm.append_left _ ?_
  refine List.Perm.append_left _ ?_
  refine (List.Perm.append_left _ hfan).trans ?_
  rw [← List.append_assoc, ← List.append_assoc]
  exact List.Perm.append_right _ List.perm_append_comm

theorem abortRecs_items (env : Env) (actors : List Actor) (grainOrder : List Grain) :
    recItems (abortRecs env actors grainOrder) = itemsA actors ++ itemsG (relocatableGrains grainOrder) := by
  simp only [abortRecs, recItems_append, recItems_failed]
  rw [recItems_map_of _ (unsentRec_item env)]

end GoaktVerif.C33

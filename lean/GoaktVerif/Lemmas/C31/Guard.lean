/-
C31: the inductive invariant of ALL executions (the manager's direct deactivation owns the grain's
dispatch turn) and its preservation by every step.
-/
import GoaktVerif.Lemmas.C31

namespace GoaktVerif.C31
open GoaktVerif.Model.C31 GoaktVerif.Spec.C06
open GoaktVerif.Model.C06 (Sched trySchedule)

def lateDirect (c : Cfg) : Bool :=
  match c.dea with
  | some i => (c.threads i == .mDea .deaE) || (c.threads i == .mDea .fin)
  | none => false

/-- invariant of guarded executions -/
structure GInv (c : Cfg) : Prop where
  d1 : ∀ i, (c.threads i).direct = true ↔ c.dea = some i
  ex : c.w ≠ .idle → c.dea = none
  t1 : c.dea ≠ none → c.sched = .processing
  t2 : c.w ≠ .idle → c.sched = .processing
  recvBy : c.mon.recvBy = (match c.w with | .rcv _ => some 0 | _ => none)
  postBy : c.mon.postBy = (match c.w with
    | .dea .deaE _ _ => [0]
    | _ => match c.dea with
      | some i => if c.threads i = .mDea .deaE then [i + 2] else []
      | none => [])
  k : c.active = true → c.mon.posts = 0 ∨ c.w.inDeaLate = true ∨ lateDirect c = true
  kb1 : ∀ v b, c.w = .dea .deaB v b → c.active = true
  kb2 : ∀ i, c.threads i = .mDea .deaB → c.active = true
  early0 : c.mon.preDone = false → c.mon.posts = 0
  ok2 : c.mon.c2 = true
  ok3 : c.mon.c3 = true
  ok4 : c.mon.c4 = true

macro "g_solve" : tactic =>
  `(tactic| (constructor <;> (try assumption) <;>
      simp_all [emit, monStep, finish, GW.inDeaLate, GW.inDea, lateDirect, sameOrNone, wid, tidOf] <;>
      (try assumption)))

theorem no_direct_of_dea_none (c : Cfg) (d1 : ∀ i, (c.threads i).direct = true ↔ c.dea = some i)
    (hd : c.dea = none) : ∀ i pc, c.threads i ≠ .mDea pc := by
  intro i pc h
  have := (d1 i).1 (by simp [h, GT.direct])
  simp [hd] at this

theorem ginv_w (c : Cfg) (hB : Base c) (hG : GInv c) : GInv (wStep c) := by
  obtain ⟨d1, ex, t1, t2, recvBy, postBy, k, kb1, kb2, early0, ok2, ok3, ok4⟩ := hG
  have hq := hB.quiet
  unfold wStep
  split
  · rename_i hw
    split
    · rename_i hs
      have hg : c.dea = none := by
        cases hd : c.dea with
        | none => rfl
        | some j => have := t1 (by simp [hd]); simp [hs] at this
      g_solve
    · exact ⟨d1, ex, t1, t2, recvBy, postBy, k, kb1, kb2, early0, ok2, ok3, ok4⟩
  · g_solve
  · rename_i b hw
    have hd := ex (by simp [hw])
    split
    · g_solve
    · split <;> g_solve
    · split <;> g_solve
    · split <;> g_solve
  · rename_i hw
    have hd := ex (by simp [hw])
    g_solve
  · rename_i hw
    have hd := ex (by simp [hw])
    g_solve
  · rename_i hw
    have hd := ex (by simp [hw])
    g_solve
  · rename_i hw
    have hd := ex (by simp [hw])
    have hnd := no_direct_of_dea_none c d1 hd
    g_solve

/-- frame: re-pointing a thread that is not inside the direct deactivation to a program counter outside it -/
theorem ginv_setT (c : Cfg) (i : Nat) (pc : GT) (hG : GInv c)
    (h1 : (c.threads i).direct = false) (h2 : pc.direct = false) : GInv (setT c i pc) := by
  obtain ⟨d1, ex, t1, t2, recvBy, postBy, k, kb1, kb2, early0, ok2, ok3, ok4⟩ := hG
  have hni : c.dea ≠ some i := by
    intro h; have := (d1 i).2 h; simp [h1] at this
  have hpc2 : pc ≠ .mDea .deaB := by intro h; simp [h, GT.direct] at h2
  cases hdea : c.dea with
  | none =>
    constructor <;> (try intro j) <;> (try (by_cases hj : j = i)) <;> (try assumption) <;>
      simp_all [setT, lateDirect, GT.direct] <;> (first | assumption | exact kb1 _ | exact kb2 _ | skip)
  | some d =>
    have hdi : d ≠ i := by intro h; subst h; exact hni hdea
    constructor <;> (try intro j) <;> (try (by_cases hj : j = i)) <;> (try assumption) <;>
      simp_all [setT, lateDirect, GT.direct] <;> (first | assumption | exact kb1 _ | exact kb2 _ | omega | skip)

macro "gt_solve" i:ident : tactic =>
  `(tactic| (constructor <;> (try intro j) <;> (try (by_cases hj : j = $i)) <;> (try assumption) <;>
      simp_all [emit, monStep, finish, GW.inDeaLate, GW.inDea, lateDirect, sameOrNone, wid, tidOf, setT,
        GT.direct, trySchedule, msgOf] <;>
      (first | assumption | omega | skip)))

macro "gu_solve" : tactic =>
  `(tactic| (constructor <;> (try assumption) <;>
      simp_all [emit, monStep, finish, GW.inDeaLate, GW.inDea, lateDirect, sameOrNone, wid, tidOf,
        trySchedule, msgOf] <;>
      (first | assumption | exact kb1 _ | exact kb2 _ | skip)))

theorem inDea_of_late (w : GW) (h : w.inDeaLate = true) : w.inDea = true := by
  cases w <;> simp_all [GW.inDeaLate, GW.inDea]

theorem ginv_t (c : Cfg) (i : Nat) (hB : Base c) (hG : GInv c) : GInv (tStep c i) := by
  have hG' := hG
  have hq := hB.quiet
  unfold tStep
  simp only []
  split
  · exact hG'
  · exact hG'
  · -- aB
    rename_i p hpc
    have hpd : c.mon.preDone = false := by
      by_cases hi : i = 0
      · subst hi; exact hB.pre.2 (by simp [hpc, GT.creating])
      · have := hB.others i hi; simp [hpc, GT.creating] at this
    have hq2 := hq hpd
    refine ginv_setT _ i _ ?_ (by simp [emit, hpc, GT.direct]) (by simp [GT.direct])
    obtain ⟨d1, ex, t1, t2, recvBy, postBy, k, kb1, kb2, early0, ok2, ok3, ok4⟩ := hG
    have hp0 := early0 hpd
    gu_solve
  · -- aE
    rename_i p hpc
    have hpd : c.mon.preDone = false := by
      by_cases hi : i = 0
      · subst hi; exact hB.pre.2 (by simp [hpc, GT.creating])
      · have := hB.others i hi; simp [hpc, GT.creating] at this
    have hq2 := hq hpd
    refine ginv_setT _ i _ ?_ (by simp [emit, hpc, GT.direct]) (by simp [GT.direct])
    obtain ⟨d1, ex, t1, t2, recvBy, postBy, k, kb1, kb2, early0, ok2, ok3, ok4⟩ := hG
    have hp0 := early0 hpd
    gu_solve
  · -- sEnsure
    rename_i p hpc
    split
    · exact ginv_setT c i _ hG (by simp [hpc, GT.direct]) (by simp [GT.direct])
    · split
      · exact ginv_setT c i _ hG (by simp [hpc, GT.direct]) (by simp [GT.direct])
      · split
        · exact ginv_setT c i _ hG (by simp [hpc, GT.direct]) (by simp [GT.direct])
        · exact hG'
  · -- sRecv
    rename_i p hpc
    split
    · refine ginv_setT _ i _ ?_ (by simp [hpc, GT.direct]) (by simp [GT.direct])
      obtain ⟨d1, ex, t1, t2, recvBy, postBy, k, kb1, kb2, early0, ok2, ok3, ok4⟩ := hG
      constructor <;> (try assumption) <;>
        simp_all [msgOf, lateDirect, trySchedule] <;> (first | assumption | exact kb1 _ | exact kb2 _ | skip)
    · exact ginv_setT c i _ hG (by simp [hpc, GT.direct]) (by simp [GT.direct])
  · -- mCheck
    rename_i hpc
    split
    · exact ginv_setT c i _ hG (by simp [hpc, GT.direct]) (by simp [GT.direct])
    · split
      · -- reentrancy-capable: the passivation pill goes through the mailbox
        refine ginv_setT _ i _ ?_ (by simp [hpc, GT.direct]) (by simp [GT.direct])
        obtain ⟨d1, ex, t1, t2, recvBy, postBy, k, kb1, kb2, early0, ok2, ok3, ok4⟩ := hG
        constructor <;> (try assumption) <;>
          simp_all [lateDirect, trySchedule] <;> (first | assumption | exact kb1 _ | exact kb2 _ | skip)
      · exact ginv_setT c i _ hG (by simp [hpc, GT.direct]) (by simp [GT.direct])
  · -- mTake: try to own the dispatch turn
    rename_i hpc
    split
    · rename_i hs
      -- the dispatch state is Idle: no turn in progress, no other direct deactivation
      obtain ⟨d1, ex, t1, t2, recvBy, postBy, k, kb1, kb2, early0, ok2, ok3, ok4⟩ := hG
      have hw : c.w = .idle := by
        apply Classical.byContradiction; intro hn; have := t2 hn; simp [hs] at this
      have hdn : c.dea = none := by
        cases hd : c.dea with
        | none => rfl
        | some j => have := t1 (by simp [hd]); simp [hs] at this
      have hnd := no_direct_of_dea_none c d1 hdn
      split
      · -- re-test failed: the turn is released at once
        refine ginv_setT _ i _ ?_ (by simp [hpc, GT.direct]) (by simp [GT.direct])
        constructor <;> (try assumption) <;>
          simp_all [lateDirect] <;> (first | assumption | exact kb1 _ | exact kb2 _ | skip)
      · constructor <;> (try intro j) <;> (try (by_cases hj : j = i)) <;> (try assumption) <;>
          simp_all [setT, lateDirect, GT.direct, GW.inDea, GW.inDeaLate] <;>
          (first | assumption | omega | skip)
    · -- not Idle: the pill route
      refine ginv_setT _ i _ ?_ (by simp [hpc, GT.direct]) (by simp [GT.direct])
      obtain ⟨d1, ex, t1, t2, recvBy, postBy, k, kb1, kb2, early0, ok2, ok3, ok4⟩ := hG
      constructor <;> (try assumption) <;>
        simp_all [lateDirect, trySchedule] <;> (first | assumption | exact kb1 _ | exact kb2 _ | skip)
  · -- mDea deaB
    rename_i hpc
    obtain ⟨d1, ex, t1, t2, recvBy, postBy, k, kb1, kb2, early0, ok2, ok3, ok4⟩ := hG
    have hd : c.dea = some i := (d1 i).1 (by simp [hpc, GT.direct])
    have hw : c.w = .idle := by
      apply Classical.byContradiction; intro hn; have := ex hn; simp [hd] at this
    have hact := kb2 i hpc
    have hp0 : c.mon.posts = 0 := by
      rcases k hact with h | h | h
      · exact h
      · simp [hw, GW.inDeaLate] at h
      · simp [lateDirect, hd, hpc] at h
    constructor <;> (try intro j) <;> (try (by_cases hj : j = i)) <;> (try assumption) <;>
      simp_all [emit, monStep, setT, lateDirect, GT.direct, GW.inDea, GW.inDeaLate, sameOrNone, tidOf] <;>
      (first | assumption | omega | skip)
  · -- mDea deaE
    rename_i hpc
    obtain ⟨d1, ex, t1, t2, recvBy, postBy, k, kb1, kb2, early0, ok2, ok3, ok4⟩ := hG
    have hd : c.dea = some i := (d1 i).1 (by simp [hpc, GT.direct])
    have hw : c.w = .idle := by
      apply Classical.byContradiction; intro hn; have := ex hn; simp [hd] at this
    constructor <;> (try intro j) <;> (try (by_cases hj : j = i)) <;> (try assumption) <;>
      simp_all [emit, monStep, setT, lateDirect, GT.direct, GW.inDea, GW.inDeaLate, sameOrNone, tidOf] <;>
      (first | assumption | exact kb2 _ | omega | skip)
  · -- mDea fin
    rename_i hpc
    obtain ⟨d1, ex, t1, t2, recvBy, postBy, k, kb1, kb2, early0, ok2, ok3, ok4⟩ := hG
    have hd : c.dea = some i := (d1 i).1 (by simp [hpc, GT.direct])
    have hw : c.w = .idle := by
      apply Classical.byContradiction; intro hn; have := ex hn; simp [hd] at this
    have hothers : ∀ j, j ≠ i → (c.threads j).direct = false := by
      intro j hj
      cases h : (c.threads j).direct
      · rfl
      · have := (d1 j).1 h; simp [hd] at this; exact absurd this.symm hj
    constructor <;> (try intro j) <;> (try (by_cases hj : j = i)) <;> (try assumption) <;>
      simp_all [finish, setT, lateDirect, GT.direct, GW.inDea, GW.inDeaLate, tidOf] <;>
      (first | assumption | omega | (intro h; have := hothers _ hj; simp [h] at this) | skip)

theorem ginv_step (c : Cfg) (a : Nat) (hB : Base c) (hG : GInv c) : GInv (step c a) := by
  cases a with
  | zero => exact ginv_w c hB hG
  | succ k => exact ginv_t c k hB hG

end GoaktVerif.C31

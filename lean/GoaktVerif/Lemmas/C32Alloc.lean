/-
C32 — the inductive invariant of `allocateActors`'s loop and of `reassignByRole`'s loop.
Core Lean only.
-/
import GoaktVerif.Lemmas.C32

namespace GoaktVerif.C32
open GoaktVerif.Model.C32

/-- some target advertises the role -/
def eligibleSomewhere (targets : List (List Role)) (role : Role) : Bool :=
  targets.any (fun t => eligibleForRole t role)

/-- a non-singleton entry some target can host -/
def placeable (targets : List (List Role)) (a : Actor) : Bool :=
  !a.singleton && eligibleSomewhere targets a.role

/-- a non-singleton entry no target can host -/
def orphan (targets : List (List Role)) (a : Actor) : Bool :=
  !a.singleton && !eligibleSomewhere targets a.role

theorem initLoads_length (n : Nat) (base : List Nat) : (initLoads n base).length = n := by
  unfold initLoads; split
  · assumption
  · simp

/-- invariant of the `for _, actor := range nodeLeftState.GetActors()` loop after the prefix `pre`
    of the iteration order has been processed -/
structure AllocInv (targets : List (List Role)) (base : List Nat) (st : Alloc) (pre : List Actor) : Prop where
  len_shares : st.shares.length = targets.length
  len_loads : st.loads.length = targets.length
  loads_eq : ∀ j, j < targets.length →
    st.loads.getD j 0 = (initLoads targets.length base).getD j 0 + (st.shares.getD j []).length
  singles_eq : st.singles = pre.filter (·.singleton)
  unpl_eq : st.unplaceable = pre.filter (orphan targets)
  placed_perm : st.shares.flatten.Perm (pre.filter (placeable targets))
  elig : ∀ j a, a ∈ st.shares.getD j [] →
    eligibleForRole (targets.getD j []) a.role = true ∧ a.singleton = false

theorem allocInv_init (targets : List (List Role)) (base : List Nat) :
    AllocInv targets base (allocInit targets.length base) [] where
  len_shares := by simp [allocInit]
  len_loads := by simp [allocInit, initLoads_length]
  loads_eq := by intro j _; simp only [allocInit]; rw [getD_replicate_nil]; simp
  singles_eq := rfl
  unpl_eq := rfl
  placed_perm := by simp [allocInit]
  elig := by intro j a h; simp only [allocInit] at h; rw [getD_replicate_nil] at h; cases h

theorem allocInv_step (targets : List (List Role)) (base : List Nat) (st : Alloc) (pre : List Actor)
    (a : Actor) (h : AllocInv targets base st pre) :
    AllocInv targets base (allocStep targets st a) (pre ++ [a]) := by
  unfold allocStep
  cases hs : a.singleton with
  | true =>
    simp only [↓reduceIte]
    exact {
      len_shares := h.len_shares
      len_loads := h.len_loads
      loads_eq := h.loads_eq
      singles_eq := by simp [h.singles_eq, List.filter_append, hs]
      unpl_eq := by simp [h.unpl_eq, List.filter_append, orphan, hs]
      placed_perm := by simpa [List.filter_append, placeable, hs] using h.placed_perm
      elig := h.elig }
  | false =>
    simp only [Bool.false_eq_true, ↓reduceIte]
    cases hp : pickTarget targets st.loads a.role with
    | none =>
      have hnone := (pickTarget_none_iff targets st.loads a.role).1 hp
      simp only
      exact {
        len_shares := h.len_shares
        len_loads := h.len_loads
        loads_eq := h.loads_eq
        singles_eq := by simp [h.singles_eq, List.filter_append, hs]
        unpl_eq := by simp [h.unpl_eq, List.filter_append, orphan, eligibleSomewhere, hs, hnone]
        placed_perm := by simpa [List.filter_append, placeable, eligibleSomewhere, hs, hnone] using h.placed_perm
        elig := h.elig }
    | some i =>
      have hspec := pickUpTo_spec targets st.loads a.role targets.length
      unfold pickTarget at hp
      rw [hp] at hspec
      obtain ⟨hi, hie, _⟩ := hspec
      have hsome : eligibleSomewhere targets a.role = true :=
        (any_eligible_iff targets a.role).2 ⟨i, hi, hie⟩
      have hil : i < st.shares.length := by rw [h.len_shares]; exact hi
      have hill : i < st.loads.length := by rw [h.len_loads]; exact hi
      simp only
      exact {
        len_shares := by simp [appendAt_length, h.len_shares]
        len_loads := by simp [incAt_length, h.len_loads]
        loads_eq := by
          intro j hj
          simp only [incAt_getD, appendAt_getD]
          by_cases hji : j = i
          · subst hji
            simp only [hill, hil, and_self, ↓reduceIte, List.length_append, List.length_singleton]
            have := h.loads_eq j hj; omega
          · simp only [hji, false_and, ↓reduceIte]
            exact h.loads_eq j hj
        singles_eq := by simp [h.singles_eq, List.filter_append, hs]
        unpl_eq := by simp [h.unpl_eq, List.filter_append, orphan, hs, hsome]
        placed_perm := by
          have h1 := appendAt_flatten_perm st.shares i a hil
          have h2 : (pre ++ [a]).filter (placeable targets) = pre.filter (placeable targets) ++ [a] := by
            simp [List.filter_append, placeable, hs, hsome]
          rw [h2]
          exact h1.trans (List.Perm.append_right [a] h.placed_perm)
        elig := by
          intro j b hb
          rw [appendAt_getD] at hb
          split at hb
          · rename_i hc
            rcases List.mem_append.1 hb with hb | hb
            · rw [hc.1]; exact h.elig i b hb
            · simp only [List.mem_singleton] at hb
              subst hb; rw [hc.1]; exact ⟨hie, hs⟩
          · exact h.elig j b hb }

theorem allocInv_run (targets : List (List Role)) (base : List Nat) (order : List Actor) :
    AllocInv targets base (allocRun targets base order) order :=
  foldl_inv0 (allocStep targets) (AllocInv targets base) _ (allocInv_init targets base)
    (fun st pre a h => allocInv_step targets base st pre a h) order

/-- the three-way split of the departed node's entries that `allocateActors` computes -/
theorem alloc_partition (targets : List (List Role)) (base : List Nat) (order : List Actor) :
    let st := allocRun targets base order
    order.Perm (st.singles ++ st.shares.flatten ++ st.unplaceable) := by
  intro st
  have inv := allocInv_run targets base order
  have h3 := perm_three (fun a : Actor => a.singleton) (placeable targets) (orphan targets)
    (by
      intro a
      simp only [placeable, orphan]
      cases a.singleton <;> cases eligibleSomewhere targets a.role <;> simp) order
  refine h3.trans ?_
  show (List.filter (fun a => a.singleton) order ++ _ ++ _).Perm (st.singles ++ st.shares.flatten ++ st.unplaceable)
  rw [inv.singles_eq, inv.unpl_eq]
  exact List.Perm.append_right _ (List.Perm.append_left _ inv.placed_perm.symm)

theorem allocRun_append (targets : List (List Role)) (base : List Nat) (pre post : List Actor) :
    allocRun targets base (pre ++ post) = post.foldl (allocStep targets) (allocRun targets base pre) := by
  simp [allocRun, List.foldl_append]

/-- shares only grow -/
theorem allocStep_mono (targets : List (List Role)) (st : Alloc) (a b : Actor) (j : Nat)
    (h : b ∈ st.shares.getD j []) : b ∈ (allocStep targets st a).shares.getD j [] := by
  unfold allocStep
  split
  · exact h
  · split
    · exact h
    · exact mem_appendAt_getD _ _ _ _ _ h

theorem allocFold_mono (targets : List (List Role)) (l : List Actor) (st : Alloc) (b : Actor) (j : Nat)
    (h : b ∈ st.shares.getD j []) : b ∈ (l.foldl (allocStep targets) st).shares.getD j [] := by
  induction l generalizing st with
  | nil => exact h
  | cons a l ih => exact ih _ (allocStep_mono targets st a b j h)

theorem allocStep_unpl_mono (targets : List (List Role)) (st : Alloc) (a b : Actor)
    (h : b ∈ st.unplaceable) : b ∈ (allocStep targets st a).unplaceable := by
  unfold allocStep
  split
  · exact h
  · split
    · exact List.mem_append_left _ h
    · exact h

theorem allocFold_unpl_mono (targets : List (List Role)) (l : List Actor) (st : Alloc) (b : Actor)
    (h : b ∈ st.unplaceable) : b ∈ (l.foldl (allocStep targets) st).unplaceable := by
  induction l generalizing st with
  | nil => exact h
  | cons a l ih => exact ih _ (allocStep_unpl_mono targets st a b h)

/-! ### reassignByRole -/

/-- entry no survivor can host but the leader can -/
def leaderOnly (survivors : List (List Role)) (leaderRoles : List Role) (a : Actor) : Bool :=
  !eligibleSomewhere survivors a.role && eligibleForRole leaderRoles a.role

/-- entry nobody (survivors, leader) can host -/
def nobody (survivors : List (List Role)) (leaderRoles : List Role) (a : Actor) : Bool :=
  !eligibleSomewhere survivors a.role && !eligibleForRole leaderRoles a.role

structure ReassignInv (survivors : List (List Role)) (leaderRoles : List Role) (st : Reassign) (pre : List Actor) : Prop where
  len_shares : st.shares.length = survivors.length
  leader_eq : st.leader = pre.filter (leaderOnly survivors leaderRoles)
  failed_eq : st.failed = pre.filter (nobody survivors leaderRoles)
  placed_perm : st.shares.flatten.Perm (pre.filter (fun a => eligibleSomewhere survivors a.role))
  elig : ∀ j a, a ∈ st.shares.getD j [] → eligibleForRole (survivors.getD j []) a.role = true

theorem reassignInv_init (survivors : List (List Role)) (leaderRoles : List Role) :
    ReassignInv survivors leaderRoles (reassignInit survivors.length) [] where
  len_shares := by simp [reassignInit]
  leader_eq := rfl
  failed_eq := rfl
  placed_perm := by simp [reassignInit]
  elig := by intro j a h; simp only [reassignInit] at h; rw [getD_replicate_nil] at h; cases h

theorem reassignInv_step (survivors : List (List Role)) (leaderRoles : List Role) (st : Reassign)
    (pre : List Actor) (a : Actor) (h : ReassignInv survivors leaderRoles st pre) :
    ReassignInv survivors leaderRoles (reassignStep survivors leaderRoles st a) (pre ++ [a]) := by
  unfold reassignStep leastLoadedEligibleSurvivor
  cases hp : pickTarget survivors (st.shares.map List.length) a.role with
  | none =>
    have hnone := (pickTarget_none_iff survivors _ a.role).1 hp
    simp only
    cases hl : eligibleForRole leaderRoles a.role with
    | true =>
      simp only [↓reduceIte]
      exact {
        len_shares := h.len_shares
        leader_eq := by simp [h.leader_eq, List.filter_append, leaderOnly, eligibleSomewhere, hnone, hl]
        failed_eq := by simp [h.failed_eq, List.filter_append, nobody, eligibleSomewhere, hnone, hl]
        placed_perm := by simpa [List.filter_append, eligibleSomewhere, hnone] using h.placed_perm
        elig := h.elig }
    | false =>
      simp only [Bool.false_eq_true, ↓reduceIte]
      exact {
        len_shares := h.len_shares
        leader_eq := by simp [h.leader_eq, List.filter_append, leaderOnly, eligibleSomewhere, hnone, hl]
        failed_eq := by simp [h.failed_eq, List.filter_append, nobody, eligibleSomewhere, hnone, hl]
        placed_perm := by simpa [List.filter_append, eligibleSomewhere, hnone] using h.placed_perm
        elig := h.elig }
  | some i =>
    have hspec := pickUpTo_spec survivors (st.shares.map List.length) a.role survivors.length
    unfold pickTarget at hp
    rw [hp] at hspec
    obtain ⟨hi, hie, _⟩ := hspec
    have hsome : eligibleSomewhere survivors a.role = true :=
      (any_eligible_iff survivors a.role).2 ⟨i, hi, hie⟩
    have hil : i < st.shares.length := by rw [h.len_shares]; exact hi
    simp only
    exact {
      len_shares := by simp [appendAt_length, h.len_shares]
      leader_eq := by simp [h.leader_eq, List.filter_append, leaderOnly, hsome]
      failed_eq := by simp [h.failed_eq, List.filter_append, nobody, hsome]
      placed_perm := by
        have h1 := appendAt_flatten_perm st.shares i a hil
        have h2 : (pre ++ [a]).filter (fun a => eligibleSomewhere survivors a.role)
            = pre.filter (fun a => eligibleSomewhere survivors a.role) ++ [a] := by
          simp [List.filter_append, hsome]
        rw [h2]
        exact h1.trans (List.Perm.append_right [a] h.placed_perm)
      elig := by
        intro j b hb
        rw [appendAt_getD] at hb
        split at hb
        · rename_i hc
          rcases List.mem_append.1 hb with hb | hb
          · rw [hc.1]; exact h.elig i b hb
          · simp only [List.mem_singleton] at hb
            subst hb; rw [hc.1]; exact hie
        · exact h.elig j b hb }

theorem reassignInv_run (survivors : List (List Role)) (leaderRoles : List Role) (actors : List Actor) :
    ReassignInv survivors leaderRoles
      (actors.foldl (reassignStep survivors leaderRoles) (reassignInit survivors.length)) actors :=
  foldl_inv0 _ (ReassignInv survivors leaderRoles) _ (reassignInv_init survivors leaderRoles)
    (fun st pre a h => reassignInv_step survivors leaderRoles st pre a h) actors

theorem reassignStep_mono (survivors : List (List Role)) (leaderRoles : List Role) (st : Reassign)
    (a b : Actor) (j : Nat) (h : b ∈ st.shares.getD j []) :
    b ∈ (reassignStep survivors leaderRoles st a).shares.getD j [] := by
  unfold reassignStep
  split
  · exact mem_appendAt_getD _ _ _ _ _ h
  · split <;> exact h

theorem reassignFold_mono (survivors : List (List Role)) (leaderRoles : List Role) (l : List Actor)
    (st : Reassign) (b : Actor) (j : Nat) (h : b ∈ st.shares.getD j []) :
    b ∈ (l.foldl (reassignStep survivors leaderRoles) st).shares.getD j [] := by
  induction l generalizing st with
  | nil => exact h
  | cons a l ih => exact ih _ (reassignStep_mono survivors leaderRoles st a b j h)

end GoaktVerif.C32

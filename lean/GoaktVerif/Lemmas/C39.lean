/-
C39, generic part 1: joins of lists in an ACI structure depend only on the SET of elements.
-/
namespace GoaktVerif.C39

/-- a join-semilattice with unit on the well-formed elements of a carrier -/
structure Semi (C : Type) where
  join : C → C → C
  bot : C
  WF : C → Prop
  wf_bot : WF bot
  wf_join : ∀ a b, WF a → WF b → WF (join a b)
  comm : ∀ a b, WF a → WF b → join a b = join b a
  assoc : ∀ a b c, WF a → WF b → WF c → join (join a b) c = join a (join b c)
  idem : ∀ a, WF a → join a a = a
  bot_join : ∀ a, WF a → join bot a = a

variable {C : Type} (S : Semi C)

/-- the join of a list, folded left to right from the unit — the order in which a replica that
    starts empty merges what arrives -/
def J (l : List C) : C := l.foldl S.join S.bot

theorem join_bot (a : C) (h : S.WF a) : S.join a S.bot = a := by
  rw [S.comm a S.bot h S.wf_bot, S.bot_join a h]

theorem wf_foldl (a : C) (l : List C) (ha : S.WF a) (hl : ∀ x ∈ l, S.WF x) : S.WF (l.foldl S.join a) := by
  induction l generalizing a with
  | nil => exact ha
  | cons x t ih =>
    exact ih _ (S.wf_join a x ha (hl x List.mem_cons_self)) (fun y hy => hl y (List.mem_cons_of_mem _ hy))

theorem wf_J (l : List C) (hl : ∀ x ∈ l, S.WF x) : S.WF (J S l) := wf_foldl S _ l S.wf_bot hl

theorem foldl_eq (a : C) (l : List C) (ha : S.WF a) (hl : ∀ x ∈ l, S.WF x) :
    l.foldl S.join a = S.join a (J S l) := by
  induction l generalizing a with
  | nil => simp [J, join_bot S a ha]
  | cons x t ih =>
    have hx := hl x List.mem_cons_self
    have ht : ∀ y ∈ t, S.WF y := fun y hy => hl y (List.mem_cons_of_mem _ hy)
    simp only [List.foldl_cons, J]
    rw [ih (S.join a x) (S.wf_join a x ha hx) ht, ih (S.join S.bot x) (S.wf_join _ _ S.wf_bot hx) ht,
      S.bot_join x hx, S.assoc a x (J S t) ha hx (wf_J S t ht)]

theorem J_cons (x : C) (t : List C) (hx : S.WF x) (ht : ∀ y ∈ t, S.WF y) :
    J S (x :: t) = S.join x (J S t) := by
  simp only [J, List.foldl_cons]
  rw [foldl_eq S _ t (S.wf_join _ _ S.wf_bot hx) ht, S.bot_join x hx]
  rfl

/-- merging what arrived in two batches = merging the two joins -/
theorem J_append (l1 l2 : List C) (h1 : ∀ x ∈ l1, S.WF x) (h2 : ∀ x ∈ l2, S.WF x) :
    J S (l1 ++ l2) = S.join (J S l1) (J S l2) := by
  simp only [J, List.foldl_append]
  exact foldl_eq S _ l2 (wf_J S l1 h1) h2

/-- every element is below the join -/
theorem J_absorb (l : List C) (hl : ∀ x ∈ l, S.WF x) (x : C) (hx : x ∈ l) : S.join x (J S l) = J S l := by
  induction l with
  | nil => cases hx
  | cons y t ih =>
    have hy := hl y List.mem_cons_self
    have ht : ∀ z ∈ t, S.WF z := fun z hz => hl z (List.mem_cons_of_mem _ hz)
    have hJt := wf_J S t ht
    rw [J_cons S y t hy ht]
    rcases List.mem_cons.mp hx with rfl | hxt
    · rw [← S.assoc x x _ hy hy hJt, S.idem x hy]
    · have hxw := ht x hxt
      rw [← S.assoc x y _ hxw hy hJt, S.comm x y hxw hy, S.assoc y x _ hy hxw hJt, ih ht hxt]

/-- the join is the LEAST upper bound -/
theorem J_least (l : List C) (hl : ∀ x ∈ l, S.WF x) (u : C) (hu : S.WF u)
    (h : ∀ x ∈ l, S.join x u = u) : S.join (J S l) u = u := by
  induction l with
  | nil => exact S.bot_join u hu
  | cons y t ih =>
    have hy := hl y List.mem_cons_self
    have ht : ∀ z ∈ t, S.WF z := fun z hz => hl z (List.mem_cons_of_mem _ hz)
    rw [J_cons S y t hy ht, S.assoc y _ u hy (wf_J S t ht) hu,
      ih ht (fun x hx => h x (List.mem_cons_of_mem _ hx)), h y List.mem_cons_self]

theorem J_mono (l1 l2 : List C) (h1 : ∀ x ∈ l1, S.WF x) (h2 : ∀ x ∈ l2, S.WF x)
    (hsub : ∀ x ∈ l1, x ∈ l2) : S.join (J S l1) (J S l2) = J S l2 :=
  J_least S l1 h1 _ (wf_J S l2 h2) (fun x hx => J_absorb S l2 h2 x (hsub x hx))

/-- any order, any duplication: the join depends only on the set of elements -/
theorem J_sameSet (l1 l2 : List C) (h1 : ∀ x ∈ l1, S.WF x) (h2 : ∀ x ∈ l2, S.WF x)
    (h12 : ∀ x ∈ l1, x ∈ l2) (h21 : ∀ x ∈ l2, x ∈ l1) : J S l1 = J S l2 := by
  have a := J_mono S l1 l2 h1 h2 h12
  have b := J_mono S l2 l1 h2 h1 h21
  rw [S.comm _ _ (wf_J S l2 h2) (wf_J S l1 h1)] at b
  rw [← a, b]

end GoaktVerif.C39

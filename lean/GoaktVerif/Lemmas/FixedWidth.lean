/-
Helper lemmas about Lean's fixed-width integers, used to tie go2lean output (Int64/UInt32 …)
to Nat/Int-level models.
-/
namespace GoaktVerif.FixedWidth

/-- Go `uint32(len)` for an `int` that fits: low 32 bits = the value -/
theorem int64_toInt32_toUInt32_toNat (len : Int64) (h0 : 0 ≤ len.toInt) (h1 : len.toInt < 2^32) :
    (len.toInt32.toUInt32).toNat = len.toInt.toNat := by
  simp [← UInt32.toNat_toBitVec, BitVec.signExtend, - Int64.toNat_toInt]
  omega

/-- Go `int(i)` for `i : uint32` is the value -/
theorem uint32_toUInt64_toInt64_toInt (i : UInt32) : (i.toUInt64.toInt64).toInt = (i.toNat : Int) := by
  have := i.toNat_lt
  simp only [Int64.toInt, UInt64.toBitVec_toInt64, BitVec.toInt, UInt64.toNat_toBitVec, UInt32.toNat_toUInt64]
  split <;> omega

end GoaktVerif.FixedWidth

/-
C34 helper lemmas, part 1: facts about ONE handler call as seen by ONE node (`stepL`), for
arbitrary global state, timestamp, notification and `fire` flag.
-/
import GoaktVerif.Model.C34

namespace GoaktVerif.C34
open GoaktVerif.Model.C34

/-- per-node invariant: a node in the left filter has no pending departure, and an assigned
    left epoch belongs to a pending departure -/
def LInv (l : Loc) : Prop :=
  (l.leftF = true → l.leftTs = none) ∧ (l.leftEp.isSome = true → l.leftTs.isSome = true)

/-- `op` is a left notification for `n` -/
def isLeftOf (op : Op) (n : Node) : Bool :=
  match op with
  | .left m _ => m == n
  | _ => false

/-- `op` is a node-left rebalance-start of epoch `e` -/
def isStartLeft (op : Op) (e : Epoch) : Bool :=
  match op with
  | .start .left _ x => x == e
  | _ => false

theorem LInv_init : LInv Loc.init := by simp [LInv, Loc.init]

section
variable (g : Glob) (ts : Nat) (op : Op) (fire : Bool) (n : Node) (l : Loc)

theorem stepL_leftF_mono (h : l.leftF = true) : (stepL g ts op fire n l).1.leftF = true := by
  unfold stepL Loc.pendLeft Loc.pendJoin
  split <;> grind [isLeftOf, isStartLeft]

theorem stepL_left_emit (t : Nat) (h : (stepL g ts op fire n l).2.left = some t) :
    l.leftF = false ∧ (stepL g ts op fire n l).1.leftF = true := by
  unfold stepL Loc.pendLeft Loc.pendJoin at *
  split at h <;> grind [Ev.none, isLeftOf, isStartLeft]

theorem stepL_LInv (h : LInv l) : LInv (stepL g ts op fire n l).1 := by
  unfold LInv at *
  unfold stepL Loc.pendLeft Loc.pendJoin leftTracked
  split <;> grind [isLeftOf, isStartLeft]

theorem stepL_join_emit (t : Nat) (h : (stepL g ts op fire n l).2.join = some t) :
    (stepL g ts op fire n l).1.joinF = true := by
  unfold stepL Loc.pendLeft Loc.pendJoin at *
  split at h <;> grind [Ev.none, isLeftOf, isStartLeft]

/-- while the joined-filter holds `n`, it keeps holding and no NodeJoined(n) is emitted, unless
    the call is a left notification for `n` or emits NodeLeft(n) -/
theorem stepL_joinF_keep (hi : LInv l) (hj : l.joinF = true) (hop : isLeftOf op n = false)
    (hl : (stepL g ts op fire n l).2.left = none) :
    (stepL g ts op fire n l).1.joinF = true ∧ (stepL g ts op fire n l).2.join = none := by
  unfold LInv at hi
  unfold stepL Loc.pendLeft Loc.pendJoin joinTracked at *
  split at hl <;> grind [Ev.none, isLeftOf, isStartLeft]

/-- the local node is never tracked as joining and never reported as joined -/
theorem stepL_self_join (hn : n = self) (h : l.joinTs = none) :
    (stepL g ts op fire n l).1.joinTs = none ∧ (stepL g ts op fire n l).2.join = none := by
  unfold stepL Loc.pendLeft Loc.pendJoin joinTracked
  split <;> grind [Ev.none, isLeftOf, isStartLeft]

/-- the local node is never tracked as leaving and never reported as left -/
theorem stepL_self_left (hn : n = self) (h : l.leftTs = none) :
    (stepL g ts op fire n l).1.leftTs = none ∧ (stepL g ts op fire n l).2.left = none := by
  unfold stepL Loc.pendLeft Loc.pendJoin
  split <;> grind [Ev.none, isLeftOf, isStartLeft]

/-- a node with no pending departure stays so, and is not reported as left, unless the call is a
    left notification for it -/
theorem stepL_no_left (h : l.leftTs = none) (hop : isLeftOf op n = false) :
    (stepL g ts op fire n l).1.leftTs = none ∧ (stepL g ts op fire n l).2.left = none := by
  unfold stepL Loc.pendLeft Loc.pendJoin
  split <;> grind [Ev.none, isLeftOf, isStartLeft]

/-- where a pending-departure timestamp comes from -/
theorem stepL_leftTs_prov (t : Nat) (h : (stepL g ts op fire n l).1.leftTs = some t) :
    l.leftTs = some t ∨ (t = ts ∧ leftTracked l = true ∧ isLeftOf op n = true) := by
  unfold stepL Loc.pendLeft Loc.pendJoin leftTracked at *
  split at h <;> grind [isLeftOf, isStartLeft]

theorem stepL_left_emit_prov (t : Nat) (h : (stepL g ts op fire n l).2.left = some t) :
    l.leftTs = some t ∨ (t = ts ∧ isLeftOf op n = true) := by
  unfold stepL Loc.pendLeft Loc.pendJoin at h
  split at h <;> grind [Ev.none, isLeftOf, isStartLeft]

/-- where an assigned left epoch comes from -/
theorem stepL_leftEp_prov (e : Epoch) (h : (stepL g ts op fire n l).1.leftEp = some e) :
    l.leftEp = some e ∨ (e = g.leftLatest ∧ g.leftLatest ≠ 0 ∧ leftTracked l = true ∧ isLeftOf op n = true)
      ∨ (g.startSeen e = false ∧ isStartLeft op e = true) := by
  unfold stepL Loc.pendLeft Loc.pendJoin leftTracked at *
  split at h <;> grind [isLeftOf, isStartLeft]

/-- why a NodeLeft is emitted: the timeout, or an epoch that is complete after this call and is
    the node's assigned epoch / the latest left epoch given to a newly tracked departure / the
    epoch whose start is being processed -/
theorem stepL_left_emit_why (t : Nat) (h : (stepL g ts op fire n l).2.left = some t) :
    op = .overdue n ∨ ∃ e, (stepG g op).completeSeen e = true ∧
      ((l.leftEp = some e ∧ l.leftTs = some t)
        ∨ (e = g.leftLatest ∧ g.leftLatest ≠ 0 ∧ leftTracked l = true ∧ t = ts ∧ isLeftOf op n = true)
        ∨ (g.startSeen e = false ∧ l.leftTs = some t ∧ isStartLeft op e = true)) := by
  unfold stepL Loc.pendLeft Loc.pendJoin leftTracked stepG upd at *
  split at h <;> grind [Ev.none, isLeftOf, isStartLeft]

end

section
variable (g : Glob) (op : Op)

theorem stepG_complete_prov (e : Epoch) (h : (stepG g op).completeSeen e = true) :
    g.completeSeen e = true ∨ op = .complete e := by
  unfold stepG upd at h
  split at h <;> grind [isLeftOf, isStartLeft]

theorem stepG_complete_mono (e : Epoch) (h : g.completeSeen e = true) :
    (stepG g op).completeSeen e = true := by
  unfold stepG upd
  split <;> grind [isLeftOf, isStartLeft]

theorem stepG_leftLatest_prov (h : (stepG g op).leftLatest ≠ 0) :
    (stepG g op).leftLatest = g.leftLatest ∨ isStartLeft op (stepG g op).leftLatest = true := by
  unfold stepG isStartLeft at *
  split <;> grind [isLeftOf, isStartLeft]

end

end GoaktVerif.C34

/-
Dot lists: `containsDot`, `appendDotUnique`, the filter loop shared by ORSet.Merge / MVRegister.Merge,
and strictly sorted key lists.
-/
import GoaktVerif.Lemmas.Crdt.Merge
import GoaktVerif.Model.Crdt.ORSet

namespace GoaktVerif.Model.Crdt
open AMap

theorem containsDot_iff (l : List Dot) (d : Dot) : containsDot l d = true ↔ d ∈ l := by
  unfold containsDot
  rw [List.any_eq_true]
  constructor
  · rintro ⟨x, hx, h⟩
    simp only [Bool.and_eq_true, beq_iff_eq] at h
    have : x = d := by cases x; cases d; simp_all
    exact this ▸ hx
  · intro h; exact ⟨d, h, by simp⟩

theorem mem_appendDotUnique (l : List Dot) (d x : Dot) : x ∈ appendDotUnique l d ↔ x ∈ l ∨ x = d := by
  unfold appendDotUnique
  split
  · rename_i h; rw [containsDot_iff] at h
    constructor
    · exact Or.inl
    · rintro (h' | h')
      · exact h'
      · exact h' ▸ h
  · simp

theorem isDominated_iff (d : Dot) (c : AMap Nat) : isDominated d c = true ↔ d.counter ≤ c.getD d.nodeID 0 := by
  simp [isDominated]

theorem mem_keptLoop (acc mine : List Dot) (oc : AMap Nat) (od : List Dot) (x : Dot) :
    x ∈ ORSet.keptLoop acc mine oc od ↔
      x ∈ acc ∨ (x ∈ mine ∧ (¬ x.counter ≤ oc.getD x.nodeID 0 ∨ x ∈ od)) := by
  unfold ORSet.keptLoop
  induction mine generalizing acc with
  | nil => simp
  | cons d mine ih =>
    simp only [List.foldl_cons]
    rw [ih]
    by_cases hk : (!isDominated d oc || containsDot od d) = true
    · rw [if_pos hk, mem_appendDotUnique]
      simp only [Bool.or_eq_true, Bool.not_eq_true', containsDot_iff] at hk
      have hk' : ¬ d.counter ≤ oc.getD d.nodeID 0 ∨ d ∈ od := by
        rcases hk with h | h
        · left; intro hle; rw [← isDominated_iff] at hle; rw [hle] at h; cases h
        · right; exact h
      constructor
      · rintro ((h | h) | h)
        · exact Or.inl h
        · subst h; exact Or.inr ⟨List.mem_cons_self, hk'⟩
        · exact Or.inr ⟨List.mem_cons_of_mem _ h.1, h.2⟩
      · rintro (h | ⟨h, h2⟩)
        · exact Or.inl (Or.inl h)
        · rcases List.mem_cons.mp h with h | h
          · exact Or.inl (Or.inr h)
          · exact Or.inr ⟨h, h2⟩
    · rw [if_neg hk]
      simp only [Bool.or_eq_true, Bool.not_eq_true', containsDot_iff, not_or] at hk
      have hk1 : d.counter ≤ oc.getD d.nodeID 0 := by
        rw [← isDominated_iff]; cases h : isDominated d oc
        · exact absurd h hk.1
        · rfl
      constructor
      · rintro (h | ⟨h, h2⟩)
        · exact Or.inl h
        · exact Or.inr ⟨List.mem_cons_of_mem _ h, h2⟩
      · rintro (h | ⟨h, h2⟩)
        · exact Or.inl h
        · rcases List.mem_cons.mp h with h | h
          · subst h
            rcases h2 with h2 | h2
            · exact absurd hk1 h2
            · exact absurd h2 hk.2
          · exact Or.inr ⟨h, h2⟩

/-- the dots Merge keeps for one element -/
theorem mem_kept (s o : ORSet) (e : Nat) (x : Dot) :
    x ∈ ORSet.kept s o e ↔
      (x ∈ s.dotsOf e ∧ (¬ x.counter ≤ o.clock.getD x.nodeID 0 ∨ x ∈ o.dotsOf e)) ∨
      (x ∈ o.dotsOf e ∧ (¬ x.counter ≤ s.clock.getD x.nodeID 0 ∨ x ∈ s.dotsOf e)) := by
  unfold ORSet.kept
  rw [mem_keptLoop, mem_keptLoop]
  simp

/-! ### folds that build a map with `set` -/

theorem sorted_foldl_set {V : Type} (l : List Nat) (f : Nat → V) (p : Nat → Bool) {m : AMap V} (hm : Sorted m) :
    Sorted (l.foldl (fun (m : AMap V) e => if p e then m else AMap.set m e (f e)) m) := by
  induction l generalizing m with
  | nil => exact hm
  | cons e l ih =>
    simp only [List.foldl_cons]
    split
    · exact ih hm
    · exact ih (sorted_set hm _ _)

theorem get?_foldl_set {V : Type} (l : List Nat) (f : Nat → V) (p : Nat → Bool) (m : AMap V) (k : Nat) :
    get? (l.foldl (fun (m : AMap V) e => if p e then m else AMap.set m e (f e)) m) k =
      if k ∈ l ∧ p k = false then some (f k) else get? m k := by
  induction l generalizing m with
  | nil => simp
  | cons e l ih =>
    simp only [List.foldl_cons]
    rw [ih]
    by_cases hk : k ∈ l ∧ p k = false
    · rw [if_pos hk, if_pos ⟨List.mem_cons_of_mem _ hk.1, hk.2⟩]
    · rw [if_neg hk]
      by_cases hp : p e = true
      · rw [if_pos hp]
        by_cases hke : k = e
        · subst hke
          rw [if_neg]; intro h; rw [hp] at h; cases h.2
        · have : ¬ (k ∈ e :: l ∧ p k = false) := by
            intro h; rcases List.mem_cons.mp h.1 with h1 | h1
            · exact hke h1
            · exact hk ⟨h1, h.2⟩
          rw [if_neg this]
      · rw [if_neg hp, get?_set]
        by_cases hke : k = e
        · subst hke
          have hpf : p k = false := by cases h : p k <;> simp_all
          rw [if_pos rfl, if_pos ⟨List.mem_cons_self, hpf⟩]
        · rw [if_neg hke]
          have : ¬ (k ∈ e :: l ∧ p k = false) := by
            intro h; rcases List.mem_cons.mp h.1 with h1 | h1
            · exact hke h1
            · exact hk ⟨h1, h.2⟩
          rw [if_neg this]

theorem sorted_map_val' {V W : Type} {m : AMap V} (h : Sorted m) (f : Nat × V → W) :
    Sorted (m.map fun p => (p.1, f p)) := by
  unfold Sorted at *
  rw [List.pairwise_map]
  exact h

/-! ### strictly sorted lists of naturals are determined by their members -/

theorem sortedNat_ext {a b : List Nat} (ha : a.Pairwise (· < ·)) (hb : b.Pairwise (· < ·))
    (h : ∀ x, x ∈ a ↔ x ∈ b) : a = b := by
  induction a generalizing b with
  | nil =>
    cases b with
    | nil => rfl
    | cons y b => have := (h y).mpr List.mem_cons_self; simp at this
  | cons x a ih =>
    cases b with
    | nil => have := (h x).mp List.mem_cons_self; simp at this
    | cons y b =>
      rw [List.pairwise_cons] at ha hb
      have hxy : x = y := by
        have h1 := (h x).mp List.mem_cons_self
        have h2 := (h y).mpr List.mem_cons_self
        rcases List.mem_cons.mp h1 with h1 | h1
        · exact h1
        · rcases List.mem_cons.mp h2 with h2 | h2
          · exact h2.symm
          · have := hb.1 x h1; have := ha.1 y h2; omega
      subst hxy
      congr 1
      apply ih ha.2 hb.2
      intro z
      constructor
      · intro hz
        have := (h z).mp (List.mem_cons_of_mem _ hz)
        rcases List.mem_cons.mp this with h1 | h1
        · subst h1; have := ha.1 z hz; omega
        · exact h1
      · intro hz
        have := (h z).mpr (List.mem_cons_of_mem _ hz)
        rcases List.mem_cons.mp this with h1 | h1
        · subst h1; have := hb.1 z hz; omega
        · exact h1

end GoaktVerif.Model.Crdt

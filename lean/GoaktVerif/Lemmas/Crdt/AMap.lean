/-
Lemmas about the sorted association lists that model Go maps (Model/Crdt/AMap.lean):
lookup after set / erase, preservation of sortedness, and extensionality
(`AMap.ext`: sorted maps with the same lookups are equal).
-/
import GoaktVerif.Model.Crdt.AMap

namespace GoaktVerif.Model.Crdt
namespace AMap
variable {V : Type}

@[simp] theorem get?_nil (x : Nat) : get? ([] : AMap V) x = none := rfl

theorem get?_cons (k : Nat) (v : V) (m : AMap V) (x : Nat) :
    get? ((k, v) :: m) x = if x = k then some v else get? m x := rfl

theorem get?_set (m : AMap V) (x y : Nat) (v : V) :
    get? (set m x v) y = if y = x then some v else get? m y := by
  induction m with
  | nil => simp [set, get?]
  | cons p m ih =>
    obtain ⟨k, w⟩ := p
    simp only [set]
    split
    · simp [get?]
    · split
      · subst x; simp only [get?]; split <;> simp_all
      · simp only [get?, ih]
        split <;> split <;> simp_all

theorem getD_set (m : AMap V) (x y : Nat) (v d : V) :
    getD (set m x v) y d = if y = x then v else getD m y d := by
  unfold getD; rw [get?_set]; split <;> simp

theorem get?_eq_none_iff (m : AMap V) (x : Nat) : get? m x = none ↔ ∀ q ∈ m, q.1 ≠ x := by
  induction m with
  | nil => simp
  | cons p m ih =>
    obtain ⟨k, w⟩ := p
    simp only [get?]
    split
    · subst x; simp
    · rename_i h; simp only [ih, List.mem_cons, forall_eq_or_imp]
      constructor
      · intro h'; exact ⟨fun e => h e.symm, h'⟩
      · intro h'; exact h'.2

theorem mem_of_get? {m : AMap V} {x : Nat} {v : V} (h : get? m x = some v) : (x, v) ∈ m := by
  induction m with
  | nil => simp at h
  | cons p m ih =>
    obtain ⟨k, w⟩ := p
    simp only [get?] at h
    split at h
    · subst x; simp at h; subst h; simp
    · exact List.mem_cons_of_mem _ (ih h)

theorem sorted_cons {p : Nat × V} {m : AMap V} :
    Sorted (p :: m) ↔ (∀ q ∈ m, p.1 < q.1) ∧ Sorted m := List.pairwise_cons

theorem sorted_nil : Sorted ([] : AMap V) := List.Pairwise.nil

theorem get?_of_mem {m : AMap V} (hs : Sorted m) {x : Nat} {v : V} (h : (x, v) ∈ m) : get? m x = some v := by
  induction m with
  | nil => simp at h
  | cons p m ih =>
    obtain ⟨k, w⟩ := p
    rw [sorted_cons] at hs
    simp only [get?]
    rcases List.mem_cons.mp h with h | h
    · cases h; simp
    · have := hs.1 _ h
      simp only at this
      split
      · omega
      · exact ih hs.2 h

theorem mem_set {m : AMap V} {x : Nat} {v : V} {q : Nat × V} (h : q ∈ set m x v) : q = (x, v) ∨ q ∈ m := by
  induction m with
  | nil => simp [set] at h; exact Or.inl h
  | cons p m ih =>
    obtain ⟨k, w⟩ := p
    simp only [set] at h
    split at h
    · rcases List.mem_cons.mp h with h | h
      · exact Or.inl h
      · exact Or.inr h
    · split at h
      · rcases List.mem_cons.mp h with h | h
        · subst x; exact Or.inl h
        · exact Or.inr (List.mem_cons_of_mem _ h)
      · rcases List.mem_cons.mp h with h | h
        · exact Or.inr (h ▸ List.mem_cons_self)
        · rcases ih h with h | h
          · exact Or.inl h
          · exact Or.inr (List.mem_cons_of_mem _ h)

theorem sorted_set {m : AMap V} (hs : Sorted m) (x : Nat) (v : V) : Sorted (set m x v) := by
  induction m with
  | nil => simp [set, Sorted]
  | cons p m ih =>
    obtain ⟨k, w⟩ := p
    have hs' := sorted_cons.mp hs
    simp only [set]
    split
    · rename_i hlt
      refine sorted_cons.mpr ⟨?_, hs⟩
      intro q hq
      rcases List.mem_cons.mp hq with h | h
      · subst h; exact hlt
      · have := hs'.1 q h; simp only at this ⊢; omega
    · split
      · exact sorted_cons.mpr ⟨hs'.1, hs'.2⟩
      · rename_i h1 h2
        refine sorted_cons.mpr ⟨?_, ih hs'.2⟩
        intro q hq
        rcases mem_set hq with h | h
        · subst h; simp only; omega
        · exact hs'.1 q h

theorem mem_erase {m : AMap V} {x : Nat} {q : Nat × V} (h : q ∈ erase m x) : q ∈ m := by
  induction m with
  | nil => simp [erase] at h
  | cons p m ih =>
    obtain ⟨k, w⟩ := p
    simp only [erase] at h
    split at h
    · exact List.mem_cons_of_mem _ h
    · rcases List.mem_cons.mp h with h | h
      · exact h ▸ List.mem_cons_self
      · exact List.mem_cons_of_mem _ (ih h)

theorem sorted_erase {m : AMap V} (hs : Sorted m) (x : Nat) : Sorted (erase m x) := by
  induction m with
  | nil => simp [erase, Sorted]
  | cons p m ih =>
    obtain ⟨k, w⟩ := p
    have hs' := sorted_cons.mp hs
    simp only [erase]
    split
    · exact hs'.2
    · exact sorted_cons.mpr ⟨fun q hq => hs'.1 q (mem_erase hq), ih hs'.2⟩

theorem get?_erase {m : AMap V} (hs : Sorted m) (x y : Nat) :
    get? (erase m x) y = if y = x then none else get? m y := by
  induction m with
  | nil => simp [erase]
  | cons p m ih =>
    obtain ⟨k, w⟩ := p
    have hs' := sorted_cons.mp hs
    simp only [erase]
    split
    · subst x
      split
      · subst y
        rw [get?_eq_none_iff]
        intro q hq; have := hs'.1 q hq; simp only at this; omega
      · rename_i h; simp [get?, h]
    · rename_i h
      simp only [get?, ih hs'.2]
      split <;> split <;> simp_all

/-- extensionality: a sorted association list is determined by its lookups -/
theorem ext {a b : AMap V} (ha : Sorted a) (hb : Sorted b) (h : ∀ x, get? a x = get? b x) : a = b := by
  induction a generalizing b with
  | nil =>
    cases b with
    | nil => rfl
    | cons q b => obtain ⟨k, w⟩ := q; have := h k; simp [get?] at this
  | cons p a ih =>
    obtain ⟨k, v⟩ := p
    cases b with
    | nil => have := h k; simp [get?] at this
    | cons q b =>
      obtain ⟨k', v'⟩ := q
      have ha' := sorted_cons.mp ha
      have hb' := sorted_cons.mp hb
      have hk : k = k' := by
        rcases Nat.lt_trichotomy k k' with hlt | heq | hgt
        · have h1 := h k
          simp only [get?, if_true] at h1
          rw [if_neg (by omega)] at h1
          have : get? b k = none := by
            rw [get?_eq_none_iff]; intro q hq; have := hb'.1 q hq; simp only at this; omega
          rw [this] at h1; simp at h1
        · exact heq
        · have h1 := h k'
          simp only [get?, if_true] at h1
          rw [if_neg (by omega)] at h1
          have : get? a k' = none := by
            rw [get?_eq_none_iff]; intro q hq; have := ha'.1 q hq; simp only at this; omega
          rw [this] at h1; simp at h1
      subst hk
      have hv : v = v' := by have := h k; simpa [get?] using this
      subst hv
      congr 1
      apply ih ha'.2 hb'.2
      intro x
      by_cases hx : x = k
      · subst hx
        have e1 : get? a x = none := by
          rw [get?_eq_none_iff]; intro q hq; have := ha'.1 q hq; simp only at this; omega
        have e2 : get? b x = none := by
          rw [get?_eq_none_iff]; intro q hq; have := hb'.1 q hq; simp only at this; omega
        rw [e1, e2]
      · have := h x; simpa [get?, hx] using this

theorem mem_keys_iff (m : AMap V) (x : Nat) : x ∈ keys m ↔ (get? m x).isSome := by
  induction m with
  | nil => simp [keys]
  | cons p m ih =>
    obtain ⟨k, w⟩ := p
    simp only [keys, List.map_cons, List.mem_cons, get?] at ih ⊢
    split
    · subst x; simp
    · rename_i h; simp [h, ih]

theorem get?_isSome_of_mem {m : AMap V} {q : Nat × V} (h : q ∈ m) : (get? m q.1).isSome := by
  rw [← mem_keys_iff]; exact List.mem_map_of_mem h

theorem sortedB_iff (m : AMap V) : sortedB m = true ↔ Sorted m := by
  induction m with
  | nil => simp [sortedB, Sorted]
  | cons p m ih =>
    cases m with
    | nil => simp [sortedB, Sorted]
    | cons q m =>
      simp only [sortedB, Bool.and_eq_true, decide_eq_true_eq, ih]
      constructor
      · intro ⟨h1, h2⟩
        refine sorted_cons.mpr ⟨?_, h2⟩
        intro r hr
        rcases List.mem_cons.mp hr with h | h
        · subst h; exact h1
        · have := (sorted_cons.mp h2).1 r h; omega
      · intro h
        have h' := sorted_cons.mp h
        exact ⟨h'.1 q List.mem_cons_self, h'.2⟩

instance (m : AMap V) : Decidable (Sorted m) := decidable_of_iff _ (sortedB_iff m)

end AMap
end GoaktVerif.Model.Crdt

/-
Characterisation of the two map-merge loops of the crdt package:
`mergeMax` (GCounter.Merge) and `mergeClock` (MVRegister.Merge, ORSet.Merge).
-/
import GoaktVerif.Lemmas.Crdt.AMap

namespace GoaktVerif.Model.Crdt
open AMap

/-- pointwise join of two optional slots -/
def optMax : Option Nat → Option Nat → Option Nat
  | none, none => none
  | some x, none => some x
  | none, some y => some y
  | some x, some y => some (max x y)

theorem optMax_comm (a b : Option Nat) : optMax a b = optMax b a := by
  cases a <;> cases b <;> simp [optMax, Nat.max_comm]

theorem optMax_assoc (a b c : Option Nat) : optMax (optMax a b) c = optMax a (optMax b c) := by
  cases a <;> cases b <;> cases c <;> simp [optMax, Nat.max_assoc]

theorem optMax_idem (a : Option Nat) : optMax a a = a := by
  cases a <;> simp [optMax]

/-- one iteration of GCounter.Merge's loop -/
def maxStep (m : AMap Nat) (p : Nat × Nat) : AMap Nat :=
  match AMap.get? m p.1 with
  | none => AMap.set m p.1 p.2
  | some lv => if p.2 > lv then AMap.set m p.1 p.2 else m

theorem mergeMax_eq (a b : AMap Nat) : mergeMax a b = b.foldl maxStep a := rfl

theorem get?_maxStep (m : AMap Nat) (p : Nat × Nat) (k : Nat) :
    get? (maxStep m p) k = if k = p.1 then optMax (get? m p.1) (some p.2) else get? m k := by
  unfold maxStep
  cases h : get? m p.1 with
  | none => simp only [get?_set, optMax]
  | some lv =>
    simp only
    split
    · simp only [get?_set, optMax]
      split
      · congr 1; omega
      · rfl
    · split
      · subst k; rw [h]; simp only [optMax]; congr 1; omega
      · rfl

theorem sorted_maxStep {m : AMap Nat} (h : Sorted m) (p : Nat × Nat) : Sorted (maxStep m p) := by
  unfold maxStep
  split
  · exact sorted_set h _ _
  · split
    · exact sorted_set h _ _
    · exact h

theorem sorted_mergeMax {a : AMap Nat} (ha : Sorted a) (b : AMap Nat) : Sorted (mergeMax a b) := by
  rw [mergeMax_eq]
  induction b generalizing a with
  | nil => exact ha
  | cons p b ih => exact ih (sorted_maxStep ha p)

theorem get?_mergeMax (a : AMap Nat) {b : AMap Nat} (hb : Sorted b) (k : Nat) :
    get? (mergeMax a b) k = optMax (get? a k) (get? b k) := by
  rw [mergeMax_eq]
  induction b generalizing a with
  | nil => cases h : get? a k <;> simp [optMax, h]
  | cons p b ih =>
    obtain ⟨k0, v0⟩ := p
    have hb' := sorted_cons.mp hb
    simp only [List.foldl_cons]
    rw [ih _ hb'.2, get?_maxStep, get?_cons]
    split
    · subst k
      have : get? b k0 = none := by
        rw [get?_eq_none_iff]; intro q hq; have := hb'.1 q hq; simp only at this; omega
      rw [this]
      cases h : optMax (get? a k0) (some v0) <;> simp [optMax]
    · rfl

/-- one iteration of the clock-merge loop -/
def clockStep (m : AMap Nat) (p : Nat × Nat) : AMap Nat :=
  if p.2 > AMap.getD m p.1 0 then AMap.set m p.1 p.2 else m

theorem mergeClock_eq (a b : AMap Nat) : mergeClock a b = b.foldl clockStep a := rfl

theorem getD_clockStep (m : AMap Nat) (p : Nat × Nat) (k : Nat) :
    getD (clockStep m p) k 0 = if k = p.1 then max (getD m p.1 0) p.2 else getD m k 0 := by
  unfold clockStep
  split
  · rw [getD_set]; split
    · omega
    · rfl
  · split
    · subst k; omega
    · rfl

theorem sorted_clockStep {m : AMap Nat} (h : Sorted m) (p : Nat × Nat) : Sorted (clockStep m p) := by
  unfold clockStep
  split
  · exact sorted_set h _ _
  · exact h

theorem sorted_mergeClock {a : AMap Nat} (ha : Sorted a) (b : AMap Nat) : Sorted (mergeClock a b) := by
  rw [mergeClock_eq]
  induction b generalizing a with
  | nil => exact ha
  | cons p b ih => exact ih (sorted_clockStep ha p)

theorem getD_of_get?_none {V : Type} {m : AMap V} {k : Nat} (h : get? m k = none) (d : V) : getD m k d = d := by
  simp [getD, h]

theorem getD_cons (k : Nat) (v : Nat) (m : AMap Nat) (x : Nat) :
    getD ((k, v) :: m) x 0 = if x = k then v else getD m x 0 := by
  unfold getD; rw [get?_cons]; split <;> simp

/-- the merged version vector is the pointwise maximum -/
theorem getD_mergeClock (a : AMap Nat) {b : AMap Nat} (hb : Sorted b) (k : Nat) :
    getD (mergeClock a b) k 0 = max (getD a k 0) (getD b k 0) := by
  rw [mergeClock_eq]
  induction b generalizing a with
  | nil => simp [getD]
  | cons p b ih =>
    obtain ⟨k0, v0⟩ := p
    have hb' := sorted_cons.mp hb
    simp only [List.foldl_cons]
    rw [ih _ hb'.2, getD_clockStep, getD_cons]
    split
    · subst k
      have : get? b k0 = none := by
        rw [get?_eq_none_iff]; intro q hq; have := hb'.1 q hq; simp only at this; omega
      rw [getD_of_get?_none this]; simp
    · rfl

end GoaktVerif.Model.Crdt

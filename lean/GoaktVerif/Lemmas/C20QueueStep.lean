import GoaktVerif.Lemmas.C20QueueInv

/-
C20 — every step of every thread preserves the invariant of the repaired queue (`Mode.fresh`).
-/
set_option linter.unusedSimpArgs false
set_option linter.unusedVariables false

namespace GoaktVerif.C20
open GoaktVerif.Model.C20 GoaktVerif.Model.C20.Queue
open GoaktVerif.Spec.C20 (replay enqVals deqVals legal)

theorem getItem_fresh (c : Cfg) (pick : Option Nat) (v : Val) (h : c.mode = .fresh) :
    getItem c pick v = (c.nodes.length, alloc c { next := none, val := some v }) := by
  unfold getItem alloc
  split
  · rename_i _ hm; rw [h] at hm; cases hm
  · rfl

theorem stepP_eq (pick : Option Nat) (c : Cfg) (tid : Nat) (t : Thread) (pc : PC)
    (ht : c.threads[tid]? = some t) (hpc : t.pc = some pc) :
    stepP pick c tid =
      { (exec c tid t pick pc).1 with threads := (exec c tid t pick pc).1.threads.set tid (exec c tid t pick pc).2 } := by
  simp only [stepP, ht, hpc]

/-- the situation of one step: the invariant's pieces for `c`, and the stepping thread -/
structure Ctx (c : Cfg) (tid : Nat) (t : Thread) (pre post : List NodeId) : Prop where
  mode : c.mode = .fresh
  heap : HeapOk c pre post
  all : ∀ (tid : Nat) t, c.threads[tid]? = some t → ThreadOk c (pre ++ c.head :: post) (pre ++ [c.head]) t
  dist : Distinct c.threads
  ht : c.threads[tid]? = some t

/-- the stepping thread only changes its program counter (and the heap-irrelevant fields change) -/
theorem inv_pc {c ca : Cfg} {tid t pre post} (x : Ctx c tid t pre post) (s : SameHeap c ca) (hth : ca.threads = c.threads)
    (t' : Thread) (hloc : LocalOk c (pre ++ c.head :: post) (pre ++ [c.head]) t')
    (hown : ownedBy t' = ownedBy t ∨ ownedBy t' = none) :
    Inv { ca with threads := ca.threads.set tid t' } := by
  have hok := x.all tid t x.ht
  apply inv_update (c := c) (c1 := ca) (t := t) (pre := pre) (post := post) (pre' := pre) (post' := post)
    (by rw [s.mode]; exact x.mode) hth x.ht x.all x.dist (s.heapOk x.heap) (s.mono pre post _)
  · rw [s.head]
    apply s.threadOk
    refine ⟨hloc, ?_⟩
    intro n v ho
    cases hown with
    | inl h => exact hok.own n v (by rw [← h]; exact ho)
    | inr h => rw [h] at ho; cases ho
  · intro n v ho
    cases hown with
    | inl h => left; rw [← h]; exact ho
    | inr h => rw [h] at ho; cases ho

/-- the stepping thread allocates a node for `Enqueue(v)` and parks at `Load:tail` -/
theorem inv_alloc {c ca : Cfg} {tid t pre post} (x : Ctx c tid t pre post) (s : SameHeap c ca) (hth : ca.threads = c.threads)
    (t' : Thread) (v : Val) (hpc : t'.pc = some (.enqLoadTail ca.nodes.length v)) :
    Inv { alloc ca { next := none, val := some v } with
          threads := (alloc ca { next := none, val := some v }).threads.set tid t' } := by
  have hlen : ca.nodes.length = c.nodes.length := by rw [s.nodes]
  apply inv_update (c := c) (c1 := alloc ca _) (t := t) (pre := pre) (post := post) (pre' := pre) (post' := post)
    (by show ca.mode = _; rw [s.mode]; exact x.mode) (by show ca.threads = _; exact hth) x.ht x.all x.dist
    (heapOk_alloc (s.heapOk x.heap) _)
    ((s.mono pre post _).trans (mono_alloc ca _ pre post none))
  · refine ⟨localOk_of_simple (by rw [hpc]; trivial), ?_⟩
    intro n w ho
    simp only [ownedBy, hpc, Option.some.injEq, Prod.mk.injEq] at ho
    obtain ⟨rfl, rfl⟩ := ho
    refine ⟨by simp [alloc], ?_, nextOf_alloc_new _ _, valOf_alloc_new _ _⟩
    intro hmem
    have := (s.heapOk x.heap).bound _ hmem
    exact Nat.lt_irrefl _ this
  · intro n w ho
    simp only [ownedBy, hpc, Option.some.injEq, Prod.mk.injEq] at ho
    right; rw [← ho.1, hlen]; exact Nat.le_refl _

/-- starting the next operation of the program -/
theorem inv_start {c ca : Cfg} {tid t pre post} (x : Ctx c tid t pre post) (s : SameHeap c ca) (hth : ca.threads = c.threads)
    (t0 : Thread) (pick : Option Nat) :
    Inv { (startNext ca t0 pick).1 with threads := (startNext ca t0 pick).1.threads.set tid (startNext ca t0 pick).2 } := by
  have hm : ca.mode = .fresh := by rw [s.mode]; exact x.mode
  unfold startNext
  cases hp : t0.prog with
  | nil => exact inv_pc x s hth _ (localOk_of_simple trivial) (Or.inr rfl)
  | cons op rest =>
    cases op with
    | enq v =>
      simp only [getItem_fresh ca pick v hm]
      exact inv_alloc x s hth _ v rfl
    | deq => exact inv_pc x s hth _ (localOk_of_simple trivial) (Or.inr rfl)
    | len => exact inv_pc x s hth _ (localOk_of_simple trivial) (Or.inr rfl)
    | emp => exact inv_pc x s hth _ (localOk_of_simple trivial) (Or.inr rfl)
    | sig v => exact inv_pc x s hth _ (localOk_of_simple trivial) (Or.inr rfl)
    | iter => exact inv_pc x s hth _ (localOk_of_simple trivial) (Or.inr rfl)
    | shut => exact inv_pc x s hth _ (localOk_of_simple trivial) (Or.inr rfl)

theorem inv_finish {c ca : Cfg} {tid t pre post} (x : Ctx c tid t pre post) (s : SameHeap c ca) (hth : ca.threads = c.threads)
    (t0 : Thread) (r : Res) (pick : Option Nat) :
    Inv { (finishOp ca t0 r pick).1 with threads := (finishOp ca t0 r pick).1.threads.set tid (finishOp ca t0 r pick).2 } := by
  unfold finishOp
  cases t0.cur <;> exact inv_start x s hth _ pick

/-- `Dequeue` returns to its caller (no heap change besides the counters) -/
theorem inv_ret {c ca : Cfg} {tid t pre post} (x : Ctx c tid t pre post) (s : SameHeap c ca) (hth : ca.threads = c.threads)
    (t0 : Thread) (k : Cont) (r : Option Val) (pick : Option Nat) :
    Inv { (ret ca t0 k r pick).1 with threads := (ret ca t0 k r pick).1.threads.set tid (ret ca t0 k r pick).2 } := by
  unfold ret
  cases k with
  | plain => exact inv_finish x s hth _ _ pick
  | iter rem acc =>
    cases r with
    | none => exact inv_finish x s hth _ _ pick
    | some v =>
      simp only
      split
      · exact inv_finish x s hth _ _ pick
      · exact inv_pc x s hth _ (localOk_of_simple trivial) (Or.inr rfl)

/-! ### list facts -/

theorem nodup_split_unique {α} [DecidableEq α] : ∀ (a a' b b' : List α) (h : α), (a ++ h :: b).Nodup →
    a ++ h :: b = a' ++ h :: b' → a = a' ∧ b = b'
  | [], [], b, b', h, _, e => by simp at e; exact ⟨rfl, e⟩
  | [], y :: a', b, b', h, nd, e => by
    simp at e
    obtain ⟨rfl, e2⟩ := e
    subst e2
    simp at nd
  | y :: a, [], b, b', h, nd, e => by
    simp at e
    obtain ⟨rfl, e2⟩ := e
    simp at nd
  | y :: a, z :: a', b, b', h, nd, e => by
    simp only [List.cons_append, List.cons.injEq] at e
    obtain ⟨rfl, e2⟩ := e
    have nd' : (a ++ h :: b).Nodup := (List.nodup_cons.mp nd).2
    obtain ⟨r1, r2⟩ := nodup_split_unique a a' b b' h nd' e2
    exact ⟨by rw [r1], r2⟩

/-- a node of the front part that is the last node of the chain: nothing is behind the head -/
theorem post_nil_of_front_last {pre post : List NodeId} {hd h : NodeId} (nd : (pre ++ hd :: post).Nodup)
    (hf : h ∈ pre ++ [hd]) (hl : (pre ++ hd :: post).getLast? = some h) : post = [] := by
  cases hp : post.getLast? with
  | none => simpa using hp
  | some z =>
    exfalso
    have hz : z ∈ post := List.mem_of_getLast? hp
    obtain ⟨ys, hys⟩ := List.getLast?_eq_some_iff.mp hp
    have : (pre ++ hd :: post).getLast? = some z := by
      rw [List.getLast?_eq_some_iff]; exact ⟨pre ++ hd :: ys, by simp [hys]⟩
    rw [this] at hl
    cases hl
    have : (pre ++ [hd] ++ post).Nodup := by simpa using nd
    exact (List.nodup_append.mp this).2.2 _ hf _ hz rfl

theorem threadOk_nodes {c c1 chain front} {t : Thread} (hn : c1.nodes = c.nodes) (h : ThreadOk c chain front t) :
    ThreadOk c1 chain front t := by
  have e1 : ∀ i, nextOf c1 i = nextOf c i := by intro i; simp [nextOf, hn]
  have e2 : ∀ i, valOf c1 i = valOf c i := by intro i; simp [valOf, hn]
  constructor
  · have := h.loc
    unfold LocalOk at this ⊢
    split <;> simp_all
  · intro n v ho
    obtain ⟨h1, h2, h3, h4⟩ := h.own n v ho
    exact ⟨by rw [hn]; exact h1, h2, by rw [e1]; exact h3, by rw [e2]; exact h4⟩

theorem lin_snoc (c : Cfg) (tid : Nat) (e : Queue.Ev) :
    (logEv c tid e).lin.reverse.map (·.2) = c.lin.reverse.map (·.2) ++ [e] := by
  simp [logEv]

/-! ### the steps that change the heap -/

/-- `CAS:tail` (help or swing) -/
theorem inv_tail {c : Cfg} {tid t pre post} (x : Ctx c tid t pre post) (y : NodeId)
    (hy : y ∈ pre ++ c.head :: post) (t' : Thread) (hs : simplePc t'.pc)
    (hown : ownedBy t' = ownedBy t ∨ ownedBy t' = none) :
    Inv { { c with tail := y } with threads := c.threads.set tid t' } := by
  have hok := x.all tid t x.ht
  apply inv_update (c := c) (c1 := { c with tail := y }) (t := t) (pre := pre) (post := post) (pre' := pre) (post' := post)
    x.mode rfl x.ht x.all x.dist
  · exact ⟨x.heap.nodup, x.heap.bound, x.heap.linked.frame (fun _ _ => rfl), hy, x.heap.vals, x.heap.lin⟩
  · exact ⟨fun _ h => h, fun _ h => h, fun _ _ h => h, Nat.le_refl _, fun n hn _ _ => ⟨hn, rfl, rfl⟩⟩
  · show ThreadOk { c with tail := y } (pre ++ c.head :: post) (pre ++ [c.head]) t'
    apply threadOk_nodes (c := c) (c1 := { c with tail := y }) rfl
    refine ⟨localOk_of_simple hs, ?_⟩
    intro n v ho
    cases hown with
    | inl h => exact hok.own n v (by rw [← h]; exact ho)
    | inr h => rw [h] at ho; cases ho
  · intro n v ho
    cases hown with
    | inl h => left; rw [← h]; exact ho
    | inr h => rw [h] at ho; cases ho

/-- successful `CAS:next`: the enqueuer links its node behind the last node — the linearization point of `Enqueue` -/
theorem inv_link {c : Cfg} {tid t pre post} (x : Ctx c tid t pre post) (n : NodeId) (v : Val) (tl : NodeId)
    (hpc : t.pc = some (.enqLink n v tl)) (hnone : nextOf c tl = none) (t' : Thread)
    (hpc' : t'.pc = some (.enqSwing n tl)) :
    Inv { logEv (setNext c tl (some n)) tid (.enq v) with
          threads := (logEv (setNext c tl (some n)) tid (.enq v)).threads.set tid t' } := by
  have hok := x.all tid t x.ht
  have htl : tl ∈ pre ++ c.head :: post := by have := hok.loc; simpa [LocalOk, hpc] using this
  obtain ⟨hn1, hn2, hn3, hn4⟩ := hok.own n v (by simp [ownedBy, hpc])
  have hlast := x.heap.linked.last_of_none htl hnone
  have htllt := x.heap.bound tl htl
  have hne : n ≠ tl := fun e => hn2 (e ▸ htl)
  let c1 := logEv (setNext c tl (some n)) tid (.enq v)
  have nx : ∀ i, i ≠ tl → nextOf c1 i = nextOf c i := fun i hi => nextOf_setNext_ne c tl i _ hi
  have vx : ∀ i, valOf c1 i = valOf c i := fun i => valOf_setNext c tl i _
  have chain_eq : pre ++ c.head :: (post ++ [n]) = (pre ++ c.head :: post) ++ [n] := by simp
  apply inv_update (c := c) (c1 := c1) (t := t) (pre := pre) (post := post) (pre' := pre) (post' := post ++ [n])
    x.mode rfl x.ht x.all x.dist
  · constructor
    · show (pre ++ c.head :: (post ++ [n])).Nodup
      rw [chain_eq]
      apply List.nodup_append.mpr
      refine ⟨x.heap.nodup, by simp, ?_⟩
      intro a ha b hb
      simp at hb; subst hb
      exact fun e => hn2 (e ▸ ha)
    · show ∀ i ∈ pre ++ c.head :: (post ++ [n]), i < (setNext c tl (some n)).nodes.length
      rw [chain_eq, length_setNext]
      intro i hi
      rcases List.mem_append.mp hi with h | h
      · exact x.heap.bound i h
      · simp at h; subst h; exact hn1
    · show Linked c1 (pre ++ c.head :: (post ++ [n]))
      rw [chain_eq]
      exact Linked.append x.heap.linked hlast (fun i _ hi => nx i hi)
        (nextOf_setNext_self c tl _ htllt) (by rw [nx n hne]; exact hn3)
    · show c.tail ∈ pre ++ c.head :: (post ++ [n])
      rw [chain_eq]; exact List.mem_append_left _ x.heap.tailIn
    · intro i hi
      rw [vx]
      rcases List.mem_append.mp hi with h | h
      · exact x.heap.vals i h
      · simp at h; subst h; simp [hn4]
    · show replay (c1.lin.reverse.map (·.2)) [] = _
      rw [lin_snoc, replay_append]
      show (replay (c.lin.reverse.map (·.2)) []).bind _ = _
      rw [x.heap.lin]
      have : (post ++ [n]).filterMap (valOf c1) = post.filterMap (valOf c) ++ [v] := by
        rw [List.filterMap_append]
        congr 1
        · exact filterMap_congr' _ _ _ (fun a _ => vx a)
        · simp [vx, hn4]
      rw [this]
      simp [replay]
  · constructor
    · intro i hi; show i ∈ pre ++ c.head :: (post ++ [n]); rw [chain_eq]; exact List.mem_append_left _ hi
    · intro i hi; exact hi
    · intro i y hy
      have : i ≠ tl := by intro e; rw [e, hnone] at hy; cases hy
      rw [nx i this]; exact hy
    · show c.nodes.length ≤ (setNext c tl (some n)).nodes.length
      rw [length_setNext]; exact Nat.le_refl _
    · intro m hm _ hsp
      have hmn : m ≠ n := by
        intro e; apply hsp; simp [ownedBy, hpc, e]
      have hmtl : m ≠ tl := fun e => hm (e ▸ htl)
      refine ⟨?_, nx m hmtl, vx m⟩
      show m ∉ pre ++ c.head :: (post ++ [n])
      rw [chain_eq]
      intro hmem
      rcases List.mem_append.mp hmem with h | h
      · exact hm h
      · simp at h; exact hmn h
  · refine ⟨?_, ?_⟩
    · show LocalOk c1 (pre ++ c.head :: (post ++ [n])) _ t'
      simp only [LocalOk, hpc']
      rw [chain_eq]; simp
    · intro m w ho; simp [ownedBy, hpc'] at ho
  · intro m w ho; simp [ownedBy, hpc'] at ho

/-- successful `CAS:head`: the dequeuer moves head to its successor — the linearization point of a non-empty `Dequeue` -/
theorem inv_deq {c : Cfg} {tid t pre post} (x : Ctx c tid t pre post) (k : Cont) (h y : NodeId)
    (hpc : t.pc = some (.deqCas k h y)) (hh : c.head = h) (t' : Thread)
    (hpc' : t'.pc = some (.deqAdd k (valOf c y))) :
    Inv { logEv (setVal { c with head := y } y none) tid (.deq (valOf c y)) with
          threads := (logEv (setVal { c with head := y } y none) tid (.deq (valOf c y))).threads.set tid t' } := by
  have hok := x.all tid t x.ht
  have hloc : h ∈ pre ++ [c.head] ∧ nextOf c h = some y := by have := hok.loc; simpa [LocalOk, hpc] using this
  subst hh
  have hnext := hloc.2
  obtain ⟨l1, l2, hsplit⟩ := x.heap.linked.split_of_some (i := c.head) (by simp) hnext
  obtain ⟨e1, e2⟩ := nodup_split_unique pre l1 post (y :: l2) c.head x.heap.nodup hsplit
  subst e1
  subst e2
  have hy_post : y ∈ y :: l2 := by simp
  obtain ⟨v, hv⟩ := Option.isSome_iff_exists.mp (x.heap.vals y hy_post)
  have hylt : y < c.nodes.length := x.heap.bound y (by simp)
  have nd : (pre ++ c.head :: y :: l2).Nodup := x.heap.nodup
  have hy_notin : y ∉ l2 := by
    have : (pre ++ [c.head] ++ y :: l2).Nodup := by simpa using nd
    have := (List.nodup_append.mp this).2.1
    exact (List.nodup_cons.mp this).1
  let c1 := logEv (setVal { c with head := y } y none) tid (.deq (valOf c y))
  have nx : ∀ i, nextOf c1 i = nextOf c i := fun i => nextOf_setVal { c with head := y } y i none
  have vx : ∀ i, i ≠ y → valOf c1 i = valOf c i := fun i hi => valOf_setVal_ne { c with head := y } y i none hi
  have chain_eq : (pre ++ [c.head]) ++ y :: l2 = pre ++ c.head :: y :: l2 := by simp
  apply inv_update (c := c) (c1 := c1) (t := t) (pre := pre) (post := y :: l2) (pre' := pre ++ [c.head]) (post' := l2)
    x.mode rfl x.ht x.all x.dist
  · constructor
    · show ((pre ++ [c.head]) ++ y :: l2).Nodup
      rw [chain_eq]; exact nd
    · show ∀ i ∈ (pre ++ [c.head]) ++ y :: l2, i < (setVal { c with head := y } y none).nodes.length
      rw [chain_eq, length_setVal]; exact x.heap.bound
    · show Linked c1 ((pre ++ [c.head]) ++ y :: l2)
      rw [chain_eq]; exact x.heap.linked.frame (fun i _ => nx i)
    · show c.tail ∈ (pre ++ [c.head]) ++ y :: l2
      rw [chain_eq]; exact x.heap.tailIn
    · intro i hi
      have : i ≠ y := fun e => hy_notin (e ▸ hi)
      rw [vx i this]; exact x.heap.vals i (List.mem_cons_of_mem _ hi)
    · show replay (c1.lin.reverse.map (·.2)) [] = _
      rw [lin_snoc, replay_append]
      show (replay (c.lin.reverse.map (·.2)) []).bind _ = _
      rw [x.heap.lin]
      have e1 : (y :: l2).filterMap (valOf c) = v :: l2.filterMap (valOf c) := by simp [List.filterMap_cons, hv]
      have e2 : l2.filterMap (valOf c1) = l2.filterMap (valOf c) :=
        filterMap_congr' _ _ _ (fun a ha => vx a (fun e => hy_notin (e ▸ ha)))
      rw [e1, e2, hv]
      simp [replay]
  · constructor
    · intro i hi; show i ∈ (pre ++ [c.head]) ++ y :: l2; rw [chain_eq]; exact hi
    · intro i hi; show i ∈ (pre ++ [c.head]) ++ [y]; exact List.mem_append_left _ hi
    · intro i z hz; rw [nx]; exact hz
    · show c.nodes.length ≤ (setVal { c with head := y } y none).nodes.length
      rw [length_setVal]; exact Nat.le_refl _
    · intro m hm _ _
      have hmy : m ≠ y := fun e => hm (by rw [e]; simp)
      refine ⟨?_, nx m, vx m hmy⟩
      show m ∉ (pre ++ [c.head]) ++ y :: l2
      rw [chain_eq]; exact hm
  · exact ⟨localOk_of_simple (by rw [hpc']; trivial), by intro m w ho; simp [ownedBy, hpc'] at ho⟩
  · intro m w ho; simp [ownedBy, hpc'] at ho

/-- `Load:next` reads nil: the linearization point of an empty `Dequeue`; yields the situation for `ret` -/
theorem ctx_deq_none {c : Cfg} {tid t pre post} (x : Ctx c tid t pre post) (k : Cont) (h : NodeId)
    (hpc : t.pc = some (.deqLoadNext k h)) (hnone : nextOf c h = none) :
    Ctx (logEv c tid (.deq none)) tid t pre post := by
  have hok := x.all tid t x.ht
  have hf : h ∈ pre ++ [c.head] := by have := hok.loc; simpa [LocalOk, hpc] using this
  have hch : h ∈ pre ++ c.head :: post := by
    rcases List.mem_append.mp hf with h1 | h1
    · exact List.mem_append_left _ h1
    · simp at h1; subst h1; simp
  have hlast := x.heap.linked.last_of_none hch hnone
  have hpost : post = [] := post_nil_of_front_last x.heap.nodup hf hlast
  refine ⟨x.mode, ?_, ?_, x.dist, x.ht⟩
  · refine ⟨x.heap.nodup, x.heap.bound, x.heap.linked.frame (fun _ _ => rfl), x.heap.tailIn, x.heap.vals, ?_⟩
    show replay ((logEv c tid (.deq none)).lin.reverse.map (·.2)) [] = _
    rw [lin_snoc, replay_append, x.heap.lin]
    subst hpost
    simp [replay]
  · intro j tj hj
    exact threadOk_nodes (c := c) rfl (x.all j tj hj)

theorem exec_deqCas_fresh (c : Cfg) (tid : Nat) (t : Thread) (pick : Option Nat) (k : Cont) (h y : NodeId)
    (hm : c.mode = .fresh) (hh : c.head = h) :
    exec c tid t pick (.deqCas k h y) =
      (logEv (setVal { c with head := y } y none) tid (.deq (valOf c y)), { t with pc := some (.deqAdd k (valOf c y)) }) := by
  simp only [exec, hh, if_true]
  split
  · rename_i heq; rw [hm] at heq; cases heq
  · rfl

theorem exec_deqCas_fail (c : Cfg) (tid : Nat) (t : Thread) (pick : Option Nat) (k : Cont) (h y : NodeId)
    (hh : ¬ c.head = h) :
    exec c tid t pick (.deqCas k h y) = (c, { t with pc := some (.deqLoadHead k) }) := by
  simp only [exec, hh, if_false]

/-! ### every step preserves the invariant -/

theorem inv_step {c : Cfg} (hinv : Inv c) (pick : Option Nat) (tid : Nat) : Inv (stepP pick c tid) := by
  obtain ⟨hmode, pre, post, hheap, hall, hdist⟩ := hinv
  cases ht : c.threads[tid]? with
  | none => simp only [stepP, ht]; exact ⟨hmode, pre, post, hheap, hall, hdist⟩
  | some t =>
    cases hpc : t.pc with
    | none => simp only [stepP, ht, hpc]; exact ⟨hmode, pre, post, hheap, hall, hdist⟩
    | some pc =>
      have x : Ctx c tid t pre post := ⟨hmode, hheap, hall, hdist, ht⟩
      have hok := hall tid t ht
      rw [stepP_eq pick c tid t pc ht hpc]
      cases pc with
      | enqLoadTail n v =>
        simp only [exec]
        exact inv_pc x (SameHeap.refl c) rfl _ (by simp only [LocalOk]; exact hheap.tailIn) (Or.inl (by simp [ownedBy, hpc]))
      | enqLoadNext n v tl =>
        have htl : tl ∈ pre ++ c.head :: post := by have := hok.loc; simpa [LocalOk, hpc] using this
        simp only [exec]
        cases hn : nextOf c tl with
        | none => exact inv_pc x (SameHeap.refl c) rfl _ (by simp only [LocalOk]; exact htl) (Or.inl (by simp [ownedBy, hpc]))
        | some y => exact inv_pc x (SameHeap.refl c) rfl _ (by simp only [LocalOk]; exact ⟨htl, hn⟩) (Or.inl (by simp [ownedBy, hpc]))
      | enqHelp n v tl y =>
        have hl : tl ∈ pre ++ c.head :: post ∧ nextOf c tl = some y := by have := hok.loc; simpa [LocalOk, hpc] using this
        simp only [exec]
        split
        · exact inv_tail x y (hheap.linked.mem_of_some hl.1 hl.2) _ trivial (Or.inl (by simp [ownedBy, hpc]))
        · exact inv_pc x (SameHeap.refl c) rfl _ (localOk_of_simple trivial) (Or.inl (by simp [ownedBy, hpc]))
      | enqLink n v tl =>
        simp only [exec]
        cases hn : nextOf c tl with
        | none => exact inv_link x n v tl hpc hn _ rfl
        | some y => exact inv_pc x (SameHeap.refl c) rfl _ (localOk_of_simple trivial) (Or.inl (by simp [ownedBy, hpc]))
      | enqSwing n tl =>
        have hn : n ∈ pre ++ c.head :: post := by have := hok.loc; simpa [LocalOk, hpc] using this
        simp only [exec]
        split
        · exact inv_tail x n hn _ trivial (Or.inr rfl)
        · exact inv_pc x (SameHeap.refl c) rfl _ (localOk_of_simple trivial) (Or.inr rfl)
      | enqAdd =>
        simp only [exec]
        exact inv_finish x (ca := { c with len := c.len + 1 }) ⟨rfl, rfl, rfl, rfl, rfl⟩ rfl _ _ _
      | deqLoadHead k =>
        simp only [exec]
        exact inv_pc x (SameHeap.refl c) rfl _ (by simp [LocalOk]) (Or.inr rfl)
      | deqLoadNext k h =>
        have hf : h ∈ pre ++ [c.head] := by have := hok.loc; simpa [LocalOk, hpc] using this
        simp only [exec]
        cases hn : nextOf c h with
        | none =>
          have x1 := ctx_deq_none x k h hpc hn
          exact inv_ret x1 (SameHeap.refl _) rfl _ _ _ _
        | some y => exact inv_pc x (SameHeap.refl c) rfl _ (by simp only [LocalOk]; exact ⟨hf, hn⟩) (Or.inr rfl)
      | deqCas k h y =>
        by_cases hh : c.head = h
        · rw [exec_deqCas_fresh c tid t pick k h y hmode hh]
          exact inv_deq x k h y hpc hh _ rfl
        · rw [exec_deqCas_fail c tid t pick k h y hh]
          exact inv_pc x (SameHeap.refl c) rfl _ (localOk_of_simple trivial) (Or.inr rfl)
      | deqAdd k r =>
        simp only [exec]
        exact inv_ret x (ca := { c with len := c.len - 1 }) ⟨rfl, rfl, rfl, rfl, rfl⟩ rfl _ _ _ _
      | len => simp only [exec]; exact inv_finish x (SameHeap.refl c) rfl _ _ _
      | emp => simp only [exec]; exact inv_finish x (SameHeap.refl c) rfl _ _ _
      | sigActive v =>
        simp only [exec]
        split
        · simp only [getItem_fresh c pick v hmode]
          exact inv_alloc x (SameHeap.refl c) rfl _ v rfl
        · exact inv_finish x (SameHeap.refl c) rfl _ _ _
      | itLen =>
        simp only [exec]
        split
        · exact inv_finish x (SameHeap.refl c) rfl _ _ _
        · split
          · exact inv_finish x (SameHeap.refl c) rfl _ _ _
          · exact inv_pc x (SameHeap.refl c) rfl _ (localOk_of_simple trivial) (Or.inr rfl)
      | shut =>
        simp only [exec]
        exact inv_finish x (ca := { c with active := false }) ⟨rfl, rfl, rfl, rfl, rfl⟩ rfl _ _ _

end GoaktVerif.C20

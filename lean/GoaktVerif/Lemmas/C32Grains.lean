/-
C32 — Chunkify, allocateGrains and the grain round-robin. Core Lean only.
-/
import GoaktVerif.Lemmas.C32

namespace GoaktVerif.C32
open GoaktVerif.Model.C32

/-- with a positive chunk size and enough fuel the chunks concatenate back to the slice -/
theorem chunkifyAux_flatten {α : Type} (fuel : Nat) (l : List α) (size : Nat)
    (hs : 0 < size) (hf : l.length ≤ fuel) : (chunkifyAux fuel l size).flatten = l := by
  induction fuel generalizing l size with
  | zero =>
    have : l = [] := List.eq_nil_of_length_eq_zero (by omega)
    subst this; rfl
  | succ fuel ih =>
    unfold chunkifyAux
    cases l with
    | nil => simp
    | cons x xs =>
      simp only [List.isEmpty_cons, Bool.false_eq_true, ↓reduceIte, List.flatten_cons]
      have hpos : 0 < (if (x :: xs).length < size then (x :: xs).length else size) := by
        split <;> simp_all
      have hle : (if (x :: xs).length < size then (x :: xs).length else size) ≤ (x :: xs).length := by
        split <;> omega
      rw [ih _ _ hpos (by simp only [List.length_drop]; simp only [List.length_cons] at hf hle hpos ⊢; omega)]
      exact List.take_append_drop _ _

/-- every chunk is non-empty and no longer than the chunk size -/
theorem chunkifyAux_bounds {α : Type} (fuel : Nat) (l : List α) (size : Nat) (hs : 0 < size) :
    ∀ c ∈ chunkifyAux fuel l size, 0 < c.length ∧ c.length ≤ size := by
  induction fuel generalizing l size with
  | zero => intro c hc; simp [chunkifyAux] at hc
  | succ fuel ih =>
    intro c hc
    unfold chunkifyAux at hc
    cases l with
    | nil => simp at hc
    | cons x xs =>
      simp only [List.isEmpty_cons, Bool.false_eq_true, ↓reduceIte, List.mem_cons] at hc
      have hpos : 0 < (if (x :: xs).length < size then (x :: xs).length else size) := by
        split <;> simp_all
      have hle : (if (x :: xs).length < size then (x :: xs).length else size) ≤ size := by
        split <;> omega
      have hle2 : (if (x :: xs).length < size then (x :: xs).length else size) ≤ (x :: xs).length := by
        split <;> omega
      rcases hc with hc | hc
      · subst hc
        simp only [List.length_take]
        omega
      · have := ih _ _ hpos c hc
        omega

/-- a slice of exactly `t * q` items splits into exactly `t` chunks of `q` items each -/
theorem chunkifyAux_exact {α : Type} (t : Nat) (fuel : Nat) (l : List α) (q : Nat)
    (hq : 0 < q) (hl : l.length = t * q) (hf : l.length ≤ fuel) :
    (chunkifyAux fuel l q).length = t ∧ ∀ c ∈ chunkifyAux fuel l q, c.length = q := by
  induction t generalizing fuel l with
  | zero =>
    have : l = [] := List.eq_nil_of_length_eq_zero (by omega)
    subst this
    cases fuel <;> simp [chunkifyAux]
  | succ t ih =>
    have hlen : q ≤ l.length := by rw [hl, Nat.succ_mul]; omega
    cases fuel with
    | zero => omega
    | succ fuel =>
      unfold chunkifyAux
      cases l with
      | nil => simp at hlen; omega
      | cons x xs =>
        have hsz : (if (x :: xs).length < q then (x :: xs).length else q) = q := by
          split
          · omega
          · rfl
        simp only [List.isEmpty_cons, Bool.false_eq_true, ↓reduceIte, hsz]
        have hdl : ((x :: xs).drop q).length = t * q := by
          rw [List.length_drop, hl, Nat.succ_mul]; omega
        obtain ⟨h1, h2⟩ := ih fuel ((x :: xs).drop q) hdl (by rw [hdl]; rw [hl, Nat.succ_mul] at hf; omega)
        refine ⟨by simp [h1], ?_⟩
        intro c hc
        rcases List.mem_cons.1 hc with hc | hc
        · subst hc; rw [List.length_take]; omega
        · exact h2 c hc

theorem chunkify_flatten {α : Type} (l : List α) (size : Nat) (hs : 0 < size) :
    (chunkify l size).flatten = l := chunkifyAux_flatten _ _ _ hs (Nat.le_refl _)

theorem chunkify_bounds {α : Type} (l : List α) (size : Nat) (hs : 0 < size) :
    ∀ c ∈ chunkify l size, 0 < c.length ∧ c.length ≤ size := chunkifyAux_bounds _ _ _ hs

theorem chunkify_nil {α : Type} (size : Nat) : chunkify ([] : List α) size = [] := rfl

/-! ### allocateGrains -/

theorem allocateGrains_spec (t : Nat) (grains : List Grain) (ht : 0 < t) :
    (allocateGrains t grains).1 ++ ((allocateGrains t grains).2.drop 1).flatten = grains
    ∧ (allocateGrains t grains).2.length ≤ t
    ∧ (∀ c ∈ (allocateGrains t grains).2, c.length = grains.length / t)
    ∧ ((allocateGrains t grains).2.length = t ∨ (allocateGrains t grains).2 = []) := by
  simp only [allocateGrains]
  by_cases hq : grains.length / t = 0
  · -- fewer grains than targets: everything is "remainder" and stays on the leader
    have hlt : grains.length < t := by
      rcases Nat.div_eq_zero_iff.1 hq with h | h
      · omega
      · exact h
    have hr : grains.length % t = grains.length := Nat.mod_eq_of_lt hlt
    have hd : grains.drop (grains.length % t) = [] := by rw [hr]; simp
    rw [hd, hq, hr, chunkify_nil]
    simp
  · have hq' : 0 < grains.length / t := Nat.pos_of_ne_zero hq
    have hdl : (grains.drop (grains.length % t)).length = t * (grains.length / t) := by
      rw [List.length_drop]
      have := Nat.div_add_mod grains.length t
      omega
    obtain ⟨h1, h2⟩ := chunkifyAux_exact t _ (grains.drop (grains.length % t)) (grains.length / t) hq' hdl (Nat.le_refl _)
    refine ⟨?_, ?_, ?_, ?_⟩
    · rw [List.append_assoc, headD_append_flatten_tail, chunkify_flatten _ _ hq']
      exact List.take_append_drop _ _
    · unfold chunkify; omega
    · exact h2
    · left; exact h1

/-! ### grain round-robin of relocateShare -/

theorem rrLoop_length (k : Nat) (gs : List Grain) (i : Nat) (sh : List (List Grain)) :
    (rrLoop k gs i sh).length = sh.length := by
  induction gs generalizing i sh with
  | nil => rfl
  | cons g gs ih => simp [rrLoop, ih, appendAt_length]

theorem rrLoop_perm (k : Nat) (hk : 0 < k) (gs : List Grain) (i : Nat) (sh : List (List Grain))
    (hl : sh.length = k) : (rrLoop k gs i sh).flatten.Perm (sh.flatten ++ gs) := by
  induction gs generalizing i sh with
  | nil => simp [rrLoop]
  | cons g gs ih =>
    simp only [rrLoop]
    have hlt : i % k < sh.length := by rw [hl]; exact Nat.mod_lt _ hk
    have h1 := ih (i + 1) (appendAt sh (i % k) g) (by rw [appendAt_length]; exact hl)
    have h2 := appendAt_flatten_perm sh (i % k) g hlt
    refine h1.trans ?_
    have : (sh.flatten ++ g :: gs) = (sh.flatten ++ [g]) ++ gs := by simp
    rw [this]
    exact List.Perm.append_right gs h2

theorem rrLoop_mono (k : Nat) (gs : List Grain) (i : Nat) (sh : List (List Grain)) (b : Grain) (j : Nat)
    (h : b ∈ sh.getD j []) : b ∈ (rrLoop k gs i sh).getD j [] := by
  induction gs generalizing i sh with
  | nil => exact h
  | cons g gs ih => exact ih _ _ (mem_appendAt_getD _ _ _ _ _ h)

/-- the `j`-th grain (counting from the cursor `i`) lands on survivor `(i + j) % k` -/
theorem rrLoop_mem (k : Nat) (hk : 0 < k) (gs : List Grain) (i : Nat) (sh : List (List Grain))
    (hl : sh.length = k) (j : Nat) (hj : j < gs.length) :
    gs[j] ∈ (rrLoop k gs i sh).getD ((i + j) % k) [] := by
  induction gs generalizing i sh j with
  | nil => simp at hj
  | cons g gs ih =>
    simp only [rrLoop]
    cases j with
    | zero =>
      simp only [Nat.add_zero, List.getElem_cons_zero]
      have hlt : i % k < sh.length := by rw [hl]; exact Nat.mod_lt _ hk
      have hin : g ∈ (appendAt sh (i % k) g).getD (i % k) [] := by
        rw [appendAt_getD]; simp [hlt]
      exact rrLoop_mono k gs (i + 1) _ g _ hin
    | succ j =>
      have := ih (i + 1) (appendAt sh (i % k) g) (by rw [appendAt_length]; exact hl) j (by simpa using hj)
      simp only [List.getElem_cons_succ]
      have he : (i + 1 + j) % k = (i + (j + 1)) % k := by congr 1; omega
      rw [← he]; exact this

end GoaktVerif.C32

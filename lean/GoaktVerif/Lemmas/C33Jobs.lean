/-
C33 part A — inductive invariant of the job registry / relocator / worker bookkeeping machine.
Core Lean only.
-/
import GoaktVerif.Model.C33

namespace GoaktVerif.C33
open GoaktVerif.Model.C33

@[simp] theorem upd_same {β : Type} (f : Nat → β) (k : Nat) (v : β) : upd f k v k = v := by simp [upd]
theorem upd_other {β : Type} (f : Nat → β) (k x : Nat) (v : β) (h : x ≠ k) : upd f k v x = f x := by simp [upd, h]
theorem upd_apply {β : Type} (f : Nat → β) (k x : Nat) (v : β) : upd f k v x = if x = k then v else f x := rfl

/-- invariant over every reachable state -/
structure Inv (s : Sys) : Prop where
  /-- a relocation that ended is not registered any more -/
  k1 : ∀ snap addr, 1 ≤ s.closed snap → s.jobs addr ≠ some snap
  /-- a queued Rebalance order belongs to the registered job of its address -/
  k2 : ∀ snap addr, s.queued snap = some addr → s.jobs addr = some snap
  /-- a snapshot with a tracked worker has no queued order -/
  k3 : ∀ name addr snap, s.workers name = some (addr, snap) → s.queued snap = none
  /-- snapshot identities in use are older than the next fresh one -/
  k4a : ∀ addr snap, s.jobs addr = some snap → snap < s.nextSnap
  k4b : ∀ snap addr, s.queued snap = some addr → snap < s.nextSnap
  k4c : ∀ name addr snap, s.workers name = some (addr, snap) → snap < s.nextSnap
  /-- a worker that has not run yet is tracked and owns the registered job of its address -/
  k6 : ∀ name, s.live name = true → ∃ addr snap, s.workers name = some (addr, snap) ∧ s.jobs addr = some snap
  /-- distinct tracked workers carry distinct snapshots -/
  k7 : ∀ n n' a a' snap, s.workers n = some (a, snap) → s.workers n' = some (a', snap) → n = n'
  /-- worker names come from the sequence -/
  k10 : ∀ name, s.workers name ≠ none → name ≤ s.sequence
  k11 : ∀ snap, 1 ≤ s.closed snap → snap < s.nextSnap
  /-- a snapshot is registered under one address only -/
  k12 : ∀ a a' snap, s.jobs a = some snap → s.jobs a' = some snap → a = a'
  /-- the goal: a relocation ends at most once and publishes at most one RelocationFailed event -/
  g1 : ∀ snap, s.closed snap ≤ 1
  g2 : ∀ snap, s.events snap ≤ s.closed snap

theorem inv_init : Inv Sys.init := by
  constructor <;> intros <;> simp_all [Sys.init]

/-- closing the relocation of `snap` (registered under `addr`) by an abort -/
theorem inv_abort (s : Sys) (addr snap : Nat) (h : Inv s) (hj : s.jobs addr = some snap)
    (hq : ∀ sn a, s.queued sn = some a → a ≠ addr)
    (hl : ∀ n, s.live n = true → ∀ a sn, s.workers n = some (a, sn) → a ≠ addr) :
    Inv (abortRelocation s addr snap) := by
  have hc0 : s.closed snap = 0 := by
    have := h.k1 snap addr
    have := h.g1 snap
    by_cases hc : 1 ≤ s.closed snap
    · exact absurd hj (h.k1 snap addr hc)
    · omega
  constructor
  · intro sn a hc
    simp only [abortRelocation, endRelocation, upd_apply] at hc ⊢
    by_cases ha : a = addr
    · simp [ha]
    · simp only [ha, ↓reduceIte]
      by_cases hs : sn = snap
      · subst hs; intro hj'; exact ha (h.k12 a addr sn hj' hj)
      · simp only [hs, ↓reduceIte] at hc; exact h.k1 sn a hc
  · intro sn a hqq
    simp only [abortRelocation, endRelocation, upd_apply] at hqq ⊢
    have hne := hq sn a hqq
    simp only [hne, ↓reduceIte]
    exact h.k2 sn a hqq
  · intro n a sn hw; exact h.k3 n a sn hw
  · intro a sn hjj
    simp only [abortRelocation, endRelocation, upd_apply] at hjj
    split at hjj
    · cases hjj
    · exact h.k4a a sn hjj
  · intro sn a hqq; exact h.k4b sn a hqq
  · intro n a sn hw; exact h.k4c n a sn hw
  · intro n hln
    obtain ⟨a, sn, hw, hjj⟩ := h.k6 n hln
    refine ⟨a, sn, hw, ?_⟩
    have hne := hl n hln a sn hw
    simp only [abortRelocation, endRelocation, upd_apply, hne, ↓reduceIte]
    exact hjj
  · exact h.k7
  · exact h.k10
  · intro sn hc
    simp only [abortRelocation, upd_apply] at hc
    by_cases hs : sn = snap
    · subst hs; exact h.k4a addr sn hj
    · simp only [hs, ↓reduceIte] at hc; exact h.k11 sn hc
  · intro a a' sn h1 h2
    simp only [abortRelocation, endRelocation, upd_apply] at h1 h2
    split at h1
    · cases h1
    · split at h2
      · cases h2
      · exact h.k12 a a' sn h1 h2
  · intro sn
    simp only [abortRelocation, upd_apply]
    split
    · rename_i hs; subst hs; omega
    · exact h.g1 sn
  · intro sn
    simp only [abortRelocation, upd_apply]
    split
    · rename_i hs; subst hs; have := h.g2 sn; omega
    · exact h.g2 sn

/-- closing by normal completion: same bookkeeping, the event only when something failed -/
theorem inv_finish (s : Sys) (addr snap : Nat) (anyFailed : Bool) (h : Inv s) (hj : s.jobs addr = some snap)
    (hq : ∀ sn a, s.queued sn = some a → a ≠ addr)
    (hl : ∀ n, s.live n = true → ∀ a sn, s.workers n = some (a, sn) → a ≠ addr) :
    Inv (finishRun s addr snap anyFailed) := by
  have ha := inv_abort s addr snap h hj hq hl
  cases anyFailed with
  | true =>
    have : finishRun s addr snap true = abortRelocation s addr snap := by simp [finishRun, abortRelocation]
    rw [this]; exact ha
  | false =>
    have hc0 : s.closed snap = 0 := by
      have := h.g1 snap
      by_cases hc : 1 ≤ s.closed snap
      · exact absurd hj (h.k1 snap addr hc)
      · omega
    exact {
      k1 := ha.k1, k2 := ha.k2, k3 := ha.k3, k4a := ha.k4a, k4b := ha.k4b, k4c := ha.k4c, k6 := ha.k6,
      k7 := ha.k7, k10 := ha.k10, k11 := ha.k11, k12 := ha.k12, g1 := ha.g1,
      g2 := by
        intro sn
        simp only [finishRun, Bool.false_eq_true, ↓reduceIte, upd_apply]
        split
        · rename_i hs; subst hs; have := h.g2 sn; omega
        · exact h.g2 sn }

/-- no queued order and no other waiting worker for the address of a waiting worker -/
theorem owner_unique_of_live (s : Sys) (h : Inv s) (name addr snap : Nat) (hlive : s.live name = true)
    (hw : s.workers name = some (addr, snap)) :
    s.jobs addr = some snap
    ∧ (∀ sn a, s.queued sn = some a → a ≠ addr)
    ∧ (∀ n, n ≠ name → s.live n = true → ∀ a sn, s.workers n = some (a, sn) → a ≠ addr) := by
  obtain ⟨a0, s0, hw0, hj0⟩ := h.k6 name hlive
  rw [hw] at hw0
  cases hw0
  refine ⟨hj0, ?_, ?_⟩
  · intro sn a hq ha
    subst ha
    have := h.k2 sn a hq
    rw [hj0] at this
    cases this
    have := h.k3 name a snap hw
    rw [this] at hq; cases hq
  · intro n hn hln a sn hwn ha
    subst ha
    obtain ⟨a1, s1, hw1, hj1⟩ := h.k6 n hln
    rw [hwn] at hw1; cases hw1
    rw [hj0] at hj1; cases hj1
    exact hn (h.k7 n name a a snap hwn hw)

/-- a duplicate NodeLeft while a job is registered for the address changes nothing -/
theorem step_nodeLeft_of_some (s : Sys) (addr sn : Nat) (h : s.jobs addr = some sn) :
    step s (.nodeLeft addr) = s := by
  simp [step, beginRelocation, h]

theorem step_nodeLeft_of_none (s : Sys) (addr : Nat) (h : s.jobs addr = none) :
    step s (.nodeLeft addr) =
      { s with jobs := upd s.jobs addr (some s.nextSnap), queued := upd s.queued s.nextSnap (some addr),
               nextSnap := s.nextSnap + 1 } := by
  simp [step, beginRelocation, h]

theorem inv_step (s : Sys) (e : Ev) (h : Inv s) : Inv (step s e) := by
  cases e with
  | nodeLeft addr =>
    cases hj : s.jobs addr with
    | some sn => rw [step_nodeLeft_of_some s addr sn hj]; exact h
    | none =>
      rw [step_nodeLeft_of_none s addr hj]
      constructor
      · intro sn a hc
        simp only [upd_apply]
        split
        · intro heq; cases heq; have := h.k11 _ hc; omega
        · exact h.k1 sn a hc
      · intro sn a hq
        simp only [upd_apply] at hq ⊢
        split at hq
        · rename_i hs; cases hq; simp [hs]
        · have hjj := h.k2 sn a hq
          have : a ≠ addr := by intro ha; subst ha; rw [hj] at hjj; cases hjj
          simp only [this, ↓reduceIte]; exact hjj
      · intro n a sn hw
        simp only [upd_apply]
        have := h.k4c n a sn hw
        have hne : sn ≠ s.nextSnap := by omega
        simp only [hne, ↓reduceIte]
        exact h.k3 n a sn hw
      · intro a sn hjj
        simp only [upd_apply] at hjj
        split at hjj
        · cases hjj; simp
        · have := h.k4a a sn hjj; simp; omega
      · intro sn a hq
        simp only [upd_apply] at hq
        split at hq
        · rename_i hs; simp [hs]
        · have := h.k4b sn a hq; simp; omega
      · intro n a sn hw; have := h.k4c n a sn hw; simp; omega
      · intro n hl
        obtain ⟨a, sn, hw, hjj⟩ := h.k6 n hl
        refine ⟨a, sn, hw, ?_⟩
        have : a ≠ addr := by intro ha; subst ha; rw [hj] at hjj; cases hjj
        simp only [upd_apply, this, ↓reduceIte]; exact hjj
      · exact h.k7
      · exact h.k10
      · intro sn hc; have := h.k11 sn hc; simp; omega
      · intro a a' sn h1 h2
        simp only [upd_apply] at h1 h2
        split at h1
        · split at h2
          · rename_i e1 e2; rw [e1, e2]
          · cases h1; have := h.k4a a' _ h2; omega
        · split at h2
          · cases h2; have := h.k4a a _ h1; omega
          · exact h.k12 a a' sn h1 h2
      · exact h.g1
      · exact h.g2
  | rebalance snap spawnOK =>
    simp only [step]
    cases hq : s.queued snap with
    | none => simpa using h
    | some addr =>
      have hj := h.k2 snap addr hq
      -- state after the order left the mailbox
      have h1 : Inv { s with queued := upd s.queued snap none, sequence := s.sequence + 1 } := {
        k1 := h.k1
        k2 := by
          intro sn a hqq
          simp only [upd_apply] at hqq
          split at hqq
          · cases hqq
          · exact h.k2 sn a hqq
        k3 := by
          intro n a sn hw
          simp only [upd_apply]
          split
          · rfl
          · exact h.k3 n a sn hw
        k4a := h.k4a
        k4b := by
          intro sn a hqq
          simp only [upd_apply] at hqq
          split at hqq
          · cases hqq
          · exact h.k4b sn a hqq
        k4c := h.k4c, k6 := h.k6, k7 := h.k7
        k10 := by intro n hn; have := h.k10 n hn; simp; omega
        k11 := h.k11, k12 := h.k12, g1 := h.g1, g2 := h.g2 }
      have hnoq : ∀ sn a, (upd s.queued snap none) sn = some a → a ≠ addr := by
        intro sn a hqq ha
        subst ha
        simp only [upd_apply] at hqq
        split at hqq
        · cases hqq
        · rename_i hne
          have := h.k2 sn a hqq
          rw [hj] at this; cases this; exact hne rfl
      have hnol : ∀ n, s.live n = true → ∀ a sn, s.workers n = some (a, sn) → a ≠ addr := by
        intro n hl a sn hw ha
        subst ha
        obtain ⟨a1, s1, hw1, hj1⟩ := h.k6 n hl
        rw [hw] at hw1; cases hw1
        rw [hj] at hj1; cases hj1
        have := h.k3 n a snap hw
        rw [this] at hq; cases hq
      cases spawnOK with
      | false =>
        simp only [Bool.false_eq_true, ↓reduceIte]
        exact inv_abort _ addr snap h1 hj hnoq hnol
      | true =>
        simp only [↓reduceIte]
        have hfresh : s.workers (s.sequence + 1) = none := by
          cases hw : s.workers (s.sequence + 1) with
          | none => rfl
          | some p => have := h.k10 (s.sequence + 1) (by rw [hw]; simp); omega
        constructor
        · exact h1.k1
        · exact h1.k2
        · intro n a sn hw
          simp only [upd_apply] at hw ⊢
          split at hw
          · cases hw; simp
          · split
            · rfl
            · exact h.k3 n a sn hw
        · exact h1.k4a
        · exact h1.k4b
        · intro n a sn hw
          simp only [upd_apply] at hw
          split at hw
          · cases hw; exact h.k4b snap addr hq
          · exact h.k4c n a sn hw
        · intro n hl
          simp only [upd_apply] at hl ⊢
          split at hl
          · rename_i hn; subst hn
            exact ⟨addr, snap, by simp, hj⟩
          · rename_i hn
            obtain ⟨a, sn, hw, hjj⟩ := h.k6 n hl
            exact ⟨a, sn, by simp only [hn, ↓reduceIte]; exact hw, hjj⟩
        · intro n n' a a' sn hw hw'
          simp only [upd_apply] at hw hw'
          split at hw
          · split at hw'
            · rename_i e1 e2; rw [e1, e2]
            · cases hw
              have := h.k3 n' a' snap hw'
              rw [this] at hq; cases hq
          · split at hw'
            · cases hw'
              have := h.k3 n a snap hw
              rw [this] at hq; cases hq
            · exact h.k7 n n' a a' sn hw hw'
        · intro n hn
          simp only [upd_apply] at hn
          split at hn
          · rename_i e; rw [e]; exact Nat.le_refl _
          · have := h.k10 n hn
            show n ≤ s.sequence + 1
            omega
        · exact h1.k11
        · exact h1.k12
        · exact h1.g1
        · exact h1.g2
  | complete name anyFailed =>
    simp only [step]
    cases hl : s.live name with
    | false => simpa using h
    | true =>
      simp only [↓reduceIte]
      cases hw : s.workers name with
      | none => simpa using h
      | some p =>
        obtain ⟨addr, snap⟩ := p
        obtain ⟨hj, hnoq, hnol⟩ := owner_unique_of_live s h name addr snap hl hw
        have h1 : Inv { s with live := upd s.live name false } := {
          k1 := h.k1, k2 := h.k2, k3 := h.k3, k4a := h.k4a, k4b := h.k4b, k4c := h.k4c
          k6 := by
            intro n hln
            simp only [upd_apply] at hln
            split at hln
            · cases hln
            · exact h.k6 n hln
          k7 := h.k7, k10 := h.k10, k11 := h.k11, k12 := h.k12, g1 := h.g1, g2 := h.g2 }
        refine inv_finish _ addr snap anyFailed h1 hj hnoq ?_
        intro n hln a sn hwn
        simp only [upd_apply] at hln
        split at hln
        · cases hln
        · rename_i hne; exact hnol n hne hln a sn hwn
  | peersFail name =>
    simp only [step]
    cases hl : s.live name with
    | false => simpa using h
    | true =>
      simp only [↓reduceIte]
      cases hw : s.workers name with
      | none => simpa using h
      | some p =>
        obtain ⟨addr, snap⟩ := p
        obtain ⟨hj, hnoq, hnol⟩ := owner_unique_of_live s h name addr snap hl hw
        have h1 : Inv { s with live := upd s.live name false } := {
          k1 := h.k1, k2 := h.k2, k3 := h.k3, k4a := h.k4a, k4b := h.k4b, k4c := h.k4c
          k6 := by
            intro n hln
            simp only [upd_apply] at hln
            split at hln
            · cases hln
            · exact h.k6 n hln
          k7 := h.k7, k10 := h.k10, k11 := h.k11, k12 := h.k12, g1 := h.g1, g2 := h.g2 }
        refine inv_abort _ addr snap h1 hj hnoq ?_
        intro n hln a sn hwn
        simp only [upd_apply] at hln
        split at hln
        · cases hln
        · rename_i hne; exact hnol n hne hln a sn hwn
  | die name =>
    simp only [step]
    cases hl : s.live name with
    | false => simpa using h
    | true =>
      simp only [↓reduceIte]
      exact {
        k1 := h.k1, k2 := h.k2, k3 := h.k3, k4a := h.k4a, k4b := h.k4b, k4c := h.k4c
        k6 := by
          intro n hln
          simp only [upd_apply] at hln
          split at hln
          · cases hln
          · exact h.k6 n hln
        k7 := h.k7, k10 := h.k10, k11 := h.k11, k12 := h.k12, g1 := h.g1, g2 := h.g2 }
  | terminated name =>
    simp only [step]
    cases hl : s.live name with
    | true => simpa using h
    | false =>
      simp only [Bool.false_eq_true, ↓reduceIte, handleTerminated]
      cases hw : s.workers name with
      | none => simpa using h
      | some p =>
        obtain ⟨addr, snap⟩ := p
        simp only
        -- the dead worker is untracked
        have h1 : Inv { s with workers := upd s.workers name none } := {
          k1 := h.k1, k2 := h.k2
          k3 := by
            intro n a sn hwn
            simp only [upd_apply] at hwn
            split at hwn
            · cases hwn
            · exact h.k3 n a sn hwn
          k4a := h.k4a, k4b := h.k4b
          k4c := by
            intro n a sn hwn
            simp only [upd_apply] at hwn
            split at hwn
            · cases hwn
            · exact h.k4c n a sn hwn
          k6 := by
            intro n hln
            obtain ⟨a, sn, hwn, hjj⟩ := h.k6 n hln
            have hne : n ≠ name := by intro e; subst e; rw [hl] at hln; cases hln
            exact ⟨a, sn, by simp only [upd_apply, hne, ↓reduceIte]; exact hwn, hjj⟩
          k7 := by
            intro n n' a a' sn hwn hwn'
            simp only [upd_apply] at hwn hwn'
            split at hwn
            · cases hwn
            · split at hwn'
              · cases hwn'
              · exact h.k7 n n' a a' sn hwn hwn'
          k10 := by
            intro n hn
            simp only [upd_apply] at hn
            split at hn
            · exact absurd rfl hn
            · exact h.k10 n hn
          k11 := h.k11, k12 := h.k12, g1 := h.g1, g2 := h.g2 }
        by_cases hj : s.jobs addr = some snap
        · simp only [hj, ↓reduceIte]
          refine inv_abort _ addr snap h1 hj ?_ ?_
          · intro sn a hq ha
            subst ha
            have := h.k2 sn a hq
            rw [hj] at this; cases this
            have := h.k3 name a snap hw
            rw [this] at hq; cases hq
          · intro n hln a sn hwn ha
            subst ha
            have hne : n ≠ name := by intro e; subst e; rw [hl] at hln; cases hln
            simp only [upd_apply, hne, ↓reduceIte] at hwn
            obtain ⟨a1, s1, hw1, hj1⟩ := h.k6 n hln
            rw [hwn] at hw1; cases hw1
            rw [hj] at hj1; cases hj1
            exact hne (h.k7 n name a a snap hwn hw)
        · simp only [hj, ↓reduceIte]
          exact h1

theorem inv_run (evs : List Ev) (s : Sys) (h : Inv s) : Inv (run s evs) := by
  induction evs generalizing s with
  | nil => exact h
  | cons e evs ih => exact ih _ (inv_step s e h)

end GoaktVerif.C33

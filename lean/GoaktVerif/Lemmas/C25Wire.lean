/-
C25 helper lemmas: the wire decoder inverts the wire encoder on every envelope (Model/C25Wire.lean, Model/C25WireDec.lean).
-/
import GoaktVerif.Model.C25WireDec
import GoaktVerif.Lemmas.C25

namespace GoaktVerif.C25.WireLemmas
open GoaktVerif.Model.C25 GoaktVerif.Model.C25.Wire

/-! ### varint -/

theorem unvarintF_varintF (f n : Nat) (rest : Bytes) (h : n < 128 ^ (f + 1)) :
    unvarintF (f + 1) (varintF f n ++ rest) = some (n, rest) := by
  induction f generalizing n with
  | zero =>
    have hn : n < 128 := by simpa using h
    simp [varintF, unvarintF, Nat.mod_eq_of_lt hn, hn]
  | succ f ih =>
    unfold varintF
    by_cases hn : n < 128
    · simp [hn, unvarintF]
    · have hlt : n / 128 < 128 ^ (f + 1) := by
        rw [Nat.div_lt_iff_lt_mul (by decide)]
        calc n < 128 ^ (f + 1 + 1) := h
          _ = 128 ^ (f + 1) * 128 := by rw [Nat.pow_succ]
      have hb : ¬ (n % 128 + 128 < 128) := by omega
      simp only [hn, if_false, List.cons_append]
      rw [unvarintF]
      simp only [hb, if_false, ih (n / 128) hlt]
      congr 2
      omega

theorem unvarint_varint (n : Nat) (rest : Bytes) (h : n < 18446744073709551616) :
    unvarint (varint n ++ rest) = some (n, rest) := by
  unfold unvarint varint
  exact unvarintF_varintF 10 n rest (by
    have : (18446744073709551616 : Nat) ≤ 128 ^ 11 := by decide
    omega)

theorem varint_ne_nil (n : Nat) : varint n ≠ [] := by
  unfold varint varintF
  split <;> simp

/-! ### fields -/

/-- canonical encoding of one parsed field -/
def encField : Nat × FVal → Bytes
  | (k, .vint v) => tag k 0 ++ varint v
  | (k, .vbytes b) => tag k 2 ++ varint b.length ++ b

def encFields (fs : List (Nat × FVal)) : Bytes := (fs.map encField).flatten

/-- a field the decoder gets back exactly: small field number, 64-bit varint, length below 2^64 -/
def fieldOK : Nat × FVal → Prop
  | (k, .vint v) => k < 1000 ∧ v < 18446744073709551616
  | (k, .vbytes b) => k < 1000 ∧ b.length < 18446744073709551616

theorem encField_ne_nil (fv : Nat × FVal) : encField fv ≠ [] := by
  obtain ⟨k, v⟩ := fv
  cases v <;> simp [encField, tag, varint_ne_nil]

theorem parseField_encField (fv : Nat × FVal) (rest : Bytes) (h : fieldOK fv) :
    parseField (encField fv ++ rest) = some (fv, rest) := by
  obtain ⟨k, v⟩ := fv
  cases v with
  | vint v =>
    obtain ⟨hk, hv⟩ := h
    unfold parseField
    simp only [encField, tag, List.append_assoc]
    rw [unvarint_varint _ _ (by omega)]
    have h0 : (k * 8 + 0) % 8 = 0 := by omega
    have hd : (k * 8 + 0) / 8 = k := by omega
    simp only [h0, if_true, unvarint_varint _ _ hv, hd]
  | vbytes b =>
    obtain ⟨hk, hb⟩ := h
    unfold parseField
    simp only [encField, tag, List.append_assoc]
    rw [unvarint_varint _ _ (by omega)]
    have h0 : ¬ ((k * 8 + 2) % 8 = 0) := by omega
    have h2 : (k * 8 + 2) % 8 = 2 := by omega
    have hd : (k * 8 + 2) / 8 = k := by omega
    simp only [h0, if_false, h2, if_true, unvarint_varint _ _ hb, hd]
    simp

theorem parseFieldsF_encFields (fs : List (Nat × FVal)) (f : Nat) (hok : ∀ fv ∈ fs, fieldOK fv)
    (hf : (encFields fs).length ≤ f) : parseFieldsF f (encFields fs) = some fs := by
  induction fs generalizing f with
  | nil => cases f <;> simp [encFields, parseFieldsF]
  | cons fv fs ih =>
    have hne := encField_ne_nil fv
    have hcons : encFields (fv :: fs) = encField fv ++ encFields fs := by simp [encFields]
    rw [hcons] at hf ⊢
    cases hx : encField fv with
    | nil => exact absurd hx hne
    | cons b bs =>
      cases f with
      | zero => simp [hx] at hf
      | succ f =>
        have hp := parseField_encField fv (encFields fs) (hok fv (by simp))
        rw [hx] at hp
        simp only [List.cons_append] at hp ⊢
        rw [parseFieldsF, hp]
        have hlen : (encFields fs).length ≤ f := by
          simp [hx] at hf; omega
        have hih := ih f (fun x hxm => hok x (by simp [hxm])) hlen
        simp only [hih]

theorem parseFields_encFields (fs : List (Nat × FVal)) (hok : ∀ fv ∈ fs, fieldOK fv) :
    parseFields (encFields fs) = some fs :=
  parseFieldsF_encFields fs _ hok (Nat.le_refl _)

theorem encFields_append (a b : List (Nat × FVal)) : encFields (a ++ b) = encFields a ++ encFields b := by
  simp [encFields]

/-! ### the optional fields of proto3 -/

def optS (k : Nat) (s : Bytes) : List (Nat × FVal) := if s.isEmpty then [] else [(k, .vbytes s)]
def optI (k : Nat) (i : Int) : List (Nat × FVal) := if i = 0 then [] else [(k, .vint (toU64 i))]
def optB (k : Nat) (b : Bool) : List (Nat × FVal) := if b then [(k, .vint 1)] else []

theorem fBytes_eq (k : Nat) (s : Bytes) : fBytes k s = encFields (optS k s) := by
  unfold fBytes optS
  split <;> simp [encFields, encField]

theorem fInt64_eq (k : Nat) (i : Int) : fInt64 k i = encFields (optI k i) := by
  unfold fInt64 optI
  split <;> simp [encFields, encField]

theorem fBool_eq (k : Nat) (b : Bool) : fBool k b = encFields (optB k b) := by
  unfold fBool optB
  cases b <;> simp [encFields, encField, varint, varintF]

theorem fMsg_eq (k : Nat) (body : Bytes) : fMsg k body = encFields [(k, .vbytes body)] := by
  simp [fMsg, encFields, encField]

theorem toU64_lt (i : Int) : toU64 i < 18446744073709551616 := by
  unfold toU64; omega

/-- all fields of a list carry number `k` … -/
def allNum (k : Nat) (l : List (Nat × FVal)) : Prop := ∀ x ∈ l, x.1 = k

theorem optS_num (k : Nat) (s : Bytes) : allNum k (optS k s) := by
  intro x hx; unfold optS at hx; split at hx <;> simp at hx; simp [hx]
theorem optI_num (k : Nat) (i : Int) : allNum k (optI k i) := by
  intro x hx; unfold optI at hx; split at hx <;> simp at hx; simp [hx]
theorem optB_num (k : Nat) (b : Bool) : allNum k (optB k b) := by
  intro x hx; unfold optB at hx; split at hx <;> simp at hx; simp [hx]

/-- … so a getter for another number skips them -/
theorem getBytes_skip (l rest : List (Nat × FVal)) (j k : Nat) (hl : allNum j l) (hjk : j ≠ k) :
    getBytes (l ++ rest) k = getBytes rest k := by
  induction l with
  | nil => rfl
  | cons x l ih =>
    obtain ⟨f, v⟩ := x
    have hf : f = j := hl (f, v) (by simp)
    have hne : ¬ f = k := by omega
    have := ih (fun y hy => hl y (by simp [hy]))
    cases v <;> simp [getBytes, hne, this]

theorem getVint_skip (l rest : List (Nat × FVal)) (j k : Nat) (hl : allNum j l) (hjk : j ≠ k) :
    getVint (l ++ rest) k = getVint rest k := by
  induction l with
  | nil => rfl
  | cons x l ih =>
    obtain ⟨f, v⟩ := x
    have hf : f = j := hl (f, v) (by simp)
    have hne : ¬ f = k := by omega
    have := ih (fun y hy => hl y (by simp [hy]))
    cases v <;> simp [getVint, hne, this]

theorem getStr_optS (k : Nat) (s : Bytes) (rest : List (Nat × FVal)) (hr : getBytes rest k = none) :
    getStr (optS k s ++ rest) k = s := by
  unfold getStr optS
  cases s with
  | nil => simp [hr]
  | cons b bs => simp [getBytes]

theorem getInt_optI (k : Nat) (i : Int) (rest : List (Nat × FVal)) (hr : getVint rest k = none)
    (h1 : -9223372036854775808 ≤ i) (h2 : i < 9223372036854775808) :
    getInt (optI k i ++ rest) k = i := by
  unfold getInt optI
  by_cases h0 : i = 0
  · subst h0; simp [hr, toI64]
  · simp [h0, getVint, toI64_toU64 i h1 h2]

theorem getBool_optB (k : Nat) (b : Bool) (rest : List (Nat × FVal)) (hr : getVint rest k = none) :
    getBool (optB k b ++ rest) k = b := by
  unfold getBool optB
  cases b <;> simp [hr, getVint]

theorem getBytes_none_of_other (l : List (Nat × FVal)) (j k : Nat) (hl : allNum j l) (hjk : j ≠ k) :
    getBytes l k = none := by
  have := getBytes_skip l [] j k hl hjk
  simpa [getBytes] using this

theorem getVint_none_of_other (l : List (Nat × FVal)) (j k : Nat) (hl : allNum j l) (hjk : j ≠ k) :
    getVint l k = none := by
  have := getVint_skip l [] j k hl hjk
  simpa [getVint] using this

end GoaktVerif.C25.WireLemmas

namespace GoaktVerif.C25.WireLemmas
open GoaktVerif.Model.C25 GoaktVerif.Model.C25.Wire

/-! ### message bodies as specifications: (field number, optional value) lists -/

inductive OV
  | s (b : Bytes)      -- string / bytes field (omitted when empty)
  | i (n : Int)        -- int64 field (omitted when 0)
  | b (v : Bool)       -- bool field (omitted when false)
  | m (body : Bytes)   -- present message-typed field (always emitted)

def mat1 : Nat × OV → List (Nat × FVal)
  | (k, .s b) => optS k b
  | (k, .i n) => optI k n
  | (k, .b v) => optB k v
  | (k, .m body) => [(k, .vbytes body)]

def mat (spec : List (Nat × OV)) : List (Nat × FVal) := spec.flatMap mat1

def encSpec1 : Nat × OV → Bytes
  | (k, .s b) => fBytes k b
  | (k, .i n) => fInt64 k n
  | (k, .b v) => fBool k v
  | (k, .m body) => fMsg k body

theorem encFields_mat (spec : List (Nat × OV)) : encFields (mat spec) = (spec.map encSpec1).flatten := by
  induction spec with
  | nil => rfl
  | cons x spec ih =>
    obtain ⟨k, v⟩ := x
    have : mat ((k, v) :: spec) = mat1 (k, v) ++ mat spec := by simp [mat]
    rw [this, encFields_append, ih]
    cases v <;> simp [mat1, encSpec1, fBytes_eq, fInt64_eq, fBool_eq, fMsg_eq]

def specOK1 : Nat × OV → Prop
  | (k, .s b) => k < 1000 ∧ b.length < 18446744073709551616
  | (k, .i _) => k < 1000
  | (k, .b _) => k < 1000
  | (k, .m body) => k < 1000 ∧ body.length < 18446744073709551616

theorem mat_ok (spec : List (Nat × OV)) (h : ∀ x ∈ spec, specOK1 x) : ∀ fv ∈ mat spec, fieldOK fv := by
  intro fv hfv
  simp only [mat, List.mem_flatMap] at hfv
  obtain ⟨x, hx, hm⟩ := hfv
  have hs := h x hx
  obtain ⟨k, v⟩ := x
  cases v with
  | s b =>
    simp only [mat1, optS] at hm
    split at hm <;> simp at hm
    subst hm; exact hs
  | i n =>
    simp only [mat1, optI] at hm
    split at hm <;> simp at hm
    subst hm; exact ⟨hs, toU64_lt n⟩
  | b v =>
    simp only [mat1, optB] at hm
    split at hm <;> simp at hm
    subst hm; exact ⟨hs, by decide⟩
  | m body =>
    simp only [mat1, List.mem_singleton] at hm
    subst hm; exact hs

theorem parseFields_spec (spec : List (Nat × OV)) (h : ∀ x ∈ spec, specOK1 x) :
    parseFields ((spec.map encSpec1).flatten) = some (mat spec) := by
  rw [← encFields_mat]
  exact parseFields_encFields _ (mat_ok spec h)

theorem mat1_num (x : Nat × OV) : allNum x.1 (mat1 x) := by
  obtain ⟨k, v⟩ := x
  cases v with
  | s b => exact optS_num k b
  | i n => exact optI_num k n
  | b v => exact optB_num k v
  | m body => intro y hy; simp [mat1] at hy; simp [hy]

/-- no entry of the specification carries number `k` -/
def absent (spec : List (Nat × OV)) (k : Nat) : Prop := ∀ x ∈ spec, x.1 ≠ k

theorem getBytes_absent (spec : List (Nat × OV)) (k : Nat) (h : absent spec k) : getBytes (mat spec) k = none := by
  induction spec with
  | nil => rfl
  | cons x spec ih =>
    have : mat (x :: spec) = mat1 x ++ mat spec := by simp [mat]
    rw [this, getBytes_skip _ _ x.1 k (mat1_num x) (h x (by simp))]
    exact ih (fun y hy => h y (by simp [hy]))

theorem getVint_absent (spec : List (Nat × OV)) (k : Nat) (h : absent spec k) : getVint (mat spec) k = none := by
  induction spec with
  | nil => rfl
  | cons x spec ih =>
    have : mat (x :: spec) = mat1 x ++ mat spec := by simp [mat]
    rw [this, getVint_skip _ _ x.1 k (mat1_num x) (h x (by simp))]
    exact ih (fun y hy => h y (by simp [hy]))

/-- getters on `pre ++ [(k, v)] ++ post` when neither `pre` nor `post` mentions `k` -/
theorem getStr_at (pre post : List (Nat × OV)) (k : Nat) (s : Bytes) (hp : absent pre k) (hq : absent post k) :
    getStr (mat (pre ++ (k, .s s) :: post)) k = s := by
  induction pre with
  | nil =>
    have : mat ((k, OV.s s) :: post) = optS k s ++ mat post := by simp [mat, mat1]
    simp only [List.nil_append, this]
    exact getStr_optS k s _ (getBytes_absent post k hq)
  | cons x pre ih =>
    have : mat (x :: pre ++ (k, OV.s s) :: post) = mat1 x ++ mat (pre ++ (k, OV.s s) :: post) := by simp [mat]
    unfold getStr at ih ⊢
    rw [this, getBytes_skip _ _ x.1 k (mat1_num x) (hp x (by simp))]
    exact ih (fun y hy => hp y (by simp [hy]))

theorem getInt_at (pre post : List (Nat × OV)) (k : Nat) (n : Int) (hp : absent pre k) (hq : absent post k)
    (h1 : -9223372036854775808 ≤ n) (h2 : n < 9223372036854775808) :
    getInt (mat (pre ++ (k, .i n) :: post)) k = n := by
  induction pre with
  | nil =>
    have : mat ((k, OV.i n) :: post) = optI k n ++ mat post := by simp [mat, mat1]
    simp only [List.nil_append, this]
    exact getInt_optI k n _ (getVint_absent post k hq) h1 h2
  | cons x pre ih =>
    have : mat (x :: pre ++ (k, OV.i n) :: post) = mat1 x ++ mat (pre ++ (k, OV.i n) :: post) := by simp [mat]
    unfold getInt at ih ⊢
    rw [this, getVint_skip _ _ x.1 k (mat1_num x) (hp x (by simp))]
    exact ih (fun y hy => hp y (by simp [hy]))

theorem getBool_at (pre post : List (Nat × OV)) (k : Nat) (v : Bool) (hp : absent pre k) (hq : absent post k) :
    getBool (mat (pre ++ (k, .b v) :: post)) k = v := by
  induction pre with
  | nil =>
    have : mat ((k, OV.b v) :: post) = optB k v ++ mat post := by simp [mat, mat1]
    simp only [List.nil_append, this]
    exact getBool_optB k v _ (getVint_absent post k hq)
  | cons x pre ih =>
    have : mat (x :: pre ++ (k, OV.b v) :: post) = mat1 x ++ mat (pre ++ (k, OV.b v) :: post) := by simp [mat]
    unfold getBool at ih ⊢
    rw [this, getVint_skip _ _ x.1 k (mat1_num x) (hp x (by simp))]
    exact ih (fun y hy => hp y (by simp [hy]))

theorem getBytes_msg_at (pre post : List (Nat × OV)) (k : Nat) (body : Bytes) (hp : absent pre k) :
    getBytes (mat (pre ++ (k, .m body) :: post)) k = some body := by
  induction pre with
  | nil => simp [mat, mat1, getBytes]
  | cons x pre ih =>
    have : mat (x :: pre ++ (k, OV.m body) :: post) = mat1 x ++ mat (pre ++ (k, OV.m body) :: post) := by simp [mat]
    rw [this, getBytes_skip _ _ x.1 k (mat1_num x) (hp x (by simp))]
    exact ih (fun y hy => hp y (by simp [hy]))

end GoaktVerif.C25.WireLemmas

namespace GoaktVerif.C25.WireLemmas
open GoaktVerif.Model.C25 GoaktVerif.Model.C25.Wire

/-! ### sizes -/

theorem varintF_len (f n : Nat) : (varintF f n).length ≤ f + 1 := by
  induction f generalizing n with
  | zero => simp [varintF]
  | succ f ih =>
    unfold varintF
    split
    · simp
    · simp only [List.length_cons]; have := ih (n / 128); omega

theorem varint_len (n : Nat) : (varint n).length ≤ 11 := varintF_len 10 n
theorem tag_len (k w : Nat) : (tag k w).length ≤ 11 := varint_len _

theorem fBytes_len (k : Nat) (s : Bytes) : (fBytes k s).length ≤ 22 + s.length := by
  unfold fBytes
  split
  · simp
  · have := tag_len k 2; have := varint_len s.length; simp only [List.length_append]; omega

theorem fInt64_len (k : Nat) (i : Int) : (fInt64 k i).length ≤ 22 := by
  unfold fInt64
  split
  · simp
  · have := tag_len k 0; have := varint_len (toU64 i); simp only [List.length_append]; omega

theorem fBool_len (k : Nat) (b : Bool) : (fBool k b).length ≤ 12 := by
  unfold fBool
  split
  · have := tag_len k 0; simp only [List.length_append, List.length_cons, List.length_nil]; omega
  · simp

theorem fMsg_len (k : Nat) (body : Bytes) : (fMsg k body).length ≤ 22 + body.length := by
  unfold fMsg
  have := tag_len k 2; have := varint_len body.length; simp only [List.length_append]; omega

/-! ### the envelope -/

theorem decEnv_top (k : Nat) (body : Bytes) (hk : k < 1000) (hb : body.length < 18446744073709551616)
    (g : List (Nat × FVal)) (hg : parseFields body = some g) : decEnv (fMsg k body) = decBody k g := by
  have h1 : fMsg k body = ([(k, OV.m body)].map encSpec1).flatten := by simp [encSpec1]
  have h2 := parseFields_spec [(k, OV.m body)] (by intro x hx; simp at hx; subst hx; exact ⟨hk, hb⟩)
  unfold decEnv
  rw [h1, h2]
  simp only [mat, mat1, List.flatMap_cons, List.flatMap_nil, List.append_nil, hg]

theorem dec_registerConsumer (n : Bytes) (h : n.length < 4294967296) :
    decEnv (encEnv (.registerConsumer n)) = some (.registerConsumer n) := by
  have hb : fBytes 1 n = ([(1, OV.s n)].map encSpec1).flatten := by simp [encSpec1]
  have hp := parseFields_spec [(1, OV.s n)] (by intro x hx; simp at hx; subst hx; exact ⟨by decide, by omega⟩)
  have hlen := fBytes_len 1 n
  show decEnv (fMsg 1 (fBytes 1 n)) = _
  rw [decEnv_top 1 _ (by decide) (by omega) _ (by rw [hb]; exact hp)]
  have g1 := getStr_at [] [] 1 n (by simp [absent]) (by simp [absent])
  simp only [List.nil_append] at g1
  simp [decBody, g1]

theorem dec_registrationAck (s : Bytes) (n : Int) (nonce : Bytes) (hs : s.length < 4294967296)
    (hn : nonce.length < 4294967296) (h1 : -9223372036854775808 ≤ n) (h2 : n < 9223372036854775808) :
    decEnv (encEnv (.registrationAck s n nonce)) = some (.registrationAck s n nonce) := by
  have hb : fBytes 1 s ++ fInt64 2 n ++ fBytes 3 nonce
      = ([(1, OV.s s), (2, OV.i n), (3, OV.s nonce)].map encSpec1).flatten := by simp [encSpec1]
  have hp := parseFields_spec [(1, OV.s s), (2, OV.i n), (3, OV.s nonce)] (by
    intro x hx; simp at hx
    rcases hx with rfl | rfl | rfl
    · exact ⟨by decide, by omega⟩
    · exact (by decide : (2 : Nat) < 1000)
    · exact ⟨by decide, by omega⟩)
  have l1 := fBytes_len 1 s; have l2 := fInt64_len 2 n; have l3 := fBytes_len 3 nonce
  show decEnv (fMsg 2 (fBytes 1 s ++ fInt64 2 n ++ fBytes 3 nonce)) = _
  rw [decEnv_top 2 _ (by decide) (by simp only [List.length_append]; omega) _ (by rw [hb]; exact hp)]
  have g1 := getStr_at [] [(2, OV.i n), (3, OV.s nonce)] 1 s (by simp [absent]) (by simp [absent])
  have g2 := getInt_at [(1, OV.s s)] [(3, OV.s nonce)] 2 n (by simp [absent]) (by simp [absent]) h1 h2
  have g3 := getStr_at [(1, OV.s s), (2, OV.i n)] [] 3 nonce (by simp [absent]) (by simp [absent])
  simp only [List.nil_append, List.cons_append] at g1 g2 g3
  simp [decBody, g1, g2, g3]

theorem dec_request (s nonce : Bytes) (c u : Int) (v : Bool) (hs : s.length < 4294967296)
    (hn : nonce.length < 4294967296) (c1 : -9223372036854775808 ≤ c) (c2 : c < 9223372036854775808)
    (u1 : -9223372036854775808 ≤ u) (u2 : u < 9223372036854775808) :
    decEnv (encEnv (.request s nonce c u v)) = some (.request s nonce c u v) := by
  have hb : fBytes 1 s ++ fBytes 2 nonce ++ fInt64 3 c ++ fInt64 4 u ++ fBool 5 v
      = ([(1, OV.s s), (2, OV.s nonce), (3, OV.i c), (4, OV.i u), (5, OV.b v)].map encSpec1).flatten := by
    simp [encSpec1]
  have hp := parseFields_spec [(1, OV.s s), (2, OV.s nonce), (3, OV.i c), (4, OV.i u), (5, OV.b v)] (by
    intro x hx; simp at hx
    rcases hx with rfl | rfl | rfl | rfl | rfl
    · exact ⟨by decide, by omega⟩
    · exact ⟨by decide, by omega⟩
    · exact (by decide : (3 : Nat) < 1000)
    · exact (by decide : (4 : Nat) < 1000)
    · exact (by decide : (5 : Nat) < 1000))
  have l1 := fBytes_len 1 s; have l2 := fBytes_len 2 nonce; have l3 := fInt64_len 3 c
  have l4 := fInt64_len 4 u; have l5 := fBool_len 5 v
  show decEnv (fMsg 3 (fBytes 1 s ++ fBytes 2 nonce ++ fInt64 3 c ++ fInt64 4 u ++ fBool 5 v)) = _
  rw [decEnv_top 3 _ (by decide) (by simp only [List.length_append]; omega) _ (by rw [hb]; exact hp)]
  have g1 := getStr_at [] [(2, OV.s nonce), (3, OV.i c), (4, OV.i u), (5, OV.b v)] 1 s (by simp [absent]) (by simp [absent])
  have g2 := getStr_at [(1, OV.s s)] [(3, OV.i c), (4, OV.i u), (5, OV.b v)] 2 nonce (by simp [absent]) (by simp [absent])
  have g3 := getInt_at [(1, OV.s s), (2, OV.s nonce)] [(4, OV.i u), (5, OV.b v)] 3 c (by simp [absent]) (by simp [absent]) c1 c2
  have g4 := getInt_at [(1, OV.s s), (2, OV.s nonce), (3, OV.i c)] [(5, OV.b v)] 4 u (by simp [absent]) (by simp [absent]) u1 u2
  have g5 := getBool_at [(1, OV.s s), (2, OV.s nonce), (3, OV.i c), (4, OV.i u)] [] 5 v (by simp [absent]) (by simp [absent])
  simp only [List.nil_append, List.cons_append] at g1 g2 g3 g4 g5
  simp [decBody, g1, g2, g3, g4, g5]

theorem dec_ack (s nonce : Bytes) (c : Int) (hs : s.length < 4294967296) (hn : nonce.length < 4294967296)
    (c1 : -9223372036854775808 ≤ c) (c2 : c < 9223372036854775808) :
    decEnv (encEnv (.ack s nonce c)) = some (.ack s nonce c) := by
  have hb : fBytes 1 s ++ fBytes 2 nonce ++ fInt64 3 c
      = ([(1, OV.s s), (2, OV.s nonce), (3, OV.i c)].map encSpec1).flatten := by simp [encSpec1]
  have hp := parseFields_spec [(1, OV.s s), (2, OV.s nonce), (3, OV.i c)] (by
    intro x hx; simp at hx
    rcases hx with rfl | rfl | rfl
    · exact ⟨by decide, by omega⟩
    · exact ⟨by decide, by omega⟩
    · exact (by decide : (3 : Nat) < 1000))
  have l1 := fBytes_len 1 s; have l2 := fBytes_len 2 nonce; have l3 := fInt64_len 3 c
  show decEnv (fMsg 4 (fBytes 1 s ++ fBytes 2 nonce ++ fInt64 3 c)) = _
  rw [decEnv_top 4 _ (by decide) (by simp only [List.length_append]; omega) _ (by rw [hb]; exact hp)]
  have g1 := getStr_at [] [(2, OV.s nonce), (3, OV.i c)] 1 s (by simp [absent]) (by simp [absent])
  have g2 := getStr_at [(1, OV.s s)] [(3, OV.i c)] 2 nonce (by simp [absent]) (by simp [absent])
  have g3 := getInt_at [(1, OV.s s), (2, OV.s nonce)] [] 3 c (by simp [absent]) (by simp [absent]) c1 c2
  simp only [List.nil_append, List.cons_append] at g1 g2 g3
  simp [decBody, g1, g2, g3]

end GoaktVerif.C25.WireLemmas

namespace GoaktVerif.C25.WireLemmas
open GoaktVerif.Model.C25 GoaktVerif.Model.C25.Wire

def payloadSpec : Option Bytes → List (Nat × OV)
  | some p => [(4, .m (fBytes 1 p))]
  | none => []

def chunkSpec : Option (Bool × Bool) → List (Nat × OV)
  | some (f, l) => [(5, .m (fBool 1 f ++ fBool 2 l))]
  | none => []

/-- the payload, if present, fits a protobuf length -/
def payloadFits : Option Bytes → Prop
  | some p => p.length < 4294967296
  | none => True

/-- all entries of a specification carry number `k` -/
def specNum (k : Nat) (l : List (Nat × OV)) : Prop := ∀ x ∈ l, x.1 = k

theorem payloadSpec_num (payload : Option Bytes) : specNum 4 (payloadSpec payload) := by
  intro x hx
  cases payload <;> simp [payloadSpec] at hx
  simp [hx]

theorem chunkSpec_num (chunk : Option (Bool × Bool)) : specNum 5 (chunkSpec chunk) := by
  intro x hx
  rcases chunk with _ | ⟨f, l⟩ <;> simp [chunkSpec] at hx
  simp [hx]

theorem absent_of_num (l : List (Nat × OV)) (j k : Nat) (h : specNum j l) (hjk : j ≠ k) : absent l k := by
  intro x hx; rw [h x hx]; exact hjk

theorem absent_append (a b : List (Nat × OV)) (k : Nat) (ha : absent a k) (hb : absent b k) : absent (a ++ b) k := by
  intro x hx
  rcases List.mem_append.mp hx with h | h
  · exact ha x h
  · exact hb x h

theorem decPayload_spec (pre : List (Nat × OV)) (payload : Option Bytes) (chunk : Option (Bool × Bool))
    (hpre : absent pre 4) (hp : payloadFits payload) :
    decPayload (mat (pre ++ payloadSpec payload ++ chunkSpec chunk)) = some payload := by
  cases payload with
  | none =>
    have habs : absent (pre ++ payloadSpec none ++ chunkSpec chunk) 4 :=
      absent_append _ _ 4 (absent_append _ _ 4 hpre (by simp [payloadSpec, absent]))
        (absent_of_num _ 5 4 (chunkSpec_num chunk) (by decide))
    have h4 := getBytes_absent _ 4 habs
    unfold decPayload
    rw [h4]
  | some p =>
    have hlen : p.length < 4294967296 := hp
    have hg := getBytes_msg_at pre (chunkSpec chunk) 4 (fBytes 1 p) hpre
    have hb : fBytes 1 p = ([(1, OV.s p)].map encSpec1).flatten := by simp [encSpec1]
    have hpf := parseFields_spec [(1, OV.s p)] (by intro x hx; simp at hx; subst hx; exact ⟨by decide, by omega⟩)
    have g1 := getStr_at [] [] 1 p (by simp [absent]) (by simp [absent])
    simp only [List.nil_append] at g1
    have heq : pre ++ payloadSpec (some p) ++ chunkSpec chunk = pre ++ (4, OV.m (fBytes 1 p)) :: chunkSpec chunk := by
      simp [payloadSpec]
    rw [heq]
    unfold decPayload
    rw [hg]
    simp only []
    rw [hb, hpf]
    simp [g1]

theorem decChunk_spec (pre : List (Nat × OV)) (chunk : Option (Bool × Bool)) (hpre : absent pre 5) :
    decChunk (mat (pre ++ chunkSpec chunk)) = some chunk := by
  rcases chunk with _ | ⟨f, l⟩
  · have habs : absent (pre ++ chunkSpec none) 5 := absent_append _ _ 5 hpre (by simp [chunkSpec, absent])
    have h5 := getBytes_absent _ 5 habs
    unfold decChunk
    rw [h5]
  · have hg := getBytes_msg_at pre [] 5 (fBool 1 f ++ fBool 2 l) hpre
    have hb : fBool 1 f ++ fBool 2 l = ([(1, OV.b f), (2, OV.b l)].map encSpec1).flatten := by simp [encSpec1]
    have hpf := parseFields_spec [(1, OV.b f), (2, OV.b l)] (by
      intro x hx; simp at hx
      rcases hx with rfl | rfl
      · exact (by decide : (1 : Nat) < 1000)
      · exact (by decide : (2 : Nat) < 1000))
    have g1 := getBool_at [] [(2, OV.b l)] 1 f (by simp [absent]) (by simp [absent])
    have g2 := getBool_at [(1, OV.b f)] [] 2 l (by simp [absent]) (by simp [absent])
    simp only [List.nil_append, List.cons_append] at g1 g2
    have heq : pre ++ chunkSpec (some (f, l)) = pre ++ (5, OV.m (fBool 1 f ++ fBool 2 l)) :: [] := by simp [chunkSpec]
    rw [heq]
    unfold decChunk
    rw [hg]
    simp only []
    rw [hb, hpf]
    simp [g1, g2]

theorem len_payloadSpec (payload : Option Bytes) (hp : payloadFits payload) :
    (((payloadSpec payload).map encSpec1).flatten).length ≤ 44 + 4294967296 := by
  cases payload with
  | none => simp [payloadSpec]
  | some p =>
    have h : p.length < 4294967296 := hp
    have := fMsg_len 4 (fBytes 1 p); have := fBytes_len 1 p
    simp only [payloadSpec, List.map_cons, List.map_nil, List.flatten_cons, List.flatten_nil, List.append_nil, encSpec1]
    omega

theorem len_chunkSpec (chunk : Option (Bool × Bool)) : (((chunkSpec chunk).map encSpec1).flatten).length ≤ 46 := by
  rcases chunk with _ | ⟨f, l⟩
  · simp [chunkSpec]
  · have := fMsg_len 5 (fBool 1 f ++ fBool 2 l); have := fBool_len 1 f; have := fBool_len 2 l
    simp only [chunkSpec, List.map_cons, List.map_nil, List.flatten_cons, List.flatten_nil, List.append_nil, encSpec1,
      List.length_append] at *
    omega

theorem ok_payloadSpec (payload : Option Bytes) (hp : payloadFits payload) : ∀ x ∈ payloadSpec payload, specOK1 x := by
  intro x hx
  cases payload with
  | none => simp [payloadSpec] at hx
  | some p =>
    have h : p.length < 4294967296 := hp
    simp [payloadSpec] at hx; subst hx
    have := fBytes_len 1 p
    exact ⟨by decide, by omega⟩

theorem ok_chunkSpec (chunk : Option (Bool × Bool)) : ∀ x ∈ chunkSpec chunk, specOK1 x := by
  intro x hx
  rcases chunk with _ | ⟨f, l⟩
  · simp [chunkSpec] at hx
  · simp [chunkSpec] at hx; subst hx
    have := fBool_len 1 f; have := fBool_len 2 l
    exact ⟨by decide, by simp only [List.length_append]; omega⟩

theorem dec_sequenced (s id : Bytes) (seq : Int) (payload : Option Bytes) (chunk : Option (Bool × Bool))
    (hs : s.length < 4294967296) (hid : id.length < 4294967296)
    (q1 : -9223372036854775808 ≤ seq) (q2 : seq < 9223372036854775808) (hp : payloadFits payload) :
    decEnv (encEnv (.sequenced s id seq payload chunk)) = some (.sequenced s id seq payload chunk) := by
  let base : List (Nat × OV) := [(1, OV.s s), (2, OV.s id), (3, OV.i seq)]
  have hbody : encEnv (.sequenced s id seq payload chunk)
      = fMsg 5 (((base ++ payloadSpec payload ++ chunkSpec chunk).map encSpec1).flatten) := by
    cases payload <;> rcases chunk with _ | ⟨f, l⟩ <;> simp [encEnv, base, payloadSpec, chunkSpec, encSpec1]
  have hbase : ∀ x ∈ base, specOK1 x := by
    intro x hx
    simp only [base, List.mem_cons, List.mem_nil_iff, or_false] at hx
    rcases hx with rfl | rfl | rfl
    · exact ⟨by decide, by omega⟩
    · exact ⟨by decide, by omega⟩
    · exact (by decide : (3 : Nat) < 1000)
  have hok : ∀ x ∈ base ++ payloadSpec payload ++ chunkSpec chunk, specOK1 x := by
    intro x hx
    rcases List.mem_append.mp hx with h | h
    · rcases List.mem_append.mp h with h | h
      · exact hbase x h
      · exact ok_payloadSpec payload hp x h
    · exact ok_chunkSpec chunk x h
  have hp' := parseFields_spec _ hok
  have hlen : (((base ++ payloadSpec payload ++ chunkSpec chunk).map encSpec1).flatten).length < 18446744073709551616 := by
    have l1 := fBytes_len 1 s; have l2 := fBytes_len 2 id; have l3 := fInt64_len 3 seq
    have l4 := len_payloadSpec payload hp
    have l5 := len_chunkSpec chunk
    have lb : ((base.map encSpec1).flatten).length ≤ 66 + s.length + id.length := by
      simp only [base, List.map_cons, List.map_nil, List.flatten_cons, List.flatten_nil, List.append_nil, encSpec1,
        List.length_append]
      omega
    simp only [List.map_append, List.flatten_append, List.length_append]
    omega
  rw [hbody, decEnv_top 5 _ (by decide) hlen _ hp']
  have a4 : absent (payloadSpec payload) 1 ∧ absent (payloadSpec payload) 2 ∧ absent (payloadSpec payload) 3
      ∧ absent (payloadSpec payload) 5 :=
    ⟨absent_of_num _ 4 1 (payloadSpec_num _) (by decide), absent_of_num _ 4 2 (payloadSpec_num _) (by decide),
     absent_of_num _ 4 3 (payloadSpec_num _) (by decide), absent_of_num _ 4 5 (payloadSpec_num _) (by decide)⟩
  have a5 : absent (chunkSpec chunk) 1 ∧ absent (chunkSpec chunk) 2 ∧ absent (chunkSpec chunk) 3 :=
    ⟨absent_of_num _ 5 1 (chunkSpec_num _) (by decide), absent_of_num _ 5 2 (chunkSpec_num _) (by decide),
     absent_of_num _ 5 3 (chunkSpec_num _) (by decide)⟩
  have g1 : getStr (mat (base ++ payloadSpec payload ++ chunkSpec chunk)) 1 = s := by
    have := getStr_at [] ([(2, OV.s id), (3, OV.i seq)] ++ payloadSpec payload ++ chunkSpec chunk) 1 s (by simp [absent])
      (absent_append _ _ 1 (absent_append _ _ 1 (by simp [absent]) a4.1) a5.1)
    simpa [base] using this
  have g2 : getStr (mat (base ++ payloadSpec payload ++ chunkSpec chunk)) 2 = id := by
    have := getStr_at [(1, OV.s s)] ([(3, OV.i seq)] ++ payloadSpec payload ++ chunkSpec chunk) 2 id (by simp [absent])
      (absent_append _ _ 2 (absent_append _ _ 2 (by simp [absent]) a4.2.1) a5.2.1)
    simpa [base] using this
  have g3 : getInt (mat (base ++ payloadSpec payload ++ chunkSpec chunk)) 3 = seq := by
    have := getInt_at [(1, OV.s s), (2, OV.s id)] (payloadSpec payload ++ chunkSpec chunk) 3 seq (by simp [absent])
      (absent_append _ _ 3 a4.2.2.1 a5.2.2) q1 q2
    simpa [base, List.append_assoc] using this
  have g4 : decPayload (mat (base ++ payloadSpec payload ++ chunkSpec chunk)) = some payload :=
    decPayload_spec base payload chunk (by simp [absent, base]) hp
  have g5 : decChunk (mat (base ++ payloadSpec payload ++ chunkSpec chunk)) = some chunk :=
    decChunk_spec (base ++ payloadSpec payload) chunk (absent_append _ _ 5 (by simp [absent, base]) a4.2.2.2)
  simp (config := { decide := true }) only [decBody, g1, g2, g3, g4, g5, if_false, if_true]

/-- the wire decoder inverts the wire encoder on every envelope protobuf can hold -/
theorem decEnv_encEnv (e : Env) (h : envFits e = true) : decEnv (encEnv e) = some e := by
  cases e with
  | none => simp [encEnv, decEnv, parseFields, parseFieldsF]
  | registerConsumer n =>
    simp [envFits] at h
    exact dec_registerConsumer n h
  | registrationAck s n nonce =>
    simp [envFits] at h
    exact dec_registrationAck s n nonce h.1.1.1 h.1.1.2 h.1.2 h.2
  | request s nonce c u v =>
    simp [envFits] at h
    exact dec_request s nonce c u v h.1.1.1.1.1 h.1.1.1.1.2 h.1.1.1.2 h.1.1.2 h.1.2 h.2
  | ack s nonce c =>
    simp [envFits] at h
    exact dec_ack s nonce c h.1.1.1 h.1.1.2 h.1.2 h.2
  | sequenced s id seq p ch =>
    simp [envFits] at h
    refine dec_sequenced s id seq p ch h.1.1.1.1 h.1.1.1.2 h.1.1.2 h.1.2 ?_
    cases p with
    | none => trivial
    | some b => simpa [payloadFits] using h.2

end GoaktVerif.C25.WireLemmas

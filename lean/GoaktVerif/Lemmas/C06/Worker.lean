/-
C06: the invariant is preserved by every step of the worker (the actor's own turn), including a
PoisonPill's Shutdown executed inside the turn.
-/
import GoaktVerif.Lemmas.C06.WorkerCS

namespace GoaktVerif.C06
open GoaktVerif.Model.C06 GoaktVerif.Spec.C06

theorem inv_w (c : Cfg) (hI : Inv c) (hg : okStep c 0 = true) : Inv (wStep c) := by
  have hI' := hI
  obtain ⟨turn, win1, ex1, ex2, ex3, ok1, ok2, ok3, ok4, recvBy, postBy, pre1, pre2, k1, k2, k3, k4, k6⟩ := hI
  unfold wStep
  split
  · rename_i hw
    simp only [okStep, hw] at hg
    split
    · cases hl : c.locker <;> inv_solve
    · exact hI'
  · cases hl : c.locker <;> inv_solve
  · cases hl : c.locker <;> split <;> (try split) <;> (try split) <;> inv_solve
  · cases hl : c.locker <;> inv_solve
  · cases hl : c.locker <;> inv_solve
  · rename_i b hw
    cases hl : c.locker with
    | none => exact hI'
    | some h =>
      simp only []
      split
      · rename_i hid
        exact inv_w_cs c hI' b hw h hl hid
      · exact hI'

end GoaktVerif.C06

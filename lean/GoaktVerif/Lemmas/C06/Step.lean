/-
C06: the invariant holds initially and is preserved by every guarded step, hence along every
guarded schedule.
-/
import GoaktVerif.Lemmas.C06.Worker
import GoaktVerif.Lemmas.C06.Threads
import GoaktVerif.Lemmas.C06.Restart

namespace GoaktVerif.C06
open GoaktVerif.Model.C06 GoaktVerif.Spec.C06

theorem inv_t (c : Cfg) (k : Nat) (hI : Inv c) (hg : okStep c (k + 1) = true) : Inv (tStep c k) := by
  unfold tStep
  simp only []
  split
  · exact hI
  · rename_i p hpc
    split <;> exact inv_setT c k _ hI (by simp [hpc, TPC.inWin]) (by simp [TPC.inWin])
  · rename_i p hpc
    have h := inv_enq c hI p
    cases p
    · exact inv_setT _ k _ (by simpa using h) (by simp [hpc, TPC.inWin]) (by simp [TPC.inWin])
    · exact inv_setT _ k _ (by simpa using h) (by simp [hpc, TPC.inWin]) (by simp [TPC.inWin])
  · rename_i v hpc
    split <;> exact inv_setT c k _ hI (by simp [hpc, TPC.inWin]) (by simp [TPC.inWin])
  · rename_i v hpc
    simp only [okStep, hpc] at hg
    split
    · rename_i hn
      have hn' : c.locker = none := by simpa using hn
      exact inv_setT _ k _ (inv_acquire c hI k v hn' hg) (by simp [acquire, hpc, TPC.inWin]) (by simp [TPC.inWin])
    · exact hI
  · rename_i v hpc
    split
    · exact hI
    · rename_i h hl
      split
      · rename_i hid
        have hne : h.id ≠ 0 := by simp [hid, tidOf]
        have h1 := inv_cs_ext c hI h hl hne
        have hth : (csStep c h).threads = c.threads := by
          unfold csStep; split <;> (try split) <;> (try split) <;> simp [emit, resetFlags]
        split
        · refine inv_setT _ k _ h1 (by simp [hth, hpc, TPC.inWin]) ?_
          cases v <;> simp [afterSd, TPC.inWin]
        · exact h1
      · exact hI
  · rename_i hpc
    split
    · exact inv_setT c k _ hI (by simp [hpc, TPC.inWin]) (by simp [TPC.inWin])
    · refine inv_setT _ k _ ?_ (by simp [hpc, TPC.inWin]) (by simp [TPC.inWin])
      obtain ⟨turn, win1, ex1, ex2, ex3, ok1, ok2, ok3, ok4, recvBy, postBy, pre1, pre2, k1, k2, k3, k4, k6⟩ := hI
      constructor <;> simp_all [afterPostB]
  · rename_i hpc
    split <;> exact inv_setT c k _ hI (by simp [hpc, TPC.inWin]) (by simp [TPC.inWin])
  · rename_i hpc
    split
    · exact hI
    · exact inv_setT c k _ hI (by simp [hpc, TPC.inWin]) (by simp [TPC.inWin])
  · rename_i hpc
    simp only [okStep, hpc] at hg
    split
    · rename_i hs
      simp only [Bool.and_eq_true, Option.isNone_iff_eq_none] at hg
      exact inv_rSpin c hI k hpc hg.1 hg.2 (by simp [hs])
    · exact hI
  · rename_i hpc; exact inv_rBeh c hI k hpc
  · rename_i hpc; exact inv_rPreB c hI k hpc
  · rename_i hpc; exact inv_rPreE c hI k hpc
  · rename_i hpc; exact inv_rFin c hI k hpc

theorem inv_step (c : Cfg) (a : Nat) (hI : Inv c) (hg : okStep c a = true) : Inv (step c a) := by
  cases a with
  | zero => exact inv_w c hI hg
  | succ k => exact inv_t c k hI hg

theorem inv_init (b : Nat) (prog : Nat → TPC) (hp : ∀ i, (prog i).initial = true) : Inv (init b prog) := by
  constructor <;> simp [init, initLog, monOf, monStep, Mon.init, afterPostB]
  intro i
  have := hp i
  cases h : prog i <;> simp_all [TPC.initial, TPC.inWin]

theorem inv_run (c : Cfg) (s : List Nat) (hI : Inv c) (hg : guarded c s = true) : Inv (run c s) := by
  induction s generalizing c with
  | nil => exact hI
  | cons a s ih =>
    simp only [guarded, Bool.and_eq_true] at hg
    exact ih _ (inv_step c a hI hg.1) hg.2

end GoaktVerif.C06

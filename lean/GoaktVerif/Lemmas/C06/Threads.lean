/-
C06: the invariant is preserved by every guarded step of a pool thread that is NOT inside the
stop critical section (senders, pre-checks, lock acquisition, the restart window).
-/
import GoaktVerif.Lemmas.C06.Inv

namespace GoaktVerif.C06
open GoaktVerif.Model.C06 GoaktVerif.Spec.C06

/-- changing the program counter of a thread that is outside the restart window, to a program
    counter outside the window, preserves the invariant -/
theorem inv_setT (c : Cfg) (i : Nat) (pc : TPC) (hI : Inv c)
    (h1 : (c.threads i).inWin = false) (h2 : pc.inWin = false) : Inv (setT c i pc) := by
  obtain ⟨turn, win1, ex1, ex2, ex3, ok1, ok2, ok3, ok4, recvBy, postBy, pre1, pre2, k1, k2, k3, k4, k6⟩ := hI
  have hwi : c.win ≠ some i := by
    intro h; have := (win1 i).2 h; simp_all
  constructor
  case win1 =>
    intro j; by_cases hj : j = i
    · subst hj; simp_all [setT]
    · simp_all [setT]
  case pre2 =>
    intro j hj; have : j ≠ i := by intro h; subst h; exact hwi hj
    simp_all [setT]
  case k2 =>
    intro j hj; have : j ≠ i := by intro h; subst h; exact hwi hj
    simp_all [setT]
  case k4 =>
    intro hb
    rcases k4 hb with h | h | ⟨j, hj, hj2⟩
    · exact Or.inl h
    · exact Or.inr (Or.inl h)
    · refine Or.inr (Or.inr ⟨j, hj, ?_⟩)
      have : j ≠ i := by intro h; subst h; exact hwi hj
      simp_all [setT]
  all_goals simp_all [setT, afterPostB]


/-- an external thread's step inside the stop critical section -/
theorem inv_cs_ext (c : Cfg) (hI : Inv c) (h : Holder) (hl : c.locker = some h) (hid : h.id ≠ 0) :
    Inv (csStep c h) := by
  obtain ⟨turn, win1, ex1, ex2, ex3, ok1, ok2, ok3, ok4, recvBy, postBy, pre1, pre2, k1, k2, k3, k4, k6⟩ := hI
  have hw : c.w = .idle := by
    apply Classical.byContradiction; intro hn
    exact hid ((ex1 hn).2 h hl)
  have hwin : c.win = none := by
    apply Classical.byContradiction; intro hn
    have := ex2 hn; simp_all
  obtain ⟨id, v, pc⟩ := h
  cases pc
  · simp only [csStep]
    by_cases hr : c.running = true <;> by_cases hv : v = .pass <;> inv_solve
  · simp only [csStep]; inv_solve
  · simp only [csStep]; inv_solve
  · simp only [csStep]; inv_solve
  · simp only [csStep]; inv_solve

theorem inv_enq (c : Cfg) (hI : Inv c) (p : Bool) :
    Inv (if p then { c with sysbox := c.sysbox + 1, sched := trySchedule c.sched }
         else { c with box := c.box + 1, sched := trySchedule c.sched }) := by
  obtain ⟨turn, win1, ex1, ex2, ex3, ok1, ok2, ok3, ok4, recvBy, postBy, pre1, pre2, k1, k2, k3, k4, k6⟩ := hI
  cases p <;> cases hs : c.sched <;> (constructor <;> simp_all [afterPostB, trySchedule])

theorem inv_acquire (c : Cfg) (hI : Inv c) (k : Nat) (v : Via) (hn : c.locker = none)
    (hg : (c.sched != .processing && c.win.isNone) = true) :
    Inv (acquire c (tidOf k) v) := by
  obtain ⟨turn, win1, ex1, ex2, ex3, ok1, ok2, ok3, ok4, recvBy, postBy, pre1, pre2, k1, k2, k3, k4, k6⟩ := hI
  inv_solve

end GoaktVerif.C06

/-
C06: the invariant is preserved by the steps of restart's re-initialisation window
(spin-loop exit, resetBehavior, PreStart begin/end, final schedState.reset + PostStart).
-/
import GoaktVerif.Lemmas.C06.Inv

namespace GoaktVerif.C06
open GoaktVerif.Model.C06 GoaktVerif.Spec.C06

macro "invw_solve" i:ident : tactic =>
  `(tactic| (constructor <;> (try intro j) <;> (try (by_cases hj : j = $i)) <;>
      simp_all [afterPostB, emit, monStep, tidOf, setT, TPC.inWin] <;> (try omega)))

/-- facts available while thread `i` owns the window -/
theorem win_facts (c : Cfg) (hI : Inv c) (i : Nat) (hin : (c.threads i).inWin = true) :
    c.win = some i ∧ c.locker = none ∧ c.w = .idle := by
  have hw := (hI.win1 i).1 hin
  refine ⟨hw, hI.ex2 (by simp [hw]), ?_⟩
  apply Classical.byContradiction; intro hn
  have := (hI.ex1 hn).1; simp_all

theorem inv_rSpin (c : Cfg) (hI : Inv c) (i : Nat) (_hpc : c.threads i = .rSpin)
    (hl : c.locker = none) (hwn : c.win = none) (hs : c.sched ≠ .processing) :
    Inv (setT { c with win := some i } i .rBeh) := by
  obtain ⟨turn, win1, ex1, ex2, ex3, ok1, ok2, ok3, ok4, recvBy, postBy, pre1, pre2, k1, k2, k3, k4, k6⟩ := hI
  invw_solve i


theorem inv_rBeh (c : Cfg) (hI : Inv c) (i : Nat) (hpc : c.threads i = .rBeh) :
    Inv (setT { c with beh := true } i .rPreB) := by
  obtain ⟨hw, hl, hidle⟩ := win_facts c hI i (by simp [hpc, TPC.inWin])
  obtain ⟨turn, win1, ex1, ex2, ex3, ok1, ok2, ok3, ok4, recvBy, postBy, pre1, pre2, k1, k2, k3, k4, k6⟩ := hI
  invw_solve i

theorem inv_rPreB (c : Cfg) (hI : Inv c) (i : Nat) (hpc : c.threads i = .rPreB) :
    Inv (setT (emit c (.preB (tidOf i) .restart)) i .rPreE) := by
  obtain ⟨hw, hl, hidle⟩ := win_facts c hI i (by simp [hpc, TPC.inWin])
  obtain ⟨turn, win1, ex1, ex2, ex3, ok1, ok2, ok3, ok4, recvBy, postBy, pre1, pre2, k1, k2, k3, k4, k6⟩ := hI
  invw_solve i

theorem inv_rPreE (c : Cfg) (hI : Inv c) (i : Nat) (hpc : c.threads i = .rPreE) :
    Inv (setT { emit c (.preE (tidOf i)) with running := true } i .rFin) := by
  obtain ⟨hw, hl, hidle⟩ := win_facts c hI i (by simp [hpc, TPC.inWin])
  obtain ⟨turn, win1, ex1, ex2, ex3, ok1, ok2, ok3, ok4, recvBy, postBy, pre1, pre2, k1, k2, k3, k4, k6⟩ := hI
  invw_solve i

theorem inv_rFin (c : Cfg) (hI : Inv c) (i : Nat) (hpc : c.threads i = .rFin) :
    Inv (setT { c with sched := trySchedule c.sched, suspended := false, box := c.box + 1, win := none } i .done) := by
  obtain ⟨hw, hl, hidle⟩ := win_facts c hI i (by simp [hpc, TPC.inWin])
  obtain ⟨turn, win1, ex1, ex2, ex3, ok1, ok2, ok3, ok4, recvBy, postBy, pre1, pre2, k1, k2, k3, k4, k6⟩ := hI
  cases hs : c.sched <;> simp only [trySchedule, hs] <;> invw_solve i

end GoaktVerif.C06

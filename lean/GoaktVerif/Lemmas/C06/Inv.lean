/-
C06: the inductive invariant of guarded executions (definition + automation macro).
-/
import GoaktVerif.Lemmas.C06

namespace GoaktVerif.C06
open GoaktVerif.Model.C06 GoaktVerif.Spec.C06

def afterPostB (c : Cfg) : Bool :=
  match c.locker with
  | some h => h.pc == .postE || h.pc == .reset
  | none => false

/-- invariant of every execution whose steps satisfy `okStep` -/
structure Inv (c : Cfg) : Prop where
  turn : c.w = .idle ↔ c.sched ≠ .processing
  win1 : ∀ i, (c.threads i).inWin = true ↔ c.win = some i
  ex1 : c.w ≠ .idle → c.win = none ∧ ∀ h, c.locker = some h → h.id = 0
  ex2 : c.win ≠ none → c.locker = none
  ex3 : ∀ h, c.locker = some h → h.id = 0 → ∃ b, c.w = .sdIn b
  ok1 : c.mon.c1 = true
  ok2 : c.mon.c2 = true
  ok3 : c.mon.c3 = true
  ok4 : c.mon.c4 = true
  recvBy : c.mon.recvBy = (match c.w with | .recv _ => some 0 | _ => none)
  postBy : c.mon.postBy = (match c.locker with | some h => if h.pc = .postE then [h.id] else [] | none => [])
  pre1 : c.win = none → c.mon.preDone = true
  pre2 : ∀ i, c.win = some i → (c.mon.preDone = false ↔ c.threads i = .rPreE)
  k1 : c.running = true → c.mon.posts = 0 ∨ afterPostB c = true
  k2 : ∀ i, c.win = some i → c.threads i = .rPreE → c.mon.posts = 0
  k3 : ∀ h, c.locker = some h → h.pc = .postB → c.running = true
  k4 : c.beh = true → c.mon.posts = 0 ∨ afterPostB c = true ∨ ∃ i, c.win = some i ∧ c.threads i = .rPreB
  k6 : ∀ h, c.locker = some h → h.pc = .unlock → c.running = false ∧ c.beh = false

macro "inv_solve" : tactic =>
  `(tactic| (constructor <;> simp_all [afterPostB, emit, monStep, acquire, wid, tidOf, resetFlags, sameOrNone]))

end GoaktVerif.C06

/-
C06: the invariant is preserved by a step of the worker inside the stop critical section
(a PoisonPill's Shutdown executed inside the actor's own turn).
-/
import GoaktVerif.Lemmas.C06.Inv

namespace GoaktVerif.C06
open GoaktVerif.Model.C06 GoaktVerif.Spec.C06

theorem inv_w_cs (c : Cfg) (hI : Inv c) (b : Nat) (hw : c.w = .sdIn b) (h : Holder) (hl : c.locker = some h) (hid : h.id = 0) :
    Inv (if csReturns c h then { csStep c h with w := .loop b } else csStep c h) := by
  obtain ⟨turn, win1, ex1, ex2, ex3, ok1, ok2, ok3, ok4, recvBy, postBy, pre1, pre2, k1, k2, k3, k4, k6⟩ := hI
  obtain ⟨id, v, pc⟩ := h
  simp only at hid
  subst hid
  cases pc
  · -- check
    simp only [csReturns, csStep]
    by_cases hr : c.running = true <;> by_cases hv : v = .pass <;> inv_solve
  · simp only [csReturns, csStep]; inv_solve
  · simp only [csReturns, csStep]; inv_solve
  · simp only [csReturns, csStep]; inv_solve
  · simp only [csReturns, csStep]; inv_solve

end GoaktVerif.C06

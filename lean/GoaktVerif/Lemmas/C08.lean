/-
C08 helper lemmas: Go's `>>` / `<<` on int64 (GoSem.shrInt64 / shlInt64, as emitted by go2lean)
expressed as floor division / multiplication by 2^k over Int, for every shift count in [0,64).
-/
import GoaktVerif.GoSem
namespace GoaktVerif.C08L
open GoaktVerif

theorem smod64 (x : BitVec 64) (h : x.toNat < 64) : x.smod 64#64 = x := by
  have hm : x.msb = false := by
    rw [BitVec.msb_eq_decide]; simp; omega
  have h64 : (64#64 : BitVec 64).msb = false := by decide
  unfold BitVec.smod
  rw [hm, h64]
  apply BitVec.eq_of_toNat_eq
  simp [BitVec.toNat_umod]
  omega

/-- a non-negative Int64 seen through its bit vector -/
theorem toNat_of_nonneg (s : Int64) (h : 0 ≤ s.toInt) : s.toBitVec.toNat = s.toInt.toNat := by
  have := s.toBitVec.isLt
  simp only [Int64.toInt, BitVec.toInt] at h ⊢
  split at h <;> split <;> omega

theorem not_ge64 (s : Int64) (h0 : 0 ≤ s.toInt) (h1 : s.toInt < 64) : ¬ (s.toUInt64 ≥ 64) := by
  have hn := toNat_of_nonneg s h0
  rw [ge_iff_le, UInt64.le_iff_toNat_le]
  simp only [← UInt64.toNat_toBitVec, Int64.toBitVec_toUInt64]
  show ¬ (64 ≤ _)
  omega

/-- Go `m >> uint(s)` for 0 ≤ s < 64 is floor division by 2^s (arithmetic shift) -/
theorem shrInt64_toInt (m s : Int64) (h0 : 0 ≤ s.toInt) (h1 : s.toInt < 64) :
    (GoSem.shrInt64 m s.toUInt64).toInt = m.toInt / 2 ^ s.toInt.toNat := by
  have hn := toNat_of_nonneg s h0
  have hlt : s.toBitVec.toNat < 64 := by omega
  unfold GoSem.shrInt64
  rw [if_neg (not_ge64 s h0 h1), Int64.toInt64_toUInt64]
  simp only [Int64.toInt, Int64.toBitVec_shiftRight, BitVec.toInt_sshiftRight',
    Int.shiftRight_eq_div_pow]
  simp only [Int64.toInt] at hn
  have e : s.toBitVec.smod 64 = s.toBitVec := smod64 _ hlt
  rw [e, hn]
  simp

/-- Go `i << uint(s)` for 0 ≤ s < 64, i ≥ 0, is multiplication by 2^s as long as the product fits -/
theorem shlInt64_toInt (i s : Int64) (h0 : 0 ≤ s.toInt) (h1 : s.toInt < 64)
    (hi : 0 ≤ i.toInt) (hfit : i.toInt * 2 ^ s.toInt.toNat < 2 ^ 63) :
    (GoSem.shlInt64 i s.toUInt64).toInt = i.toInt * 2 ^ s.toInt.toNat := by
  have hn := toNat_of_nonneg s h0
  have hin := toNat_of_nonneg i hi
  have hlt : s.toBitVec.toNat < 64 := by omega
  unfold GoSem.shlInt64
  rw [if_neg (not_ge64 s h0 h1), Int64.toInt64_toUInt64]
  have e : s.toBitVec.smod 64 = s.toBitVec := smod64 _ hlt
  simp only [Int64.toInt, Int64.toBitVec_shiftLeft, e, BitVec.shiftLeft_eq', BitVec.toInt_shiftLeft,
    Nat.shiftLeft_eq]
  simp only [Int64.toInt] at hn hin hfit hi
  rw [hn, hin]
  generalize s.toBitVec.toInt.toNat = k at *
  have hp : (0:Int) < 2 ^ k := Int.pow_pos (by decide)
  have hnn : 0 ≤ i.toBitVec.toInt * 2 ^ k := Int.mul_nonneg hi (Int.le_of_lt hp)
  have cast : ((i.toBitVec.toInt.toNat * 2 ^ k : Nat) : Int) = i.toBitVec.toInt * 2 ^ k := by
    rw [Int.natCast_mul, Int.toNat_of_nonneg hi]; simp
  rw [cast]
  apply Int.bmod_eq_of_le <;> omega

/-- `n - 1` does not wrap for n ≥ 1 -/
theorem sub_one_toInt (n : Int64) (h : 1 ≤ n.toInt) : (n - 1).toInt = n.toInt - 1 := by
  have hb := n.toInt_lt
  rw [Int64.toInt_sub]
  have : (1 : Int64).toInt = 1 := rfl
  rw [this]
  apply Int.bmod_eq_of_le <;> omega

end GoaktVerif.C08L

/-
C31 helper lemmas: ghost monitor = monitor of the ghost log; the invariant of executions without
direct (off-turn) deactivation.
-/
import GoaktVerif.Model.C31

namespace GoaktVerif.C31
open GoaktVerif.Model.C31 GoaktVerif.Spec.C06
open GoaktVerif.Model.C06 (Sched trySchedule)

theorem step_mon (c : Cfg) (a : Nat) (hm : c.mon = monOf c.log) : (step c a).mon = monOf (step c a).log := by
  cases a with
  | zero =>
    simp only [step, wStep]
    split <;> (try split) <;> (try split) <;> simp_all [emit, monOf, finish]
  | succ k =>
    simp only [step, tStep]
    split <;> (try split) <;> (try split) <;> (try split) <;> simp_all [emit, monOf, finish, setT]

theorem run_mon (c : Cfg) (s : List Nat) (hm : c.mon = monOf c.log) : (run c s).mon = monOf (run c s).log := by
  induction s generalizing c with
  | nil => exact hm
  | cons a s ih => exact ih _ (step_mon c a hm)

/-- Invariant of every execution (any pool, any schedule): nothing happens to the process before
    its activation has completed, and activation happens once. -/
structure Base (c : Cfg) : Prop where
  others : ∀ i, i ≠ 0 → (c.threads i).creating = false
  pre : c.mon.preDone = false ↔ (c.threads 0).creating = true
  quiet : c.mon.preDone = false → c.box = [] ∧ c.active = false ∧ c.w = .idle ∧ c.sched = .idle ∧ c.deleted = false ∧ c.inMap = false
  early : c.mon.preDone = false → ∀ i, i ≠ 0 → (c.threads i).initial = true
  ok1 : c.mon.c1 = true
  del : c.deleted = true → c.inMap = false ∧ c.active = false

end GoaktVerif.C31

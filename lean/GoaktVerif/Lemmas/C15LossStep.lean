import GoaktVerif.Lemmas.C15Loss

/-
C15 — `Mode.fixed`, the no-loss clause: the three kinds of steps (frame, build, send).
-/
set_option linter.unusedSimpArgs false
set_option linter.unusedVariables false

namespace GoaktVerif.C15
open GoaktVerif.Model.C15

/-! ### reading the four thread lists after one record was replaced -/

section
variable {c c1 : Cfg} {tid : Nat} {t t' : Thread}

theorem mem_unbuilt_upd (hth : c1.threads = c.threads) (ht : c.threads[tid]? = some t) (x : ReqId) :
    x ∈ unbuilt (upd c1 tid t') ↔ x ∈ ub t' ∨ ∃ (j : Nat) (tj : Thread), j ≠ tid ∧ c.threads[j]? = some tj ∧ x ∈ ub tj := by
  show x ∈ (c1.threads.set tid t').flatMap ub ↔ _
  rw [hth]; exact mem_flatMap_set c.threads tid t t' ub x ht

theorem mem_waiting_upd (hth : c1.threads = c.threads) (ht : c.threads[tid]? = some t) (x : CtxId × ChanId × ReqId) :
    x ∈ waiting (upd c1 tid t') ↔ x ∈ sl t' ∨ ∃ (j : Nat) (tj : Thread), j ≠ tid ∧ c.threads[j]? = some tj ∧ x ∈ sl tj := by
  show x ∈ (c1.threads.set tid t').flatMap sl ↔ _
  rw [hth]; exact mem_flatMap_set c.threads tid t t' sl x ht

theorem mem_held_upd (hth : c1.threads = c.threads) (ht : c.threads[tid]? = some t) (x : CtxId) :
    x ∈ (upd c1 tid t').threads.flatMap hd ↔ x ∈ hd t' ∨ ∃ (j : Nat) (tj : Thread), j ≠ tid ∧ c.threads[j]? = some tj ∧ x ∈ hd tj := by
  show x ∈ (c1.threads.set tid t').flatMap hd ↔ _
  rw [hth]; exact mem_flatMap_set c.threads tid t t' hd x ht

theorem others_unbuilt {x : ReqId} (h : ∃ (j : Nat) (tj : Thread), j ≠ tid ∧ c.threads[j]? = some tj ∧ x ∈ ub tj) : x ∈ unbuilt c := by
  obtain ⟨j, tj, _, hj, hx⟩ := h
  exact (mem_flatMap_get c.threads ub x).mpr ⟨j, tj, hj, hx⟩

theorem others_waiting {x : CtxId × ChanId × ReqId}
    (h : ∃ (j : Nat) (tj : Thread), j ≠ tid ∧ c.threads[j]? = some tj ∧ x ∈ sl tj) : x ∈ waiting c := by
  obtain ⟨j, tj, _, hj, hx⟩ := h
  exact (mem_flatMap_get c.threads sl x).mpr ⟨j, tj, hj, hx⟩

theorem self_unbuilt (ht : c.threads[tid]? = some t) {x : ReqId} (h : x ∈ ub t) : x ∈ unbuilt c :=
  (mem_flatMap_get c.threads ub x).mpr ⟨tid, t, ht, h⟩

theorem self_waiting (ht : c.threads[tid]? = some t) {x : CtxId × ChanId × ReqId} (h : x ∈ sl t) : x ∈ waiting c :=
  (mem_flatMap_get c.threads sl x).mpr ⟨tid, t, ht, h⟩

end

/-! ### facts `FInv` gives about the lists -/

theorem ub_sub_ids {c own} (h : FInv c own) {j : Nat} {tj : Thread} (hj : c.threads[j]? = some tj) :
    ∀ k, k ∈ ub tj → k ∈ ids tj := by
  intro k hk
  simp only [ub, List.mem_append] at hk
  rcases hk with hk | hk
  · exact List.mem_append_right _ hk
  · have hok := (h.thr j tj hj).1
    cases hpc : tj.pc with
    | none => simp [hpc] at hk
    | some pc =>
      cases pc <;> simp [hpc] at hk
      subst hk
      simp only [ThreadOk, hpc] at hok
      simp [ids, curIds, hok.1]

theorem sl_ids {c own} (h : FInv c own) {j : Nat} {tj : Thread} (hj : c.threads[j]? = some tj) :
    ∀ i ch k, (i, ch, k) ∈ sl tj → k ∈ ids tj ∧ tj.pc = some (.askSelect i ch k) := by
  intro i ch k hk
  have hok := (h.thr j tj hj).1
  cases hpc : tj.pc with
  | none => simp [sl, hpc] at hk
  | some pc =>
    cases pc <;> simp [sl, hpc] at hk
    obtain ⟨rfl, rfl, rfl⟩ := hk
    simp only [ThreadOk, hpc] at hok
    exact ⟨by simp [ids, curIds, hok.1], rfl⟩

theorem hd_worker {c own} (h : FInv c own) {j : Nat} {tj : Thread} (hj : c.threads[j]? = some tj) :
    ∀ i, i ∈ hd tj → i = c.sentinel ∧ tj.cur = some .handle := by
  intro i hi
  have hok := (h.thr j tj hj).1
  cases hpc : tj.pc with
  | none => simp [hd, hpc] at hi
  | some pc =>
    cases pc <;> simp [hd, hpc] at hi <;> subst hi <;> simp only [ThreadOk, hpc] at hok <;> exact ⟨hok.2.1, hok.1⟩

/-- when thread `tid` is the worker, nobody else holds a context -/
theorem others_hold_nothing {c own} (h : FInv c own) {tid : Nat} {t : Thread} (ht : c.threads[tid]? = some t)
    (hcur : t.cur = some .handle) {x : CtxId} :
    ¬ ∃ (j : Nat) (tj : Thread), j ≠ tid ∧ c.threads[j]? = some tj ∧ x ∈ hd tj := by
  intro ⟨j, tj, hne, hj, hx⟩
  have := (hd_worker h hj x hx).2
  exact hne (h.single j tid tj t hj ht (Or.inl this) (Or.inl hcur))

theorem rd_cons_timedOut (c : Cfg) (k k' : ReqId) : Ev.respDone k ∈ (Ev.timedOut k' :: c.log) ↔ Ev.respDone k ∈ c.log := by
  simp

/-! ### frame: steps that change nothing the no-loss bookkeeping reads, except possibly shrinking it -/

theorem ninv_frame {c c1 : Cfg} {tid : Nat} {t t' : Thread}
    (n : NInv c) (ht : c.threads[tid]? = some t) (hth : c1.threads = c.threads)
    (h_ids : (ids t').Sublist (ids t))
    (h_ub : ∀ x, x ∈ ub t' → x ∈ ub t)
    (h_sl : ∀ x, x ∈ sl t' → x ∈ sl t)
    (h_log : ∀ k, Ev.respDone k ∈ c1.log ↔ Ev.respDone k ∈ c.log) (h_noloss : noLossLog c1.log = true)
    (h_pend : ∀ j, j ∈ pending (upd c1 tid t') ↔ j ∈ pending c)
    (h_ctx : ∀ j, j ∈ pending c → (ctxOf c1 j).msg = (ctxOf c j).msg ∧ (ctxOf c1 j).response = (ctxOf c j).response)
    (h_chan : ∀ i ch k, (i, ch, k) ∈ waiting (upd c1 tid t') → chanOf c1 ch = chanOf c ch) :
    NInv (upd c1 tid t') := by
  have hrd : ∀ k, rd (upd c1 tid t') k ↔ rd c k := h_log
  have hun : ∀ k, k ∈ unbuilt (upd c1 tid t') → k ∈ unbuilt c := by
    intro k hk
    rcases (mem_unbuilt_upd hth ht k).mp hk with h1 | h1
    · exact self_unbuilt ht (h_ub k h1)
    · exact others_unbuilt h1
  have hwa : ∀ x, x ∈ waiting (upd c1 tid t') → x ∈ waiting c := by
    intro x hx
    rcases (mem_waiting_upd hth ht x).mp hx with h1 | h1
    · exact self_waiting ht (h_sl x h1)
    · exact others_waiting h1
  refine ⟨?_, h_noloss, ?_, ?_, ?_, ?_⟩
  · show ((c1.threads.set tid t').flatMap ids).Nodup
    rw [hth]
    exact nodup_flatMap_set c.threads tid t t' ids ht h_ids n.ids
  · intro k hk hr
    exact n.unb k (hun k hk) ((hrd k).mp hr)
  · intro j k hj hm
    have hj' := (h_pend j).mp hj
    have hm' : (ctxOf c j).msg = some k := by rw [← (h_ctx j hj').1]; exact hm
    obtain ⟨p1, p2, p3⟩ := n.pend j k hj' hm'
    exact ⟨fun hr => p1 ((hrd k).mp hr), fun hu => p2 (hun k hu), fun i ch hw => p3 i ch (hwa _ hw)⟩
  · intro i ch k hw
    obtain ⟨s1, s2⟩ := n.sel i ch k (hwa _ hw)
    refine ⟨fun hr => ?_, fun hr => ?_⟩
    · show chanOf c1 ch = some k
      rw [h_chan i ch k hw]; exact s1 ((hrd k).mp hr)
    · obtain ⟨q1, q2, q3⟩ := s2 (fun x => hr ((hrd k).mpr x))
      have := h_ctx i q3
      exact ⟨by show (ctxOf c1 i).response = _; rw [this.2]; exact q1,
        by show (ctxOf c1 i).msg = _; rw [this.1]; exact q2, (h_pend i).mpr q3⟩
  · intro j1 j2 k h1 h2 m1 m2
    have h1' := (h_pend j1).mp h1
    have h2' := (h_pend j2).mp h2
    exact n.dist j1 j2 k h1' h2' (by rw [← (h_ctx j1 h1').1]; exact m1) (by rw [← (h_ctx j2 h2').1]; exact m2)

theorem pending_upd {c c1 : Cfg} {tid : Nat} {t t' : Thread} (hth : c1.threads = c.threads)
    (ht : c.threads[tid]? = some t) (j : CtxId) :
    j ∈ pending (upd c1 tid t') ↔ j ∈ c1.mbox ∨ j ∈ hd t' ∨
      ∃ (x : Nat) (tx : Thread), x ≠ tid ∧ c.threads[x]? = some tx ∧ j ∈ hd tx := by
  show j ∈ c1.mbox ++ (upd c1 tid t').threads.flatMap hd ↔ _
  rw [List.mem_append, mem_held_upd hth ht]

theorem pending_self {c : Cfg} {tid : Nat} {t : Thread} (ht : c.threads[tid]? = some t) (j : CtxId) :
    j ∈ pending c ↔ j ∈ c.mbox ∨ j ∈ hd t ∨ ∃ (x : Nat) (tx : Thread), x ≠ tid ∧ c.threads[x]? = some tx ∧ j ∈ hd tx := by
  show j ∈ c.mbox ++ c.threads.flatMap hd ↔ _
  rw [List.mem_append, mem_flatMap_get]
  constructor
  · intro h
    rcases h with h | ⟨x, tx, hx, hj⟩
    · exact Or.inl h
    · by_cases e : x = tid
      · subst e; rw [ht] at hx; cases hx; exact Or.inr (Or.inl hj)
      · exact Or.inr (Or.inr ⟨x, tx, e, hx, hj⟩)
  · intro h
    rcases h with h | h | ⟨x, tx, _, hx, hj⟩
    · exact Or.inl h
    · exact Or.inr ⟨tid, t, ht, h⟩
    · exact Or.inr ⟨x, tx, hx, hj⟩

theorem pending_upd_same {c c1 : Cfg} {tid : Nat} {t t' : Thread} (hth : c1.threads = c.threads)
    (ht : c.threads[tid]? = some t) (hmb : c1.mbox = c.mbox) (hhd : hd t' = hd t) (j : CtxId) :
    j ∈ pending (upd c1 tid t') ↔ j ∈ pending c := by
  rw [pending_upd hth ht, pending_self ht, hmb, hhd]

/-! ### starting the next operation -/

theorem getContext_frame (c : Cfg) :
    (getContext c).2.threads = c.threads ∧ (∀ j, ctxOf (getContext c).2 j = ctxOf c j) ∧
    (∀ x, chanOf (getContext c).2 x = chanOf c x) ∧ (getContext c).2.mbox = c.mbox ∧ (getContext c).2.log = c.log := by
  unfold getContext
  split
  · exact ⟨rfl, fun j => ctxOf_allocCtx c j, fun _ => rfl, rfl, rfl⟩
  · exact ⟨rfl, fun _ => rfl, fun _ => rfl, rfl, rfl⟩
  · exact ⟨rfl, fun j => ctxOf_allocCtx c j, fun _ => rfl, rfl, rfl⟩

theorem startNext_frame (c : Cfg) (t : Thread) :
    (startNext c t).1.threads = c.threads ∧ (∀ j, ctxOf (startNext c t).1 j = ctxOf c j) ∧
    (∀ x, chanOf (startNext c t).1 x = chanOf c x) ∧ (startNext c t).1.mbox = c.mbox ∧ (startNext c t).1.log = c.log := by
  unfold startNext
  cases t.prog with
  | nil => exact ⟨rfl, fun _ => rfl, fun _ => rfl, rfl, rfl⟩
  | cons op rest =>
    cases op with
    | handle => exact ⟨rfl, fun _ => rfl, fun _ => rfl, rfl, rfl⟩
    | ask k => exact getContext_frame c

theorem startNext_lists (c : Cfg) (t : Thread) (hpc : t.pc = none) :
    (ids (startNext c t).2).Sublist (ids t) ∧ (∀ x, x ∈ ub (startNext c t).2 → x ∈ ub t) ∧
    sl (startNext c t).2 = [] ∧ hd (startNext c t).2 = [] := by
  unfold startNext
  cases hp : t.prog with
  | nil =>
    refine ⟨?_, ?_, rfl, rfl⟩
    · simp [ids, curIds, progIds]
    · intro x hx; simp [ub, progIds] at hx
  | cons op rest =>
    cases op with
    | handle =>
      refine ⟨?_, ?_, rfl, rfl⟩
      · simp only [ids, curIds, progIds, hp, List.filterMap_cons, askId, List.nil_append]
        exact List.sublist_append_right _ _
      · intro x hx
        simp only [ub, progIds, hpc, hp, List.filterMap_cons, askId, List.append_nil] at hx ⊢
        exact hx
    | ask k =>
      refine ⟨?_, ?_, rfl, rfl⟩
      · simp only [ids, curIds, progIds, hp, List.filterMap_cons, askId]
        exact List.sublist_append_right _ _
      · intro x hx
        simp only [ub, progIds, hpc, hp, List.filterMap_cons, askId, List.append_nil, List.mem_append,
          List.mem_singleton, List.mem_cons] at hx ⊢
        rcases hx with h | h | h
        · exact Or.inr h
        · exact Or.inl h
        · cases h

theorem ninv_start {c : Cfg} {tid : Nat} {t : Thread} (n : NInv c)
    (ht : c.threads[tid]? = some t) (hpc : t.pc = none) :
    NInv (upd (startNext c t).1 tid (startNext c t).2) := by
  obtain ⟨f1, f2, f3, f4, f5⟩ := startNext_frame c t
  obtain ⟨l1, l2, l3, l4⟩ := startNext_lists c t hpc
  have hhd : hd t = [] := by simp [hd, hpc]
  apply ninv_frame n ht f1 l1 l2 (by intro x hx; rw [l3] at hx; cases hx)
    (by intro k; rw [f5]) (by rw [f5]; exact n.noloss)
    (pending_upd_same f1 ht f4 (by rw [l4, hhd]))
    (fun j _ => by rw [f2 j]; exact ⟨rfl, rfl⟩)
    (fun i ch k _ => f3 ch)

/-- a thread that has just completed an operation: its lists -/
theorem done_lists (t : Thread) (op : Op) (r : Res) :
    ids (done t op r) = ids t ∧ (∀ x, x ∈ ub (done t op r) → x ∈ ub t) ∧ sl (done t op r) = [] ∧ hd (done t op r) = [] := by
  refine ⟨rfl, ?_, rfl, rfl⟩
  intro x hx
  simp only [ub, done, List.append_nil] at hx
  exact List.mem_append_left _ hx

end GoaktVerif.C15

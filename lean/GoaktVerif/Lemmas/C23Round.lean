import GoaktVerif.Lemmas.C23Stream
/-
Round trips: metadata codec, legacy and extended frames.
-/
namespace GoaktVerif.C23
open GoaktVerif.Model.C23

/-! ### positional access into concatenations -/

theorem drop_of_eq {d a r : Bytes} {pos : Nat} (h : d = a ++ r) (hp : pos = a.length) : d.drop pos = r := by
  subst h hp; simp

theorem u16At_of_eq {d a rest : Bytes} {pos n : Nat} (h : d = a ++ (be16 n ++ rest)) (hp : pos = a.length)
    (hn : n < 2 ^ 16) : u16At d pos = .ok n :=
  u16At_of_drop (drop_of_eq h hp) hn

theorem u32At_of_eq {d a rest : Bytes} {pos n : Nat} (h : d = a ++ (be32 n ++ rest)) (hp : pos = a.length)
    (hn : n < 2 ^ 32) : u32At d pos = .ok n :=
  u32At_of_drop (drop_of_eq h hp) hn

theorem u64At_of_eq {d a rest : Bytes} {pos n : Nat} (h : d = a ++ (be64 n ++ rest)) (hp : pos = a.length)
    (hn : n < 2 ^ 64) : u64At d pos = .ok n :=
  u64At_of_drop (drop_of_eq h hp) hn

theorem slice_of_eq {d a b c : Bytes} {lo hi : Nat} (h : d = a ++ (b ++ c)) (hlo : lo = a.length)
    (hhi : hi = lo + b.length) : slice d lo hi = .ok b := by
  subst h hlo hhi
  rw [slice_of_le (by omega) (by simp only [List.length_append]; omega)]
  simp

/-! ### int64 -/

theorem toInt64_ofInt64 {i : Int} (h1 : -2 ^ 63 ≤ i) (h2 : i < 2 ^ 63) : toInt64 (ofInt64 i) = i := by
  unfold toInt64 ofInt64
  split <;> omega

theorem ofInt64_lt (i : Int) : ofInt64 i < 2 ^ 64 := by
  unfold ofInt64; omega

/-! ### the header map -/

theorem mapSet_fresh : ∀ (m : Headers) (k v : Bytes), (∀ kv ∈ m, kv.1 ≠ k) → mapSet m k v = m ++ [(k, v)] := by
  intro m
  induction m with
  | nil => intro k v _; rfl
  | cons x xs ih =>
    intro k v h
    obtain ⟨k', v'⟩ := x
    have hne : k' ≠ k := h (k', v') (by simp)
    simp only [mapSet, hne, if_false, List.cons_append]
    rw [ih k v (fun kv hkv => h kv (by simp [hkv]))]

theorem foldl_mapSet : ∀ (hs m : Headers), Spec.C23.distinctKeys hs = true →
    (∀ kv ∈ hs, ∀ kv' ∈ m, kv'.1 ≠ kv.1) →
    hs.foldl (fun m kv => mapSet m kv.1 kv.2) m = m ++ hs := by
  intro hs
  induction hs with
  | nil => intro m _ _; simp
  | cons x xs ih =>
    intro m hd hm
    simp only [Spec.C23.distinctKeys, Bool.and_eq_true, Bool.not_eq_true', List.any_eq_false, beq_iff_eq] at hd
    obtain ⟨hx, hxs⟩ := hd
    simp only [List.foldl_cons]
    rw [mapSet_fresh m x.1 x.2 (fun kv hkv => hm x (by simp) kv hkv)]
    rw [ih (m ++ [(x.1, x.2)]) hxs ?_]
    · simp
    · intro kv hkv kv' hkv'
      simp only [List.mem_append, List.mem_singleton] at hkv'
      rcases hkv' with h | h
      · exact hm kv (by simp [hkv]) kv' h
      · subst h
        intro heq
        exact hx kv hkv heq.symm

/-! ### metadata round trip -/

theorem encHeader_length (kv : Bytes × Bytes) : (encHeader kv).length = 4 + kv.1.length + kv.2.length := by
  simp only [encHeader, List.length_append, be16_length]; omega

theorem mdLoop_enc (data : Bytes) : ∀ (hs : Headers) (pre suf : Bytes) (m : Headers),
    data = pre ++ (hs.flatMap encHeader ++ suf) →
    (∀ kv ∈ hs, kv.1.length < 65536 ∧ kv.2.length < 65536) →
    mdLoop data hs.length pre.length m =
      .ok (pre.length + (hs.flatMap encHeader).length, hs.foldl (fun m kv => mapSet m kv.1 kv.2) m) := by
  intro hs
  induction hs with
  | nil => intro pre suf m _ _; simp [mdLoop]
  | cons x xs ih =>
    intro pre suf m hd hlim
    obtain ⟨k, v⟩ := x
    obtain ⟨hk, hv⟩ := hlim (k, v) (by simp)
    simp only at hk hv
    have hlen : data.length = pre.length + (4 + k.length + v.length) + ((xs.flatMap encHeader).length + suf.length) := by
      rw [hd]; simp only [List.flatMap_cons, List.length_append, encHeader_length]; omega
    -- the five regions
    have e1 : data = pre ++ (be16 k.length ++ (k ++ (be16 v.length ++ (v ++ (xs.flatMap encHeader ++ suf))))) := by
      rw [hd]; simp only [List.flatMap_cons, encHeader, List.append_assoc]
    have e2 : data = (pre ++ be16 k.length) ++ (k ++ (be16 v.length ++ (v ++ (xs.flatMap encHeader ++ suf)))) := by
      rw [e1]; simp only [List.append_assoc]
    have e3 : data = (pre ++ be16 k.length ++ k) ++ (be16 v.length ++ (v ++ (xs.flatMap encHeader ++ suf))) := by
      rw [e1]; simp only [List.append_assoc]
    have e4 : data = (pre ++ be16 k.length ++ k ++ be16 v.length) ++ (v ++ (xs.flatMap encHeader ++ suf)) := by
      rw [e1]; simp only [List.append_assoc]
    have e5 : data = (pre ++ be16 k.length ++ k ++ be16 v.length ++ v) ++ (xs.flatMap encHeader ++ suf) := by
      rw [e1]; simp only [List.append_assoc]
    have r1 : u16At data pre.length = .ok k.length := u16At_of_eq e1 rfl (by omega)
    have r2 : slice data (pre.length + 2) (pre.length + 2 + k.length) = .ok k :=
      slice_of_eq e2 (by simp only [List.length_append, be16_length]) rfl
    have r3 : u16At data (pre.length + 2 + k.length) = .ok v.length :=
      u16At_of_eq e3 (by simp only [List.length_append, be16_length]) (by omega)
    have r4 : slice data (pre.length + 2 + k.length + 2) (pre.length + 2 + k.length + 2 + v.length) = .ok v :=
      slice_of_eq e4 (by simp only [List.length_append, be16_length]) rfl
    have r5 := ih (pre ++ be16 k.length ++ k ++ be16 v.length ++ v) suf (mapSet m k v) e5
      (fun kv hkv => hlim kv (by simp [hkv]))
    have hl5 : (pre ++ be16 k.length ++ k ++ be16 v.length ++ v).length = pre.length + 2 + k.length + 2 + v.length := by
      simp only [List.length_append, be16_length]
    rw [hl5] at r5
    simp only [List.length_cons, mdLoop]
    rw [if_neg (by omega)]
    simp only [r1]
    rw [if_neg (by omega)]
    simp only [r2]
    rw [if_neg (by omega)]
    simp only [r3]
    rw [if_neg (by omega)]
    simp only [r4, r5, List.foldl_cons, List.flatMap_cons, List.length_append, encHeader_length]
    congr 2
    omega

/-- `UnmarshalBinary(MarshalBinary(md))` returns the same header map and the same remaining-time field -/
theorem mdUnmarshal_mdMarshal (hs : Headers) (rem : Int)
    (hcount : hs.length < 65536) (hlim : ∀ kv ∈ hs, kv.1.length < 65536 ∧ kv.2.length < 65536)
    (hdist : Spec.C23.distinctKeys hs = true) (h1 : -2 ^ 63 ≤ rem) (h2 : rem < 2 ^ 63) :
    mdUnmarshal (mdMarshal hs rem) = .ok ⟨hs, rem⟩ := by
  have hlen : (mdMarshal hs rem).length = 2 + (hs.flatMap encHeader).length + 8 := by
    simp only [mdMarshal, List.length_append, be16_length, be64_length]; omega
  have r1 : u16At (mdMarshal hs rem) 0 = .ok hs.length :=
    u16At_of_eq (a := []) (rest := hs.flatMap encHeader ++ be64 (ofInt64 rem)) (by simp only [mdMarshal, List.nil_append]) rfl (by omega)
  have r2 := mdLoop_enc (mdMarshal hs rem) hs (be16 hs.length) (be64 (ofInt64 rem)) [] (by simp [mdMarshal]) hlim
  rw [be16_length, foldl_mapSet hs [] hdist (by simp)] at r2
  have r3 : u64At (mdMarshal hs rem) (2 + (hs.flatMap encHeader).length) = .ok (ofInt64 rem) :=
    u64At_of_eq (a := be16 hs.length ++ hs.flatMap encHeader) (rest := [])
      (by simp only [mdMarshal, List.append_assoc, List.append_nil]) (by simp only [List.length_append, be16_length]) (ofInt64_lt rem)
  unfold mdUnmarshal
  rw [if_neg (by omega)]
  simp only [r1, r2]
  rw [if_neg (by omega)]
  simp only [r3, List.nil_append, toInt64_ofInt64 h1 h2]

theorem mdMarshal_length_pos (hs : Headers) (rem : Int) : (mdMarshal hs rem).length > 0 := by
  simp only [mdMarshal, List.length_append, be16_length, be64_length]; omega

end GoaktVerif.C23

/-
C28 helper lemmas: the pool invariant (every idle connection is clean) and the per-call stream
invariant, preserved by every step of every call, hence by every schedule.
-/
import GoaktVerif.Model.C28

namespace GoaktVerif.C28
open GoaktVerif.Model.C28

/-- balance 0 (nothing written that was not answered and read) and no deadline armed -/
def Clean (cn : Conn) : Prop := cn.srv = [] ∧ cn.resp = [] ∧ cn.deadline = false

def PoolInv (p : Pool) : Prop := ∀ cn ∈ p.idle, Clean cn

/-- stream invariant of a call: what it has read, followed by what is waiting to be read, followed by
    what the server has not handled yet, is a subsequence of the request frames it has written, in
    order (equality unless the server swallowed a request without answering) -/
def CallInv (c : Call) : Prop :=
  c.written ≤ c.reqs.length ∧
  c.got.length ≤ c.reqs.length ∧
  (∀ cn, c.conn = some cn → List.Sublist (c.got ++ cn.resp ++ cn.srv) (c.reqs.take c.written)) ∧
  (c.pc = .putting → c.got.length = c.reqs.length) ∧
  (c.pc = .start → c.written = 0 ∧ c.got = []) ∧
  (c.pc = .needDeadline → c.written = 0 ∧ c.got = []) ∧
  (∀ l, c.result = some (some l) → l = c.reqs)

theorem popIdle_inv (p : Pool) (stale : Nat) (h : PoolInv p) :
    PoolInv (popIdle p stale).1 ∧ ∀ cn, (popIdle p stale).2 = some cn → Clean cn := by
  induction stale generalizing p with
  | zero =>
    unfold popIdle
    split
    · exact ⟨h, by simp⟩
    · rename_i cn rest hi
      refine ⟨?_, ?_⟩
      · intro x hx; exact h x (by rw [hi]; exact List.mem_cons_of_mem _ hx)
      · intro x hx; simp at hx; subst hx; exact h cn (by rw [hi]; exact List.mem_cons_self)
  | succ n ih =>
    unfold popIdle
    split
    · exact ⟨h, by simp⟩
    · rename_i cn rest hi
      apply ih
      intro x hx; exact h x (by rw [hi]; exact List.mem_cons_of_mem _ hx)

theorem discard_inv (p : Pool) (c : Call) (hp : PoolInv p) (hc : CallInv c) :
    PoolInv (discardConn p c).1 ∧ CallInv (discardConn p c).2 := by
  obtain ⟨h1, h2, h3, h4, h5, h6, h7⟩ := hc
  unfold discardConn
  split
  · exact ⟨hp, h1, h2, by simp, by simp, by simp, by simp, by simp⟩
  · exact ⟨hp, h1, h2, by simpa using h3, by simp, by simp, by simp, by simp⟩

theorem afterGet_inv (c : Call) (cn : Conn) (hcn : Clean cn) (hc : CallInv c) (hs : c.pc = .start) :
    CallInv (afterGet c cn) := by
  obtain ⟨h1, h2, h3, h4, h5, h6, h7⟩ := hc
  obtain ⟨hw, hg⟩ := h5 hs
  obtain ⟨c1, c2, c3⟩ := hcn
  unfold afterGet
  refine ⟨h1, h2, ?_, ?_, ?_, ?_, h7⟩
  · intro x hx; simp at hx; subst hx; simp [hg, c1, c2]
  · intro hp; dsimp only at hp; split at hp <;> cases hp
  · intro hp; dsimp only at hp; split at hp <;> cases hp
  · intro _; exact ⟨hw, hg⟩


theorem callStep_inv (cfg : Cfg) (p : Pool) (c : Call) (a : CallAct) (hp : PoolInv p) (hc : CallInv c) :
    PoolInv (callStep cfg p c a).1 ∧ CallInv (callStep cfg p c a).2 := by
  have hc0 := hc
  obtain ⟨h1, h2, h3, h4, h5, h6, h7⟩ := hc
  cases a with
  | get stale dialOk =>
    simp only [callStep]
    split
    · exact ⟨hp, hc0⟩
    · rename_i hs
      have hs : c.pc = .start := by simpa using hs
      split
      · exact ⟨hp, h1, h2, h3, by simp, by simp, by simp, by simp⟩
      · have hpop := popIdle_inv p stale hp
        split
        · rename_i p' cn heq
          rw [heq] at hpop
          exact ⟨hpop.1, afterGet_inv c cn (hpop.2 cn rfl) hc0 hs⟩
        · rename_i p' heq
          rw [heq] at hpop
          split
          · refine ⟨?_, afterGet_inv c _ ⟨rfl, rfl, rfl⟩ hc0 hs⟩
            intro x hx; exact hpop.1 x hx
          · exact ⟨hpop.1, h1, h2, h3, by simp, by simp, by simp, by simp⟩
  | deadline ok =>
    simp only [callStep]
    split
    · exact ⟨hp, hc0⟩
    · rename_i hs
      have hs : c.pc = .needDeadline := by simpa using hs
      split
      · refine ⟨hp, h1, h2, ?_, by simp, by simp, by simp, h7⟩
        intro x hx
        cases hcn : c.conn with
        | none => simp [hcn] at hx
        | some cn =>
          simp [hcn] at hx; subst hx
          exact h3 cn hcn
      · exact discard_inv p c hp hc0
  | write ok =>
    simp only [callStep]
    split
    · exact ⟨hp, hc0⟩
    · rename_i hs
      have hs : c.pc = .writing := by simpa using hs
      split
      · exact discard_inv p c hp hc0
      · split
        · rename_i r cn hr hcn
          have hlt : c.written < c.reqs.length := by
            have := List.getElem?_eq_some_iff.mp hr; exact this.1
          have hr' : c.reqs[c.written] = r := by
            have := List.getElem?_eq_some_iff.mp hr; exact this.2
          refine ⟨hp, by dsimp only; omega, h2, ?_, ?_, by dsimp only; split <;> simp, by dsimp only; split <;> simp, h7⟩
          · intro x hx
            simp only [Option.some.injEq] at hx; subst hx
            dsimp only
            have h3' := h3 cn hcn
            rw [← List.take_append_getElem hlt, hr', ← List.append_assoc]
            exact List.Sublist.append h3' (List.Sublist.refl _)
          · intro hpc; dsimp only at hpc; split at hpc <;> cases hpc
        · refine ⟨hp, h1, h2, h3, by simp, by simp, by simp, h7⟩
  | cancel =>
    simp only [callStep]
    split
    · exact discard_inv p c hp hc0
    · exact ⟨hp, hc0⟩
  | serve reply =>
    simp only [callStep]
    split
    · rename_i cn hcn
      split
      · exact ⟨hp, hc0⟩
      · rename_i r rest hsrv
        refine ⟨hp, h1, h2, ?_, h4, h5, h6, h7⟩
        intro x hx
        simp only [Option.some.injEq] at hx; subst hx
        dsimp only
        have h3' := h3 cn hcn
        rw [hsrv] at h3'
        cases reply
        · simp only [Bool.false_eq_true, if_false]
          refine List.Sublist.trans ?_ h3'
          exact List.Sublist.append (List.Sublist.refl _) (List.sublist_cons_self _ _)
        · simp only [if_true]
          simpa using h3'
    · exact ⟨hp, hc0⟩
  | read ok =>
    simp only [callStep]
    split
    · exact ⟨hp, hc0⟩
    · rename_i hs
      have hs : c.pc = .reading := by simpa using hs
      split
      · rename_i hge
        refine ⟨hp, h1, h2, h3, ?_, by simp, by simp, h7⟩
        intro _; dsimp only; omega
      · rename_i hlt
        split
        · exact discard_inv p c hp hc0
        · split
          · rename_i cn hcn
            split
            · exact ⟨hp, hc0⟩
            · rename_i r rest hresp
              refine ⟨hp, h1, by simp; omega, ?_, ?_, by dsimp only; split <;> simp, by dsimp only; split <;> simp, h7⟩
              · intro x hx
                simp only [Option.some.injEq] at hx; subst hx
                dsimp only
                have h3' := h3 cn hcn
                rw [hresp] at h3'
                simpa using h3'
              · intro hpc; dsimp only at hpc ⊢
                split at hpc
                · cases hpc
                · rename_i hnl; simp at hnl ⊢; omega
          · exact ⟨hp, hc0⟩
  | put ok =>
    simp only [callStep]
    split
    · exact ⟨hp, hc0⟩
    · rename_i hs
      have hs : c.pc = .putting := by simpa using hs
      split
      · rename_i cn hcn
        have hlen := h4 hs
        have h3' := h3 cn hcn
        -- all responses read: the streams are empty and the responses are exactly the requests
        have hle : (c.got ++ cn.resp ++ cn.srv).length ≤ (c.reqs.take c.written).length := h3'.length_le
        have htl : (c.reqs.take c.written).length ≤ c.reqs.length := by simp; omega
        simp only [List.length_append] at hle
        have hr0 : cn.resp = [] := List.eq_nil_of_length_eq_zero (by omega)
        have hs0 : cn.srv = [] := List.eq_nil_of_length_eq_zero (by omega)
        have hgot : c.got = c.reqs := by
          rw [hr0, hs0] at h3'
          simp only [List.append_nil] at h3'
          have hsub : List.Sublist c.got c.reqs := List.Sublist.trans h3' (List.take_sublist _ _)
          exact hsub.eq_of_length hlen
        have hfin : CallInv { c with conn := none, pc := .done, result := some (some c.got) } :=
          ⟨h1, h2, by simp, by simp, by simp, by simp, by intro l hl; simp at hl; rw [← hl]; exact hgot⟩
        split
        · exact ⟨hp, hfin⟩
        · split
          · exact ⟨hp, hfin⟩
          · split
            · refine ⟨?_, hfin⟩
              intro x hx
              simp only [List.mem_cons] at hx
              rcases hx with hx | hx
              · subst hx; exact ⟨hs0, hr0, rfl⟩
              · exact hp x hx
            · exact ⟨hp, hfin⟩
      · exact ⟨hp, hc0⟩

theorem callStep_reqs (cfg : Cfg) (p : Pool) (c : Call) (a : CallAct) : (callStep cfg p c a).2.reqs = c.reqs := by
  cases a <;> simp only [callStep, discardConn, afterGet] <;> (repeat' split) <;> rfl

/-! ### global invariant -/

def Inv (s : St) : Prop :=
  PoolInv s.pool ∧ (∀ c ∈ s.calls, CallInv c) ∧ (∀ k c, s.calls[k]? = some c → ∃ n, c.reqs = mkReqs k n)

theorem inv_init : Inv {} := by
  refine ⟨?_, ?_, ?_⟩
  · intro x hx; cases hx
  · intro c hc; cases hc
  · intro k c hc; simp at hc

theorem inv_step (cfg : Cfg) (s : St) (a : Act) (h : Inv s) : Inv (step cfg s a) := by
  obtain ⟨hp, hcs, hid⟩ := h
  cases a with
  | newCall n hd =>
    simp only [step]
    refine ⟨hp, ?_, ?_⟩
    · intro c hc
      simp only [List.mem_append, List.mem_singleton] at hc
      rcases hc with hc | hc
      · exact hcs c hc
      · subst hc
        exact ⟨by simp, by simp, by simp, by simp, by simp, by simp, by simp⟩
    · intro k c hc
      by_cases hk : k < s.calls.length
      · rw [List.getElem?_append_left hk] at hc; exact hid k c hc
      · have hk' : s.calls.length ≤ k := by omega
        rw [List.getElem?_append_right hk'] at hc
        by_cases hk2 : k - s.calls.length = 0
        · have : k = s.calls.length := by omega
          subst this
          simp at hc; subst hc; exact ⟨n, rfl⟩
        · have : ∃ j, k - s.calls.length = j + 1 := ⟨k - s.calls.length - 1, by omega⟩
          obtain ⟨j, hj⟩ := this
          rw [hj] at hc; simp at hc
  | call k act =>
    simp only [step]
    split
    · exact ⟨hp, hcs, hid⟩
    · rename_i c hk
      have hcm : c ∈ s.calls := List.mem_of_getElem? hk
      have hinv := callStep_inv cfg s.pool c act hp (hcs c hcm)
      refine ⟨hinv.1, ?_, ?_⟩
      · intro x hx
        rcases List.mem_or_eq_of_mem_set hx with hx | hx
        · exact hcs x hx
        · subst hx; exact hinv.2
      · intro j x hx
        dsimp only at hx
        by_cases hjk : j = k
        · subst hjk
          have hlt : j < s.calls.length := (List.getElem?_eq_some_iff.mp hk).1
          rw [List.getElem?_set_self hlt] at hx
          simp only [Option.some.injEq] at hx; subst hx
          rw [callStep_reqs]; exact hid j c hk
        · rw [List.getElem?_set_ne (by omega)] at hx; exact hid j x hx
  | closeClient =>
    simp only [step]
    refine ⟨?_, hcs, hid⟩
    intro x hx; cases hx

theorem inv_run (cfg : Cfg) (acts : List Act) (s : St) (h : Inv s) : Inv (run cfg s acts) := by
  induction acts generalizing s with
  | nil => exact h
  | cons a as ih => exact ih _ (inv_step cfg s a h)

end GoaktVerif.C28

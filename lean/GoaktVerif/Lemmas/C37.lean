/-
Helper lemmas for Props/C37: association-list maps (`rget`/`rput`), sorting, durations.
-/
import GoaktVerif.Model.C37

namespace GoaktVerif.C37
open GoaktVerif.Model.C37

/-! ### association lists -/

def nodupKeys (m : Rules) : Prop := (rkeys m).Nodup

theorem rget_cons (k' : Key) (d : Directive) (t : Rules) (k : Key) :
    rget ((k', d) :: t) k = if k = k' then some d else rget t k := by
  simp [rget]

theorem rget_none_of_not_mem (m : Rules) (k : Key) (h : k ∉ rkeys m) : rget m k = none := by
  induction m with
  | nil => rfl
  | cons x xs ih =>
    obtain ⟨k', d⟩ := x
    simp only [rkeys, List.map_cons, List.mem_cons, not_or] at h
    rw [rget_cons, if_neg h.1]
    exact ih h.2

theorem mem_of_rget_some (m : Rules) (k : Key) (d : Directive) (h : rget m k = some d) : k ∈ rkeys m := by
  induction m with
  | nil => simp [rget] at h
  | cons x xs ih =>
    obtain ⟨k', d'⟩ := x
    rw [rget_cons] at h
    simp only [rkeys, List.map_cons, List.mem_cons]
    by_cases hk : k = k'
    · exact Or.inl hk
    · rw [if_neg hk] at h; exact Or.inr (ih h)

theorem rget_isSome_of_mem (m : Rules) (k : Key) (h : k ∈ rkeys m) : (rget m k).isSome = true := by
  induction m with
  | nil => simp [rkeys] at h
  | cons x xs ih =>
    obtain ⟨k', d'⟩ := x
    rw [rget_cons]
    by_cases hk : k = k'
    · simp [hk]
    · rw [if_neg hk]
      simp only [rkeys, List.map_cons, List.mem_cons] at h
      rcases h with h | h
      · exact absurd h hk
      · exact ih h

theorem rget_filter_ne (m : Rules) (k k' : Key) (h : k' ≠ k) :
    rget (m.filter (fun e => decide (e.1 ≠ k))) k' = rget m k' := by
  induction m with
  | nil => rfl
  | cons x xs ih =>
    obtain ⟨a, d⟩ := x
    by_cases ha : a = k
    · subst ha
      simp only [List.filter, ne_eq, not_true_eq_false, decide_false]
      rw [ih, rget_cons, if_neg h]
    · simp only [List.filter, ne_eq, ha, not_false_eq_true, decide_true]
      rw [rget_cons, rget_cons, ih]

theorem rget_filter_eq (m : Rules) (k : Key) : rget (m.filter (fun e => decide (e.1 ≠ k))) k = none := by
  apply rget_none_of_not_mem
  simp only [rkeys, List.mem_map, List.mem_filter, ne_eq, decide_eq_true_eq, not_exists, not_and]
  intro x hx he
  exact hx.2 he

theorem rget_rput (m : Rules) (k : Key) (d : Directive) (k' : Key) :
    rget (rput m k d) k' = if k' = k then some d else rget m k' := by
  unfold rput
  rw [rget_cons]
  by_cases h : k' = k
  · simp [h]
  · simp only [h, if_false]; exact rget_filter_ne m k k' h

theorem mem_rkeys_filter (m : Rules) (k a : Key) :
    a ∈ rkeys (m.filter (fun e => decide (e.1 ≠ k))) ↔ a ∈ rkeys m ∧ a ≠ k := by
  simp only [rkeys, List.mem_map, List.mem_filter, ne_eq, decide_eq_true_eq]
  constructor
  · rintro ⟨x, ⟨hx, hne⟩, rfl⟩; exact ⟨⟨x, hx, rfl⟩, hne⟩
  · rintro ⟨⟨x, hx, rfl⟩, hne⟩; exact ⟨x, ⟨hx, hne⟩, rfl⟩

theorem mem_rkeys_rput (m : Rules) (k : Key) (d : Directive) (a : Key) :
    a ∈ rkeys (rput m k d) ↔ a = k ∨ a ∈ rkeys m := by
  unfold rput
  simp only [rkeys, List.map_cons, List.mem_cons]
  have := mem_rkeys_filter m k a
  simp only [rkeys] at this
  rw [this]
  constructor
  · rintro (h | h)
    · exact Or.inl h
    · exact Or.inr h.1
  · rintro (h | h)
    · exact Or.inl h
    · by_cases hk : a = k
      · exact Or.inl hk
      · exact Or.inr ⟨h, hk⟩

theorem nodupKeys_filter (m : Rules) (p : Key × Directive → Bool) (h : nodupKeys m) : nodupKeys (m.filter p) := by
  unfold nodupKeys rkeys at *
  exact List.Nodup.sublist (List.Sublist.map _ List.filter_sublist) h

theorem nodupKeys_rput (m : Rules) (k : Key) (d : Directive) (h : nodupKeys m) : nodupKeys (rput m k d) := by
  unfold rput
  have h1 := nodupKeys_filter m (fun e => decide (e.1 ≠ k)) h
  unfold nodupKeys at *
  simp only [rkeys, List.map_cons, List.nodup_cons]
  refine ⟨?_, h1⟩
  intro hm
  have := (mem_rkeys_filter m k k).mp hm
  exact this.2 rfl

/-- lookup does not depend on the order of a table with unique keys -/
theorem rget_perm {l₁ l₂ : Rules} (hp : l₁.Perm l₂) (hn : nodupKeys l₁) (k : Key) : rget l₁ k = rget l₂ k := by
  induction hp with
  | nil => rfl
  | cons x _ ih =>
    obtain ⟨a, d⟩ := x
    rw [rget_cons, rget_cons]
    rename_i t1 t2 _
    have : nodupKeys t1 := by
      unfold nodupKeys rkeys at hn ⊢
      simp only [List.map_cons, List.nodup_cons] at hn
      exact hn.2
    rw [ih this]
  | swap x y l =>
    obtain ⟨a, d⟩ := x
    obtain ⟨b, e⟩ := y
    unfold nodupKeys rkeys at hn
    simp only [List.map_cons, List.nodup_cons, List.mem_cons, not_or] at hn
    have hab : b ≠ a := hn.1.1
    simp only [rget_cons]
    by_cases h1 : k = a
    · subst h1
      have : ¬ k = b := fun e => hab e.symm
      simp [this]
    · simp [h1]
  | trans p1 _ ih1 ih2 =>
    rw [ih1 hn]
    apply ih2
    unfold nodupKeys rkeys at hn ⊢
    exact (List.Perm.nodup_iff (List.Perm.map _ p1)).mp hn

theorem insertByKey_perm (e : Key × Directive) (l : Rules) : (insertByKey e l).Perm (e :: l) := by
  induction l with
  | nil => simp [insertByKey]
  | cons x xs ih =>
    simp only [insertByKey]
    split
    · exact List.Perm.refl _
    · exact (List.Perm.cons x ih).trans (List.Perm.swap e x xs)

theorem sortByKey_perm (l : Rules) : (sortByKey l).Perm l := by
  induction l with
  | nil => simp [sortByKey]
  | cons x xs ih =>
    simp only [sortByKey]
    exact (insertByKey_perm x _).trans (List.Perm.cons x ih)

theorem rget_sortByKey (l : Rules) (h : nodupKeys l) (k : Key) : rget (sortByKey l) k = rget l k := by
  have hp := sortByKey_perm l
  have hn : nodupKeys (sortByKey l) := by
    unfold nodupKeys rkeys at h ⊢
    exact (List.Perm.nodup_iff (List.Perm.map _ hp)).mpr h
  exact rget_perm hp hn k

theorem mem_rkeys_sortByKey (l : Rules) (a : Key) : a ∈ rkeys (sortByKey l) ↔ a ∈ rkeys l := by
  unfold rkeys
  exact (List.Perm.map _ (sortByKey_perm l)).mem_iff

/-! ### folding SetDirectiveByType over the wire rules -/

def setAll (s : Sup) (ds : Rules) : Sup := ds.foldl (fun s e => applyPost s (.setByType e.1 e.2)) s

theorem setAll_fields (s : Sup) (ds : Rules) :
    (setAll s ds).strategy = s.strategy ∧ (setAll s ds).maxRetries = s.maxRetries ∧ (setAll s ds).timeout = s.timeout ∧
    (setAll s ds).initialDelay = s.initialDelay ∧ (setAll s ds).maxDelay = s.maxDelay ∧ (setAll s ds).resetAfter = s.resetAfter := by
  induction ds generalizing s with
  | nil => simp [setAll]
  | cons x xs ih =>
    have := ih (applyPost s (.setByType x.1 x.2))
    simp only [setAll, List.foldl_cons] at this ⊢
    have h2 : (applyPost s (.setByType x.1 x.2)).strategy = s.strategy ∧ (applyPost s (.setByType x.1 x.2)).maxRetries = s.maxRetries ∧
        (applyPost s (.setByType x.1 x.2)).timeout = s.timeout ∧ (applyPost s (.setByType x.1 x.2)).initialDelay = s.initialDelay ∧
        (applyPost s (.setByType x.1 x.2)).maxDelay = s.maxDelay ∧ (applyPost s (.setByType x.1 x.2)).resetAfter = s.resetAfter := by
      simp only [applyPost]; split <;> simp
    obtain ⟨a1, a2, a3, a4, a5, a6⟩ := this
    obtain ⟨b1, b2, b3, b4, b5, b6⟩ := h2
    exact ⟨a1.trans b1, a2.trans b2, a3.trans b3, a4.trans b4, a5.trans b5, a6.trans b6⟩

theorem setAll_rget (s : Sup) (ds : Rules) (hn : nodupKeys ds) (he : "" ∉ rkeys ds) (k : Key) :
    rget (setAll s ds).rules k = (match rget ds k with | some d => some d | none => rget s.rules k) := by
  induction ds generalizing s with
  | nil => simp [setAll, rget]
  | cons x xs ih =>
    obtain ⟨a, d⟩ := x
    unfold nodupKeys rkeys at hn
    simp only [List.map_cons, List.nodup_cons] at hn
    simp only [rkeys, List.map_cons, List.mem_cons, not_or] at he
    have ha : a ≠ "" := fun e => he.1 e.symm
    have ih' := ih (applyPost s (.setByType a d)) hn.2 he.2
    simp only [setAll, List.foldl_cons] at ih' ⊢
    rw [ih', rget_cons]
    have hs : (applyPost s (.setByType a d)).rules = rput s.rules a d := by simp [applyPost, ha]
    rw [hs, rget_rput]
    by_cases hk : k = a
    · subst hk
      have : rget xs k = none := rget_none_of_not_mem xs k hn.1
      simp [this]
    · simp [hk]

/-! ### durations -/

theorem dur_roundtrip (d : Int) (h : inI64 d = true) : durAs (durNew d) = d := by
  simp only [inI64, Bool.and_eq_true, minI64, maxI64] at h
  have h1 := of_decide_eq_true h.1
  have h2 := of_decide_eq_true h.2
  have h3 : d.tdiv nanosPerSec * nanosPerSec + d.tmod nanosPerSec = d := Int.tdiv_mul_add_tmod d nanosPerSec
  simp only [durAs, durNew, h3, minI64, maxI64]
  rw [if_neg (by omega), if_neg (by omega)]

end GoaktVerif.C37

/-
C35 helper lemmas: inductions over the retry loop (`Model.C35.loop`).
-/
import GoaktVerif.Model.C35
import GoaktVerif.Spec.C35

namespace GoaktVerif.C35
open GoaktVerif.Model.C35 GoaktVerif.Spec.C35

variable (cfg : Cfg) (callerDl : Option Nat) (deadline : Nat) (ctxDone : Bool)
  (res : Nat → Res) (d : Nat → Nat)

theorem optMin_le_left (a : Nat) (o : Option Nat) : optMin a o ≤ a := by
  cases o <;> simp [optMin]; omega

theorem optMin_le_some (a c : Nat) : optMin a (some c) ≤ c := by simp [optMin]; omega

/-! ### every wait ends by the caller's deadline -/

theorem loop_sleeps_end_by (c : Nat) (hc : callerDl = some c) (hd : deadline ≤ c) :
    ∀ (fuel i now backoff : Nat) (nfDl : Option Nat) (acc : List Sleep) (rec : Bool),
      (∀ x, nfDl = some x → x ≤ c) → (∀ s ∈ acc, s.start + s.dur ≤ c) →
      ∀ s ∈ (loop cfg callerDl deadline ctxDone res d fuel i now backoff nfDl acc rec).sleeps,
        s.start + s.dur ≤ c := by
  intro fuel
  induction fuel with
  | zero => intro i now backoff nfDl acc rec _ hacc s hs; simp [loop] at hs; exact hacc s hs
  | succ fuel ih =>
    intro i now backoff nfDl acc rec hnf hacc
    simp only [loop]
    split
    · intro s hs; simp at hs; exact hacc s hs
    · intro s hs; simp at hs; exact hacc s hs
    · intro s hs; simp at hs; exact hacc s hs
    · split
      · intro s hs; simp at hs; exact hacc s hs
      · rename_i hcond
        apply ih _ _ _ _ _ _ hnf
        intro s hs
        rcases List.mem_cons.mp hs with rfl | hs
        · simp only; omega
        · exact hacc s hs
    · split
      · intro s hs; simp at hs; exact hacc s hs
      · rename_i hcond
        have hnd : nfDeadlineOf cfg callerDl now nfDl ≤ c := by
          cases nfDl with
          | some x => exact hnf x rfl
          | none => simp only [nfDeadlineOf, hc]; exact optMin_le_some _ _
        apply ih
        · intro x hx; cases hx; exact hnd
        · intro s hs
          rcases List.mem_cons.mp hs with rfl | hs
          · simp only; omega
          · exact hacc s hs

/-! ### the outcome is decided by the last resolution -/

/-- which resolution an outcome is allowed to follow -/
def outcomeFits (r : Res) : Outcome → Prop
  | .delivered _ _ => r = .live
  | .gaveUpRelocating _ => r = .pinned
  | .gaveUpErr _ => r = .nf true
  | .failed _ => r = .terminal ∨ r = .nf false
  | .outOfFuel => True

def FitsOK (res : Nat → Res) (r : Run) : Prop :=
  1 ≤ r.lookups ∧ outcomeFits (res (r.lookups - 1)) r.out

theorem loop_outcome_fits :
    ∀ (fuel i now backoff : Nat) (nfDl : Option Nat) (acc : List Sleep) (rec : Bool),
      FitsOK res (loop cfg callerDl deadline ctxDone res d fuel i now backoff nfDl acc rec) := by
  intro fuel
  induction fuel with
  | zero => intro i now backoff nfDl acc rec; simp [loop, FitsOK, outcomeFits]
  | succ fuel ih =>
    intro i now backoff nfDl acc rec
    simp only [loop]
    split
    · rename_i h; simp [FitsOK, outcomeFits, h]
    · rename_i h; simp [FitsOK, outcomeFits, h]
    · rename_i h; simp [FitsOK, outcomeFits, h]
    · rename_i h
      split
      · simp [FitsOK, outcomeFits, h]
      · exact ih _ _ _ _ _ _
    · rename_i h
      split
      · simp [FitsOK, outcomeFits, h]
      · exact ih _ _ _ _ _ _

/-! ### return time = end of the last wait + the cost of the last resolution -/

/-- end of the newest wait in an accumulator (newest first), `dflt` when there is none -/
def lastEnd (dflt : Nat) : List Sleep → Nat
  | [] => dflt
  | s :: _ => s.start + s.dur

/-- the call returns at `start` when it never waited, else at the end of the last wait plus the
    cost of the last resolution -/
def ReturnOK (d : Nat → Nat) (start : Nat) (r : Run) : Prop :=
  ∀ t, returnTime r.out = some t →
    (r.sleeps = [] → t = start) ∧
    (∀ s, r.sleeps.getLast? = some s → t = s.start + s.dur + d (r.lookups - 1))

theorem loop_return_time (start : Nat) :
    ∀ (fuel i now backoff : Nat) (nfDl : Option Nat) (acc : List Sleep) (rec : Bool),
      (acc = [] → now = start) → (∀ s rest, acc = s :: rest → now = s.start + s.dur + d i) →
      ReturnOK d start (loop cfg callerDl deadline ctxDone res d fuel i now backoff nfDl acc rec) := by
  intro fuel
  induction fuel with
  | zero => intro i now backoff nfDl acc rec _ _ t ht; simp [loop, returnTime] at ht
  | succ fuel ih =>
    intro i now backoff nfDl acc rec h0 h1
    have exit : ∀ (o : Outcome) (rec' : Bool), returnTime o = some now →
        ReturnOK d start (Run.mk (i + 1) acc.reverse rec' o) := by
      intro o rec' ho t ht
      simp only at ht ⊢
      rw [ho] at ht
      have : t = now := by simpa using ht.symm
      subst this
      constructor
      · intro hnil; exact h0 (by simpa using hnil)
      · intro s hs
        cases acc with
        | nil => simp at hs
        | cons a rest =>
          simp [List.getLast?_reverse] at hs
          subst hs
          simpa using h1 a rest rfl
    simp only [loop]
    split
    · exact exit _ _ rfl
    · exact exit _ _ rfl
    · exact exit _ _ rfl
    · split
      · exact exit _ _ rfl
      · apply ih
        · intro h; cases h
        · intro s rest h; cases h; rfl
    · split
      · exact exit _ _ rfl
      · apply ih
        · intro h; cases h
        · intro s rest h; cases h; rfl

/-! ### waiting is part of the elapsed time -/

theorem totalSleep_cons (s : Sleep) (l : List Sleep) : totalSleep (s :: l) = s.dur + totalSleep l := by
  simp [totalSleep]

theorem totalSleep_reverse (l : List Sleep) : totalSleep l.reverse = totalSleep l := by
  simp [totalSleep, List.sum_reverse]

def TotalOK (start : Nat) (r : Run) : Prop :=
  totalSleep r.sleeps + start ≤ lastEnd start r.sleeps.reverse

/-- total waiting ≤ (end of the last wait) − start -/
theorem loop_total_sleep (start : Nat) :
    ∀ (fuel i now backoff : Nat) (nfDl : Option Nat) (acc : List Sleep) (rec : Bool),
      start ≤ now → lastEnd start acc ≤ now → totalSleep acc + start ≤ lastEnd start acc →
      TotalOK start (loop cfg callerDl deadline ctxDone res d fuel i now backoff nfDl acc rec) := by
  intro fuel
  induction fuel with
  | zero => intro i now backoff nfDl acc rec _ _ h; simpa [loop, TotalOK, totalSleep_reverse] using h
  | succ fuel ih =>
    intro i now backoff nfDl acc rec hs hl ht
    simp only [loop]
    split
    · simpa [TotalOK, totalSleep_reverse] using ht
    · simpa [TotalOK, totalSleep_reverse] using ht
    · simpa [TotalOK, totalSleep_reverse] using ht
    · split
      · simpa [TotalOK, totalSleep_reverse] using ht
      · apply ih
        · omega
        · simp only [lastEnd]; omega
        · simp only [lastEnd, totalSleep_cons]; omega
    · split
      · simpa [TotalOK, totalSleep_reverse] using ht
      · apply ih
        · omega
        · simp only [lastEnd]; omega
        · simp only [lastEnd, totalSleep_cons]; omega

end GoaktVerif.C35

/-
C34 helper lemmas, part 3: the ground-truth gate under the guard.
-/
import GoaktVerif.Lemmas.C34b
import GoaktVerif.Spec.C34

namespace GoaktVerif.C34
open GoaktVerif.Model.C34 GoaktVerif.Spec.C34

/-- The guard of the partial theorem, for the call `op` issued in state `s` after history `pre`:
    * if a left notification is newly tracked then the latest node-left epoch (if any) covers the
      departure (this excludes a departure arriving while a stale epoch is still the latest one —
      finding C34-F1);
    * a node-left rebalance-start (not a duplicate) covers every pending departure (this excludes
      a start notification overtaken by the notification of a later departure — finding C34-F3). -/
def guardStep (pre : List Op) (s : St) : Op → Bool
  | .left n c => !leftTracked (s.loc n) || s.g.leftLatest == 0 || decide (c ≤ s.g.leftLatest)
  | .start .left _ e => s.g.startSeen e ||
      (pre.zipIdx.all fun p => match p.1 with
        | .left n c => (s.loc n).leftTs != some (p.2 + 1) || decide (c ≤ e)
        | _ => true)
  | _ => true

def guardFrom : List Op → St → List Op → Bool
  | _, _, [] => true
  | pre, s, op :: ops => guardStep pre s op && guardFrom (pre ++ [op]) (step s (pre.length + 1) op).1 ops

/-- the guard of a whole history (decidable: a `Bool`) -/
def guard (h : List Op) : Bool := guardFrom [] init h

theorem guardFrom_split (p : List Op) (s : St) (a : List Op) (op : Op) (post : List Op)
    (h : guardFrom p s (a ++ op :: post) = true) :
    guardStep (p ++ a) (runFrom p.length s a).2 op = true := by
  induction a generalizing p s with
  | nil => simp [guardFrom] at h; simpa [runFrom] using h.1
  | cons x xs ih =>
    simp only [List.cons_append, guardFrom, Bool.and_eq_true] at h
    have := ih _ _ h.2
    simpa [runFrom, List.append_assoc] using this

theorem guard_split (pre : List Op) (op : Op) (post : List Op) (h : guard (pre ++ op :: post) = true) :
    guardStep pre (after pre) op = true := by
  have := guardFrom_split [] init pre op post h
  simpa [after, run] using this

theorem guardFrom_prefix (p : List Op) (s : St) (a b : List Op) (h : guardFrom p s (a ++ b) = true) :
    guardFrom p s a = true := by
  induction a generalizing p s with
  | nil => simp [guardFrom]
  | cons x xs ih =>
    simp only [List.cons_append, guardFrom, Bool.and_eq_true] at h ⊢
    exact ⟨h.1, ih _ _ h.2⟩

theorem guard_prefix (a b : List Op) (h : guard (a ++ b) = true) : guard a = true :=
  guardFrom_prefix [] init a b h

/-- every pending departure with an assigned epoch is covered by that epoch -/
def CovInv (pre : List Op) (s : St) : Prop :=
  ∀ n t e c, (s.loc n).leftTs = some t → (s.loc n).leftEp = some e → covAt pre n t = some c → c ≤ e

theorem covAt_append (pre post : List Op) (n : Node) (t : Nat) (ht : t ≤ pre.length) :
    covAt (pre ++ post) n t = covAt pre n t := by
  cases t with
  | zero => rfl
  | succ t => simp only [covAt]; rw [List.getElem?_append_left (by omega)]

theorem covAt_of_getElem (h : List Op) (n : Node) (t : Nat) (c : Epoch) (ht : 1 ≤ t)
    (hg : h[t - 1]? = some (.left n c)) : covAt h n t = some c := by
  cases t with
  | zero => omega
  | succ t => simp only [covAt]; simp at hg; rw [hg]; simp

theorem covAt_some (h : List Op) (n : Node) (t : Nat) (c : Epoch) (hc : covAt h n t = some c) :
    1 ≤ t ∧ h[t - 1]? = some (.left n c) := by
  cases t with
  | zero => simp [covAt] at hc
  | succ t =>
    simp only [covAt] at hc
    refine ⟨by omega, ?_⟩
    simp
    split at hc
    · rename_i m c' heq
      split at hc
      · rename_i hm; simp at hc; subst hm; subst hc; exact heq
      · simp at hc
    · simp at hc

theorem guard_start {pre : List Op} {s : St} {m : Node} {e : Epoch}
    (hg : guardStep pre s (.start .left m e) = true) (hs : s.g.startSeen e = false)
    (n : Node) (t : Nat) (c : Epoch) (hts : (s.loc n).leftTs = some t) (hc : covAt pre n t = some c) :
    c ≤ e := by
  simp only [guardStep, hs, Bool.false_or, List.all_eq_true] at hg
  obtain ⟨h1, h2⟩ := covAt_some _ _ _ _ hc
  have hmem : (Op.left n c, t - 1) ∈ pre.zipIdx := by
    rw [List.mem_zipIdx_iff_getElem?]; simpa using h2
  have := hg _ hmem
  simp only [Bool.or_eq_true, bne_iff_ne, ne_eq, decide_eq_true_eq] at this
  rcases this with h | h
  · exfalso; apply h; rw [hts]; congr 1; omega
  · exact h

theorem guard_left {pre : List Op} {s : St} {n : Node} {c : Epoch}
    (hg : guardStep pre s (.left n c) = true) (ht : leftTracked (s.loc n) = true)
    (h0 : s.g.leftLatest ≠ 0) : c ≤ s.g.leftLatest := by
  simp only [guardStep, Bool.or_eq_true, ht, Bool.not_true, Bool.false_eq_true,
    false_or, beq_iff_eq, decide_eq_true_eq] at hg
  rcases hg with h | h
  · exact absurd h h0
  · exact h

theorem CovInv_init : CovInv [] init := by
  intro n t e c h; simp [init, Loc.init] at h

theorem CovInv_step {pre : List Op} {s : St} (hi : Inv pre s) (hc : CovInv pre s) (op : Op)
    (hg : guardStep pre s op = true) : CovInv (pre ++ [op]) (step s (pre.length + 1) op).1 := by
  intro n t e c hts hep hcov
  rcases stepL_leftTs_prov _ _ _ _ _ _ t hts with hA | ⟨rfl, htr, hop⟩
  · obtain ⟨h1, h2, _⟩ := hi.leftTs n t hA
    rw [covAt_append _ _ _ _ h2] at hcov
    rcases stepL_leftEp_prov _ _ _ _ _ _ e hep with h1' | ⟨_, _, htr, _⟩ | ⟨hss, hop⟩
    · exact hc n t e c hA h1' hcov
    · simp [leftTracked, hA] at htr
    · obtain ⟨m, rfl⟩ := (isStartLeft_iff _ _).mp hop
      exact guard_start hg hss n t c hA hcov
  · obtain ⟨c0, rfl⟩ := (isLeftOf_iff _ _).mp hop
    have hc0 : covAt (pre ++ [Op.left n c0]) n (pre.length + 1) = some c0 :=
      covAt_of_getElem _ _ _ _ (by omega) (by simp)
    rw [hc0] at hcov
    have hcc : c0 = c := by simpa using hcov
    subst hcc
    rcases stepL_leftEp_prov _ _ _ _ _ _ e hep with h1' | ⟨rfl, h0, _, _⟩ | ⟨_, hop'⟩
    · have hl := (hi.linv n).2 (by rw [h1']; rfl)
      simp only [leftTracked, Bool.and_eq_true, Bool.not_eq_true', Option.isSome_eq_false_iff, Option.isNone_iff_eq_none] at htr
      rw [htr.2] at hl; simp at hl
    · exact guard_left hg htr h0
    · simp [isStartLeft] at hop'

theorem coveredBy_of_mem (h : List Op) (i : Nat) (c e : Epoch) (hm : Op.complete e ∈ h.take (i + 1))
    (hce : c ≤ e) : coveredBy h i c = true := by
  simp only [coveredBy, List.any_eq_true]
  exact ⟨_, hm, by simpa using hce⟩

/-- under the guard, a NodeLeft is emitted only by the timeout or after an epoch covering the
    departure has completed -/
theorem gate_step {pre : List Op} {s : St} (hi : Inv pre s) (hc : CovInv pre s) (op : Op)
    (hg : guardStep pre s op = true) (n : Node) (t : Nat)
    (he : ((step s (pre.length + 1) op).2 n).left = some t) :
    gateOK (pre ++ [op]) pre.length n t = true := by
  have htake : (pre ++ [op]).take (pre.length + 1) = pre ++ [op] := by
    rw [List.take_of_length_le]; simp
  rcases stepL_left_emit_why _ _ _ _ _ _ t he with rfl | ⟨e, hce, hcase⟩
  · simp [gateOK]
  · have hmem : Op.complete e ∈ (pre ++ [op]).take (pre.length + 1) := by
      rw [htake]
      rcases stepG_complete_prov _ _ e hce with h | rfl
      · exact List.mem_append_left _ (hi.complete e h)
      · simp
    rcases hcase with ⟨hep, hts⟩ | ⟨rfl, h0, htr, rfl, hop⟩ | ⟨hss, hts, hop⟩
    · obtain ⟨h1, h2, c, h3⟩ := hi.leftTs n t hts
      have hcov : covAt pre n t = some c := covAt_of_getElem _ _ _ _ h1 h3
      have hle := hc n t e c hts hep hcov
      simp only [gateOK, covAt_append _ _ _ _ h2, hcov, Bool.or_eq_true]
      exact Or.inr (coveredBy_of_mem _ _ _ _ hmem hle)
    · obtain ⟨c, rfl⟩ := (isLeftOf_iff _ _).mp hop
      have hcov : covAt (pre ++ [Op.left n c]) n (pre.length + 1) = some c :=
        covAt_of_getElem _ _ _ _ (by omega) (by simp)
      simp only [gateOK, hcov, Bool.or_eq_true]
      exact Or.inr (coveredBy_of_mem _ _ _ _ hmem (guard_left hg htr h0))
    · obtain ⟨m, rfl⟩ := (isStartLeft_iff _ _).mp hop
      obtain ⟨h1, h2, c, h3⟩ := hi.leftTs n t hts
      have hcov : covAt pre n t = some c := covAt_of_getElem _ _ _ _ h1 h3
      simp only [gateOK, covAt_append _ _ _ _ h2, hcov, Bool.or_eq_true]
      exact Or.inr (coveredBy_of_mem _ _ _ _ hmem (guard_start hg hss n t c hts hcov))

theorem CovInv_runFrom {pre : List Op} {s : St} (hi : Inv pre s) (hc : CovInv pre s) (h : List Op)
    (hg : guardFrom pre s h = true) : CovInv (pre ++ h) (runFrom pre.length s h).2 := by
  induction h generalizing pre s with
  | nil => simpa [runFrom] using hc
  | cons x xs ih =>
    simp only [guardFrom, Bool.and_eq_true] at hg
    have := ih (Inv_step hi x) (CovInv_step hi hc x hg.1) hg.2
    simpa [runFrom, List.append_assoc] using this

theorem CovInv_after (pre : List Op) (hg : guard pre = true) : CovInv pre (after pre) := by
  have := CovInv_runFrom Inv_init CovInv_init pre hg
  simpa [after, run] using this

/-! ### the local node; timestamps of emitted NodeLeft events -/

theorem self_never_joined (pre : List Op) (op : Op) : (evAt pre op self).join = none :=
  (stepL_self_join _ _ _ _ _ _ rfl (Inv_after pre).selfJoin).2

/-- every emitted NodeLeft(n)@t belongs to a left notification for `n`: the one at position t-1 -/
theorem emitted_left_ts (pre : List Op) (op : Op) (n : Node) (t : Nat)
    (h : (evAt pre op n).left = some t) :
    1 ≤ t ∧ t ≤ pre.length + 1 ∧ ∃ c, (pre ++ [op])[t - 1]? = some (.left n c) := by
  rcases stepL_left_emit_prov _ _ _ _ _ _ t h with h | ⟨rfl, hop⟩
  · obtain ⟨h1, h2, c, h3⟩ := (Inv_after pre).leftTs n t h
    exact ⟨h1, by omega, c, by rw [List.getElem?_append_left (by omega)]; exact h3⟩
  · obtain ⟨c, rfl⟩ := (isLeftOf_iff _ _).mp hop
    exact ⟨by omega, by omega, c, by simp⟩

/-- every NodeLeft needs a left notification naming that node (for the local node see `self_never_left`) -/
theorem self_left_only_if_notified (pre : List Op) (op : Op) (t : Nat)
    (h : (evAt pre op self).left = some t) : ∃ c, Op.left self c ∈ pre ++ [op] := by
  obtain ⟨_, _, c, hc⟩ := emitted_left_ts pre op self t h
  exact ⟨c, List.mem_of_getElem? hc⟩

/-- the local node never reports its own departure (trackNodeLeftEvent ignores it) -/
theorem self_never_left (pre : List Op) (op : Op) : (evAt pre op self).left = none :=
  (stepL_self_left _ _ _ _ _ _ rfl (Inv_after pre).selfLeft).2

end GoaktVerif.C34

/-
C11 — basic lemmas about the spawn model: association lists, process table updates, counts.
-/
import GoaktVerif.Model.C11

namespace GoaktVerif.C11
open GoaktVerif.Model.C11

section assoc
variable {α β : Type} [DecidableEq α]

theorem lookup_cons (a : α) (b : β) (l : List (α × β)) (k : α) :
    lookup ((a, b) :: l) k = if a = k then some b else lookup l k := by
  unfold lookup
  simp only [List.find?_cons]
  by_cases h : a = k <;> simp [h]

theorem lookup_mem {l : List (α × β)} {k : α} {v : β} (h : lookup l k = some v) : (k, v) ∈ l := by
  unfold lookup at h
  split at h
  · rename_i a b hf
    injection h with h; subst h
    have hm := List.mem_of_find?_eq_some hf
    have hp := List.find?_some hf
    simp at hp; subst hp; exact hm
  · cases h

theorem lookup_none_of_not_mem {l : List (α × β)} {k : α} (h : ∀ v, (k, v) ∉ l) : lookup l k = none := by
  cases hl : lookup l k with
  | none => rfl
  | some v => exact absurd (lookup_mem hl) (h v)

theorem lookup_isSome_of_mem {l : List (α × β)} {k : α} {v : β} (h : (k, v) ∈ l) : (lookup l k).isSome = true := by
  unfold lookup
  cases hf : l.find? (·.1 = k) with
  | some x => rfl
  | none =>
    have := List.find?_eq_none.mp hf (k, v) h
    simp at this

theorem lookup_filter_ne (n k : α) (h : k ≠ n) : ∀ (l : List (α × β)),
    lookup (l.filter (·.1 ≠ n)) k = lookup l k
  | [] => rfl
  | (a, b) :: l => by
    by_cases ha : a = n
    · have : ((a, b) :: l).filter (·.1 ≠ n) = l.filter (·.1 ≠ n) := by simp [List.filter_cons, ha]
      rw [this, lookup_filter_ne n k h l, lookup_cons]
      have : a ≠ k := by rw [ha]; exact fun x => h x.symm
      rw [if_neg this]
    · have : ((a, b) :: l).filter (·.1 ≠ n) = (a, b) :: l.filter (·.1 ≠ n) := by simp [List.filter_cons, ha]
      rw [this, lookup_cons, lookup_cons, lookup_filter_ne n k h l]
end assoc

/-! ### process table -/

theorem phaseOf_setPhase (s : St) (p q : ProcId) (ph : Phase) :
    phaseOf (setPhase s p ph) q = if q = p ∧ q < s.procs.length then ph else phaseOf s q := by
  unfold phaseOf setPhase
  simp only [List.getElem?_modify]
  by_cases h : p = q
  · subst h
    cases hq : s.procs[p]? with
    | none =>
      have : ¬ p < s.procs.length := by
        intro hlt
        rw [List.getElem?_eq_getElem hlt] at hq; cases hq
      simp [this]
    | some pr =>
      have : p < s.procs.length := by
        rcases Nat.lt_or_ge p s.procs.length with h1 | h1
        · exact h1
        · rw [List.getElem?_eq_none h1] at hq; cases hq
      simp [this]
  · have : ¬ (q = p ∧ q < s.procs.length) := fun x => h x.1.symm
    rw [if_neg this]
    cases s.procs[q]? <;> simp [h]

theorem pathOf_setPhase (s : St) (p q : ProcId) (ph : Phase) : pathOf (setPhase s p ph) q = pathOf s q := by
  unfold pathOf setPhase
  simp only [List.getElem?_modify]
  cases s.procs[q]? with
  | none => rfl
  | some pr => by_cases h : p = q <;> simp [h]

theorem length_setPhase (s : St) (p : ProcId) (ph : Phase) : (setPhase s p ph).procs.length = s.procs.length := by
  unfold setPhase; simp [List.length_modify]

theorem lt_of_phase_ne_stopped {s : St} {p : ProcId} (h : phaseOf s p ≠ .stopped) : p < s.procs.length := by
  rcases Nat.lt_or_ge p s.procs.length with h1 | h1
  · exact h1
  · unfold phaseOf at h
    rw [List.getElem?_eq_none h1] at h
    exact absurd rfl h

theorem getElem?_snoc {α : Type} (l : List α) (x : α) (q : Nat) :
    (l ++ [x])[q]? = if q = l.length then some x else l[q]? := by
  by_cases h : q < l.length
  · rw [List.getElem?_append_left h, if_neg (Nat.ne_of_lt h)]
  · by_cases h2 : q = l.length
    · subst h2; simp
    · rw [if_neg h2]
      have h3 : l.length + 1 ≤ q := by omega
      rw [List.getElem?_eq_none (by simp; exact h3), List.getElem?_eq_none (by omega)]

theorem phaseOf_addProc (s : St) (path : Path) (kind : Kind) (q : ProcId) :
    phaseOf (addProc s path kind) q = if q = s.procs.length then .starting else phaseOf s q := by
  unfold phaseOf addProc
  simp only [getElem?_snoc]
  by_cases h : q = s.procs.length <;> simp [h]

theorem pathOf_addProc (s : St) (path : Path) (kind : Kind) (q : ProcId) :
    pathOf (addProc s path kind) q = if q = s.procs.length then path else pathOf s q := by
  unfold pathOf addProc
  simp only [getElem?_snoc]
  by_cases h : q = s.procs.length <;> simp [h]

/-! ### counting over index ranges -/

theorem filter_range_congr (P Q : Nat → Bool) : ∀ n, (∀ i, i < n → P i = Q i) →
    (List.range n).filter P = (List.range n).filter Q
  | 0, _ => rfl
  | n + 1, h => by
    rw [List.range_succ, List.filter_append, List.filter_append,
      filter_range_congr P Q n (fun i hi => h i (Nat.lt_succ_of_lt hi))]
    have := h n (Nat.lt_succ_self n)
    simp [List.filter_cons, this]

theorem filter_range_flip (P Q : Nat → Bool) (p : Nat) : ∀ n, p < n → (∀ i, i ≠ p → P i = Q i) → P p = false → Q p = true →
    ((List.range n).filter Q).length = ((List.range n).filter P).length + 1
  | 0, h, _, _, _ => absurd h (Nat.not_lt_zero _)
  | n + 1, h, hne, hp, hq => by
    rw [List.range_succ, List.filter_append, List.filter_append, List.length_append, List.length_append]
    by_cases e : p = n
    · subst e
      rw [filter_range_congr Q P p (fun i hi => (hne i (Nat.ne_of_lt hi)).symm)]
      simp [List.filter_cons, hp, hq]
    · have hlt : p < n := by omega
      rw [filter_range_flip P Q p n hlt hne hp hq]
      have : P n = Q n := hne n (fun x => e x.symm)
      simp only [List.filter_cons, this]
      split <;> simp <;> omega

theorem filter_le_one {α : Type} (P : α → Bool) : ∀ (l : List α), l.Nodup →
    (∀ a b, a ∈ l → b ∈ l → P a = true → P b = true → a = b) → (l.filter P).length ≤ 1
  | [], _, _ => by simp
  | x :: l, hnd, hu => by
    have hnd' := (List.nodup_cons.mp hnd)
    have ih := filter_le_one P l hnd'.2 (fun a b ha hb => hu a b (List.mem_cons_of_mem _ ha) (List.mem_cons_of_mem _ hb))
    by_cases hx : P x = true
    · have : l.filter P = [] := by
        apply List.filter_eq_nil_iff.mpr
        intro a ha hpa
        have := hu x a (List.mem_cons_self) (List.mem_cons_of_mem _ ha) hx hpa
        subst this
        exact hnd'.1 ha
      rw [List.filter_cons_of_pos hx, this]; simp
    · rw [List.filter_cons_of_neg hx]; exact ih

end GoaktVerif.C11

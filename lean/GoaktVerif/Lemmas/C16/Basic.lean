/-
C16 helper lemmas, part 1: the request table, counting, the invariant.
-/
import GoaktVerif.Model.C16

namespace GoaktVerif.C16
open GoaktVerif.Model.C16

/-! ### table -/

theorem getReq_setReq (l : List (Nat × Req)) (k k' : Nat) (r : Req) :
    getReq (setReq l k r) k' = if k = k' then some r else getReq l k' := by
  induction l with
  | nil => simp [setReq, getReq]
  | cons p rest ih =>
    obtain ⟨k0, r0⟩ := p
    by_cases h0 : k0 = k
    · subst h0
      by_cases h1 : k0 = k' <;> simp [setReq, getReq, h1]
    · by_cases h1 : k = k'
      · subst h1
        simp [setReq, getReq, h0, ih]
      · by_cases h2 : k0 = k'
        · subst h2; simp [setReq, getReq, h0, h1]
        · simp [setReq, getReq, h0, h1, h2, ih]

/-- number of table entries satisfying `P` -/
def cnt (P : Req → Bool) (l : List (Nat × Req)) : Nat := (l.filter (fun p => P p.2)).length

theorem cnt_nil (P : Req → Bool) : cnt P [] = 0 := rfl

theorem cnt_cons (P : Req → Bool) (k : Nat) (r : Req) (l : List (Nat × Req)) :
    cnt P ((k, r) :: l) = (if P r then 1 else 0) + cnt P l := by
  unfold cnt
  by_cases h : P r = true <;> simp [h] <;> omega

theorem cnt_setReq_new (P : Req → Bool) (l : List (Nat × Req)) (k : Nat) (r : Req) (h : getReq l k = none) :
    cnt P (setReq l k r) = cnt P l + (if P r then 1 else 0) := by
  induction l with
  | nil => simp [setReq, cnt_cons, cnt_nil]
  | cons p rest ih =>
    obtain ⟨k0, r0⟩ := p
    by_cases h0 : k0 = k
    · simp [getReq, h0] at h
    · simp only [getReq, h0, if_false] at h
      simp only [setReq, h0, if_false, cnt_cons, ih h]
      omega

theorem cnt_setReq_old (P : Req → Bool) (l : List (Nat × Req)) (k : Nat) (r old : Req) (h : getReq l k = some old) :
    cnt P (setReq l k r) + (if P old then 1 else 0) = cnt P l + (if P r then 1 else 0) := by
  induction l with
  | nil => simp [getReq] at h
  | cons p rest ih =>
    obtain ⟨k0, r0⟩ := p
    by_cases h0 : k0 = k
    · simp only [getReq, h0, if_true, Option.some.injEq] at h
      subst h
      simp only [setReq, h0, if_true, cnt_cons]
      omega
    · simp only [getReq, h0, if_false] at h
      simp only [setReq, h0, if_false, cnt_cons]
      have := ih h
      omega

/-! ### log -/

def isCbOf (k : Nat) : Entry → Bool
  | .cb k' _ _ => k' == k
  | _ => false

/-- how often the continuation of request `k` ran, according to the requester's log -/
def cbCount (k : Nat) (log : List Entry) : Nat := (log.filter (isCbOf k)).length

theorem cbCount_append (k : Nat) (a b : List Entry) : cbCount k (a ++ b) = cbCount k a + cbCount k b := by
  simp [cbCount, List.filter_append]

def firedOf (l : List (Nat × Req)) (k : Nat) : Nat := ((getReq l k).map (·.fired)).getD 0

/-! ### invariant -/

structure ReqOK (r : Req) : Prop where
  fired_le : r.fired ≤ 1
  fired_imp : r.fired = 1 → r.completed = true ∧ r.hasCb = true
  env_fired : r.completed = true → r.who = .envelope → r.hasCb = true → r.fired = 1
  map_pending : r.inMap = true → r.completed = false

def inMapP (r : Req) : Bool := r.inMap
def blockP (r : Req) : Bool := r.inMap && decide (r.mode = .stash)

structure Inv (s : St) : Prop where
  reqs_ok : ∀ (k : Nat) (r : Req), getReq s.reqs k = some r → ReqOK r
  inflight : s.inFlight = (cnt inMapP s.reqs : Nat)
  blocking : s.blocking = (cnt blockP s.reqs : Nat)
  limit : s.maxInFlight > 0 → s.inFlight ≤ s.maxInFlight
  log_cb : ∀ k : Nat, cbCount k s.log = firedOf s.reqs k
  notinst : s.installed = false → s.reqs = []

theorem inv_init (inst : Bool) (m : Mode) (max : Nat) (g : Bool := false) : Inv (St.init inst m max g) := by
  refine ⟨?_, ?_, ?_, ?_, ?_, ?_⟩ <;> simp [St.init, getReq, cnt, cbCount, firedOf]

end GoaktVerif.C16

/-
C16 (grain requester) helper lemmas, part 3: teardown, the turn loop, the script's ops.
-/
import GoaktVerif.Lemmas.C16.GSteps

namespace GoaktVerif.C16G
open GoaktVerif.Model.C16G
open GoaktVerif.Model.C16 (Mode)

/-! ### teardownInFlightRequests -/

def tearOne (r : Req) : Req :=
  if r.inMap && !r.completed then completedReq r .canceled else { r with inMap := false }

theorem teardown_fst (l : List (Nat × Req)) : (teardownReqs l).1 = l.map (fun p => (p.1, tearOne p.2)) := by
  induction l with
  | nil => rfl
  | cons p rest ih =>
    obtain ⟨k, r⟩ := p
    rcases hq : teardownReqs rest with ⟨rest', ev⟩
    rw [hq] at ih
    simp only at ih
    simp only [teardownReqs, hq, List.map_cons]
    by_cases hc : (r.inMap && !r.completed) = true
    · simp only [hc, if_true, ih]
      congr 1
      simp [tearOne, hc, completedReq]
    · have hc' : (r.inMap && !r.completed) = false := by simpa using hc
      simp only [hc', Bool.false_eq_true, if_false, ih]
      congr 1
      simp [tearOne, hc']

theorem getReq_map (f : Req → Req) (l : List (Nat × Req)) (k : Nat) :
    getReq (l.map (fun p => (p.1, f p.2))) k = (getReq l k).map f := by
  induction l with
  | nil => rfl
  | cons p rest ih =>
    obtain ⟨k0, r0⟩ := p
    simp only [List.map_cons, getReq]
    split
    · rfl
    · exact ih

theorem tearOne_inMap (r : Req) : (tearOne r).inMap = false := by
  unfold tearOne completedReq; split <;> rfl

theorem cnt_map_zero (P : Req → Bool) (f : Req → Req) (hP : ∀ r, P (f r) = false) (l : List (Nat × Req)) :
    cnt P (l.map (fun p => (p.1, f p.2))) = 0 := by
  induction l with
  | nil => rfl
  | cons p rest ih =>
    obtain ⟨k0, r0⟩ := p
    simp only [List.map_cons, cnt_cons, ih, hP]
    simp

theorem reqOK_tearOne {r : Req} (h : ReqOK r) : ReqOK (tearOne r) := by
  unfold tearOne
  split
  · next hc =>
    simp only [Bool.and_eq_true, Bool.not_eq_true'] at hc
    exact reqOK_completed h hc.2 _
  · obtain ⟨h1, h2, h3, h4⟩ := h
    constructor <;> simp_all

/-- the teardown runs exactly the continuations of the requests it completes -/
theorem cbCount_teardown (l : List (Nat × Req)) (hnd : (l.map Prod.fst).Nodup) (k : Nat) :
    cbCount k (teardownReqs l).2 =
      match getReq l k with
      | some r => if r.inMap && !r.completed && r.hasCb then 1 else 0
      | none => 0 := by
  induction l with
  | nil => rfl
  | cons p rest ih =>
    obtain ⟨k0, r0⟩ := p
    simp only [List.map_cons, List.nodup_cons] at hnd
    have ih' := ih hnd.2
    simp only [teardownReqs, getReq]
    by_cases hk : k0 = k
    · subst hk
      have hnone : getReq rest k0 = none := (getReq_none_iff rest k0).mpr hnd.1
      rw [hnone] at ih'
      simp only at ih'
      simp only [if_true]
      by_cases hc : (r0.inMap && !r0.completed) = true
      · simp only [hc, if_true, cbCount_append, ih', Nat.add_zero, Bool.true_and]
        cases r0.hasCb <;> simp [cbCount, isCbOf]
      · have hc' : (r0.inMap && !r0.completed) = false := by simpa using hc
        simp only [hc', Bool.false_eq_true, if_false, ih', Bool.false_and]
    · simp only [hk, if_false]
      by_cases hc : (r0.inMap && !r0.completed) = true
      · simp only [hc, if_true, cbCount_append, ih']
        cases r0.hasCb <;> simp [cbCount, isCbOf, hk]
      · have hc' : (r0.inMap && !r0.completed) = false := by simpa using hc
        simp only [hc', Bool.false_eq_true, if_false, ih']

theorem firedOf_teardown (l : List (Nat × Req)) (k : Nat) :
    firedOf (teardownReqs l).1 k =
      firedOf l k + (match getReq l k with
        | some r => if r.inMap && !r.completed && r.hasCb then 1 else 0
        | none => 0) := by
  unfold firedOf
  rw [teardown_fst, getReq_map]
  cases getReq l k with
  | none => rfl
  | some r =>
    simp only [Option.map_some, Option.getD_some, tearOne, completedReq]
    by_cases hc : (r.inMap && !r.completed) = true
    · cases hcb : r.hasCb <;> simp [hc]
    · have hc' : (r.inMap && !r.completed) = false := by simpa using hc
      simp [hc']

theorem inv_pill {s : St} (h : Inv s) : Inv (dispatch s .pill) := by
  obtain ⟨h1, h2, h3, h4, h5, h6⟩ := h
  simp only [dispatch]
  refine ⟨?_, ?_, ?_, ?_, ?_, ?_⟩
  · intro k r hr
    simp only [teardown_fst, getReq_map] at hr
    cases hg : getReq s.reqs k with
    | none => rw [hg] at hr; simp at hr
    | some r0 =>
      rw [hg] at hr
      simp only [Option.map_some, Option.some.injEq] at hr
      subst hr
      exact reqOK_tearOne (h1 k r0 hg)
  · simp only [teardown_fst]
    rw [cnt_map_zero inMapP tearOne (fun r => tearOne_inMap r)]
    rfl
  · simp only [teardown_fst]
    rw [cnt_map_zero blockP tearOne (fun r => by simp [blockP, tearOne_inMap])]
    rfl
  · intro _; simp only; omega
  · intro k
    simp only [cbCount_append]
    rw [h5 k, cbCount_teardown s.reqs h6 k, firedOf_teardown, cbCount_plain k Entry.deactivated (fun _ => rfl)]
    rfl
  · simp only [teardown_fst, List.map_map]
    exact h6

theorem inv_dispatch {s : St} (h : Inv s) (m : Msg) : Inv (dispatch s m) := by
  cases m with
  | user k => exact inv_log_plain h _ (fun _ => rfl)
  | hold =>
    simp only [dispatch]
    have := inv_log_plain h Entry.held (fun _ => rfl)
    split
    · exact inv_of_same this rfl rfl rfl rfl rfl
    · exact inv_of_same this rfl rfl rfl rfl rfl
  | reqCmd k m t => exact inv_doRequest h k m t
  | pill => exact inv_pill h

theorem inv_pump (fuel : Nat) {s : St} (h : Inv s) : Inv (pump fuel s) := by
  induction fuel generalizing s with
  | zero => exact h
  | succ n ih =>
    unfold pump
    split
    · exact h
    · split
      · next k o rest _ =>
        apply ih
        apply inv_doResponse
        exact inv_of_same h rfl rfl rfl rfl rfl
      · split
        · exact h
        · split
          · exact h
          · next m rest _ =>
            apply ih
            apply inv_dispatch
            exact inv_of_same h rfl rfl rfl rfl rfl

theorem inv_drain {s : St} (h : Inv s) : Inv (drain s) := inv_pump _ h

/-- replacing a table entry by one with the same membership, mode and fire count -/
theorem inv_setReq_same {s : St} (h : Inv s) (k : Nat) (r r' : Req) (hg : getReq s.reqs k = some r)
    (hm : inMapP r' = inMapP r) (hb : blockP r' = blockP r) (hf : r'.fired = r.fired) (hok : ReqOK r') :
    Inv { s with reqs := setReq s.reqs k r' } := by
  obtain ⟨h1, h2, h3, h4, h5, h6⟩ := h
  have c1 := cnt_setReq_old inMapP s.reqs k r' r hg
  have c2 := cnt_setReq_old blockP s.reqs k r' r hg
  rw [hm] at c1
  rw [hb] at c2
  refine ⟨?_, ?_, ?_, h4, ?_, nodup_setReq _ _ _ h6⟩
  · intro k' x hx
    simp only [getReq_setReq] at hx
    split at hx
    · cases hx; exact hok
    · exact h1 k' x hx
  · simp only; rw [h2]; omega
  · simp only; rw [h3]; omega
  · intro k'
    simp only [firedOf_setReq]
    rw [h5 k']
    split
    · next hk => subst hk; simp [firedOf, hg, hf]
    · rfl

theorem cnt_map_same (P : Req → Bool) (f : Req → Req) (hP : ∀ r, P (f r) = P r) (l : List (Nat × Req)) :
    cnt P (l.map (fun p => (p.1, f p.2))) = cnt P l := by
  induction l with
  | nil => rfl
  | cons p rest ih =>
    obtain ⟨k0, r0⟩ := p
    simp only [List.map_cons, cnt_cons, ih, hP]

/-- a pointwise change of the table that keeps membership, mode, fire counts and `ReqOK` -/
theorem inv_mapReqs {s : St} (h : Inv s) (f : Req → Req) (hm : ∀ r, inMapP (f r) = inMapP r)
    (hb : ∀ r, blockP (f r) = blockP r) (hf : ∀ r, (f r).fired = r.fired) (hok : ∀ r, ReqOK r → ReqOK (f r)) :
    Inv { s with reqs := s.reqs.map (fun p => (p.1, f p.2)) } := by
  obtain ⟨h1, h2, h3, h4, h5, h6⟩ := h
  refine ⟨?_, ?_, ?_, h4, ?_, ?_⟩
  · intro k r hr
    simp only [getReq_map] at hr
    cases hg : getReq s.reqs k with
    | none => rw [hg] at hr; simp at hr
    | some r0 =>
      rw [hg] at hr
      simp only [Option.map_some, Option.some.injEq] at hr
      subst hr
      exact hok _ (h1 k r0 hg)
  · simp only; rw [cnt_map_same inMapP f hm, h2]
  · simp only; rw [cnt_map_same blockP f hb, h3]
  · intro k
    simp only
    rw [h5 k]
    simp only [firedOf, getReq_map]
    cases getReq s.reqs k <;> simp [hf]
  · simp only [List.map_map]
    exact h6

def markOne (r : Req) : Req :=
  if r.inMap && !r.completed && !r.cancelRequested then { r with cancelRequested := true } else r

theorem markCancel_eq (l : List (Nat × Req)) : markCancel l = l.map (fun p => (p.1, markOne p.2)) := by
  unfold markCancel
  apply List.map_congr_left
  intro p _
  obtain ⟨k, r⟩ := p
  simp only [markOne]
  split <;> rfl

theorem inv_then_completed {s : St} (h : Inv s) (k : Nat) (r : Req) (hg : getReq s.reqs k = some r)
    (hcb : r.hasCb = false) (hc : r.completed = true) :
    Inv { s with reqs := setReq s.reqs k { r with hasCb := true, fired := r.fired + 1 },
                 log := s.log ++ [Entry.cb k r.outcome false] } := by
  obtain ⟨h1, h2, h3, h4, h5, h6⟩ := h
  have hr := h1 k r hg
  have hf0 : r.fired = 0 := by
    have := hr.fired_le
    by_cases h1f : r.fired = 1
    · have := (hr.fired_imp h1f).2; rw [hcb] at this; cases this
    · omega
  have hnm : r.inMap = false := by
    cases hm : r.inMap
    · rfl
    · have := hr.map_pending hm; rw [hc] at this; cases this
  have c1 := cnt_setReq_old inMapP s.reqs k { r with hasCb := true, fired := r.fired + 1 } r hg
  have c2 := cnt_setReq_old blockP s.reqs k { r with hasCb := true, fired := r.fired + 1 } r hg
  have e1 : inMapP ({ r with hasCb := true, fired := r.fired + 1 } : Req) = inMapP r := rfl
  have e2 : blockP ({ r with hasCb := true, fired := r.fired + 1 } : Req) = blockP r := rfl
  rw [e1] at c1
  rw [e2] at c2
  refine ⟨?_, ?_, ?_, h4, ?_, nodup_setReq _ _ _ h6⟩
  · intro k' x hx
    simp only [getReq_setReq] at hx
    split at hx
    · cases hx
      constructor <;> simp [hf0, hc, hnm]
    · exact h1 k' x hx
  · simp only; rw [h2]; omega
  · simp only; rw [h3]; omega
  · intro k'
    simp only [firedOf_setReq, cbCount_append]
    rw [h5 k']
    by_cases hk : k = k'
    · subst hk; simp [firedOf, hg, hf0, cbCount_single_same]
    · simp [hk, cbCount_single_other k k' _ _ hk]

theorem inv_respond {s : St} (h : Inv s) (k : Nat) (o : Outcome) : Inv (respond s k o) := by
  unfold respond
  split
  · exact h
  · exact inv_drain (inv_of_same h rfl rfl rfl rfl rfl)

theorem inv_deliver {s : St} (h : Inv s) (m : Msg) : Inv (deliver s m).1 := by
  unfold deliver
  split
  · exact h
  · exact inv_drain (inv_of_same h rfl rfl rfl rfl rfl)

/-- every op of the script keeps the invariant -/
theorem inv_step {s : St} (h : Inv s) (op : Op) : Inv (step s op).1 := by
  cases op with
  | q k m t => exact inv_deliver h _
  | m k => exact inv_deliver h _
  | H => exact inv_deliver h _
  | L =>
    simp only [step]
    split
    · exact inv_drain (s := { s with held := false }) (inv_of_same h rfl rfl rfl rfl rfl)
    · exact inv_of_same h rfl rfl rfl rfl rfl
  | r k =>
    simp only [step]
    split
    · exact h
    · next r hg =>
      split
      · exact h
      · split
        · exact h
        · apply inv_respond
          have := h.reqs_ok k r hg
          obtain ⟨a1, a2, a3, a4⟩ := this
          exact inv_setReq_same h k r { r with replied := true } hg rfl rfl rfl ⟨a1, a2, a3, a4⟩
  | x k =>
    simp only [step]
    split
    · exact h
    · split <;> first | exact h | exact inv_respond h _ _
  | c k =>
    simp only [step]
    split
    · exact h
    · next r hg =>
      split
      · exact h
      · apply inv_respond
        have := h.reqs_ok k r hg
        obtain ⟨a1, a2, a3, a4⟩ := this
        exact inv_setReq_same h k r { r with cancelRequested := true } hg rfl rfl rfl ⟨a1, a2, a3, a4⟩
  | T k =>
    simp only [step]
    split
    · exact h
    · next r hg =>
      split
      · exact h
      · next hcb =>
        have hcb' : r.hasCb = false := by simpa using hcb
        split
        · next hc => exact inv_then_completed h k r hg hcb' hc
        · next hc =>
          have hc' : r.completed = false := by simpa using hc
          have := h.reqs_ok k r hg
          obtain ⟨a1, a2, a3, a4⟩ := this
          have hf0 := fired_zero ⟨a1, a2, a3, a4⟩ hc'
          have hok : ReqOK { r with hasCb := true } := by
            constructor <;> simp [hf0, hc'] <;> simp_all
          exact inv_setReq_same h k r { r with hasCb := true } hg rfl rfl rfl hok
  | S =>
    simp only [step]
    split
    · exact h
    · apply inv_drain
      have hm := inv_mapReqs h markOne
        (fun r => by unfold markOne; split <;> rfl)
        (fun r => by unfold markOne; split <;> rfl)
        (fun r => by unfold markOne; split <;> rfl)
        (fun r hr => by
          unfold markOne
          split
          · obtain ⟨a1, a2, a3, a4⟩ := hr; exact ⟨a1, a2, a3, a4⟩
          · exact hr)
      rw [← markCancel_eq] at hm
      exact inv_of_same hm rfl rfl rfl rfl rfl

end GoaktVerif.C16G

/-
C16 helper lemmas, part 2: every transition keeps the invariant.
-/
import GoaktVerif.Lemmas.C16.Basic

namespace GoaktVerif.C16
open GoaktVerif.Model.C16

theorem reqOK_fresh (m : Mode) (t : Bool) : ReqOK { mode := m, hasCb := t } := by
  constructor <;> simp

theorem firedOf_setReq (l : List (Nat × Req)) (k k' : Nat) (r : Req) :
    firedOf (setReq l k r) k' = if k = k' then r.fired else firedOf l k' := by
  unfold firedOf
  rw [getReq_setReq]
  split <;> simp

/-- the four ways `doRequest` can end -/
theorem doRequest_cases (s : St) (k : Nat) (m : Option Mode) (t : Bool) :
    doRequest s k m t = s
    ∨ (∃ q, doRequest s k m t = { s with log := s.log ++ [Entry.req k q] })
    ∨ (getReq s.reqs k = none ∧ s.installed = true ∧ ¬ (s.maxInFlight > 0 ∧ s.inFlight ≥ s.maxInFlight) ∧
        doRequest s k m t =
          { s with
            inFlight := s.inFlight + 1,
            blocking := if m.getD s.defMode = .stash then s.blocking + 1 else s.blocking,
            reqs := setReq s.reqs k { mode := m.getD s.defMode, hasCb := t },
            log := s.log ++ [Entry.req k .ok] }) := by
  unfold doRequest
  by_cases h0 : (getReq s.reqs k).isSome = true
  · left; simp [h0]
  · have hnone : getReq s.reqs k = none := by
      cases hg : getReq s.reqs k <;> simp_all
    by_cases h1 : s.installed = true
    · by_cases h2 : m.getD s.defMode = Mode.off
      · right; left; exact ⟨.dis, by simp [hnone, h1, h2]⟩
      · by_cases h3 : s.maxInFlight > 0 ∧ s.inFlight ≥ s.maxInFlight
        · right; left; exact ⟨.lim, by simp [hnone, h1, h2, h3]⟩
        · right; right
          refine ⟨hnone, h1, h3, ?_⟩
          simp [hnone, h1, h2, h3]
    · right; left; exact ⟨.dis, by simp [hnone, h1]⟩

theorem inv_log_req {s : St} (h : Inv s) (k : Nat) (q : QRes) : Inv { s with log := s.log ++ [Entry.req k q] } := by
  obtain ⟨h1, h2, h3, h4, h5, h6⟩ := h
  refine ⟨h1, h2, h3, h4, ?_, h6⟩
  intro k'
  simp only [cbCount_append]
  rw [h5 k']
  simp [cbCount, isCbOf]

theorem inv_doRequest {s : St} (h : Inv s) (k : Nat) (m : Option Mode) (t : Bool) : Inv (doRequest s k m t) := by
  rcases doRequest_cases s k m t with he | ⟨q, he⟩ | ⟨hnone, hinst, hlim, he⟩
  · rw [he]; exact h
  · rw [he]; exact inv_log_req h k q
  · rw [he]
    have hfired0 : firedOf s.reqs k = 0 := by simp [firedOf, hnone]
    obtain ⟨h1, h2, h3, h4, h5, h6⟩ := h
    refine ⟨?_, ?_, ?_, ?_, ?_, ?_⟩
    · intro k' r hr
      simp only [getReq_setReq] at hr
      split at hr
      · cases hr; exact reqOK_fresh _ _
      · exact h1 k' r hr
    · simp only
      rw [cnt_setReq_new inMapP s.reqs k _ hnone, h2]
      simp [inMapP]
    · simp only
      rw [cnt_setReq_new blockP s.reqs k _ hnone, h3]
      by_cases hm : m.getD s.defMode = Mode.stash <;> simp [blockP, hm]
    · intro hmax
      simp only
      have hlt : s.inFlight < s.maxInFlight := by
        by_cases hge : s.inFlight ≥ (s.maxInFlight : Int)
        · exact absurd ⟨hmax, hge⟩ hlim
        · omega
      omega
    · intro k'
      simp only [cbCount_append, firedOf_setReq]
      rw [h5 k']
      by_cases hk : k = k'
      · subst hk; simp [hfired0, cbCount, isCbOf]
      · simp [hk, cbCount, isCbOf]
    · intro hni
      simp only at hni
      rw [hinst] at hni
      cases hni

theorem cbCount_single_same (k : Nat) (o : Outcome) (t : Bool) : cbCount k [Entry.cb k o t] = 1 := by
  simp [cbCount, isCbOf]

theorem cbCount_single_other (k k' : Nat) (o : Outcome) (t : Bool) (h : k ≠ k') : cbCount k' [Entry.cb k o t] = 0 := by
  simp [cbCount, isCbOf, h]

/-- the completed form of a request answered by an envelope -/
def completedReq (r : Req) (o : Outcome) : Req :=
  { r with completed := true, outcome := o, who := .envelope, inMap := false,
           fired := if r.hasCb then r.fired + 1 else r.fired }

/-- does completing `r` release the stash? -/
def releases (s : St) (r : Req) : Prop :=
  r.mode = .stash ∧ (if r.mode = .stash then s.blocking - 1 else s.blocking) = 0

instance (s : St) (r : Req) : Decidable (releases s r) := by unfold releases; infer_instance

theorem doResponse_cases (s : St) (k : Nat) (o : Outcome) :
    doResponse s k o = s
    ∨ (∃ r, getReq s.reqs k = some r ∧ r.inMap = true ∧ r.completed = false ∧ s.installed = true ∧
        doResponse s k o =
          { s with
            reqs := setReq s.reqs k (completedReq r o),
            inFlight := s.inFlight - 1,
            blocking := if r.mode = .stash then s.blocking - 1 else s.blocking,
            queue := if releases s r then s.queue ++ s.stash else s.queue,
            stash := if releases s r then [] else s.stash,
            log := if r.hasCb then s.log ++ [Entry.cb k o true] else s.log }) := by
  unfold doResponse
  by_cases h1 : s.installed = true
  · cases hg : getReq s.reqs k with
    | none => left; simp [h1]
    | some r =>
      by_cases h2 : r.inMap = true
      · by_cases h3 : r.completed = true
        · left; simp [h1, h2, h3]
        · right
          have h3' : r.completed = false := by simpa using h3
          refine ⟨r, rfl, h2, h3', h1, ?_⟩
          simp [h1, h2, h3', completedReq, releases]
      · left; simp [h1, h2]
  · left; simp [h1]

theorem inv_doResponse {s : St} (h : Inv s) (k : Nat) (o : Outcome) : Inv (doResponse s k o) := by
  rcases doResponse_cases s k o with he | ⟨r, hg, hmap, hnc, hinst, he⟩
  · rw [he]; exact h
  · rw [he]
    obtain ⟨h1, h2, h3, h4, h5, h6⟩ := h
    have hr := h1 k r hg
    have hf0 : r.fired = 0 := by
      have := hr.fired_le
      by_cases h1f : r.fired = 1
      · have := (hr.fired_imp h1f).1; rw [hnc] at this; cases this
      · omega
    have hcnt1 := cnt_setReq_old inMapP s.reqs k (completedReq r o) r hg
    have hcnt2 := cnt_setReq_old blockP s.reqs k (completedReq r o) r hg
    have e1 : inMapP r = true := hmap
    have e2 : inMapP (completedReq r o) = false := rfl
    have e3 : blockP (completedReq r o) = false := rfl
    have e4 : blockP r = decide (r.mode = Mode.stash) := by simp [blockP, hmap]
    rw [e1, e2] at hcnt1
    rw [e3, e4] at hcnt2
    simp only [if_true, Bool.false_eq_true, if_false, Nat.add_zero] at hcnt1 hcnt2
    refine ⟨?_, ?_, ?_, ?_, ?_, ?_⟩
    · intro k' r' hr'
      simp only [getReq_setReq] at hr'
      split at hr'
      · cases hr'
        constructor <;> simp [completedReq, hf0] <;> (try split) <;> simp_all
      · exact h1 k' r' hr'
    · simp only
      rw [h2]
      omega
    · simp only
      rw [h3]
      by_cases hm : r.mode = Mode.stash
      · simp only [hm, decide_true, if_true] at hcnt2 ⊢; omega
      · simp only [hm, decide_false, Bool.false_eq_true, if_false, Nat.add_zero] at hcnt2 ⊢; omega
    · intro hmax
      have := h4 hmax
      simp only
      omega
    · intro k'
      simp only [firedOf_setReq]
      by_cases hk : k = k'
      · subst hk
        have hold : cbCount k s.log = 0 := by
          rw [h5 k]; simp [firedOf, hg, hf0]
        by_cases hcb : r.hasCb = true
        · simp only [hcb, if_true, cbCount_append, hold, cbCount_single_same, completedReq, hf0]
        · simp [hcb, hold, completedReq, hf0]
      · simp only [hk, if_false]
        rw [← h5 k']
        split
        · simp only [cbCount_append, cbCount_single_other k k' o true hk, Nat.add_zero]
        · rfl
    · intro hni
      simp only at hni
      rw [hinst] at hni
      cases hni

/-- the invariant only reads the table, the counters, the configuration and the log -/
theorem inv_of_same {s s' : St} (h : Inv s) (h1 : s'.reqs = s.reqs) (h2 : s'.inFlight = s.inFlight)
    (h3 : s'.blocking = s.blocking) (h4 : s'.maxInFlight = s.maxInFlight) (h5 : s'.log = s.log)
    (h6 : s'.installed = s.installed) : Inv s' := by
  obtain ⟨a1, a2, a3, a4, a5, a6⟩ := h
  refine ⟨?_, ?_, ?_, ?_, ?_, ?_⟩
  · rw [h1]; exact a1
  · rw [h1, h2]; exact a2
  · rw [h1, h3]; exact a3
  · rw [h2, h4]; exact a4
  · rw [h1, h5]; exact a5
  · rw [h1, h6]; exact a6

theorem inv_log_plain {s : St} (h : Inv s) (e : Entry) (he : ∀ k, isCbOf k e = false) :
    Inv { s with log := s.log ++ [e] } := by
  obtain ⟨h1, h2, h3, h4, h5, h6⟩ := h
  refine ⟨h1, h2, h3, h4, ?_, h6⟩
  intro k'
  simp only [cbCount_append]
  rw [h5 k']
  simp [cbCount, he]

theorem inv_dispatch {s : St} (h : Inv s) (m : Msg) : Inv (dispatch s m) := by
  unfold dispatch
  split
  · exact inv_of_same h rfl rfl rfl rfl rfl rfl
  · cases m with
    | user k => exact inv_log_plain h _ (fun _ => rfl)
    | hold =>
      simp only
      have := inv_log_plain h Entry.held (fun _ => rfl)
      split
      · exact inv_of_same this rfl rfl rfl rfl rfl rfl
      · exact inv_of_same this rfl rfl rfl rfl rfl rfl
    | reqCmd k m t => exact inv_doRequest h k m t
    | resp k o => exact inv_doResponse h k o

theorem inv_pump (fuel : Nat) {s : St} (h : Inv s) : Inv (pump fuel s) := by
  induction fuel generalizing s with
  | zero => exact h
  | succ n ih =>
    unfold pump
    split
    · exact h
    · split
      · exact h
      · next m rest _ =>
        apply ih
        apply inv_dispatch
        exact inv_of_same h rfl rfl rfl rfl rfl rfl

theorem inv_drain {s : St} (h : Inv s) : Inv (drain s) := inv_pump _ h

theorem inv_enqueue {s : St} (h : Inv s) (m : Msg) : Inv (enqueue s m) :=
  inv_drain (inv_of_same h rfl rfl rfl rfl rfl rfl)

end GoaktVerif.C16

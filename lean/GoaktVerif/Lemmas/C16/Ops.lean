/-
C16 helper lemmas, part 3: the script's ops keep the invariant.
-/
import GoaktVerif.Lemmas.C16.Steps

namespace GoaktVerif.C16
open GoaktVerif.Model.C16

/-- replacing a table entry by one with the same membership, mode and fire count -/
theorem inv_setReq_same {s : St} (h : Inv s) (k : Nat) (r r' : Req) (hg : getReq s.reqs k = some r)
    (hm : inMapP r' = inMapP r) (hb : blockP r' = blockP r) (hf : r'.fired = r.fired) (hok : ReqOK r') :
    Inv { s with reqs := setReq s.reqs k r' } := by
  obtain ⟨h1, h2, h3, h4, h5, h6⟩ := h
  have c1 := cnt_setReq_old inMapP s.reqs k r' r hg
  have c2 := cnt_setReq_old blockP s.reqs k r' r hg
  rw [hm] at c1
  rw [hb] at c2
  refine ⟨?_, ?_, ?_, h4, ?_, ?_⟩
  · intro k' x hx
    simp only [getReq_setReq] at hx
    split at hx
    · cases hx; exact hok
    · exact h1 k' x hx
  · simp only; rw [h2]; omega
  · simp only; rw [h3]; omega
  · intro k'
    simp only [firedOf_setReq]
    rw [h5 k']
    split
    · next hk => subst hk; simp [firedOf, hg, hf]
    · rfl
  · intro hni
    have := h6 hni
    rw [this] at hg
    simp [getReq] at hg

/-- late `Then` on a completed request: the continuation runs now, once -/
theorem inv_then_completed {s : St} (h : Inv s) (k : Nat) (r : Req) (hg : getReq s.reqs k = some r)
    (hcb : r.hasCb = false) (hc : r.completed = true) :
    Inv { s with reqs := setReq s.reqs k { r with hasCb := true, fired := r.fired + 1 },
                 log := s.log ++ [Entry.cb k r.outcome false] } := by
  obtain ⟨h1, h2, h3, h4, h5, h6⟩ := h
  have hr := h1 k r hg
  have hf0 : r.fired = 0 := by
    have := hr.fired_le
    by_cases h1f : r.fired = 1
    · have := (hr.fired_imp h1f).2; rw [hcb] at this; cases this
    · omega
  have hnm : r.inMap = false := by
    cases hm : r.inMap
    · rfl
    · have := hr.map_pending hm; rw [hc] at this; cases this
  have c1 := cnt_setReq_old inMapP s.reqs k { r with hasCb := true, fired := r.fired + 1 } r hg
  have c2 := cnt_setReq_old blockP s.reqs k { r with hasCb := true, fired := r.fired + 1 } r hg
  have e1 : inMapP ({ r with hasCb := true, fired := r.fired + 1 } : Req) = inMapP r := rfl
  have e2 : blockP ({ r with hasCb := true, fired := r.fired + 1 } : Req) = blockP r := rfl
  rw [e1] at c1
  rw [e2] at c2
  refine ⟨?_, ?_, ?_, h4, ?_, ?_⟩
  · intro k' x hx
    simp only [getReq_setReq] at hx
    split at hx
    · cases hx
      constructor <;> simp [hf0, hc, hnm]
    · exact h1 k' x hx
  · simp only; rw [h2]; omega
  · simp only; rw [h3]; omega
  · intro k'
    simp only [firedOf_setReq, cbCount_append]
    rw [h5 k']
    by_cases hk : k = k'
    · subst hk; simp [firedOf, hg, hf0, cbCount_single_same]
    · simp [hk, cbCount_single_other k k' _ _ hk]
  · intro hni
    have := h6 hni
    rw [this] at hg
    simp [getReq] at hg

/-! ### shutdown -/

def cancelOne (r : Req) : Req :=
  if r.inMap && !r.completed then { r with completed := true, outcome := .canceled, who := .shutdown, inMap := false }
  else { r with inMap := false }

theorem cancelAll_eq (l : List (Nat × Req)) : cancelAll l = l.map (fun p => (p.1, cancelOne p.2)) := by
  unfold cancelAll
  apply List.map_congr_left
  intro p _
  obtain ⟨k, r⟩ := p
  simp only [cancelOne]
  split <;> rfl

theorem getReq_cancelAll (l : List (Nat × Req)) (k : Nat) : getReq (cancelAll l) k = (getReq l k).map cancelOne := by
  rw [cancelAll_eq]
  induction l with
  | nil => rfl
  | cons p rest ih =>
    obtain ⟨k0, r0⟩ := p
    simp only [List.map_cons, getReq]
    split
    · rfl
    · exact ih

theorem cancelOne_inMap (r : Req) : (cancelOne r).inMap = false := by
  unfold cancelOne; split <;> rfl

theorem cancelOne_fired (r : Req) : (cancelOne r).fired = r.fired := by
  unfold cancelOne; split <;> rfl

theorem cnt_cancelAll (P : Req → Bool) (hP : ∀ r, r.inMap = false → P r = false) (l : List (Nat × Req)) :
    cnt P (cancelAll l) = 0 := by
  rw [cancelAll_eq]
  induction l with
  | nil => rfl
  | cons p rest ih =>
    obtain ⟨k0, r0⟩ := p
    simp only [List.map_cons, cnt_cons, ih, hP _ (cancelOne_inMap r0)]
    simp

theorem reqOK_cancelOne {r : Req} (h : ReqOK r) : ReqOK (cancelOne r) := by
  obtain ⟨h1, h2, h3, h4⟩ := h
  unfold cancelOne
  split
  · next hc =>
    simp only [Bool.and_eq_true, Bool.not_eq_true'] at hc
    have hf0 : r.fired = 0 := by
      by_cases h1f : r.fired = 1
      · have := (h2 h1f).1; rw [hc.2] at this; cases this
      · omega
    constructor <;> simp [hf0]
  · constructor <;> simp_all

theorem inv_shutdown {s : St} (h : Inv s) :
    Inv { s with running := false, reqs := cancelAll s.reqs, inFlight := 0, blocking := 0 } := by
  obtain ⟨h1, h2, h3, h4, h5, h6⟩ := h
  refine ⟨?_, ?_, ?_, ?_, ?_, ?_⟩
  · intro k r hr
    simp only [getReq_cancelAll] at hr
    cases hg : getReq s.reqs k with
    | none => rw [hg] at hr; simp at hr
    | some r0 =>
      rw [hg] at hr
      simp only [Option.map_some, Option.some.injEq] at hr
      subst hr
      exact reqOK_cancelOne (h1 k r0 hg)
  · simp only
    rw [cnt_cancelAll inMapP (fun r hr => hr)]
    rfl
  · simp only
    rw [cnt_cancelAll blockP (fun r hr => by simp [blockP, hr])]
    rfl
  · intro _; simp only; omega
  · intro k
    simp only
    rw [h5 k]
    simp only [firedOf, getReq_cancelAll]
    cases getReq s.reqs k <;> simp [cancelOne_fired]
  · intro hni
    simp only at hni
    simp only [h6 hni]
    rfl

/-- every op of the script keeps the invariant -/
theorem inv_step {s : St} (h : Inv s) (op : Op) : Inv (step s op).1 := by
  cases op with
  | q k m t => simp only [step]; split <;> first | exact h | exact inv_enqueue h _
  | m k => simp only [step]; split <;> first | exact h | exact inv_enqueue h _
  | a k => simp only [step]; split <;> first | exact h | exact inv_enqueue h _
  | H => simp only [step]; split <;> first | exact h | exact inv_enqueue h _
  | L =>
    simp only [step]
    split
    · exact inv_drain (s := { s with held := false }) (inv_of_same h rfl rfl rfl rfl rfl rfl)
    · exact inv_of_same h rfl rfl rfl rfl rfl rfl
  | r k =>
    simp only [step]
    split
    · exact h
    · split <;> first | exact h | exact inv_enqueue h _
  | x k =>
    simp only [step]
    split
    · exact h
    · split <;> first | exact h | exact inv_enqueue h _
  | c k =>
    simp only [step]
    split
    · exact h
    · next r hg =>
      split
      · exact h
      · split
        · exact h
        · apply inv_enqueue
          have := h.reqs_ok k r hg
          obtain ⟨a1, a2, a3, a4⟩ := this
          exact inv_setReq_same h k r { r with cancelRequested := true } hg rfl rfl rfl ⟨a1, a2, a3, a4⟩
  | T k =>
    simp only [step]
    split
    · exact h
    · next r hg =>
      split
      · exact h
      · next hcb =>
        have hcb' : r.hasCb = false := by simpa using hcb
        split
        · next hc => exact inv_then_completed h k r hg hcb' hc
        · next hc =>
          have hc' : r.completed = false := by simpa using hc
          have := h.reqs_ok k r hg
          obtain ⟨a1, a2, a3, a4⟩ := this
          have hf0 : r.fired = 0 := by
            by_cases h1f : r.fired = 1
            · have := (a2 h1f).1; rw [hc'] at this; cases this
            · omega
          have hok : ReqOK { r with hasCb := true } := by
            constructor <;> simp [hf0, hc'] <;> simp_all
          exact inv_setReq_same h k r { r with hasCb := true } hg rfl rfl rfl hok
  | S =>
    simp only [step]
    split
    · exact h
    · split
      · exact h
      · exact inv_shutdown h

end GoaktVerif.C16

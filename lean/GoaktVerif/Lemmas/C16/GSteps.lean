/-
C16 (grain requester) helper lemmas, part 2: every transition keeps the invariant.
-/
import GoaktVerif.Lemmas.C16.GBasic

namespace GoaktVerif.C16G
open GoaktVerif.Model.C16G
open GoaktVerif.Model.C16 (Mode)

theorem firedOf_setReq (l : List (Nat × Req)) (k k' : Nat) (r : Req) :
    firedOf (setReq l k r) k' = if k = k' then r.fired else firedOf l k' := by
  unfold firedOf
  rw [getReq_setReq]
  split <;> simp

theorem cbCount_single_same (k : Nat) (o : Outcome) (t : Bool) : cbCount k [Entry.cb k o t] = 1 := by
  simp [cbCount, isCbOf]

theorem cbCount_single_other (k k' : Nat) (o : Outcome) (t : Bool) (h : k ≠ k') : cbCount k' [Entry.cb k o t] = 0 := by
  simp [cbCount, isCbOf, h]

theorem cbCount_plain (k : Nat) (e : Entry) (he : ∀ k, isCbOf k e = false) : cbCount k [e] = 0 := by
  simp [cbCount, he]

theorem inv_of_same {s s' : St} (h : Inv s) (h1 : s'.reqs = s.reqs) (h2 : s'.inFlight = s.inFlight)
    (h3 : s'.blocking = s.blocking) (h4 : s'.maxInFlight = s.maxInFlight) (h5 : s'.log = s.log) : Inv s' := by
  obtain ⟨a1, a2, a3, a4, a5, a6⟩ := h
  refine ⟨?_, ?_, ?_, ?_, ?_, ?_⟩
  · rw [h1]; exact a1
  · rw [h1, h2]; exact a2
  · rw [h1, h3]; exact a3
  · rw [h2, h4]; exact a4
  · rw [h1, h5]; exact a5
  · rw [h1]; exact a6

theorem inv_log_plain {s : St} (h : Inv s) (e : Entry) (he : ∀ k, isCbOf k e = false) :
    Inv { s with log := s.log ++ [e] } := by
  obtain ⟨h1, h2, h3, h4, h5, h6⟩ := h
  refine ⟨h1, h2, h3, h4, ?_, h6⟩
  intro k'
  simp only [cbCount_append]
  rw [h5 k', cbCount_plain k' e he]
  rfl

/-- a refused request enters the table completed, untracked, with its continuation (if any) already run -/
theorem inv_refuse {s : St} (h : Inv s) (k : Nat) (o : Outcome) (t : Bool) (hnone : getReq s.reqs k = none) :
    Inv (refuse s k o t) := by
  obtain ⟨h1, h2, h3, h4, h5, h6⟩ := h
  have hf0 : firedOf s.reqs k = 0 := by simp [firedOf, hnone]
  unfold refuse
  refine ⟨?_, ?_, ?_, h4, ?_, nodup_setReq _ _ _ h6⟩
  · intro k' r hr
    simp only [getReq_setReq] at hr
    split at hr
    · cases hr
      cases t <;> constructor <;> simp
    · exact h1 k' r hr
  · simp only
    rw [cnt_setReq_new inMapP s.reqs k _ hnone, h2]
    simp [inMapP]
  · simp only
    rw [cnt_setReq_new blockP s.reqs k _ hnone, h3]
    simp [blockP]
  · intro k'
    simp only [cbCount_append, firedOf_setReq]
    rw [h5 k', cbCount_plain k' (Entry.req k) (fun _ => rfl)]
    by_cases hk : k = k'
    · subst hk
      cases t
      · simp [hf0, cbCount]
      · simp only [if_true, cbCount_single_same, hf0]
    · cases t
      · simp [hk, cbCount]
      · simp only [if_true, cbCount_single_other k k' o true hk, hk, if_false, Nat.add_zero]

theorem reqOK_fresh (m : Mode) (t : Bool) : ReqOK { mode := m, hasCb := t } := by
  constructor <;> simp

theorem inv_doRequest {s : St} (h : Inv s) (k : Nat) (m : Option Mode) (t : Bool) : Inv (doRequest s k m t) := by
  unfold doRequest
  by_cases h0 : (getReq s.reqs k).isSome = true
  · simp only [h0, if_true]; exact inv_log_plain h _ (fun _ => rfl)
  · have hnone : getReq s.reqs k = none := by
      cases hg : getReq s.reqs k <;> simp_all
    simp only [hnone, Option.isSome_none, Bool.false_eq_true, if_false]
    by_cases h1 : s.installed = true
    · simp only [h1, Bool.not_true, Bool.false_eq_true, if_false]
      by_cases h2 : m.getD s.defMode = Mode.off
      · simp only [h2, if_true]; exact inv_refuse h k _ t hnone
      · simp only [h2, if_false]
        by_cases h3 : s.maxInFlight > 0 ∧ s.inFlight ≥ s.maxInFlight
        · simp only [h3, and_self, if_true]; exact inv_refuse h k _ t hnone
        · simp only [h3, if_false]
          have hf0 : firedOf s.reqs k = 0 := by simp [firedOf, hnone]
          obtain ⟨a1, a2, a3, a4, a5, a6⟩ := h
          refine ⟨?_, ?_, ?_, ?_, ?_, nodup_setReq _ _ _ a6⟩
          · intro k' r hr
            simp only [getReq_setReq] at hr
            split at hr
            · cases hr; exact reqOK_fresh _ _
            · exact a1 k' r hr
          · simp only
            rw [cnt_setReq_new inMapP s.reqs k _ hnone, a2]
            simp [inMapP]
          · simp only
            rw [cnt_setReq_new blockP s.reqs k _ hnone, a3]
            by_cases hm : m.getD s.defMode = Mode.stash <;> simp [blockP, hm]
          · intro hmax
            simp only
            have hlt : s.inFlight < s.maxInFlight := by
              by_cases hge : s.inFlight ≥ (s.maxInFlight : Int)
              · exact absurd ⟨hmax, hge⟩ h3
              · omega
            omega
          · intro k'
            simp only [cbCount_append, firedOf_setReq]
            rw [a5 k', cbCount_plain k' (Entry.req k) (fun _ => rfl)]
            by_cases hk : k = k'
            · subst hk; simp [hf0]
            · simp [hk]
    · have h1' : s.installed = false := by simpa using h1
      simp only [h1', Bool.not_false, if_true]
      exact inv_refuse h k _ t hnone

/-- completing a pending tracked request (by an envelope, or by the teardown): the common bookkeeping -/
def completedReq (r : Req) (o : Outcome) : Req :=
  { r with completed := true, outcome := o, inMap := false, fired := if r.hasCb then r.fired + 1 else r.fired }

theorem reqOK_completed {r : Req} (h : ReqOK r) (hnc : r.completed = false) (o : Outcome) : ReqOK (completedReq r o) := by
  have hf0 : r.fired = 0 := by
    have := h.fired_le
    by_cases h1f : r.fired = 1
    · have := (h.fired_imp h1f).1; rw [hnc] at this; cases this
    · omega
  constructor <;> simp [completedReq, hf0] <;> (try split) <;> simp_all

theorem fired_zero {r : Req} (h : ReqOK r) (hnc : r.completed = false) : r.fired = 0 := by
  have := h.fired_le
  by_cases h1f : r.fired = 1
  · have := (h.fired_imp h1f).1; rw [hnc] at this; cases this
  · omega

theorem inv_doResponse {s : St} (h : Inv s) (k : Nat) (o : Outcome) : Inv (doResponse s k o) := by
  unfold doResponse
  by_cases h1 : s.installed = true
  · simp only [h1, Bool.not_true, Bool.false_eq_true, if_false]
    cases hg : getReq s.reqs k with
    | none => exact h
    | some r =>
      simp only
      by_cases h2 : r.inMap = true
      · simp only [h2, Bool.not_true, Bool.false_eq_true, if_false]
        by_cases h3 : r.completed = true
        · simp only [h3, if_true]; exact h
        · have hnc : r.completed = false := by simpa using h3
          simp only [hnc, Bool.false_eq_true, if_false]
          obtain ⟨a1, a2, a3, a4, a5, a6⟩ := h
          have hr := a1 k r hg
          have hf0 := fired_zero hr hnc
          have c1 := cnt_setReq_old inMapP s.reqs k (completedReq r o) r hg
          have c2 := cnt_setReq_old blockP s.reqs k (completedReq r o) r hg
          have e1 : inMapP r = true := h2
          have e2 : inMapP (completedReq r o) = false := rfl
          have e3 : blockP (completedReq r o) = false := rfl
          have e4 : blockP r = decide (r.mode = Mode.stash) := by simp [blockP, h2]
          rw [e1, e2] at c1
          rw [e3, e4] at c2
          simp only [if_true, Bool.false_eq_true, if_false, Nat.add_zero] at c1 c2
          refine ⟨?_, ?_, ?_, ?_, ?_, nodup_setReq _ _ _ a6⟩
          · intro k' r' hr'
            simp only [getReq_setReq] at hr'
            split at hr'
            · cases hr'; exact reqOK_completed hr hnc o
            · exact a1 k' r' hr'
          · show s.inFlight - 1 = (cnt inMapP (setReq s.reqs k (completedReq r o)) : Nat)
            rw [a2]; omega
          · show (if r.mode = Mode.stash then s.blocking - 1 else s.blocking) = (cnt blockP (setReq s.reqs k (completedReq r o)) : Nat)
            rw [a3]
            by_cases hm : r.mode = Mode.stash
            · simp only [hm, decide_true, if_true] at c2 ⊢; omega
            · simp only [hm, decide_false, Bool.false_eq_true, if_false, Nat.add_zero] at c2 ⊢; omega
          · intro hmax
            have := a4 hmax
            show s.inFlight - 1 ≤ (s.maxInFlight : Int)
            omega
          · intro k'
            show cbCount k' (if r.hasCb = true then s.log ++ [Entry.cb k o true] else s.log) = firedOf (setReq s.reqs k (completedReq r o)) k'
            simp only [firedOf_setReq]
            by_cases hk : k = k'
            · subst hk
              have hold : cbCount k s.log = 0 := by rw [a5 k]; simp [firedOf, hg, hf0]
              by_cases hcb : r.hasCb = true
              · simp only [hcb, if_true, cbCount_append, hold, cbCount_single_same, completedReq, hf0]
              · simp [hcb, hold, completedReq, hf0]
            · simp only [hk, if_false]
              rw [← a5 k']
              split
              · simp only [cbCount_append, cbCount_single_other k k' o true hk, Nat.add_zero]
              · rfl
      · simp only [h2, Bool.not_false, if_true]; exact h
  · have h1' : s.installed = false := by simpa using h1
    simp only [h1', Bool.not_false, if_true]; exact h

end GoaktVerif.C16G

/-
C16 (grain requester) helper lemmas, part 1: the request table, counting, the invariant.
-/
import GoaktVerif.Model.C16G

namespace GoaktVerif.C16G
open GoaktVerif.Model.C16G
open GoaktVerif.Model.C16 (Mode)

/-! ### table -/

theorem getReq_setReq (l : List (Nat × Req)) (k k' : Nat) (r : Req) :
    getReq (setReq l k r) k' = if k = k' then some r else getReq l k' := by
  induction l with
  | nil => simp [setReq, getReq]
  | cons p rest ih =>
    obtain ⟨k0, r0⟩ := p
    by_cases h0 : k0 = k
    · subst h0
      by_cases h1 : k0 = k' <;> simp [setReq, getReq, h1]
    · by_cases h1 : k = k'
      · subst h1
        simp [setReq, getReq, h0, ih]
      · by_cases h2 : k0 = k'
        · subst h2; simp [setReq, getReq, h0, h1]
        · simp [setReq, getReq, h0, h1, h2, ih]

/-- number of table entries satisfying `P` -/
def cnt (P : Req → Bool) (l : List (Nat × Req)) : Nat := (l.filter (fun p => P p.2)).length

theorem cnt_nil (P : Req → Bool) : cnt P [] = 0 := rfl

theorem cnt_cons (P : Req → Bool) (k : Nat) (r : Req) (l : List (Nat × Req)) :
    cnt P ((k, r) :: l) = (if P r then 1 else 0) + cnt P l := by
  unfold cnt
  by_cases h : P r = true <;> simp [h] <;> omega

theorem cnt_setReq_new (P : Req → Bool) (l : List (Nat × Req)) (k : Nat) (r : Req) (h : getReq l k = none) :
    cnt P (setReq l k r) = cnt P l + (if P r then 1 else 0) := by
  induction l with
  | nil => simp [setReq, cnt_cons, cnt_nil]
  | cons p rest ih =>
    obtain ⟨k0, r0⟩ := p
    by_cases h0 : k0 = k
    · simp [getReq, h0] at h
    · simp only [getReq, h0, if_false] at h
      simp only [setReq, h0, if_false, cnt_cons, ih h]
      omega

theorem cnt_setReq_old (P : Req → Bool) (l : List (Nat × Req)) (k : Nat) (r old : Req) (h : getReq l k = some old) :
    cnt P (setReq l k r) + (if P old then 1 else 0) = cnt P l + (if P r then 1 else 0) := by
  induction l with
  | nil => simp [getReq] at h
  | cons p rest ih =>
    obtain ⟨k0, r0⟩ := p
    by_cases h0 : k0 = k
    · simp only [getReq, h0, if_true, Option.some.injEq] at h
      subst h
      simp only [setReq, h0, if_true, cnt_cons]
      omega
    · simp only [getReq, h0, if_false] at h
      simp only [setReq, h0, if_false, cnt_cons]
      have := ih h
      omega

theorem getReq_none_iff (l : List (Nat × Req)) (k : Nat) : getReq l k = none ↔ k ∉ l.map Prod.fst := by
  induction l with
  | nil => simp [getReq]
  | cons p rest ih =>
    obtain ⟨k0, r0⟩ := p
    by_cases h : k0 = k
    · subst h; simp [getReq]
    · have h' : ¬ k = k0 := fun e => h e.symm
      simp [getReq, h, h', ih]

theorem keys_setReq_old (l : List (Nat × Req)) (k : Nat) (r old : Req) (h : getReq l k = some old) :
    (setReq l k r).map Prod.fst = l.map Prod.fst := by
  induction l with
  | nil => simp [getReq] at h
  | cons p rest ih =>
    obtain ⟨k0, r0⟩ := p
    by_cases h0 : k0 = k
    · subst h0; simp [setReq]
    · simp only [getReq, h0, if_false] at h
      simp [setReq, h0, ih h]

theorem keys_setReq_new (l : List (Nat × Req)) (k : Nat) (r : Req) (h : getReq l k = none) :
    (setReq l k r).map Prod.fst = l.map Prod.fst ++ [k] := by
  induction l with
  | nil => simp [setReq]
  | cons p rest ih =>
    obtain ⟨k0, r0⟩ := p
    by_cases h0 : k0 = k
    · simp [getReq, h0] at h
    · simp only [getReq, h0, if_false] at h
      simp [setReq, h0, ih h]

theorem nodup_setReq (l : List (Nat × Req)) (k : Nat) (r : Req) (h : (l.map Prod.fst).Nodup) :
    ((setReq l k r).map Prod.fst).Nodup := by
  cases hg : getReq l k with
  | some old => rw [keys_setReq_old l k r old hg]; exact h
  | none =>
    rw [keys_setReq_new l k r hg]
    have := (getReq_none_iff l k).mp hg
    rw [List.nodup_append]
    refine ⟨h, by simp, ?_⟩
    intro a ha b hb
    simp at hb
    subst hb
    intro e; subst e; exact this ha

/-! ### log -/

def isCbOf (k : Nat) : Entry → Bool
  | .cb k' _ _ => k' == k
  | _ => false

/-- how often the continuation of request `k` ran, according to the requester's log -/
def cbCount (k : Nat) (log : List Entry) : Nat := (log.filter (isCbOf k)).length

theorem cbCount_append (k : Nat) (a b : List Entry) : cbCount k (a ++ b) = cbCount k a + cbCount k b := by
  simp [cbCount, List.filter_append]

def firedOf (l : List (Nat × Req)) (k : Nat) : Nat := ((getReq l k).map (·.fired)).getD 0

/-! ### invariant -/

structure ReqOK (r : Req) : Prop where
  fired_le : r.fired ≤ 1
  fired_imp : r.fired = 1 → r.completed = true ∧ r.hasCb = true
  done_fired : r.completed = true → r.hasCb = true → r.fired = 1
  map_pending : r.inMap = true → r.completed = false

def inMapP (r : Req) : Bool := r.inMap
def blockP (r : Req) : Bool := r.inMap && decide (r.mode = .stash)

structure Inv (s : St) : Prop where
  reqs_ok : ∀ (k : Nat) (r : Req), getReq s.reqs k = some r → ReqOK r
  inflight : s.inFlight = (cnt inMapP s.reqs : Nat)
  blocking : s.blocking = (cnt blockP s.reqs : Nat)
  limit : s.maxInFlight > 0 → s.inFlight ≤ s.maxInFlight
  log_cb : ∀ k : Nat, cbCount k s.log = firedOf s.reqs k
  keys : (s.reqs.map Prod.fst).Nodup

theorem inv_init (inst : Bool) (m : Mode) (max : Nat) (g : Bool := false) : Inv (St.init inst m max g) := by
  refine ⟨?_, ?_, ?_, ?_, ?_, ?_⟩ <;> simp [St.init, getReq, cnt, cbCount, firedOf]

end GoaktVerif.C16G

import GoaktVerif.Lemmas.C15Basic

/-
C15 — every action preserves the invariant of the repaired protocol (`Mode.fixed`), part 1: starting an operation,
building a request, the caller's select.
-/
set_option linter.unusedSimpArgs false
set_option linter.unusedVariables false

namespace GoaktVerif.C15
open GoaktVerif.Model.C15

theorem getContext_fixed_cons (c : Cfg) (i : CtxId) (rest : List CtxId) (hm : c.mode = .fixed) (hp : c.ctxPool = i :: rest) :
    getContext c = (i, { c with ctxPool := rest }) := by
  unfold getContext
  split
  · rename_i h; exact absurd (h.symm.trans hm) (by decide)
  · rename_i i' rest' h2 _; rw [hp] at h2; cases h2; rfl
  · rename_i h2 _; exact absurd (hp.symm.trans h2) (by simp)

theorem getContext_fixed_nil (c : Cfg) (hm : c.mode = .fixed) (hp : c.ctxPool = []) :
    getContext c = (c.ctxs.length, { c with ctxs := c.ctxs ++ [{ closed := false, response := none, msg := none }] }) := by
  unfold getContext
  split
  · rename_i h; exact absurd (h.symm.trans hm) (by decide)
  · rename_i i' rest' h2 _; exact absurd (hp.symm.trans h2) (by simp)
  · rfl

theorem getChan_fixed_cons (c : Cfg) (i : ChanId) (rest : List ChanId) (hm : c.mode = .fixed) (hp : c.chanPool = i :: rest) :
    getChan c = (i, { c with chanPool := rest }) := by
  unfold getChan
  split
  · rename_i h; exact absurd (h.symm.trans hm) (by decide)
  · rename_i i' rest' h2 _; rw [hp] at h2; cases h2; rfl
  · rename_i h2 _; exact absurd (hp.symm.trans h2) (by simp)

theorem getChan_fixed_nil (c : Cfg) (hm : c.mode = .fixed) (hp : c.chanPool = []) :
    getChan c = (c.chans.length, { c with chans := c.chans ++ [none] }) := by
  unfold getChan
  split
  · rename_i h; exact absurd (h.symm.trans hm) (by decide)
  · rename_i i' rest' h2 _; exact absurd (hp.symm.trans h2) (by simp)
  · rfl

/-- `Pending` only reads the context, the channel, the pool and the ghost map -/
theorem Pending.transfer {c c1 : Cfg} {own own1 : ChanId → ReqId} {i cl ch k}
    (h : Pending c own i cl ch k) (h1 : ctxOf c1 i = ctxOf c i) (h2 : own1 ch = own ch)
    (h3 : chanOf c1 ch = chanOf c ch) (h4 : ch ∉ c1.chanPool) : Pending c1 own1 i cl ch k :=
  ⟨by rw [h1]; exact h.1, by rw [h2]; exact h.2.1, by rw [h3]; exact h.2.2.1, h4⟩

/-- how the knowledge of a thread that does not move survives a step of another thread -/
theorem ThreadOk.transfer {c c1 : Cfg} {own own1 : ChanId → ReqId} {t : Thread} (h : ThreadOk c own t)
    (hb : ∀ i, i < c.ctxs.length → i ∉ c.ctxPool → i ∉ c.mbox → i ≠ c.sentinel → buildCtx t = some i →
      i < c1.ctxs.length ∧ i ∉ c1.ctxPool ∧ i ∉ c1.mbox ∧ i ≠ c1.sentinel)
    (hs : ∀ ch, ch < c.chans.length → ch ∉ c.chanPool → selChan t = some ch →
      own1 ch = own ch ∧ ch < c1.chans.length ∧ ch ∉ c1.chanPool)
    (hh : ∀ i k cl ch, (t.pc = some (.hCas i k) ∨ t.pc = some (.hSend i k)) → i = c.sentinel → Pending c own i cl ch k →
      (∀ j ∈ c.mbox, (ctxOf c j).response ≠ some ch) →
      i = c1.sentinel ∧ Pending c1 own1 i cl ch k ∧ ∀ j ∈ c1.mbox, (ctxOf c1 j).response ≠ some ch) :
    ThreadOk c1 own1 t := by
  unfold ThreadOk at h ⊢
  cases hpc : t.pc with
  | none => simp
  | some pc =>
    rw [hpc] at h
    cases pc with
    | askBuild i k =>
      simp only at h ⊢
      obtain ⟨h1, h2, h3, h4, h5⟩ := h
      exact ⟨h1, hb i h2 h3 h4 h5 (by simp [buildCtx, hpc])⟩
    | askSelect i ch k =>
      simp only at h ⊢
      obtain ⟨h1, h2, h3, h4⟩ := h
      obtain ⟨g1, g2, g3⟩ := hs ch h3 h4 (by simp [selChan, hpc])
      exact ⟨h1, by rw [g1]; exact h2, g2, g3⟩
    | askClose i ch r => exact h
    | hDeq => exact h
    | hCas i k =>
      simp only at h ⊢
      obtain ⟨h1, h2, ch, h3, h4⟩ := h
      obtain ⟨g1, g2, g3⟩ := hh i k false ch (Or.inl hpc) h2 h3 h4
      exact ⟨h1, g1, ch, g2, g3⟩
    | hSend i k =>
      simp only at h ⊢
      obtain ⟨h1, h2, ch, h3, h4⟩ := h
      obtain ⟨g1, g2, g3⟩ := hh i k true ch (Or.inr hpc) h2 h3 h4
      exact ⟨h1, g1, ch, g2, g3⟩

/-! ### starting the next operation -/

theorem finv_start {c : Cfg} {own : ChanId → ReqId} {tid : Nat} {t : Thread}
    (h : FInv c own) (ht : c.threads[tid]? = some t) (hpc : t.pc = none) :
    FInv (upd (startNext c t).1 tid (startNext c t).2) own := by
  have hm := h.g.mode
  have hok := (h.thr tid t ht)
  unfold startNext
  cases hp : t.prog with
  | nil =>
    apply finv_update h rfl ht h.g (fun j tj _ hj => (h.thr j tj hj).1)
    · exact ⟨by simp [ThreadOk], hok.2⟩
    · intro i hb; simp [buildCtx] at hb
    · intro ch hs; simp [selChan] at hs
    · intro hr; rcases hr with hr | hr
      · simp at hr
      · simp [hp] at hr
  | cons op rest =>
    cases op with
    | handle =>
      apply finv_update h rfl ht h.g (fun j tj _ hj => (h.thr j tj hj).1)
      · exact ⟨by simp [ThreadOk], hok.2⟩
      · intro i hb; simp [buildCtx] at hb
      · intro ch hs; simp [selChan] at hs
      · intro _; right; rw [hp]; simp
    | ask k =>
      have hr' : ∀ (t' : Thread), t'.cur = some (.ask k) → t'.prog = rest → responderish t' → responderish t := by
        intro t' hc hpr hr
        rcases hr with hr | hr
        · rw [hc] at hr; cases hr
        · right; rw [hp]; rw [hpr] at hr; exact List.mem_cons_of_mem _ hr
      cases hpool : c.ctxPool with
      | nil =>
        simp only [getContext_fixed_nil c hm hpool]
        have hg : GInv { c with ctxs := c.ctxs ++ [{ closed := false, response := none, msg := none }] } own := by
          have e : ∀ j, ctxOf { c with ctxs := c.ctxs ++ [{ closed := false, response := none, msg := none }] } j = ctxOf c j :=
            ctxOf_allocCtx c
          refine ⟨hm, ?_, ?_, ?_, h.g.b_hpool, ?_, h.g.lin, h.g.val, h.g.pool_empty, h.g.pool_nodup, ?_, ?_⟩
          · show c.sentinel < (c.ctxs ++ [_]).length
            rw [List.length_append]; exact Nat.lt_of_lt_of_le h.g.b_sent (Nat.le_add_right _ _)
          · intro i hi; show i < (c.ctxs ++ [_]).length
            rw [List.length_append]; exact Nat.lt_of_lt_of_le (h.g.b_mbox i hi) (Nat.le_add_right _ _)
          · intro i hi; show i < (c.ctxs ++ [_]).length
            rw [List.length_append]; exact Nat.lt_of_lt_of_le (h.g.b_cpool i hi) (Nat.le_add_right _ _)
          · intro i ch hi; rw [e] at hi; exact h.g.b_resp i ch hi
          · intro i hi
            obtain ⟨ch, k', hp'⟩ := h.g.mbox_ok i hi
            exact ⟨ch, k', hp'.transfer (e i) rfl rfl hp'.2.2.2⟩
          · intro i j hi hj hne; rw [e, e]; exact h.g.mbox_dist i j hi hj hne
        apply finv_update (c1 := { c with ctxs := c.ctxs ++ [{ closed := false, response := none, msg := none }] }) h rfl ht hg
        · intro j tj _ hj
          apply (h.thr j tj hj).1.transfer
          · intro i h1 h2 h3 h4 _
            refine ⟨?_, h2, h3, h4⟩
            show i < (c.ctxs ++ [_]).length
            rw [List.length_append]; exact Nat.lt_of_lt_of_le h1 (Nat.le_add_right _ _)
          · intro ch h1 h2 _; exact ⟨rfl, h1, h2⟩
          · intro i k' cl ch _ h1 h2 h3
            exact ⟨h1, h2.transfer (ctxOf_allocCtx c _) rfl rfl h2.2.2.2, fun j hj => by rw [ctxOf_allocCtx]; exact h3 j hj⟩
        · refine ⟨?_, hok.2⟩
          unfold ThreadOk
          dsimp only
          refine ⟨rfl, by show _ < (c.ctxs ++ [_]).length; simp, ?_, ?_, ?_⟩
          · intro hi; exact Nat.lt_irrefl _ (h.g.b_cpool _ hi)
          · intro hi; exact Nat.lt_irrefl _ (h.g.b_mbox _ hi)
          · intro e; exact Nat.lt_irrefl _ (e ▸ h.g.b_sent)
        · intro i hb
          simp [buildCtx] at hb
          right
          intro j tj _ hj hbj
          have := (h.thr j tj hj).1
          subst hb
          cases hpcj : tj.pc with
          | none => simp [buildCtx, hpcj] at hbj
          | some pcj =>
            cases pcj <;> simp [buildCtx, hpcj] at hbj
            subst hbj
            simp only [ThreadOk, hpcj] at this
            exact Nat.lt_irrefl _ this.2.1
        · intro ch hs; simp [selChan] at hs
        · exact hr' _ rfl rfl
      | cons i rest' =>
        simp only [getContext_fixed_cons c i rest' hm hpool]
        have hnd := h.g.lin
        rw [hpool] at hnd
        have hi_notin : i ∉ rest' ∧ i ∉ c.mbox ∧ i ≠ c.sentinel := by
          simp only [List.cons_append, List.nodup_cons, List.mem_append, List.mem_singleton, not_or] at hnd
          exact ⟨hnd.1.1.1, hnd.1.1.2, hnd.1.2⟩
        have hg : GInv { c with ctxPool := rest' } own := by
          refine ⟨hm, h.g.b_sent, h.g.b_mbox, ?_, h.g.b_hpool, h.g.b_resp, ?_, h.g.val, h.g.pool_empty, h.g.pool_nodup, ?_, h.g.mbox_dist⟩
          · intro j hj; exact h.g.b_cpool j (by rw [hpool]; exact List.mem_cons_of_mem _ hj)
          · simp only [List.cons_append, List.nodup_cons] at hnd; exact hnd.2
          · intro j hj
            obtain ⟨ch, k', hp'⟩ := h.g.mbox_ok j hj
            exact ⟨ch, k', hp'.transfer rfl rfl rfl hp'.2.2.2⟩
        apply finv_update (c1 := { c with ctxPool := rest' }) h rfl ht hg
        · intro j tj _ hj
          apply (h.thr j tj hj).1.transfer
          · intro i' h1 h2 h3 h4 _
            exact ⟨h1, fun hx => h2 (by rw [hpool]; exact List.mem_cons_of_mem _ hx), h3, h4⟩
          · intro ch h1 h2 _; exact ⟨rfl, h1, h2⟩
          · intro i' k' cl ch _ h1 h2 h3
            exact ⟨h1, h2.transfer rfl rfl rfl h2.2.2.2, h3⟩
        · refine ⟨?_, hok.2⟩
          unfold ThreadOk
          dsimp only
          exact ⟨rfl, h.g.b_cpool i (by rw [hpool]; simp), hi_notin.1, hi_notin.2.1, hi_notin.2.2⟩
        · intro i' hb
          simp [buildCtx] at hb
          subst hb
          right
          intro j tj _ hj hbj
          have := (h.thr j tj hj).1
          cases hpcj : tj.pc with
          | none => simp [buildCtx, hpcj] at hbj
          | some pcj =>
            cases pcj <;> simp [buildCtx, hpcj] at hbj
            subst hbj
            simp only [ThreadOk, hpcj] at this
            exact this.2.2.1 (by rw [hpool]; simp)
        · intro ch hs; simp [selChan] at hs
        · exact hr' _ rfl rfl

/-! ### finishing an operation = recording the result, then starting the next one -/

theorem getContext_upd (c : Cfg) (tid : Nat) (x : Thread) :
    getContext (upd c tid x) = ((getContext c).1, upd (getContext c).2 tid x) := by
  cases hm : c.mode <;> cases hp : c.ctxPool <;> simp [getContext, upd, hm, hp]

theorem startNext_upd (c : Cfg) (tid : Nat) (x t0 : Thread) :
    startNext (upd c tid x) t0 = (upd (startNext c t0).1 tid x, (startNext c t0).2) := by
  unfold startNext
  cases t0.prog with
  | nil => rfl
  | cons op rest =>
    cases op with
    | ask k => simp only [getContext_upd]
    | handle => rfl

theorem startNext_pc (c : Cfg) (t0 : Thread) (p : Option PC) : startNext c { t0 with pc := p } = startNext c t0 := by
  unfold startNext
  cases t0.prog with
  | nil => rfl
  | cons op rest => cases op <;> rfl

theorem upd_upd (c : Cfg) (tid : Nat) (x y : Thread) : upd (upd c tid x) tid y = upd c tid y := by
  simp [upd]

/-- the record of a thread that has just completed operation `op` with result `r` -/
def done (t : Thread) (op : Op) (r : Res) : Thread := { t with pc := none, hist := (op, r) :: t.hist }

theorem finish_eq (ca : Cfg) (tid : Nat) (t : Thread) (op : Op) (r : Res) (hc : t.cur = some op) :
    upd (finishOp ca t r).1 tid (finishOp ca t r).2 =
      upd (startNext (upd ca tid (done t op r)) (done t op r)).1 tid (startNext (upd ca tid (done t op r)) (done t op r)).2 := by
  unfold finishOp
  rw [hc]
  simp only [startNext_upd, upd_upd]
  have : startNext ca (done t op r) = startNext ca { t with hist := (op, r) :: t.hist } :=
    startNext_pc ca { t with hist := (op, r) :: t.hist } none
  rw [this, hc]

/-- finishing: it suffices to establish the invariant for the configuration in which the thread is recorded as
done -/
theorem finv_finish {ca : Cfg} {own : ChanId → ReqId} {tid : Nat} {t : Thread} {op : Op} {r : Res}
    (hc : t.cur = some op) (h : FInv (upd ca tid (done t op r)) own)
    (hlt : tid < ca.threads.length) :
    FInv (upd (finishOp ca t r).1 tid (finishOp ca t r).2) own := by
  rw [finish_eq ca tid t op r hc]
  apply finv_start h
  · simp [upd, hlt]
  · rfl

end GoaktVerif.C15

import GoaktVerif.Lemmas.C23Round
/-
Frames: factorisation of the decoders into framing + `finish`, round trips, format detection.
-/
namespace GoaktVerif.C23
open GoaktVerif.Model.C23

/-- the bytes `MarshalBinary` produces -/
def legacyFrame (name payload : Bytes) : Bytes :=
  be32 (4 + 4 + name.length + payload.length) ++ (be32 name.length ++ (name ++ payload))

/-- the bytes `MarshalBinaryWithMetadata` produces -/
def metaFrame (name payload mb : Bytes) : Bytes :=
  be32 (4 + 4 + name.length + 4 + mb.length + payload.length) ++
    (be32 name.length ++ (be32 mb.length ++ (name ++ (mb ++ payload))))

theorem marshal_eq {name : Bytes} (payload : Bytes) (h : 0 < name.length) :
    marshal name payload = .ok (legacyFrame name payload) := by
  simp only [marshal, legacyFrame]; rw [if_neg (by omega)]

theorem marshalWithMeta_eq {name : Bytes} (payload mb : Bytes) (h : 0 < name.length) :
    marshalWithMeta name payload mb = .ok (metaFrame name payload mb) := by
  simp only [marshalWithMeta, metaFrame]; rw [if_neg (by omega)]

theorem legacyFrame_length (name payload : Bytes) : (legacyFrame name payload).length = 8 + name.length + payload.length := by
  simp only [legacyFrame, List.length_append, be32_length]; omega

theorem metaFrame_length (name payload mb : Bytes) :
    (metaFrame name payload mb).length = 12 + name.length + mb.length + payload.length := by
  simp only [metaFrame, List.length_append, be32_length]; omega

/-! ### factorisation: decoder = framing, then registry / metadata / payload -/

theorem unmarshal_eq_finish (c : Codec) (d : Bytes) : unmarshal c d = (frameLegacy d).bind (finish c) := by
  unfold unmarshal frameLegacy
  by_cases h8 : d.length < 8
  · simp only [h8, if_true]; rfl
  · simp only [h8, if_false]
    obtain ⟨ml, hml, _⟩ := u32At_of_le (d := d) (pos := 0) (by omega)
    simp only [hml]
    by_cases h2 : d.length < ml ∨ ml < 8
    · simp only [h2, if_true]; rfl
    · simp only [h2, if_false]
      obtain ⟨nl, hnl, _⟩ := u32At_of_le (d := d) (pos := 4) (by omega)
      simp only [hnl]
      by_cases h3 : 8 + nl > ml
      · simp only [h3, if_true]; rfl
      · simp only [h3, if_false]
        rw [slice_of_le (by omega) (by omega), slice_of_le (by omega) (by omega)]
        simp only [Except.bind, finish, List.length_nil, Nat.lt_irrefl, if_false]

theorem unmarshalWithMeta_eq_finish (c : Codec) (d : Bytes) :
    unmarshalWithMeta c d = (frameMeta d).bind (finish c) := by
  unfold unmarshalWithMeta frameMeta
  by_cases h8 : d.length < 12
  · simp only [h8, if_true]; rfl
  · simp only [h8, if_false]
    obtain ⟨ml, hml, _⟩ := u32At_of_le (d := d) (pos := 0) (by omega)
    simp only [hml]
    by_cases h2 : d.length < ml ∨ ml < 12
    · simp only [h2, if_true]; rfl
    · simp only [h2, if_false]
      obtain ⟨nl, hnl, _⟩ := u32At_of_le (d := d) (pos := 4) (by omega)
      obtain ⟨kl, hkl, _⟩ := u32At_of_le (d := d) (pos := 8) (by omega)
      simp only [hnl, hkl]
      by_cases h3 : 12 + nl + kl > ml
      · simp only [h3, if_true]; rfl
      · simp only [h3, if_false]
        rw [slice_of_le (by omega) (by omega), slice_of_le (by omega) (by omega), slice_of_le (by omega) (by omega)]
        simp only [Except.bind, finish]
        have hlen : ((d.drop (12 + nl)).take (12 + nl + kl - (12 + nl))).length = kl := by
          simp only [List.length_take, List.length_drop]; omega
        simp only [hlen]

theorem serverDecode_eq_finish (c : Codec) (d : Bytes) : serverDecode c d = (serverFrame d).bind (finish c) := by
  unfold serverDecode serverFrame
  rw [unmarshalWithMeta_eq_finish, unmarshal_eq_finish]
  split
  · cases hfm : frameMeta d with
    | error e =>
      cases e <;> simp only [Except.bind]
    | ok r =>
      simp only [Except.bind]
      -- `finish` never reports invalidLength, so no fallback happens after a successful framing
      cases hf : finish c r with
      | error e =>
        have := finish_err hf
        cases e <;> simp only [] <;> simp at this
      | ok v => simp only []
  · rfl

theorem clientDecode_eq (c : Codec) (d : Bytes) :
    clientDecode c d =
      if clientTriesMeta d then
        (match unmarshalWithMeta c d with
         | .ok r => .ok r
         | .error _ => unmarshal c d)
      else unmarshal c d := by
  unfold clientDecode clientTriesMeta
  by_cases h : d.length < 12
  · simp only [h, if_true]; simp
  · simp only [h, if_false]
    obtain ⟨a, ha, _⟩ := u32At_of_le (d := d) (pos := 0) (by omega)
    obtain ⟨b, hb, _⟩ := u32At_of_le (d := d) (pos := 4) (by omega)
    obtain ⟨e, he, _⟩ := u32At_of_le (d := d) (pos := 8) (by omega)
    simp only [ha, hb, he, decide_eq_true_eq]
    by_cases hh : b > 0 ∧ 12 + b + e ≤ a
    · rw [if_pos hh, if_pos hh]
      cases unmarshalWithMeta c d <;> rfl
    · rw [if_neg hh, if_neg hh]

/-! ### framing of the frames the encoders produce -/

theorem frameLegacy_legacyFrame (name payload : Bytes) (htot : 8 + name.length + payload.length < 2 ^ 32) :
    frameLegacy (legacyFrame name payload) = .ok ⟨name, [], payload⟩ := by
  have hlen := legacyFrame_length name payload
  have r0 : u32At (legacyFrame name payload) 0 = .ok (4 + 4 + name.length + payload.length) :=
    u32At_of_eq (a := []) (rest := be32 name.length ++ (name ++ payload)) (by simp only [legacyFrame, List.nil_append]) rfl (by omega)
  have r4 : u32At (legacyFrame name payload) 4 = .ok name.length :=
    u32At_of_eq (a := be32 (4 + 4 + name.length + payload.length)) (rest := name ++ payload)
      (by simp only [legacyFrame]) rfl (by omega)
  have s1 : slice (legacyFrame name payload) 8 (8 + name.length) = .ok name :=
    slice_of_eq (a := be32 (4 + 4 + name.length + payload.length) ++ be32 name.length) (c := payload)
      (by simp only [legacyFrame, List.append_assoc]) (by simp only [List.length_append, be32_length]) rfl
  have s2 : slice (legacyFrame name payload) (8 + name.length) (4 + 4 + name.length + payload.length) = .ok payload :=
    slice_of_eq (a := be32 (4 + 4 + name.length + payload.length) ++ be32 name.length ++ name) (c := [])
      (by simp only [legacyFrame, List.append_assoc, List.append_nil])
      (by simp only [List.length_append, be32_length]) (by omega)
  unfold frameLegacy
  rw [if_neg (by omega)]
  simp only [r0]
  rw [if_neg (by omega)]
  simp only [r4]
  rw [if_neg (by omega)]
  simp only [s1, s2]

theorem frameMeta_metaFrame (name payload mb : Bytes)
    (htot : 12 + name.length + mb.length + payload.length < 2 ^ 32) :
    frameMeta (metaFrame name payload mb) = .ok ⟨name, mb, payload⟩ := by
  have hlen := metaFrame_length name payload mb
  have r0 : u32At (metaFrame name payload mb) 0 = .ok (4 + 4 + name.length + 4 + mb.length + payload.length) :=
    u32At_of_eq (a := []) (rest := be32 name.length ++ (be32 mb.length ++ (name ++ (mb ++ payload))))
      (by simp only [metaFrame, List.nil_append]) rfl (by omega)
  have r4 : u32At (metaFrame name payload mb) 4 = .ok name.length :=
    u32At_of_eq (a := be32 (4 + 4 + name.length + 4 + mb.length + payload.length))
      (rest := be32 mb.length ++ (name ++ (mb ++ payload)))
      (by simp only [metaFrame]) rfl (by omega)
  have r8 : u32At (metaFrame name payload mb) 8 = .ok mb.length :=
    u32At_of_eq (a := be32 (4 + 4 + name.length + 4 + mb.length + payload.length) ++ be32 name.length)
      (rest := name ++ (mb ++ payload))
      (by simp only [metaFrame, List.append_assoc]) (by simp only [List.length_append, be32_length]) (by omega)
  have s1 : slice (metaFrame name payload mb) 12 (12 + name.length) = .ok name :=
    slice_of_eq (a := be32 (4 + 4 + name.length + 4 + mb.length + payload.length) ++ be32 name.length ++ be32 mb.length)
      (c := mb ++ payload)
      (by simp only [metaFrame, List.append_assoc]) (by simp only [List.length_append, be32_length]) rfl
  have s2 : slice (metaFrame name payload mb) (12 + name.length) (12 + name.length + mb.length) = .ok mb :=
    slice_of_eq (a := be32 (4 + 4 + name.length + 4 + mb.length + payload.length) ++ be32 name.length ++ be32 mb.length ++ name)
      (c := payload)
      (by simp only [metaFrame, List.append_assoc]) (by simp only [List.length_append, be32_length]) rfl
  have s3 : slice (metaFrame name payload mb) (12 + name.length + mb.length)
      (4 + 4 + name.length + 4 + mb.length + payload.length) = .ok payload :=
    slice_of_eq (a := be32 (4 + 4 + name.length + 4 + mb.length + payload.length) ++ be32 name.length ++ be32 mb.length ++ name ++ mb)
      (c := [])
      (by simp only [metaFrame, List.append_assoc, List.append_nil])
      (by simp only [List.length_append, be32_length]) (by omega)
  unfold frameMeta
  rw [if_neg (by omega)]
  simp only [r0]
  rw [if_neg (by omega)]
  simp only [r4, r8]
  rw [if_neg (by omega)]
  simp only [s1, s2, s3]

/-! ### format detection -/

theorem u32At_ge_first {d : Bytes} {pos x : Nat} {a : UInt8} {r : Bytes} (hd : d.drop pos = a :: r)
    (h : u32At d pos = .ok x) : a.toNat * 2 ^ 24 ≤ x := by
  unfold u32At at h
  rw [hd] at h
  match r, h with
  | b :: c :: e :: _, h =>
    simp only [Except.ok.injEq] at h
    omega

/-- bytes 8:12 of a legacy frame, read as a length, are at least `first name byte · 2^24` -/
theorem legacy_bytes8 {name payload : Bytes} {a : UInt8} {name' : Bytes} (hn : name = a :: name') {x : Nat}
    (h : u32At (legacyFrame name payload) 8 = .ok x) : a.toNat * 2 ^ 24 ≤ x := by
  apply u32At_ge_first (r := name' ++ payload) _ h
  subst hn
  exact drop_of_eq (a := be32 (4 + 4 + (a :: name').length + payload.length) ++ be32 (a :: name').length)
    (by simp only [legacyFrame, List.append_assoc, List.cons_append]) (by simp only [List.length_append, be32_length])

/-- a legacy frame is never accepted by the metadata-format framing: the guard is
    `total length < 12 + nameLen + firstNameByte · 2^24` -/
theorem frameMeta_legacyFrame {name payload : Bytes} {a : UInt8} {name' : Bytes} (hn : name = a :: name')
    (htot : 8 + name.length + payload.length < 12 + name.length + a.toNat * 2 ^ 24)
    (h32 : 8 + name.length + payload.length < 2 ^ 32) :
    frameMeta (legacyFrame name payload) = .error .invalidLength := by
  have hlen := legacyFrame_length name payload
  unfold frameMeta
  by_cases h12 : (legacyFrame name payload).length < 12
  · simp only [h12, if_true]
  · simp only [h12, if_false]
    have r0 : u32At (legacyFrame name payload) 0 = .ok (4 + 4 + name.length + payload.length) :=
      u32At_of_eq (a := []) (rest := be32 name.length ++ (name ++ payload)) (by simp only [legacyFrame, List.nil_append]) rfl (by omega)
    have r4 : u32At (legacyFrame name payload) 4 = .ok name.length :=
      u32At_of_eq (a := be32 (4 + 4 + name.length + payload.length)) (rest := name ++ payload)
        (by simp only [legacyFrame]) rfl (by omega)
    obtain ⟨x, hx, _⟩ := u32At_of_le (d := legacyFrame name payload) (pos := 8) (by omega)
    have hge := legacy_bytes8 hn hx
    simp only [r0]
    rw [if_neg (by omega)]
    simp only [r4, hx]
    rw [if_pos (by omega)]

/-- the client's heuristic never tries the metadata format on a legacy frame (same guard) -/
theorem clientTriesMeta_legacyFrame {name payload : Bytes} {a : UInt8} {name' : Bytes} (hn : name = a :: name')
    (htot : 8 + name.length + payload.length < 12 + name.length + a.toNat * 2 ^ 24)
    (h32 : 8 + name.length + payload.length < 2 ^ 32) :
    clientTriesMeta (legacyFrame name payload) = false := by
  have hlen := legacyFrame_length name payload
  unfold clientTriesMeta
  by_cases h12 : (legacyFrame name payload).length < 12
  · simp only [h12, if_true]
  · simp only [h12, if_false]
    have r0 : u32At (legacyFrame name payload) 0 = .ok (4 + 4 + name.length + payload.length) :=
      u32At_of_eq (a := []) (rest := be32 name.length ++ (name ++ payload)) (by simp only [legacyFrame, List.nil_append]) rfl (by omega)
    have r4 : u32At (legacyFrame name payload) 4 = .ok name.length :=
      u32At_of_eq (a := be32 (4 + 4 + name.length + payload.length)) (rest := name ++ payload)
        (by simp only [legacyFrame]) rfl (by omega)
    obtain ⟨x, hx, _⟩ := u32At_of_le (d := legacyFrame name payload) (pos := 8) (by omega)
    have hge := legacy_bytes8 hn hx
    simp only [r0, r4, hx, decide_eq_false_iff_not]
    omega

/-- on a metadata-format frame the heuristic tries the metadata format iff `0 < nameLen` -/
theorem clientTriesMeta_metaFrame (name payload mb : Bytes)
    (htot : 12 + name.length + mb.length + payload.length < 2 ^ 32) :
    clientTriesMeta (metaFrame name payload mb) = decide (0 < name.length) := by
  have hlen := metaFrame_length name payload mb
  have r0 : u32At (metaFrame name payload mb) 0 = .ok (4 + 4 + name.length + 4 + mb.length + payload.length) :=
    u32At_of_eq (a := []) (rest := be32 name.length ++ (be32 mb.length ++ (name ++ (mb ++ payload))))
      (by simp only [metaFrame, List.nil_append]) rfl (by omega)
  have r4 : u32At (metaFrame name payload mb) 4 = .ok name.length :=
    u32At_of_eq (a := be32 (4 + 4 + name.length + 4 + mb.length + payload.length))
      (rest := be32 mb.length ++ (name ++ (mb ++ payload)))
      (by simp only [metaFrame]) rfl (by omega)
  have r8 : u32At (metaFrame name payload mb) 8 = .ok mb.length :=
    u32At_of_eq (a := be32 (4 + 4 + name.length + 4 + mb.length + payload.length) ++ be32 name.length)
      (rest := name ++ (mb ++ payload))
      (by simp only [metaFrame, List.append_assoc]) (by simp only [List.length_append, be32_length]) (by omega)
  unfold clientTriesMeta
  rw [if_neg (by omega)]
  simp only [r0, r4, r8]
  apply decide_eq_decide.mpr
  constructor
  · intro h; omega
  · intro h; omega

end GoaktVerif.C23

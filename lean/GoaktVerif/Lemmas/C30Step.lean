/-
C30 — preservation of the invariant by the step of one thread (case analysis over the program counter).
-/
import GoaktVerif.Lemmas.C30

namespace GoaktVerif.C30
open GoaktVerif.Model.C30

/-- result type of the local analysis of one step of a thread of node `t.node` -/
def LocalOK (sh : Sh) (t : Thread) (r : Sh × Thread) : Prop :=
  Frame t.node sh r.1 ∧ NodeInv r.1 t.node ∧ Loc r.1 t.node r.2.pc

theorem ok_same (sh : Sh) (t t' : Thread) (hn : NodeInv sh t.node) (hl : Loc sh t.node t'.pc) : LocalOK sh t (sh, t') :=
  ⟨frame_of_eq rfl rfl rfl (Or.inl rfl), hn, hl⟩

theorem ok_logReg (sh : Sh) (t t' : Thread) (e : RegEv) (hn : NodeInv sh t.node) (hl : Loc sh t.node t'.pc) :
    LocalOK sh t (logReg sh e, t') :=
  ⟨frame_of_eq rfl rfl rfl (Or.inl rfl), nodeinv_of_eq hn rfl rfl rfl (Or.inl rfl), hl⟩

theorem ok_logEv (sh : Sh) (t t' : Thread) (e : HookEv) (hn : NodeInv sh t.node) (hl : Loc sh t.node t'.pc) :
    LocalOK sh t (logEv sh e, t') :=
  ⟨frame_of_eq rfl rfl rfl (Or.inl rfl), nodeinv_of_eq hn rfl rfl rfl (Or.inl rfl), hl⟩

theorem ok_newProc (sh : Sh) (t : Thread) (hn : NodeInv sh t.node) (ht : sh.tbl t.node = none) :
    LocalOK sh t (newProc sh t.node, goto t (.ownExists sh.nprocs)) := by
  refine ⟨?_, ?_, ?_⟩
  · refine ⟨fun n _ => rfl, Nat.le_succ _, ?_, ?_, Or.inl rfl⟩
    · intro p hp' _
      exact upd_other _ _ _ _ (Nat.ne_of_lt hp')
    · intro p hp' hne
      by_cases e : p = sh.nprocs
      · subst e
        simp [newProc] at hne
      · have : p < sh.nprocs := by
          have : p < sh.nprocs + 1 := hp'
          omega
        exact ⟨this, (upd_other _ _ _ _ e).symm⟩
  · constructor
    · intro p hp'
      have : sh.tbl t.node = some p := hp'
      rw [ht] at this; cases this
    · intro q hq hnode hhook
      by_cases e : q = sh.nprocs
      · subst e
        simp [newProc] at hhook
      · have hq' : q < sh.nprocs := by
          have : q < sh.nprocs + 1 := hq
          omega
        have e1 : (newProc sh t.node).procs q = sh.procs q := upd_other _ _ _ _ e
        have hnode' : (sh.procs q).node = t.node := by rw [← e1]; exact hnode
        have hhook' : (sh.procs q).hook = true := by rw [← e1]; exact hhook
        exact hn.2 q hq' hnode' hhook'
  · exact ⟨ht, Nat.lt_succ_self _, upd_same _ _ _⟩

theorem exec_opStart (fix : Bool) (sh : Sh) (t : Thread) (hn : NodeInv sh t.node) :
    LocalOK sh t (exec fix sh t .opStart) := by
  have hsome : ∀ p, sh.tbl t.node = some p →
      LocalOK sh t (if (sh.procs p).activated = true then (sh, finish t Res.ok) else (sh, goto t (PC.ownExists p))) := by
    intro p hp
    obtain ⟨_, h2, _⟩ := hn.1 p hp
    rw [h2]
    exact ok_same sh t _ hn (loc_finish _ _ _ _)
  cases hc : t.cur <;> cases ht : sh.tbl t.node <;> simp only [exec, hc, ht]
  all_goals first
    | exact ok_same sh t _ hn (loc_finish _ _ _ _)
    | exact ok_newProc sh t hn ht
    | exact hsome _ ht
    | exact ok_same sh t _ hn ht

/-- the pre-claim facts (shared by ownExists / ownGet / claimNx / claimGet) -/
def Pre (sh : Sh) (n : Node) (p : ProcId) : Prop :=
  sh.tbl n = none ∧ p < sh.nprocs ∧ sh.procs p = ⟨n, false, false⟩

theorem exec_ownExists (fix : Bool) (sh : Sh) (t : Thread) (p : ProcId) (hn : NodeInv sh t.node)
    (hl : Pre sh t.node p) : LocalOK sh t (exec fix sh t (.ownExists p)) := by
  cases hr : sh.reg <;> simp only [exec, hr]
  · exact ok_logReg sh t _ _ hn hl
  · exact ok_logReg sh t _ _ hn hl

theorem exec_ownGet (fix : Bool) (sh : Sh) (t : Thread) (p : ProcId) (hn : NodeInv sh t.node)
    (hl : Pre sh t.node p) : LocalOK sh t (exec fix sh t (.ownGet p)) := by
  cases hr : sh.reg <;> simp only [exec, hr]
  · exact ok_logReg sh t _ _ hn hl
  · rename_i o
    by_cases ho : o = t.node
    · rw [if_pos ho]
      exact ok_logReg sh t _ _ hn ⟨hl.1, hl.2.1, hl.2.2, by rw [hr, ho]⟩
    · rw [if_neg ho]
      exact ok_logReg sh t _ _ hn (loc_finish _ _ _ _)

theorem exec_claimNx (fix : Bool) (sh : Sh) (t : Thread) (p : ProcId) (hn : NodeInv sh t.node)
    (hl : Pre sh t.node p) : LocalOK sh t (exec fix sh t (.claimNx p)) := by
  cases hr : sh.reg <;> simp only [exec, hr]
  · refine ⟨frame_of_eq rfl rfl rfl (Or.inr (Or.inl hr)), ?_, ⟨hl.1, hl.2.1, hl.2.2, rfl⟩⟩
    exact nodeinv_of_eq hn rfl rfl rfl (Or.inr hl.1)
  · exact ok_logReg sh t _ _ hn hl

theorem exec_claimGet (fix : Bool) (sh : Sh) (t : Thread) (p : ProcId) (hn : NodeInv sh t.node)
    (hl : Pre sh t.node p) (hg : fix = true ∨ sh.reg ≠ none) : LocalOK sh t (exec fix sh t (.claimGet p)) := by
  cases hr : sh.reg <;> simp only [exec, hr]
  · rcases hg with hf | hf
    · rw [if_pos hf]
      exact ok_logReg sh t _ _ hn hl
    · exact absurd hr hf
  · rename_i o
    by_cases ho : o = t.node
    · rw [if_pos ho]
      exact ok_logReg sh t _ _ hn ⟨hl.1, hl.2.1, hl.2.2, by rw [hr, ho]⟩
    · rw [if_neg ho]
      exact ok_logReg sh t _ _ hn (loc_finish _ _ _ _)


/-- frame of a step that rewrites process `p` (a process of node `n`, kept on node `n`) and the table of `n` -/
theorem frame_proc {sh sh' : Sh} {n : Node} {p : ProcId} (hp : (sh.procs p).node = n)
    (h1 : ∀ k, k ≠ n → sh'.tbl k = sh.tbl k) (h2 : sh'.nprocs = sh.nprocs)
    (h3 : ∀ q, q ≠ p → sh'.procs q = sh.procs q) (h4 : (sh'.procs p).node = n)
    (h5 : sh'.reg = sh.reg ∨ sh.reg = none ∨ sh.reg = some n) : Frame n sh sh' where
  tbl := h1
  mono := by rw [h2]; exact Nat.le_refl _
  fwd := by
    intro q _ hq
    apply h3
    intro e; subst e; exact hq hp
  bwd := by
    intro q hq hne
    have : q ≠ p := by intro e; subst e; exact hne h4
    exact ⟨by rw [← h2]; exact hq, (h3 q this).symm⟩
  reg := h5

theorem exec_activate (fix : Bool) (sh : Sh) (t : Thread) (p : ProcId) (claimed : Bool) (hn : NodeInv sh t.node)
    (hl : Pre sh t.node p ∧ sh.reg = some t.node) : LocalOK sh t (exec fix sh t (.activate p claimed)) := by
  obtain ⟨⟨h1, h2, h3⟩, h4⟩ := hl
  simp only [exec]
  by_cases hsa : t.cur = .sa
  · rw [if_pos hsa]
    cases claimed
    · exact ok_logEv sh t _ _ hn (loc_finish _ _ _ _)
    · exact ok_logEv sh t _ _ hn ⟨h1, h4⟩
  · rw [if_neg hsa]
    have hpn : (sh.procs p).node = t.node := by rw [h3]
    have hnew : (activateOn sh t.node p).procs p = ⟨t.node, true, true⟩ := by
      simp [activateOn, setProc, h3]
    have hoth : ∀ q, q ≠ p → (activateOn sh t.node p).procs q = sh.procs q := fun q hq => upd_other _ _ _ _ hq
    have htbl : (activateOn sh t.node p).tbl t.node = some p := upd_same _ _ _
    refine ⟨?_, ?_, htbl⟩
    · exact frame_proc hpn (fun k hk => upd_other _ _ _ _ hk) rfl hoth (by rw [hnew]) (Or.inl rfl)
    · constructor
      · intro q hq
        rw [htbl] at hq; injection hq with hq; subst hq
        exact ⟨h2, hnew, h4⟩
      · intro q hq hnode hhook
        by_cases e : q = p
        · rw [e]; exact htbl
        · rw [hoth q e] at hnode hhook
          have := hn.2 q hq hnode hhook
          rw [h1] at this; cases this

theorem exec_failDel (fix : Bool) (sh : Sh) (t : Thread) (p : ProcId) (hn : NodeInv sh t.node)
    (hl : sh.tbl t.node = none ∧ sh.reg = some t.node) : LocalOK sh t (exec fix sh t (.failDel p)) := by
  simp only [exec]
  exact ⟨frame_of_eq rfl rfl rfl (Or.inr (Or.inr hl.2)), nodeinv_of_eq hn rfl rfl rfl (Or.inr hl.1), loc_finish _ _ _ _⟩

theorem exec_finPut (fix : Bool) (sh : Sh) (t : Thread) (p : ProcId) (hn : NodeInv sh t.node)
    (hl : sh.tbl t.node = some p) : LocalOK sh t (exec fix sh t (.finPut p)) := by
  obtain ⟨_, _, h3⟩ := hn.1 p hl
  simp only [exec]
  by_cases hsp : t.cur = .sp
  · rw [if_pos hsp]
    exact ok_logReg sh t _ _ hn hl
  · rw [if_neg hsp]
    exact ⟨frame_of_eq rfl rfl rfl (Or.inl h3.symm), nodeinv_of_eq hn rfl rfl rfl (Or.inl h3.symm), loc_finish _ _ _ _⟩

theorem ok_hookOff (sh : Sh) (t t' : Thread) (p : ProcId) (hn : NodeInv sh t.node) (hl : sh.tbl t.node = some p)
    (hpc : t'.pc = some (.rbDel p) ∨ t'.pc = some (.dDel p)) : LocalOK sh t (hookOff sh t.node p, t') := by
  obtain ⟨h1, h2, h3⟩ := hn.1 p hl
  have hpn : (sh.procs p).node = t.node := by rw [h2]
  have hnew : (hookOff sh t.node p).procs p = ⟨t.node, true, false⟩ := by
    simp [hookOff, setProc, h2]
  have hoth : ∀ q, q ≠ p → (hookOff sh t.node p).procs q = sh.procs q := fun q hq => upd_other _ _ _ _ hq
  have htbl : (hookOff sh t.node p).tbl t.node = none := upd_same _ _ _
  refine ⟨?_, ?_, ?_⟩
  · exact frame_proc hpn (fun k hk => upd_other _ _ _ _ hk) rfl hoth (by rw [hnew]) (Or.inl rfl)
  · constructor
    · intro q hq
      rw [htbl] at hq; cases hq
    · intro q hq hnode hhook
      by_cases e : q = p
      · subst e; rw [hnew] at hhook; cases hhook
      · rw [hoth q e] at hnode hhook
        have := hn.2 q hq hnode hhook
        rw [hl] at this; injection this with this
        exact absurd this.symm e
  · have : Loc (hookOff sh t.node p) t.node (some (.rbDel p)) :=
      ⟨htbl, h3, h1, by rw [hnew], by rw [hnew]⟩
    rcases hpc with e | e <;> rw [e] <;> exact this

theorem ok_delOff (sh : Sh) (t t' : Thread) (p : ProcId) (hn : NodeInv sh t.node)
    (hl : sh.tbl t.node = none ∧ sh.reg = some t.node ∧ p < sh.nprocs ∧ (sh.procs p).node = t.node ∧ (sh.procs p).hook = false)
    (hpc : Loc (delOff sh t.node p) t.node t'.pc) : LocalOK sh t (delOff sh t.node p, t') := by
  obtain ⟨h1, h2, _, h4, h5⟩ := hl
  have hnew : (delOff sh t.node p).procs p = { sh.procs p with activated := false } := upd_same _ _ _
  have hoth : ∀ q, q ≠ p → (delOff sh t.node p).procs q = sh.procs q := fun q hq => upd_other _ _ _ _ hq
  refine ⟨?_, ?_, hpc⟩
  · exact frame_proc h4 (fun k _ => rfl) rfl hoth (by rw [hnew]; exact h4) (Or.inr (Or.inr h2))
  · constructor
    · intro q hq
      have : sh.tbl t.node = some q := hq
      rw [h1] at this; cases this
    · intro q hq hnode hhook
      by_cases e : q = p
      · subst e; rw [hnew] at hhook
        have : (sh.procs q).hook = true := hhook
        rw [h5] at this; cases this
      · rw [hoth q e] at hnode hhook
        exact hn.2 q hq hnode hhook

/-- the local analysis of every program counter -/
theorem exec_local (fix : Bool) (sh : Sh) (t : Thread) (pc : PC) (hn : NodeInv sh t.node)
    (hl : Loc sh t.node (some pc)) (hg : fix = true ∨ (∀ p, pc = .claimGet p → sh.reg ≠ none)) :
    LocalOK sh t (exec fix sh t pc) := by
  cases pc with
  | opStart => exact exec_opStart fix sh t hn
  | ownExists p => exact exec_ownExists fix sh t p hn hl
  | ownGet p => exact exec_ownGet fix sh t p hn hl
  | claimNx p => exact exec_claimNx fix sh t p hn hl
  | claimGet p => exact exec_claimGet fix sh t p hn hl (hg.imp id (fun h => h p rfl))
  | activate p c => exact exec_activate fix sh t p c hn ⟨⟨hl.1, hl.2.1, hl.2.2.1⟩, hl.2.2.2⟩
  | failDel p => exact exec_failDel fix sh t p hn hl
  | finPut p => exact exec_finPut fix sh t p hn hl
  | rbHook p => simp only [exec]; exact ok_hookOff sh t _ p hn hl (Or.inl rfl)
  | rbDel p => simp only [exec]; exact ok_delOff sh t _ p hn hl (loc_finish _ _ _ _)
  | dHook p => simp only [exec]; exact ok_hookOff sh t _ p hn hl (Or.inr rfl)
  | dDel p => simp only [exec]; exact ok_delOff sh t _ p hn hl (loc_finish _ _ _ _)

theorem exec_node (fix : Bool) (sh : Sh) (t : Thread) (pc : PC) : (exec fix sh t pc).2.node = t.node := by
  cases pc <;> simp only [exec] <;> (repeat' split) <;> first | exact finish_node _ _ | rfl

end GoaktVerif.C30

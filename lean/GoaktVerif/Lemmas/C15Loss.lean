import GoaktVerif.Lemmas.C15Final

/-
C15 — `Mode.fixed`, the no-loss clause: definitions and the bookkeeping of request ids.

On top of `FInv` (ownership of contexts and channels) the invariant `NInv` records, with request ids:
* every id occurs once among the operations in progress and still to come (`allIds` has no duplicates);
* a request that is not built yet has no `respDone` in the log;
* a pending context (in the mailbox or held by the worker) carries an id that is built, not yet responded, and the
  (only) caller waiting for that id waits on that context; pending contexts carry distinct ids;
* a caller at its select: if `Response` for its request has returned, its reply sits in its channel; otherwise its
  context is pending and still points to its channel.
-/
set_option linter.unusedSimpArgs false
set_option linter.unusedVariables false

namespace GoaktVerif.C15
open GoaktVerif.Model.C15

def askId : Op → Option ReqId
  | .ask k => some k
  | .handle => none

def curIds (t : Thread) : List ReqId := match t.cur with | some (.ask k) => [k] | _ => []
def progIds (t : Thread) : List ReqId := t.prog.filterMap askId
def ids (t : Thread) : List ReqId := curIds t ++ progIds t
/-- ids of requests that are not built yet -/
def ub (t : Thread) : List ReqId := progIds t ++ (match t.pc with | some (.askBuild _ k) => [k] | _ => [])
/-- the context the worker holds -/
def hd (t : Thread) : List CtxId := match t.pc with | some (.hCas i _) => [i] | some (.hSend i _) => [i] | _ => []
/-- what a caller at its select waits on -/
def sl (t : Thread) : List (CtxId × ChanId × ReqId) := match t.pc with | some (.askSelect i ch k) => [(i, ch, k)] | _ => []

def allIds (c : Cfg) : List ReqId := c.threads.flatMap ids
def unbuilt (c : Cfg) : List ReqId := c.threads.flatMap ub
def pending (c : Cfg) : List CtxId := c.mbox ++ c.threads.flatMap hd
def waiting (c : Cfg) : List (CtxId × ChanId × ReqId) := c.threads.flatMap sl

def rd (c : Cfg) (k : ReqId) : Prop := Ev.respDone k ∈ c.log

/-- on a log (latest first): no Ask timed out after `Response` for it had already returned -/
def noLossLog : List Ev → Bool
  | [] => true
  | .timedOut k :: earlier => !earlier.contains (.respDone k) && noLossLog earlier
  | _ :: earlier => noLossLog earlier

structure NInv (c : Cfg) : Prop where
  ids : (allIds c).Nodup
  noloss : noLossLog c.log = true
  unb : ∀ k, k ∈ unbuilt c → ¬ rd c k
  pend : ∀ j k, j ∈ pending c → (ctxOf c j).msg = some k →
    ¬ rd c k ∧ k ∉ unbuilt c ∧ ∀ i ch, (i, ch, k) ∈ waiting c → i = j
  sel : ∀ i ch k, (i, ch, k) ∈ waiting c →
    (rd c k → chanOf c ch = some k) ∧
    (¬ rd c k → (ctxOf c i).response = some ch ∧ (ctxOf c i).msg = some k ∧ i ∈ pending c)
  dist : ∀ j1 j2 k, j1 ∈ pending c → j2 ∈ pending c → (ctxOf c j1).msg = some k → (ctxOf c j2).msg = some k → j1 = j2

/-! ### membership in a `flatMap` over the thread list after one record was replaced -/

theorem mem_flatMap_set {β} (l : List Thread) (tid : Nat) (t t' : Thread) (f : Thread → List β) (x : β)
    (ht : l[tid]? = some t) :
    x ∈ (l.set tid t').flatMap f ↔ x ∈ f t' ∨ ∃ (j : Nat) (tj : Thread), j ≠ tid ∧ l[j]? = some tj ∧ x ∈ f tj := by
  have hlt : tid < l.length := (List.getElem?_eq_some_iff.mp ht).1
  constructor
  · intro h
    obtain ⟨tj, hm, hx⟩ := List.mem_flatMap.mp h
    obtain ⟨j, hj, he⟩ := List.mem_iff_getElem.mp hm
    have hj' : j < l.length := by simpa using hj
    by_cases e : j = tid
    · subst e
      simp at he
      subst he
      exact Or.inl hx
    · right
      refine ⟨j, tj, e, ?_, hx⟩
      have : (l.set tid t')[j] = l[j] := by
        rw [List.getElem_set]
        simp [show ¬ tid = j from fun h => e h.symm]
      rw [List.getElem?_eq_getElem hj', ← this, he]
  · intro h
    apply List.mem_flatMap.mpr
    rcases h with h | ⟨j, tj, hne, hj, hx⟩
    · exact ⟨t', List.mem_iff_getElem.mpr ⟨tid, by simpa using hlt, by simp⟩, h⟩
    · refine ⟨tj, ?_, hx⟩
      obtain ⟨hjl, he⟩ := List.getElem?_eq_some_iff.mp hj
      refine List.mem_iff_getElem.mpr ⟨j, by simpa using hjl, ?_⟩
      rw [List.getElem_set]
      simp [show ¬ tid = j from fun h => hne h.symm, he]

theorem mem_flatMap_get {β} (l : List Thread) (f : Thread → List β) (x : β) :
    x ∈ l.flatMap f ↔ ∃ (j : Nat) (tj : Thread), l[j]? = some tj ∧ x ∈ f tj := by
  constructor
  · intro h
    obtain ⟨tj, hm, hx⟩ := List.mem_flatMap.mp h
    obtain ⟨j, hj, he⟩ := List.mem_iff_getElem.mp hm
    exact ⟨j, tj, by rw [List.getElem?_eq_getElem hj, he], hx⟩
  · intro ⟨j, tj, hj, hx⟩
    exact List.mem_flatMap.mpr ⟨tj, List.mem_of_getElem? hj, hx⟩

/-- replacing one record by one with fewer ids keeps the ids distinct -/
theorem nodup_flatMap_set (l : List Thread) (tid : Nat) (t t' : Thread) (f : Thread → List ReqId)
    (ht : l[tid]? = some t) (hs : (f t').Sublist (f t)) (h : (l.flatMap f).Nodup) : ((l.set tid t').flatMap f).Nodup := by
  have hlt : tid < l.length := (List.getElem?_eq_some_iff.mp ht).1
  have e : l = l.take tid ++ t :: l.drop (tid + 1) := by
    have := List.getElem?_eq_some_iff.mp ht
    rw [← this.2]
    simp
  have e' : l.set tid t' = l.take tid ++ t' :: l.drop (tid + 1) := by
    rw [List.set_eq_take_append_cons_drop]
    simp [hlt]
  rw [e']
  rw [e] at h
  simp only [List.flatMap_append, List.flatMap_cons] at h ⊢
  exact List.Sublist.nodup (List.Sublist.append (List.Sublist.refl _) (List.Sublist.append hs (List.Sublist.refl _))) h

theorem nodup_flatMap_disjoint_lt {β} (f : Thread → List β) : ∀ (l : List Thread), (l.flatMap f).Nodup →
    ∀ (j1 j2 : Nat) t1 t2 x, j1 < j2 → l[j1]? = some t1 → l[j2]? = some t2 → x ∈ f t1 → x ∈ f t2 → False
  | [], _, j1, j2, t1, t2, x, _, h1, _, _, _ => by simp at h1
  | a :: l, h, j1, j2, t1, t2, x, hlt, h1, h2, hx1, hx2 => by
    simp only [List.flatMap_cons] at h
    have hd := List.nodup_append.mp h
    cases j2 with
    | zero => exact absurd hlt (Nat.not_lt_zero _)
    | succ j2' =>
      simp only [List.getElem?_cons_succ] at h2
      cases j1 with
      | zero =>
        simp only [List.getElem?_cons_zero, Option.some.injEq] at h1
        subst h1
        have : x ∈ l.flatMap f := List.mem_flatMap.mpr ⟨t2, List.mem_of_getElem? h2, hx2⟩
        exact hd.2.2 x hx1 x this rfl
      | succ j1' =>
        simp only [List.getElem?_cons_succ] at h1
        exact nodup_flatMap_disjoint_lt f l hd.2.1 j1' j2' t1 t2 x (Nat.lt_of_succ_lt_succ hlt) h1 h2 hx1 hx2

theorem nodup_flatMap_disjoint {β} (f : Thread → List β) (l : List Thread) (h : (l.flatMap f).Nodup)
    (j1 j2 : Nat) (t1 t2 : Thread) (x : β) (hne : j1 ≠ j2) (h1 : l[j1]? = some t1) (h2 : l[j2]? = some t2)
    (hx1 : x ∈ f t1) (hx2 : x ∈ f t2) : False := by
  rcases Nat.lt_or_gt_of_ne hne with hlt | hlt
  · exact nodup_flatMap_disjoint_lt f l h j1 j2 t1 t2 x hlt h1 h2 hx1 hx2
  · exact nodup_flatMap_disjoint_lt f l h j2 j1 t2 t1 x hlt h2 h1 hx2 hx1

end GoaktVerif.C15

/-
C11 — every spawn operation (full, begin, end, concurrent group) preserves the invariant and only hands
out running actors.
-/
import GoaktVerif.Lemmas.C11End

namespace GoaktVerif.C11
open GoaktVerif.Model.C11

/-- the (process, running-flag) pairs a caller received in an output -/
def outPids : Out → List (ProcId × Bool)
  | .pid p r => [(p, r)]
  | .group rs => rs.filterMap fun o => match o with | .pid p r => some (p, r) | _ => none
  | _ => []

/-- every PID handed out is flagged running and runs in state `s` -/
def OutOK (s : St) (o : Out) : Prop := ∀ q b, (q, b) ∈ outPids o → b = true ∧ phaseOf s q = .running

def Keeps (s s' : St) : Prop := ∀ q, phaseOf s q = .running → phaseOf s' q = .running

theorem keeps_refl (s : St) : Keeps s s := fun _ h => h
theorem keeps_trans {a b c : St} (h1 : Keeps a b) (h2 : Keeps b c) : Keeps a c := fun q h => h2 q (h1 q h)

theorem keeps_addProc (s : St) (path : Path) (kind : Kind) : Keeps s (addProc s path kind) := by
  intro q hq
  rw [phaseOf_addProc]
  have : q ≠ s.procs.length := Nat.ne_of_lt (lt_of_phase_ne_stopped (by rw [hq]; exact fun x => nomatch x))
  rw [if_neg this]; exact hq

theorem mem_flights_addProc (s : St) (path : Path) (kind : Kind) :
    (path, s.procs.length, kind) ∈ (addProc s path kind).flights := List.mem_cons_self

theorem begin_cases {s : St} (h : Inv s) (r : Req) (hopen : flightOpen s r.path = false) :
    (∃ o, spawnBegin s r = (s, .done o) ∧ OutOK s o) ∨
    (spawnBegin s r = (addProc s r.path r.kind, .held s.procs.length) ∧ Inv (addProc s r.path r.kind)) := by
  have okErr : ∀ m, OutOK s (.err m) := fun m q b hm => by cases hm
  have okBad : OutOK s .badOp := fun q b hm => by cases hm
  have okPid : ∀ q, isRunning s q = true → OutOK s (.pid q true) := by
    intro q hq q' b hm
    simp only [outPids, List.mem_singleton] at hm
    injection hm with e1 e2; subst e1; subst e2
    exact ⟨rfl, by simpa [isRunning] using hq⟩
  unfold spawnBegin
  cases hk : r.kind with
  | child =>
    simp only []
    split
    · rename_i parent x hpath
      split
      · exact Or.inl ⟨_, rfl, okErr _⟩
      · rename_i pp hpp
        split
        · exact Or.inl ⟨_, rfl, okErr _⟩
        · have hfree_or : ∀ q, lookup s.tree r.path = some q → isRunning s q = true := by
            intro q hq
            have := (h.treeRun _ _ (lookup_mem hq)).1
            simp [isRunning, this]
          have hchild : r.kind = .child → ∃ par x, r.path = [par, x] ∧ (lookup s.tree [par]).isSome = true :=
            fun _ => ⟨parent, x, hpath, by rw [hpp]; rfl⟩
          split
          · rename_i q hq
            rw [if_pos (hfree_or q hq)]
            exact Or.inl ⟨_, rfl, okPid q (hfree_or q hq)⟩
          · rename_i hnone
            rw [← hk]
            exact Or.inr ⟨rfl, inv_addProc h r.path r.kind hopen hnone hchild⟩
    · exact Or.inl ⟨_, rfl, okBad⟩
  | spawn =>
    simp only []
    split
    · rename_i name hpath
      split
      · rename_i q hq
        have hr : isRunning s q = true := by simp [isRunning, h.namesRun _ _ hq]
        rw [if_pos hr]
        exact Or.inl ⟨_, rfl, okPid q hr⟩
      · rename_i hnone
        have hfree : lookup s.tree r.path = none := by
          cases hl : lookup s.tree r.path with
          | none => rfl
          | some q =>
            obtain ⟨q', hq'⟩ := h.treeNames _ _ hl
            rw [hpath] at hq'
            simp only [lastName, List.getLast?_singleton, Option.getD_some] at hq'
            rw [hnone] at hq'; cases hq'
        rw [← hk]
        exact Or.inr ⟨rfl, inv_addProc h r.path r.kind hopen hfree (fun e => by rw [hk] at e; cases e)⟩
    · exact Or.inl ⟨_, rfl, okBad⟩
  | func =>
    simp only []
    split
    · rename_i name hpath
      split
      · rename_i q hq
        have hr : isRunning s q = true := by simp [isRunning, h.namesRun _ _ hq]
        rw [if_pos hr]
        exact Or.inl ⟨_, rfl, okPid q hr⟩
      · rename_i hnone
        have hfree : lookup s.tree r.path = none := by
          cases hl : lookup s.tree r.path with
          | none => rfl
          | some q =>
            obtain ⟨q', hq'⟩ := h.treeNames _ _ hl
            rw [hpath] at hq'
            simp only [lastName, List.getLast?_singleton, Option.getD_some] at hq'
            rw [hnone] at hq'; cases hq'
        rw [← hk]
        exact Or.inr ⟨rfl, inv_addProc h r.path r.kind hopen hfree (fun e => by rw [hk] at e; cases e)⟩
    · exact Or.inl ⟨_, rfl, okBad⟩

theorem okPid_end {s : St} {p : ProcId} (hp : phaseOf s p = .running) : OutOK s (.pid p true) := by
  intro q b hm
  simp only [outPids, List.mem_singleton] at hm
  injection hm with e1 e2; subst e1; subst e2
  exact ⟨rfl, hp⟩

theorem full_ok {s : St} (h : Inv s) (r : Req) :
    Inv (fullSpawn s r).1 ∧ OutOK (fullSpawn s r).1 (fullSpawn s r).2 ∧ Keeps s (fullSpawn s r).1 := by
  unfold fullSpawn
  cases hopen : flightOpen s r.path with
  | true =>
    simp only [if_true]
    exact ⟨h, fun q b hm => by simp [outPids] at hm, keeps_refl s⟩
  | false =>
    simp only [Bool.false_eq_true, if_false]
    rcases begin_cases h r hopen with ⟨o, e, ok⟩ | ⟨e, hinv⟩
    · rw [e]; exact ⟨h, ok, keeps_refl s⟩
    · rw [e]
      simp only []
      obtain ⟨a, b, c, d⟩ := inv_end hinv r.path s.procs.length r.kind (mem_flights_addProc s r.path r.kind)
      refine ⟨a, ?_, keeps_trans (keeps_addProc s r.path r.kind) d⟩
      rw [b]; exact okPid_end c

theorem okOf_keeps {s s' : St} {o : Out} (h : OutOK s o) (k : Keeps s s') : OutOK s' o :=
  fun q b hm => ⟨(h q b hm).1, k q (h q b hm).2⟩

end GoaktVerif.C11

import GoaktVerif.Lemmas.C15LossBuild

/-
C15 — `Mode.fixed`, the no-loss clause: the send step, every action, the initial configuration.
-/
set_option linter.unusedSimpArgs false
set_option linter.unusedVariables false

namespace GoaktVerif.C15
open GoaktVerif.Model.C15

theorem ninv_send_done {c : Cfg} {own : ChanId → ReqId} {tid : Nat} {t : Thread} {i' : CtxId} {k' : ReqId} {ch' : ChanId}
    (hf : FInv c own) (n : NInv c) (ht : c.threads[tid]? = some t) (hpc : t.pc = some (.hSend i' k'))
    (hcur : t.cur = some .handle) (hp : Pending c own i' true ch' k') (hchlt : ch' < c.chans.length) (r : Res) :
    NInv (upd { setChan c ch' (some k') with log := Ev.respDone k' :: (setChan c ch' (some k')).log } tid (done t .handle r)) := by
  let ca : Cfg := { setChan c ch' (some k') with log := Ev.respDone k' :: (setChan c ch' (some k')).log }
  let tI := done t .handle r
  have e_thr : ca.threads = c.threads := rfl
  have hca : ∀ x, chanOf ca x = if x = ch' then some k' else chanOf c x := by
    intro x
    show chanOf (setChan c ch' (some k')) x = _
    by_cases hx : x = ch'
    · subst hx; rw [chanOf_setChan_self _ _ _ hchlt]; simp
    · rw [chanOf_setChan_ne _ _ _ _ hx]; simp [hx]
  have rd_eq : ∀ x, rd (upd ca tid tI) x ↔ (x = k' ∨ rd c x) := by
    intro x
    show Ev.respDone x ∈ Ev.respDone k' :: c.log ↔ _
    simp [rd]
  have hi'_pend : i' ∈ pending c := (pending_self ht i').mpr (Or.inr (Or.inl (by simp [hd, hpc])))
  have hmsg : (ctxOf c i').msg = some k' := by rw [hp.1]
  have hresp : (ctxOf c i').response = some ch' := by rw [hp.1]
  obtain ⟨k'_nrd, k'_nunb, k'_link⟩ := n.pend i' k' hi'_pend hmsg
  obtain ⟨_, l2, l3, l4⟩ := done_lists t .handle r
  have hun : ∀ x, x ∈ unbuilt (upd ca tid tI) → x ∈ unbuilt c := by
    intro x hx
    rcases (mem_unbuilt_upd e_thr ht x).mp hx with h1 | h1
    · exact self_unbuilt ht (l2 x h1)
    · exact others_unbuilt h1
  have hwa : ∀ x, x ∈ waiting (upd ca tid tI) → x ∈ waiting c := by
    intro x hx
    rcases (mem_waiting_upd e_thr ht x).mp hx with h1 | h1
    · rw [l3] at h1; cases h1
    · exact others_waiting h1
  have hpe : ∀ j, j ∈ pending (upd ca tid tI) ↔ j ∈ c.mbox := by
    intro j
    rw [pending_upd e_thr ht, l4]
    constructor
    · rintro (h | h | h)
      · exact h
      · cases h
      · exact absurd h (others_hold_nothing hf ht hcur)
    · intro h; exact Or.inl h
  have mbox_pend : ∀ j, j ∈ c.mbox → j ∈ pending c := fun j hj => List.mem_append_left _ hj
  have hi'_sent : i' = c.sentinel := (hd_worker hf ht i' (by simp [hd, hpc])).1
  have mbox_ne : ∀ j, j ∈ c.mbox → j ≠ i' := by
    intro j hj e
    subst e
    have hnd := hf.g.lin
    rw [← hi'_sent] at hnd
    simp only [List.nodup_append, List.mem_append, List.mem_singleton, List.nodup_cons, List.not_mem_nil,
      List.nodup_nil] at hnd
    grind
  refine ⟨?_, ?_, ?_, ?_, ?_, ?_⟩
  · show ((ca.threads.set tid tI).flatMap ids).Nodup
    exact nodup_flatMap_set c.threads tid t tI ids ht (List.Sublist.refl _) n.ids
  · show noLossLog (Ev.respDone k' :: c.log) = true
    simp only [noLossLog]; exact n.noloss
  · intro x hx hr
    have hx' := hun x hx
    rcases (rd_eq x).mp hr with e | e
    · exact k'_nunb (e ▸ hx')
    · exact n.unb x hx' e
  · intro j x hj hm
    have hjm := (hpe j).mp hj
    have hm' : (ctxOf c j).msg = some x := hm
    obtain ⟨p1, p2, p3⟩ := n.pend j x (mbox_pend j hjm) hm'
    refine ⟨?_, fun hu => p2 (hun _ hu), fun i ch hw => p3 i ch (hwa _ hw)⟩
    intro hr
    rcases (rd_eq x).mp hr with e | e
    · subst e
      exact mbox_ne j hjm (n.dist j i' _ (mbox_pend j hjm) hi'_pend hm' hmsg)
    · exact p1 e
  · intro i ch k hw
    have hw' := hwa _ hw
    obtain ⟨s1, s2⟩ := n.sel i ch k hw'
    refine ⟨fun hr => ?_, fun hr => ?_⟩
    · show chanOf ca ch = some k
      rw [hca]
      by_cases hold : rd c k
      · have := s1 hold
        have hne : ch ≠ ch' := by intro e; subst e; rw [hp.2.2.1] at this; cases this
        simp [hne, this]
      · obtain ⟨q1, q2, q3⟩ := s2 hold
        have hk : k = k' := by
          rcases (rd_eq k).mp hr with e | e
          · exact e
          · exact absurd e hold
        subst hk
        have : i = i' := n.dist i i' _ q3 hi'_pend q2 hmsg
        subst this
        rw [hresp] at q1
        cases q1
        simp
    · have hnk : k ≠ k' := fun e => hr ((rd_eq k).mpr (Or.inl e))
      have hold : ¬ rd c k := fun e => hr ((rd_eq k).mpr (Or.inr e))
      obtain ⟨q1, q2, q3⟩ := s2 hold
      refine ⟨q1, q2, (hpe i).mpr ?_⟩
      rcases pending_place hf q3 with h | h
      · exact h
      · exfalso
        have : i = i' := by rw [h, hi'_sent]
        subst this
        rw [hmsg] at q2
        exact hnk (by cases q2; rfl)
  · intro j1 j2 x h1 h2 m1 m2
    exact n.dist j1 j2 x (mbox_pend j1 ((hpe j1).mp h1)) (mbox_pend j2 ((hpe j2).mp h2)) m1 m2

/-! ### finishing, and the concrete steps -/

theorem ninv_finish {ca : Cfg} {tid : Nat} {t : Thread} {op : Op} {r : Res}
    (hc : t.cur = some op) (n : NInv (upd ca tid (done t op r))) (hlt : tid < ca.threads.length) :
    NInv (upd (finishOp ca t r).1 tid (finishOp ca t r).2) := by
  rw [finish_eq ca tid t op r hc]
  apply ninv_start n
  · simp [upd, hlt]
  · rfl

/-- the record of a thread that has completed an operation fits the frame lemma (no heap change but `c1`) -/
theorem ninv_done_frame {c c1 : Cfg} {tid : Nat} {t : Thread} {op : Op} {r : Res}
    (n : NInv c) (ht : c.threads[tid]? = some t) (hth : c1.threads = c.threads) (hhd : hd t = [])
    (hmb : c1.mbox = c.mbox)
    (h_log : ∀ k, Ev.respDone k ∈ c1.log ↔ Ev.respDone k ∈ c.log) (h_noloss : noLossLog c1.log = true)
    (h_ctx : ∀ j, ctxOf c1 j = ctxOf c j)
    (h_chan : ∀ i ch k, (i, ch, k) ∈ waiting (upd c1 tid (done t op r)) → chanOf c1 ch = chanOf c ch) :
    NInv (upd c1 tid (done t op r)) := by
  obtain ⟨l1, l2, l3, l4⟩ := done_lists t op r
  exact ninv_frame n ht hth (by rw [l1]; exact List.Sublist.refl _) l2 (by intro x hx; rw [l3] at hx; cases hx) h_log h_noloss
    (pending_upd_same hth ht hmb (by rw [l4, hhd])) (fun j _ => by rw [h_ctx j]; exact ⟨rfl, rfl⟩) h_chan

theorem ninv_step {c : Cfg} {own : ChanId → ReqId} (hf : FInv c own) (n : NInv c) (tid : Nat) : NInv (step c tid) := by
  cases ht : c.threads[tid]? with
  | none => simpa [step, ht] using n
  | some t =>
    have hlt : tid < c.threads.length := (List.getElem?_eq_some_iff.mp ht).1
    have hm := hf.g.mode
    have hok := hf.thr tid t ht
    cases hpc : t.pc with
    | none => simpa [step, ht, hpc] using n
    | some pc =>
      rw [step_eq c tid t pc ht hpc]
      have hT := hok.1
      cases pc with
      | askClose i ch r => simp [ThreadOk, hpc] at hT
      | askBuild i k =>
        simp only [ThreadOk, hpc] at hT
        obtain ⟨_, hi_lt, _, _, _⟩ := hT
        have two : ∀ (ch : ChanId) (j : CtxId),
            ((c.ctxs.modify i (fun x => { x with closed := false })).modify i
              (fun x => { x with response := some ch, msg := some k })).getD j { closed := false, response := none, msg := none } =
            if j = i then { closed := false, response := some ch, msg := some k } else ctxOf c j := by
          intro ch j
          by_cases hji : j = i
          · subst hji
            simp [List.getD_eq_getElem?_getD, List.getElem?_modify, hi_lt]
          · have : ¬ i = j := fun e => hji e.symm
            simp [ctxOf, List.getD_eq_getElem?_getD, List.getElem?_modify, this, hji]
        cases hpool : c.chanPool with
        | nil =>
          have hg := getChan_fixed_nil (modCtx c i (fun x => { x with closed := false })) hm hpool
          simp only [exec, hg]
          apply ninv_build_abs hf n ht hpc
          case e_thr => rfl
          case e_mbox => rfl
          case e_log => rfl
          case e_ctx_i =>
            show (List.getD _ i _) = _
            have := two c.chans.length i
            simpa [modCtx] using this
          case e_ctx =>
            intro j hj
            show (List.getD _ j _) = _
            have := two c.chans.length j
            simpa [modCtx, hj] using this
          case e_chan => intro x; exact chanOf_allocChan c x
        | cons ch rest =>
          have hg := getChan_fixed_cons (modCtx c i (fun x => { x with closed := false })) ch rest hm hpool
          simp only [exec, hg]
          apply ninv_build_abs hf n ht hpc
          case e_thr => rfl
          case e_mbox => rfl
          case e_log => rfl
          case e_ctx_i =>
            show (List.getD _ i _) = _
            have := two ch i
            simpa [modCtx] using this
          case e_ctx =>
            intro j hj
            show (List.getD _ j _) = _
            have := two ch j
            simpa [modCtx, hj] using this
          case e_chan => intro x; rfl
      | askSelect i ch k =>
        simp only [ThreadOk, hpc] at hT
        obtain ⟨hcur, hown, hchlt, hchpool⟩ := hT
        have hhd : hd t = [] := by simp [hd, hpc]
        have hself : (i, ch, k) ∈ waiting c := self_waiting ht (by simp [sl, hpc])
        simp only [exec]
        cases hv : chanOf c ch with
        | some v =>
          simp only [afterSelect_fixed _ t i ch _ (show (setChan c ch none).mode = .fixed from hm),
            close_fixed_reply _ t i ch v (show (setChan c ch none).mode = .fixed from hm)]
          apply ninv_finish hcur _ (by simpa [setChan] using hlt)
          apply ninv_done_frame (c1 := { setChan (setChan c ch none) ch none with chanPool := (setChan c ch none).chanPool ++ [ch] })
            n ht rfl hhd rfl (fun _ => Iff.rfl) n.noloss (fun _ => rfl)
          intro i2 ch2 k2 hw
          -- only other threads wait; their channel is not `ch`
          have e_thr : ({ setChan (setChan c ch none) ch none with chanPool := (setChan c ch none).chanPool ++ [ch] } : Cfg).threads = c.threads := rfl
          rcases (mem_waiting_upd e_thr ht (i2, ch2, k2)).mp hw with h1 | ⟨j, tj, hne, hj, hx⟩
          · simp [sl, done] at h1
          · have hpcj := (sl_ids hf hj _ _ _ hx).2
            have hne' : ch2 ≠ ch := by
              intro e; subst e
              exact hf.sel_dist j tid tj t ch2 hne hj ht (by simp [selChan, hpcj]) (by simp [selChan, hpc])
            show chanOf (setChan (setChan c ch none) ch none) ch2 = chanOf c ch2
            rw [chanOf_setChan_ne _ _ _ _ hne', chanOf_setChan_ne _ _ _ _ hne']
        | none =>
          simp only
          split
          · simp only [afterSelect_fixed _ t i ch _ (show ({ c with log := Ev.timedOut k :: c.log } : Cfg).mode = .fixed from hm),
              close_fixed_timeout _ t i ch (show ({ c with log := Ev.timedOut k :: c.log } : Cfg).mode = .fixed from hm)]
            apply ninv_finish (ca := { c with log := Ev.timedOut k :: c.log }) hcur _ hlt
            have hnrd : ¬ rd c k := by
              intro hr
              have := (n.sel i ch k hself).1 hr
              rw [hv] at this; cases this
            apply ninv_done_frame (c1 := { c with log := Ev.timedOut k :: c.log }) n ht rfl hhd rfl
              (fun x => rd_cons_timedOut c x k) ?_ (fun _ => rfl) (fun _ _ _ _ => rfl)
            show noLossLog (Ev.timedOut k :: c.log) = true
            simp only [noLossLog, Bool.and_eq_true, Bool.not_eq_true']
            refine ⟨?_, n.noloss⟩
            cases hcn : c.log.contains (Ev.respDone k) with
            | false => rfl
            | true => exact absurd (List.contains_iff_mem.mp hcn) hnrd
          · rw [upd_self c tid t ht]; exact n
      | hDeq =>
        have hcur : t.cur = some .handle := by simpa [ThreadOk, hpc] using hT
        have hhd : hd t = [] := by simp [hd, hpc]
        simp only [exec]
        cases hmb : c.mbox with
        | nil =>
          simp only
          apply ninv_finish (ca := c) hcur _ hlt
          exact ninv_done_frame (c1 := c) n ht rfl hhd rfl (fun _ => Iff.rfl) n.noloss (fun _ => rfl) (fun _ _ _ _ => rfl)
        | cons i rest =>
          have hi_mem : i ∈ c.mbox := by rw [hmb]; simp
          obtain ⟨ch, k, hp⟩ := hf.g.mbox_ok i hi_mem
          have hmsg : (ctxOf c i).msg = some k := by rw [hp.1]
          simp only [hmsg]
          have hnd := hf.g.lin
          rw [hmb] at hnd
          have hs_notin : c.sentinel ∉ i :: rest := by
            simp only [List.nodup_append, List.mem_append, List.mem_singleton, List.nodup_cons, List.not_mem_nil,
              List.nodup_nil, List.mem_cons] at hnd ⊢
            grind
          let c2 : Cfg := { modCtx c c.sentinel (fun x => { x with response := none, msg := none }) with
            ctxPool := c.ctxPool ++ [c.sentinel], sentinel := i, mbox := rest }
          let t' : Thread := { t with pc := some (.hCas i k) }
          have hpe : ∀ j, j ∈ pending (upd c2 tid t') ↔ j ∈ pending c := by
            intro j
            rw [pending_upd (c1 := c2) rfl ht, pending_self ht, hhd, hmb]
            have : hd t' = [i] := by simp [hd, t']
            rw [this]
            show j ∈ rest ∨ j ∈ [i] ∨ _ ↔ j ∈ i :: rest ∨ j ∈ [] ∨ _
            simp only [List.mem_cons, List.mem_singleton, List.not_mem_nil, false_or, or_false]
            constructor
            · rintro (h | h | h)
              · exact Or.inl (Or.inr h)
              · exact Or.inl (Or.inl h)
              · exact Or.inr h
            · rintro ((h | h) | h)
              · exact Or.inr (Or.inl h)
              · exact Or.inl h
              · exact Or.inr (Or.inr h)
          apply ninv_frame (c1 := c2) (t' := t') n ht rfl (List.Sublist.refl _)
            (by intro x hx; have e : progIds t' = progIds t := rfl; simp only [ub, t', hpc, e, List.append_nil] at hx ⊢; exact hx) (by intro x hx; simp [sl, t'] at hx)
            (fun _ => Iff.rfl) n.noloss hpe
          · intro j hj
            have hjs : j ≠ c.sentinel := by
              rcases (pending_self ht j).mp hj with h | h | h
              · intro e; subst e; exact hs_notin (hmb ▸ h)
              · rw [hhd] at h; cases h
              · exact absurd h (others_hold_nothing hf ht hcur)
            have : ctxOf c2 j = ctxOf c j := ctxOf_modCtx_ne c c.sentinel j _ hjs
            rw [this]; exact ⟨rfl, rfl⟩
          · intro _ _ _ _; rfl
      | hCas i k =>
        obtain ⟨hcur, hsent, ch, hp, _⟩ := (by simpa [ThreadOk, hpc] using hT :
          t.cur = some .handle ∧ i = c.sentinel ∧ ∃ ch, Pending c own i false ch k ∧ ∀ j ∈ c.mbox, (ctxOf c j).response ≠ some ch)
        have hcl : (ctxOf c i).closed = false := by rw [hp.1]
        simp only [exec, hcl, Bool.false_eq_true, if_false]
        have hilt : i < c.ctxs.length := hsent ▸ hf.g.b_sent
        let t' : Thread := { t with pc := some (.hSend i k) }
        apply ninv_frame (c1 := modCtx c i (fun x => { x with closed := true })) (t' := t') n ht rfl (List.Sublist.refl _)
          (by intro x hx; have e : progIds t' = progIds t := rfl; simp only [ub, t', hpc, e, List.append_nil] at hx ⊢; exact hx) (by intro x hx; simp [sl, t'] at hx)
          (fun _ => Iff.rfl) n.noloss
          (pending_upd_same rfl ht rfl (by simp [hd, t', hpc]))
        · intro j _
          by_cases hji : j = i
          · subst hji
            rw [ctxOf_modCtx_self c j _ hilt]; exact ⟨rfl, rfl⟩
          · rw [ctxOf_modCtx_ne c i j _ hji]; exact ⟨rfl, rfl⟩
        · intro _ _ _ _; rfl
      | hSend i k =>
        obtain ⟨hcur, hsent, ch, hp, _⟩ := (by simpa [ThreadOk, hpc] using hT :
          t.cur = some .handle ∧ i = c.sentinel ∧ ∃ ch, Pending c own i true ch k ∧ ∀ j ∈ c.mbox, (ctxOf c j).response ≠ some ch)
        have hresp : (ctxOf c i).response = some ch := by rw [hp.1]
        have hchlt : ch < c.chans.length := hf.g.b_resp i ch hresp
        simp only [exec, hresp, hp.2.2.1, Option.isNone_none, if_true]
        apply ninv_finish (ca := { setChan c ch (some k) with log := Ev.respDone k :: (setChan c ch (some k)).log }) hcur _
          (by simpa [setChan] using hlt)
        exact ninv_send_done hf n ht hpc hcur hp hchlt _

theorem ninv_timeout {c : Cfg} (n : NInv c) (tid : Nat) : NInv (timeout c tid) := by
  unfold timeout
  cases ht : c.threads[tid]? with
  | none => exact n
  | some t =>
    simp only
    have key : NInv (upd c tid { t with deadline := true }) :=
      ninv_frame (c1 := c) (t' := { t with deadline := true }) n ht rfl (List.Sublist.refl _) (fun _ h => h) (fun _ h => h)
        (fun _ => Iff.rfl) n.noloss (pending_upd_same rfl ht rfl rfl) (fun _ _ => ⟨rfl, rfl⟩) (fun _ _ _ _ => rfl)
    split
    · exact key
    · exact key
    · exact n

/-! ### both invariants along every run -/

theorem ninv_act {c : Cfg} {own} (hf : FInv c own) (n : NInv c) (a : Act) : NInv (act c a) := by
  cases a with
  | run tid => exact ninv_step hf n tid
  | timeout tid => exact ninv_timeout n tid

theorem both_runActs (acts : List Act) : ∀ (c : Cfg) (own : ChanId → ReqId), FInv c own → NInv c →
    ∃ own1, FInv (runActs c acts) own1 ∧ NInv (runActs c acts) := by
  induction acts with
  | nil => intro c own h n; exact ⟨own, h, n⟩
  | cons a acts ih =>
    intro c own h n
    obtain ⟨own1, h1⟩ := finv_act h a
    exact ih _ own1 h1 (ninv_act h n a)

/-! ### initial configuration -/

/-- while the threads are being spawned: nothing logged, nothing enqueued, nobody past its first site -/
structure SpawnOk (c : Cfg) : Prop where
  log : c.log = []
  mbox : c.mbox = []
  quiet : ∀ (j : Nat) tj, c.threads[j]? = some tj → hd tj = [] ∧ sl tj = []
  ids : (allIds c).Nodup

theorem ninv_of_spawnOk {c : Cfg} (h : SpawnOk c) : NInv c := by
  have hpend : ∀ j, j ∉ pending c := by
    intro j hj
    rcases List.mem_append.mp hj with h1 | h1
    · rw [h.mbox] at h1; cases h1
    · obtain ⟨x, tx, hx, hm⟩ := (mem_flatMap_get c.threads hd j).mp h1
      rw [(h.quiet x tx hx).1] at hm; cases hm
  have hwait : ∀ x, x ∉ waiting c := by
    intro x hx
    obtain ⟨j, tj, hj, hm⟩ := (mem_flatMap_get c.threads sl x).mp hx
    rw [(h.quiet j tj hj).2] at hm; cases hm
  refine ⟨h.ids, by rw [h.log]; rfl, ?_, ?_, ?_, ?_⟩
  · intro k _ hr; simp [rd, h.log] at hr
  · intro j k hj; exact absurd hj (hpend j)
  · intro i ch k hw; exact absurd hw (hwait _)
  · intro j1 j2 k h1; exact absurd h1 (hpend j1)

theorem spawnOk_spawn (ps : List (List Op)) : ∀ (c : Cfg), SpawnOk c →
    (allIds c ++ ps.flatMap (·.filterMap askId)).Nodup → SpawnOk (spawn c ps) := by
  induction ps with
  | nil => intro c h _; exact h
  | cons p ps ih =>
    intro c h hnd
    rw [spawn_cons]
    obtain ⟨f1, f2, f3, f4, f5⟩ := startNext_frame c (idle p)
    obtain ⟨l1, l2, l3, l4⟩ := startNext_lists c (idle p) rfl
    have hids : ids (startNext c (idle p)).2 = p.filterMap askId := by
      unfold startNext
      cases p with
      | nil => rfl
      | cons op rest => cases op <;> rfl
    have hall : allIds ({ (startNext c (idle p)).1 with
        threads := (startNext c (idle p)).1.threads ++ [(startNext c (idle p)).2] } : Cfg) = allIds c ++ p.filterMap askId := by
      show ((startNext c (idle p)).1.threads ++ [(startNext c (idle p)).2]).flatMap ids = _
      rw [f1, List.flatMap_append]
      simp [allIds, hids]
    apply ih
    · refine ⟨by show (startNext c (idle p)).1.log = []; rw [f5]; exact h.log,
        by show (startNext c (idle p)).1.mbox = []; rw [f4]; exact h.mbox, ?_, ?_⟩
      · intro j tj hj
        have hj' : ((startNext c (idle p)).1.threads ++ [(startNext c (idle p)).2])[j]? = some tj := hj
        rw [f1, List.getElem?_append] at hj'
        split at hj'
        · exact h.quiet j tj hj'
        · have : tj = (startNext c (idle p)).2 := by
            cases hx : ([(startNext c (idle p)).2] : List Thread)[j - c.threads.length]? with
            | none => rw [hx] at hj'; cases hj'
            | some y =>
              rw [hx] at hj'; cases hj'
              have := List.mem_of_getElem? hx
              simpa using this
          subst this
          exact ⟨l4, l3⟩
      · rw [hall]
        simp only [List.flatMap_cons, ← List.append_assoc] at hnd
        exact (List.nodup_append.mp hnd).1
    · rw [hall]
      simpa [List.flatMap_cons, List.append_assoc] using hnd

theorem ninv_init (progs : List (List Op)) (h : (progs.flatMap (·.filterMap askId)).Nodup) : NInv (init .fixed progs) := by
  apply ninv_of_spawnOk
  apply spawnOk_spawn progs (empty .fixed)
  · exact ⟨rfl, rfl, by intro j tj hj; simp [empty] at hj, by simp [allIds, empty]⟩
  · simpa [allIds, empty] using h

end GoaktVerif.C15

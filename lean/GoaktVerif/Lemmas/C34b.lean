/-
C34 helper lemmas, part 2: histories.  `after pre` is the state reached by a history, `evAt pre op n`
what node `n` is reported to do by the call `op` made right after history `pre`.
-/
import GoaktVerif.Lemmas.C34

namespace GoaktVerif.C34
open GoaktVerif.Model.C34

theorem isLeftOf_iff (op : Op) (n : Node) : isLeftOf op n = true ↔ ∃ c, op = .left n c := by
  cases op <;> simp [isLeftOf]

theorem isStartLeft_iff (op : Op) (e : Epoch) : isStartLeft op e = true ↔ ∃ m, op = .start .left m e := by
  cases op <;> simp [isStartLeft]
  rename_i r m x
  cases r <;> simp

/-- events reported for node `n` by the call `op` issued after history `pre`
    (the op at 0-based position `pre.length` carries timestamp `pre.length + 1`) -/
def evAt (pre : List Op) (op : Op) (n : Node) : Ev := (step (after pre) (pre.length + 1) op).2 n

theorem runFrom_append (k : Nat) (s : St) (a b : List Op) :
    runFrom k s (a ++ b) =
      ((runFrom k s a).1 ++ (runFrom (k + a.length) (runFrom k s a).2 b).1,
       (runFrom (k + a.length) (runFrom k s a).2 b).2) := by
  induction a generalizing k s with
  | nil => simp [runFrom]
  | cons x xs ih =>
    simp only [List.cons_append, runFrom, ih, List.length_cons]
    have : k + 1 + xs.length = k + (xs.length + 1) := by omega
    rw [this]

theorem after_snoc (pre : List Op) (op : Op) :
    after (pre ++ [op]) = (step (after pre) (pre.length + 1) op).1 := by
  simp [after, run, runFrom_append, runFrom]

theorem after_append_cons (pre : List Op) (op : Op) (post : List Op) :
    after (pre ++ op :: post) =
      (runFrom (pre.length + 1) (step (after pre) (pre.length + 1) op).1 post).2 := by
  simp [after, run, runFrom_append, runFrom]

/-- the executable `run` reports exactly `evAt` at every position -/
theorem run_getElem (pre : List Op) (op : Op) (post : List Op) :
    (run (pre ++ op :: post)).1[pre.length]? = some (fun n => evAt pre op n) := by
  simp only [run, runFrom_append, runFrom]
  have hl : (runFrom 0 init pre).1.length = pre.length := by
    have : ∀ (k : Nat) (s : St) (h : List Op), (runFrom k s h).1.length = h.length := by
      intro k s h
      induction h generalizing k s with
      | nil => simp [runFrom]
      | cons x xs ih => simp [runFrom, ih]
    exact this _ _ _
  rw [List.getElem?_append_right (by omega)]
  simp [hl, evAt, after, run]

/-! ### invariants of reachable states -/

structure Inv (pre : List Op) (s : St) : Prop where
  linv : ∀ n, LInv (s.loc n)
  selfJoin : (s.loc self).joinTs = none
  selfLeft : (s.loc self).leftTs = none
  leftTs : ∀ n t, (s.loc n).leftTs = some t → 1 ≤ t ∧ t ≤ pre.length ∧ ∃ c, pre[t - 1]? = some (.left n c)
  complete : ∀ e, s.g.completeSeen e = true → Op.complete e ∈ pre
  latest : s.g.leftLatest ≠ 0 → ∃ m, Op.start .left m s.g.leftLatest ∈ pre
  leftEp : ∀ n e, (s.loc n).leftEp = some e → ∃ m, Op.start .left m e ∈ pre

theorem Inv_init : Inv [] init := by
  constructor <;> simp [init, Loc.init, Glob.init, LInv]

theorem Inv_step {pre : List Op} {s : St} (hi : Inv pre s) (op : Op) :
    Inv (pre ++ [op]) (step s (pre.length + 1) op).1 := by
  constructor
  · intro n; exact stepL_LInv _ _ _ _ _ _ (hi.linv n)
  · exact (stepL_self_join _ _ _ _ _ _ rfl hi.selfJoin).1
  · exact (stepL_self_left _ _ _ _ _ _ rfl hi.selfLeft).1
  · intro n t h
    rcases stepL_leftTs_prov _ _ _ _ _ _ t h with h | ⟨rfl, _, hop⟩
    · obtain ⟨h1, h2, c, h3⟩ := hi.leftTs n t h
      refine ⟨h1, by simp; omega, c, ?_⟩
      rw [List.getElem?_append_left (by omega)]; exact h3
    · obtain ⟨c, rfl⟩ := (isLeftOf_iff _ _).mp hop
      exact ⟨by omega, by simp, c, by simp⟩
  · intro e h
    rcases stepG_complete_prov _ _ e h with h | rfl
    · exact List.mem_append_left _ (hi.complete e h)
    · simp
  · intro h
    rcases stepG_leftLatest_prov _ _ h with h' | h'
    · simp only [step] at h ⊢
      rw [h'] at h ⊢
      obtain ⟨m, hm⟩ := hi.latest h
      exact ⟨m, List.mem_append_left _ hm⟩
    · obtain ⟨m, hm⟩ := (isStartLeft_iff _ _).mp h'
      exact ⟨m, by simp only [step]; rw [← hm]; simp⟩
  · intro n e h
    rcases stepL_leftEp_prov _ _ _ _ _ _ e h with h | ⟨rfl, h0, _, _⟩ | ⟨_, hop⟩
    · obtain ⟨m, hm⟩ := hi.leftEp n e h
      exact ⟨m, List.mem_append_left _ hm⟩
    · obtain ⟨m, hm⟩ := hi.latest h0
      exact ⟨m, List.mem_append_left _ hm⟩
    · obtain ⟨m, hm⟩ := (isStartLeft_iff _ _).mp hop
      exact ⟨m, by rw [← hm]; simp⟩

theorem Inv_runFrom {pre : List Op} {s : St} (hi : Inv pre s) (h : List Op) :
    Inv (pre ++ h) (runFrom pre.length s h).2 := by
  induction h generalizing pre s with
  | nil => simpa [runFrom] using hi
  | cons x xs ih =>
    have := ih (Inv_step hi x)
    simpa [runFrom, List.append_assoc] using this

theorem Inv_after (pre : List Op) : Inv pre (after pre) := by
  have := Inv_runFrom Inv_init pre
  simpa [after, run] using this

end GoaktVerif.C34

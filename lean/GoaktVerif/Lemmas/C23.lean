import GoaktVerif.Model.C23
/-
Helper lemmas for Props/C23: big-endian reads of big-endian writes, checked slices of
concatenations, and "in range ⇒ no panic" facts.
-/
namespace GoaktVerif.C23
open GoaktVerif.Model.C23

theorem be16_length (n : Nat) : (be16 n).length = 2 := rfl
theorem be32_length (n : Nat) : (be32 n).length = 4 := rfl
theorem be64_length (n : Nat) : (be64 n).length = 8 := rfl

/-! ### reads -/

theorem u16At_of_drop {d : Bytes} {pos n : Nat} {rest : Bytes} (h : d.drop pos = be16 n ++ rest) (hn : n < 2 ^ 16) :
    u16At d pos = .ok n := by
  simp only [u16At, h, be16, List.cons_append, List.nil_append, UInt8.toNat_ofNat']
  congr 1; omega

theorem u32At_of_drop {d : Bytes} {pos n : Nat} {rest : Bytes} (h : d.drop pos = be32 n ++ rest) (hn : n < 2 ^ 32) :
    u32At d pos = .ok n := by
  simp only [u32At, h, be32, List.cons_append, List.nil_append, UInt8.toNat_ofNat']
  congr 1; omega

theorem ofNat_congr {a b : Nat} (h : a % 256 = b % 256) : UInt8.ofNat a = UInt8.ofNat b := by
  apply UInt8.toNat_inj.mp
  simp only [UInt8.toNat_ofNat']
  omega

theorem be32_mod (n : Nat) : be32 (n % 2 ^ 32) = be32 n := by
  simp only [be32]
  congr 1
  · apply ofNat_congr; omega
  congr 1
  · apply ofNat_congr; omega
  congr 1
  · apply ofNat_congr; omega
  congr 1
  apply ofNat_congr; omega

theorem u64At_of_drop {d : Bytes} {pos n : Nat} {rest : Bytes} (h : d.drop pos = be64 n ++ rest) (hn : n < 2 ^ 64) :
    u64At d pos = .ok n := by
  have h1 : u32At d pos = .ok (n / 2 ^ 32) := by
    apply u32At_of_drop (rest := be32 n ++ rest)
    · rw [h, be64, List.append_assoc]
    · omega
  have h2 : u32At d (pos + 4) = .ok (n % 2 ^ 32) := by
    apply u32At_of_drop (rest := rest)
    · rw [← List.drop_drop, h, be64, List.append_assoc, List.drop_append_of_le_length (by simp [be32_length])]
      have : (be32 (n / 2 ^ 32)).drop 4 = [] := rfl
      simp only [this, List.nil_append, be32_mod]
    · omega
  simp only [u64At, h1, h2]
  congr 1; omega

/-! ### in range ⇒ no panic -/

theorem slice_of_le {d : Bytes} {lo hi : Nat} (h1 : lo ≤ hi) (h2 : hi ≤ d.length) :
    slice d lo hi = .ok ((d.drop lo).take (hi - lo)) := by
  simp [slice, h1, h2]

theorem u16At_of_le {d : Bytes} {pos : Nat} (h : pos + 2 ≤ d.length) : ∃ n, u16At d pos = .ok n ∧ n < 2 ^ 16 := by
  have hl : 2 ≤ (d.drop pos).length := by simp only [List.length_drop]; omega
  unfold u16At
  match hd : d.drop pos, hl with
  | a :: b :: _, _ =>
    refine ⟨_, rfl, ?_⟩
    have := a.toNat_lt; have := b.toNat_lt; omega

theorem u32At_of_le {d : Bytes} {pos : Nat} (h : pos + 4 ≤ d.length) : ∃ n, u32At d pos = .ok n ∧ n < 2 ^ 32 := by
  have hl : 4 ≤ (d.drop pos).length := by simp only [List.length_drop]; omega
  unfold u32At
  match hd : d.drop pos, hl with
  | a :: b :: c :: e :: _, _ =>
    refine ⟨_, rfl, ?_⟩
    have := a.toNat_lt; have := b.toNat_lt; have := c.toNat_lt; have := e.toNat_lt; omega

theorem u64At_of_le {d : Bytes} {pos : Nat} (h : pos + 8 ≤ d.length) : ∃ n, u64At d pos = .ok n ∧ n < 2 ^ 64 := by
  obtain ⟨a, ha, ha'⟩ := u32At_of_le (d := d) (pos := pos) (by omega)
  obtain ⟨b, hb, hb'⟩ := u32At_of_le (d := d) (pos := pos + 4) (by omega)
  refine ⟨a * 2 ^ 32 + b, ?_, by omega⟩
  simp only [u64At, ha, hb]

end GoaktVerif.C23

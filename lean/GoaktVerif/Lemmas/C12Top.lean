/-
C12: the top-level composition — every event logged by any run is sound (`log_sound`), including
the freshness recorded in each timer decision, which needs the state invariant of Lemmas/C12Fresh.
-/
import GoaktVerif.Lemmas.C12Fresh

namespace GoaktVerif.C12
open GoaktVerif.Model.C12 GoaktVerif.Model.C12.State

theorem logExt_popHead (s : State) (g : Nat) (hi : FInv s) (hq : s.queue[0]? = some g) (h : ¬ s.dl g > s.now) :
    LogExt s (s.popHead g) := by
  unfold popHead
  refine ((logExt_emit _ _ ?_ rfl).trans (logExt_hpop _)).trans (logExt_setIdx _ _ _)
  simp only [decideEv, evOK, Bool.and_eq_true, decide_eq_true_eq, Bool.or_eq_true, Bool.not_eq_true']
  refine ⟨by omega, ?_⟩
  by_cases hc : ((s.entries (s.objs g).actor == some g) && !(s.objs g).paused && (s.objs g).strat.isTime) = true
  · right
    simp only [Bool.and_eq_true, beq_iff_eq, Bool.not_eq_true'] at hc
    cases hl : (s.actors (s.objs g).actor).latest with
    | none => rfl
    | some l =>
      have := decision_fresh s (s.objs g).actor g hi hq (by omega) hc.1.1 hc.2 hc.1.2 l hl
      have hidx : s.idx g = 0 := by simpa using (hi.core.sync g 0).mp hq
      obtain ⟨d, hdl, _, h2⟩ := hi.core.fresh _ g hc.1.1 hc.2 hc.1.2 (by omega)
      have h3 := h2 l hl
      simp only [dl, hdl, decide_eq_true_eq, Int.toNat_natCast]
      exact h3
  · left
    simpa using hc

theorem logExt_trigger (f : Nat) (s : State) (g : Nat) (pre post : List SOp) (hi : FInv s) :
    LogExt s (trigger f s g pre post) := by
  fun_induction trigger f s g pre post with
  | case1 => exact LogExt.refl _
  | case2 => exact LogExt.refl _
  | case3 => exact LogExt.refl _
  | case4 => exact LogExt.of_log_eq rfl
  | case5 s g pre post h rest hq hh hd f a t ht =>
    have h0 : s.queue[0]? = some g := by rw [hq]; simp [Decidable.of_not_not hh]
    exact (logExt_popHead s g hi h0 hd).trans (logExt_passivateS _ _ _ _ _)
  | case6 s g pre post h rest hq hh hd f a t ht hb =>
    have h0 : s.queue[0]? = some g := by rw [hq]; simp [Decidable.of_not_not hh]
    exact ((logExt_popHead s g hi h0 hd).trans (logExt_passivateS _ _ _ _ _)).trans (logExt_delEntry _ _)
  | case7 s g pre post h rest hq hh hd f a t ht hb hp =>
    have h0 : s.queue[0]? = some g := by rw [hq]; simp [Decidable.of_not_not hh]
    exact (logExt_popHead s g hi h0 hd).trans (logExt_passivateS _ _ _ _ _)
  | case8 s g pre post h rest hq hh hd f a t ht hb hp hx ih =>
    have h0 : s.queue[0]? = some g := by rw [hq]; simp [Decidable.of_not_not hh]
    have ht' : FInv t := finv_passivateS _ _ _ _ _ (finv_popHead s g hi h0).1
    have hcur : t.entries a = some g := Decidable.of_not_not ht
    obtain ⟨h3, hf⟩ := finv_refresh t g ht'
    have h4 : FInv ((t.refresh g).hpush g) := by
      refine (finv_hpush _ g h3 hx (ht'.core.entBound a g hcur) ?_ ?_).1
      · have : ((t.refresh g).objs g).paused = (t.objs g).paused := by simp [refresh, setE, upd]
        rw [this]; simpa using hp
      · intro b hb' _; exact hf b hb'
    exact ((((logExt_popHead s g hi h0 hd).trans (logExt_passivateS _ _ _ _ _)).trans (logExt_refresh _ _)).trans
      (logExt_hpush _ _)).trans (ih h4)
  | case9 s g pre post h rest hq hh hd f a t ht hb hp hx ih =>
    have h0 : s.queue[0]? = some g := by rw [hq]; simp [Decidable.of_not_not hh]
    exact ((logExt_popHead s g hi h0 hd).trans (logExt_passivateS _ _ _ _ _)).trans
      (ih (finv_passivateS _ _ _ _ _ (finv_popHead s g hi h0).1))

theorem logExt_tickStep (s : State) (pre post : List SOp) (hi : FInv s) : LogExt s (tickStep s pre post) := by
  unfold tickStep
  rw [nextEntry_eq _ s hi]
  split
  · exact LogExt.refl s
  · exact logExt_trigger _ _ _ _ _ hi

theorem logExt_drainStep (s : State) (pre post : List SOp) : LogExt s (drainStep s pre post) := by
  unfold drainStep
  split
  · exact LogExt.refl s
  · refine LogExt.trans ?_ (logExt_processMessageEntry _ _ _ _)
    exact LogExt.of_log_eq rfl

theorem logExt_step (s : State) (o : Op) (hi : FInv s) : LogExt s (step s o) := by
  unfold step
  split
  · exact LogExt.refl s
  · cases o with
    | adv d => exact LogExt.of_log_eq rfl
    | simple o => exact logExt_sstep _ _
    | tick pre post => exact logExt_tickStep _ _ _ hi
    | drain pre post => exact logExt_drainStep _ _ _

theorem logExt_run (s : State) (os : List Op) (hi : FInv s) : LogExt s (run s os) := by
  induction os generalizing s with
  | nil => exact LogExt.refl s
  | cons o os ih => exact (logExt_step s o hi).trans (ih _ (finv_step s o hi))

theorem log_good (cfg : List (Strat × Bool)) (ops : List Op) : Good (run (init cfg) ops).log := by
  have h : LogExt ({} : State) (run (init cfg) ops) :=
    (logExt_spawnAll _ _).trans (logExt_run _ _ (finv_spawnAll _ _ finv_empty))
  obtain ⟨l, hl, hp⟩ := h
  rw [hl]
  simpa using hp

/-- every event logged by any run from any initial configuration is locally sound -/
theorem log_sound (cfg : List (Strat × Bool)) (ops : List Op) :
    ∀ e ∈ (run (init cfg) ops).log, evOK e = true := (log_good cfg ops).1

end GoaktVerif.C12

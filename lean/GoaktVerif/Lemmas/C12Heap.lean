/-
C12 helper lemmas: the heap array and the entries' `index` fields stay in sync
(`queue[i] = g ↔ entry g's index = i`), through Go's container/heap operations as the
passivation manager uses them.
-/
import GoaktVerif.Lemmas.C12

namespace GoaktVerif.C12
open GoaktVerif.Model.C12 GoaktVerif.Model.C12.State

/-- position `i` of the heap array holds entry `g` exactly when `g.index = i` -/
def Sync (s : State) : Prop := ∀ (g i : Nat), s.queue[i]? = some g ↔ s.idx g = (i : Int)

theorem sync_swap (s : State) (i j : Nat) (h : Sync s) : Sync (s.swap i j) := by
  unfold swap
  split
  · rename_i gi gj hi hj
    intro g k
    have hli : i < s.queue.length := by
      rcases Nat.lt_or_ge i s.queue.length with h' | h'
      · exact h'
      · rw [List.getElem?_eq_none h'] at hi; cases hi
    have hlj : j < s.queue.length := by
      rcases Nat.lt_or_ge j s.queue.length with h' | h'
      · exact h'
      · rw [List.getElem?_eq_none h'] at hj; cases hj
    have e1 := h gi i
    have e2 := h gj j
    have e3 := h g k
    have e4 := h g i
    have e5 := h g j
    have e6 := h gi k
    have e7 := h gj k
    simp only [setIdx, upd, List.getElem?_set, List.length_set]
    grind
  · exact h


theorem swap_len (s : State) (i j : Nat) : (s.swap i j).queue.length = s.queue.length := by
  unfold swap; split <;> simp [setIdx]

/-- a swap of two positions other than `n` leaves position `n` alone -/
theorem swap_keep (s : State) (i j n : Nat) (hi : i ≠ n) (hj : j ≠ n) : (s.swap i j).queue[n]? = s.queue[n]? := by
  unfold swap
  split
  · simp only [setIdx, List.getElem?_set]
    grind
  · rfl

theorem sync_up (f : Nat) (s : State) (j : Nat) (h : Sync s) : Sync (up f s j) := by
  fun_induction up f s j with
  | case1 => exact h
  | case2 => exact h
  | case3 f s j i hc ih => exact ih (sync_swap s i j h)

theorem up_len (f : Nat) (s : State) (j : Nat) : (up f s j).queue.length = s.queue.length := by
  fun_induction up f s j with
  | case1 => rfl
  | case2 => rfl
  | case3 f s j i hc ih => rw [ih, swap_len]

/-- `up` from `j < n` never touches position `n` -/
theorem up_keep (f : Nat) (s : State) (j n : Nat) (hj : j < n) : (up f s j).queue[n]? = s.queue[n]? := by
  fun_induction up f s j with
  | case1 => rfl
  | case2 => rfl
  | case3 f s j i hc ih =>
    have hi : i < n := by omega
    rw [ih hi, swap_keep s i j n (by omega) (by omega)]

theorem sync_down (f : Nat) (s : State) (i n : Nat) (h : Sync s) : Sync (down f s i n).1 := by
  fun_induction down f s i n with
  | case1 => exact h
  | case2 => exact h
  | case3 => exact h
  | case4 f s i n j1 h1 j h2 ih => exact ih (sync_swap s i j h)

theorem down_len (f : Nat) (s : State) (i n : Nat) : (down f s i n).1.queue.length = s.queue.length := by
  fun_induction down f s i n with
  | case1 => rfl
  | case2 => rfl
  | case3 => rfl
  | case4 f s i n j1 h1 j h2 ih => rw [ih, swap_len]

/-- `down` bounded by `n` from `i < n` never touches position `n` -/
theorem down_keep (f : Nat) (s : State) (i n : Nat) (hi : i < n) : (down f s i n).1.queue[n]? = s.queue[n]? := by
  fun_induction down f s i n with
  | case1 => rfl
  | case2 => rfl
  | case3 => rfl
  | case4 f s i n j1 h1 j h2 ih =>
    have hj : j < n := by
      show (if j1 + 1 < n && s.less (j1 + 1) j1 then j1 + 1 else j1) < n
      split
      · rename_i hc; simp only [Bool.and_eq_true, decide_eq_true_eq] at hc; omega
      · omega
    rw [ih hj, swap_keep s i j n (by omega) (by omega)]

theorem sameHalt_swap (s : State) (i j : Nat) : (s.swap i j).halt = s.halt := by
  unfold swap; split <;> rfl

theorem sameHalt_up (f : Nat) (s : State) (j : Nat) : (up f s j).halt = s.halt := by
  fun_induction up f s j with
  | case1 => rfl
  | case2 => rfl
  | case3 f s j i hc ih => rw [ih, sameHalt_swap]

theorem sameHalt_down (f : Nat) (s : State) (i n : Nat) : (down f s i n).1.halt = s.halt := by
  fun_induction down f s i n with
  | case1 => rfl
  | case2 => rfl
  | case3 => rfl
  | case4 f s i n j1 h1 j h2 ih => rw [ih, sameHalt_swap]

/-- removing the last array slot -/
theorem sync_popLast (s : State) (h : Sync s) : Sync s.popLast := by
  unfold popLast
  split
  · exact h
  · rename_i g hg
    intro g' k
    have hg' : s.queue[s.queue.length - 1]? = some g := by rw [← List.getLast?_eq_getElem?]; exact hg
    have e1 := h g (s.queue.length - 1)
    have e2 := h g' k
    have e3 := h g k
    have hpos : 0 < s.queue.length := by
      rcases Nat.eq_zero_or_pos s.queue.length with h0 | h0
      · rw [List.getElem?_eq_none (by omega)] at hg'; cases hg'
      · exact h0
    simp only [setIdx, upd, List.getElem?_dropLast]
    grind

/-- after `popLast` the removed element's index is -1 -/
theorem popLast_idx (s : State) (g : Nat) (hg : s.queue[s.queue.length - 1]? = some g) : s.popLast.idx g = -1 := by
  unfold popLast
  rw [List.getLast?_eq_getElem?, hg]
  simp [setIdx, upd]

theorem popLast_len (s : State) : s.popLast.queue.length = s.queue.length - 1 := by
  unfold popLast
  split
  · rename_i h; simp [List.getLast?_eq_none_iff.mp h]
  · simp [setIdx]


/-- `heap.Push` of an entry that is not on the heap -/
theorem sync_hpush (s : State) (g : Nat) (h : Sync s) (hg : s.idx g < 0) : Sync (s.hpush g) := by
  unfold hpush
  dsimp only
  apply sync_up
  intro g' k
  have e1 := h g' k
  have e2 := h g k
  simp only [setIdx, upd, List.getElem?_append, List.length_cons, List.length_nil]
  by_cases hk : k < s.queue.length
  · simp only [hk, ↓reduceIte]
    by_cases hgg : g' = g
    · subst hgg
      simp only [↓reduceIte]
      constructor
      · intro hq; have := e1.mp hq; omega
      · intro hq; omega
    · simp only [hgg, ↓reduceIte]; exact e1
  · simp only [hk, ↓reduceIte]
    have hnone : s.queue[k]? = none := List.getElem?_eq_none (by omega)
    by_cases hgg : g' = g
    · subst hgg
      simp only [↓reduceIte]
      by_cases hk2 : k = s.queue.length
      · subst hk2; simp
      · have : k - s.queue.length ≠ 0 := by omega
        constructor
        · intro hq
          match hkk : k - s.queue.length, this with
          | n + 1, _ => rw [hkk] at hq; simp at hq
        · intro hq; omega
    · simp only [hgg, ↓reduceIte]
      rw [hnone] at e1
      constructor
      · intro hq
        match hkk : k - s.queue.length with
        | 0 => rw [hkk] at hq; simp at hq; exact absurd hq.symm hgg
        | n + 1 => rw [hkk] at hq; simp at hq
      · intro hq; exact absurd (e1.mpr hq) (by simp)

theorem swap_idx_nonneg (s : State) (i j g : Nat) (h : 0 ≤ s.idx g) : 0 ≤ (s.swap i j).idx g := by
  unfold swap
  split
  · simp only [setIdx, upd]
    split
    · omega
    · split
      · omega
      · exact h
  · exact h

theorem up_idx_nonneg (f : Nat) (s : State) (j g : Nat) (h : 0 ≤ s.idx g) : 0 ≤ (up f s j).idx g := by
  fun_induction up f s j with
  | case1 => exact h
  | case2 => exact h
  | case3 f s j i hc ih => exact ih (swap_idx_nonneg s i j g h)

theorem down_idx_nonneg (f : Nat) (s : State) (i n g : Nat) (h : 0 ≤ s.idx g) : 0 ≤ (down f s i n).1.idx g := by
  fun_induction down f s i n with
  | case1 => exact h
  | case2 => exact h
  | case3 => exact h
  | case4 f s i n j1 h1 j h2 ih => exact ih (swap_idx_nonneg s i j g h)

theorem hpush_idx (s : State) (g : Nat) : 0 ≤ (s.hpush g).idx g := by
  unfold hpush
  dsimp only
  apply up_idx_nonneg
  simp [setIdx, upd]

/-- `heap.Remove(i)` of the entry whose index is `i`: still in sync, and that entry is off the heap -/
theorem sync_hremove (s : State) (g : Nat) (h : Sync s) (hg : 0 ≤ s.idx g) :
    Sync (s.hremove (s.idx g)) ∧ (s.hremove (s.idx g)).idx g = -1 ∧ (s.hremove (s.idx g)).halt = s.halt := by
  obtain ⟨i, hi⟩ : ∃ i : Nat, s.idx g = (i : Int) := ⟨(s.idx g).toNat, by omega⟩
  have hq : s.queue[i]? = some g := (h g i).mpr hi
  have hlt : i < s.queue.length := by
    rcases Nat.lt_or_ge i s.queue.length with h' | h'
    · exact h'
    · rw [List.getElem?_eq_none h'] at hq; cases hq
  rw [hi]
  unfold hremove
  have hc : ((decide ((i : Int) < 0) || decide ((i : Int) ≥ (s.queue.length : Int))) = true) = False := by
    simp only [Bool.or_eq_true, decide_eq_true_eq, eq_iff_iff, iff_false, not_or]; omega
  simp only [hc, ↓reduceIte, Int.toNat_natCast]
  by_cases hn : s.queue.length - 1 = i
  · -- already the last slot
    simp only [hn, ne_eq, not_true_eq_false, ↓reduceIte]
    refine ⟨sync_popLast s h, popLast_idx s g (by rw [hn]; exact hq), ?_⟩
    unfold popLast; split <;> rfl
  · simp only [ne_eq, hn, not_false_eq_true, ↓reduceIte]
    have hin : i < s.queue.length - 1 := by omega
    -- after the swap g sits in the last slot
    have hsw : (s.swap i (s.queue.length - 1)).queue[s.queue.length - 1]? = some g := by
      unfold swap
      have hlast : s.queue[s.queue.length - 1]? = some (s.queue[s.queue.length - 1]'(by omega)) := List.getElem?_eq_getElem _
      rw [hq, hlast]
      simp only [setIdx, List.getElem?_set, List.length_set]
      grind
    have hs1 := sync_swap s i (s.queue.length - 1) h
    generalize hd : down (s.queue.length - 1 + 1) (s.swap i (s.queue.length - 1)) i (s.queue.length - 1) = d
    have hdk : d.1.queue[s.queue.length - 1]? = some g := by
      rw [← hd, down_keep _ _ _ _ hin]; exact hsw
    have hds : Sync d.1 := by rw [← hd]; exact sync_down _ _ _ _ hs1
    have hdl : d.1.queue.length = s.queue.length := by rw [← hd, down_len, swap_len]
    have hhalt0 : ∀ (t : State) (a b : Nat), (t.swap a b).halt = t.halt := by
      intro t a b; unfold swap; split <;> rfl
    split
    · refine ⟨sync_popLast _ hds, popLast_idx _ g (by rw [hdl]; exact hdk), ?_⟩
      have : d.1.halt = s.halt := by
        rw [← hd]; exact ((sameHalt_down _ _ _ _).trans (hhalt0 _ _ _))
      unfold popLast; split <;> simpa [setIdx] using this
    · have hul : (up (s.queue.length - 1 + 1) d.1 i).queue.length = s.queue.length := by rw [up_len, hdl]
      have huk : (up (s.queue.length - 1 + 1) d.1 i).queue[s.queue.length - 1]? = some g := by
        rw [up_keep _ _ _ _ hin]; exact hdk
      refine ⟨sync_popLast _ (sync_up _ _ _ hds), popLast_idx _ g (by rw [hul]; exact huk), ?_⟩
      have : (up (s.queue.length - 1 + 1) d.1 i).halt = s.halt := by
        rw [sameHalt_up, ← hd]; exact ((sameHalt_down _ _ _ _).trans (hhalt0 _ _ _))
      unfold popLast; split <;> simpa [setIdx] using this


theorem down_stop (f : Nat) (s : State) (i n : Nat) (h : 2 * i + 1 ≥ n) : down f s i n = (s, i) := by
  cases f with
  | zero => rfl
  | succ f => unfold down; simp [h]

/-- `heap.Pop` with entry `g` at the head: still in sync, `g` is off the heap -/
theorem sync_hpop (s : State) (g : Nat) (h : Sync s) (hq : s.queue[0]? = some g) :
    Sync s.hpop ∧ s.hpop.idx g = -1 := by
  have hlt : 0 < s.queue.length := by
    rcases Nat.eq_zero_or_pos s.queue.length with h' | h'
    · rw [List.getElem?_eq_none (by omega)] at hq; cases hq
    · exact h'
  unfold hpop
  dsimp only
  have hsw : (s.swap 0 (s.queue.length - 1)).queue[s.queue.length - 1]? = some g := by
    unfold swap
    have hlast : s.queue[s.queue.length - 1]? = some (s.queue[s.queue.length - 1]'(by omega)) := List.getElem?_eq_getElem _
    rw [hq, hlast]
    simp only [setIdx, List.getElem?_set, List.length_set]
    grind
  have hs1 := sync_swap s 0 (s.queue.length - 1) h
  generalize hd : down (s.queue.length - 1 + 1) (s.swap 0 (s.queue.length - 1)) 0 (s.queue.length - 1) = d
  have hds : Sync d.1 := by rw [← hd]; exact sync_down _ _ _ _ hs1
  have hdl : d.1.queue.length = s.queue.length := by rw [← hd, down_len, swap_len]
  have hdk : d.1.queue[s.queue.length - 1]? = some g := by
    by_cases hn : 0 < s.queue.length - 1
    · rw [← hd, down_keep _ _ _ _ hn]; exact hsw
    · have h1 : s.queue.length - 1 = 0 := by omega
      rw [← hd, h1]
      rw [h1] at hsw
      rw [down_stop _ _ _ _ (by omega)]
      exact hsw
  exact ⟨sync_popLast _ hds, popLast_idx _ g (by rw [hdl]; exact hdk)⟩

theorem sync_hfix (s : State) (i : Int) (h : Sync s) : Sync (s.hfix i) := by
  unfold hfix
  split
  · exact h
  · dsimp only
    split
    · exact sync_down _ _ _ _ h
    · exact sync_up _ _ _ (sync_down _ _ _ _ h)

theorem hfix_idx_nonneg (s : State) (i : Int) (g : Nat) (h : 0 ≤ s.idx g) : 0 ≤ (s.hfix i).idx g := by
  unfold hfix
  split
  · exact h
  · dsimp only
    split
    · exact down_idx_nonneg _ _ _ _ _ h
    · exact up_idx_nonneg _ _ _ _ (down_idx_nonneg _ _ _ _ _ h)

/-- an index that is in range does not make `heap.Fix` panic -/
theorem hfix_halt (s : State) (g : Nat) (h : Sync s) (hg : 0 ≤ s.idx g) : (s.hfix (s.idx g)).halt = s.halt := by
  obtain ⟨i, hi⟩ : ∃ i : Nat, s.idx g = (i : Int) := ⟨(s.idx g).toNat, by omega⟩
  have hq : s.queue[i]? = some g := (h g i).mpr hi
  have hlt : i < s.queue.length := by
    rcases Nat.lt_or_ge i s.queue.length with h' | h'
    · exact h'
    · rw [List.getElem?_eq_none h'] at hq; cases hq
  rw [hi]
  unfold hfix
  have hc : ((decide ((i : Int) < 0) || decide ((i : Int) ≥ (s.queue.length : Int))) = true) = False := by
    simp only [Bool.or_eq_true, decide_eq_true_eq, eq_iff_iff, iff_false, not_or]; omega
  simp only [hc, ↓reduceIte]
  split
  · exact sameHalt_down _ _ _ _
  · rw [sameHalt_up]; exact sameHalt_down _ _ _ _


/-! ### an index does not become non-negative by itself -/

theorem swap_back (s : State) (i j g : Nat) (h : Sync s) (hg : 0 ≤ (s.swap i j).idx g) : 0 ≤ s.idx g := by
  unfold swap at hg
  split at hg
  · rename_i gi gj hi hj
    have e1 := (h gi i).mp hi
    have e2 := (h gj j).mp hj
    simp only [setIdx, upd] at hg
    grind
  · exact hg

theorem up_back (f : Nat) (s : State) (j g : Nat) (h : Sync s) (hg : 0 ≤ (up f s j).idx g) : 0 ≤ s.idx g := by
  fun_induction up f s j with
  | case1 => exact hg
  | case2 => exact hg
  | case3 f s j i hc ih => exact swap_back s i j g h (ih (sync_swap s i j h) hg)

theorem down_back (f : Nat) (s : State) (i n g : Nat) (h : Sync s) (hg : 0 ≤ (down f s i n).1.idx g) : 0 ≤ s.idx g := by
  fun_induction down f s i n with
  | case1 => exact hg
  | case2 => exact hg
  | case3 => exact hg
  | case4 f s i n j1 h1 j h2 ih => exact swap_back s i j g h (ih (sync_swap s i j h) hg)

theorem popLast_back (s : State) (g : Nat) (hg : 0 ≤ s.popLast.idx g) : 0 ≤ s.idx g := by
  unfold popLast at hg
  split at hg
  · exact hg
  · simp only [setIdx, upd] at hg
    split at hg
    · omega
    · exact hg

theorem hpush_back (s : State) (g g' : Nat) (h : Sync s) (hne : g' ≠ g) (hg : 0 ≤ (s.hpush g).idx g')
    (hneg : s.idx g < 0) : 0 ≤ s.idx g' := by
  unfold hpush at hg
  dsimp only at hg
  have hs : Sync (({ s with queue := s.queue ++ [g] }).setIdx g s.queue.length) := by
    have := sync_hpush s g h hneg
    -- the state before `up` is in sync as well: reuse the argument through `up_back`'s premise
    intro x k
    have e1 := h x k
    have e2 := h g k
    simp only [setIdx, upd, List.getElem?_append]
    by_cases hk : k < s.queue.length
    · simp only [hk, ↓reduceIte]
      by_cases hx : x = g
      · subst hx; simp only [↓reduceIte]
        constructor
        · intro hq; have := e1.mp hq; omega
        · intro hq; omega
      · simp only [hx, ↓reduceIte]; exact e1
    · simp only [hk, ↓reduceIte]
      have hnone : s.queue[k]? = none := List.getElem?_eq_none (by omega)
      by_cases hx : x = g
      · subst hx; simp only [↓reduceIte]
        by_cases hk2 : k = s.queue.length
        · subst hk2; simp
        · constructor
          · intro hq
            match hkk : k - s.queue.length with
            | 0 => omega
            | n + 1 => rw [hkk] at hq; simp at hq
          · intro hq; omega
      · simp only [hx, ↓reduceIte]
        rw [hnone] at e1
        constructor
        · intro hq
          match hkk : k - s.queue.length with
          | 0 => rw [hkk] at hq; simp at hq; exact absurd hq.symm hx
          | n + 1 => rw [hkk] at hq; simp at hq
        · intro hq; exact absurd (e1.mpr hq) (by simp)
  have := up_back _ _ _ g' hs hg
  simpa [setIdx, upd, hne] using this

theorem hremove_back (s : State) (i : Int) (g : Nat) (h : Sync s) (hg : 0 ≤ (s.hremove i).idx g) : 0 ≤ s.idx g := by
  unfold hremove at hg
  split at hg
  · exact hg
  · dsimp only at hg
    have hg := popLast_back _ g hg
    split at hg
    · split at hg
      · exact swap_back s _ _ g h (down_back _ _ _ _ g (sync_swap s _ _ h) hg)
      · exact swap_back s _ _ g h (down_back _ _ _ _ g (sync_swap s _ _ h)
          (up_back _ _ _ g (sync_down _ _ _ _ (sync_swap s _ _ h)) hg))
    · exact hg

theorem hpop_back (s : State) (g : Nat) (h : Sync s) (hg : 0 ≤ s.hpop.idx g) : 0 ≤ s.idx g := by
  unfold hpop at hg
  dsimp only at hg
  exact swap_back s _ _ g h (down_back _ _ _ _ g (sync_swap s _ _ h) (popLast_back _ g hg))

theorem hfix_back (s : State) (i : Int) (g : Nat) (h : Sync s) (hg : 0 ≤ (s.hfix i).idx g) : 0 ≤ s.idx g := by
  unfold hfix at hg
  split at hg
  · exact hg
  · dsimp only at hg
    split at hg
    · exact down_back _ _ _ _ g h hg
    · exact down_back _ _ _ _ g h (up_back _ _ _ g (sync_down _ _ _ _ h) hg)

end GoaktVerif.C12

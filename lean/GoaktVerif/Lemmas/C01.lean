/-
Helper lemmas for the dispatch-machine invariants (C01, C02).
-/
import GoaktVerif.Model.C01

namespace GoaktVerif.Lemmas.C01
open GoaktVerif.Model.C01

/-- threads that hold the (unique) "scheduled" token: they made, or popped, the ready-queue entry -/
def tok : Option PC → Nat
  | some .sPush | some .wTfp | some (.wRetake _) | some .wResched => 1
  | _ => 0

/-- threads that own the turn (between a successful TakeForProcessing and the releasing store) -/
def own : Option PC → Nat
  | some (.wSys1 _) | some (.wSys2 _) | some (.wDeq1 _) | some (.wDeq2 _) | some (.wDeq3 _ _)
  | some (.wDeq4 _ _) | some (.wRecv _ _) | some (.wReset _) | some .wYield => 1
  | _ => 0

def inRecvPc : Option PC → Nat
  | some (.wRecv _ _) => 1
  | _ => 0

theorem inRecv_eq (t : Thread) : inRecv t = inRecvPc t.pc := by
  unfold inRecv inRecvPc; split <;> simp_all

theorem inRecvPc_le_own (p : Option PC) : inRecvPc p ≤ own p := by
  unfold inRecvPc own; split <;> simp


/-! ### value of `tok` / `own` / `inRecvPc` at every program counter (generated list, all by `rfl`) -/

theorem tok_none : tok none = 0 := rfl
theorem tok_sE0 (m : Nat) : tok (some (.sE0 m)) = 0 := rfl
theorem tok_sE1 (m : Nat) : tok (some (.sE1 m)) = 0 := rfl
theorem tok_sE2 (m : Nat) : tok (some (.sE2 m)) = 0 := rfl
theorem tok_sT1 : tok (some .sT1) = 0 := rfl
theorem tok_sT2 : tok (some .sT2) = 0 := rfl
theorem tok_sPush : tok (some .sPush) = 1 := rfl
theorem tok_wTake : tok (some .wTake) = 0 := rfl
theorem tok_wTfp : tok (some .wTfp) = 1 := rfl
theorem tok_wSys1 (b : Nat) : tok (some (.wSys1 b)) = 0 := rfl
theorem tok_wSys2 (b : Nat) : tok (some (.wSys2 b)) = 0 := rfl
theorem tok_wDeq1 (b : Nat) : tok (some (.wDeq1 b)) = 0 := rfl
theorem tok_wDeq2 (b : Nat) : tok (some (.wDeq2 b)) = 0 := rfl
theorem tok_wDeq3 (b m : Nat) : tok (some (.wDeq3 b m)) = 0 := rfl
theorem tok_wDeq4 (b m : Nat) : tok (some (.wDeq4 b m)) = 0 := rfl
theorem tok_wRecv (b m : Nat) : tok (some (.wRecv b m)) = 0 := rfl
theorem tok_wReset (b : Nat) : tok (some (.wReset b)) = 0 := rfl
theorem tok_wEmp1 (b : Nat) : tok (some (.wEmp1 b)) = 0 := rfl
theorem tok_wEmp2 (b : Nat) : tok (some (.wEmp2 b)) = 0 := rfl
theorem tok_wSEmp1 (b : Nat) : tok (some (.wSEmp1 b)) = 0 := rfl
theorem tok_wSEmp2 (b : Nat) : tok (some (.wSEmp2 b)) = 0 := rfl
theorem tok_wTs1 (b : Nat) : tok (some (.wTs1 b)) = 0 := rfl
theorem tok_wTs2 (b : Nat) : tok (some (.wTs2 b)) = 0 := rfl
theorem tok_wRetake (b : Nat) : tok (some (.wRetake b)) = 1 := rfl
theorem tok_wYield : tok (some .wYield) = 0 := rfl
theorem tok_wResched : tok (some .wResched) = 1 := rfl
theorem tok_rWait : tok (some .rWait) = 0 := rfl
theorem tok_rCount : tok (some .rCount) = 0 := rfl
theorem tok_rLoad : tok (some .rLoad) = 0 := rfl
theorem own_none : own none = 0 := rfl
theorem own_sE0 (m : Nat) : own (some (.sE0 m)) = 0 := rfl
theorem own_sE1 (m : Nat) : own (some (.sE1 m)) = 0 := rfl
theorem own_sE2 (m : Nat) : own (some (.sE2 m)) = 0 := rfl
theorem own_sT1 : own (some .sT1) = 0 := rfl
theorem own_sT2 : own (some .sT2) = 0 := rfl
theorem own_sPush : own (some .sPush) = 0 := rfl
theorem own_wTake : own (some .wTake) = 0 := rfl
theorem own_wTfp : own (some .wTfp) = 0 := rfl
theorem own_wSys1 (b : Nat) : own (some (.wSys1 b)) = 1 := rfl
theorem own_wSys2 (b : Nat) : own (some (.wSys2 b)) = 1 := rfl
theorem own_wDeq1 (b : Nat) : own (some (.wDeq1 b)) = 1 := rfl
theorem own_wDeq2 (b : Nat) : own (some (.wDeq2 b)) = 1 := rfl
theorem own_wDeq3 (b m : Nat) : own (some (.wDeq3 b m)) = 1 := rfl
theorem own_wDeq4 (b m : Nat) : own (some (.wDeq4 b m)) = 1 := rfl
theorem own_wRecv (b m : Nat) : own (some (.wRecv b m)) = 1 := rfl
theorem own_wReset (b : Nat) : own (some (.wReset b)) = 1 := rfl
theorem own_wEmp1 (b : Nat) : own (some (.wEmp1 b)) = 0 := rfl
theorem own_wEmp2 (b : Nat) : own (some (.wEmp2 b)) = 0 := rfl
theorem own_wSEmp1 (b : Nat) : own (some (.wSEmp1 b)) = 0 := rfl
theorem own_wSEmp2 (b : Nat) : own (some (.wSEmp2 b)) = 0 := rfl
theorem own_wTs1 (b : Nat) : own (some (.wTs1 b)) = 0 := rfl
theorem own_wTs2 (b : Nat) : own (some (.wTs2 b)) = 0 := rfl
theorem own_wRetake (b : Nat) : own (some (.wRetake b)) = 0 := rfl
theorem own_wYield : own (some .wYield) = 1 := rfl
theorem own_wResched : own (some .wResched) = 0 := rfl
theorem own_rWait : own (some .rWait) = 0 := rfl
theorem own_rCount : own (some .rCount) = 0 := rfl
theorem own_rLoad : own (some .rLoad) = 0 := rfl
theorem inRecvPc_none : inRecvPc none = 0 := rfl
theorem inRecvPc_sE0 (m : Nat) : inRecvPc (some (.sE0 m)) = 0 := rfl
theorem inRecvPc_sE1 (m : Nat) : inRecvPc (some (.sE1 m)) = 0 := rfl
theorem inRecvPc_sE2 (m : Nat) : inRecvPc (some (.sE2 m)) = 0 := rfl
theorem inRecvPc_sT1 : inRecvPc (some .sT1) = 0 := rfl
theorem inRecvPc_sT2 : inRecvPc (some .sT2) = 0 := rfl
theorem inRecvPc_sPush : inRecvPc (some .sPush) = 0 := rfl
theorem inRecvPc_wTake : inRecvPc (some .wTake) = 0 := rfl
theorem inRecvPc_wTfp : inRecvPc (some .wTfp) = 0 := rfl
theorem inRecvPc_wSys1 (b : Nat) : inRecvPc (some (.wSys1 b)) = 0 := rfl
theorem inRecvPc_wSys2 (b : Nat) : inRecvPc (some (.wSys2 b)) = 0 := rfl
theorem inRecvPc_wDeq1 (b : Nat) : inRecvPc (some (.wDeq1 b)) = 0 := rfl
theorem inRecvPc_wDeq2 (b : Nat) : inRecvPc (some (.wDeq2 b)) = 0 := rfl
theorem inRecvPc_wDeq3 (b m : Nat) : inRecvPc (some (.wDeq3 b m)) = 0 := rfl
theorem inRecvPc_wDeq4 (b m : Nat) : inRecvPc (some (.wDeq4 b m)) = 0 := rfl
theorem inRecvPc_wRecv (b m : Nat) : inRecvPc (some (.wRecv b m)) = 1 := rfl
theorem inRecvPc_wReset (b : Nat) : inRecvPc (some (.wReset b)) = 0 := rfl
theorem inRecvPc_wEmp1 (b : Nat) : inRecvPc (some (.wEmp1 b)) = 0 := rfl
theorem inRecvPc_wEmp2 (b : Nat) : inRecvPc (some (.wEmp2 b)) = 0 := rfl
theorem inRecvPc_wSEmp1 (b : Nat) : inRecvPc (some (.wSEmp1 b)) = 0 := rfl
theorem inRecvPc_wSEmp2 (b : Nat) : inRecvPc (some (.wSEmp2 b)) = 0 := rfl
theorem inRecvPc_wTs1 (b : Nat) : inRecvPc (some (.wTs1 b)) = 0 := rfl
theorem inRecvPc_wTs2 (b : Nat) : inRecvPc (some (.wTs2 b)) = 0 := rfl
theorem inRecvPc_wRetake (b : Nat) : inRecvPc (some (.wRetake b)) = 0 := rfl
theorem inRecvPc_wYield : inRecvPc (some .wYield) = 0 := rfl
theorem inRecvPc_wResched : inRecvPc (some .wResched) = 0 := rfl
theorem inRecvPc_rWait : inRecvPc (some .rWait) = 0 := rfl
theorem inRecvPc_rCount : inRecvPc (some .rCount) = 0 := rfl
theorem inRecvPc_rLoad : inRecvPc (some .rLoad) = 0 := rfl

/-! ### sums over the thread list -/

theorem sumBy_append (f : Thread → Nat) (a b : List Thread) : sumBy f (a ++ b) = sumBy f a + sumBy f b := by
  induction a with
  | nil => simp [sumBy]
  | cons x xs ih => simp [sumBy, ih]; omega

theorem sumBy_eraseIdx (f : Thread → Nat) (l : List Thread) (i : Nat) (h : i < l.length) :
    sumBy f l = sumBy f (l.eraseIdx i) + f l[i] := by
  induction l generalizing i with
  | nil => simp at h
  | cons x xs ih =>
    cases i with
    | zero => simp [sumBy]; omega
    | succ j =>
      have := ih j (by simpa using h)
      simp [sumBy, List.eraseIdx_cons_succ]; omega

theorem sumBy_set (f : Thread → Nat) (l : List Thread) (i : Nat) (t' : Thread) (h : i < l.length) :
    sumBy f (l.set i t') = sumBy f (l.eraseIdx i) + f t' := by
  induction l generalizing i with
  | nil => simp at h
  | cons x xs ih =>
    cases i with
    | zero => simp [sumBy]; omega
    | succ j =>
      have := ih j (by simpa using h)
      simp [sumBy, List.eraseIdx_cons_succ]; omega

theorem sumBy_le (f g : Thread → Nat) (l : List Thread) (h : ∀ t, f t ≤ g t) : sumBy f l ≤ sumBy g l := by
  induction l with
  | nil => simp [sumBy]
  | cons x xs ih => have := h x; simp [sumBy]; omega

/-! ### a thread that starts its next operation holds neither token nor turn -/

theorem startOp_pc (s : Shared) (op : Op) (pc : PC) (h : startOp s op = .inr pc) :
    (∃ m, pc = .sE0 m) ∨ pc = .wTake := by
  cases op <;> simp only [startOp] at h
  · split at h <;> simp at h
    exact .inl ⟨_, h.symm⟩
  · simp at h; exact .inr h.symm
  · simp at h
  · simp at h

theorem nextOp_pc (s : Shared) (p : List Op) (r : List String) :
    (nextOp s p r).pc = none ∨ (∃ m, (nextOp s p r).pc = some (.sE0 m)) ∨ (nextOp s p r).pc = some .wTake := by
  induction p generalizing r with
  | nil => simp [nextOp]
  | cons op rest ih =>
    simp only [nextOp]
    split
    · rename_i pc h
      rcases startOp_pc s op pc h with ⟨m, rfl⟩ | rfl
      · exact .inr (.inl ⟨m, rfl⟩)
      · exact .inr (.inr rfl)
    · exact ih _

theorem nextOp_tok (s : Shared) (p : List Op) (r : List String) : tok (nextOp s p r).pc = 0 := by
  rcases nextOp_pc s p r with h | ⟨m, h⟩ | h <;> simp [h, tok]

theorem nextOp_own (s : Shared) (p : List Op) (r : List String) : own (nextOp s p r).pc = 0 := by
  rcases nextOp_pc s p r with h | ⟨m, h⟩ | h <;> simp [h, own]

theorem nextOp_inRecv (s : Shared) (p : List Op) (r : List String) : inRecvPc (nextOp s p r).pc = 0 := by
  rcases nextOp_pc s p r with h | ⟨m, h⟩ | h <;> simp [h, inRecvPc]

theorem nextIter_own (b : Nat) : own (some (nextIter b)) = 1 := by
  unfold nextIter; split <;> simp [own]

theorem nextIter_tok (b : Nat) : tok (some (nextIter b)) = 0 := by
  unfold nextIter; split <;> simp [tok]

theorem nextIter_inRecv (b : Nat) : inRecvPc (some (nextIter b)) = 0 := by
  unfold nextIter; split <;> simp [inRecvPc]

end GoaktVerif.Lemmas.C01

import GoaktVerif.Model.C42c

/-!
C43 on the chunk-aware model (Model/C42c): the producer controller never sends a SequencedMessage — whole message
or chunk — beyond the highest `requestUpToSeq` the consumer controller has sent so far.  For every chunk size,
every frame-length sequence, every window and every fault schedule.  (True since /repo 78360fc: a registration no
longer raises demandUpTo.)  The argument needs nothing about the consumer controller's internals: `g` is the
ghost "highest request so far", computed from what the consumer controller actually sent.
-/
namespace GoaktVerif.C43c
open GoaktVerif.Model.C42c
open GoaktVerif.Model.C42 (HS CMsg PUMsg Delivery Step maxWindow)

/-- highest requestUpToSeq among `l`, starting from `g` -/
def reqMax : List CMsg → Nat → Nat
  | [], g => g
  | .request _ _ _ u _ :: r, g => reqMax r (max g u)
  | _ :: r, g => reqMax r g

theorem reqMax_ge (l : List CMsg) (g : Nat) : g ≤ reqMax l g := by
  induction l generalizing g with
  | nil => exact Nat.le_refl _
  | cons x xs ih =>
    cases x with
    | request s n c u v => exact Nat.le_trans (Nat.le_max_left g u) (ih _)
    | register n => exact ih g
    | ack s n c => exact ih g

theorem reqMax_mem (l : List CMsg) (g : Nat) {s n c u : Nat} {v : Bool} (h : CMsg.request s n c u v ∈ l) : u ≤ reqMax l g := by
  induction l generalizing g with
  | nil => cases h
  | cons x xs ih =>
    rcases List.mem_cons.mp h with e | h'
    · subst e; exact Nat.le_trans (Nat.le_max_right g u) (reqMax_ge _ _)
    · cases x with
      | request s' n' c' u' v' => exact ih _ h'
      | register n' => exact ih g h'
      | ack s' n' c' => exact ih g h'

/-- sequences of the SequencedMessages (whole or chunk) among a handler's outputs -/
def sentSeqs : List POut → List Nat
  | [] => []
  | .toConsumer (.sequenced _ m) :: r => m.seq :: sentSeqs r
  | _ :: r => sentSeqs r

theorem sentSeqs_append (a b : List POut) : sentSeqs (a ++ b) = sentSeqs a ++ sentSeqs b := by
  induction a with
  | nil => rfl
  | cons x xs ih =>
    cases x with
    | toConsumer m => cases m <;> simp [sentSeqs, ih]
    | toUser m => simp [sentSeqs, ih]

/-- what a producer handler call guarantees: the emission limit stays within `g`, and so does everything sent -/
structure POk (p' : Producer) (o : List POut) (g : Nat) : Prop where
  dem : p'.demandUpTo ≤ g
  sent : ∀ q ∈ sentSeqs o, q ≤ g

theorem POk.noout {p : Producer} {g : Nat} (h : p.demandUpTo ≤ g) : POk p [] g := ⟨h, by simp [sentSeqs]⟩

theorem emit_sent (p : Producer) (m : UMsg) : ∀ q ∈ sentSeqs (p.emitSequenced m), q ≤ p.demandUpTo := by
  unfold Producer.emitSequenced
  split
  · simp [sentSeqs]
  · rename_i h; simp at h; simp [sentSeqs]; omega

theorem flatMap_emit_sent (p : Producer) (l : List UMsg) : ∀ q ∈ sentSeqs (l.flatMap p.emitSequenced), q ≤ p.demandUpTo := by
  induction l with
  | nil => simp [sentSeqs]
  | cons m r ih =>
    simp only [List.flatMap_cons, sentSeqs_append, List.mem_append]
    intro q hq
    rcases hq with hq | hq
    · exact emit_sent p m q hq
    · exact ih q hq

theorem advance_ok (p : Producer) (c : Nat) :
    (p.advanceConfirmed c).1.demandUpTo = p.demandUpTo ∧ sentSeqs (p.advanceConfirmed c).2 = [] := by
  unfold Producer.advanceConfirmed Producer.confirmations
  split
  · exact ⟨rfl, rfl⟩
  · refine ⟨rfl, ?_⟩
    simp only []
    split
    · generalize (List.filter _ _) = l
      induction l with
      | nil => rfl
      | cons x xs ih => simpa [sentSeqs] using ih
    · rfl

theorem allow_ok (p : Producer) : p.allowNextRequest.1.demandUpTo = p.demandUpTo ∧ sentSeqs p.allowNextRequest.2 = [] := by
  unfold Producer.allowNextRequest; split <;> exact ⟨rfl, rfl⟩

theorem replyStored_ok (p : Producer) : p.replyStored.1.demandUpTo = p.demandUpTo ∧ sentSeqs p.replyStored.2 = [] :=
  ⟨rfl, rfl⟩

/-- every handler of the producer controller, for any input whose Request (if it is one) is within `g` -/
theorem handle_ok (p : Producer) (pin : PIn) (g : Nat) (h : p.demandUpTo ≤ g)
    (hreq : ∀ s n c u v, pin = .fromConsumer (.request s n c u v) → u ≤ g) :
    POk (p.handle pin).1 (p.handle pin).2 g := by
  unfold Producer.handle
  split
  · exact POk.noout h
  · split
    · rename_i n
      unfold Producer.handleRegister
      simp only []
      split
      · exact ⟨Nat.le_trans (Nat.min_le_left _ _) h, by simp [sentSeqs]⟩
      · exact ⟨h, by simp [sentSeqs]⟩
    · rename_i s n c u v
      have hu := hreq s n c u v rfl
      unfold Producer.handleRequest
      split; · exact POk.noout h
      split; · exact POk.noout h
      simp only []
      generalize hp2 : ({ (p.advanceConfirmed c).1 with demandUpTo := u, windowSpan := u - c } : Producer) = p2
      have hd2 : p2.demandUpTo = u := by subst hp2; rfl
      refine ⟨by rw [(allow_ok p2).1, hd2]; exact hu, ?_⟩
      simp only [sentSeqs_append, (advance_ok p c).2, (allow_ok p2).2, List.nil_append, List.append_nil]
      intro q hq
      split at hq
      · have := flatMap_emit_sent p2 _ q hq; omega
      · simp [sentSeqs] at hq
    · rename_i s n c
      unfold Producer.handleAck
      split; · exact POk.noout h
      split; · exact POk.noout h
      exact ⟨by rw [(advance_ok p c).1]; exact h, by rw [(advance_ok p c).2]; simp⟩
    · rename_i s t i v l
      unfold Producer.handleProduced Producer.terminate
      split; · exact POk.noout h
      split; · exact POk.noout h
      split; · exact POk.noout h
      split; · exact POk.noout h
      split; · exact POk.noout h
      split
      · unfold Producer.storeChunks Producer.terminate
        simp only []
        split
        · exact POk.noout h
        · exact ⟨h, by simp [Producer.replyStored, sentSeqs]⟩
      · unfold Producer.completeStore
        exact ⟨h, by simp [Producer.replyStored, sentSeqs]⟩
    · rename_i s t i
      unfold Producer.handleStoredAck Producer.terminate
      split; · exact POk.noout h
      split
      · unfold Producer.completeAccept
        simp only []
        generalize hp1 : (Producer.resetHandshake { p with handshake := .accept, storedMessage := none, lastToken := p.token, lastId := p.pendingId }) = p1
        have hd1 : p1.demandUpTo = p.demandUpTo := by subst hp1; rfl
        refine ⟨by rw [(allow_ok p1).1, hd1]; exact h, ?_⟩
        simp only [sentSeqs_append, (allow_ok p1).2, List.append_nil]
        intro q hq
        split at hq
        · have := emit_sent { p with handshake := .accept, storedMessage := none } _ q hq
          exact Nat.le_trans this h
        · have := flatMap_emit_sent { p with handshake := .accept, storedMessage := none } _ q hq
          exact Nat.le_trans this h
      split; · exact POk.noout h
      split; · exact POk.noout h
      exact POk.noout h
    · unfold Producer.handleTick
      split
      · exact ⟨h, by simp [sentSeqs]⟩
      · exact ⟨h, by split <;> simp [sentSeqs]⟩
      · exact POk.noout h

/-- world invariant: the emission limit and every Request still in flight are within the highest request so far -/
structure DInv (w : World) (g : Nat) : Prop where
  dem : w.p.demandUpTo ≤ g
  net : ∀ s n c u v, CMsg.request s n c u v ∈ w.netCP → u ≤ g

/-- the ghost after a step: requests the consumer controller sent in this step raise it -/
def gAfter (o : StepOut) (g : Nat) : Nat := reqMax (cpOf o.couts) g

theorem stepP_ok {w : World} {g : Nat} (h : DInv w g) (pin : PIn)
    (hreq : ∀ s n c u v, pin = .fromConsumer (.request s n c u v) → u ≤ g)
    (hnet : ∀ s n c u v, CMsg.request s n c u v ∈ w.netCP → u ≤ g) :
    DInv (w.stepP pin).1 (gAfter (w.stepP pin).2 g) ∧ ∀ q ∈ sentSeqs (w.stepP pin).2.pouts, q ≤ g := by
  have hk := handle_ok w.p pin g h.dem hreq
  refine ⟨⟨?_, ?_⟩, hk.sent⟩
  · show (w.p.handle pin).1.demandUpTo ≤ reqMax (cpOf []) g
    exact hk.dem
  · intro s n c u v hm
    show u ≤ reqMax (cpOf []) g
    exact hnet s n c u v hm

theorem stepC_ok {w : World} {g : Nat} (h : DInv w g) (cin : CIn)
    (hnet : ∀ s n c u v, CMsg.request s n c u v ∈ w.netCP → u ≤ g) (hp : w.p.demandUpTo ≤ g) :
    DInv (w.stepC cin).1 (gAfter (w.stepC cin).2 g) ∧ ∀ q ∈ sentSeqs (w.stepC cin).2.pouts, q ≤ g := by
  refine ⟨⟨Nat.le_trans hp (reqMax_ge _ _), ?_⟩, by simp [World.stepC, sentSeqs]⟩
  intro s n c u v hm
  have hm : CMsg.request s n c u v ∈ w.netCP ++ cpOf (w.c.handle cin w.now).2 := hm
  rcases List.mem_append.mp hm with hm | hm
  · exact Nat.le_trans (hnet s n c u v hm) (reqMax_ge _ _)
  · exact reqMax_mem _ _ hm

theorem mem_eraseIdx' {α} {l : List α} {i : Nat} {x : α} (h : x ∈ l.eraseIdx i) : x ∈ l :=
  (List.eraseIdx_sublist l i).mem h

/-- every step keeps the invariant, and everything the producer controller sends in it is within `g` -/
theorem step_ok {w : World} {g : Nat} (h : DInv w g) (s : Step) :
    DInv (w.step s).1 (gAfter (w.step s).2 g) ∧ ∀ q ∈ sentSeqs (w.step s).2.pouts, q ≤ g := by
  have same : ∀ w' : World, w'.p = w.p → (∀ x ∈ w'.netCP, x ∈ w.netCP) → DInv w' (gAfter {} g) ∧ ∀ q ∈ sentSeqs ({} : StepOut).pouts, q ≤ g := by
    intro w' hp hn
    exact ⟨⟨by rw [hp]; exact h.dem, fun s n c u v hm => h.net s n c u v (hn _ hm)⟩, by simp [sentSeqs]⟩
  cases s with
  | deliverPC i =>
    simp only [World.step]; split
    · exact stepC_ok (w := { w with netPC := w.netPC.eraseIdx i }) ⟨h.dem, h.net⟩ _ h.net h.dem
    · exact same w rfl (fun _ hx => hx)
  | dupPC i =>
    simp only [World.step]; split
    · exact stepC_ok h _ h.net h.dem
    · exact same w rfl (fun _ hx => hx)
  | dropPC i => exact same _ rfl (fun _ hx => hx)
  | deliverCP i =>
    simp only [World.step]; split
    · rename_i x hx
      have hmem : x ∈ w.netCP := List.mem_of_getElem? hx
      refine stepP_ok (w := { w with netCP := w.netCP.eraseIdx i }) ⟨h.dem, fun s n c u v hm => h.net s n c u v (mem_eraseIdx' hm)⟩ (.fromConsumer x) ?_
        (fun s n c u v hm => h.net s n c u v (mem_eraseIdx' hm))
      intro s n c u v e; cases e; exact h.net _ _ _ _ _ hmem
    · exact same w rfl (fun _ hx => hx)
  | dupCP i =>
    simp only [World.step]; split
    · rename_i x hx
      have hmem : x ∈ w.netCP := List.mem_of_getElem? hx
      refine stepP_ok h (.fromConsumer x) ?_ h.net
      intro s n c u v e; cases e; exact h.net _ _ _ _ _ hmem
    · exact same w rfl (fun _ hx => hx)
  | dropCP i => exact same _ rfl (fun _ hx => mem_eraseIdx' hx)
  | tickP => exact stepP_ok h .tick (by intro _ _ _ _ _ e; cases e) h.net
  | tickC => exact stepC_ok h .tick h.net h.dem
  | userP =>
    simp only [World.step]; split
    · exact same w rfl (fun _ hx => hx)
    · rename_i m0 rest hin
      cases m0 with
      | requestNext s t =>
        simp only []
        generalize hw2 : (if (match w.userP.answered with | some (t', _, _, _) => t' == t | none => false) = true
            then ({ w with inboxP := rest } : World)
            else { ({ w with inboxP := rest } : World) with userP := { answered := some (t, w.userP.jobs + 1, Spec.C42.payloadOf (w.userP.jobs + 1), frameLenOf { w with inboxP := rest } (w.userP.jobs + 1)), jobs := w.userP.jobs + 1 } }) = w2
        have hw : w2.p = w.p ∧ w2.netCP = w.netCP := by
          subst hw2
          cases hans : w.userP.answered with
          | none => exact ⟨rfl, rfl⟩
          | some x => obtain ⟨t', a, b, c⟩ := x; simp only []; split <;> exact ⟨rfl, rfl⟩
        split
        · rename_i i v l _
          exact stepP_ok (w := w2) ⟨by rw [hw.1]; exact h.dem, by rw [hw.2]; exact h.net⟩ (.produced s t i v l)
            (by intro _ _ _ _ _ e; cases e) (by rw [hw.2]; exact h.net)
        · exact same w2 hw.1 (fun x hx => hw.2 ▸ hx)
      | stored s t i q =>
        exact stepP_ok (w := { w with inboxP := rest }) ⟨h.dem, h.net⟩ _ (by intro _ _ _ _ _ e; cases e) h.net
      | deliveryConfirmed s i q => exact same _ rfl (fun _ hx => hx)
  | userPDrop => exact same _ rfl (fun _ hx => hx)
  | userC confirm =>
    simp only [World.step]; split
    · exact same w rfl (fun _ hx => hx)
    · rename_i d rest hin
      split
      · exact stepC_ok (w := { w with inboxC := rest }) ⟨h.dem, h.net⟩ (.confirmed d.session d.id d.seq) h.net h.dem
      · exact same _ rfl (fun _ hx => hx)
  | userCDrop => exact same _ rfl (fun _ hx => hx)
  | time t => exact same _ rfl (fun _ hx => hx)

/-- run a script checking, at every step, that nothing is sent beyond the highest request so far -/
def demandOK (w : World) (g : Nat) : List Step → Bool
  | [] => true
  | s :: ss =>
    let r := w.step s
    (sentSeqs r.2.pouts).all (fun q => decide (q ≤ g)) && demandOK r.1 (gAfter r.2 g) ss

theorem demandOK_of_inv {w : World} {g : Nat} (h : DInv w g) (ss : List Step) : demandOK w g ss = true := by
  induction ss generalizing w g with
  | nil => rfl
  | cons s ss ih =>
    have hs := step_ok h s
    simp only [demandOK, Bool.and_eq_true, List.all_eq_true, decide_eq_true_eq]
    exact ⟨hs.2, ih hs.1⟩

theorem init_inv (window interval : Nat) (dc : Bool) (maxChunk : Nat) (lens : List Nat) :
    DInv (World.init window interval dc maxChunk lens) 0 := by
  refine ⟨Nat.le_refl _, ?_⟩
  intro s n c u v hm
  simp [World.init, Consumer.register, cpOf] at hm

end GoaktVerif.C43c

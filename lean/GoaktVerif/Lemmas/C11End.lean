/-
C11 — the second phase of a spawn (PreStart returns, attachAndPublish) preserves the invariant.
-/
import GoaktVerif.Lemmas.C11Inv

namespace GoaktVerif.C11
open GoaktVerif.Model.C11

theorem bumpMax_procs (s : St) (k : Path) : (bumpMax s k).procs = s.procs := by
  unfold bumpMax; simp only []; split <;> (try split) <;> rfl
theorem bumpMax_tree (s : St) (k : Path) : (bumpMax s k).tree = s.tree := by
  unfold bumpMax; simp only []; split <;> (try split) <;> rfl
theorem bumpMax_names (s : St) (k : Path) : (bumpMax s k).names = s.names := by
  unfold bumpMax; simp only []; split <;> (try split) <;> rfl
theorem bumpMax_counter (s : St) (k : Path) : (bumpMax s k).counter = s.counter := by
  unfold bumpMax; simp only []; split <;> (try split) <;> rfl
theorem bumpMax_flights (s : St) (k : Path) : (bumpMax s k).flights = s.flights := by
  unfold bumpMax; simp only []; split <;> (try split) <;> rfl
theorem bumpMax_stops (s : St) (k : Path) : (bumpMax s k).stops = s.stops := by
  unfold bumpMax; simp only []; split <;> (try split) <;> rfl

theorem phaseOf_congr {s s' : St} (h : s'.procs = s.procs) (q : ProcId) : phaseOf s' q = phaseOf s q := by
  unfold phaseOf; rw [h]
theorem pathOf_congr {s s' : St} (h : s'.procs = s.procs) (q : ProcId) : pathOf s' q = pathOf s q := by
  unfold pathOf; rw [h]

theorem markRunning_tree (s : St) (k : Path) (p : ProcId) : (markRunning s k p).tree = s.tree := by
  unfold markRunning; rw [bumpMax_tree]; rfl
theorem markRunning_names (s : St) (k : Path) (p : ProcId) : (markRunning s k p).names = s.names := by
  unfold markRunning; rw [bumpMax_names]; rfl
theorem markRunning_counter (s : St) (k : Path) (p : ProcId) : (markRunning s k p).counter = s.counter := by
  unfold markRunning; rw [bumpMax_counter]; rfl
theorem markRunning_stops (s : St) (k : Path) (p : ProcId) : (markRunning s k p).stops = s.stops := by
  unfold markRunning; rw [bumpMax_stops]; rfl
theorem markRunning_flights (s : St) (k : Path) (p : ProcId) :
    (markRunning s k p).flights = s.flights.filter (·.1 ≠ k) := by
  unfold markRunning; rw [bumpMax_flights]; rfl
theorem markRunning_procs (s : St) (k : Path) (p : ProcId) :
    (markRunning s k p).procs = (setPhase s p .running).procs := by
  unfold markRunning; rw [bumpMax_procs]; rfl

theorem phaseOf_markRunning (s : St) (k : Path) (p q : ProcId) :
    phaseOf (markRunning s k p) q = if q = p ∧ q < s.procs.length then .running else phaseOf s q := by
  rw [phaseOf_congr (markRunning_procs s k p), phaseOf_setPhase]
theorem pathOf_markRunning (s : St) (k : Path) (p q : ProcId) : pathOf (markRunning s k p) q = pathOf s q := by
  rw [pathOf_congr (markRunning_procs s k p), pathOf_setPhase]

theorem runningCount_markRunning (s : St) (k : Path) (p : ProcId) (hp : phaseOf s p = .starting) :
    runningCount (markRunning s k p) = runningCount s + 1 := by
  have hlt : p < s.procs.length := lt_of_phase_ne_stopped (by rw [hp]; exact fun x => nomatch x)
  unfold runningCount
  have hl : (markRunning s k p).procs.length = s.procs.length := by
    rw [markRunning_procs, length_setPhase]
  rw [hl]
  apply filter_range_flip (fun q => isRunning s q) (fun q => isRunning (markRunning s k p) q) p _ hlt
  · intro i hi
    unfold isRunning
    rw [phaseOf_markRunning, if_neg (fun x => hi x.1)]
  · unfold isRunning; rw [hp]; rfl
  · unfold isRunning; rw [phaseOf_markRunning, if_pos ⟨rfl, hlt⟩]; rfl

/-- the end of a flight under the invariant: the new actor runs, is inserted, counted and returned -/
theorem inv_end {s : St} (h : Inv s) (key : Path) (p : ProcId) (kind : Kind) (hm : (key, p, kind) ∈ s.flights) :
    Inv (spawnEnd s key p kind).1 ∧ (spawnEnd s key p kind).2 = .pid p true ∧
    phaseOf (spawnEnd s key p kind).1 p = .running ∧
    (∀ q, phaseOf s q = .running → phaseOf (spawnEnd s key p kind).1 q = .running) := by
  obtain ⟨hp, hpath, hfree, hchild⟩ := h.flights key p kind hm
  have hlt : p < s.procs.length := lt_of_phase_ne_stopped (by rw [hp]; exact fun x => nomatch x)
  have s1tree := markRunning_tree s key p
  have hpok : parentOK (markRunning s key p) kind key = true := by
    unfold parentOK
    cases kind with
    | child =>
      obtain ⟨par, x, e, hs⟩ := hchild rfl
      subst e
      simp only []
      rw [s1tree]; exact hs
    | spawn => split <;> first | rfl | (rename_i hk _; exact absurd rfl (hk _ _ |>.elim)) | simp_all
    | func => split <;> first | rfl | simp_all
  have hend : spawnEnd s key p kind = (attach (markRunning s key p) key p, .pid p true) := by
    unfold spawnEnd
    simp only []
    rw [s1tree, hfree]
    simp only [hpok, if_true]
  rw [hend]
  simp only []
  -- abbreviations
  have ph1 : ∀ q, phaseOf (attach (markRunning s key p) key p) q = if q = p ∧ q < s.procs.length then .running else phaseOf s q :=
    fun q => by rw [← phaseOf_markRunning s key p q]; rfl
  have pa1 : ∀ q, pathOf (attach (markRunning s key p) key p) q = pathOf s q :=
    fun q => by rw [← pathOf_markRunning s key p q]; rfl
  have tr1 : (attach (markRunning s key p) key p).tree = (key, p) :: s.tree := by
    show (key, p) :: (markRunning s key p).tree = _; rw [s1tree]
  have nm1 : (attach (markRunning s key p) key p).names = (lastName key, p) :: s.names := by
    show (lastName key, p) :: (markRunning s key p).names = _; rw [markRunning_names]
  have keep : ∀ q, phaseOf s q = .running → phaseOf (attach (markRunning s key p) key p) q = .running := by
    intro q hq
    rw [ph1]; split
    · rfl
    · exact hq
  refine ⟨⟨?_, ?_, ?_, ?_, ?_, ?_, ?_, ?_⟩, True.intro, by rw [ph1, if_pos ⟨rfl, hlt⟩], keep⟩
  · -- treeRun
    intro k q hq
    rw [tr1] at hq
    rcases List.mem_cons.mp hq with e | e
    · injection e with e1 e2; subst e1; subst e2
      exact ⟨by rw [ph1, if_pos ⟨rfl, hlt⟩], by rw [pa1]; exact hpath⟩
    · obtain ⟨a, b⟩ := h.treeRun k q e
      exact ⟨keep q a, by rw [pa1]; exact b⟩
  · -- runTree
    intro q hq
    rw [tr1, pa1, lookup_cons]
    by_cases e : q = p
    · subst e; rw [hpath, if_pos rfl]
    · rw [ph1, if_neg (fun x => e x.1)] at hq
      have hl := h.runTree q hq
      have : key ≠ pathOf s q := by
        intro ek; rw [← ek, hfree] at hl; cases hl
      rw [if_neg this]; exact hl
  · -- namesRun
    intro n q hq
    rw [nm1, lookup_cons] at hq
    by_cases e : lastName key = n
    · rw [if_pos e] at hq; injection hq with hq; subst hq
      rw [ph1, if_pos ⟨rfl, hlt⟩]
    · rw [if_neg e] at hq
      exact keep q (h.namesRun n q hq)
  · -- treeNames
    intro k q hq
    rw [tr1, lookup_cons] at hq
    rw [nm1, lookup_cons]
    by_cases e : lastName key = lastName k
    · rw [if_pos e]; exact ⟨p, rfl⟩
    · rw [if_neg e]
      by_cases ek : key = k
      · exact absurd (by rw [ek]) e
      · rw [if_neg ek] at hq
        exact h.treeNames k q hq
  · -- flights
    intro k q kd hq
    have hq' : (k, q, kd) ∈ s.flights.filter (·.1 ≠ key) := by
      have : (attach (markRunning s key p) key p).flights = s.flights.filter (·.1 ≠ key) := markRunning_flights s key p
      rw [this] at hq; exact hq
    obtain ⟨hin, hne⟩ := List.mem_filter.mp hq'
    have hne' : k ≠ key := by simpa using hne
    obtain ⟨a, b, c, d⟩ := h.flights k q kd hin
    have hqp : q ≠ p := by
      intro e; subst e; rw [hpath] at b; exact hne' b.symm
    refine ⟨by rw [ph1, if_neg (fun x => hqp x.1)]; exact a, by rw [pa1]; exact b, ?_, ?_⟩
    · rw [tr1, lookup_cons, if_neg (fun x => hne' x.symm)]; exact c
    · intro hk
      obtain ⟨par, x, e1, e2⟩ := d hk
      refine ⟨par, x, e1, ?_⟩
      rw [tr1, lookup_cons]
      split
      · rfl
      · exact e2
  · -- keys
    have : (attach (markRunning s key p) key p).flights = s.flights.filter (·.1 ≠ key) := markRunning_flights s key p
    rw [this]
    exact List.Nodup.sublist (List.Sublist.map _ List.filter_sublist) h.keys
  · -- count
    show (markRunning s key p).counter + 1 = runningCount (attach (markRunning s key p) key p)
    rw [markRunning_counter, h.count]
    have : runningCount (attach (markRunning s key p) key p) = runningCount (markRunning s key p) := rfl
    rw [this, runningCount_markRunning s key p hp]
  · show (markRunning s key p).stops = []
    rw [markRunning_stops]; exact h.noStops

end GoaktVerif.C11

import GoaktVerif.Lemmas.C23
/-
Totality / memory safety of the decoders: the model's explicit Go bounds checks never fire.
-/
namespace GoaktVerif.C23
open GoaktVerif.Model.C23

theorem mdLoop_nopanic (data : Bytes) : ∀ (count pos : Nat) (m : Headers),
    mdLoop data count pos m ≠ .error .panic := by
  intro count
  induction count with
  | zero => intro pos m; simp [mdLoop]
  | succ n ih =>
    intro pos m
    unfold mdLoop
    split
    · simp
    · obtain ⟨kl, hk, _⟩ := u16At_of_le (d := data) (pos := pos) (by omega)
      simp only [hk]
      split
      · simp
      · rw [slice_of_le (by omega) (by omega)]
        simp only []
        split
        · simp
        · obtain ⟨vl, hv, _⟩ := u16At_of_le (d := data) (pos := pos + 2 + kl) (by omega)
          simp only [hv]
          split
          · simp
          · rw [slice_of_le (by omega) (by omega)]
            exact ih _ _

/-- the loop never moves the cursor past the end -/
theorem mdLoop_pos_le (data : Bytes) : ∀ (count pos : Nat) (m : Headers) (pos' : Nat) (m' : Headers),
    pos ≤ data.length → mdLoop data count pos m = .ok (pos', m') → pos' ≤ data.length := by
  intro count
  induction count with
  | zero => intro pos m pos' m' hp h; simp [mdLoop] at h; omega
  | succ n ih =>
    intro pos m pos' m' hp h
    unfold mdLoop at h
    split at h
    · simp at h
    · obtain ⟨kl, hk, _⟩ := u16At_of_le (d := data) (pos := pos) (by omega)
      simp only [hk] at h
      split at h
      · simp at h
      · rw [slice_of_le (by omega) (by omega)] at h
        simp only [] at h
        split at h
        · simp at h
        · obtain ⟨vl, hv, _⟩ := u16At_of_le (d := data) (pos := pos + 2 + kl) (by omega)
          simp only [hv] at h
          split at h
          · simp at h
          · rw [slice_of_le (by omega) (by omega)] at h
            exact ih _ _ _ _ (by omega) h

theorem mdUnmarshal_nopanic (data : Bytes) : mdUnmarshal data ≠ .error .panic := by
  unfold mdUnmarshal
  split
  · simp
  · obtain ⟨c, hc, _⟩ := u16At_of_le (d := data) (pos := 0) (by omega)
    simp only [hc]
    split
    · rename_i e he
      intro h
      exact mdLoop_nopanic data c 2 [] (by rw [he]; simpa using h)
    · rename_i pos m he
      split
      · simp
      · obtain ⟨r, hr, _⟩ := u64At_of_le (d := data) (pos := pos) (by omega)
        simp [hr]

/-- the only error the metadata loop reports is `ErrInvalidMetadata` -/
theorem mdLoop_err (data : Bytes) : ∀ (count pos : Nat) (m : Headers) (e : Err),
    mdLoop data count pos m = .error e → e = .invalidMetadata := by
  intro count
  induction count with
  | zero => intro pos m e h; simp [mdLoop] at h
  | succ n ih =>
    intro pos m e h
    unfold mdLoop at h
    split at h
    · simp at h; exact h.symm
    · obtain ⟨kl, hk, _⟩ := u16At_of_le (d := data) (pos := pos) (by omega)
      simp only [hk] at h
      split at h
      · simp at h; exact h.symm
      · rw [slice_of_le (by omega) (by omega)] at h
        simp only [] at h
        split at h
        · simp at h; exact h.symm
        · obtain ⟨vl, hv, _⟩ := u16At_of_le (d := data) (pos := pos + 2 + kl) (by omega)
          simp only [hv] at h
          split at h
          · simp at h; exact h.symm
          · rw [slice_of_le (by omega) (by omega)] at h
            exact ih _ _ _ h

/-- the only error `Metadata.UnmarshalBinary` reports is `ErrInvalidMetadata` -/
theorem mdUnmarshal_err {data : Bytes} {e : Err} (h : mdUnmarshal data = .error e) : e = .invalidMetadata := by
  unfold mdUnmarshal at h
  split at h
  · simp at h; exact h.symm
  · obtain ⟨c, hc, _⟩ := u16At_of_le (d := data) (pos := 0) (by omega)
    simp only [hc] at h
    split at h
    · rename_i e' he
      simp only [Except.error.injEq] at h
      subst h
      exact mdLoop_err data c 2 [] _ he
    · rename_i pos m he
      split at h
      · simp at h; exact h.symm
      · obtain ⟨r, hr, _⟩ := u64At_of_le (d := data) (pos := pos) (by omega)
        simp [hr] at h

/-- after framing, a decoder fails only with unknown type, invalid metadata or a protobuf error -/
theorem finish_err {c : Codec} {r : Raw} {e : Err} (h : finish c r = .error e) :
    e = .unknownType ∨ e = .invalidMetadata ∨ e = .unmarshalFailed := by
  unfold finish at h
  split at h
  · simp at h; exact Or.inl h.symm
  · split at h
    · rename_i e' he
      simp only [Except.error.injEq] at h
      subst h
      split at he
      · split at he
        · rename_i e2 he2
          simp only [Except.error.injEq] at he
          subst he
          exact Or.inr (Or.inl (mdUnmarshal_err he2))
        · simp at he
      · simp at he
    · split at h
      · simp at h; exact Or.inr (Or.inr h.symm)
      · simp at h

theorem unmarshal_nopanic (c : Codec) (data : Bytes) : unmarshal c data ≠ .error .panic := by
  unfold unmarshal
  split
  · simp
  · obtain ⟨ml, hml, _⟩ := u32At_of_le (d := data) (pos := 0) (by omega)
    simp only [hml]
    split
    · simp
    · obtain ⟨nl, hnl, _⟩ := u32At_of_le (d := data) (pos := 4) (by omega)
      simp only [hnl]
      split
      · simp
      · rw [slice_of_le (by omega) (by omega), slice_of_le (by omega) (by omega)]
        simp only []
        split
        · simp
        · split <;> simp

theorem unmarshalWithMeta_nopanic (c : Codec) (data : Bytes) : unmarshalWithMeta c data ≠ .error .panic := by
  unfold unmarshalWithMeta
  split
  · simp
  · obtain ⟨ml, hml, _⟩ := u32At_of_le (d := data) (pos := 0) (by omega)
    simp only [hml]
    split
    · simp
    · obtain ⟨nl, hnl, _⟩ := u32At_of_le (d := data) (pos := 4) (by omega)
      obtain ⟨kl, hkl, _⟩ := u32At_of_le (d := data) (pos := 8) (by omega)
      simp only [hnl, hkl]
      split
      · simp
      · rw [slice_of_le (by omega) (by omega), slice_of_le (by omega) (by omega), slice_of_le (by omega) (by omega)]
        simp only []
        split
        · simp
        · split
          · rename_i e he
            split at he
            · split at he
              · rename_i e' he'
                have := mdUnmarshal_nopanic ((data.drop (12 + nl)).take (12 + nl + kl - (12 + nl)))
                simp only [Except.error.injEq] at he
                subst he
                intro h
                simp only [Except.error.injEq] at h
                subst h
                exact this he'
              · simp at he
            · simp at he
          · split <;> simp

theorem serverDecode_nopanic (c : Codec) (frame : Bytes) : serverDecode c frame ≠ .error .panic := by
  unfold serverDecode
  split
  · split
    · exact unmarshal_nopanic c frame
    · rename_i r hne
      exact unmarshalWithMeta_nopanic c frame
  · exact unmarshal_nopanic c frame

theorem clientDecode_nopanic (c : Codec) (frame : Bytes) : clientDecode c frame ≠ .error .panic := by
  unfold clientDecode
  split
  · exact unmarshal_nopanic c frame
  · obtain ⟨a, ha, _⟩ := u32At_of_le (d := frame) (pos := 0) (by omega)
    obtain ⟨b, hb, _⟩ := u32At_of_le (d := frame) (pos := 4) (by omega)
    obtain ⟨e, he, _⟩ := u32At_of_le (d := frame) (pos := 8) (by omega)
    simp only [ha, hb, he]
    split
    · split
      · simp
      · exact unmarshal_nopanic c frame
    · exact unmarshal_nopanic c frame

end GoaktVerif.C23

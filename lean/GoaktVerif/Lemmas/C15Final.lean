import GoaktVerif.Lemmas.C15Worker

/-
C15 — `Mode.fixed`: every action preserves the invariant; the initial configuration satisfies it; what it gives.
-/
set_option linter.unusedSimpArgs false
set_option linter.unusedVariables false

namespace GoaktVerif.C15
open GoaktVerif.Model.C15

theorem upd_self (c : Cfg) (tid : Nat) (t : Thread) (ht : c.threads[tid]? = some t) : upd c tid t = c := by
  have : c.threads.set tid t = c.threads := by
    apply List.ext_getElem?
    intro j
    simp only [List.getElem?_set]
    by_cases e : tid = j
    · subst e
      obtain ⟨hlt, he⟩ := List.getElem?_eq_some_iff.mp ht
      simp [hlt, ht]
      exact he.symm
    · simp [e]
  simp [upd, this]

theorem finv_step {c : Cfg} {own : ChanId → ReqId} (h : FInv c own) (tid : Nat) : ∃ own1, FInv (step c tid) own1 := by
  cases ht : c.threads[tid]? with
  | none => exact ⟨own, by simpa [step, ht] using h⟩
  | some t =>
    cases hpc : t.pc with
    | none => exact ⟨own, by simpa [step, ht, hpc] using h⟩
    | some pc =>
      rw [step_eq c tid t pc ht hpc]
      cases pc with
      | askBuild i k => exact finv_build h ht hpc
      | askSelect i ch k => exact ⟨own, finv_select h ht hpc⟩
      | askClose i ch r =>
        have := (h.thr tid t ht).1
        simp [ThreadOk, hpc] at this
      | hDeq => exact ⟨own, finv_deq h ht hpc⟩
      | hCas i k => exact ⟨own, finv_cas h ht hpc⟩
      | hSend i k => exact ⟨own, finv_send h ht hpc⟩

theorem finv_timeout {c : Cfg} {own : ChanId → ReqId} (h : FInv c own) (tid : Nat) : FInv (timeout c tid) own := by
  unfold timeout
  cases ht : c.threads[tid]? with
  | none => exact h
  | some t =>
    have hok := h.thr tid t ht
    simp only
    split
    · rename_i i k hpc
      exact finv_same (t' := { t with deadline := true }) h ht
        ⟨by have := hok.1; simpa [ThreadOk, hpc] using this, hok.2⟩
        (Or.inl (by simp [buildCtx])) (Or.inl (by simp [selChan])) (fun x => x)
    · rename_i i ch k hpc
      exact finv_same (t' := { t with deadline := true }) h ht
        ⟨by have := hok.1; simpa [ThreadOk, hpc] using this, hok.2⟩
        (Or.inl (by simp [buildCtx])) (Or.inl (by simp [selChan])) (fun x => x)
    · exact h

theorem finv_act {c : Cfg} {own : ChanId → ReqId} (h : FInv c own) (a : Act) : ∃ own1, FInv (act c a) own1 := by
  cases a with
  | run tid => exact finv_step h tid
  | timeout tid => exact ⟨own, finv_timeout h tid⟩

theorem finv_runActs (acts : List Act) : ∀ (c : Cfg) (own : ChanId → ReqId), FInv c own → ∃ own1, FInv (runActs c acts) own1 := by
  induction acts with
  | nil => intro c own h; exact ⟨own, h⟩
  | cons a acts ih =>
    intro c own h
    obtain ⟨own1, h1⟩ := finv_act h a
    exact ih _ own1 h1

/-! ### initial configuration -/

def hasH (p : List Op) : Bool := p.contains .handle

theorem hasH_iff (p : List Op) : hasH p = true ↔ Op.handle ∈ p := by simp [hasH]

def idle (p : List Op) : Thread := { pc := none, cur := none, prog := p, hist := [], deadline := false }

theorem spawn_cons (c : Cfg) (p : List Op) (ps : List (List Op)) :
    spawn c (p :: ps) =
      spawn { (startNext c (idle p)).1 with threads := (startNext c (idle p)).1.threads ++ [(startNext c (idle p)).2] } ps := rfl

theorem startNext_threads (c : Cfg) (t0 : Thread) : (startNext c t0).1.threads = c.threads := by
  unfold startNext
  cases t0.prog with
  | nil => rfl
  | cons op rest =>
    cases op with
    | handle => rfl
    | ask k =>
      cases hm : c.mode <;> cases hp : c.ctxPool <;> simp [getContext, hm, hp]

/-- adding an idle thread -/
theorem finv_add_idle {c : Cfg} {own} (h : FInv c own) (d : Thread) (hd : d.pc = none) (hh : d.hist = [])
    (hs : responderish d → ∀ (tid : Nat) t, c.threads[tid]? = some t → ¬ responderish t) :
    FInv { c with threads := c.threads ++ [d] } own := by
  have get : ∀ (j : Nat) tj, (c.threads ++ [d])[j]? = some tj →
      (c.threads[j]? = some tj) ∨ (j = c.threads.length ∧ tj = d) := by
    intro j tj hj
    simp only [List.getElem?_append] at hj
    split at hj
    · exact Or.inl hj
    · rename_i hlt
      cases hx : ([d] : List Thread)[j - c.threads.length]? with
      | none => rw [hx] at hj; cases hj
      | some y =>
        rw [hx] at hj; cases hj
        have hm := List.mem_of_getElem? hx
        have hlen := (List.getElem?_eq_some_iff.mp hx).1
        simp at hm hlen
        right; exact ⟨by omega, hm⟩
  have hdb : buildCtx d = none := by simp [buildCtx, hd]
  have hds : selChan d = none := by simp [selChan, hd]
  refine ⟨⟨h.g.mode, h.g.b_sent, h.g.b_mbox, h.g.b_cpool, h.g.b_hpool, h.g.b_resp, h.g.lin, h.g.val, h.g.pool_empty,
    h.g.pool_nodup, h.g.mbox_ok, h.g.mbox_dist⟩, ?_, ?_, ?_, ?_⟩
  · intro j tj hj
    rcases get j tj hj with g | ⟨_, rfl⟩
    · exact h.thr j tj g
    · exact ⟨by simp [ThreadOk, hd], by intro k v hm; rw [hh] at hm; cases hm⟩
  · intro t1 t2 th1 th2 i hne h1 h2 hb1 hb2
    rcases get t1 th1 h1 with g1 | ⟨_, rfl⟩
    · rcases get t2 th2 h2 with g2 | ⟨_, rfl⟩
      · exact h.build_dist t1 t2 th1 th2 i hne g1 g2 hb1 hb2
      · rw [hdb] at hb2; cases hb2
    · rw [hdb] at hb1; cases hb1
  · intro t1 t2 th1 th2 ch hne h1 h2 hs1 hs2
    rcases get t1 th1 h1 with g1 | ⟨_, rfl⟩
    · rcases get t2 th2 h2 with g2 | ⟨_, rfl⟩
      · exact h.sel_dist t1 t2 th1 th2 ch hne g1 g2 hs1 hs2
      · rw [hds] at hs2; cases hs2
    · rw [hds] at hs1; cases hs1
  · intro t1 t2 th1 th2 h1 h2 r1 r2
    rcases get t1 th1 h1 with g1 | ⟨e1, rfl⟩
    · rcases get t2 th2 h2 with g2 | ⟨e2, rfl⟩
      · exact h.single t1 t2 th1 th2 g1 g2 r1 r2
      · exact absurd r1 (hs r2 t1 th1 g1)
    · rcases get t2 th2 h2 with g2 | ⟨e2, rfl⟩
      · exact absurd r2 (hs r1 t2 th2 g2)
      · rw [e1, e2]

theorem finv_empty : FInv (empty .fixed) (fun _ => 0) := by
  refine ⟨⟨rfl, by simp [empty], by simp [empty], by simp [empty], by simp [empty], ?_, by simp [empty], ?_,
    by simp [empty], by simp [empty], by simp [empty], by simp [empty]⟩, ?_, ?_, ?_, ?_⟩
  · intro i ch hx
    have : ctxOf (empty .fixed) i = { closed := false, response := none, msg := none } := by
      simp only [ctxOf, empty, List.getD_eq_getElem?_getD]
      cases i <;> simp
    rw [this] at hx; cases hx
  · intro ch v hx; simp [chanOf, empty] at hx
  · intro j tj hj; simp [empty] at hj
  · intro t1 t2 th1 th2 i _ h1; simp [empty] at h1
  · intro t1 t2 th1 th2 ch _ h1; simp [empty] at h1
  · intro t1 t2 th1 th2 h1; simp [empty] at h1

theorem finv_spawn (ps : List (List Op)) : ∀ (c : Cfg) (own : ChanId → ReqId), FInv c own →
    (∀ (tid : Nat) t, c.threads[tid]? = some t → responderish t → ∀ p ∈ ps, hasH p = false) →
    (ps.filter hasH).length ≤ 1 → ∃ own1, FInv (spawn c ps) own1 := by
  induction ps with
  | nil => intro c own h _ _; exact ⟨own, h⟩
  | cons p ps ih =>
    intro c own h hex hcnt
    rw [spawn_cons]
    have hidle : responderish (idle p) ↔ hasH p = true := by
      rw [hasH_iff]; simp [responderish, idle]
    have h1 := finv_add_idle h (idle p) rfl rfl (by
      intro hr tid t ht hrt
      have := hex tid t ht hrt p (by simp)
      rw [hidle.mp hr] at this; cases this)
    have hlen : (c.threads ++ [idle p])[c.threads.length]? = some (idle p) := by simp
    have h2 := finv_start (c := { c with threads := c.threads ++ [idle p] }) (tid := c.threads.length) h1 hlen rfl
    -- `startNext` does not read the thread list
    have e1 : startNext { c with threads := c.threads ++ [idle p] } (idle p) =
        ({ (startNext c (idle p)).1 with threads := c.threads ++ [idle p] }, (startNext c (idle p)).2) := by
      unfold startNext
      cases (idle p).prog with
      | nil => rfl
      | cons op rest =>
        cases op with
        | handle => rfl
        | ask k => cases hm : c.mode <;> cases hp : c.ctxPool <;> simp [getContext, hm, hp]
    rw [e1] at h2
    have e2 : upd { (startNext c (idle p)).1 with threads := c.threads ++ [idle p] } c.threads.length (startNext c (idle p)).2 =
        { (startNext c (idle p)).1 with threads := (startNext c (idle p)).1.threads ++ [(startNext c (idle p)).2] } := by
      simp [upd, startNext_threads]
    rw [e2] at h2
    -- the new thread is a worker only if its program asks for it
    have hnew_resp : responderish (startNext c (idle p)).2 → hasH p = true := by
      intro hr
      rw [hasH_iff]
      unfold startNext at hr
      cases hp : p with
      | nil => simp [idle, hp, responderish] at hr
      | cons op rest =>
        simp only [idle, hp] at hr
        cases op with
        | handle => simp
        | ask k =>
          cases hm : c.mode <;> cases hpl : c.ctxPool <;> simp [getContext, hm, hpl, responderish] at hr <;>
            exact List.mem_cons_of_mem _ hr
    apply ih _ own h2
    · intro tid t ht hr q hq
      simp only [List.getElem?_append, startNext_threads] at ht
      split at ht
      · exact hex tid t ht hr q (List.mem_cons_of_mem _ hq)
      · have : t = (startNext c (idle p)).2 := by
          cases hx : ([(startNext c (idle p)).2] : List Thread)[tid - c.threads.length]? with
          | none => rw [hx] at ht; cases ht
          | some y =>
            rw [hx] at ht; cases ht
            have := List.mem_of_getElem? hx
            simpa using this
        subst this
        have hp1 := hnew_resp hr
        simp only [List.filter_cons, hp1, if_true, List.length_cons] at hcnt
        have hz : (ps.filter hasH).length = 0 := by omega
        have : ps.filter hasH = [] := List.eq_nil_of_length_eq_zero hz
        cases hq' : hasH q with
        | false => rfl
        | true =>
          have : q ∈ ps.filter hasH := List.mem_filter.mpr ⟨hq, hq'⟩
          simp_all
    · simp only [List.filter_cons] at hcnt
      split at hcnt
      · have h3 : (ps.filter hasH).length + 1 ≤ 1 := hcnt
        omega
      · exact hcnt

theorem finv_init (progs : List (List Op)) (h : (progs.filter hasH).length ≤ 1) : ∃ own, FInv (init .fixed progs) own :=
  finv_spawn progs _ _ finv_empty (by intro tid t ht; simp [empty] at ht) h

end GoaktVerif.C15

import GoaktVerif.Model.C44

/-!
C44 lemmas, part 1: the multiset of jobs the work-pulling controller holds (`held`), and how the list
operations the handlers use (replace a binding by name, set by index, filter by name, append) act on it.
-/
namespace GoaktVerif.C44
open GoaktVerif.Model.C44

/-- the jobs dispatched to workers and not yet confirmed -/
def heldB (bs : List Binding) : List Job := bs.flatMap (fun b => b.unconfirmed.map Disp.job)

/-- every job the controller is responsible for: the pending pool plus every worker's unconfirmed list -/
def held (x : WP) : List Job := x.pending ++ heldB x.bindings

/-- binding names are unique (the Go `bindings` map is keyed by endpoint name) -/
def NodupNames (bs : List Binding) : Prop := (bs.map (·.name)).Nodup

theorem heldB_cons (b : Binding) (bs : List Binding) : heldB (b :: bs) = b.unconfirmed.map Disp.job ++ heldB bs := by
  simp [heldB]

theorem heldB_append (a b : List Binding) : heldB (a ++ b) = heldB a ++ heldB b := by
  simp [heldB]

theorem filter_ne_of_not_mem (bs : List Binding) (n : Nat) (h : n ∉ bs.map (·.name)) :
    bs.filter (fun b' => b'.name != n) = bs := by
  induction bs with
  | nil => rfl
  | cons a t ih =>
    simp only [List.map_cons, List.mem_cons, not_or] at h
    have : (a.name != n) = true := by simp; exact fun e => h.1 e.symm
    simp [List.filter, this, ih h.2]

theorem map_repl_of_not_mem (bs : List Binding) (n : Nat) (f : Binding → Binding) (h : n ∉ bs.map (·.name)) :
    bs.map (fun b => if b.name == n then f b else b) = bs := by
  induction bs with
  | nil => rfl
  | cons a t ih =>
    simp only [List.map_cons, List.mem_cons, not_or] at h
    have hne : a.name ≠ n := fun e => h.1 e.symm
    have ih' := ih h.2
    simp only [List.map_cons, beq_iff_eq] at ih' ⊢
    rw [if_neg hne, ih']

/-- split the held jobs at the binding named like `b` -/
theorem heldB_split (bs : List Binding) (b : Binding) (hn : NodupNames bs) (hb : b ∈ bs) :
    (heldB bs).Perm (b.unconfirmed.map Disp.job ++ heldB (bs.filter (fun b' => b'.name != b.name))) := by
  induction bs with
  | nil => cases hb
  | cons h t ih =>
    have hn' : h.name ∉ t.map (·.name) ∧ NodupNames t := by simpa [NodupNames] using hn
    rcases List.mem_cons.mp hb with rfl | hb
    · have : (b.name != b.name) = false := by simp
      simp only [List.filter, this, heldB_cons]
      rw [filter_ne_of_not_mem t b.name hn'.1]
    · have hne : h.name ≠ b.name := by
        intro e; exact hn'.1 (e ▸ List.mem_map_of_mem hb)
      have : (h.name != b.name) = true := by simpa using hne
      simp only [List.filter, this, heldB_cons]
      refine ((ih hn'.2 hb).append_left _).trans ?_
      simp only [← List.append_assoc]
      exact List.Perm.append_right _ List.perm_append_comm

/-- replace the binding named like `b` by `f b'` with a known unconfirmed list -/
theorem heldB_repl (bs : List Binding) (b : Binding) (f : Binding → Binding) (hn : NodupNames bs) (hb : b ∈ bs) :
    (heldB (bs.map (fun b0 => if b0.name == b.name then f b0 else b0))).Perm
      ((f b).unconfirmed.map Disp.job ++ heldB (bs.filter (fun b' => b'.name != b.name))) := by
  induction bs with
  | nil => cases hb
  | cons h t ih =>
    have hn' : h.name ∉ t.map (·.name) ∧ NodupNames t := by simpa [NodupNames] using hn
    rcases List.mem_cons.mp hb with rfl | hb
    · have e1 : (b.name != b.name) = false := by simp
      simp only [List.map_cons, beq_self_eq_true, if_true, List.filter, e1, heldB_cons]
      rw [filter_ne_of_not_mem t b.name hn'.1, map_repl_of_not_mem t b.name f hn'.1]
    · have hne : h.name ≠ b.name := by
        intro e; exact hn'.1 (e ▸ List.mem_map_of_mem hb)
      have e1 : (h.name != b.name) = true := by simpa using hne
      have e2 : (h.name == b.name) = false := by simpa using hne
      simp only [List.map_cons, e2, List.filter, e1, heldB_cons]
      refine ((ih hn'.2 hb).append_left _).trans ?_
      simp only [← List.append_assoc]
      exact List.Perm.append_right _ List.perm_append_comm

/-- names are untouched by a by-name replacement that keeps the name -/
theorem names_repl (bs : List Binding) (n : Nat) (f : Binding → Binding) (hf : ∀ b, b.name = n → (f b).name = b.name) :
    (bs.map (fun b0 => if b0.name == n then f b0 else b0)).map (·.name) = bs.map (·.name) := by
  induction bs with
  | nil => rfl
  | cons h t ih =>
    simp only [List.map_cons, ih]
    split
    · rename_i e; simp [hf h (by simpa using e)]
    · rfl

/-- dispatching one job to the binding at index `i` -/
theorem heldB_set (bs : List Binding) (i : Nat) (b : Binding) (d : Disp) (hb : bs[i]? = some b) :
    (heldB (bs.set i { b with currentSeq := b.currentSeq + 1, unconfirmed := b.unconfirmed ++ [d] })).Perm (d.job :: heldB bs) := by
  induction bs generalizing i with
  | nil => simp at hb
  | cons h t ih =>
    cases i with
    | zero =>
      simp at hb; subst hb
      simp only [List.set_cons_zero, heldB_cons, List.map_append, List.map_cons, List.map_nil, List.append_assoc]
      exact List.perm_middle
    | succ i =>
      simp at hb
      simp only [List.set_cons_succ, heldB_cons]
      refine ((ih i hb).append_left _).trans ?_
      exact List.perm_middle

theorem names_set (bs : List Binding) (i : Nat) (b b' : Binding) (hb : bs[i]? = some b) (hn : b'.name = b.name) :
    (bs.set i b').map (·.name) = bs.map (·.name) := by
  induction bs generalizing i with
  | nil => simp at hb
  | cons h t ih =>
    cases i with
    | zero => simp at hb; subst hb; simp [hn]
    | succ i => simp at hb; simp [ih i hb]

theorem find_mem {x : WP} {n : Nat} {b : Binding} (h : x.find n = some b) : b ∈ x.bindings ∧ b.name = n := by
  unfold WP.find at h
  exact ⟨List.mem_of_find?_eq_some h, by simpa using List.find?_some h⟩

theorem find_none {x : WP} {n : Nat} (h : x.find n = none) : n ∉ x.bindings.map (·.name) := by
  unfold WP.find at h
  intro hm
  obtain ⟨b, hb, rfl⟩ := List.mem_map.mp hm
  have := List.find?_eq_none.mp h b hb
  simp at this

end GoaktVerif.C44

import GoaktVerif.Lemmas.C44.Conserve

/-!
C44 lemmas, part 4: the producer endpoint is told `DeliveryConfirmed` exactly for the jobs an input confirms
(when the endpoint asked for the notices), in order — "confirmed exactly once from the producer's point of view".
-/
namespace GoaktVerif.C44
open GoaktVerif.Model.C44
open GoaktVerif.Model.C42 (HS maxWindow PUMsg)

/-- the (MessageID, store sequence) pairs of the DeliveryConfirmed notices among the outputs -/
def noticesOf : List WOut → List (Nat × Nat)
  | [] => []
  | .toUser (.deliveryConfirmed _ i q) :: r => (i, q) :: noticesOf r
  | _ :: r => noticesOf r

theorem noticesOf_append (a b : List WOut) : noticesOf (a ++ b) = noticesOf a ++ noticesOf b := by
  induction a with
  | nil => rfl
  | cons x xs ih =>
    cases x with
    | toWorker n c m => simp [noticesOf, ih]
    | toUser m => cases m <;> simp [noticesOf, ih]

theorem emit_notices (s : Nat) (b : Binding) (d : Disp) : noticesOf (WP.emit s b d) = [] := by
  unfold WP.emit; split <;> rfl

theorem dispatchLoop_notices (s : Nat) (pend : List Job) (bs : List Binding) (nw : Nat) :
    noticesOf (WP.dispatchLoop s pend bs nw).2.2.2 = [] := by
  induction pend generalizing bs nw with
  | nil => rfl
  | cons j rest ih =>
    unfold WP.dispatchLoop
    split; · rfl
    split; · rfl
    split; · rfl
    simp only [noticesOf_append, emit_notices, ih, List.append_nil]

theorem progress_notices (x : WP) : noticesOf x.progress.2 = [] := by
  unfold WP.progress WP.dispatchPending WP.allowNextRequest
  simp only []
  have := dispatchLoop_notices x.session x.pending x.bindings x.nextWorker
  split
  · simp [noticesOf_append, this, noticesOf]
  · split <;> simp [noticesOf_append, this, noticesOf]

theorem resend_notices (s : Nat) (b : Binding) : noticesOf (WP.resend s b) = [] := by
  unfold WP.resend
  generalize (b.unconfirmed.takeWhile _) = l
  induction l with
  | nil => rfl
  | cons d r ih => simp [List.flatMap_cons, noticesOf_append, emit_notices, ih]

def noticePairs (dc : Bool) (jobs : List Job) : List (Nat × Nat) :=
  if dc then jobs.map (fun j => (j.id, j.storeSeq)) else []

theorem advanceConfirmed_notices (x : WP) (b : Binding) (c : Nat) :
    noticesOf (x.advanceConfirmed b c).2 = noticePairs x.deliveryConfirmation (cutOf b c) := by
  unfold WP.advanceConfirmed cutOf noticePairs WP.confirmations
  split
  · split <;> rfl
  · simp only []
    generalize (b.unconfirmed.takeWhile _) = l
    cases hd : x.deliveryConfirmation
    · simp [noticesOf]
    · simp only [if_true]
      induction l with
      | nil => rfl
      | cons d r ih =>
        simp only [List.isEmpty_cons, Bool.false_eq_true, if_false, List.map_cons, noticesOf, Disp.job]
        congr 1
        cases r with
        | nil => rfl
        | cons d2 r2 => simpa using ih

/-- the message the tick re-sends is a `Stored` (never a notice) -/
def WFStored (x : WP) : Prop := ∀ m, x.storedMessage = some m → ∃ s t i q, m = PUMsg.stored s t i q

/-- the notices of one handler call are exactly the jobs that call confirmed -/
theorem handle_notices (x : WP) (m : WIn) (hsm : WFStored x) :
    noticesOf (x.handle m).2 = noticePairs x.deliveryConfirmation (confOf x m) := by
  have hnil : noticePairs x.deliveryConfirmation [] = [] := by unfold noticePairs; split <;> rfl
  by_cases hf : x.failed = true
  · simp [WP.handle, hf, confOf, noticesOf, hnil]
  · have hf : x.failed = false := by simpa using hf
    unfold WP.handle confOf
    simp only [hf, Bool.false_eq_true, if_false]
    cases m with
    | register n c k =>
      simp only [hnil]
      unfold WP.handleRegister
      simp only []
      split
      · rfl
      · simp [noticesOf, progress_notices]
    | request n c s k cf u v =>
      unfold WP.handleRequest
      cases hb : x.bindingFrom n c s k with
      | none => simp only [hb, noticesOf, hnil]
      | some b =>
        simp only [hb]
        by_cases hill : (decide (cf > b.currentSeq) || decide (u < cf) || decide (u > cf + maxWindow)) = true
        · simp only [hill, if_true, progress_notices, hnil]
        · simp only [hill]
          have hres : ∀ y : WP, noticesOf (if v = true then y.resendFor b.name else []) = [] := by
            intro y
            split
            · unfold WP.resendFor; split
              · exact resend_notices _ _
              · rfl
            · rfl
          simp only [Bool.false_eq_true, if_false, noticesOf_append, progress_notices, List.append_nil, advanceConfirmed_notices, hres]
    | ack n c s k cf =>
      unfold WP.handleAck
      cases hb : x.bindingFrom n c s k with
      | none => simp only [hb, noticesOf, hnil]
      | some b =>
        simp only [hb]
        by_cases hill : cf > b.currentSeq
        · simp only [hill, if_true, progress_notices, hnil]
        · simp only [hill, if_false, noticesOf_append, progress_notices, List.append_nil, advanceConfirmed_notices]
    | terminated n c =>
      simp only [hnil]
      unfold WP.handleTerminated
      split
      · rfl
      · exact progress_notices _
    | produced s t i pl =>
      simp only [hnil]
      unfold WP.handleProduced WP.terminate WP.completeStore
      repeat' split
      all_goals rfl
    | storedAck s t i =>
      simp only [hnil]
      rcases handleStoredAck_cases x s t i with ⟨_, he⟩ | ⟨_, _⟩
      · rw [he]; unfold WP.completeAccept; exact progress_notices _
      · unfold WP.handleStoredAck WP.terminate
        repeat' split
        all_goals first | rfl | (unfold WP.completeAccept; exact progress_notices _)
    | tick =>
      simp only [hnil]
      unfold WP.handleTick
      split
      · rfl
      · split
        · rename_i m hm; obtain ⟨_, _, _, _, rfl⟩ := hsm m hm; rfl
        · rfl
      · rfl

/-- the fields that only the producer handshake writes -/
structure SameCfg (x x' : WP) : Prop where
  dc : x'.deliveryConfirmation = x.deliveryConfirmation
  sm : x'.storedMessage = x.storedMessage

theorem SameCfg.refl (x : WP) : SameCfg x x := ⟨rfl, rfl⟩
theorem SameCfg.trans {a b c : WP} (h1 : SameCfg a b) (h2 : SameCfg b c) : SameCfg a c :=
  ⟨h2.dc.trans h1.dc, h2.sm.trans h1.sm⟩

theorem progress_cfg (x : WP) : x.progress.1.deliveryConfirmation = x.deliveryConfirmation ∧
    (x.progress.1.storedMessage = x.storedMessage) := by
  unfold WP.progress WP.dispatchPending WP.allowNextRequest
  simp only []
  split
  · exact ⟨rfl, rfl⟩
  · split <;> exact ⟨rfl, rfl⟩

theorem endBinding_cfg (x : WP) (n : Nat) : SameCfg x (x.endBinding n) := by
  unfold WP.endBinding; split <;> exact ⟨rfl, rfl⟩

theorem advanceConfirmed_cfg (x : WP) (b : Binding) (c : Nat) : SameCfg x (x.advanceConfirmed b c).1 := by
  unfold WP.advanceConfirmed; split <;> exact ⟨rfl, rfl⟩

/-- every handler keeps the endpoint option, and keeps `storedMessage` a `Stored` -/
theorem handle_cfg (x : WP) (m : WIn) (hsm : WFStored x) :
    (x.handle m).1.deliveryConfirmation = x.deliveryConfirmation ∧ WFStored (x.handle m).1 := by
  have ofSame : ∀ x' : WP, SameCfg x x' → x'.deliveryConfirmation = x.deliveryConfirmation ∧ WFStored x' := by
    intro x' h; exact ⟨h.dc, fun m hm => hsm m (h.sm ▸ hm)⟩
  have prog : ∀ x' : WP, SameCfg x x' → x'.progress.1.deliveryConfirmation = x.deliveryConfirmation ∧ WFStored x'.progress.1 := by
    intro x' h
    exact ofSame _ ⟨(progress_cfg x').1.trans h.dc, (progress_cfg x').2.trans h.sm⟩
  unfold WP.handle
  split
  · exact ⟨rfl, hsm⟩
  · split
    · rename_i n c k
      unfold WP.handleRegister
      have hreg : SameCfg x (x.registerBinding n c k) := by
        unfold WP.registerBinding
        split
        · exact ⟨rfl, rfl⟩
        · split
          · exact ⟨(endBinding_cfg x n).dc, (endBinding_cfg x n).sm⟩
          · split <;> exact ⟨rfl, rfl⟩
      simp only []
      split
      · exact ofSame _ hreg
      · exact prog _ hreg
    · unfold WP.handleRequest
      split
      · exact ⟨rfl, hsm⟩
      · split
        · exact prog _ (endBinding_cfg x _)
        · simp only []
          exact prog _ ⟨(advanceConfirmed_cfg x _ _).dc, (advanceConfirmed_cfg x _ _).sm⟩
    · unfold WP.handleAck
      split
      · exact ⟨rfl, hsm⟩
      · split
        · exact prog _ (endBinding_cfg x _)
        · simp only []
          exact prog _ (advanceConfirmed_cfg x _ _)
    · unfold WP.handleTerminated
      split
      · exact ⟨rfl, hsm⟩
      · exact prog _ (endBinding_cfg x _)
    · unfold WP.handleProduced WP.terminate WP.completeStore
      split; · exact ⟨rfl, hsm⟩
      split; · exact ⟨rfl, hsm⟩
      split; · exact ⟨rfl, hsm⟩
      split; · exact ⟨rfl, hsm⟩
      split; · exact ⟨rfl, hsm⟩
      exact ⟨rfl, fun m hm => by simp at hm; exact ⟨_, _, _, _, hm.symm⟩⟩
    · rename_i s t i
      rcases handleStoredAck_cases x s t i with ⟨_, he⟩ | ⟨_, he | he⟩
      · rw [he]
        unfold WP.completeAccept WP.acceptPending WP.resetHandshake
        simp only []
        split
        · refine ⟨(progress_cfg _).1, fun m hm => ?_⟩
          rw [(progress_cfg _).2] at hm; cases hm
        · refine ⟨(progress_cfg _).1, fun m hm => ?_⟩
          rw [(progress_cfg _).2] at hm; cases hm
      · rw [he]; exact ⟨rfl, hsm⟩
      · rw [he]; exact ⟨rfl, hsm⟩
    · rw [tick_same]; exact ⟨rfl, hsm⟩

/-- all DeliveryConfirmed notices of a run, oldest first -/
def runNotices : WP → List WIn → List (Nat × Nat)
  | _, [] => []
  | x, m :: ms => noticesOf (x.handle m).2 ++ runNotices (x.handle m).1 ms

theorem noticePairs_append (dc : Bool) (a b : List Job) : noticePairs dc (a ++ b) = noticePairs dc a ++ noticePairs dc b := by
  unfold noticePairs; split <;> simp

/-- along every input sequence: the notices sent are exactly the jobs confirmed, in order -/
theorem run_notices (x : WP) (ms : List WIn) (hsm : WFStored x) :
    runNotices x ms = noticePairs x.deliveryConfirmation (runG x ms).2.2 := by
  induction ms generalizing x with
  | nil => simp [runNotices, runG, noticePairs]
  | cons m ms ih =>
    have hc := handle_cfg x m hsm
    simp only [runNotices, runG, noticePairs_append, handle_notices x m hsm, ih _ hc.2, hc.1]

end GoaktVerif.C44

import GoaktVerif.Lemmas.C44.Conserve

/-!
C44 lemmas, part 3: `dispatchPending` never leaves a job in the pool while some registered worker still has
free demand ("every produced job is handed to a worker as soon as one can take it").
-/
namespace GoaktVerif.C44
open GoaktVerif.Model.C44
open GoaktVerif.Model.C42 (HS maxWindow)

def norm (len nw : Nat) : Nat := if nw ≥ len then 0 else nw

/-- a failed round-robin probe of `k ≤ len` positions from cursor `nw` saw only bindings without free demand:
    the positions [norm nw, norm nw + k) up to `len`, and the wrapped-around prefix -/
theorem nextEligible_none (bs : List Binding) (k nw nw' : Nat) (hk : k ≤ bs.length)
    (h : WP.nextEligible bs k nw = (none, nw')) :
    ∀ i b, bs[i]? = some b →
      ((norm bs.length nw ≤ i ∧ i < norm bs.length nw + k) ∨ (i + bs.length < norm bs.length nw + k)) → b.freeDemand = 0 := by
  induction k generalizing nw with
  | zero =>
    intro i b _ hi
    have : norm bs.length nw ≤ bs.length := by unfold norm; split <;> omega
    omega
  | succ k ih =>
    intro i b hb hi
    unfold WP.nextEligible at h
    simp only [] at h
    have hlen : 0 < bs.length := by omega
    have hn : (if nw ≥ bs.length then 0 else nw) = norm bs.length nw := rfl
    rw [hn] at h
    have hlt : norm bs.length nw < bs.length := by unfold norm; split <;> omega
    cases hnw : bs[norm bs.length nw]? with
    | none => rw [List.getElem?_eq_none_iff] at hnw; omega
    | some b0 =>
      rw [hnw] at h
      simp only [] at h
      split at h
      · cases h
      · rename_i hfree
        have hb0 : b0.freeDemand = 0 := by omega
        have ih' := ih (norm bs.length nw + 1) (by omega) h
        by_cases hi0 : i = norm bs.length nw
        · subst hi0; rw [hnw] at hb; cases hb; exact hb0
        · apply ih' i b hb
          by_cases hw : norm bs.length nw + 1 ≥ bs.length
          · have : norm bs.length (norm bs.length nw + 1) = 0 := by
              generalize norm bs.length nw = z at *; unfold norm; simp [hw]
            rw [this]
            rcases hi with ⟨a, c⟩ | c
            · have : i < bs.length := by
                apply Classical.byContradiction; intro hc
                rw [List.getElem?_eq_none (by omega)] at hb; cases hb
              omega
            · left; omega
          · have : norm bs.length (norm bs.length nw + 1) = norm bs.length nw + 1 := by
              generalize norm bs.length nw = z at *; unfold norm; simp; omega
            rw [this]
            rcases hi with ⟨a, c⟩ | c
            · left; omega
            · right; omega

theorem nextEligible_none_all (bs : List Binding) (nw nw' : Nat) (h : WP.nextEligible bs bs.length nw = (none, nw')) :
    ∀ b ∈ bs, b.freeDemand = 0 := by
  intro b hb
  obtain ⟨i, hi⟩ := List.getElem?_of_mem hb
  have hil : i < bs.length := by
    apply Classical.byContradiction; intro hc
    rw [List.getElem?_eq_none (by omega)] at hi; cases hi
  have hlt : norm bs.length nw < bs.length := by unfold norm; split <;> omega
  apply nextEligible_none bs bs.length nw nw' (Nat.le_refl _) h i b hi
  by_cases hc : norm bs.length nw ≤ i
  · left; omega
  · right; omega

/-- the pool is empty, or no binding has free demand -/
def Saturated (pend : List Job) (bs : List Binding) : Prop := pend ≠ [] → ∀ b ∈ bs, b.freeDemand = 0

theorem dispatchLoop_saturated (s : Nat) (pend : List Job) (bs : List Binding) (nw : Nat) :
    Saturated (WP.dispatchLoop s pend bs nw).1 (WP.dispatchLoop s pend bs nw).2.1 := by
  induction pend generalizing bs nw with
  | nil => intro h; simp [WP.dispatchLoop] at h
  | cons j rest ih =>
    unfold WP.dispatchLoop
    split
    · rename_i he
      intro _ b hb
      have : bs = [] := by simpa using he
      subst this; cases hb
    · split
      · rename_i nw' hne
        intro _
        exact nextEligible_none_all bs nw nw' hne
      · rename_i i nw' hne
        split
        · rename_i hnone
          -- the index returned by the probe is always valid; this branch is unreachable but harmless
          intro _ b hb
          exfalso
          have : ∀ k nw, WP.nextEligible bs k nw = (some i, nw') → ∃ b, bs[i]? = some b := by
            intro k
            induction k with
            | zero => intro nw h; simp [WP.nextEligible] at h
            | succ k ihk =>
              intro nw h
              unfold WP.nextEligible at h
              simp only [] at h
              split at h
              · rename_i b0 hb0
                split at h
                · simp at h; obtain ⟨rfl, _⟩ := h; exact ⟨b0, hb0⟩
                · exact ihk _ h
              · exact ihk _ h
          obtain ⟨b1, hb1⟩ := this _ _ hne
          rw [hnone] at hb1; cases hb1
        · simp only []
          exact ih _ _

theorem progress_saturated (x : WP) : Saturated x.progress.1.pending x.progress.1.bindings := by
  have hd := dispatchLoop_saturated x.session x.pending x.bindings x.nextWorker
  have h1 : x.progress.1.pending = (WP.dispatchLoop x.session x.pending x.bindings x.nextWorker).1 ∧
      x.progress.1.bindings = (WP.dispatchLoop x.session x.pending x.bindings x.nextWorker).2.1 := by
    unfold WP.progress WP.dispatchPending WP.allowNextRequest
    simp only []
    split
    · exact ⟨rfl, rfl⟩
    · split <;> exact ⟨rfl, rfl⟩
  rw [h1.1, h1.2]; exact hd

theorem registerBinding_find (x : WP) (n c k : Nat) : (x.registerBinding n c k).find n ≠ none := by
  unfold WP.registerBinding
  have hnew : ∀ bs : List Binding, (bs ++ [WP.newBinding n c k]).find? (fun b => b.name == n) ≠ none := by
    intro bs h
    have := List.find?_eq_none.mp h (WP.newBinding n c k) (by simp)
    simp [WP.newBinding] at this
  split
  · exact hnew _
  · rename_i b hf
    split
    · exact hnew _
    · split
      · unfold WP.updateBinding WP.find
        intro h
        obtain ⟨hb, hbn⟩ := find_mem hf
        have := List.find?_eq_none.mp h (if b.name == n then { b with nonce := k } else b) (List.mem_map_of_mem hb)
        simp [hbn] at this
      · rw [hf]; simp

/-- every handler call re-establishes saturation: a job stays in the pool only while no worker can take it -/
theorem handle_saturated (x : WP) (m : WIn) (h : Saturated x.pending x.bindings) :
    Saturated (x.handle m).1.pending (x.handle m).1.bindings := by
  unfold WP.handle
  split
  · exact h
  · split
    · rename_i n c k
      unfold WP.handleRegister
      simp only []
      split
      · rename_i hnone; exact absurd hnone (registerBinding_find x n c k)
      · exact progress_saturated _
    · unfold WP.handleRequest
      split
      · exact h
      · split
        · exact progress_saturated _
        · exact progress_saturated _
    · unfold WP.handleAck
      split
      · exact h
      · split
        · exact progress_saturated _
        · exact progress_saturated _
    · unfold WP.handleTerminated
      split
      · exact h
      · exact progress_saturated _
    · rename_i s t i pl
      have := produced_same x s t i pl
      rw [this.1, this.2]; exact h
    · rename_i s t i
      rcases handleStoredAck_cases x s t i with ⟨_, he⟩ | ⟨_, he | he⟩
      · rw [he]; unfold WP.completeAccept; exact progress_saturated _
      · rw [he]; exact h
      · rw [he]; exact h
    · rw [tick_same]; exact h

/-- … hence along every input sequence -/
theorem run_saturated (x : WP) (ms : List WIn) (h : Saturated x.pending x.bindings) :
    Saturated (runG x ms).1.pending (runG x ms).1.bindings := by
  induction ms generalizing x with
  | nil => exact h
  | cons m ms ih => simp only [runG]; exact ih _ (handle_saturated x m h)

end GoaktVerif.C44

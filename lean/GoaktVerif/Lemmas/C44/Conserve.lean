import GoaktVerif.Lemmas.C44.Held

/-!
C44 lemmas, part 2: every handler of the work-pulling controller conserves jobs.
`held x' ++ confirmed-by-this-input  ~  held x ++ accepted-by-this-input` (as multisets), for ANY input.
-/
namespace GoaktVerif.C44
open GoaktVerif.Model.C44
open GoaktVerif.Model.C42 (HS maxWindow)

/-- `dispatchPending` only moves jobs from the pool into bindings -/
theorem dispatchLoop_conserve (s : Nat) (pend : List Job) (bs : List Binding) (nw : Nat) :
    ((WP.dispatchLoop s pend bs nw).1 ++ heldB (WP.dispatchLoop s pend bs nw).2.1).Perm (pend ++ heldB bs) ∧
    (WP.dispatchLoop s pend bs nw).2.1.map (·.name) = bs.map (·.name) := by
  induction pend generalizing bs nw with
  | nil => simp [WP.dispatchLoop]
  | cons j rest ih =>
    unfold WP.dispatchLoop
    split
    · exact ⟨List.Perm.refl _, rfl⟩
    · split
      · exact ⟨List.Perm.refl _, rfl⟩
      · rename_i i nw' _
        split
        · exact ⟨List.Perm.refl _, rfl⟩
        · rename_i b hb
          simp only []
          have := ih (bs.set i { b with currentSeq := b.currentSeq + 1, unconfirmed := b.unconfirmed ++ [⟨j.id, b.currentSeq + 1, j.storeSeq, j.payload⟩] }) nw'
          refine ⟨this.1.trans ?_, this.2.trans (names_set bs i b _ hb rfl)⟩
          refine ((heldB_set bs i b ⟨j.id, b.currentSeq + 1, j.storeSeq, j.payload⟩ hb).append_left rest).trans ?_
          have : (⟨j.id, b.currentSeq + 1, j.storeSeq, j.payload⟩ : Disp).job = j := rfl
          rw [this]
          exact List.perm_middle

theorem progress_conserve (x : WP) :
    (held x.progress.1).Perm (held x) ∧ x.progress.1.bindings.map (·.name) = x.bindings.map (·.name) := by
  have hd := dispatchLoop_conserve x.session x.pending x.bindings x.nextWorker
  have h1 : x.progress.1.pending = (WP.dispatchLoop x.session x.pending x.bindings x.nextWorker).1 ∧
      x.progress.1.bindings = (WP.dispatchLoop x.session x.pending x.bindings x.nextWorker).2.1 := by
    unfold WP.progress WP.dispatchPending WP.allowNextRequest
    simp only []
    split
    · exact ⟨rfl, rfl⟩
    · split <;> exact ⟨rfl, rfl⟩
  unfold held
  rw [h1.1, h1.2]
  exact hd

theorem endBinding_conserve (x : WP) (n : Nat) (hn : NodupNames x.bindings) :
    (held (x.endBinding n)).Perm (held x) ∧ NodupNames (x.endBinding n).bindings ∧ n ∉ (x.endBinding n).bindings.map (·.name) := by
  unfold WP.endBinding
  split
  · rename_i h; exact ⟨List.Perm.refl _, hn, find_none h⟩
  · rename_i b h
    obtain ⟨hb, rfl⟩ := find_mem h
    refine ⟨?_, ?_, ?_⟩
    · unfold held
      simp only [List.append_assoc]
      refine List.Perm.trans ?_ ((heldB_split x.bindings b hn hb).symm.append_left x.pending)
      simp only [← List.append_assoc]
      exact List.Perm.append_right _ List.perm_append_comm
    · exact (List.filter_sublist.map _).nodup hn
    · simp [List.mem_map]

theorem updateBinding_conserve (x : WP) (b : Binding) (f : Binding → Binding) (hn : NodupNames x.bindings) (hb : b ∈ x.bindings)
    (hf : ∀ b0, b0.name = b.name → (f b0).name = b0.name) (cut : List Job) (hc : (b.unconfirmed.map Disp.job).Perm (cut ++ (f b).unconfirmed.map Disp.job)) :
    (held (x.updateBinding b.name f) ++ cut).Perm (held x) ∧ (x.updateBinding b.name f).bindings.map (·.name) = x.bindings.map (·.name) := by
  refine ⟨?_, names_repl _ _ _ hf⟩
  unfold held WP.updateBinding
  simp only [List.append_assoc]
  refine List.Perm.append_left _ ?_
  refine ((heldB_repl x.bindings b f hn hb).append_right cut).trans ?_
  refine List.Perm.trans ?_ (heldB_split x.bindings b hn hb).symm
  refine List.Perm.trans ?_ (hc.symm.append_right _)
  simp only [List.append_assoc]
  rw [← List.append_assoc]
  exact List.perm_append_comm

/-- jobs confirmed when worker binding `b` reports the cumulative watermark `c` -/
def cutOf (b : Binding) (c : Nat) : List Job :=
  if c ≤ b.confirmedSeq then [] else (b.unconfirmed.takeWhile (fun d => d.workerSeq ≤ c)).map Disp.job

theorem advanceConfirmed_conserve (x : WP) (b : Binding) (c : Nat) (hn : NodupNames x.bindings) (hb : b ∈ x.bindings) :
    (held (x.advanceConfirmed b c).1 ++ cutOf b c).Perm (held x) ∧
    (x.advanceConfirmed b c).1.bindings.map (·.name) = x.bindings.map (·.name) := by
  unfold WP.advanceConfirmed cutOf
  split
  · simp
  · simp only []
    refine updateBinding_conserve x b (fun _ => { b with confirmedSeq := c, unconfirmed := b.unconfirmed.dropWhile (fun d => d.workerSeq ≤ c) })
      hn hb (fun b0 e => e.symm) _ ?_
    simp only [← List.map_append, List.takeWhile_append_dropWhile]
    exact List.Perm.refl _

/-- jobs confirmed by one input (a worker's Request / Ack that the controller accepts) -/
def confOf (x : WP) (m : WIn) : List Job :=
  if x.failed then [] else
  match m with
  | .request n c s k cf u _ =>
    match x.bindingFrom n c s k with
    | some b => if cf > b.currentSeq || u < cf || u > cf + maxWindow then [] else cutOf b cf
    | none => []
  | .ack n c s k cf =>
    match x.bindingFrom n c s k with
    | some b => if cf > b.currentSeq then [] else cutOf b cf
    | none => []
  | _ => []

/-- the job accepted into the pool by one input (the StoredAck that completes a handshake) -/
def accOf (x : WP) (m : WIn) : List Job :=
  if x.failed then [] else
  match m with
  | .storedAck s t i =>
    if s == x.session && x.handshake == .storedAck && t == x.token && i == x.pendingId && !x.owns x.pendingId
    then [⟨x.pendingId, x.pendingStoreSeq, x.pendingPayload⟩] else []
  | _ => []

/-- what a handler call must establish -/
structure Conserves (x x' : WP) (conf acc : List Job) : Prop where
  perm : (held x' ++ conf).Perm (held x ++ acc)
  names : NodupNames x'.bindings

theorem Conserves.refl (x : WP) (hn : NodupNames x.bindings) : Conserves x x [] [] := ⟨List.Perm.refl _, hn⟩

theorem Conserves.progress {x x1 : WP} {conf acc : List Job} (h : Conserves x x1 conf acc) :
    Conserves x x1.progress.1 conf acc := by
  have hp := progress_conserve x1
  refine ⟨(hp.1.append_right conf).trans h.perm, ?_⟩
  unfold NodupNames; rw [hp.2]; exact h.names

theorem bindingFrom_mem {x : WP} {n c s k : Nat} {b : Binding} (h : x.bindingFrom n c s k = some b) : b ∈ x.bindings := by
  unfold WP.bindingFrom at h
  split at h
  · cases h
  · exact List.mem_of_find?_eq_some h

theorem registerBinding_conserve (x : WP) (n c k : Nat) (hn : NodupNames x.bindings) :
    Conserves x (x.registerBinding n c k) [] [] := by
  unfold WP.registerBinding
  split
  · rename_i hf
    refine ⟨?_, ?_⟩
    · simp [held, heldB, WP.newBinding]
    · unfold NodupNames; simp only [List.map_append, List.map_cons, List.map_nil]
      exact List.nodup_append.mpr ⟨hn, by simp, by simpa [WP.newBinding] using find_none hf⟩
  · rename_i b hf
    obtain ⟨hb, rfl⟩ := find_mem hf
    split
    · obtain ⟨hp, hn2, hnot⟩ := endBinding_conserve x b.name hn
      refine ⟨?_, ?_⟩
      · simp only [List.append_nil]
        refine List.Perm.trans ?_ hp
        simp [held, heldB, WP.newBinding]
      · unfold NodupNames; simp only [List.map_append, List.map_cons, List.map_nil]
        exact List.nodup_append.mpr ⟨hn2, by simp, by simpa [WP.newBinding] using hnot⟩
    · split
      · have := updateBinding_conserve x b (fun b' => { b' with nonce := k }) hn hb (fun _ _ => rfl) [] (by simp)
        exact ⟨by simpa using this.1, by unfold NodupNames; rw [this.2]; exact hn⟩
      · exact Conserves.refl x hn

theorem register_conserve (x : WP) (n c k : Nat) (hn : NodupNames x.bindings) :
    Conserves x (x.handleRegister n c k).1 [] [] := by
  unfold WP.handleRegister
  have key := registerBinding_conserve x n c k hn
  simp only []
  split
  · exact key
  · exact key.progress

theorem Conserves.ofEnd (x : WP) (n : Nat) (hn : NodupNames x.bindings) : Conserves x (x.endBinding n).progress.1 [] [] := by
  obtain ⟨hp, hn2, _⟩ := endBinding_conserve x n hn
  exact Conserves.progress ⟨by simpa using hp, hn2⟩

theorem request_conserve (x : WP) (n c s k cf u : Nat) (v : Bool) (hn : NodupNames x.bindings) (hf : x.failed = false) :
    Conserves x (x.handleRequest n c s k cf u v).1 (confOf x (.request n c s k cf u v)) [] := by
  unfold WP.handleRequest confOf
  simp only [hf, Bool.false_eq_true, if_false]
  cases hb : x.bindingFrom n c s k with
  | none => exact Conserves.refl x hn
  | some b =>
    simp only []
    have hmem := bindingFrom_mem hb
    by_cases hill : (decide (cf > b.currentSeq) || decide (u < cf) || decide (u > cf + maxWindow)) = true
    · simp only [hill, if_true]; exact Conserves.ofEnd x b.name hn
    · simp only [hill, if_false]
      have h1 := advanceConfirmed_conserve x b cf hn hmem
      have hn1 : NodupNames (x.advanceConfirmed b cf).1.bindings := by unfold NodupNames; rw [h1.2]; exact hn
      -- the demand update touches no unconfirmed list
      have h2 : (held ((x.advanceConfirmed b cf).1.updateBinding b.name (fun b0 => { b0 with demandUpTo := u }))).Perm (held (x.advanceConfirmed b cf).1) ∧
          NodupNames ((x.advanceConfirmed b cf).1.updateBinding b.name (fun b0 => { b0 with demandUpTo := u })).bindings := by
        by_cases hb1 : ∃ b1, b1 ∈ (x.advanceConfirmed b cf).1.bindings ∧ b1.name = b.name
        · obtain ⟨b1, hb1, e⟩ := hb1
          have := updateBinding_conserve (x.advanceConfirmed b cf).1 b1 (fun b0 => { b0 with demandUpTo := u }) hn1 hb1 (fun _ _ => rfl) [] (by simp)
          rw [e] at this
          exact ⟨by simpa using this.1, by unfold NodupNames; rw [this.2]; exact hn1⟩
        · have hnot : b.name ∉ (x.advanceConfirmed b cf).1.bindings.map (·.name) := by
            intro hm; obtain ⟨b1, h1', e⟩ := List.mem_map.mp hm; exact hb1 ⟨b1, h1', e⟩
          have : (x.advanceConfirmed b cf).1.updateBinding b.name (fun b0 => { b0 with demandUpTo := u }) = (x.advanceConfirmed b cf).1 := by
            unfold WP.updateBinding; rw [map_repl_of_not_mem _ _ _ hnot]
          rw [this]; exact ⟨List.Perm.refl _, hn1⟩
      refine Conserves.progress ⟨?_, h2.2⟩
      simp only [List.append_nil]
      exact (h2.1.append_right _).trans h1.1

theorem ack_conserve (x : WP) (n c s k cf : Nat) (hn : NodupNames x.bindings) (hf : x.failed = false) :
    Conserves x (x.handleAck n c s k cf).1 (confOf x (.ack n c s k cf)) [] := by
  unfold WP.handleAck confOf
  simp only [hf, Bool.false_eq_true, if_false]
  cases hb : x.bindingFrom n c s k with
  | none => exact Conserves.refl x hn
  | some b =>
    simp only []
    have hmem := bindingFrom_mem hb
    by_cases hill : cf > b.currentSeq
    · simp only [hill, if_true]; exact Conserves.ofEnd x b.name hn
    · simp only [hill, if_false]
      have h1 := advanceConfirmed_conserve x b cf hn hmem
      refine Conserves.progress ⟨by simpa using h1.1, by unfold NodupNames; rw [h1.2]; exact hn⟩

theorem terminated_conserve (x : WP) (n c : Nat) (hn : NodupNames x.bindings) :
    Conserves x (x.handleTerminated n c).1 [] [] := by
  unfold WP.handleTerminated
  split
  · exact Conserves.refl x hn
  · exact Conserves.ofEnd x _ hn

theorem completeAccept_conserve (x : WP) (hn : NodupNames x.bindings) :
    Conserves x x.completeAccept.1 [] (if !x.owns x.pendingId then [⟨x.pendingId, x.pendingStoreSeq, x.pendingPayload⟩] else []) := by
  unfold WP.completeAccept
  simp only []
  apply Conserves.progress
  unfold WP.acceptPending
  split
  · refine ⟨?_, hn⟩
    simp [held, WP.resetHandshake]
    exact List.Perm.append_left _ (List.perm_append_comm (l₁ := [_]) (l₂ := heldB x.bindings))
  · exact ⟨by simp [held, WP.resetHandshake], hn⟩

/-- the StoredAck that completes the open handshake -/
def acceptsAck (x : WP) (s t i : Nat) : Bool :=
  s == x.session && x.handshake == .storedAck && t == x.token && i == x.pendingId

theorem handleStoredAck_cases (x : WP) (s t i : Nat) :
    (acceptsAck x s t i = true ∧ x.handleStoredAck s t i = WP.completeAccept { x with handshake := .accept, storedMessage := none }) ∨
    (acceptsAck x s t i = false ∧ ((x.handleStoredAck s t i).1 = x ∨ (x.handleStoredAck s t i).1 = x.terminate.1)) := by
  unfold WP.handleStoredAck acceptsAck
  by_cases h1 : s = x.session
  · by_cases h2 : (x.handshake == HS.storedAck && t == x.token && i == x.pendingId) = true
    · left; simp [h1, h2]
    · right
      have h2' : (x.handshake == HS.storedAck && t == x.token && i == x.pendingId) = false := by simpa using h2
      refine ⟨by simp [h1, h2'], ?_⟩
      simp only [h1, bne_self_eq_false, Bool.false_eq_true, if_false, h2']
      split
      · left; rfl
      · split
        · left; rfl
        · right; rfl
  · right
    have : (s != x.session) = true := by simpa using h1
    have h1' : (s == x.session) = false := by simpa using h1
    exact ⟨by simp [h1'], by simp [this]⟩

theorem storedAck_conserve (x : WP) (s t i : Nat) (hn : NodupNames x.bindings) (hf : x.failed = false) :
    Conserves x (x.handleStoredAck s t i).1 [] (accOf x (.storedAck s t i)) := by
  have hacc : accOf x (.storedAck s t i) = if acceptsAck x s t i && !x.owns x.pendingId then
      [⟨x.pendingId, x.pendingStoreSeq, x.pendingPayload⟩] else [] := by
    simp [accOf, hf, acceptsAck]
  rw [hacc]
  rcases handleStoredAck_cases x s t i with ⟨ha, he⟩ | ⟨ha, he⟩
  · rw [he, ha]
    have := completeAccept_conserve { x with handshake := .accept, storedMessage := none } hn
    have howns : WP.owns { x with handshake := .accept, storedMessage := none } x.pendingId = x.owns x.pendingId := rfl
    simp only [howns] at this
    simp only [Bool.true_and]
    exact ⟨this.perm, this.names⟩
  · rw [ha]
    rcases he with he | he <;> rw [he]
    · simpa using Conserves.refl x hn
    · simpa [WP.terminate] using (⟨List.Perm.refl _, hn⟩ : Conserves x x.terminate.1 [] [])

theorem produced_same (x : WP) (s t i pl : Nat) :
    (x.handleProduced s t i pl).1.pending = x.pending ∧ (x.handleProduced s t i pl).1.bindings = x.bindings := by
  unfold WP.handleProduced WP.terminate WP.completeStore
  repeat' split
  all_goals exact ⟨rfl, rfl⟩

theorem tick_same (x : WP) : x.handleTick.1 = x := by
  unfold WP.handleTick; split <;> rfl

/-- every handler call of the work-pulling controller conserves jobs, for ANY input -/
theorem handle_conserve (x : WP) (m : WIn) (hn : NodupNames x.bindings) :
    Conserves x (x.handle m).1 (confOf x m) (accOf x m) := by
  by_cases hf : x.failed = true
  · have : (x.handle m) = (x, []) := by simp [WP.handle, hf]
    rw [this]
    simpa [confOf, accOf, hf] using Conserves.refl x hn
  · have hf : x.failed = false := by simpa using hf
    unfold WP.handle
    simp only [hf, Bool.false_eq_true, if_false]
    cases m with
    | register n c k => simpa [confOf, accOf, hf] using register_conserve x n c k hn
    | request n c s k cf u v =>
      have : accOf x (.request n c s k cf u v) = [] := by simp [accOf, hf]
      rw [this]; exact request_conserve x n c s k cf u v hn hf
    | ack n c s k cf =>
      have : accOf x (.ack n c s k cf) = [] := by simp [accOf, hf]
      rw [this]; exact ack_conserve x n c s k cf hn hf
    | terminated n c => simpa [confOf, accOf, hf] using terminated_conserve x n c hn
    | produced s t i pl =>
      have h := produced_same x s t i pl
      have : confOf x (.produced s t i pl) = [] ∧ accOf x (.produced s t i pl) = [] := by simp [confOf, accOf, hf]
      rw [this.1, this.2]
      exact ⟨by simp [held, h.1, h.2], by rw [h.2]; exact hn⟩
    | storedAck s t i =>
      have : confOf x (.storedAck s t i) = [] := by simp [confOf, hf]
      rw [this]; exact storedAck_conserve x s t i hn hf
    | tick =>
      have : confOf x .tick = [] ∧ accOf x .tick = [] := by simp [confOf, accOf, hf]
      rw [this.1, this.2]
      simp only [tick_same]
      exact Conserves.refl x hn

/-- a run with its history: the controller after the inputs, all jobs accepted, all jobs confirmed -/
def runG : WP → List WIn → WP × List Job × List Job
  | x, [] => (x, [], [])
  | x, m :: ms =>
    let (x', acc, conf) := runG (x.handle m).1 ms
    (x', accOf x m ++ acc, confOf x m ++ conf)

/-- conservation along every input sequence of any length -/
theorem run_conserve (x : WP) (ms : List WIn) (hn : NodupNames x.bindings) :
    (held (runG x ms).1 ++ (runG x ms).2.2).Perm (held x ++ (runG x ms).2.1) ∧ NodupNames (runG x ms).1.bindings := by
  induction ms generalizing x with
  | nil => simpa [runG] using hn
  | cons m ms ih =>
    have h1 := handle_conserve x m hn
    have h2 := ih (x.handle m).1 h1.names
    simp only [runG]
    refine ⟨?_, h2.2⟩
    -- held x'' ++ (conf1 ++ conf2) ~ held x ++ (acc1 ++ acc2)
    have a : (held (runG (x.handle m).1 ms).1 ++ (confOf x m ++ (runG (x.handle m).1 ms).2.2)).Perm
        (confOf x m ++ (held (x.handle m).1 ++ (runG (x.handle m).1 ms).2.1)) := by
      refine List.Perm.trans ?_ (h2.1.append_left (confOf x m))
      simp only [← List.append_assoc]
      exact List.Perm.append_right _ List.perm_append_comm
    refine a.trans ?_
    simp only [← List.append_assoc]
    refine List.Perm.append_right _ ?_
    exact List.perm_append_comm.trans h1.perm

end GoaktVerif.C44

/-
C38 for ORSet, part 2: every reachable ORSet (Add / Remove / Merge / Delta / ResetDelta / Clone /
Compact in any order with any node ids) satisfies `ORSet.WF`; hence the join laws on reachable states.
-/
import GoaktVerif.Lemmas.C38.ORSet

set_option linter.unusedVariables false
namespace GoaktVerif.C38
open GoaktVerif.Model.Crdt GoaktVerif.Model.Crdt.AMap GoaktVerif.Spec.C38

theorem mem_getD_of {m : AMap (List Dot)} {e : Nat} {d : Dot} (h : d ∈ m.getD e []) :
    ∃ l, (e, l) ∈ m ∧ d ∈ l := by
  unfold AMap.getD at h
  cases hg : m.get? e with
  | none => rw [hg] at h; simp at h
  | some l => rw [hg] at h; exact ⟨l, mem_of_get? hg, h⟩

/-! ### Add, Remove -/

theorem wf_add {s : ORSet} (h : s.WF) (n e : Nat) : (s.add n e).WF := by
  have hclk : ∀ k, s.clock.getD k 0 ≤ (s.clock.set n (s.clock.getD n 0 + 1)).getD k 0 := by
    intro k; rw [getD_set]; split
    · subst k; omega
    · omega
  have hnew : (s.clock.set n (s.clock.getD n 0 + 1)).getD n 0 = s.clock.getD n 0 + 1 := by
    rw [getD_set]; simp
  refine ⟨sorted_set h.entries_sorted _ _, sorted_set h.clock_sorted _ _, ?_, sorted_set h.added_sorted _ _, ?_⟩
  · intro e' d hd
    simp only [ORSet.add, tick, ORSet.dotsOf] at hd ⊢
    rw [getD_set] at hd
    split at hd
    · rcases List.mem_append.mp hd with hd | hd
      · exact Nat.le_trans (h.dots_le e d hd) (hclk _)
      · simp only [List.mem_singleton] at hd; subst hd; simp only; rw [hnew]; omega
    · exact Nat.le_trans (h.dots_le e' d hd) (hclk _)
  · intro e' d hd
    simp only [ORSet.add, tick] at hd ⊢
    rw [getD_set] at hd
    split at hd
    · rcases List.mem_append.mp hd with hd | hd
      · exact Nat.le_trans (h.added_le e d hd) (hclk _)
      · simp only [List.mem_singleton] at hd; subst hd; simp only; rw [hnew]; omega
    · exact Nat.le_trans (h.added_le e' d hd) (hclk _)

theorem wf_remove {s : ORSet} (h : s.WF) (e : Nat) : (s.remove e).WF := by
  unfold ORSet.remove
  split
  · exact h
  · refine ⟨sorted_erase h.entries_sorted _, h.clock_sorted, ?_, h.added_sorted, h.added_le⟩
    intro e' d hd
    simp only [ORSet.dotsOf, AMap.getD] at hd
    rw [get?_erase h.entries_sorted] at hd
    split at hd
    · simp at hd
    · exact h.dots_le e' d hd

/-! ### Compact -/

theorem mem_compactDots {dots : List Dot} {x : Dot} (h : x ∈ ORSet.compactDots dots) : x ∈ dots := by
  unfold ORSet.compactDots at h
  simp only [List.mem_map] at h
  obtain ⟨p, hp, rfl⟩ := h
  suffices H : ∀ (l : List Dot) (hi : AMap Nat), (∀ q ∈ hi, (⟨q.1, q.2⟩ : Dot) ∈ dots) → (∀ d ∈ l, d ∈ dots) →
      ∀ q ∈ l.foldl ORSet.compactStep hi, (⟨q.1, q.2⟩ : Dot) ∈ dots from
    H dots [] (by simp) (fun d hd => hd) p hp
  intro l
  induction l with
  | nil => intro hi h1 _ q hq; exact h1 q hq
  | cons d l ih =>
    intro hi h1 h2 q hq
    simp only [List.foldl_cons] at hq
    refine ih _ ?_ (fun d' hd' => h2 d' (List.mem_cons_of_mem _ hd')) q hq
    intro q' hq'
    have hd := h2 d List.mem_cons_self
    unfold ORSet.compactStep at hq'
    split at hq'
    · rcases mem_set hq' with h | h
      · subst h; exact hd
      · exact h1 q' h
    · split at hq'
      · rcases mem_set hq' with h | h
        · subst h; exact hd
        · exact h1 q' h
      · exact h1 q' hq'

theorem wf_compact {s : ORSet} (h : s.WF) : s.compact.WF := by
  have hsorted : s.compact.entries.Sorted := by
    unfold ORSet.compact
    exact sorted_map_val' (List.Pairwise.filter _ h.entries_sorted) _
  refine ⟨hsorted, h.clock_sorted, ?_, sorted_nil, ?_⟩
  · intro e d hd
    obtain ⟨l, hl, hdl⟩ := mem_getD_of hd
    simp only [ORSet.compact, List.mem_map, List.mem_filter] at hl
    obtain ⟨p, ⟨hp, _⟩, heq⟩ := hl
    cases heq
    have : d ∈ s.dotsOf p.1 := by
      unfold ORSet.dotsOf AMap.getD
      rw [get?_of_mem h.entries_sorted (show (p.1, p.2) ∈ s.entries from hp)]
      exact mem_compactDots hdl
    exact h.dots_le _ _ this
  · intro e d hd; simp [ORSet.compact, ORSet.newDelta, AMap.getD] at hd

/-! ### Delta -/

/-- the max-accumulating step of both loops of Delta() -/
def accStep (g : Dot → Nat) (clk : AMap Nat) (dt : Dot) : AMap Nat :=
  if g dt > AMap.getD clk dt.nodeID 0 then AMap.set clk dt.nodeID (g dt) else clk

theorem accStep_sorted {g : Dot → Nat} {clk : AMap Nat} (h : clk.Sorted) (dt : Dot) : (accStep g clk dt).Sorted := by
  unfold accStep; split
  · exact sorted_set h _ _
  · exact h

theorem accStep_mono (g : Dot → Nat) (clk : AMap Nat) (dt : Dot) (n : Nat) :
    clk.getD n 0 ≤ (accStep g clk dt).getD n 0 := by
  unfold accStep; split
  · rw [getD_set]; split
    · subst n; omega
    · omega
  · omega

theorem accStep_ge (g : Dot → Nat) (clk : AMap Nat) (dt : Dot) : g dt ≤ (accStep g clk dt).getD dt.nodeID 0 := by
  unfold accStep; split
  · rw [getD_set]; simp
  · omega

theorem accFold (g : Dot → Nat) (l : List Dot) (clk : AMap Nat) (h : clk.Sorted) :
    (l.foldl (accStep g) clk).Sorted ∧ (∀ n, clk.getD n 0 ≤ (l.foldl (accStep g) clk).getD n 0) ∧
    (∀ dt ∈ l, g dt ≤ (l.foldl (accStep g) clk).getD dt.nodeID 0) := by
  induction l generalizing clk with
  | nil => exact ⟨h, fun n => Nat.le_refl _, by simp⟩
  | cons d l ih =>
    simp only [List.foldl_cons]
    obtain ⟨i1, i2, i3⟩ := ih (accStep g clk d) (accStep_sorted h d)
    refine ⟨i1, fun n => Nat.le_trans (accStep_mono g clk d n) (i2 n), ?_⟩
    intro dt hdt
    rcases List.mem_cons.mp hdt with hdt | hdt
    · subst hdt; exact Nat.le_trans (accStep_ge g clk dt) (i2 _)
    · exact i3 dt hdt

theorem accFold2 (g : Dot → Nat) (m : AMap (List Dot)) (clk : AMap Nat) (h : clk.Sorted) :
    let r := m.foldl (fun (clk : AMap Nat) p => p.2.foldl (accStep g) clk) clk
    r.Sorted ∧ (∀ n, clk.getD n 0 ≤ r.getD n 0) ∧ (∀ p ∈ m, ∀ dt ∈ p.2, g dt ≤ r.getD dt.nodeID 0) := by
  induction m generalizing clk with
  | nil => exact ⟨h, fun n => Nat.le_refl _, by simp⟩
  | cons p m ih =>
    simp only [List.foldl_cons]
    obtain ⟨a1, a2, a3⟩ := accFold g p.2 clk h
    obtain ⟨i1, i2, i3⟩ := ih (p.2.foldl (accStep g) clk) a1
    refine ⟨i1, fun n => Nat.le_trans (a2 n) (i2 n), ?_⟩
    intro q hq dt hdt
    rcases List.mem_cons.mp hq with hq | hq
    · subst hq; exact Nat.le_trans (a3 dt hdt) (i2 _)
    · exact i3 q hq dt hdt

theorem deltaAddedStep_eq (sc : AMap Nat) :
    ORSet.deltaAddedStep sc = accStep (fun dt => sc.getD dt.nodeID 0) := by
  funext clk dt
  unfold accStep ORSet.deltaAddedStep AMap.getD
  cases h : sc.get? dt.nodeID with
  | none => simp [h]
  | some c => simp [h]

theorem deltaRemovedStep_eq : ORSet.deltaRemovedStep = accStep (fun dt => dt.counter) := by
  funext clk dt; rfl

theorem wf_delta {s d : ORSet} (h : s.WF) (hd : s.delta? = some d) : d.WF := by
  unfold ORSet.delta? at hd
  split at hd
  · cases hd
  · simp only [Option.some.injEq] at hd
    subst hd
    rw [deltaAddedStep_eq, deltaRemovedStep_eq]
    have c1 := accFold2 (fun dt => s.clock.getD dt.nodeID 0) s.delta.added [] sorted_nil
    have c2 := accFold2 (fun dt => dt.counter) s.delta.removed _ c1.1
    refine ⟨h.added_sorted, c2.1, ?_, sorted_nil, ?_⟩
    · intro e x hx
      obtain ⟨l, hl, hxl⟩ := mem_getD_of hx
      have h1 := h.added_le e x hx
      have h2 := c1.2.2 (e, l) hl x hxl
      have h3 := c2.2.1 x.nodeID
      exact Nat.le_trans h1 (Nat.le_trans h2 h3)
    · intro e x hx; simp [ORSet.newDelta, AMap.getD] at hx

/-! ### all reachable states are well formed -/

theorem ORSet.wf_new : ORSet.new.WF :=
  ⟨sorted_nil, sorted_nil, by intro e d hd; simp [ORSet.new, ORSet.dotsOf, AMap.getD] at hd, sorted_nil,
   by intro e d hd; simp [ORSet.new, ORSet.newDelta, AMap.getD] at hd⟩

theorem ORSet.wf_resetDelta {s : ORSet} (h : s.WF) : s.resetDelta.WF :=
  ⟨h.entries_sorted, h.clock_sorted, h.dots_le, sorted_nil,
   by intro e d hd; simp [ORSet.resetDelta, ORSet.newDelta, AMap.getD] at hd⟩

theorem ORSet.wf_of_reachable {s : ORSet} (h : ORSet.Reachable s) : s.WF := by
  induction h with
  | new => exact ORSet.wf_new
  | add n e _ ih => exact wf_add ih n e
  | remove e _ ih => exact wf_remove ih e
  | merge _ _ ih1 ih2 => exact wf_merge ih1 ih2
  | delta _ hd ih => exact wf_delta ih hd
  | resetDelta _ ih => exact ORSet.wf_resetDelta ih
  | clone _ ih => exact ih
  | compact _ ih => exact wf_compact ih

theorem ORSet.joinLaws : JoinLaws ORSet.Reachable ORSet.merge eqvOS leOS where
  comm x y hx hy := ORSet.comm (wf_of_reachable hx) (wf_of_reachable hy)
  assoc x y z hx hy hz := ORSet.assoc (wf_of_reachable hx) (wf_of_reachable hy) (wf_of_reachable hz)
  idem x hx := ORSet.idem (wf_of_reachable hx)
  infl x y hx hy := ORSet.infl (wf_of_reachable hx) (wf_of_reachable hy)

end GoaktVerif.C38

/-
C38 for LWWRegister, part 2: in every reachable world (each replica writes under its own node id)
a (timestamp, nodeID) stamp names one write, hence Merge is a join on the registers in existence.
Relies on Set ordering a same-node same-timestamp write right after the stored one.
-/
import GoaktVerif.Lemmas.C38.LWW

set_option linter.unusedVariables false
namespace GoaktVerif.C38
open GoaktVerif.Model.Crdt GoaktVerif.Spec.C38

/-- lexicographic order on stamps -/
def stampLe (a b : LWWRegister) : Prop :=
  a.timestamp < b.timestamp ∨ (a.timestamp = b.timestamp ∧ a.nodeID ≤ b.nodeID)
def stampLt (a b : LWWRegister) : Prop :=
  a.timestamp < b.timestamp ∨ (a.timestamp = b.timestamp ∧ a.nodeID < b.nodeID)

/-- same replicated content (value and stamp) -/
def sameCore (a b : LWWRegister) : Prop :=
  a.value = b.value ∧ a.timestamp = b.timestamp ∧ a.nodeID = b.nodeID

structure LWW.Inv (w : LWWRegister.World) : Prop where
  agree : ∀ x y, w.has x → w.has y → StampsAgree x y
  /-- the owner's register is at least as new as every write carrying its node id -/
  owner : ∀ x, w.has x → stampLe x (w.replica x.nodeID)

theorem LWW.merge_core (r o : LWWRegister) : sameCore (r.merge o) r ∨ sameCore (r.merge o) o := by
  unfold LWWRegister.merge sameCore
  cases LWWRegister.otherWins r o <;> simp

theorem LWW.set_cases (r : LWWRegister) (v : Nat) (ts : Int) (n : Nat) (hts : ts < 9223372036854775807) :
    r.set v ts n = r ∨ ((r.set v ts n).nodeID = n ∧ stampLt r (r.set v ts n)) := by
  obtain ⟨rv, rt, rn, rd⟩ := r
  simp only [LWWRegister.set, stampLt]
  grind

theorem StampsAgree_of_core {x x' y y' : LWWRegister} (hx : sameCore x' x) (hy : sameCore y' y)
    (h : StampsAgree x y) : StampsAgree x' y' := by
  intro hs
  simp only [LWWRegister.stamp, Prod.mk.injEq] at hs
  rw [hx.1, hy.1]
  apply h
  simp only [LWWRegister.stamp, Prod.mk.injEq]
  exact ⟨by rw [← hx.2.1, ← hy.2.1]; exact hs.1, by rw [← hx.2.2, ← hy.2.2]; exact hs.2⟩

theorem StampsAgree_self (x : LWWRegister) : StampsAgree x x := fun _ => rfl

theorem stampLe_of_core {x x' y : LWWRegister} (hx : sameCore x' x) (h : stampLe x y) : stampLe x' y := by
  unfold stampLe at *; rw [hx.2.1, hx.2.2]; exact h

/-- adding to the pool a value with the content of an existing one -/
theorem LWW.inv_addPool {w : LWWRegister.World} (I : LWW.Inv w) (z : LWWRegister)
    (hz : ∃ x, w.has x ∧ sameCore z x) : LWW.Inv { w with pool := z :: w.pool } := by
  obtain ⟨x0, hx0, hc⟩ := hz
  have hhas : ∀ x, LWWRegister.World.has { w with pool := z :: w.pool } x → x = z ∨ w.has x := by
    intro x hx
    rcases hx with hx | ⟨n, hn⟩
    · rcases List.mem_cons.mp hx with hx | hx
      · exact Or.inl hx
      · exact Or.inr (Or.inl hx)
    · exact Or.inr (Or.inr ⟨n, hn⟩)
  have core : ∀ x, LWWRegister.World.has { w with pool := z :: w.pool } x → ∃ x', w.has x' ∧ sameCore x x' := by
    intro x hx
    rcases hhas x hx with h | h
    · subst h; exact ⟨x0, hx0, hc⟩
    · exact ⟨x, h, rfl, rfl, rfl⟩
  refine ⟨?_, ?_⟩
  · intro x y hx hy
    obtain ⟨x', hx', cx⟩ := core x hx
    obtain ⟨y', hy', cy⟩ := core y hy
    exact StampsAgree_of_core cx cy (I.agree x' y' hx' hy')
  · intro x hx
    obtain ⟨x', hx', cx⟩ := core x hx
    have := stampLe_of_core cx (I.owner x' hx')
    rw [← cx.2.2] at this
    exact this

/-- replacing replica `n` by a value that is at least as new as the old one and either has the content
    of an existing value or is a fresh write by `n`, strictly newer than the old register -/
theorem LWW.inv_setReplica {w : LWWRegister.World} (I : LWW.Inv w) (n : Nat) (z : LWWRegister)
    (hle : stampLe (w.replica n) z)
    (hz : (∃ x, w.has x ∧ sameCore z x) ∨ (z.nodeID = n ∧ stampLt (w.replica n) z)) :
    LWW.Inv (w.setReplica n z) := by
  have hhas : ∀ x, (w.setReplica n z).has x → x = z ∨ w.has x := by
    intro x hx
    rcases hx with hx | ⟨k, hk⟩
    · exact Or.inr (Or.inl hx)
    · simp only [LWWRegister.World.setReplica] at hk
      split at hk
      · exact Or.inl hk
      · exact Or.inr (Or.inr ⟨k, hk⟩)
  have hrep : ∀ k, stampLe (w.replica k) ((w.setReplica n z).replica k) := by
    intro k
    simp only [LWWRegister.World.setReplica]
    split
    · rename_i h; subst h; exact hle
    · unfold stampLe; omega
  have trans : ∀ {a b c : LWWRegister}, stampLe a b → stampLe b c → stampLe a c := by
    intro a b c h1 h2; unfold stampLe at *; omega
  have az : ∀ y, w.has y → StampsAgree z y ∧ StampsAgree y z := by
    intro y hy
    rcases hz with ⟨x, hx, cx⟩ | ⟨hn, hlt⟩
    · exact ⟨StampsAgree_of_core cx ⟨rfl, rfl, rfl⟩ (I.agree x y hx hy),
             StampsAgree_of_core ⟨rfl, rfl, rfl⟩ cx (I.agree y x hy hx)⟩
    · have hown := I.owner y hy
      constructor
      · intro hs
        simp only [LWWRegister.stamp, Prod.mk.injEq] at hs
        exfalso
        rw [← hs.2, hn] at hown
        unfold stampLe at hown; unfold stampLt at hlt; omega
      · intro hs
        simp only [LWWRegister.stamp, Prod.mk.injEq] at hs
        exfalso
        rw [hs.2, hn] at hown
        unfold stampLe at hown; unfold stampLt at hlt; omega
  refine ⟨?_, ?_⟩
  · intro x y hx hy
    rcases hhas x hx with hxz | hx' <;> rcases hhas y hy with hyz | hy'
    · subst hxz; subst hyz; exact StampsAgree_self _
    · subst hxz; exact (az y hy').1
    · subst hyz; exact (az x hx').2
    · exact I.agree x y hx' hy'
  · intro x hx
    rcases hhas x hx with hxz | hx'
    · subst hxz
      rcases hz with ⟨x', hx', cx⟩ | ⟨hn, _⟩
      · have := trans (I.owner x' hx') (hrep x'.nodeID)
        rw [← cx.2.2] at this
        exact stampLe_of_core cx this
      · rw [hn]; simp only [LWWRegister.World.setReplica, if_true]; unfold stampLe; omega
    · exact trans (I.owner x hx') (hrep _)

theorem LWW.inv_of_reachable {w : LWWRegister.World} (h : LWWRegister.World.Reachable w) : LWW.Inv w := by
  induction h with
  | init =>
    have hall : ∀ x, LWWRegister.World.has ⟨fun _ => LWWRegister.new, []⟩ x → x = LWWRegister.new := by
      intro x hx
      rcases hx with hx | ⟨n, hn⟩
      · simp at hx
      · exact hn
    refine ⟨?_, ?_⟩
    · intro x y hx hy _; rw [hall x hx, hall y hy]
    · intro x hx; rw [hall x hx]; simp [stampLe, LWWRegister.new]
  | @set w n v ts _ hts ih =>
    rcases LWW.set_cases (w.replica n) v ts n hts with he | ⟨hn, hlt⟩
    · rw [he]
      apply LWW.inv_setReplica ih n _ (by unfold stampLe; omega)
      exact Or.inl ⟨_, Or.inr ⟨n, rfl⟩, rfl, rfl, rfl⟩
    · apply LWW.inv_setReplica ih n _ (by unfold stampLe; unfold stampLt at hlt; omega)
      exact Or.inr ⟨hn, hlt⟩
  | @deliver w n m _ hm ih =>
    apply LWW.inv_setReplica ih n _ (by
      have := (LWW.infl (w.replica n) m).1
      simp only [leLWW, Bool.or_eq_true, Bool.and_eq_true, decide_eq_true_eq] at this
      exact this)
    left
    rcases LWW.merge_core (w.replica n) m with h | h
    · exact ⟨_, Or.inr ⟨n, rfl⟩, h⟩
    · exact ⟨m, hm, h⟩
  | @resetDelta w n _ ih =>
    apply LWW.inv_setReplica ih n (w.replica n).resetDelta (by simp [stampLe, LWWRegister.resetDelta])
    exact Or.inl ⟨_, Or.inr ⟨n, rfl⟩, rfl, rfl, rfl⟩
  | @snapshot w x _ hx ih => exact LWW.inv_addPool ih _ ⟨x, hx, rfl, rfl, rfl⟩
  | @delta w x d _ hx hd ih =>
    have : d = x := by
      unfold LWWRegister.delta? at hd
      split at hd
      · exact (Option.some.inj hd).symm
      · cases hd
    subst this
    exact LWW.inv_addPool ih _ ⟨d, hx, rfl, rfl, rfl⟩
  | @mergeAny w x y _ hx hy ih =>
    apply LWW.inv_addPool ih
    rcases LWW.merge_core x y with h | h
    · exact ⟨x, hx, h⟩
    · exact ⟨y, hy, h⟩
  | @resetAny w x _ hx ih => exact LWW.inv_addPool ih x.resetDelta ⟨x, hx, rfl, rfl, rfl⟩

/-- in every reachable world, Merge is a join on the registers in existence -/
theorem LWW.joinLaws_world {w : LWWRegister.World} (h : LWWRegister.World.Reachable w) :
    JoinLaws w.has LWWRegister.merge eqvLWW leLWW :=
  LWW.joinLaws w.has (LWW.inv_of_reachable h).agree

end GoaktVerif.C38

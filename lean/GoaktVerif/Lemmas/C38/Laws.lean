/-
The shape of the C38 statement: `merge` is a join on a set `S` of states, with respect to an
observation equivalence `eqv` and an information order `le`.
-/
namespace GoaktVerif.C38

/-- `merge` is commutative, associative and idempotent up to `eqv`, and inflationary for `le`,
    on all states satisfying `S` -/
structure JoinLaws {σ : Type} (S : σ → Prop) (merge : σ → σ → σ) (eqv : σ → σ → Prop) (le : σ → σ → Bool) : Prop where
  comm : ∀ x y, S x → S y → eqv (merge x y) (merge y x)
  assoc : ∀ x y z, S x → S y → S z → eqv (merge (merge x y) z) (merge x (merge y z))
  idem : ∀ x, S x → eqv (merge x x) x
  infl : ∀ x y, S x → S y → le x (merge x y) = true ∧ le y (merge x y) = true

end GoaktVerif.C38

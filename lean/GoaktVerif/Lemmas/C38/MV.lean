/-
C38 for MVRegister: characterisation of Merge, the join laws for any family of registers that are
well formed and pairwise compatible (a dot names one write), and the proof that every register in
every reachable world (replicas writing under their own node id) belongs to such a family.
-/
import GoaktVerif.Lemmas.Crdt.Dots
import GoaktVerif.Lemmas.C38.Laws
import GoaktVerif.Lemmas.C38.ORSet
import GoaktVerif.Model.Crdt.MVRegister
import GoaktVerif.Spec.C38

set_option linter.unusedVariables false
namespace GoaktVerif.C38
open GoaktVerif.Model.Crdt GoaktVerif.Model.Crdt.AMap GoaktVerif.Spec.C38

theorem containsMVDot_iff (es : List MvEntry) (d : Dot) : containsMVDot es d = true ↔ ∃ e ∈ es, e.dot = d := by
  unfold containsMVDot
  rw [List.any_eq_true]
  constructor
  · rintro ⟨x, hx, h⟩
    simp only [Bool.and_eq_true, beq_iff_eq] at h
    refine ⟨x, hx, ?_⟩
    cases hxd : x.dot; cases d; simp_all
  · rintro ⟨e, he, rfl⟩; exact ⟨e, he, by simp⟩

theorem mem_appendMVEntryUnique (acc : List MvEntry) (d x : MvEntry) (hf : ∀ a ∈ acc, a.dot = d.dot → a = d) :
    x ∈ appendMVEntryUnique acc d ↔ x ∈ acc ∨ x = d := by
  unfold appendMVEntryUnique
  split
  · rename_i h
    rw [containsMVDot_iff] at h
    obtain ⟨a, ha, had⟩ := h
    have := hf a ha had
    subst this
    constructor
    · exact Or.inl
    · rintro (h | h)
      · exact h
      · exact h ▸ ha
  · simp

theorem sub_appendMVEntryUnique {acc : List MvEntry} {d x : MvEntry} (h : x ∈ appendMVEntryUnique acc d) :
    x ∈ acc ∨ x = d := by
  unfold appendMVEntryUnique at h
  split at h
  · exact Or.inl h
  · simpa using h

theorem nodup_appendMVEntryUnique {acc : List MvEntry} (h : acc.Nodup) (d : MvEntry) :
    (appendMVEntryUnique acc d).Nodup := by
  unfold appendMVEntryUnique
  split
  · exact h
  · rename_i hc
    rw [List.nodup_append]
    refine ⟨h, by simp, ?_⟩
    intro a ha b hb
    simp only [List.mem_singleton] at hb
    subst hb
    intro hab; subst hab
    exact hc ((containsMVDot_iff _ _).mpr ⟨a, ha, rfl⟩)

theorem nodup_keepLoop (acc mine : List MvEntry) (oc : AMap Nat) (oe : List MvEntry) (h : acc.Nodup) :
    (MVRegister.keepLoop acc mine oc oe).Nodup := by
  unfold MVRegister.keepLoop
  induction mine generalizing acc with
  | nil => exact h
  | cons d mine ih =>
    simp only [List.foldl_cons]
    split
    · exact ih _ (nodup_appendMVEntryUnique h d)
    · exact ih _ h

theorem mem_keepLoop (acc mine : List MvEntry) (oc : AMap Nat) (oe : List MvEntry)
    (hf : ∀ a ∈ acc ++ mine, ∀ b ∈ acc ++ mine, a.dot = b.dot → a = b) (x : MvEntry) :
    x ∈ MVRegister.keepLoop acc mine oc oe ↔
      x ∈ acc ∨ (x ∈ mine ∧ (¬ x.dot.counter ≤ oc.getD x.dot.nodeID 0 ∨ ∃ f ∈ oe, f.dot = x.dot)) := by
  unfold MVRegister.keepLoop
  induction mine generalizing acc with
  | nil => simp
  | cons d mine ih =>
    simp only [List.foldl_cons]
    have hd : d ∈ acc ++ d :: mine := by simp
    by_cases hk : (!isDominated d.dot oc || containsMVDot oe d.dot) = true
    · rw [if_pos hk]
      have hu := mem_appendMVEntryUnique acc d (hf := fun a ha had => hf a (by simp [ha]) d hd had)
      rw [ih]
      · rw [hu]
        simp only [Bool.or_eq_true, Bool.not_eq_true', containsMVDot_iff] at hk
        have hk' : ¬ d.dot.counter ≤ oc.getD d.dot.nodeID 0 ∨ ∃ f ∈ oe, f.dot = d.dot := by
          rcases hk with h | h
          · left; intro hle; rw [← isDominated_iff] at hle; rw [hle] at h; cases h
          · right; exact h
        constructor
        · rintro ((h | h) | h)
          · exact Or.inl h
          · subst h; exact Or.inr ⟨List.mem_cons_self, hk'⟩
          · exact Or.inr ⟨List.mem_cons_of_mem _ h.1, h.2⟩
        · rintro (h | ⟨h, h2⟩)
          · exact Or.inl (Or.inl h)
          · rcases List.mem_cons.mp h with h | h
            · exact Or.inl (Or.inr h)
            · exact Or.inr ⟨h, h2⟩
      · intro a ha b hb
        have sub : ∀ z, z ∈ appendMVEntryUnique acc d ++ mine → z ∈ acc ++ d :: mine := by
          intro z hz
          rcases List.mem_append.mp hz with hz | hz
          · rcases sub_appendMVEntryUnique hz with hz | hz
            · simp [hz]
            · simp [hz]
          · simp [hz]
        exact hf a (sub a ha) b (sub b hb)
    · rw [if_neg hk]
      simp only [Bool.or_eq_true, Bool.not_eq_true', containsMVDot_iff, not_or] at hk
      have hk1 : d.dot.counter ≤ oc.getD d.dot.nodeID 0 := by
        rw [← isDominated_iff]; cases h : isDominated d.dot oc
        · exact absurd h hk.1
        · rfl
      rw [ih]
      · constructor
        · rintro (h | ⟨h, h2⟩)
          · exact Or.inl h
          · exact Or.inr ⟨List.mem_cons_of_mem _ h, h2⟩
        · rintro (h | ⟨h, h2⟩)
          · exact Or.inl h
          · rcases List.mem_cons.mp h with h | h
            · subst h
              rcases h2 with h2 | h2
              · exact absurd hk1 h2
              · exact absurd h2 hk.2
            · exact Or.inr ⟨h, h2⟩
      · intro a ha b hb
        have sub : ∀ z, z ∈ acc ++ mine → z ∈ acc ++ d :: mine := by
          intro z hz
          rcases List.mem_append.mp hz with hz | hz <;> simp [hz]
        exact hf a (sub a ha) b (sub b hb)

def MV.clockOf (r : MVRegister) (n : Nat) : Nat := r.clock.getD n 0

/-- an entry survives a merge iff one side holds it and the other side holds it too or never saw its dot -/
theorem MV.mem_merge {r o : MVRegister} (hr : r.WF) (ho : o.WF) (hc : MVRegister.Compat r o) (x : MvEntry) :
    x ∈ (r.merge o).entries ↔
      (x ∈ r.entries ∧ (¬ x.dot.counter ≤ MV.clockOf o x.dot.nodeID ∨ x ∈ o.entries)) ∨
      (x ∈ o.entries ∧ (¬ x.dot.counter ≤ MV.clockOf r x.dot.nodeID ∨ x ∈ r.entries)) := by
  unfold MVRegister.merge MV.clockOf
  simp only
  have h1 := mem_keepLoop [] r.entries o.clock o.entries (by simpa using hr.dotfun)
  have hsub : ∀ z ∈ MVRegister.keepLoop [] r.entries o.clock o.entries, z ∈ r.entries := by
    intro z hz; rcases (h1 z).mp hz with h | h
    · simp at h
    · exact h.1
  rw [mem_keepLoop, h1]
  · simp only [List.not_mem_nil, false_or]
    constructor
    · rintro (⟨h, h2⟩ | ⟨h, h2⟩)
      · left; refine ⟨h, ?_⟩
        rcases h2 with h2 | ⟨f, hf, hfd⟩
        · exact Or.inl h2
        · exact Or.inr (hc x h f hf hfd.symm ▸ hf)
      · right; refine ⟨h, ?_⟩
        rcases h2 with h2 | ⟨f, hf, hfd⟩
        · exact Or.inl h2
        · exact Or.inr ((hc f hf x h hfd).symm ▸ hf)
    · rintro (⟨h, h2⟩ | ⟨h, h2⟩)
      · left; refine ⟨h, ?_⟩
        rcases h2 with h2 | h2
        · exact Or.inl h2
        · exact Or.inr ⟨x, h2, rfl⟩
      · right; refine ⟨h, ?_⟩
        rcases h2 with h2 | h2
        · exact Or.inl h2
        · exact Or.inr ⟨x, h2, rfl⟩
  · intro a ha b hb hab
    rcases List.mem_append.mp ha with ha | ha <;> rcases List.mem_append.mp hb with hb | hb
    · exact hr.dotfun a (hsub a ha) b (hsub b hb) hab
    · exact hc a (hsub a ha) b hb hab
    · exact (hc b (hsub b hb) a ha hab.symm).symm
    · exact ho.dotfun a ha b hb hab

theorem MV.clockOf_merge (r o : MVRegister) (ho : o.clock.Sorted) (n : Nat) :
    MV.clockOf (r.merge o) n = max (MV.clockOf r n) (MV.clockOf o n) := by
  unfold MV.clockOf MVRegister.merge
  exact getD_mergeClock _ ho n

theorem MV.sub_merge {r o : MVRegister} (hr : r.WF) (ho : o.WF) (hc : MVRegister.Compat r o) {x : MvEntry}
    (h : x ∈ (r.merge o).entries) : x ∈ r.entries ∨ x ∈ o.entries := by
  rcases (MV.mem_merge hr ho hc x).mp h with ⟨h, _⟩ | ⟨h, _⟩
  · exact Or.inl h
  · exact Or.inr h

theorem MV.wf_merge {r o : MVRegister} (hr : r.WF) (ho : o.WF) (hc : MVRegister.Compat r o) : (r.merge o).WF where
  clock_sorted := sorted_mergeClock hr.clock_sorted _
  dots_le e he := by
    have hcl := MV.clockOf_merge r o ho.clock_sorted e.dot.nodeID
    unfold MV.clockOf at hcl
    rw [hcl]
    rcases MV.sub_merge hr ho hc he with h | h
    · have := hr.dots_le e h; omega
    · have := ho.dots_le e h; omega
  nodup := by
    unfold MVRegister.merge
    exact nodup_keepLoop _ _ _ _ (nodup_keepLoop _ _ _ _ List.nodup_nil)
  dotfun a ha b hb hab := by
    rcases MV.sub_merge hr ho hc ha with ha | ha <;> rcases MV.sub_merge hr ho hc hb with hb | hb
    · exact hr.dotfun a ha b hb hab
    · exact hc a ha b hb hab
    · exact (hc b hb a ha hab.symm).symm
    · exact ho.dotfun a ha b hb hab

/-! ### the observation and the laws on a compatible family -/

/-- observation: the version vector as a function, the entries as a multiset (slice order depends on the
    merge order), and hence `Values()` as a multiset -/
def eqvMV (a b : MVRegister) : Prop :=
  (∀ n, MV.clockOf a n = MV.clockOf b n) ∧ a.entries.Perm b.entries ∧ a.values.Perm b.values

theorem eqvMV_of {a b : MVRegister} (ha : a.entries.Nodup) (hb : b.entries.Nodup)
    (hc : ∀ n, MV.clockOf a n = MV.clockOf b n) (hm : ∀ x, x ∈ a.entries ↔ x ∈ b.entries) : eqvMV a b := by
  have hp : a.entries.Perm b.entries := (List.perm_ext_iff_of_nodup ha hb).mpr hm
  exact ⟨hc, hp, hp.map _⟩

/-- a family of registers that can coexist: each well formed, any two compatible -/
structure MV.Family (S : MVRegister → Prop) : Prop where
  wf : ∀ x, S x → x.WF
  compat : ∀ x y, S x → S y → MVRegister.Compat x y

theorem MV.compat_merge_left {x y z : MVRegister} (hx : x.WF) (hy : y.WF) (hxy : MVRegister.Compat x y)
    (hxz : MVRegister.Compat x z) (hyz : MVRegister.Compat y z) : MVRegister.Compat (x.merge y) z := by
  intro e he f hf hd
  rcases MV.sub_merge hx hy hxy he with h | h
  · exact hxz e h f hf hd
  · exact hyz e h f hf hd

theorem MV.compat_merge_right {x y z : MVRegister} (hy : y.WF) (hz : z.WF) (hyz : MVRegister.Compat y z)
    (hxy : MVRegister.Compat x y) (hxz : MVRegister.Compat x z) : MVRegister.Compat x (y.merge z) := by
  intro e he f hf hd
  rcases MV.sub_merge hy hz hyz hf with h | h
  · exact hxy e he f h hd
  · exact hxz e he f h hd

theorem leMV_iff (a b : MVRegister) : leMV a b = true ↔
    leClock a.clock b.clock = true ∧
    ∀ e ∈ b.entries, (¬ e.dot.counter ≤ MV.clockOf a e.dot.nodeID) ∨ e ∈ a.entries := by
  unfold leMV MV.clockOf
  rw [Bool.and_eq_true, List.all_eq_true]
  constructor
  · rintro ⟨h1, h2⟩
    refine ⟨h1, fun e he => ?_⟩
    have := h2 e he
    simp only [Bool.or_eq_true, Bool.not_eq_true', List.contains_iff_mem] at this
    rcases this with h | h
    · left; intro hle; rw [← isDominated_iff] at hle; rw [hle] at h; cases h
    · right; exact h
  · rintro ⟨h1, h2⟩
    refine ⟨h1, fun e he => ?_⟩
    simp only [Bool.or_eq_true, Bool.not_eq_true', List.contains_iff_mem]
    rcases h2 e he with h | h
    · left; cases hdom : isDominated e.dot a.clock
      · rfl
      · rw [isDominated_iff] at hdom; exact absurd hdom h
    · right; exact h

theorem MV.joinLaws_family {S : MVRegister → Prop} (F : MV.Family S) :
    JoinLaws S MVRegister.merge eqvMV leMV where
  comm x y hx hy := by
    have wx := F.wf x hx; have wy := F.wf y hy
    have cxy := F.compat x y hx hy; have cyx := F.compat y x hy hx
    apply eqvMV_of (MV.wf_merge wx wy cxy).nodup (MV.wf_merge wy wx cyx).nodup
    · intro n; rw [MV.clockOf_merge _ _ wy.clock_sorted, MV.clockOf_merge _ _ wx.clock_sorted, Nat.max_comm]
    · intro e; rw [MV.mem_merge wx wy cxy, MV.mem_merge wy wx cyx]; exact Or.comm
  idem x hx := by
    have wx := F.wf x hx
    have cxx := F.compat x x hx hx
    apply eqvMV_of (MV.wf_merge wx wx cxx).nodup wx.nodup
    · intro n; rw [MV.clockOf_merge _ _ wx.clock_sorted, Nat.max_self]
    · intro e; rw [MV.mem_merge wx wx cxx]
      constructor
      · rintro (⟨h, _⟩ | ⟨h, _⟩) <;> exact h
      · intro h; exact Or.inl ⟨h, Or.inr h⟩
  assoc x y z hx hy hz := by
    have wx := F.wf x hx; have wy := F.wf y hy; have wz := F.wf z hz
    have cxy := F.compat x y hx hy; have cyz := F.compat y z hy hz; have cxz := F.compat x z hx hz
    have wxy := MV.wf_merge wx wy cxy
    have wyz := MV.wf_merge wy wz cyz
    have c1 := MV.compat_merge_left wx wy cxy cxz cyz
    have c2 := MV.compat_merge_right wy wz cyz cxy cxz
    apply eqvMV_of (MV.wf_merge wxy wz c1).nodup (MV.wf_merge wx wyz c2).nodup
    · intro n
      rw [MV.clockOf_merge _ _ wz.clock_sorted, MV.clockOf_merge _ _ wy.clock_sorted,
        MV.clockOf_merge _ _ wyz.clock_sorted, MV.clockOf_merge _ _ wz.clock_sorted, Nat.max_assoc]
    · intro e
      rw [MV.mem_merge wxy wz c1, MV.mem_merge wx wyz c2, MV.mem_merge wx wy cxy, MV.mem_merge wy wz cyz,
        MV.clockOf_merge _ _ wy.clock_sorted, MV.clockOf_merge _ _ wz.clock_sorted]
      have h1 := fun h => wx.dots_le e h
      have h2 := fun h => wy.dots_le e h
      have h3 := fun h => wz.dots_le e h
      unfold MV.clockOf
      generalize x.clock.getD e.dot.nodeID 0 = cx at *
      generalize y.clock.getD e.dot.nodeID 0 = cy at *
      generalize z.clock.getD e.dot.nodeID 0 = cz at *
      generalize (e ∈ x.entries) = px at *
      generalize (e ∈ y.entries) = py at *
      generalize (e ∈ z.entries) = pz at *
      by_cases a : px <;> by_cases b : py <;> by_cases c : pz <;> simp only [a, b, c, true_and, false_and, or_false, false_or, or_true, and_true, true_implies, false_implies] at * <;> omega
  infl x y hx hy := by
    have wx := F.wf x hx; have wy := F.wf y hy
    have cxy := F.compat x y hx hy
    constructor
    · rw [leMV_iff]
      refine ⟨leClock_of wx.clock_sorted fun n => ?_, fun e he => ?_⟩
      · have := MV.clockOf_merge x y wy.clock_sorted n; unfold MV.clockOf at this; rw [this]; omega
      · rcases (MV.mem_merge wx wy cxy e).mp he with ⟨h, _⟩ | ⟨_, h⟩
        · exact Or.inr h
        · exact h
    · rw [leMV_iff]
      refine ⟨leClock_of wy.clock_sorted fun n => ?_, fun e he => ?_⟩
      · have := MV.clockOf_merge x y wy.clock_sorted n; unfold MV.clockOf at this; rw [this]; omega
      · rcases (MV.mem_merge wx wy cxy e).mp he with ⟨_, h⟩ | ⟨h, _⟩
        · exact h
        · exact Or.inr h

end GoaktVerif.C38

/-
C38 for MVRegister, part 2: in every reachable world (each replica writes under its own node id;
arbitrary delivery, duplication, snapshots, deltas and merges) the registers in existence form a
compatible family, hence Merge is a join on them.
-/
import GoaktVerif.Lemmas.C38.MV

set_option linter.unusedVariables false
namespace GoaktVerif.C38
open GoaktVerif.Model.Crdt GoaktVerif.Model.Crdt.AMap GoaktVerif.Spec.C38

/-- world invariant -/
structure MV.Inv (w : MVRegister.World) : Prop where
  wf : ∀ x, w.has x → x.WF
  compat : ∀ x y, w.has x → w.has y → MVRegister.Compat x y
  /-- the owner's clock covers every dot carrying its node id, wherever the dot is held -/
  owner : ∀ x, w.has x → ∀ e ∈ x.entries,
    e.dot.counter ≤ MV.clockOf (w.replica e.dot.nodeID) e.dot.nodeID

theorem MV.compat_self {x : MVRegister} (h : x.WF) : MVRegister.Compat x x := h.dotfun

/-- adding to the pool a well-formed value made of entries that already exist -/
theorem MV.inv_addPool {w : MVRegister.World} (I : MV.Inv w) (z : MVRegister) (hz : z.WF)
    (hsub : ∀ e ∈ z.entries, ∃ x, w.has x ∧ e ∈ x.entries) :
    MV.Inv { w with pool := z :: w.pool } := by
  have hhas : ∀ x, MVRegister.World.has { w with pool := z :: w.pool } x → x = z ∨ w.has x := by
    intro x hx
    rcases hx with hx | ⟨n, hn⟩
    · rcases List.mem_cons.mp hx with hx | hx
      · exact Or.inl hx
      · exact Or.inr (Or.inl hx)
    · exact Or.inr (Or.inr ⟨n, hn⟩)
  have cz : ∀ y, w.has y → MVRegister.Compat z y := by
    intro y hy e he f hf hd
    obtain ⟨x, hx, hex⟩ := hsub e he
    exact I.compat x y hx hy e hex f hf hd
  refine ⟨?_, ?_, ?_⟩
  · intro x hx
    rcases hhas x hx with rfl | hx
    · exact hz
    · exact I.wf x hx
  · intro x y hx hy
    rcases hhas x hx with hxz | hx' <;> rcases hhas y hy with hyz | hy'
    · subst hxz; subst hyz; exact MV.compat_self hz
    · subst hxz; exact cz y hy'
    · subst hyz; intro e he f hf hd; exact (cz x hx' f hf e he hd.symm).symm
    · exact I.compat x y hx' hy'
  · intro x hx e he
    rcases hhas x hx with rfl | hx
    · obtain ⟨x', hx', hex⟩ := hsub e he
      exact I.owner x' hx' e hex
    · exact I.owner x hx e he

/-- replacing replica `n` by a well-formed value whose clock entry for `n` did not shrink and whose
    entries either exist already or carry the fresh dot `(n, new clock[n])` -/
theorem MV.inv_setReplica {w : MVRegister.World} (I : MV.Inv w) (n : Nat) (z : MVRegister) (hz : z.WF)
    (hclk : MV.clockOf (w.replica n) n ≤ MV.clockOf z n)
    (hsub : ∀ e ∈ z.entries, (∃ x, w.has x ∧ e ∈ x.entries) ∨
      (e.dot = ⟨n, MV.clockOf z n⟩ ∧ MV.clockOf (w.replica n) n < MV.clockOf z n)) :
    MV.Inv (w.setReplica n z) := by
  have hhas : ∀ x, (w.setReplica n z).has x → x = z ∨ w.has x := by
    intro x hx
    rcases hx with hx | ⟨k, hk⟩
    · exact Or.inr (Or.inl hx)
    · simp only [MVRegister.World.setReplica] at hk
      split at hk
      · exact Or.inl hk
      · exact Or.inr (Or.inr ⟨k, hk⟩)
  have hrep : ∀ k, MV.clockOf (w.replica k) k ≤ MV.clockOf ((w.setReplica n z).replica k) k := by
    intro k
    simp only [MVRegister.World.setReplica]
    split
    · rename_i h; subst h; exact hclk
    · exact Nat.le_refl _
  have cz : ∀ y, w.has y → MVRegister.Compat z y := by
    intro y hy e he f hf hd
    rcases hsub e he with ⟨x, hx, hex⟩ | ⟨hfresh, hlt⟩
    · exact I.compat x y hx hy e hex f hf hd
    · exfalso
      have := I.owner y hy f hf
      rw [← hd, hfresh] at this
      simp only at this
      omega
  refine ⟨?_, ?_, ?_⟩
  · intro x hx
    rcases hhas x hx with rfl | hx
    · exact hz
    · exact I.wf x hx
  · intro x y hx hy
    rcases hhas x hx with hxz | hx' <;> rcases hhas y hy with hyz | hy'
    · subst hxz; subst hyz; exact MV.compat_self hz
    · subst hxz; exact cz y hy'
    · subst hyz; intro e he f hf hd; exact (cz x hx' f hf e he hd.symm).symm
    · exact I.compat x y hx' hy'
  · intro x hx e he
    rcases hhas x hx with rfl | hx
    · rcases hsub e he with ⟨x', hx', hex⟩ | ⟨hfresh, hlt⟩
      · exact Nat.le_trans (I.owner x' hx' e hex) (hrep _)
      · rw [hfresh]; simp [MVRegister.World.setReplica]
    · exact Nat.le_trans (I.owner x hx e he) (hrep _)

theorem MV.wf_new : MVRegister.new.WF :=
  ⟨sorted_nil, by simp [MVRegister.new], by simp [MVRegister.new], by simp [MVRegister.new]⟩

theorem MV.wf_set {r : MVRegister} (h : r.WF) (n v : Nat) : (r.set n v).WF := by
  refine ⟨sorted_set h.clock_sorted _ _, ?_, by simp [MVRegister.set, tick], ?_⟩
  · intro e he
    simp only [MVRegister.set, tick, List.mem_singleton] at he ⊢
    subst he; simp only; rw [getD_set]; simp
  · intro a ha b hb _
    simp only [MVRegister.set, tick, List.mem_singleton] at ha hb
    rw [ha, hb]

theorem MV.inv_of_reachable {w : MVRegister.World} (h : MVRegister.World.Reachable w) : MV.Inv w := by
  induction h with
  | init =>
    have hall : ∀ x, MVRegister.World.has ⟨fun _ => MVRegister.new, []⟩ x → x = MVRegister.new := by
      intro x hx
      rcases hx with hx | ⟨n, hn⟩
      · simp at hx
      · exact hn
    refine ⟨?_, ?_, ?_⟩
    · intro x hx; rw [hall x hx]; exact MV.wf_new
    · intro x y hx hy e he; rw [hall x hx] at he; simp [MVRegister.new] at he
    · intro x hx e he; rw [hall x hx] at he; simp [MVRegister.new] at he
  | @set w n v _ ih =>
    have hr := ih.wf (w.replica n) (Or.inr ⟨n, rfl⟩)
    have hc : MV.clockOf ((w.replica n).set n v) n = MV.clockOf (w.replica n) n + 1 := by
      simp only [MV.clockOf, MVRegister.set, tick]; rw [getD_set]; simp
    apply MV.inv_setReplica ih n _ (MV.wf_set hr n v)
    · omega
    · intro e he
      right
      simp only [MVRegister.set, tick, List.mem_singleton] at he
      refine ⟨?_, by omega⟩
      rw [hc, he]; rfl
  | @deliver w n m _ hm ih =>
    have hr := ih.wf (w.replica n) (Or.inr ⟨n, rfl⟩)
    have hmw := ih.wf m hm
    have hcm := ih.compat (w.replica n) m (Or.inr ⟨n, rfl⟩) hm
    apply MV.inv_setReplica ih n _ (MV.wf_merge hr hmw hcm)
    · rw [MV.clockOf_merge _ _ hmw.clock_sorted]; omega
    · intro e he
      left
      rcases MV.sub_merge hr hmw hcm he with h | h
      · exact ⟨_, Or.inr ⟨n, rfl⟩, h⟩
      · exact ⟨m, hm, h⟩
  | @resetDelta w n _ ih =>
    have hr := ih.wf (w.replica n) (Or.inr ⟨n, rfl⟩)
    apply MV.inv_setReplica ih n (w.replica n).resetDelta
      (show (w.replica n).resetDelta.WF from ⟨hr.clock_sorted, hr.dots_le, hr.nodup, hr.dotfun⟩)
    · exact Nat.le_refl _
    · intro e he; left; exact ⟨_, Or.inr ⟨n, rfl⟩, he⟩
  | @snapshot w x _ hx ih =>
    exact MV.inv_addPool ih _ (ih.wf x hx) (fun e he => ⟨x, hx, he⟩)
  | @delta w x d _ hx hd ih =>
    have : d = x := by
      unfold MVRegister.delta? at hd
      split at hd
      · exact (Option.some.inj hd).symm
      · cases hd
    subst this
    exact MV.inv_addPool ih _ (ih.wf d hx) (fun e he => ⟨d, hx, he⟩)
  | @mergeAny w x y _ hx hy ih =>
    have wx := ih.wf x hx; have wy := ih.wf y hy; have cxy := ih.compat x y hx hy
    apply MV.inv_addPool ih _ (MV.wf_merge wx wy cxy)
    intro e he
    rcases MV.sub_merge wx wy cxy he with h | h
    · exact ⟨x, hx, h⟩
    · exact ⟨y, hy, h⟩
  | @resetAny w x _ hx ih =>
    have wx := ih.wf x hx
    exact MV.inv_addPool ih x.resetDelta (show x.resetDelta.WF from ⟨wx.clock_sorted, wx.dots_le, wx.nodup, wx.dotfun⟩)
      (fun e he => ⟨x, hx, he⟩)

theorem MV.family_of_reachable {w : MVRegister.World} (h : MVRegister.World.Reachable w) : MV.Family w.has :=
  ⟨(MV.inv_of_reachable h).wf, (MV.inv_of_reachable h).compat⟩

/-- in every reachable world, Merge is a join on the registers in existence -/
theorem MV.joinLaws {w : MVRegister.World} (h : MVRegister.World.Reachable w) :
    JoinLaws w.has MVRegister.merge eqvMV leMV :=
  MV.joinLaws_family (MV.family_of_reachable h)

end GoaktVerif.C38

/-
C38 for GCounter, PNCounter, Flag: invariants of the reachable states and the join laws.
-/
import GoaktVerif.Lemmas.Crdt.Merge
import GoaktVerif.Lemmas.C38.Laws
import GoaktVerif.Model.Crdt.PNCounter
import GoaktVerif.Model.Crdt.Flag
import GoaktVerif.Spec.C38

set_option linter.unusedVariables false
namespace GoaktVerif.C38
open GoaktVerif.Model.Crdt GoaktVerif.Model.Crdt.AMap GoaktVerif.Spec.C38

/-! ### map facts -/

theorem sorted_map_val {V W : Type} {m : AMap V} (h : Sorted m) (f : Nat × V → W) :
    Sorted (m.map fun p => (p.1, f p)) := by
  unfold Sorted at *
  rw [List.pairwise_map]
  exact h

theorem mergeMax_comm {a b : AMap Nat} (ha : Sorted a) (hb : Sorted b) : mergeMax a b = mergeMax b a :=
  AMap.ext (sorted_mergeMax ha b) (sorted_mergeMax hb a) fun k => by
    rw [get?_mergeMax a hb, get?_mergeMax b ha, optMax_comm]

theorem mergeMax_assoc {a b c : AMap Nat} (ha : Sorted a) (hb : Sorted b) (hc : Sorted c) :
    mergeMax (mergeMax a b) c = mergeMax a (mergeMax b c) :=
  AMap.ext (sorted_mergeMax (sorted_mergeMax ha b) c) (sorted_mergeMax ha _) fun k => by
    rw [get?_mergeMax _ hc, get?_mergeMax _ hb, get?_mergeMax _ (sorted_mergeMax hb c), get?_mergeMax _ hc,
      optMax_assoc]

theorem mergeMax_idem {a : AMap Nat} (ha : Sorted a) : mergeMax a a = a :=
  AMap.ext (sorted_mergeMax ha a) ha fun k => by rw [get?_mergeMax _ ha, optMax_idem]

theorem leMap_iff (a b : AMap Nat) :
    leMap a b = true ↔ ∀ p ∈ a, ∃ v, get? b p.1 = some v ∧ p.2 ≤ v := by
  unfold leMap
  rw [List.all_eq_true]
  constructor
  · intro h p hp
    have := h p hp
    split at this
    · rename_i v hv; exact ⟨v, hv, by simpa using this⟩
    · simp at this
  · intro h p hp
    obtain ⟨v, hv, hle⟩ := h p hp
    rw [hv]; simpa using hle

theorem leMap_mergeMax_left {a b : AMap Nat} (ha : Sorted a) (hb : Sorted b) : leMap a (mergeMax a b) = true := by
  rw [leMap_iff]
  intro p hp
  rw [get?_mergeMax _ hb, get?_of_mem ha (show (p.1, p.2) ∈ a from hp)]
  cases get? b p.1 with
  | none => exact ⟨p.2, rfl, Nat.le_refl _⟩
  | some y => exact ⟨max p.2 y, rfl, Nat.le_max_left _ _⟩

theorem leMap_mergeMax_right {a b : AMap Nat} (hb : Sorted b) : leMap b (mergeMax a b) = true := by
  rw [leMap_iff]
  intro p hp
  rw [get?_mergeMax _ hb, get?_of_mem hb (show (p.1, p.2) ∈ b from hp)]
  cases get? a p.1 with
  | none => exact ⟨p.2, rfl, Nat.le_refl _⟩
  | some y => exact ⟨max y p.2, rfl, Nat.le_max_right _ _⟩

/-! ### GCounter -/

theorem GCounter.wf_of_reachable {c : GCounter} (h : GCounter.Reachable c) : c.WF := by
  induction h with
  | new => exact ⟨sorted_nil, sorted_nil⟩
  | increment n v _ ih => exact ⟨sorted_set ih.1 _ _, sorted_set ih.2 _ _⟩
  | merge _ _ ih1 ih2 => exact ⟨sorted_mergeMax ih1.1 _, ih1.2⟩
  | @delta c d _ hd ih =>
    unfold GCounter.delta? at hd
    split at hd
    · cases hd
    · cases hd; exact ⟨sorted_map_val ih.2 _, sorted_nil⟩
  | resetDelta _ ih => exact ⟨ih.1, sorted_nil⟩
  | clone _ ih => exact ih

/-- observation: the replicated slots (and hence `Value()`); the delta bookkeeping is taken from the receiver -/
def eqvGC (a b : GCounter) : Prop := a.state = b.state ∧ a.value = b.value

theorem eqvGC_of_state {a b : GCounter} (h : a.state = b.state) : eqvGC a b :=
  ⟨h, by unfold GCounter.value; rw [h]⟩

theorem GCounter.joinLaws_wf : JoinLaws GCounter.WF GCounter.merge eqvGC leGC where
  comm x y hx hy := eqvGC_of_state (mergeMax_comm hx.1 hy.1)
  assoc x y z hx hy hz := eqvGC_of_state (mergeMax_assoc hx.1 hy.1 hz.1)
  idem x hx := eqvGC_of_state (mergeMax_idem hx.1)
  infl x y hx hy := ⟨leMap_mergeMax_left hx.1 hy.1, leMap_mergeMax_right hy.1⟩

theorem GCounter.joinLaws : JoinLaws GCounter.Reachable GCounter.merge eqvGC leGC where
  comm x y hx hy := GCounter.joinLaws_wf.comm x y (wf_of_reachable hx) (wf_of_reachable hy)
  assoc x y z hx hy hz := GCounter.joinLaws_wf.assoc x y z (wf_of_reachable hx) (wf_of_reachable hy) (wf_of_reachable hz)
  idem x hx := GCounter.joinLaws_wf.idem x (wf_of_reachable hx)
  infl x y hx hy := GCounter.joinLaws_wf.infl x y (wf_of_reachable hx) (wf_of_reachable hy)

/-! ### PNCounter -/

theorem PNCounter.reachable_parts {c : PNCounter} (h : PNCounter.Reachable c) :
    GCounter.Reachable c.increments ∧ GCounter.Reachable c.decrements := by
  induction h with
  | new => exact ⟨.new, .new⟩
  | increment n v _ ih => exact ⟨.increment n v ih.1, .clone ih.2⟩
  | decrement n v _ ih => exact ⟨.clone ih.1, .increment n v ih.2⟩
  | merge _ _ ih1 ih2 => exact ⟨.merge ih1.1 ih2.1, .merge ih1.2 ih2.2⟩
  | @delta c d _ hd ih =>
    unfold PNCounter.delta? at hd
    split at hd
    · cases hd
    · rename_i i dd _
      cases hd
      refine ⟨?_, ?_⟩
      · cases hi : c.increments.delta? with
        | none => exact .new
        | some x => exact .delta ih.1 hi
      · cases hi : c.decrements.delta? with
        | none => exact .new
        | some x => exact .delta ih.2 hi
  | resetDelta _ ih => exact ⟨.resetDelta ih.1, .resetDelta ih.2⟩
  | clone _ ih => exact ih

def eqvPN (a b : PNCounter) : Prop :=
  a.increments.state = b.increments.state ∧ a.decrements.state = b.decrements.state ∧ a.value = b.value

theorem eqvPN_of_state {a b : PNCounter} (h1 : a.increments.state = b.increments.state)
    (h2 : a.decrements.state = b.decrements.state) : eqvPN a b :=
  ⟨h1, h2, by unfold PNCounter.value GCounter.value; rw [h1, h2]⟩

theorem PNCounter.joinLaws_wf : JoinLaws PNCounter.WF PNCounter.merge eqvPN lePN where
  comm x y hx hy := eqvPN_of_state (mergeMax_comm hx.1.1 hy.1.1) (mergeMax_comm hx.2.1 hy.2.1)
  assoc x y z hx hy hz := eqvPN_of_state (mergeMax_assoc hx.1.1 hy.1.1 hz.1.1) (mergeMax_assoc hx.2.1 hy.2.1 hz.2.1)
  idem x hx := eqvPN_of_state (mergeMax_idem hx.1.1) (mergeMax_idem hx.2.1)
  infl x y hx hy := by
    unfold lePN leGC
    exact ⟨by simp [PNCounter.merge, GCounter.merge, leMap_mergeMax_left hx.1.1 hy.1.1, leMap_mergeMax_left hx.2.1 hy.2.1],
           by simp [PNCounter.merge, GCounter.merge, leMap_mergeMax_right hy.1.1, leMap_mergeMax_right hy.2.1]⟩

theorem PNCounter.wf_of_reachable {c : PNCounter} (h : PNCounter.Reachable c) : c.WF :=
  ⟨GCounter.wf_of_reachable (reachable_parts h).1, GCounter.wf_of_reachable (reachable_parts h).2⟩

theorem PNCounter.joinLaws : JoinLaws PNCounter.Reachable PNCounter.merge eqvPN lePN where
  comm x y hx hy := PNCounter.joinLaws_wf.comm x y (wf_of_reachable hx) (wf_of_reachable hy)
  assoc x y z hx hy hz := PNCounter.joinLaws_wf.assoc x y z (wf_of_reachable hx) (wf_of_reachable hy) (wf_of_reachable hz)
  idem x hx := PNCounter.joinLaws_wf.idem x (wf_of_reachable hx)
  infl x y hx hy := PNCounter.joinLaws_wf.infl x y (wf_of_reachable hx) (wf_of_reachable hy)

/-! ### Flag (the laws hold for every pair of values, reachable or not) -/

def eqvFlag (a b : Flag) : Prop := a.value = b.value

theorem Flag.joinLaws : JoinLaws (fun _ => True) Flag.merge eqvFlag leFlag where
  comm x y _ _ := by simp [eqvFlag, Flag.merge, Flag.value, Bool.or_comm]
  assoc x y z _ _ _ := by simp [eqvFlag, Flag.merge, Flag.value, Bool.or_assoc]
  idem x _ := by simp [eqvFlag, Flag.merge, Flag.value]
  infl x y _ _ := by
    cases hx : x.enabled <;> cases hy : y.enabled <;> simp [leFlag, Flag.merge, hx, hy]

end GoaktVerif.C38

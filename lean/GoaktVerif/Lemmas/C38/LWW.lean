/-
C38 for LWWRegister.  Merge keeps the operand with the larger (timestamp, nodeID) stamp and the
RECEIVER on a tie: associative, idempotent and inflationary for all values, commutative exactly when
equal stamps carry equal values.
-/
import GoaktVerif.Lemmas.C38.Laws
import GoaktVerif.Model.Crdt.LWWRegister
import GoaktVerif.Spec.C38

set_option linter.unusedVariables false
namespace GoaktVerif.C38
open GoaktVerif.Model.Crdt GoaktVerif.Spec.C38

def eqvLWW (a b : LWWRegister) : Prop :=
  a.value = b.value ∧ a.timestamp = b.timestamp ∧ a.nodeID = b.nodeID

/-- a write stamp determines the written value (within a family of registers) -/
def StampsAgree (x y : LWWRegister) : Prop := x.stamp = y.stamp → x.value = y.value

theorem LWW.assoc (x y z : LWWRegister) :
    eqvLWW ((x.merge y).merge z) (x.merge (y.merge z)) := by
  obtain ⟨vx, tx, nx, dx⟩ := x
  obtain ⟨vy, ty, ny, dy⟩ := y
  obtain ⟨vz, tz, nz, dz⟩ := z
  simp only [eqvLWW, LWWRegister.merge, LWWRegister.otherWins]
  grind

theorem LWW.idem (x : LWWRegister) : eqvLWW (x.merge x) x := by
  obtain ⟨vx, tx, nx, dx⟩ := x
  simp only [eqvLWW, LWWRegister.merge, LWWRegister.otherWins]
  grind

theorem LWW.comm (x y : LWWRegister) (h : StampsAgree x y) : eqvLWW (x.merge y) (y.merge x) := by
  obtain ⟨vx, tx, nx, dx⟩ := x
  obtain ⟨vy, ty, ny, dy⟩ := y
  simp only [StampsAgree, LWWRegister.stamp, Prod.mk.injEq] at h
  simp only [eqvLWW, LWWRegister.merge, LWWRegister.otherWins]
  grind

theorem LWW.infl (x y : LWWRegister) : leLWW x (x.merge y) = true ∧ leLWW y (x.merge y) = true := by
  obtain ⟨vx, tx, nx, dx⟩ := x
  obtain ⟨vy, ty, ny, dy⟩ := y
  simp only [leLWW, LWWRegister.merge, LWWRegister.otherWins]
  grind

/-- in any family of registers in which a stamp determines the value, Merge is a join -/
theorem LWW.joinLaws (S : LWWRegister → Prop) (hS : ∀ x y, S x → S y → StampsAgree x y) :
    JoinLaws S LWWRegister.merge eqvLWW leLWW where
  comm x y hx hy := LWW.comm x y (hS x y hx hy)
  assoc x y z _ _ _ := LWW.assoc x y z
  idem x _ := LWW.idem x
  infl x y _ _ := LWW.infl x y

/-- witness of C38-F1: two reachable registers with one stamp and two values -/
def lwwA : LWWRegister := LWWRegister.new.set 2 9 1
def lwwB : LWWRegister := LWWRegister.new.set 3 9 1

theorem LWW.comm_refuted :
    ¬ (∀ x y, LWWRegister.Reachable x → LWWRegister.Reachable y → eqvLWW (x.merge y) (y.merge x)) := by
  intro h
  have := (h lwwA lwwB (.set _ _ _ .new) (.set _ _ _ .new)).1
  revert this; decide

end GoaktVerif.C38

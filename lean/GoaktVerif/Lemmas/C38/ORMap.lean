/-
C38 for ORMap: characterisation of Merge on the value map, the invariant `ORMap.WF`, and the join
laws.  The value type is a parameter with its own join laws (`ValueLaws`).  Commutativity,
idempotence and inflation hold for all well-formed maps; associativity on VALUES holds under the
decidable guard `ORMap.noResurrect` (and on the key set always).
-/
import GoaktVerif.Lemmas.C38.ORSetReach
import GoaktVerif.Model.Crdt.ORMap

set_option linter.unusedVariables false
set_option linter.unusedSectionVars false
namespace GoaktVerif.C38
open GoaktVerif.Model.Crdt GoaktVerif.Model.Crdt.AMap GoaktVerif.Spec.C38

variable {V : Type} [CrdtValue V]

open GoaktVerif.Model.Crdt.ORMap (optMerge)

/-- lift a relation on values to optional values -/
def optRel (r : V → V → Prop) : Option V → Option V → Prop
  | none, none => True
  | some a, some b => r a b
  | _, _ => False

/-- what the ORMap laws assume of the value CRDT -/
structure ValueLaws (RV : V → Prop) (eqvV : V → V → Prop) (leV : V → V → Bool) : Prop where
  closed : ∀ a b, RV a → RV b → RV (CrdtValue.merge a b)
  refl : ∀ a, RV a → eqvV a a
  le_refl : ∀ a, RV a → leV a a = true
  join : JoinLaws RV CrdtValue.merge eqvV leV

/-! ### folds that build the value map -/

theorem sorted_foldl_setOpt (l : List Nat) (f : Nat → Option V) {m : AMap V} (hm : Sorted m) :
    Sorted (l.foldl (fun (m : AMap V) e => AMap.setOpt m e (f e)) m) := by
  induction l generalizing m with
  | nil => exact hm
  | cons e l ih =>
    simp only [List.foldl_cons]
    cases h : f e with
    | none => exact ih hm
    | some v => exact ih (sorted_set hm _ _)

theorem get?_foldl_setOpt (l : List Nat) (f : Nat → Option V) (m : AMap V) (k : Nat) :
    get? (l.foldl (fun (m : AMap V) e => AMap.setOpt m e (f e)) m) k =
      if k ∈ l ∧ (f k).isSome then f k else get? m k := by
  induction l generalizing m with
  | nil => simp
  | cons e l ih =>
    simp only [List.foldl_cons]
    rw [ih]
    by_cases hk : k ∈ l ∧ (f k).isSome
    · rw [if_pos hk, if_pos ⟨List.mem_cons_of_mem _ hk.1, hk.2⟩]
    · rw [if_neg hk]
      by_cases hke : k = e
      · subst hke
        cases hf : f k with
        | none => simp [AMap.setOpt]
        | some v => simp [AMap.setOpt, get?_set]
      · have : ¬ (k ∈ e :: l ∧ (f k).isSome) := by
          intro h; rcases List.mem_cons.mp h.1 with h1 | h1
          · exact hke h1
          · exact hk ⟨h1, h.2⟩
        rw [if_neg this]
        cases f e with
        | none => rfl
        | some v => simp only [AMap.setOpt, get?_set, if_neg hke]

theorem get?_merge_values (m o : ORMap V) (k : Nat) :
    (m.merge o).values.get? k =
      if k ∈ (m.keys.merge o.keys).elements then optMerge (m.values.get? k) (o.values.get? k) else none := by
  unfold ORMap.merge
  simp only
  rw [get?_foldl_setOpt]
  by_cases hk : k ∈ (m.keys.merge o.keys).elements
  · rw [if_pos hk]
    cases h : optMerge (m.values.get? k) (o.values.get? k) with
    | none => simp
    | some v => simp [hk]
  · rw [if_neg hk, if_neg (fun h => hk h.1)]; rfl

theorem contains_iff_mem_elements {s : ORSet} (h : s.entries.Sorted) (e : Nat) :
    s.contains e = true ↔ e ∈ s.elements := by
  rw [mem_elements h]
  unfold ORSet.contains ORSet.dotsOf AMap.getD
  cases s.entries.get? e with
  | none => simp
  | some dots => cases dots <;> simp

theorem mem_elements_merge {s o : ORSet} (hs : s.entries.Sorted) (ho : o.entries.Sorted) {k : Nat}
    (h : k ∈ (s.merge o).elements) : k ∈ s.elements ∨ k ∈ o.elements := by
  rw [mem_elements (entries_sorted_merge s o)] at h
  obtain ⟨d, hd⟩ := List.exists_mem_of_ne_nil _ h
  rcases (has_merge s o k d).mp hd with ⟨h1, _⟩ | ⟨h1, _⟩
  · exact Or.inl ((mem_elements hs k).mpr (List.ne_nil_of_mem h1))
  · exact Or.inr ((mem_elements ho k).mpr (List.ne_nil_of_mem h1))

/-! ### the invariant is preserved by Merge -/

theorem ORMap.wf_merge {RV : V → Prop} {eqvV : V → V → Prop} {leV : V → V → Bool} (VL : ValueLaws RV eqvV leV)
    {m o : ORMap V} (hm : m.WF RV) (ho : o.WF RV) : (m.merge o).WF RV where
  keys_wf := GoaktVerif.C38.wf_merge hm.keys_wf ho.keys_wf
  values_sorted := by unfold ORMap.merge; exact sorted_foldl_setOpt _ _ sorted_nil
  dom k := by
    rw [get?_merge_values]
    show _ ↔ k ∈ (m.keys.merge o.keys).elements
    constructor
    · intro h; split at h
      · assumption
      · cases h
    · intro h
      rw [if_pos h]
      rcases mem_elements_merge hm.keys_wf.entries_sorted ho.keys_wf.entries_sorted h with h1 | h1
      · have := (hm.dom k).mpr h1
        cases hv : m.values.get? k with
        | none => rw [hv] at this; cases this
        | some a => cases o.values.get? k <;> rfl
      · have := (ho.dom k).mpr h1
        cases hv : o.values.get? k with
        | none => rw [hv] at this; cases this
        | some a => cases m.values.get? k <;> rfl
  vals k v hv := by
    rw [get?_merge_values] at hv
    split at hv
    · cases ha : m.values.get? k with
      | none =>
        cases hb : o.values.get? k with
        | none => rw [ha, hb] at hv; cases hv
        | some b => rw [ha, hb] at hv; cases hv; exact ho.vals k _ hb
      | some a =>
        cases hb : o.values.get? k with
        | none => rw [ha, hb] at hv; cases hv; exact hm.vals k _ ha
        | some b => rw [ha, hb] at hv; cases hv; exact VL.closed _ _ (hm.vals k _ ha) (ho.vals k _ hb)
    · cases hv

/-! ### the observation and the laws -/

/-- observation: the key ORSet's observation, and the stored value of every key up to the value
    type's own observation -/
def eqvOM (eqvV : V → V → Prop) (a b : ORMap V) : Prop :=
  eqvOS a.keys b.keys ∧ ∀ k, optRel eqvV (a.values.get? k) (b.values.get? k)

/-- optional value all of whose inhabitants satisfy RV -/
def OptRV (RV : V → Prop) (o : Option V) : Prop := ∀ v, o = some v → RV v

theorem optRel_refl {RV : V → Prop} {eqvV : V → V → Prop} {leV : V → V → Bool} (VL : ValueLaws RV eqvV leV)
    {a : Option V} (ha : OptRV RV a) : optRel eqvV a a := by
  cases a with
  | none => trivial
  | some x => exact VL.refl x (ha x rfl)

theorem optRel_comm {RV : V → Prop} {eqvV : V → V → Prop} {leV : V → V → Bool} (VL : ValueLaws RV eqvV leV)
    {a b : Option V} (ha : OptRV RV a) (hb : OptRV RV b) : optRel eqvV (optMerge a b) (optMerge b a) := by
  cases a with
  | none => cases b with
    | none => trivial
    | some y => exact VL.refl y (hb y rfl)
  | some x => cases b with
    | none => exact VL.refl x (ha x rfl)
    | some y => exact VL.join.comm x y (ha x rfl) (hb y rfl)

theorem optRel_idem {RV : V → Prop} {eqvV : V → V → Prop} {leV : V → V → Bool} (VL : ValueLaws RV eqvV leV)
    {a : Option V} (ha : OptRV RV a) : optRel eqvV (optMerge a a) a := by
  cases a with
  | none => trivial
  | some x => exact VL.join.idem x (ha x rfl)

theorem optRel_assoc {RV : V → Prop} {eqvV : V → V → Prop} {leV : V → V → Bool} (VL : ValueLaws RV eqvV leV)
    {a b c : Option V} (ha : OptRV RV a) (hb : OptRV RV b) (hc : OptRV RV c) :
    optRel eqvV (optMerge (optMerge a b) c) (optMerge a (optMerge b c)) := by
  cases a with
  | none => cases b with
    | none => cases c with
      | none => trivial
      | some z => exact VL.refl z (hc z rfl)
    | some y => cases c with
      | none => exact VL.refl y (hb y rfl)
      | some z => exact VL.refl _ (VL.closed _ _ (hb y rfl) (hc z rfl))
  | some x => cases b with
    | none => cases c with
      | none => exact VL.refl x (ha x rfl)
      | some z => exact VL.refl _ (VL.closed _ _ (ha x rfl) (hc z rfl))
    | some y => cases c with
      | none => exact VL.refl _ (VL.closed _ _ (ha x rfl) (hb y rfl))
      | some z => exact VL.join.assoc x y z (ha x rfl) (hb y rfl) (hc z rfl)

theorem ORMap.optRV {RV : V → Prop} {m : ORMap V} (hm : m.WF RV) (k : Nat) : OptRV RV (m.values.get? k) :=
  fun v hv => hm.vals k v hv

theorem ORMap.comm {RV : V → Prop} {eqvV : V → V → Prop} {leV : V → V → Bool} (VL : ValueLaws RV eqvV leV)
    {x y : ORMap V} (hx : x.WF RV) (hy : y.WF RV) : eqvOM eqvV (x.merge y) (y.merge x) := by
  have hk := ORSet.comm hx.keys_wf hy.keys_wf
  refine ⟨hk, fun k => ?_⟩
  rw [get?_merge_values, get?_merge_values, ← hk.2.2]
  split
  · exact optRel_comm VL (ORMap.optRV hx k) (ORMap.optRV hy k)
  · trivial

theorem ORMap.idem {RV : V → Prop} {eqvV : V → V → Prop} {leV : V → V → Bool} (VL : ValueLaws RV eqvV leV)
    {x : ORMap V} (hx : x.WF RV) : eqvOM eqvV (x.merge x) x := by
  have hk := ORSet.idem hx.keys_wf
  refine ⟨hk, fun k => ?_⟩
  rw [get?_merge_values, hk.2.2]
  split
  · exact optRel_idem VL (ORMap.optRV hx k)
  · rename_i h
    have : x.values.get? k = none := by
      cases hv : x.values.get? k with
      | none => rfl
      | some v => exact absurd ((hx.dom k).mp (by rw [hv]; rfl)) h
    rw [this]; trivial

theorem noResurrect_iff (x y z : ORMap V) (hx : x.keys.entries.Sorted) (hy : y.keys.entries.Sorted)
    (hz : z.keys.entries.Sorted) : ORMap.noResurrect x y z = true ↔
    ∀ k ∈ (x.keys.merge (y.keys.merge z.keys)).elements,
      ((k ∈ x.keys.elements ∨ k ∈ y.keys.elements) → k ∈ (x.keys.merge y.keys).elements) ∧
      ((k ∈ y.keys.elements ∨ k ∈ z.keys.elements) → k ∈ (y.keys.merge z.keys).elements) := by
  unfold ORMap.noResurrect
  rw [List.all_eq_true]
  have e1 := contains_iff_mem_elements hx
  have e2 := contains_iff_mem_elements hy
  have e3 := contains_iff_mem_elements hz
  have e4 := contains_iff_mem_elements (entries_sorted_merge x.keys y.keys)
  have e5 := contains_iff_mem_elements (entries_sorted_merge y.keys z.keys)
  constructor
  · intro h k hk
    have := h k hk
    simp only [Bool.and_eq_true, Bool.or_eq_true, Bool.not_eq_true', Bool.or_eq_false_iff] at this
    constructor
    · intro hor
      rcases this.1 with ⟨h1, h2⟩ | h1
      · rcases hor with h | h
        · rw [← e1] at h; rw [h] at h1; cases h1
        · rw [← e2] at h; rw [h] at h2; cases h2
      · exact (e4 k).mp h1
    · intro hor
      rcases this.2 with ⟨h1, h2⟩ | h1
      · rcases hor with h | h
        · rw [← e2] at h; rw [h] at h1; cases h1
        · rw [← e3] at h; rw [h] at h2; cases h2
      · exact (e5 k).mp h1
  · intro h k hk
    obtain ⟨h1, h2⟩ := h k hk
    simp only [Bool.and_eq_true, Bool.or_eq_true, Bool.not_eq_true', Bool.or_eq_false_iff]
    constructor
    · by_cases hor : k ∈ x.keys.elements ∨ k ∈ y.keys.elements
      · exact Or.inr ((e4 k).mpr (h1 hor))
      · left
        rw [not_or] at hor
        constructor
        · cases hc : x.keys.contains k
          · rfl
          · exact absurd ((e1 k).mp hc) hor.1
        · cases hc : y.keys.contains k
          · rfl
          · exact absurd ((e2 k).mp hc) hor.2
    · by_cases hor : k ∈ y.keys.elements ∨ k ∈ z.keys.elements
      · exact Or.inr ((e5 k).mpr (h2 hor))
      · left
        rw [not_or] at hor
        constructor
        · cases hc : y.keys.contains k
          · rfl
          · exact absurd ((e2 k).mp hc) hor.1
        · cases hc : z.keys.contains k
          · rfl
          · exact absurd ((e3 k).mp hc) hor.2

theorem ORMap.none_of_not_mem {RV : V → Prop} {m : ORMap V} (hm : m.WF RV) {k : Nat} (h : k ∉ m.keys.elements) :
    m.values.get? k = none := by
  cases hv : m.values.get? k with
  | none => rfl
  | some v => exact absurd ((hm.dom k).mp (by rw [hv]; rfl)) h

/-- associativity: always on the key set; on values under the guard -/
theorem ORMap.assoc {RV : V → Prop} {eqvV : V → V → Prop} {leV : V → V → Bool} (VL : ValueLaws RV eqvV leV)
    {x y z : ORMap V} (hx : x.WF RV) (hy : y.WF RV) (hz : z.WF RV) (hg : ORMap.noResurrect x y z = true) :
    eqvOM eqvV ((x.merge y).merge z) (x.merge (y.merge z)) := by
  have hk := ORSet.assoc hx.keys_wf hy.keys_wf hz.keys_wf
  rw [noResurrect_iff x y z hx.keys_wf.entries_sorted hy.keys_wf.entries_sorted hz.keys_wf.entries_sorted] at hg
  refine ⟨hk, fun k => ?_⟩
  have hk' : ((x.merge y).merge z).keys.elements = (x.merge (y.merge z)).keys.elements := hk.2.2
  rw [get?_merge_values (x.merge y) z, get?_merge_values x (y.merge z)]
  show optRel eqvV (if k ∈ ((x.merge y).merge z).keys.elements then _ else _)
    (if k ∈ (x.merge (y.merge z)).keys.elements then _ else _)
  rw [hk']
  split
  · rename_i hmem
    obtain ⟨g1, g2⟩ := hg k hmem
    have exy : (x.merge y).values.get? k = optMerge (x.values.get? k) (y.values.get? k) := by
      rw [get?_merge_values]
      split
      · rfl
      · rename_i hn
        have h1 : k ∉ x.keys.elements := fun h => hn (g1 (Or.inl h))
        have h2 : k ∉ y.keys.elements := fun h => hn (g1 (Or.inr h))
        rw [ORMap.none_of_not_mem hx h1, ORMap.none_of_not_mem hy h2]; rfl
    have eyz : (y.merge z).values.get? k = optMerge (y.values.get? k) (z.values.get? k) := by
      rw [get?_merge_values]
      split
      · rfl
      · rename_i hn
        have h1 : k ∉ y.keys.elements := fun h => hn (g2 (Or.inl h))
        have h2 : k ∉ z.keys.elements := fun h => hn (g2 (Or.inr h))
        rw [ORMap.none_of_not_mem hy h1, ORMap.none_of_not_mem hz h2]; rfl
    rw [exy, eyz]
    exact optRel_assoc VL (ORMap.optRV hx k) (ORMap.optRV hy k) (ORMap.optRV hz k)
  · trivial

/-- the key-set part of associativity needs no guard -/
theorem ORMap.assoc_keys {RV : V → Prop} {x y z : ORMap V} (hx : x.WF RV) (hy : y.WF RV) (hz : z.WF RV) :
    eqvOS ((x.merge y).merge z).keys (x.merge (y.merge z)).keys :=
  ORSet.assoc hx.keys_wf hy.keys_wf hz.keys_wf

theorem leOM_iff (leV : V → V → Bool) (a b : ORMap V) : leOM leV a b = true ↔
    leOS a.keys b.keys = true ∧ ∀ p ∈ a.values, ∀ w, b.values.get? p.1 = some w → leV p.2 w = true := by
  unfold leOM
  rw [Bool.and_eq_true, List.all_eq_true]
  constructor
  · rintro ⟨h1, h2⟩
    refine ⟨h1, fun p hp w hw => ?_⟩
    have := h2 p hp; rw [hw] at this; exact this
  · rintro ⟨h1, h2⟩
    refine ⟨h1, fun p hp => ?_⟩
    cases hw : b.values.get? p.1 with
    | none => rfl
    | some w => exact h2 p hp w hw

theorem ORMap.infl {RV : V → Prop} {eqvV : V → V → Prop} {leV : V → V → Bool} (VL : ValueLaws RV eqvV leV)
    {x y : ORMap V} (hx : x.WF RV) (hy : y.WF RV) :
    leOM leV x (x.merge y) = true ∧ leOM leV y (x.merge y) = true := by
  have hk := ORSet.infl hx.keys_wf hy.keys_wf
  constructor
  · rw [leOM_iff]
    refine ⟨hk.1, fun p hp w hw => ?_⟩
    rw [get?_merge_values] at hw
    have hpx : x.values.get? p.1 = some p.2 := get?_of_mem hx.values_sorted hp
    have rp := hx.vals _ _ hpx
    split at hw
    · rw [hpx] at hw
      cases hb : y.values.get? p.1 with
      | none => rw [hb] at hw; cases hw; exact VL.le_refl _ rp
      | some b => rw [hb] at hw; cases hw; exact (VL.join.infl _ _ rp (hy.vals _ _ hb)).1
    · cases hw
  · rw [leOM_iff]
    refine ⟨hk.2, fun p hp w hw => ?_⟩
    rw [get?_merge_values] at hw
    have hpy : y.values.get? p.1 = some p.2 := get?_of_mem hy.values_sorted hp
    have rp := hy.vals _ _ hpy
    split at hw
    · rw [hpy] at hw
      cases ha : x.values.get? p.1 with
      | none => rw [ha] at hw; cases hw; exact VL.le_refl _ rp
      | some a => rw [ha] at hw; cases hw; exact (VL.join.infl _ _ (hx.vals _ _ ha) rp).2
    · cases hw

end GoaktVerif.C38

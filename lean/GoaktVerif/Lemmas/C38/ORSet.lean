/-
C38 for ORSet: characterisation of Merge on (element, dot) pairs and on the version vector, the
invariant `ORSet.WF` (maps sorted, dots ≤ clock), and the join laws for all well-formed states.
-/
import GoaktVerif.Lemmas.Crdt.Dots
import GoaktVerif.Lemmas.C38.Laws
import GoaktVerif.Spec.C38

set_option linter.unusedVariables false
namespace GoaktVerif.C38
open GoaktVerif.Model.Crdt GoaktVerif.Model.Crdt.AMap GoaktVerif.Spec.C38

/-- the version vector as a function -/
def ORSet.clockOf (s : ORSet) (n : Nat) : Nat := s.clock.getD n 0

theorem dotsOf_eq_nil_of_get?_none {s : ORSet} {e : Nat} (h : s.entries.get? e = none) : s.dotsOf e = [] := by
  simp [ORSet.dotsOf, AMap.getD, h]

/-- `merged.entries[e]` is exactly the `kept` slice computed for `e` -/
theorem dotsOf_merge (s o : ORSet) (e : Nat) : (s.merge o).dotsOf e = ORSet.kept s o e := by
  unfold ORSet.dotsOf AMap.getD ORSet.merge
  simp only
  rw [get?_foldl_set (s.entries.keys ++ o.entries.keys) (fun e => ORSet.kept s o e) (fun e => (ORSet.kept s o e).isEmpty)]
  by_cases hk : (ORSet.kept s o e).isEmpty = true
  · rw [if_neg (by simp [hk])]
    simp only [get?_nil, Option.getD_none]
    exact (List.isEmpty_iff.mp hk).symm
  · have hne : (ORSet.kept s o e) ≠ [] := fun h => hk (by simp [h])
    obtain ⟨x, hx⟩ := List.exists_mem_of_ne_nil _ hne
    have hmem : e ∈ s.entries.keys ++ o.entries.keys := by
      rw [List.mem_append, mem_keys_iff, mem_keys_iff]
      rw [mem_kept] at hx
      rcases hx with ⟨h, _⟩ | ⟨h, _⟩
      · left
        cases hg : s.entries.get? e with
        | none => rw [dotsOf_eq_nil_of_get?_none hg] at h; cases h
        | some _ => rfl
      · right
        cases hg : o.entries.get? e with
        | none => rw [dotsOf_eq_nil_of_get?_none hg] at h; cases h
        | some _ => rfl
    rw [if_pos ⟨hmem, by simpa using hk⟩]
    rfl

theorem entries_sorted_merge (s o : ORSet) : (s.merge o).entries.Sorted := by
  unfold ORSet.merge
  exact sorted_foldl_set _ (fun e => ORSet.kept s o e) (fun e => (ORSet.kept s o e).isEmpty) sorted_nil

/-- (e, d) survives a merge iff it is held by one side and the other side either holds it too or has
    never seen it -/
theorem has_merge (s o : ORSet) (e : Nat) (d : Dot) :
    d ∈ (s.merge o).dotsOf e ↔
      (d ∈ s.dotsOf e ∧ (¬ d.counter ≤ ORSet.clockOf o d.nodeID ∨ d ∈ o.dotsOf e)) ∨
      (d ∈ o.dotsOf e ∧ (¬ d.counter ≤ ORSet.clockOf s d.nodeID ∨ d ∈ s.dotsOf e)) := by
  rw [dotsOf_merge, mem_kept]; rfl

theorem clockOf_merge (s o : ORSet) (ho : o.clock.Sorted) (n : Nat) :
    ORSet.clockOf (s.merge o) n = max (ORSet.clockOf s n) (ORSet.clockOf o n) := by
  unfold ORSet.clockOf ORSet.merge
  exact getD_mergeClock _ ho n

theorem WF.le {s : ORSet} (h : s.WF) {e : Nat} {d : Dot} (hd : d ∈ s.dotsOf e) :
    d.counter ≤ ORSet.clockOf s d.nodeID := h.dots_le e d hd

theorem wf_merge {s o : ORSet} (hs : s.WF) (ho : o.WF) : (s.merge o).WF where
  entries_sorted := entries_sorted_merge s o
  clock_sorted := sorted_mergeClock hs.clock_sorted _
  dots_le e d hd := by
    have hc := clockOf_merge s o ho.clock_sorted d.nodeID
    unfold ORSet.clockOf at hc
    rw [hc]
    rcases (has_merge s o e d).mp hd with ⟨h, _⟩ | ⟨h, _⟩
    · have := hs.dots_le e d h; omega
    · have := ho.dots_le e d h; omega
  added_sorted := sorted_nil
  added_le e d hd := by simp [ORSet.merge, ORSet.newDelta, AMap.getD] at hd

/-! ### elements -/

theorem elements_sorted {s : ORSet} (h : s.entries.Sorted) : s.elements.Pairwise (· < ·) := by
  unfold ORSet.elements
  rw [List.pairwise_map]
  exact List.Pairwise.filter _ h

theorem mem_elements {s : ORSet} (h : s.entries.Sorted) (e : Nat) : e ∈ s.elements ↔ s.dotsOf e ≠ [] := by
  unfold ORSet.elements ORSet.dotsOf AMap.getD
  rw [List.mem_map]
  constructor
  · rintro ⟨p, hp, rfl⟩
    rw [List.mem_filter] at hp
    rw [get?_of_mem h (show (p.1, p.2) ∈ s.entries from hp.1)]
    intro h'; simp only [Option.getD_some] at h'; rw [h'] at hp; simp at hp
  · intro hne
    cases hg : s.entries.get? e with
    | none => rw [hg] at hne; simp at hne
    | some dots =>
      rw [hg] at hne
      simp only [Option.getD_some] at hne
      refine ⟨(e, dots), ?_, rfl⟩
      rw [List.mem_filter]
      refine ⟨mem_of_get? hg, ?_⟩
      cases dots with
      | nil => exact absurd rfl hne
      | cons _ _ => rfl

/-! ### the observation and the laws -/

/-- observation: the version vector as a function, the (element, dot) pairs as a set, and `Elements()` -/
def eqvOS (a b : ORSet) : Prop :=
  (∀ n, ORSet.clockOf a n = ORSet.clockOf b n) ∧ (∀ e d, d ∈ a.dotsOf e ↔ d ∈ b.dotsOf e) ∧ a.elements = b.elements

theorem eqvOS_of {a b : ORSet} (ha : a.entries.Sorted) (hb : b.entries.Sorted)
    (hc : ∀ n, ORSet.clockOf a n = ORSet.clockOf b n) (hd : ∀ e d, d ∈ a.dotsOf e ↔ d ∈ b.dotsOf e) : eqvOS a b := by
  refine ⟨hc, hd, sortedNat_ext (elements_sorted ha) (elements_sorted hb) fun e => ?_⟩
  rw [mem_elements ha, mem_elements hb]
  constructor
  · intro h; obtain ⟨x, hx⟩ := List.exists_mem_of_ne_nil _ h
    exact List.ne_nil_of_mem ((hd e x).mp hx)
  · intro h; obtain ⟨x, hx⟩ := List.exists_mem_of_ne_nil _ h
    exact List.ne_nil_of_mem ((hd e x).mpr hx)

theorem ORSet.comm {x y : ORSet} (hx : x.WF) (hy : y.WF) : eqvOS (x.merge y) (y.merge x) := by
  apply eqvOS_of (entries_sorted_merge x y) (entries_sorted_merge y x)
  · intro n; rw [clockOf_merge _ _ hy.clock_sorted, clockOf_merge _ _ hx.clock_sorted, Nat.max_comm]
  · intro e d; rw [has_merge, has_merge]; exact Or.comm

theorem ORSet.idem {x : ORSet} (hx : x.WF) : eqvOS (x.merge x) x := by
  apply eqvOS_of (entries_sorted_merge x x) hx.entries_sorted
  · intro n; rw [clockOf_merge _ _ hx.clock_sorted, Nat.max_self]
  · intro e d; rw [has_merge]
    constructor
    · rintro (⟨h, _⟩ | ⟨h, _⟩) <;> exact h
    · intro h; exact Or.inl ⟨h, Or.inr h⟩

theorem ORSet.assoc {x y z : ORSet} (hx : x.WF) (hy : y.WF) (hz : z.WF) :
    eqvOS ((x.merge y).merge z) (x.merge (y.merge z)) := by
  have hxy := wf_merge hx hy
  have hyz := wf_merge hy hz
  apply eqvOS_of (entries_sorted_merge _ z) (entries_sorted_merge x _)
  · intro n
    rw [clockOf_merge _ _ hz.clock_sorted, clockOf_merge _ _ hy.clock_sorted,
      clockOf_merge _ _ hyz.clock_sorted, clockOf_merge _ _ hz.clock_sorted, Nat.max_assoc]
  · intro e d
    rw [has_merge (x.merge y) z, has_merge x (y.merge z), has_merge x y, has_merge y z,
      clockOf_merge _ _ hy.clock_sorted, clockOf_merge _ _ hz.clock_sorted]
    have h1 := fun h => WF.le hx (e := e) (d := d) h
    have h2 := fun h => WF.le hy (e := e) (d := d) h
    have h3 := fun h => WF.le hz (e := e) (d := d) h
    generalize ORSet.clockOf x d.nodeID = cx at *
    generalize ORSet.clockOf y d.nodeID = cy at *
    generalize ORSet.clockOf z d.nodeID = cz at *
    generalize (d ∈ x.dotsOf e) = px at *
    generalize (d ∈ y.dotsOf e) = py at *
    generalize (d ∈ z.dotsOf e) = pz at *
    by_cases a : px <;> by_cases b : py <;> by_cases c : pz <;> simp only [a, b, c, true_and, false_and, or_false, false_or, or_true, and_true, true_implies, false_implies] at * <;> omega

theorem leClock_iff (a b : AMap Nat) : leClock a b = true ↔ ∀ p ∈ a, p.2 ≤ b.getD p.1 0 := by
  unfold leClock; rw [List.all_eq_true]; simp

theorem leClock_of {a b : AMap Nat} (ha : a.Sorted) (h : ∀ n, a.getD n 0 ≤ b.getD n 0) : leClock a b = true := by
  rw [leClock_iff]
  intro p hp
  have := h p.1
  rw [AMap.getD, get?_of_mem ha (show (p.1, p.2) ∈ a from hp)] at this
  exact this

theorem leOS_iff (a b : ORSet) : leOS a b = true ↔
    leClock a.clock b.clock = true ∧
    ∀ p ∈ b.entries, ∀ d ∈ p.2, (¬ d.counter ≤ ORSet.clockOf a d.nodeID) ∨ d ∈ a.dotsOf p.1 := by
  unfold leOS
  rw [Bool.and_eq_true, List.all_eq_true]
  constructor
  · rintro ⟨h1, h2⟩
    refine ⟨h1, fun p hp d hd => ?_⟩
    have := h2 p hp
    rw [List.all_eq_true] at this
    have := this d hd
    simp only [Bool.or_eq_true, Bool.not_eq_true', containsDot_iff] at this
    rcases this with h | h
    · left; intro hle; unfold ORSet.clockOf at hle; rw [← isDominated_iff] at hle; rw [hle] at h; cases h
    · right; exact h
  · rintro ⟨h1, h2⟩
    refine ⟨h1, fun p hp => ?_⟩
    rw [List.all_eq_true]
    intro d hd
    simp only [Bool.or_eq_true, Bool.not_eq_true', containsDot_iff]
    rcases h2 p hp d hd with h | h
    · left; cases hdom : isDominated d a.clock
      · rfl
      · rw [isDominated_iff] at hdom; exact absurd (by unfold ORSet.clockOf; exact hdom) h
    · right; exact h

theorem ORSet.infl {x y : ORSet} (hx : x.WF) (hy : y.WF) :
    leOS x (x.merge y) = true ∧ leOS y (x.merge y) = true := by
  have hm := entries_sorted_merge x y
  constructor
  · rw [leOS_iff]
    refine ⟨leClock_of hx.clock_sorted fun n => ?_, fun p hp d hd => ?_⟩
    · have := clockOf_merge x y hy.clock_sorted n; unfold ORSet.clockOf at this; rw [this]; omega
    · have hd' : d ∈ (x.merge y).dotsOf p.1 := by
        unfold ORSet.dotsOf AMap.getD
        rw [get?_of_mem hm (show (p.1, p.2) ∈ _ from hp)]; exact hd
      rcases (has_merge x y p.1 d).mp hd' with ⟨h, _⟩ | ⟨_, h⟩
      · exact Or.inr h
      · exact h
  · rw [leOS_iff]
    refine ⟨leClock_of hy.clock_sorted fun n => ?_, fun p hp d hd => ?_⟩
    · have := clockOf_merge x y hy.clock_sorted n; unfold ORSet.clockOf at this; rw [this]; omega
    · have hd' : d ∈ (x.merge y).dotsOf p.1 := by
        unfold ORSet.dotsOf AMap.getD
        rw [get?_of_mem hm (show (p.1, p.2) ∈ _ from hp)]; exact hd
      rcases (has_merge x y p.1 d).mp hd' with ⟨_, h⟩ | ⟨h, _⟩
      · exact h
      · exact Or.inr h

theorem ORSet.joinLaws_wf : JoinLaws ORSet.WF ORSet.merge eqvOS leOS where
  comm x y hx hy := ORSet.comm hx hy
  assoc x y z hx hy hz := ORSet.assoc hx hy hz
  idem x hx := ORSet.idem hx
  infl x y hx hy := ORSet.infl hx hy

end GoaktVerif.C38

/-
C38 for ORMap, part 2: every reachable ORMap satisfies `ORMap.WF`; the laws on reachable maps; the
GCounter instance of the value laws; the refutation witness of associativity on values (C38-F2).
-/
import GoaktVerif.Lemmas.C38.ORMap
import GoaktVerif.Lemmas.C38.Counters

set_option linter.unusedVariables false
set_option linter.unusedSectionVars false
namespace GoaktVerif.C38
open GoaktVerif.Model.Crdt GoaktVerif.Model.Crdt.AMap GoaktVerif.Spec.C38

variable {V : Type} [CrdtValue V]

/-! ### key-set facts -/

theorem dotsOf_add (s : ORSet) (n e e' : Nat) :
    (s.add n e).dotsOf e' = if e' = e then s.dotsOf e ++ [(tick s.clock n).2] else s.dotsOf e' := by
  simp only [ORSet.add, ORSet.dotsOf]
  rw [getD_set]

theorem mem_elements_add {s : ORSet} (h : s.WF) (n e k : Nat) :
    k ∈ (s.add n e).elements ↔ k = e ∨ k ∈ s.elements := by
  rw [mem_elements (wf_add h n e).entries_sorted, mem_elements h.entries_sorted, dotsOf_add]
  by_cases hk : k = e
  · subst hk; simp
  · simp [hk]

theorem mem_elements_remove {s : ORSet} (h : s.WF) (e k : Nat) :
    k ∈ (s.remove e).elements ↔ k ≠ e ∧ k ∈ s.elements := by
  rw [mem_elements (wf_remove h e).entries_sorted, mem_elements h.entries_sorted]
  unfold ORSet.remove
  cases hg : s.entries.get? e with
  | none =>
    simp only
    constructor
    · intro hne
      refine ⟨?_, hne⟩
      intro hke; subst hke
      exact hne (dotsOf_eq_nil_of_get?_none hg)
    · exact fun h => h.2
  | some dots =>
    simp only [ORSet.dotsOf, AMap.getD]
    rw [get?_erase h.entries_sorted]
    by_cases hk : k = e
    · subst hk; simp
    · simp [hk]

theorem compactDots_ne_nil {dots : List Dot} (h : dots ≠ []) : ORSet.compactDots dots ≠ [] := by
  obtain ⟨d0, hd0⟩ := List.exists_mem_of_ne_nil _ h
  unfold ORSet.compactDots
  simp only [ne_eq, List.map_eq_nil_iff]
  suffices H : ∀ (l : List Dot) (hi : AMap Nat), (d0 ∈ l ∨ (AMap.get? hi d0.nodeID).isSome) →
      (AMap.get? (l.foldl ORSet.compactStep hi) d0.nodeID).isSome by
    intro hnil
    have := H dots [] (Or.inl hd0)
    rw [hnil] at this
    cases this
  intro l
  induction l with
  | nil =>
    intro hi h
    rcases h with h | h
    · cases h
    · exact h
  | cons d l ih =>
    intro hi h
    simp only [List.foldl_cons]
    apply ih
    rcases h with h | h
    · rcases List.mem_cons.mp h with h | h
      · right
        subst h
        unfold ORSet.compactStep
        cases hg : AMap.get? hi d0.nodeID with
        | none => simp [get?_set]
        | some c =>
          simp only
          split
          · simp [get?_set]
          · rw [hg]; rfl
      · exact Or.inl h
    · right
      unfold ORSet.compactStep
      cases hg : AMap.get? hi d.nodeID with
      | none =>
        simp only [get?_set]
        split
        · rfl
        · exact h
      | some c =>
        simp only
        split
        · simp only [get?_set]
          split
          · rfl
          · exact h
        · exact h

theorem elements_compact (s : ORSet) : s.compact.elements = s.elements := by
  unfold ORSet.elements ORSet.compact
  simp only
  rw [List.filter_map, List.map_map]
  have : (List.filter ((fun p => !p.2.isEmpty) ∘ fun p => (p.1, ORSet.compactDots p.2))
      (List.filter (fun p => !p.2.isEmpty) s.entries)) = List.filter (fun p => !p.2.isEmpty) s.entries := by
    rw [List.filter_eq_self]
    intro p hp
    rw [List.mem_filter] at hp
    have hne : p.2 ≠ [] := by
      intro h; rw [h] at hp; simp at hp
    have := compactDots_ne_nil hne
    simp only [Function.comp]
    cases hc : ORSet.compactDots p.2 with
    | nil => exact absurd hc this
    | cons _ _ => rfl
  rw [this]
  rfl

/-! ### the invariant along every operation -/

theorem ORMap.wf_new {RV : V → Prop} : (ORMap.new : ORMap V).WF RV where
  keys_wf := ORSet.wf_new
  values_sorted := sorted_nil
  dom k := by simp [ORMap.new, ORSet.new, ORSet.elements]
  vals k v h := by simp [ORMap.new] at h

theorem ORMap.wf_set {RV : V → Prop} {eqvV : V → V → Prop} {leV : V → V → Bool} (VL : ValueLaws RV eqvV leV)
    {m : ORMap V} (hm : m.WF RV) (n k : Nat) (v : V) (hv : RV v) : (m.set n k v).WF RV := by
  have hget : ∀ k', (m.set n k v).values.get? k' =
      if k' = k then some (match m.values.get? k with | some ex => CrdtValue.merge ex v | none => v)
      else m.values.get? k' := by
    intro k'
    unfold ORMap.set
    simp only
    cases m.values.get? k <;> simp only [get?_set]
  refine ⟨wf_add hm.keys_wf n k, ?_, ?_, ?_⟩
  · unfold ORMap.set; simp only
    cases m.values.get? k <;> exact sorted_set hm.values_sorted _ _
  · intro k'
    rw [hget]
    show _ ↔ k' ∈ (m.keys.add n k).elements
    rw [mem_elements_add hm.keys_wf]
    by_cases hk : k' = k
    · simp [hk]
    · simp only [hk, if_false, false_or]; exact hm.dom k'
  · intro k' w hw
    rw [hget] at hw
    split at hw
    · cases hw
      cases hex : m.values.get? k with
      | none => exact hv
      | some ex => exact VL.closed _ _ (hm.vals k ex hex) hv
    · exact hm.vals k' w hw

theorem ORMap.wf_remove {RV : V → Prop} {m : ORMap V} (hm : m.WF RV) (k : Nat) : (m.remove k).WF RV := by
  unfold ORMap.remove
  split
  · exact hm
  · refine ⟨GoaktVerif.C38.wf_remove hm.keys_wf k, sorted_erase hm.values_sorted k, ?_, ?_⟩
    · intro k'
      simp only
      rw [get?_erase hm.values_sorted, mem_elements_remove hm.keys_wf]
      by_cases hk : k' = k
      · simp [hk]
      · simp only [hk, if_false, ne_eq, not_false_eq_true, true_and]; exact hm.dom k'
    · intro k' w hw
      simp only at hw
      rw [get?_erase hm.values_sorted] at hw
      split at hw
      · cases hw
      · exact hm.vals k' w hw

theorem ORMap.wf_resetDelta {RV : V → Prop} {m : ORMap V} (hm : m.WF RV) : m.resetDelta.WF RV :=
  ⟨ORSet.wf_resetDelta hm.keys_wf, hm.values_sorted, hm.dom, hm.vals⟩

theorem ORMap.wf_compact {RV : V → Prop} {m : ORMap V} (hm : m.WF RV) : m.compact.WF RV := by
  have hget : ∀ k, m.compact.values.get? k = if k ∈ m.keys.elements then m.values.get? k else none := by
    intro k
    unfold ORMap.compact
    simp only
    rw [get?_foldl_setOpt, elements_compact]
    by_cases hk : k ∈ m.keys.elements
    · rw [if_pos hk]
      cases h : m.values.get? k with
      | none => simp
      | some v => simp [hk]
    · rw [if_neg hk, if_neg (fun h => hk h.1)]; rfl
  refine ⟨GoaktVerif.C38.wf_compact hm.keys_wf, ?_, ?_, ?_⟩
  · unfold ORMap.compact; exact sorted_foldl_setOpt _ _ sorted_nil
  · intro k
    rw [hget]
    show _ ↔ k ∈ m.keys.compact.elements
    rw [elements_compact]
    constructor
    · intro h; split at h
      · assumption
      · cases h
    · intro h; rw [if_pos h]; exact (hm.dom k).mpr h
  · intro k v hv
    rw [hget] at hv
    split at hv
    · exact hm.vals k v hv
    · cases hv

theorem ORMap.wf_of_reachable {RV : V → Prop} {eqvV : V → V → Prop} {leV : V → V → Bool}
    (VL : ValueLaws RV eqvV leV) {m : ORMap V} (h : ORMap.Reachable RV m) : m.WF RV := by
  induction h with
  | new => exact ORMap.wf_new
  | set n k v _ hv ih => exact ORMap.wf_set VL ih n k v hv
  | remove k _ ih => exact ORMap.wf_remove ih k
  | merge _ _ ih1 ih2 => exact ORMap.wf_merge VL ih1 ih2
  | @delta m d _ hd ih =>
    unfold ORMap.delta? at hd
    split at hd
    · cases hd; exact ih
    · cases hd
  | resetDelta _ ih => exact ORMap.wf_resetDelta ih
  | clone _ ih => exact ih
  | compact _ ih => exact ORMap.wf_compact ih

/-! ### the GCounter instance of the value laws -/

theorem leMap_refl {a : AMap Nat} (ha : a.Sorted) : leMap a a = true := by
  rw [leMap_iff]
  intro p hp
  exact ⟨p.2, get?_of_mem ha (show (p.1, p.2) ∈ a from hp), Nat.le_refl _⟩

theorem GCounter.valueLaws : ValueLaws GCounter.WF eqvGC leGC where
  closed a b ha hb := ⟨sorted_mergeMax ha.1 _, ha.2⟩
  refl a _ := ⟨rfl, rfl⟩
  le_refl a ha := leMap_refl ha.1
  join := GCounter.joinLaws_wf

end GoaktVerif.C38

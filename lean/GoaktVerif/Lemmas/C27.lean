/-
C27 helper lemmas: inductive invariants of the coalescer model (Model/C27.lean), each proved
preserved by every action, hence true after every schedule of any length with any number of
submitting threads.
-/
import GoaktVerif.Model.C27

namespace GoaktVerif.C27
open GoaktVerif.Model.C27

/-! ### I1 — global FIFO: flushed batches ++ writer's batch ++ channel buffer = acceptance log -/

def Fifo (s : St) : Prop := s.flushedFlat ++ s.batch ++ s.chan = s.log

theorem fifo_init : Fifo St.init := by simp [Fifo, St.init, St.flushedFlat]

theorem flushedFlat_append (l : List (List Msg × Bool)) (b : List Msg) (ok : Bool) :
    ((l ++ [(b, ok)]).map (·.1)).flatten = (l.map (·.1)).flatten ++ b := by simp

theorem fifo_accept {s : St} (t : Nat) (m : Msg) (h : Fifo s) : Fifo (accept s t m) := by
  simp only [Fifo, accept, St.flushedFlat] at *
  rw [← h]; simp

theorem fifo_finish {s : St} (t : Nat) (m : Msg) (r : Res) (h : Fifo s) : Fifo (finish s t m r) := by
  simpa [Fifo, finish, St.flushedFlat] using h

theorem fifo_subStep (c : Cfg) {s : St} (t pick : Nat) (h : Fifo s) : Fifo (subStep c s t pick) := by
  unfold subStep
  split
  · exact h
  · split
    · split
      · exact fifo_finish _ _ _ h
      · simpa [Fifo, St.flushedFlat] using h
    · split
      · exact fifo_accept _ _ h
      · simpa [Fifo, St.flushedFlat] using h
    · dsimp only
      split
      · exact h
      · exact fifo_accept _ _ h
      · exact fifo_finish _ _ _ h

theorem handler_core (c : Cfg) (s : St) (b : List Msg) :
    (handler c s b).flushed = s.flushed ∧ (handler c s b).batch = s.batch ∧
    (handler c s b).chan = s.chan ∧ (handler c s b).log = s.log ∧ (handler c s b).wpc = s.wpc ∧
    (handler c s b).done = s.done ∧ (handler c s b).pend = s.pend ∧ (handler c s b).begun = s.begun := by
  unfold handler
  split
  · simp
  · split <;> simp

theorem fifo_flushBatch (c : Cfg) {s : St} (ok : Bool) (h : Fifo s) : Fifo (flushBatch c s ok) := by
  unfold flushBatch
  dsimp only
  have key : Fifo { s with flushed := s.flushed ++ [(s.batch, ok)], batch := [] } := by
    simp only [Fifo, St.flushedFlat] at *
    rw [← h]; simp
  split
  · exact key
  · split
    · obtain ⟨h1, h2, h3, h4, _⟩ := handler_core c { s with flushed := s.flushed ++ [(s.batch, ok)], batch := [] } s.batch
      simp only [Fifo, St.flushedFlat] at key ⊢
      rw [h1, h2, h3, h4]; exact key
    · simpa [Fifo, St.flushedFlat] using key

theorem fifo_wStep (c : Cfg) {s : St} (pick : Nat) (ok : Bool) (h : Fifo s) : Fifo (wStep c s pick ok) := by
  unfold wStep
  split
  · exact h
  · split
    · exact h
    · simpa [Fifo, St.flushedFlat] using h
    · rename_i m rest hd hc
      simp only [Fifo, St.flushedFlat] at *
      rw [← h, hc]; simp
    · rename_i m rest hd hc
      split
      · simpa [Fifo, St.flushedFlat] using h
      · simp only [Fifo, St.flushedFlat] at *
        rw [← h, hc]; simp
  · split
    · simpa [Fifo, St.flushedFlat] using h
    · exact h
  · split
    · split
      · simpa [Fifo, St.flushedFlat] using h
      · rename_i m rest hc
        simp only [Fifo, St.flushedFlat] at *
        rw [← h, hc]; simp
    · simpa [Fifo, St.flushedFlat] using h
  · split
    · simpa [Fifo, St.flushedFlat] using h
    · have := fifo_flushBatch c ok h
      simpa [Fifo, St.flushedFlat] using this

theorem fifo_step (c : Cfg) {s : St} (a : Act) (h : Fifo s) : Fifo (step c s a) := by
  cases a with
  | begin m =>
    simp only [step]
    split
    · exact h
    · simpa [Fifo, St.flushedFlat] using h
  | cancel t => simpa [step, Fifo, St.flushedFlat] using h
  | sub t pick => simp only [step]; exact fifo_subStep c t pick h
  | close => simpa [step, Fifo, St.flushedFlat] using h
  | wstep pick ok => simp only [step]; exact fifo_wStep c pick ok h
  | fdrain =>
    simp only [step, fdrainStep]
    split
    · exact h
    · simpa [Fifo, St.flushedFlat] using h
  | sysdown => simpa [step, Fifo, St.flushedFlat] using h

theorem fifo_run (c : Cfg) (acts : List Act) {s : St} (h : Fifo s) : Fifo (run c s acts) := by
  induction acts generalizing s with
  | nil => exact h
  | cons a as ih => exact ih (fifo_step c a h)


/-! ### core fields untouched by the writer / by the fan-out -/

theorem flushBatch_core (c : Cfg) (s : St) (ok : Bool) :
    (flushBatch c s ok).log = s.log ∧ (flushBatch c s ok).pend = s.pend ∧ (flushBatch c s ok).begun = s.begun ∧
    (flushBatch c s ok).done = s.done := by
  unfold flushBatch
  dsimp only
  split
  · simp
  · split
    · obtain ⟨_, _, _, h4, _, h6, h7, h8⟩ := handler_core c { s with flushed := s.flushed ++ [(s.batch, ok)], batch := [] } s.batch
      simp [h4, h6, h7, h8]
    · simp

theorem wStep_core (c : Cfg) (s : St) (pick : Nat) (ok : Bool) :
    (wStep c s pick ok).log = s.log ∧ (wStep c s pick ok).pend = s.pend ∧ (wStep c s pick ok).begun = s.begun ∧
    (wStep c s pick ok).done = s.done := by
  unfold wStep
  split
  · simp
  · split
    · simp
    · simp
    · simp
    · split <;> simp
  · split <;> simp
  · split
    · split <;> simp
    · simp
  · split
    · simp
    · simpa using flushBatch_core c s ok

/-! ### I4 — per-thread send order: what thread `t` got accepted, followed by its call in progress,
    is a subsequence of what it began, in the order it began it -/

def ofT (t : Nat) (l : List Msg) : List Msg := l.filter (fun m => m.1 == t)

def pendMsgs (t : Nat) (l : List Pend) : List Msg := (l.filter (fun p => p.msg.1 == t)).map (·.msg)

def ThreadOrder (s : St) : Prop := ∀ t, List.Sublist (ofT t s.log ++ pendMsgs t s.pend) (ofT t s.begun)

theorem threadOrder_init : ThreadOrder St.init := by intro t; simp [St.init, ofT, pendMsgs]

theorem pendMsgs_map_same (t : Nat) (l : List Pend) (f : Pend → Pend) (hf : ∀ p, (f p).msg = p.msg) :
    pendMsgs t (l.map f) = pendMsgs t l := by
  induction l with
  | nil => rfl
  | cons p ps ih =>
    simp only [pendMsgs, List.map_cons, List.filter_cons, hf] at ih ⊢
    split <;> simp [hf, ih]

theorem pendMsgs_remove_ne (t t0 : Nat) (l : List Pend) (h : t ≠ t0) :
    pendMsgs t (l.filter (fun p => !(p.msg.1 == t0))) = pendMsgs t l := by
  unfold pendMsgs
  rw [List.filter_filter]
  congr 1
  apply List.filter_congr
  intro p _
  by_cases h1 : p.msg.1 = t
  · have h2 : ¬ p.msg.1 = t0 := by omega
    simp [h1]
    omega
  · simp [h1]

theorem pendMsgs_remove_self (t : Nat) (l : List Pend) :
    pendMsgs t (l.filter (fun p => !(p.msg.1 == t))) = [] := by
  unfold pendMsgs
  rw [List.filter_filter]
  simp

theorem findPend_head {s : St} {t : Nat} {p : Pend} (h : findPend s t = some p) :
    p.msg.1 = t ∧ ∃ rest, pendMsgs t s.pend = p.msg :: rest := by
  unfold findPend at h
  have h1 := List.find?_some h
  have h2 : (s.pend.filter (fun p => p.msg.1 == t)).head? = some p := by rw [List.head?_filter]; exact h
  refine ⟨by simpa using h1, ?_⟩
  unfold pendMsgs
  cases hf : s.pend.filter (fun p => p.msg.1 == t) with
  | nil => simp [hf] at h2
  | cons q qs =>
    simp [hf] at h2
    exact ⟨qs.map (·.msg), by simp [h2]⟩

theorem threadOrder_finish {s : St} (t0 : Nat) (m : Msg) (r : Res) (h : ThreadOrder s) :
    ThreadOrder (finish s t0 m r) := by
  intro t
  simp only [finish, removePend]
  by_cases ht : t = t0
  · subst ht
    rw [pendMsgs_remove_self]
    exact List.Sublist.trans (by simp) (h t)
  · rw [pendMsgs_remove_ne t t0 _ ht]; exact h t

theorem threadOrder_accept {s : St} {t0 : Nat} {p : Pend} (hp : findPend s t0 = some p) (h : ThreadOrder s) :
    ThreadOrder (accept s t0 p.msg) := by
  intro t
  obtain ⟨hp1, rest, hp2⟩ := findPend_head hp
  simp only [accept, removePend]
  by_cases ht : t = t0
  · subst ht
    rw [pendMsgs_remove_self]
    have h0 := h t
    rw [hp2] at h0
    have : ofT t (s.log ++ [p.msg]) = ofT t s.log ++ [p.msg] := by simp [ofT, hp1]
    rw [this, List.append_nil]
    refine List.Sublist.trans ?_ h0
    exact List.Sublist.append (List.Sublist.refl _) (by simp)
  · rw [pendMsgs_remove_ne t t0 _ ht]
    have : ofT t (s.log ++ [p.msg]) = ofT t s.log := by
      have : ¬ p.msg.1 = t := by omega
      simp [ofT, this]
    rw [this]; exact h t

theorem threadOrder_subStep (c : Cfg) {s : St} (t pick : Nat) (h : ThreadOrder s) :
    ThreadOrder (subStep c s t pick) := by
  unfold subStep
  split
  · exact h
  · rename_i p hp
    split
    · split
      · exact threadOrder_finish _ _ _ h
      · intro t'
        simp only [setPc]
        rw [pendMsgs_map_same]
        · exact h t'
        · intro q; split <;> rfl
    · split
      · exact threadOrder_accept hp h
      · intro t'
        simp only [setPc]
        rw [pendMsgs_map_same]
        · exact h t'
        · intro q; split <;> rfl
    · dsimp only
      split
      · exact h
      · exact threadOrder_accept hp h
      · exact threadOrder_finish _ _ _ h

theorem threadOrder_step (c : Cfg) {s : St} (a : Act) (h : ThreadOrder s) : ThreadOrder (step c s a) := by
  cases a with
  | begin m =>
    simp only [step]
    split
    · exact h
    · intro t
      dsimp only
      by_cases ht : m.1 = t
      · have e1 : pendMsgs t (s.pend ++ [{ msg := m, pc := .pre, ctxDone := false }]) = pendMsgs t s.pend ++ [m] := by
          simp [pendMsgs, ht]
        have e2 : ofT t (s.begun ++ [m]) = ofT t s.begun ++ [m] := by simp [ofT, ht]
        rw [e1, e2, ← List.append_assoc]
        exact List.Sublist.append (h t) (List.Sublist.refl _)
      · have e1 : pendMsgs t (s.pend ++ [{ msg := m, pc := .pre, ctxDone := false }]) = pendMsgs t s.pend := by
          simp [pendMsgs, ht]
        have e2 : ofT t (s.begun ++ [m]) = ofT t s.begun := by simp [ofT, ht]
        rw [e1, e2]; exact h t
  | cancel t0 =>
    intro t
    simp only [step, setCtxDone]
    rw [pendMsgs_map_same]
    · exact h t
    · intro q; split <;> rfl
  | sub t pick => simp only [step]; exact threadOrder_subStep c t pick h
  | close => exact h
  | wstep pick ok =>
    intro t
    simp only [step]
    obtain ⟨h1, h2, h3, _⟩ := wStep_core c s pick ok
    rw [h1, h2, h3]; exact h t
  | fdrain =>
    simp only [step, fdrainStep]
    split
    · exact h
    · exact h
  | sysdown => exact h

theorem threadOrder_run (c : Cfg) (acts : List Act) {s : St} (h : ThreadOrder s) : ThreadOrder (run c s acts) := by
  induction acts generalizing s with
  | nil => exact h
  | cons a as ih => exact ih (threadOrder_step c a h)


/-! ### I3 — where the flushed messages are: delivered, dead-lettered, queued for the fan-out,
    dropped by the handler, or (no handler) nowhere -/

def Where (s : St) (m : Msg) : Prop :=
  m ∈ s.delivered ∨ m ∈ s.dead ∨ m ∈ s.fq.flatten ∨ m ∈ s.dropped.flatten ∨ m ∈ s.unhandled.flatten

def FlushedAcc (s : St) : Prop := ∀ m ∈ s.flushedFlat, Where s m

theorem flushedAcc_init : FlushedAcc St.init := by intro m hm; simp [St.init, St.flushedFlat] at hm

/-- a step that leaves the six bookkeeping fields alone preserves the invariant -/
theorem flushedAcc_frame {s s' : St} (h : FlushedAcc s)
    (h1 : s'.flushed = s.flushed) (h2 : s'.dead = s.dead) (h3 : s'.fq = s.fq)
    (h4 : s'.dropped = s.dropped) (h5 : s'.unhandled = s.unhandled) : FlushedAcc s' := by
  intro m hm
  simp only [St.flushedFlat, St.delivered, Where, h1, h2, h3, h4, h5] at hm ⊢
  exact h m hm

theorem subStep_frame (c : Cfg) (s : St) (t pick : Nat) :
    (subStep c s t pick).flushed = s.flushed ∧ (subStep c s t pick).dead = s.dead ∧
    (subStep c s t pick).fq = s.fq ∧ (subStep c s t pick).dropped = s.dropped ∧
    (subStep c s t pick).unhandled = s.unhandled ∧ (subStep c s t pick).done = s.done ∧
    (subStep c s t pick).wpc = s.wpc ∧ (subStep c s t pick).batch = s.batch ∧
    (subStep c s t pick).sysDown = s.sysDown := by
  unfold subStep
  split
  · simp
  · split
    · split <;> simp [finish]
    · split <;> simp [accept]
    · dsimp only
      split <;> simp [accept, finish]

theorem delivered_append (l : List (List Msg × Bool)) (b : List Msg) (ok : Bool) :
    (((l ++ [(b, ok)]).filter (·.2)).map (·.1)).flatten
      = ((l.filter (·.2)).map (·.1)).flatten ++ (if ok then b else []) := by
  cases ok <;> simp [List.filter_append]

theorem flushedAcc_extend {s s' : St} (b : List Msg) (h : FlushedAcc s)
    (h1 : s'.flushedFlat = s.flushedFlat ++ b)
    (h2 : ∀ m, Where s m → Where s' m) (h3 : ∀ m ∈ b, Where s' m) : FlushedAcc s' := by
  intro m hm
  rw [h1, List.mem_append] at hm
  rcases hm with hm | hm
  · exact h2 m (h m hm)
  · exact h3 m hm

theorem flushedAcc_flushBatch (c : Cfg) {s : St} (ok : Bool) (h : FlushedAcc s) :
    FlushedAcc (flushBatch c s ok) := by
  apply flushedAcc_extend s.batch h
  · cases ok
    · by_cases hh : c.hasHandler = true
      · by_cases hs : s.sysDown = true
        · simp [flushBatch, handler, hh, hs, St.flushedFlat]
        · by_cases hq : s.fq.length < c.fqCap <;> simp [flushBatch, handler, hh, hs, hq, St.flushedFlat]
      · simp [flushBatch, hh, St.flushedFlat]
    · simp [flushBatch, St.flushedFlat]
  · intro m hm
    simp only [Where, St.delivered] at hm ⊢
    simp at hm
    cases ok
    · by_cases hh : c.hasHandler = true
      · by_cases hs : s.sysDown = true
        · simp [flushBatch, handler, hh, hs, List.filter_append]
          rcases hm with h' | h' | h' | h' | h' <;> simp [h']
        · by_cases hq : s.fq.length < c.fqCap
          · simp [flushBatch, handler, hh, hs, hq, List.filter_append]
            rcases hm with h' | h' | h' | h' | h' <;> simp [h']
          · simp [flushBatch, handler, hh, hs, hq, List.filter_append]
            rcases hm with h' | h' | h' | h' | h' <;> simp [h']
      · simp [flushBatch, hh, List.filter_append]
        rcases hm with h' | h' | h' | h' | h' <;> simp [h']
    · simp [flushBatch, List.filter_append]
      rcases hm with h' | h' | h' | h' | h' <;> simp [h']
  · intro m hm
    simp only [Where, St.delivered]
    cases ok
    · by_cases hh : c.hasHandler = true
      · by_cases hs : s.sysDown = true
        · simp [flushBatch, handler, hh, hs, List.filter_append, hm]
        · by_cases hq : s.fq.length < c.fqCap
          · simp [flushBatch, handler, hh, hs, hq, List.filter_append, hm]
          · simp [flushBatch, handler, hh, hs, hq, List.filter_append, hm]
      · simp [flushBatch, hh, List.filter_append, hm]
    · simp [flushBatch, List.filter_append, hm]

theorem flushedAcc_wStep (c : Cfg) {s : St} (pick : Nat) (ok : Bool) (h : FlushedAcc s) :
    FlushedAcc (wStep c s pick ok) := by
  unfold wStep
  split
  · exact h
  · split
    · exact h
    · exact flushedAcc_frame h rfl rfl rfl rfl rfl
    · exact flushedAcc_frame h rfl rfl rfl rfl rfl
    · split <;> exact flushedAcc_frame h rfl rfl rfl rfl rfl
  · split
    · exact flushedAcc_frame h rfl rfl rfl rfl rfl
    · exact h
  · split
    · split <;> exact flushedAcc_frame h rfl rfl rfl rfl rfl
    · exact flushedAcc_frame h rfl rfl rfl rfl rfl
  · split
    · exact flushedAcc_frame h rfl rfl rfl rfl rfl
    · exact flushedAcc_frame (flushedAcc_flushBatch c ok h) rfl rfl rfl rfl rfl

theorem flushedAcc_step (c : Cfg) {s : St} (a : Act) (h : FlushedAcc s) : FlushedAcc (step c s a) := by
  cases a with
  | begin m =>
    simp only [step]
    split
    · exact h
    · exact flushedAcc_frame h rfl rfl rfl rfl rfl
  | cancel t => exact flushedAcc_frame h rfl rfl rfl rfl rfl
  | sub t pick =>
    simp only [step]
    obtain ⟨h1, h2, h3, h4, h5, _⟩ := subStep_frame c s t pick
    exact flushedAcc_frame h h1 h2 h3 h4 h5
  | close => exact flushedAcc_frame h rfl rfl rfl rfl rfl
  | wstep pick ok => simp only [step]; exact flushedAcc_wStep c pick ok h
  | fdrain =>
    simp only [step, fdrainStep]
    split
    · exact h
    · rename_i b rest hfq
      intro m hm
      have hm' : m ∈ s.flushedFlat := hm
      simp only [Where, St.delivered, List.mem_append]
      rcases h m hm' with h' | h' | h' | h' | h'
      · exact Or.inl h'
      · exact Or.inr (Or.inl (Or.inl h'))
      · rw [hfq] at h'
        simp only [List.flatten_cons, List.mem_append] at h'
        rcases h' with h' | h'
        · exact Or.inr (Or.inl (Or.inr h'))
        · exact Or.inr (Or.inr (Or.inl h'))
      · exact Or.inr (Or.inr (Or.inr (Or.inl h')))
      · exact Or.inr (Or.inr (Or.inr (Or.inr h')))
  | sysdown => exact flushedAcc_frame h rfl rfl rfl rfl rfl

theorem flushedAcc_run (c : Cfg) (acts : List Act) {s : St} (h : FlushedAcc s) : FlushedAcc (run c s acts) := by
  induction acts generalizing s with
  | nil => exact h
  | cons a as ih => exact ih (flushedAcc_step c a h)

/-! ### I2 — the writer only takes the closing path after `close(done)`; I6 — with a handler
    configured no failed batch goes unreported -/

def isClosingPc : WPc → Bool
  | .barrier | .drain true | .flush true | .exited => true
  | _ => false

def Closing (s : St) : Prop := isClosingPc s.wpc = true → s.done = true

theorem closing_init : Closing St.init := by intro h; simp [St.init, isClosingPc] at h

theorem closing_step (c : Cfg) {s : St} (a : Act) (h : Closing s) : Closing (step c s a) := by
  cases a with
  | begin m =>
    simp only [step]
    split
    · exact h
    · exact h
  | cancel t => exact h
  | sub t pick =>
    simp only [step]
    obtain ⟨_, _, _, _, _, h6, h7, _⟩ := subStep_frame c s t pick
    intro hh; rw [h6]; rw [h7] at hh; exact h hh
  | close => intro _; rfl
  | wstep pick ok =>
    simp only [step]
    obtain ⟨_, _, _, hd⟩ := wStep_core c s pick ok
    intro hh
    rw [hd]
    cases hdn : s.done with
    | true => rfl
    | false =>
      exfalso
      have hnc : isClosingPc s.wpc = false := by
        cases hx : isClosingPc s.wpc with
        | false => rfl
        | true => have := h hx; rw [hdn] at this; cases this
      revert hh
      unfold wStep
      cases hw : s.wpc with
      | exited => simp [hw, isClosingPc] at hnc
      | barrier => simp [hw, isClosingPc] at hnc
      | select => cases hc : s.chan <;> simp [hdn, hc, hw, isClosingPc]
      | drain cl =>
        cases cl
        · dsimp only
          split
          · split <;> simp [isClosingPc]
          · simp [isClosingPc]
        · simp [hw, isClosingPc] at hnc
      | flush cl =>
        cases cl
        · dsimp only
          split <;> simp [isClosingPc, afterFlush, afterBatch]
        · simp [hw, isClosingPc] at hnc
  | fdrain =>
    simp only [step, fdrainStep]
    split
    · exact h
    · exact h
  | sysdown => exact h

theorem closing_run (c : Cfg) (acts : List Act) {s : St} (h : Closing s) : Closing (run c s acts) := by
  induction acts generalizing s with
  | nil => exact h
  | cons a as ih => exact ih (closing_step c a h)

/-- since fix `fanout-inline-deadletter` the handler never drops a hand-off -/
def NoDrop (s : St) : Prop := s.dropped = []

theorem noDrop_step (c : Cfg) {s : St} (a : Act) (h : NoDrop s) : NoDrop (step c s a) := by
  have hh : ∀ s0 : St, ∀ b, (handler c s0 b).dropped = s0.dropped := by
    intro s0 b; unfold handler; split
    · rfl
    · split <;> rfl
  cases a with
  | begin m => simp only [step]; split <;> exact h
  | cancel t => exact h
  | sub t pick =>
    simp only [step]
    obtain ⟨_, _, _, h4, _⟩ := subStep_frame c s t pick
    unfold NoDrop; rw [h4]; exact h
  | close => exact h
  | wstep pick ok =>
    simp only [step, NoDrop]
    unfold wStep
    split
    · exact h
    · split
      · exact h
      · exact h
      · exact h
      · split <;> exact h
    · split <;> exact h
    · split
      · split <;> exact h
      · exact h
    · split
      · exact h
      · dsimp only
        unfold flushBatch
        dsimp only
        split
        · exact h
        · split
          · rw [hh]; exact h
          · exact h
  | fdrain => simp only [step, fdrainStep]; split <;> exact h
  | sysdown => exact h

theorem noDrop_run (c : Cfg) (acts : List Act) {s : St} (h : NoDrop s) : NoDrop (run c s acts) := by
  induction acts generalizing s with
  | nil => exact h
  | cons a as ih => exact ih (noDrop_step c a h)

def NoUnhandled (s : St) : Prop := s.unhandled = []

theorem noUnhandled_step (c : Cfg) (hc : c.hasHandler = true) {s : St} (a : Act) (h : NoUnhandled s) :
    NoUnhandled (step c s a) := by
  cases a with
  | begin m =>
    simp only [step]
    split
    · exact h
    · exact h
  | cancel t => exact h
  | sub t pick =>
    simp only [step]
    obtain ⟨_, _, _, _, h5, _⟩ := subStep_frame c s t pick
    unfold NoUnhandled; rw [h5]; exact h
  | close => exact h
  | wstep pick ok =>
    simp only [step, NoUnhandled]
    unfold wStep
    split
    · exact h
    · split
      · exact h
      · exact h
      · exact h
      · split <;> exact h
    · split <;> exact h
    · split
      · split <;> exact h
      · exact h
    · split
      · exact h
      · dsimp only
        unfold flushBatch
        dsimp only
        split
        · exact h
        · have : ∀ s0 : St, ∀ b, (handler c s0 b).unhandled = s0.unhandled := by
            intro s0 b; unfold handler; split
            · rfl
            · split <;> rfl
          first
            | (rw [this]; exact h)
            | (simp only [hc, if_true]; rw [this]; exact h)
  | fdrain =>
    simp only [step, fdrainStep]
    split
    · exact h
    · exact h
  | sysdown => exact h

theorem noUnhandled_run (c : Cfg) (hc : c.hasHandler = true) (acts : List Act) {s : St} (h : NoUnhandled s) :
    NoUnhandled (run c s acts) := by
  induction acts generalizing s with
  | nil => exact h
  | cons a as ih => exact ih (noUnhandled_step c hc a h)


/-! ### I8 — the barrier (`c.inflight.Lock()` after `done`): past it, every submit call in progress is
    still at its pre-check, the channel only shrinks, and the writer leaves only on an empty channel -/

/-- past the barrier, every submit call in progress is still at its pre-check (it will return `closed`) -/
def PostBarrier (s : St) : Prop :=
  (s.wpc = .drain true ∨ s.wpc = .flush true ∨ s.wpc = .exited) → ∀ p ∈ s.pend, p.pc = .pre

/-- the writer can only be past its final empty drain with an empty channel -/
def ExitClean (s : St) : Prop :=
  (s.wpc = .exited ∨ (s.wpc = .flush true ∧ s.batch = [])) → s.chan = []

theorem postBarrier_init : PostBarrier St.init := by intro h; simp [St.init] at h
theorem exitClean_init : ExitClean St.init := by intro h; simp [St.init] at h

theorem subStep_noRace (c : Cfg) (s : St) (t pick : Nat) (hd : s.done = true)
    (hp : ∀ p ∈ s.pend, p.pc = .pre) :
    (subStep c s t pick).chan = s.chan ∧ ∀ p ∈ (subStep c s t pick).pend, p.pc = .pre := by
  unfold subStep
  split
  · exact ⟨rfl, hp⟩
  · rename_i p hfind
    have hmem : p ∈ s.pend := List.mem_of_find?_eq_some hfind
    have hpc := hp p hmem
    rw [hpc]
    simp only [hd, if_true, finish, removePend]
    refine ⟨trivial, ?_⟩
    intro q hq
    exact hp q (List.mem_filter.mp hq).1

theorem closingOf {s : St} (h : s.wpc = .drain true ∨ s.wpc = .flush true ∨ s.wpc = .exited) :
    isClosingPc s.wpc = true := by
  rcases h with h | h | h <;> simp [h, isClosingPc]

theorem postBarrier_step (c : Cfg) {s : St} (a : Act) (hc : Closing s) (h : PostBarrier s) :
    PostBarrier (step c s a) := by
  cases a with
  | begin m =>
    simp only [step]
    split
    · exact h
    · intro hw p hp
      simp only [List.mem_append, List.mem_singleton] at hp
      rcases hp with hp | hp
      · exact h hw p hp
      · subst hp; rfl
  | cancel t =>
    intro hw p hp
    simp only [step, setCtxDone, List.mem_map] at hp
    obtain ⟨q, hq, rfl⟩ := hp
    have := h hw q hq
    split <;> simpa using this
  | sub t pick =>
    simp only [step]
    obtain ⟨_, _, _, _, _, _, h7, _⟩ := subStep_frame c s t pick
    intro hw
    rw [h7] at hw
    exact (subStep_noRace c s t pick (hc (closingOf hw)) (h hw)).2
  | close => exact h
  | wstep pick ok =>
    simp only [step]
    obtain ⟨_, h2, _, _⟩ := wStep_core c s pick ok
    intro hw
    rw [h2]
    revert hw
    unfold wStep
    cases hwpc : s.wpc with
    | exited => intro _; exact h (Or.inr (Or.inr hwpc))
    | barrier =>
      dsimp only
      split
      · rename_i he; intro _ p hp; rw [List.isEmpty_iff.mp he] at hp; cases hp
      · intro hw; simp [hwpc] at hw
    | select =>
      dsimp only
      split
      · intro hw; simp [hwpc] at hw
      · intro hw; simp at hw
      · intro hw; simp at hw
      · split <;> (intro hw; simp at hw)
    | drain cl =>
      cases cl
      · dsimp only
        split
        · split <;> (intro hw; simp [hwpc] at hw)
        · intro hw; simp at hw
      · intro _; exact h (Or.inl hwpc)
    | flush cl =>
      cases cl
      · dsimp only
        split <;> (intro hw; simp [afterFlush, afterBatch] at hw)
      · intro _; exact h (Or.inr (Or.inl hwpc))
  | fdrain =>
    simp only [step, fdrainStep]
    split
    · exact h
    · exact h
  | sysdown => exact h

theorem exitClean_step (c : Cfg) (hmb : 0 < c.maxBatch) {s : St} (a : Act)
    (hn : PostBarrier s) (hc : Closing s) (he : ExitClean s) : ExitClean (step c s a) := by
  cases a with
  | begin m =>
    simp only [step]
    split
    · exact he
    · exact he
  | cancel t => exact he
  | sub t pick =>
    simp only [step]
    obtain ⟨_, _, _, _, _, _, h7, h8, _⟩ := subStep_frame c s t pick
    intro hw
    rw [h7, h8] at hw
    have hset : s.wpc = .drain true ∨ s.wpc = .flush true ∨ s.wpc = .exited := by
      rcases hw with hw | hw
      · exact Or.inr (Or.inr hw)
      · exact Or.inr (Or.inl hw.1)
    rw [(subStep_noRace c s t pick (hc (closingOf hset)) (hn hset)).1]
    exact he hw
  | close => exact he
  | wstep pick ok =>
    simp only [step]
    unfold wStep
    cases hwpc : s.wpc with
    | exited => exact he
    | barrier =>
      dsimp only
      split
      · intro hw; simp at hw
      · intro hw; simp [hwpc] at hw
    | select =>
      dsimp only
      split
      · intro hw; simp [hwpc] at hw
      · intro hw; simp at hw
      · intro hw; simp at hw
      · split <;> (intro hw; simp at hw)
    | drain cl =>
      dsimp only
      split
      · split
        · rename_i hch
          intro _; exact hch
        · intro hw; simp [hwpc] at hw
      · rename_i hlen
        intro hw
        simp only [WPc.flush.injEq, reduceCtorEq, false_or] at hw
        have : s.batch.length = 0 := by rw [hw.2]; rfl
        omega
    | flush cl =>
      dsimp only
      split
      · rename_i hb
        intro hw
        cases cl
        · simp [afterFlush] at hw
        · exact he (Or.inr ⟨hwpc, hb⟩)
      · intro hw
        cases cl <;> simp [afterBatch] at hw
  | fdrain =>
    simp only [step, fdrainStep]
    split
    · exact he
    · exact he
  | sysdown => exact he

theorem barrier_run (c : Cfg) (hmb : 0 < c.maxBatch) (acts : List Act) {s : St}
    (hc : Closing s) (hp : PostBarrier s) (he : ExitClean s) :
    Closing (run c s acts) ∧ PostBarrier (run c s acts) ∧ ExitClean (run c s acts) := by
  induction acts generalizing s with
  | nil => exact ⟨hc, hp, he⟩
  | cons a as ih =>
    exact ih (closing_step c a hc) (postBarrier_step c a hc hp) (exitClean_step c hmb a hp hc he)

/-! ### getCoalescer: at most one coalescer per destination, every caller gets that one -/
namespace GC
open GoaktVerif.Model.C27.GC

def GInv (s : GSt) : Prop :=
  s.created ≤ 1 ∧ (s.map = none ↔ s.created = 0) ∧ (∀ c, s.map = some c → c = 0) ∧
  (∀ th ∈ s.threads, ∀ c, th.got = some c → c = 0) ∧
  (∀ t, s.mu = some (t, .create) → s.map = none)

theorem ginv_init (n : Nat) : GInv (ginit n) := by
  refine ⟨by simp [ginit], by simp [ginit], by simp [ginit], ?_, by simp [ginit]⟩
  intro th hth c hc
  simp only [ginit, List.mem_replicate] at hth
  rw [hth.2] at hc; simp at hc

theorem mem_set_cases {α : Type} {l : List α} {i : Nat} {a x : α} (h : x ∈ l.set i a) : x ∈ l ∨ x = a :=
  List.mem_or_eq_of_mem_set h

theorem ginv_step (s : GSt) (a : GAct) (h : GInv s) : GInv (gstep true s a) := by
  obtain ⟨h1, h2, h3, h4, h5⟩ := h
  cases a with
  | look t =>
    simp only [gstep]
    split
    · rename_i th hth
      split
      · exact ⟨h1, h2, h3, h4, h5⟩
      · split
        · rename_i c hc
          refine ⟨h1, h2, h3, ?_, h5⟩
          intro x hx c' hc'
          rcases mem_set_cases hx with hx | hx
          · exact h4 x hx c' hc'
          · subst hx; simp at hc'; subst hc'; exact h3 c hc
        · refine ⟨h1, h2, h3, ?_, h5⟩
          intro x hx c' hc'
          rcases mem_set_cases hx with hx | hx
          · exact h4 x hx c' hc'
          · subst hx; exact h4 th (List.mem_of_getElem? hth) c' hc'
    · exact ⟨h1, h2, h3, h4, h5⟩
  | acquire t =>
    simp only [gstep]
    split
    · rename_i th hth hmu
      split
      · exact ⟨h1, h2, h3, h4, h5⟩
      · refine ⟨h1, h2, h3, ?_, ?_⟩
        · intro x hx c' hc'
          rcases mem_set_cases hx with hx | hx
          · exact h4 x hx c' hc'
          · subst hx; exact h4 th (List.mem_of_getElem? hth) c' hc'
        · intro t' ht'; simp at ht'
    · exact ⟨h1, h2, h3, h4, h5⟩
  | cs =>
    simp only [gstep]
    split
    · rename_i t hmu
      split
      · rename_i c hc
        refine ⟨h1, h2, h3, ?_, ?_⟩
        · intro x hx c' hc'
          rcases mem_set_cases hx with hx | hx
          · exact h4 x hx c' hc'
          · subst hx; simp at hc'; subst hc'; exact h3 c hc
        · intro t' ht'; simp at ht'
      · rename_i hnone
        exact ⟨h1, h2, h3, h4, fun _ _ => hnone⟩
    · rename_i t hmu
      have hmap := h5 t hmu
      have hc0 : s.created = 0 := h2.mp hmap
      refine ⟨by simp [hc0], by simp, by simp [hc0], ?_, by simp⟩
      intro x hx c' hc'
      rcases mem_set_cases hx with hx | hx
      · exact h4 x hx c' hc'
      · subst hx; simp at hc'; omega
    · rename_i t hmu
      split
      · rename_i th hth
        refine ⟨h1, h2, h3, ?_, by simp [setThread]⟩
        intro x hx c' hc'
        rcases mem_set_cases hx with hx | hx
        · exact h4 x hx c' hc'
        · subst hx; exact h4 th (List.mem_of_getElem? hth) c' hc'
      · exact ⟨h1, h2, h3, h4, by simp⟩
    · exact ⟨h1, h2, h3, h4, h5⟩

theorem ginv_run (acts : List GAct) (s : GSt) (h : GInv s) : GInv (grun true s acts) := by
  induction acts generalizing s with
  | nil => exact h
  | cons a as ih => exact ih _ (ginv_step s a h)

end GC

end GoaktVerif.C27

import GoaktVerif.Lemmas.C20QueueStep

/-
C20 — the invariant holds initially and along every schedule; what it gives at quiescence.
-/
set_option linter.unusedSimpArgs false
set_option linter.unusedVariables false

namespace GoaktVerif.C20
open GoaktVerif.Model.C20 GoaktVerif.Model.C20.Queue
open GoaktVerif.Spec.C20 (replay enqVals deqVals legal)

/-! ### initial configuration -/

theorem startNext_threads (c : Cfg) (ths : List Thread) (t0 : Thread) (pick : Option Nat) (hm : c.mode = .fresh) :
    startNext { c with threads := ths } t0 pick =
      ({ (startNext c t0 pick).1 with threads := ths }, (startNext c t0 pick).2) := by
  unfold startNext
  cases t0.prog with
  | nil => rfl
  | cons op rest =>
    cases op with
    | enq v =>
      simp only [getItem_fresh c pick v hm, getItem_fresh { c with threads := ths } pick v hm]
      rfl
    | deq => rfl
    | len => rfl
    | emp => rfl
    | sig v => rfl
    | iter => rfl
    | shut => rfl

theorem startNext_mode (c : Cfg) (t0 : Thread) (pick : Option Nat) (hm : c.mode = .fresh) :
    (startNext c t0 pick).1.mode = .fresh ∧ (startNext c t0 pick).1.threads = c.threads := by
  unfold startNext
  cases t0.prog with
  | nil => exact ⟨hm, rfl⟩
  | cons op rest =>
    cases op with
    | enq v => simp only [getItem_fresh c pick v hm]; exact ⟨hm, rfl⟩
    | deq => exact ⟨hm, rfl⟩
    | len => exact ⟨hm, rfl⟩
    | emp => exact ⟨hm, rfl⟩
    | sig v => exact ⟨hm, rfl⟩
    | iter => exact ⟨hm, rfl⟩
    | shut => exact ⟨hm, rfl⟩

/-- adding an idle thread is harmless -/
theorem inv_add_idle {c : Cfg} (h : Inv c) (d : Thread) (hd : d.pc = none) :
    Inv { c with threads := c.threads ++ [d] } := by
  obtain ⟨hmode, pre, post, hheap, hall, hdist⟩ := h
  have sh : SameHeap c { c with threads := c.threads ++ [d] } := ⟨rfl, rfl, rfl, rfl, rfl⟩
  have hdo : ownedBy d = none := by simp [ownedBy, hd]
  refine ⟨hmode, pre, post, sh.heapOk hheap, ?_, ?_⟩
  · intro j tj hj
    show ThreadOk _ (pre ++ c.head :: post) (pre ++ [c.head]) tj
    apply sh.threadOk
    simp only [List.getElem?_append] at hj
    split at hj
    · exact hall j tj hj
    · have : tj = d := by
        cases hx : ([d] : List Thread)[j - c.threads.length]? with
        | none => rw [hx] at hj; cases hj
        | some y =>
          rw [hx] at hj; cases hj
          have := List.mem_of_getElem? hx
          simpa using this
      subst this
      exact ⟨localOk_of_simple (by rw [hd]; trivial), by intro n v ho; rw [hdo] at ho; cases ho⟩
  · intro i j ti tj ni vi nj vj hij hi hj hoi hoj
    have key : ∀ (k : Nat) (tk : Thread) n v, (c.threads ++ [d])[k]? = some tk → ownedBy tk = some (n, v) →
        c.threads[k]? = some tk := by
      intro k tk n v hk ho
      simp only [List.getElem?_append] at hk
      split at hk
      · exact hk
      · exfalso
        have : tk = d := by
          cases hx : ([d] : List Thread)[k - c.threads.length]? with
          | none => rw [hx] at hk; cases hk
          | some y =>
            rw [hx] at hk; cases hk
            have := List.mem_of_getElem? hx
            simpa using this
        subst this; rw [hdo] at ho; cases ho
    exact hdist i j ti tj ni vi nj vj hij (key i ti ni vi hi hoi) (key j tj nj vj hj hoj) hoi hoj

theorem inv_empty : Inv (empty .fresh) := by
  refine ⟨rfl, [], [], ?_, ?_, ?_⟩
  · refine ⟨by simp [empty], by simp [empty], ?_, by simp [empty], by simp, by simp [empty, replay]⟩
    show Linked (empty .fresh) [0]
    simp [Linked, nextOf, empty]
  · intro j tj hj; simp [empty] at hj
  · intro i j ti tj ni vi nj vj _ hi; simp [empty] at hi

/-- the thread record a program starts from -/
def idle (p : List Op) : Thread := { pc := none, cur := none, prog := p, hist := [] }

theorem spawn_cons (c : Cfg) (p : List Op) (ps : List (List Op)) :
    spawn c (p :: ps) =
      spawn { (startNext c (idle p) none).1 with
              threads := (startNext c (idle p) none).1.threads ++ [(startNext c (idle p) none).2] } ps := rfl

theorem inv_spawn (progs : List (List Op)) : ∀ (c : Cfg), Inv c → Inv (spawn c progs) := by
  induction progs with
  | nil => intro c h; exact h
  | cons p ps ih =>
    intro c h
    rw [spawn_cons]
    apply ih
    -- add an idle thread, then let it start its first operation
    generalize hd : idle p = d
    have hdpc : d.pc = none := by rw [← hd]; rfl
    have h1 := inv_add_idle h d hdpc
    obtain ⟨hmode, pre, post, hheap, hall, hdist⟩ := h1
    have hlen : (c.threads ++ [d])[c.threads.length]? = some d := by simp
    have x : Ctx { c with threads := c.threads ++ [d] } c.threads.length d pre post := ⟨hmode, hheap, hall, hdist, hlen⟩
    have h2 := inv_start x (SameHeap.refl _) rfl d none
    have hm : c.mode = .fresh := hmode
    rw [startNext_threads c (c.threads ++ [d]) d none hm] at h2
    have hth := (startNext_mode c d none hm).2
    have e : ((c.threads ++ [d]).set c.threads.length (startNext c d none).2) = c.threads ++ [(startNext c d none).2] := by
      simp
    simp only [e] at h2
    rw [hth]
    exact h2

theorem inv_init (progs : List (List Op)) : Inv (init .fresh progs) := inv_spawn progs _ inv_empty

theorem inv_runP (s : List (Nat × Option Nat)) : ∀ (c : Cfg), Inv c → Inv (runP c s) := by
  induction s with
  | nil => intro c h; exact h
  | cons a s ih =>
    intro c h
    obtain ⟨tid, pick⟩ := a
    exact ih _ (inv_step h pick tid)

/-! ### quiescent reading: sequential `Dequeue`s return exactly `post` -/

structure ChainOk (c : Cfg) (pre post : List NodeId) : Prop where
  mode : c.mode = .fresh
  nodup : (pre ++ c.head :: post).Nodup
  bound : ∀ i ∈ pre ++ c.head :: post, i < c.nodes.length
  linked : Linked c (pre ++ c.head :: post)
  vals : ∀ i ∈ post, (valOf c i).isSome

theorem Linked.next_of_split {c : Cfg} : ∀ (l1 : List NodeId) {i x : NodeId} {l2 : List NodeId},
    Linked c (l1 ++ i :: x :: l2) → nextOf c i = some x
  | [], _, _, _, h => h.1
  | [a], _, _, _, h => Linked.next_of_split [] h.2
  | a :: b :: l1, _, _, _, h => Linked.next_of_split (b :: l1) h.2

theorem seqDequeue_fresh (c : Cfg) (y : NodeId) (hm : c.mode = .fresh) (hn : nextOf c c.head = some y) :
    seqDequeue c = (valOf c y,
      { setVal { c with head := y } y none with len := (setVal { c with head := y } y none).len - 1 }) := by
  simp only [seqDequeue, hn]
  split
  · rename_i heq; rw [hm] at heq; cases heq
  · rfl

theorem seqDrain_succ_some (f : Nat) (c c1 : Cfg) (v : Val) (h : seqDequeue c = (some v, c1)) :
    (seqDrain (f + 1) c).1 = v :: (seqDrain f c1).1 := by
  show (match seqDequeue c with
    | (none, c') => ([], c')
    | (some v, c') => (v :: (seqDrain f c').1, (seqDrain f c').2)).1 = _
  rw [h]

theorem seqDrain_chain : ∀ (post : List NodeId) (c : Cfg) (pre : List NodeId), ChainOk c pre post →
    (seqDrain (post.length + 1) c).1 = post.filterMap (valOf c) := by
  intro post
  induction post with
  | nil =>
    intro c pre h
    have hlast : (pre ++ [c.head]).getLast? = some c.head := by simp
    have hnone : nextOf c c.head = none := h.linked.none_of_last hlast
    simp [seqDrain, seqDequeue, hnone]
  | cons y l2 ih =>
    intro c pre h
    have hnext : nextOf c c.head = some y := Linked.next_of_split pre h.linked
    obtain ⟨v, hv⟩ := Option.isSome_iff_exists.mp (h.vals y (by simp))
    have nd := h.nodup
    have hy_notin : y ∉ l2 := by
      have : (pre ++ [c.head] ++ y :: l2).Nodup := by simpa using nd
      have := (List.nodup_append.mp this).2.1
      exact (List.nodup_cons.mp this).1
    let c1 : Cfg := { setVal { c with head := y } y none with len := (setVal { c with head := y } y none).len - 1 }
    have hdq : seqDequeue c = (some v, c1) := by
      rw [seqDequeue_fresh c y h.mode hnext, hv]
    have nx : ∀ i, nextOf c1 i = nextOf c i := fun i => nextOf_setVal { c with head := y } y i none
    have vx : ∀ i, i ≠ y → valOf c1 i = valOf c i := fun i hi => valOf_setVal_ne { c with head := y } y i none hi
    have chain_eq : (pre ++ [c.head]) ++ y :: l2 = pre ++ c.head :: y :: l2 := by simp
    have h1 : ChainOk c1 (pre ++ [c.head]) l2 := by
      refine ⟨h.mode, ?_, ?_, ?_, ?_⟩
      · show ((pre ++ [c.head]) ++ y :: l2).Nodup
        rw [chain_eq]; exact nd
      · show ∀ i ∈ (pre ++ [c.head]) ++ y :: l2, i < (setVal { c with head := y } y none).nodes.length
        rw [chain_eq, length_setVal]; exact h.bound
      · show Linked c1 ((pre ++ [c.head]) ++ y :: l2)
        rw [chain_eq]; exact h.linked.frame (fun i _ => nx i)
      · intro i hi
        rw [vx i (fun e => hy_notin (e ▸ hi))]
        exact h.vals i (List.mem_cons_of_mem _ hi)
    have e2 : l2.filterMap (valOf c1) = l2.filterMap (valOf c) :=
      filterMap_congr' _ _ _ (fun a ha => vx a (fun e => hy_notin (e ▸ ha)))
    have := ih c1 (pre ++ [c.head]) h1
    rw [List.length_cons, seqDrain_succ_some _ c c1 v hdq, this, e2]
    simp [List.filterMap_cons, hv]

theorem filterMap_length_of_all_some {α β} (f : α → Option β) : ∀ (l : List α), (∀ a ∈ l, (f a).isSome) →
    (l.filterMap f).length = l.length
  | [], _ => rfl
  | a :: l, h => by
    obtain ⟨b, hb⟩ := Option.isSome_iff_exists.mp (h a (by simp))
    simp [List.filterMap_cons, hb, filterMap_length_of_all_some f l (fun x hx => h x (List.mem_cons_of_mem _ hx))]

/-- what the invariant says to an observer -/
theorem inv_observable {c : Cfg} (h : Inv c) :
    ∃ q, replay (c.lin.reverse.map (·.2)) [] = some q ∧ (seqDrain (q.length + 1) c).1 = q := by
  obtain ⟨hmode, pre, post, hheap, _, _⟩ := h
  refine ⟨post.filterMap (valOf c), hheap.lin, ?_⟩
  rw [filterMap_length_of_all_some _ _ hheap.vals]
  exact seqDrain_chain post c pre ⟨hmode, hheap.nodup, hheap.bound, hheap.linked, hheap.vals⟩

end GoaktVerif.C20

/-
The simp set `c01g`: evaluation lemmas of the grain machine's measures and state updates
(Lemmas/C01G.lean tags them; Props/C01G.lean uses `simp only [c01g, …]`).
-/
import Lean.Meta.Tactic.Simp.RegisterCommand

/-- evaluation lemmas of the grain dispatch machine (C01G) -/
register_simp_attr c01g

import GoaktVerif.Model.C15

/-
C15 — the invariant of the repaired Ask protocol (`Mode.fixed`) and basic heap facts.

Ownership is linear: a receive context is in exactly one of: the context pool, a caller that has not built it
yet, the mailbox, the sentinel position (being or having been handled).  A response channel in the pool is empty
and referenced by no pending request.  `own ch` (ghost) is the request the channel was last handed out for.
-/
set_option linter.unusedSimpArgs false
set_option linter.unusedVariables false

namespace GoaktVerif.C15
open GoaktVerif.Model.C15

/-! ### heap reads after heap writes -/

theorem ctxOf_modCtx_ne (c : Cfg) (i j : CtxId) (f : Ctx → Ctx) (h : j ≠ i) : ctxOf (modCtx c i f) j = ctxOf c j := by
  simp only [ctxOf, modCtx, List.getD_eq_getElem?_getD, List.getElem?_modify]
  have : ¬ i = j := fun e => h e.symm
  simp [this]

theorem ctxOf_modCtx_self (c : Cfg) (i : CtxId) (f : Ctx → Ctx) (h : i < c.ctxs.length) :
    ctxOf (modCtx c i f) i = f (ctxOf c i) := by
  simp [ctxOf, modCtx, List.getD_eq_getElem?_getD, List.getElem?_modify, h]

theorem chanOf_setChan_ne (c : Cfg) (i j : ChanId) (v : Option ReqId) (h : j ≠ i) : chanOf (setChan c i v) j = chanOf c j := by
  simp only [chanOf, setChan, List.getD_eq_getElem?_getD, List.getElem?_set]
  have : ¬ i = j := fun e => h e.symm
  simp [this]

theorem chanOf_setChan_self (c : Cfg) (i : ChanId) (v : Option ReqId) (h : i < c.chans.length) :
    chanOf (setChan c i v) i = v := by
  simp [chanOf, setChan, List.getD_eq_getElem?_getD, List.getElem?_set, h]

theorem chanOf_some_lt (c : Cfg) (i : ChanId) (v : ReqId) (h : chanOf c i = some v) : i < c.chans.length := by
  unfold chanOf at h
  rw [List.getD_eq_getElem?_getD] at h
  cases hi : c.chans[i]? with
  | none => simp [hi] at h
  | some x => exact (List.getElem?_eq_some_iff.mp hi).1

/-- allocating a fresh context changes no read (the default context IS the fresh one) -/
theorem ctxOf_allocCtx (c : Cfg) (j : CtxId) :
    ctxOf { c with ctxs := c.ctxs ++ [{ closed := false, response := none, msg := none }] } j = ctxOf c j := by
  simp only [ctxOf, List.getD_eq_getElem?_getD, List.getElem?_append]
  split
  · rfl
  · rename_i h
    have : c.ctxs[j]? = none := List.getElem?_eq_none (Nat.le_of_not_lt h)
    rw [this]
    cases hx : ([{ closed := false, response := none, msg := none }] : List Ctx)[j - c.ctxs.length]? with
    | none => rfl
    | some y =>
      have := List.mem_of_getElem? hx
      simp at this
      simp [this]

theorem chanOf_allocChan (c : Cfg) (j : ChanId) : chanOf { c with chans := c.chans ++ [none] } j = chanOf c j := by
  simp only [chanOf, List.getD_eq_getElem?_getD, List.getElem?_append]
  split
  · rfl
  · rename_i h
    have : c.chans[j]? = none := List.getElem?_eq_none (Nat.le_of_not_lt h)
    rw [this]
    cases hx : ([none] : List (Option ReqId))[j - c.chans.length]? with
    | none => rfl
    | some y =>
      have := List.mem_of_getElem? hx
      simp at this
      simp [this]

/-! ### the invariant -/

def buildCtx (t : Thread) : Option CtxId :=
  match t.pc with
  | some (.askBuild i _) => some i
  | _ => none

def selChan (t : Thread) : Option ChanId :=
  match t.pc with
  | some (.askSelect _ ch _) => some ch
  | _ => none

/-- threads that (still) play the target's worker -/
def responderish (t : Thread) : Prop := t.cur = some .handle ∨ Op.handle ∈ t.prog

/-- a context waiting in the mailbox or being handled: built for request `k` with channel `ch`, nothing sent yet -/
def Pending (c : Cfg) (own : ChanId → ReqId) (i : CtxId) (closed : Bool) (ch : ChanId) (k : ReqId) : Prop :=
  ctxOf c i = { closed := closed, response := some ch, msg := some k } ∧ own ch = k ∧ chanOf c ch = none ∧
    ch ∉ c.chanPool

def ThreadOk (c : Cfg) (own : ChanId → ReqId) (t : Thread) : Prop :=
  match t.pc with
  | some (.askBuild i k) => t.cur = some (.ask k) ∧ i < c.ctxs.length ∧ i ∉ c.ctxPool ∧ i ∉ c.mbox ∧ i ≠ c.sentinel
  | some (.askSelect _ ch k) => t.cur = some (.ask k) ∧ own ch = k ∧ ch < c.chans.length ∧ ch ∉ c.chanPool
  | some (.askClose ..) => False
  | some .hDeq => t.cur = some .handle
  | some (.hCas i k) => t.cur = some .handle ∧ i = c.sentinel ∧
      ∃ ch, Pending c own i false ch k ∧ ∀ j ∈ c.mbox, (ctxOf c j).response ≠ some ch
  | some (.hSend i k) => t.cur = some .handle ∧ i = c.sentinel ∧
      ∃ ch, Pending c own i true ch k ∧ ∀ j ∈ c.mbox, (ctxOf c j).response ≠ some ch
  | none => True

def histOk (t : Thread) : Prop := ∀ k v, (Op.ask k, Res.reply v) ∈ t.hist → v = k

/-- the part of the invariant that does not read the thread list -/
structure GInv (c : Cfg) (own : ChanId → ReqId) : Prop where
  mode : c.mode = .fixed
  b_sent : c.sentinel < c.ctxs.length
  b_mbox : ∀ i ∈ c.mbox, i < c.ctxs.length
  b_cpool : ∀ i ∈ c.ctxPool, i < c.ctxs.length
  b_hpool : ∀ ch ∈ c.chanPool, ch < c.chans.length
  b_resp : ∀ i ch, (ctxOf c i).response = some ch → ch < c.chans.length
  lin : (c.ctxPool ++ c.mbox ++ [c.sentinel]).Nodup
  val : ∀ ch v, chanOf c ch = some v → own ch = v
  pool_empty : ∀ ch ∈ c.chanPool, chanOf c ch = none
  pool_nodup : c.chanPool.Nodup
  mbox_ok : ∀ i ∈ c.mbox, ∃ ch k, Pending c own i false ch k
  mbox_dist : ∀ i j, i ∈ c.mbox → j ∈ c.mbox → i ≠ j → (ctxOf c i).response ≠ (ctxOf c j).response

structure FInv (c : Cfg) (own : ChanId → ReqId) : Prop where
  g : GInv c own
  thr : ∀ (tid : Nat) t, c.threads[tid]? = some t → ThreadOk c own t ∧ histOk t
  build_dist : ∀ (t1 t2 : Nat) th1 th2 i, t1 ≠ t2 → c.threads[t1]? = some th1 → c.threads[t2]? = some th2 →
    buildCtx th1 = some i → buildCtx th2 ≠ some i
  sel_dist : ∀ (t1 t2 : Nat) th1 th2 ch, t1 ≠ t2 → c.threads[t1]? = some th1 → c.threads[t2]? = some th2 →
    selChan th1 = some ch → selChan th2 ≠ some ch
  single : ∀ (t1 t2 : Nat) th1 th2, c.threads[t1]? = some th1 → c.threads[t2]? = some th2 →
    responderish th1 → responderish th2 → t1 = t2

/-- replace the record of thread `tid` -/
def upd (c : Cfg) (tid : Nat) (t : Thread) : Cfg := { c with threads := c.threads.set tid t }

theorem ctxOf_upd (c : Cfg) (tid t i) : ctxOf (upd c tid t) i = ctxOf c i := rfl
theorem chanOf_upd (c : Cfg) (tid t i) : chanOf (upd c tid t) i = chanOf c i := rfl

theorem GInv.upd {c own} (h : GInv c own) (tid : Nat) (t : Thread) : GInv (upd c tid t) own :=
  ⟨h.mode, h.b_sent, h.b_mbox, h.b_cpool, h.b_hpool, h.b_resp, h.lin, h.val, h.pool_empty, h.pool_nodup,
   h.mbox_ok, h.mbox_dist⟩

theorem ThreadOk.upd {c own} {t : Thread} (h : ThreadOk c own t) (tid : Nat) (t' : Thread) : ThreadOk (upd c tid t') own t := h

/-- the generic step lemma: the heap went from `c` to `c1` (same thread list), the ghost map from `own` to `own1`,
thread `tid` from `t` to `t'` -/
theorem finv_update {c c1 : Cfg} {own own1 : ChanId → ReqId} {tid : Nat} {t t' : Thread}
    (h : FInv c own) (hth : c1.threads = c.threads) (ht : c.threads[tid]? = some t)
    (hg : GInv c1 own1)
    (hothers : ∀ (j : Nat) tj, j ≠ tid → c.threads[j]? = some tj → ThreadOk c1 own1 tj)
    (hnew : ThreadOk c1 own1 t' ∧ histOk t')
    (hb : ∀ i, buildCtx t' = some i → buildCtx t = some i ∨
      ∀ (j : Nat) tj, j ≠ tid → c.threads[j]? = some tj → buildCtx tj ≠ some i)
    (hs : ∀ ch, selChan t' = some ch → selChan t = some ch ∨
      ∀ (j : Nat) tj, j ≠ tid → c.threads[j]? = some tj → selChan tj ≠ some ch)
    (hr : responderish t' → responderish t) :
    FInv (upd c1 tid t') own1 := by
  have hlt : tid < c.threads.length := (List.getElem?_eq_some_iff.mp ht).1
  have get : ∀ (j : Nat) tj, (upd c1 tid t').threads[j]? = some tj →
      (j = tid ∧ tj = t') ∨ (j ≠ tid ∧ c.threads[j]? = some tj) := by
    intro j tj hj
    simp only [upd, hth, List.getElem?_set] at hj
    by_cases e : tid = j
    · subst e; simp [hlt] at hj; exact Or.inl ⟨rfl, hj.symm⟩
    · simp only [e, if_false] at hj; exact Or.inr ⟨fun x => e x.symm, hj⟩
  refine ⟨hg.upd tid t', ?_, ?_, ?_, ?_⟩
  · intro j tj hj
    rcases get j tj hj with ⟨rfl, rfl⟩ | ⟨hne, hj'⟩
    · exact hnew
    · exact ⟨hothers j tj hne hj', (h.thr j tj hj').2⟩
  · intro t1 t2 th1 th2 i hne h1 h2 hb1 hb2
    rcases get t1 th1 h1 with ⟨rfl, rfl⟩ | ⟨n1, g1⟩ <;> rcases get t2 th2 h2 with ⟨rfl, rfl⟩ | ⟨n2, g2⟩
    · exact hne rfl
    · rcases hb i hb1 with hb' | hb'
      · exact h.build_dist _ _ _ _ i hne ht g2 hb' hb2
      · exact hb' t2 th2 n2 g2 hb2
    · rcases hb i hb2 with hb' | hb'
      · exact h.build_dist _ _ _ _ i hne g1 ht hb1 hb'
      · exact hb' t1 th1 n1 g1 hb1
    · exact h.build_dist _ _ _ _ i hne g1 g2 hb1 hb2
  · intro t1 t2 th1 th2 ch hne h1 h2 hs1 hs2
    rcases get t1 th1 h1 with ⟨rfl, rfl⟩ | ⟨n1, g1⟩ <;> rcases get t2 th2 h2 with ⟨rfl, rfl⟩ | ⟨n2, g2⟩
    · exact hne rfl
    · rcases hs ch hs1 with hs' | hs'
      · exact h.sel_dist _ _ _ _ ch hne ht g2 hs' hs2
      · exact hs' t2 th2 n2 g2 hs2
    · rcases hs ch hs2 with hs' | hs'
      · exact h.sel_dist _ _ _ _ ch hne g1 ht hs1 hs'
      · exact hs' t1 th1 n1 g1 hs1
    · exact h.sel_dist _ _ _ _ ch hne g1 g2 hs1 hs2
  · intro t1 t2 th1 th2 h1 h2 r1 r2
    rcases get t1 th1 h1 with ⟨rfl, rfl⟩ | ⟨n1, g1⟩ <;> rcases get t2 th2 h2 with ⟨rfl, rfl⟩ | ⟨n2, g2⟩
    · rfl
    · exact h.single _ _ _ _ ht g2 (hr r1) r2
    · exact h.single _ _ _ _ g1 ht r1 (hr r2)
    · exact h.single _ _ _ _ g1 g2 r1 r2

end GoaktVerif.C15

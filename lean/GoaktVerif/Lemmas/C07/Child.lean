/-
C07 helper lemmas, part 2: per-child facts (what each primitive does to one child, as seen by the oracle).
-/
import GoaktVerif.Model.C07
import GoaktVerif.Spec.C07

namespace GoaktVerif.C07
open GoaktVerif.Model.C07 GoaktVerif.Spec.C07

/-- per-child invariant: a suspended actor still has its running flag; the fault counter is the
    count of the recorded history; the last stamp is the newest entry; stamps are positive -/
structure ChildWF (w : Int) (c : Child) : Prop where
  run_of_susp : c.susp = true → c.running = true
  cf_eq : c.cf = specCount w c.hist
  last_eq : c.last = c.hist.head?.getD 0
  pos : ∀ t ∈ c.hist, 0 < t
  nofail : c.failNext = 0

theorem wf_fresh (w : Int) : ChildWF w Child.fresh := by
  constructor <;> simp [Child.fresh, specCount]

theorem wf_suspend {w c} (h : ChildWF w c) (hr : c.running = true) : ChildWF w (suspend c) := by
  obtain ⟨h1, h2, h3, h4, h5⟩ := h
  constructor <;> simp_all [suspend]

theorem wf_unsuspend {w c} (h : ChildWF w c) : ChildWF w { c with susp := false } := by
  obtain ⟨h1, h2, h3, h4, h5⟩ := h
  constructor <;> simp_all

theorem wf_doReinstate {w c} (h : ChildWF w c) : ChildWF w (doReinstate c).1 := by
  unfold doReinstate
  split
  · exact h
  · exact wf_unsuspend h

theorem wf_shutdown {w c} (h : ChildWF w c) : ChildWF w (shutdown c).1 := by
  obtain ⟨h1, h2, h3, h4, h5⟩ := h
  unfold shutdown
  split
  · exact ⟨h1, h2, h3, h4, h5⟩
  · constructor <;> simp_all

theorem wf_stop {w c} (h : ChildWF w c) : ChildWF w { (shutdown c).1 with reg := false } := by
  obtain ⟨h1, h2, h3, h4, h5⟩ := wf_shutdown h
  constructor <;> simp_all

theorem restartOne_fst (c : Child) :
    (restartOne c).1 =
      { (if c.alive then (shutdown c).1 else c) with
        pre := (if c.alive then (shutdown c).1 else c).pre + 1, handled := 0, running := true, reg := true,
        susp := false, rc := c.rc + 1 } := by
  unfold restartOne
  by_cases h : c.alive = true <;> simp [h]

theorem restartOne_snd (c : Child) : (restartOne c).2 = c.alive := by
  unfold restartOne shutdown Child.alive
  cases c.running <;> cases c.susp <;> simp

theorem wf_restartOne {w c} (h : ChildWF w c) : ChildWF w (restartOne c).1 := by
  rw [restartOne_fst]
  have hc1 : ChildWF w (if c.alive then (shutdown c).1 else c) := by
    split
    · exact wf_shutdown h
    · exact h
  obtain ⟨h1, h2, h3, h4, h5⟩ := hc1
  constructor <;> simp_all

/-- `recordFault` computes the spec's consecutive-fault count of the extended history -/
theorem recordFault_cf {w c} (now : Int) (h : ChildWF w c) :
    (recordFault w now c).cf = specCount w (now :: c.hist) := by
  obtain ⟨_, h2, h3, _⟩ := h
  unfold recordFault
  simp only
  cases hh : c.hist with
  | nil =>
    rw [hh] at h2 h3
    simp [specCount] at h2 h3 ⊢
    simp [h2, h3]
  | cons t rest =>
    rw [hh] at h2 h3
    simp only [List.head?_cons, Option.getD_some] at h3
    simp only [specCount, h3, h2]
    split <;> simp

theorem wf_recordFault {w c} (now : Int) (hn : 0 < now) (h : ChildWF w c) : ChildWF w (recordFault w now c) := by
  have hcf := recordFault_cf now h
  obtain ⟨h1, h2, h3, h4, h5⟩ := h
  constructor
  · simpa [recordFault] using h1
  · rw [hcf]; simp [recordFault]
  · simp [recordFault]
  · intro t ht
    simp only [recordFault, List.mem_cons] at ht
    rcases ht with rfl | ht
    · exact hn
    · exact h4 t ht
  · exact h5

theorem specCount_replicate_one (w : Int) (n : Nat) : specCount w (List.replicate n 1) = n := by
  induction n with
  | zero => simp [specCount]
  | succ n ih =>
    cases n with
    | zero => simp [specCount]
    | succ m =>
      simp only [List.replicate_succ] at ih ⊢
      simp only [specCount]
      rw [if_neg (by omega)]
      omega

theorem specCount_pos (w : Int) (t : Int) (l : List Int) : 0 < specCount w (t :: l) := by
  cases l with
  | nil => simp [specCount]
  | cons t' r => simp only [specCount]; split <;> omega

/-- the ghost effect of the harness' `age` op keeps the invariant -/
theorem wf_age {w c} (h : ChildWF w c) (hl : c.last ≠ 0) :
    ChildWF w { c with last := 1, hist := List.replicate c.cf 1 } := by
  obtain ⟨h1, h2, h3, h4, h5⟩ := h
  have hne : c.hist ≠ [] := by
    intro he; rw [he] at h3; simp at h3; exact hl h3
  obtain ⟨t, r, htr⟩ := List.exists_cons_of_ne_nil hne
  have hpos : 0 < c.cf := by rw [h2, htr]; exact specCount_pos w t r
  constructor
  · exact h1
  · simp [specCount_replicate_one]
  · obtain ⟨k, hk⟩ := Nat.exists_eq_succ_of_ne_zero (Nat.pos_iff_ne_zero.mp hpos)
    simp [hk, List.replicate_succ]
  · intro t ht
    simp only [List.mem_replicate] at ht
    omega
  · exact h5

theorem last_zero_iff {w c} (h : ChildWF w c) : c.last = 0 ↔ c.hist = [] := by
  obtain ⟨_, _, h3, h4⟩ := h
  constructor
  · intro hl
    cases hh : c.hist with
    | nil => rfl
    | cons t r =>
      rw [hh] at h3 h4
      simp at h3
      have := h4 t (by simp)
      omega
  · intro he; rw [he] at h3; simpa using h3

theorem wf_handled {w c} (h : ChildWF w c) (n : Nat) : ChildWF w { c with handled := n } := by
  obtain ⟨h1, h2, h3, h4, h5⟩ := h
  constructor <;> simp_all

end GoaktVerif.C07

/-
C07 helper lemmas, part 1: the constructor's directive map and the lookup of notifyParent.
-/
import GoaktVerif.Model.C07
import GoaktVerif.Spec.C07

namespace GoaktVerif.C07
open GoaktVerif.Model.C07 GoaktVerif.Spec.C07

theorem mapGet_mapSet (m : List (ErrType × Directive)) (k k' : ErrType) (v : Directive) :
    mapGet (mapSet m k v) k' = if k = k' then some v else mapGet m k' := by
  induction m with
  | nil => simp [mapSet, mapGet]
  | cons p rest ih =>
    obtain ⟨k0, v0⟩ := p
    by_cases h0 : k0 = k
    · subst h0
      by_cases h1 : k0 = k' <;> simp [mapSet, mapGet, h1]
    · by_cases h1 : k = k'
      · subst h1
        simp [mapSet, mapGet, h0, ih]
      · by_cases h2 : k0 = k'
        · subst h2; simp [mapSet, mapGet, h0, h1]
        · simp [mapSet, mapGet, h0, h1, h2, ih]

/-- the step function of `lastTyped` -/
def lastStep (ty : ErrType) (acc : Option Directive) (o : Opt) : Option Directive :=
  match o with
  | .directive ty' d => if ty' = ty then some d else acc
  | _ => acc

theorem lastTyped_eq (opts : List Opt) (ty : ErrType) : lastTyped opts ty = opts.foldl (lastStep ty) none := rfl

theorem foldl_lastStep (opts : List Opt) (ty : ErrType) (acc : Option Directive) :
    opts.foldl (lastStep ty) acc =
      match opts.foldl (lastStep ty) none with
      | some d => some d
      | none => acc := by
  induction opts generalizing acc with
  | nil => simp
  | cons o rest ih =>
    simp only [List.foldl_cons]
    rw [ih (lastStep ty acc o), ih (lastStep ty none o)]
    cases hr : rest.foldl (lastStep ty) none with
    | some d => simp
    | none =>
      cases o <;> simp [lastStep]
      split <;> simp

theorem applyOpt_directives (s : Supervisor) (o : Opt) (ty : ErrType) :
    mapGet (applyOpt s o).directives ty =
      match lastStep ty none o with
      | some d => some d
      | none => mapGet s.directives ty := by
  cases o with
  | strategy st => simp [applyOpt, lastStep]
  | directive ty' d =>
    simp only [applyOpt, lastStep, mapGet_mapSet]
    split <;> simp
  | retry m t => simp [applyOpt, lastStep]
  | backoff i m r =>
    simp only [applyOpt, lastStep]
    split <;> simp

theorem foldl_applyOpt_directives (opts : List Opt) (s : Supervisor) (ty : ErrType) :
    mapGet (opts.foldl applyOpt s).directives ty =
      match lastTyped opts ty with
      | some d => some d
      | none => mapGet s.directives ty := by
  rw [lastTyped_eq]
  induction opts generalizing s with
  | nil => simp
  | cons o rest ih =>
    simp only [List.foldl_cons]
    rw [ih (applyOpt s o), applyOpt_directives, foldl_lastStep rest ty (lastStep ty none o)]
    cases rest.foldl (lastStep ty) none <;> simp

theorem mapGet_default (ty : ErrType) : mapGet defaultSupervisor.directives ty = defaultDirective ty := by
  simp only [defaultSupervisor, mapGet, defaultDirective]
  by_cases h1 : tyPanic = ty
  · simp [h1]
  · have h1' : ¬ ty = tyPanic := fun h => h1 h.symm
    by_cases h2 : tyPanicNil = ty
    · simp [h1, h1', h2]
    · have h2' : ¬ ty = tyPanicNil := fun h => h2 h.symm
      simp [h1, h1', h2, h2']

/-- the lookup of notifyParent on the constructed supervisor is the configured directive of the text:
    the any-error directive when one was given (sole rule), else the last rule for the type, else the
    constructor default, else none -/
theorem lookup_eq_spec (opts : List Opt) (ty : ErrType) :
    lookup (newSupervisor opts) ty = specDirective opts ty := by
  have hany := foldl_applyOpt_directives opts defaultSupervisor tyAny
  have hty := foldl_applyOpt_directives opts defaultSupervisor ty
  have hdef : mapGet defaultSupervisor.directives tyAny = none := by decide
  unfold newSupervisor specDirective lookup
  simp only
  cases hl : lastTyped opts tyAny with
  | some d =>
    rw [hl] at hany
    simp only [hany, mapGet]
    by_cases h : tyAny = ty <;> simp [h]
  | none =>
    rw [hl, hdef] at hany
    simp only [hany]
    rw [hty, mapGet_default]
    cases lastTyped opts ty <;> simp
    cases defaultDirective ty <;> simp

end GoaktVerif.C07

/-
C07 helper lemmas, part 6: every branch of the failure path satisfies the oracle (code variant) and keeps the invariant.
-/
import GoaktVerif.Lemmas.C07.Group

namespace GoaktVerif.C07
open GoaktVerif.Model.C07 GoaktVerif.Spec.C07

/-- the family with the clock advanced (first thing `step` does) -/
def tickF (f : Family) : Family := { f with now := f.now + tick }

theorem inv_tick {opts f h} (hinv : Inv opts f h) : Inv opts (tickF f) h := by
  obtain ⟨h1, h2, h3, h4⟩ := hinv
  refine ⟨h1, h2, h3, ?_⟩
  simp only [tickF, tick]; omega

theorem tick_obs (f : Family) : (tickF f).obs = f.obs := rfl

theorem sig_same (v : Variant) (e : Expect) (i : Nat) (b a : Obs) (hp : a.pSig = b.pSig) (hg : a.gSig = b.gSig)
    (he : e ≠ .escalate) : checkSignals v e i b a = true := by
  cases e <;> cases v <;> simp_all [checkSignals]

/-- B1: nothing happens (target not running / ErrDead / Resume) -/
theorem branch_unchanged (v : Variant) (st : Strategy) (e : Expect) (i : Nat) (f : Family)
    (he : e = .dead ∨ e = .ignored ∨ e = .resume) :
    check v st e i f.obs f.obs = true := by
  unfold check
  rw [Bool.and_eq_true]
  constructor
  · apply checkChildren_of v st e i f f rfl
    intro j bj hb
    refine ⟨bj, hb, ?_⟩
    apply check_unchanged v e _ _ bj he
  · apply sig_same <;> first | rfl | (rcases he with rfl | rfl | rfl <;> simp)

/-- B2: the faulty child ends suspended, nobody else is touched -/
theorem branch_suspended (v : Variant) (st : Strategy) (e : Expect) (i : Nat) (f f' : Family) (c : Child)
    (hc : f.cs[i]? = some c) (ha : c.alive = true)
    (he : e = .suspendOnly ∨ e = .escalate ∨ e = .invalid)
    (hcs : f'.cs = (suspended f i).cs ∨ f'.cs = (suspended (suspended f i) i).cs) :
    checkChildren v st e i f.obs f'.obs = true := by
  have hlen : f'.cs.length = f.cs.length := by
    rcases hcs with h | h <;> simp [h, suspended, setChild]
  apply checkChildren_of v st e i f f' hlen
  intro j bj hb
  have hgrp : groupFor e st f.obs i j = (j == i) := by
    rcases he with rfl | rfl | rfl <;> rfl
  rw [hgrp]
  have hget : f'.cs[j]? = some (seen i j bj) ∨ f'.cs[j]? = some (seen i j (seen i j bj)) := by
    rcases hcs with h | h
    · left; rw [h, suspended_getElem?, hb]; rfl
    · right; rw [h, suspended_getElem?, suspended_getElem?, hb]; rfl
  by_cases hji : j = i
  · subst hji
    have hbc : bj = c := by rw [hb] at hc; exact Option.some.inj hc
    subst hbc
    have hs := check_suspended v e bj ha he
    rcases hget with hg | hg
    · exact ⟨_, hg, by simpa [seen] using hs.1⟩
    · exact ⟨_, hg, by simpa [seen] using hs.2⟩
  · have : seen i j bj = bj := by simp [seen, hji]
    rw [this, this] at hget
    refine ⟨bj, by rcases hget with h | h <;> exact h, ?_⟩
    have : (j == i) = false := by simp [hji]
    rw [this]
    exact check_same v e false bj

theorem wf_seen {w i j c} (h : ChildWF w c) (hr : c.alive = true ∨ j ≠ i) : ChildWF w (seen i j c) := by
  unfold seen
  split
  · next hji =>
    rcases hr with hr | hr
    · apply wf_suspend h
      simp [Child.alive] at hr; exact hr.1
    · exact absurd hji hr
  · exact h

theorem inv_suspended {opts f h i c} (hinv : Inv opts f h) (hc : f.cs[i]? = some c) (ha : c.alive = true) :
    Inv opts (suspended f i) h := by
  obtain ⟨h1, h2, h3, h4⟩ := hinv
  refine ⟨h1, ?_, ?_, h4⟩
  · rw [h2]
    apply List.ext_getElem?
    intro j
    simp only [List.getElem?_map, suspended_getElem?]
    cases f.cs[j]? <;> simp [seen_hist]
  · intro j cj hj
    rw [suspended_getElem?] at hj
    cases hb : f.cs[j]? with
    | none => rw [hb] at hj; simp at hj
    | some bj =>
      rw [hb] at hj
      simp only [Option.map_some, Option.some.injEq] at hj
      subst hj
      have hw := h3 j bj hb
      show ChildWF (window f.sup) (seen i j bj)
      by_cases hji : j = i
      · subst hji
        have : bj = c := by rw [hb] at hc; exact Option.some.inj hc
        subst this
        exact wf_seen hw (Or.inl ha)
      · exact wf_seen hw (Or.inr hji)

/-- B3/B4: a pass over the group (Stop, Restart, exhausted budget) -/
theorem branch_group (v : Variant) (e : Expect) (i : Nat) (f f' : Family) (c : Child) (g : Nat → Child → Child)
    (hc : f.cs[i]? = some c) (he : e = .stop ∨ e = .restart ∨ e = .exhausted)
    (hlen : f'.cs.length = f.cs.length)
    (hcs : ∀ j : Nat, f'.cs[j]? =
      (f.cs[j]?).map (fun c => if inGroup f (f.sup.strategy == .oneForAll) i j then g j (seen i j c) else c))
    (hfaulty : checkChild v e true true c.obs (g i (suspend c)).obs = true)
    (hsib : ∀ (j : Nat) (bj : Child), j ≠ i → f.cs[j]? = some bj → checkChild v e false true bj.obs (g j bj).obs = true) :
    checkChildren v f.sup.strategy e i f.obs f'.obs = true := by
  apply checkChildren_of v f.sup.strategy e i f f' hlen
  intro j bj hb
  have hgrp : groupFor e f.sup.strategy f.obs i j = inGroup f (f.sup.strategy == .oneForAll) i j := by
    have := group_eq_inGroup f i j c bj hc hb
    rcases he with rfl | rfl | rfl <;> exact this
  rw [hgrp, hcs j, hb]
  refine ⟨_, rfl, ?_⟩
  by_cases hji : j = i
  · subst hji
    have hbc : bj = c := by rw [hb] at hc; exact Option.some.inj hc
    subst hbc
    simp only [inGroup_self, if_true, seen, beq_self_eq_true]
    exact hfaulty
  · have hne : (j == i) = false := by simp [hji]
    rw [hne]
    by_cases hg : inGroup f (f.sup.strategy == .oneForAll) i j = true
    · simp only [hg, if_true, seen, hji, if_false]
      exact hsib j bj hji hb
    · have hg' : inGroup f (f.sup.strategy == .oneForAll) i j = false := by simpa using hg
      simp only [hg', Bool.false_eq_true, if_false]
      exact check_same v e false bj

/-- the invariant across a group pass; `add` says whether the pass records a fault (Restart paths) -/
theorem inv_group {opts : List Opt} {f f' : Family} {h : Hists} (i : Nat) (c : Child) (g : Nat → Child → Child) (add : Bool)
    (hinv : Inv opts f h) (hc : f.cs[i]? = some c) (ha : c.alive = true)
    (hsup : f'.sup = f.sup) (hnow : f'.now = f.now)
    (hcs : ∀ j : Nat, f'.cs[j]? =
      (f.cs[j]?).map (fun c => if inGroup f (f.sup.strategy == .oneForAll) i j then g j (seen i j c) else c))
    (hwf : ∀ (j : Nat) (c : Child), ChildWF (window f.sup) c → ChildWF (window f.sup) (g j c))
    (hhist : ∀ (j : Nat) (c : Child), (g j c).hist = if add then f.now :: c.hist else c.hist) :
    Inv opts f' (if add then recordHists f.sup.strategy f.obs i f.now h else h) := by
  obtain ⟨h1, h2, h3, h4⟩ := hinv
  refine ⟨by rw [hsup, h1], ?_, ?_, by rw [hnow]; exact h4⟩
  · apply List.ext_getElem?
    intro j
    rw [List.getElem?_map, hcs j]
    cases hb : f.cs[j]? with
    | none =>
      cases add <;> simp [h2, recordHists, List.getElem?_mapIdx, hb]
    | some bj =>
      have hgrp := group_eq_inGroup f i j c bj hc hb
      cases add
      · simp only [Bool.false_eq_true, if_false, h2, List.getElem?_map, hb, Option.map_some]
        split <;> simp [hhist, seen_hist]
      · simp only [if_true, h2, recordHists, List.getElem?_mapIdx, List.getElem?_map, hb, Option.map_some, hgrp]
        split <;> simp [hhist, seen_hist]
  · intro j cj hj
    rw [hcs j] at hj
    rw [hsup]
    cases hb : f.cs[j]? with
    | none => rw [hb] at hj; simp at hj
    | some bj =>
      rw [hb] at hj
      simp only [Option.map_some, Option.some.injEq] at hj
      subst hj
      have hw := h3 j bj hb
      split
      · apply hwf
        by_cases hji : j = i
        · subst hji
          have : bj = c := by rw [hb] at hc; exact Option.some.inj hc
          subst this
          exact wf_seen hw (Or.inl ha)
        · exact wf_seen hw (Or.inr hji)
      · exact hw

end GoaktVerif.C07

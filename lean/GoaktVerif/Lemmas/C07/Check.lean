/-
C07 helper lemmas, part 3: the oracle's per-child check accepts what each model primitive does.
-/
import GoaktVerif.Lemmas.C07.Child

namespace GoaktVerif.C07
open GoaktVerif.Model.C07 GoaktVerif.Spec.C07

macro "child_cases" c:ident : tactic =>
  `(tactic| (obtain ⟨reg, running, susp, pre, post, handled, rc, cf, last, hist⟩ := $c
             cases reg <;> cases running <;> cases susp <;>
               simp_all [checkChild, visible, Child.obs, Child.alive, suspend, shutdown, restartOne, recordFault,
                 doReinstate, suspendSibling]))

/-- a child outside the group, untouched -/
theorem check_same (v : Variant) (e : Expect) (fa : Bool) (c : Child) :
    checkChild v e fa false c.obs c.obs = true := by
  simp [checkChild]

/-- the same child, in the group, when the text says nothing visible changes -/
theorem check_unchanged (v : Variant) (e : Expect) (fa g : Bool) (c : Child)
    (he : e = .dead ∨ e = .ignored ∨ e = .resume) : checkChild v e fa g c.obs c.obs = true := by
  rcases he with rfl | rfl | rfl <;> cases g <;> simp [checkChild]

/-- the faulty child ends suspended (no directive / escalate / directive outside the enum) -/
theorem check_suspended (v : Variant) (e : Expect) (c : Child) (ha : c.alive = true)
    (he : e = .suspendOnly ∨ e = .escalate ∨ e = .invalid) :
    checkChild v e true true c.obs (suspend c).obs = true
    ∧ checkChild v e true true c.obs (suspend (suspend c)).obs = true := by
  rcases he with rfl | rfl | rfl <;> child_cases c

/-- Stop, the faulty child: suspended by notifyParent, then shut down and deleted -/
theorem check_stop_faulty (v : Variant) (c : Child) (ha : c.alive = true) :
    checkChild v .stop true true c.obs ({ (shutdown (suspend c)).1 with reg := false } : Child).obs = true := by
  child_cases c

/-- Stop, a sibling in the group -/
theorem check_stop_sibling (v : Variant) (c : Child) (hw : c.susp = true → c.running = true) :
    checkChild v .stop false true c.obs ({ (shutdown c).1 with reg := false } : Child).obs = true := by
  child_cases c

/-- Restart, the faulty child (the code's restart count: previous + 1) -/
theorem check_restart_faulty (v : Variant) (w now : Int) (c : Child) (ha : c.alive = true) :
    checkChild v .restart true true c.obs (restartOne (recordFault w now (suspend c))).1.obs = true := by
  cases v <;> child_cases c

/-- Restart, a sibling in the group: PreStart again, fresh state, restart count + 1 (also when it was running) -/
theorem check_restart_sibling (v : Variant) (w now : Int) (c : Child) :
    checkChild v .restart false true c.obs (restartOne (recordFault w now c)).1.obs = true := by
  cases v <;> child_cases c

/-- budget exhausted, the faulty child stays suspended -/
theorem check_exhausted_faulty (v : Variant) (w now : Int) (i : Nat) (c : Child) (ha : c.alive = true) :
    checkChild v .exhausted true true c.obs (suspendSibling i i (recordFault w now (suspend c))).obs = true := by
  child_cases c

/-- budget exhausted, a sibling in the group is suspended when it was running -/
theorem check_exhausted_sibling (v : Variant) (w now : Int) (i j : Nat) (hij : j ≠ i) (c : Child) :
    checkChild v .exhausted false true c.obs (suspendSibling i j (recordFault w now c)).obs = true := by
  have : (j != i) = true := by simp [hij]
  child_cases c

/-- ping on a running child -/
theorem visible_ping (c : Child) :
    visible ({ c with handled := c.handled + 1 } : Child).obs = { visible c.obs with handled := c.obs.handled + 1 } := by
  child_cases c

theorem visible_reinstate (c : Child) (hs : c.susp = true) (hw : c.susp = true → c.running = true) :
    visible (doReinstate c).1.obs = { visible c.obs with susp := false, alive := true } := by
  child_cases c

theorem visible_age (c : Child) (l : Int) (h : List Int) :
    visible ({ c with last := l, hist := h } : Child).obs = visible c.obs := by
  child_cases c

end GoaktVerif.C07

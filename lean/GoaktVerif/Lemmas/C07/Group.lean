/-
C07 helper lemmas, part 5: what the group operations of handlePanicking do, index by index.
-/
import GoaktVerif.Lemmas.C07.Family

namespace GoaktVerif.C07
open GoaktVerif.Model.C07 GoaktVerif.Spec.C07

/-- the child as `handlePanicking` finds it: the faulty one has been suspended by `notifyParent` -/
def seen (i j : Nat) (c : Child) : Child := if j = i then suspend c else c

theorem seen_reg (i j : Nat) (c : Child) : (seen i j c).reg = c.reg := by
  unfold seen suspend; split <;> rfl

theorem seen_hist (i j : Nat) (c : Child) : (seen i j c).hist = c.hist := by
  unfold seen suspend; split <;> rfl

/-- the family after `notifyParent` suspended child `i` -/
def suspended (f : Family) (i : Nat) : Family := setChild f i (suspend (f.cs.getD i Child.fresh))

theorem suspended_getElem? (f : Family) (i j : Nat) :
    (suspended f i).cs[j]? = (f.cs[j]?).map (seen i j) := by
  unfold suspended
  rw [setChild_getElem?]
  by_cases h : i = j
  · subst h
    cases hc : f.cs[i]? with
    | none => simp
    | some c => simp [seen, hc]
  · have h' : ¬ j = i := fun e => h e.symm
    cases hc : f.cs[j]? <;> simp [h, h', seen]

theorem inGroup_suspended (f : Family) (all : Bool) (i j : Nat) :
    inGroup (suspended f i) all i j = inGroup f all i j := by
  apply inGroup_congr
  intro k
  rw [suspended_getElem?]
  cases f.cs[k]? <;> simp [seen_reg]

theorem inGroup_self (f : Family) (all : Bool) (i : Nat) : inGroup f all i i = true := by
  simp [inGroup]

/-- one group pass over the family that handlePanicking sees -/
theorem mapGroup_suspended (f : Family) (all : Bool) (i : Nat) (g : Nat → Child → Child) (j : Nat) :
    (mapGroup (suspended f i) all i g)[j]? =
      (f.cs[j]?).map (fun c => if inGroup f all i j then g j (seen i j c) else c) := by
  rw [mapGroup_getElem?, suspended_getElem?, inGroup_suspended]
  cases hc : f.cs[j]? with
  | none => rfl
  | some c =>
    simp only [Option.map_some]
    by_cases hg : inGroup f all i j = true
    · simp [hg]
    · have hji : ¬ j = i := by
        intro e; subst e; exact hg (inGroup_self f all j)
      simp [hg, seen, hji]

/-- two passes, the first of which keeps the `reg` flags -/
theorem mapGroup_twice (f : Family) (all : Bool) (i : Nat) (g1 g2 : Nat → Child → Child)
    (hreg : ∀ j c, (g1 j c).reg = c.reg) (j : Nat) :
    (mapGroup { f with cs := mapGroup f all i g1 } all i g2)[j]? =
      (f.cs[j]?).map (fun c => if inGroup f all i j then g2 j (g1 j c) else c) := by
  have hin : ∀ j, inGroup { f with cs := mapGroup f all i g1 } all i j = inGroup f all i j := by
    intro j
    apply inGroup_congr
    intro k
    simp only [mapGroup_getElem?]
    cases f.cs[k]? with
    | none => rfl
    | some c => simp only [Option.map_some]; split <;> simp [hreg]
  rw [mapGroup_getElem?, hin]
  simp only [mapGroup_getElem?]
  cases f.cs[j]? with
  | none => rfl
  | some c =>
    simp only [Option.map_some]
    split <;> rfl

theorem recordFault_reg (w now : Int) (c : Child) : (recordFault w now c).reg = c.reg := rfl
theorem recordFault_hist (w now : Int) (c : Child) : (recordFault w now c).hist = now :: c.hist := rfl
theorem recordFault_alive (w now : Int) (c : Child) : (recordFault w now c).alive = c.alive := rfl
theorem restartOne_hist (c : Child) : (restartOne c).1.hist = c.hist := by
  rw [restartOne_fst]; unfold shutdown; split <;> (try split) <;> rfl
theorem suspendSibling_hist (i j : Nat) (c : Child) : (suspendSibling i j c).hist = c.hist := by
  unfold suspendSibling suspend; split <;> rfl
theorem stop_hist (c : Child) : ({ (shutdown c).1 with reg := false } : Child).hist = c.hist := by
  unfold shutdown; split <;> rfl

end GoaktVerif.C07

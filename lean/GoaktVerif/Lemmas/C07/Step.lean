/-
C07 helper lemmas, part 7: one op of the model satisfies the oracle (code variant) and keeps the invariant.
-/
import GoaktVerif.Lemmas.C07.Branches

namespace GoaktVerif.C07
open GoaktVerif.Model.C07 GoaktVerif.Spec.C07

theorem obs_alive (f : Family) (i : Nat) (c : Child) (hc : f.cs[i]? = some c) :
    ((f.obs.cs[i]?).map (·.alive)).getD false = c.alive := by
  simp [Family.obs, List.getElem?_map, hc, Child.obs]

theorem step_fail_dead (f : Family) (i : Nat) (k : Kind) (c : Child) (hc : f.cs[i]? = some c) (ha : c.alive = false) :
    step f (.fail i k) = (tickF f, .dead, []) := by
  have : f.cs.getD i Child.fresh = c := getD_fresh hc
  simp only [step]
  rw [show ({ f with now := f.now + tick } : Family) = tickF f from rfl, this, ha]
  simp

theorem step_fail_alive (f : Family) (i : Nat) (k : Kind) (c : Child) (hc : f.cs[i]? = some c) (ha : c.alive = true) :
    step f (.fail i k) = ((notifyParent (tickF f) i k.ty).1, .ok, (notifyParent (tickF f) i k.ty).2) := by
  have : f.cs.getD i Child.fresh = c := getD_fresh hc
  simp only [step]
  rw [show ({ f with now := f.now + tick } : Family) = tickF f from rfl, this, ha]
  simp

theorem sup_suspended (g : Family) (i : Nat) : (suspended g i).sup = g.sup := rfl
theorem now_suspended (g : Family) (i : Nat) : (suspended g i).now = g.now := rfl
theorem pSig_suspended (g : Family) (i : Nat) : (suspended g i).pSig = g.pSig := rfl
theorem gSig_suspended (g : Family) (i : Nat) : (suspended g i).gSig = g.gSig := rfl
theorem len_suspended (g : Family) (i : Nat) : (suspended g i).cs.length = g.cs.length := by
  simp [suspended, setChild]

/-- shape of `notifyParent` once a directive `d ≠ Resume` was found -/
theorem notify_some (g : Family) (i : Nat) (ty : ErrType) (d : Directive)
    (hl : lookup g.sup ty = some d) (hd : d ≠ dResume) :
    (notifyParent g i (some ty)).1 = (handlePanicking (suspended g i) i d).1 := by
  simp only [notifyParent, hl, hd, if_false]
  rfl

theorem notify_none (g : Family) (i : Nat) (ty : ErrType) (hl : lookup g.sup ty = none) :
    (notifyParent g i (some ty)).1 = suspended g i := by
  simp only [notifyParent, hl]
  rfl

theorem notify_resume (g : Family) (i : Nat) (ty : ErrType) (c : Child) (hc : g.cs[i]? = some c) (ha : c.alive = true)
    (hl : lookup g.sup ty = some dResume) :
    (notifyParent g i (some ty)).1 = g := by
  have hs : c.susp = false := by
    simp [Child.alive] at ha; exact ha.2
  simp only [notifyParent, hl, if_true, getD_fresh hc, hs]
  rfl

/-- what the oracle has to accept for one failure: the check (code variant) and the invariant -/
def Good (opts : List Opt) (g g' : Family) (i : Nat) (e : Expect × Hists) : Prop :=
  check .code (newSupervisor opts).strategy e.1 i g.obs g'.obs = true ∧ e.1 ≠ .dead ∧ Inv opts g' e.2

theorem good_stop {opts g h i c} (hinv : Inv opts g h) (hc : g.cs[i]? = some c) (ha : c.alive = true) :
    Good opts g (handlePanicking (suspended g i) i dStop).1 i (.stop, h) := by
  have hsup := hinv.sup
  have hshape : (handlePanicking (suspended g i) i dStop).1 =
      { suspended g i with cs := mapGroup (suspended g i) (g.sup.strategy == .oneForAll) i (fun _ c => stopOne c) } := by
    simp [handlePanicking, handleStopDirective, sup_suspended]
  rw [hshape]
  have hcs := mapGroup_suspended g (g.sup.strategy == .oneForAll) i (fun _ c => stopOne c)
  refine ⟨?_, by simp, ?_⟩
  · unfold check
    rw [Bool.and_eq_true]
    constructor
    · rw [← hsup]
      apply branch_group .code .stop i g _ c _ hc (Or.inl rfl)
      · simp [mapGroup_length, len_suspended]
      · exact hcs
      · exact check_stop_faulty .code c ha
      · intro j bj _ hb
        exact check_stop_sibling .code bj (hinv.wf j bj hb).run_of_susp
    · apply sig_same <;> first | rfl | simp
  · have := inv_group (f' := { suspended g i with cs := mapGroup (suspended g i) (g.sup.strategy == .oneForAll) i (fun _ c => stopOne c) })
      i c (fun _ c => stopOne c) false hinv hc ha rfl rfl hcs (fun _ _ hw => wf_stop hw) (fun _ c => by simp [stopOne, stop_hist])
    simpa using this

theorem good_escalate {opts g h i c} (hinv : Inv opts g h) (hc : g.cs[i]? = some c) (ha : c.alive = true) :
    Good opts g (handlePanicking (suspended g i) i dEscalate).1 i (.escalate, h) := by
  have hshape : (handlePanicking (suspended g i) i dEscalate).1 =
      { suspended g i with pSig := (suspended g i).pSig ++ [i] } := by
    simp [handlePanicking, dEscalate, dStop, dRestart, dResume]
  rw [hshape]
  refine ⟨?_, by simp, ?_⟩
  · unfold check
    rw [Bool.and_eq_true]
    constructor
    · exact branch_suspended .code _ .escalate i g _ c hc ha (Or.inr (Or.inl rfl)) (Or.inl rfl)
    · simp [checkSignals, Family.obs, pSig_suspended, gSig_suspended]
  · obtain ⟨h1, h2, h3, h4⟩ := inv_suspended hinv hc ha
    exact ⟨h1, h2, h3, h4⟩

theorem good_invalid {opts g h i c} (d : Directive) (hinv : Inv opts g h) (hc : g.cs[i]? = some c) (ha : c.alive = true)
    (h0 : d ≠ dStop) (h1 : d ≠ dResume) (h2 : d ≠ dRestart) (h3 : d ≠ dEscalate) :
    Good opts g (handlePanicking (suspended g i) i d).1 i (.invalid, h) := by
  have hshape : (handlePanicking (suspended g i) i d).1 = suspended (suspended g i) i := by
    simp [handlePanicking, h0, h1, h2, h3, suspended]
  rw [hshape]
  have hc' : (suspended g i).cs[i]? = some (suspend c) := by
    rw [suspended_getElem?, hc]; simp [seen]
  refine ⟨?_, by simp, ?_⟩
  · unfold check
    rw [Bool.and_eq_true]
    constructor
    · exact branch_suspended .code _ .invalid i g _ c hc ha (Or.inr (Or.inr rfl)) (Or.inr rfl)
    · apply sig_same <;> first | rfl | simp
  · have hi1 := inv_suspended hinv hc ha
    obtain ⟨a1, a2, a3, a4⟩ := hi1
    refine ⟨a1, ?_, ?_, a4⟩
    · rw [a2]
      apply List.ext_getElem?
      intro j
      simp only [List.getElem?_map, suspended_getElem? (suspended g i)]
      cases (suspended g i).cs[j]? <;> simp [seen_hist]
    · intro j cj hj
      rw [suspended_getElem? (suspended g i)] at hj
      cases hb : (suspended g i).cs[j]? with
      | none => rw [hb] at hj; simp at hj
      | some bj =>
        rw [hb] at hj
        simp only [Option.map_some, Option.some.injEq] at hj
        subst hj
        have hw := a3 j bj hb
        show ChildWF (window g.sup) (seen i j bj)
        unfold seen
        split
        · next hji =>
          subst hji
          have : bj = suspend c := by rw [hb] at hc'; exact Option.some.inj hc'
          subst this
          apply wf_suspend hw
          simp [Child.alive] at ha
          simp [suspend, ha.1]
        · exact hw

theorem wf_suspendSibling {w : Int} (i j : Nat) {c : Child} (h : ChildWF w c) : ChildWF w (suspendSibling i j c) := by
  unfold suspendSibling
  split
  · next hc =>
    apply wf_suspend h
    simp [Child.alive] at hc
    exact hc.2.1
  · exact h

/-- two passes over the family handlePanicking sees (the first one records the fault) -/
theorem mapGroup_twice_suspended (g : Family) (all : Bool) (i : Nat) (g1 g2 : Nat → Child → Child)
    (hreg : ∀ j c, (g1 j c).reg = c.reg) (j : Nat) :
    (mapGroup { suspended g i with cs := mapGroup (suspended g i) all i g1 } all i g2)[j]? =
      (g.cs[j]?).map (fun c => if inGroup g all i j then g2 j (g1 j (seen i j c)) else c) := by
  rw [mapGroup_twice (suspended g i) all i g1 g2 hreg j, suspended_getElem?, inGroup_suspended]
  cases hc : g.cs[j]? with
  | none => rfl
  | some c =>
    simp only [Option.map_some]
    by_cases hg : inGroup g all i j = true
    · simp [hg]
    · have hji : ¬ j = i := by
        intro e; subst e; exact hg (inGroup_self g all j)
      simp [hg, seen, hji]

theorem faults_eq {opts g h i c} (hinv : Inv opts g h) (hc : g.cs[i]? = some c) (ha : c.alive = true) (all : Bool) :
    (({ suspended g i with cs := mapGroup (suspended g i) all i (fun _ c => recordFault (window g.sup) g.now c) } : Family).cs.getD i
        Child.fresh).cf = specCount (window g.sup) (g.now :: c.hist) := by
  have h1 := mapGroup_suspended g all i (fun _ c => recordFault (window g.sup) g.now c) i
  rw [hc] at h1
  simp only [Option.map_some, inGroup_self, if_true, seen] at h1
  rw [getD_fresh h1]
  have hw : ChildWF (window g.sup) (suspend c) := by
    apply wf_suspend (hinv.wf i c hc)
    simp [Child.alive] at ha; exact ha.1
  rw [recordFault_cf g.now hw]
  rfl

theorem hists_getD {opts g h i c} (hinv : Inv opts g h) (hc : g.cs[i]? = some c) (st : Strategy) (now : Int) :
    (recordHists st g.obs i now h).getD i [] = now :: c.hist := by
  rw [hinv.hists]
  simp [recordHists, List.getD_eq_getElem?_getD, List.getElem?_mapIdx, List.getElem?_map, hc, group]

/-- within the invariant no PreStart is scripted to fail -/
theorem all_nofail {opts : List Opt} {f : Family} {h : Hists} (hinv : Inv opts f h) :
    f.cs.all (fun c => c.failNext == 0) = true := by
  rw [List.all_eq_true]
  intro c hc
  obtain ⟨j, hj, rfl⟩ := List.getElem_of_mem hc
  simp [(hinv.wf j _ (List.getElem?_eq_getElem hj)).nofail]

/-- the expectation of the text for a Restart directive -/
def restartExpect (opts : List Opt) (g : Family) (h : Hists) (i : Nat) : Expect × Hists :=
  if exhausted (newSupervisor opts) ((recordHists (newSupervisor opts).strategy g.obs i g.now h).getD i []) then
    (.exhausted, recordHists (newSupervisor opts).strategy g.obs i g.now h)
  else (.restart, recordHists (newSupervisor opts).strategy g.obs i g.now h)

theorem good_restart {opts g h i c} (hinv : Inv opts g h) (hc : g.cs[i]? = some c) (ha : c.alive = true) :
    Good opts g (handlePanicking (suspended g i) i dRestart).1 i (restartExpect opts g h i) := by
  have hsup := hinv.sup
  let all := g.sup.strategy == Strategy.oneForAll
  let f1 : Family := { suspended g i with cs := mapGroup (suspended g i) all i (fun _ c => recordFault (window g.sup) g.now c) }
  have hfaults := faults_eq hinv hc ha all
  have hdec : budgetExhausted g.sup ((f1.cs.getD i Child.fresh).cf)
      = exhausted (newSupervisor opts) ((recordHists (newSupervisor opts).strategy g.obs i g.now h).getD i []) := by
    rw [hists_getD hinv hc, ← hsup]
    simp only [budgetExhausted, exhausted, f1, hfaults]
  have hshape : (handlePanicking (suspended g i) i dRestart).1 =
      if budgetExhausted g.sup ((f1.cs.getD i Child.fresh).cf) then
        { f1 with cs := mapGroup f1 all i (suspendSibling i) }
      else { f1 with cs := mapGroup f1 all i (fun _ c => (restartOne c).1) } := by
    simp only [handlePanicking, handleRestartDirective, dRestart, dStop, sup_suspended, now_suspended]
    simp only [show (2 : Nat) = 0 ↔ False from by decide, if_false, if_true, all_nofail (inv_suspended hinv hc ha)]
    have key : ∀ (b : Bool) (x y : Family × List Event), (if b = true then x else y).1 = if b = true then x.1 else y.1 := by
      intro b x y; cases b <;> rfl
    exact key _ _ _
  rw [hshape, hdec]
  unfold restartExpect
  have hrecreg : ∀ (j : Nat) (c : Child), ((fun (_ : Nat) c => recordFault (window g.sup) g.now c) j c).reg = c.reg := fun _ _ => rfl
  split
  · -- budget exhausted
    have hcs := mapGroup_twice_suspended g all i (fun _ c => recordFault (window g.sup) g.now c) (suspendSibling i) hrecreg
    refine ⟨?_, by simp, ?_⟩
    · unfold check
      rw [Bool.and_eq_true]
      constructor
      · rw [← hsup]
        apply branch_group .code .exhausted i g _ c (fun j c => suspendSibling i j (recordFault (window g.sup) g.now c)) hc
          (Or.inr (Or.inr rfl))
        · simp [f1, mapGroup_length, len_suspended]
        · exact hcs
        · exact check_exhausted_faulty .code _ _ i c ha
        · intro j bj hji _
          exact check_exhausted_sibling .code _ _ i j hji bj
      · apply sig_same <;> first | rfl | simp
    · have := inv_group (f' := { f1 with cs := mapGroup f1 all i (suspendSibling i) }) i c
        (fun j c => suspendSibling i j (recordFault (window g.sup) g.now c)) true hinv hc ha rfl rfl hcs
        (fun j _ hw => wf_suspendSibling i j (wf_recordFault g.now hinv.now_pos hw))
        (fun j c => by simp [suspendSibling_hist, recordFault_hist])
      simpa [hsup] using this
  · -- restart
    have hcs := mapGroup_twice_suspended g all i (fun _ c => recordFault (window g.sup) g.now c) (fun _ c => (restartOne c).1) hrecreg
    refine ⟨?_, by simp, ?_⟩
    · unfold check
      rw [Bool.and_eq_true]
      constructor
      · rw [← hsup]
        apply branch_group .code .restart i g _ c (fun _ c => (restartOne (recordFault (window g.sup) g.now c)).1) hc
          (Or.inr (Or.inl rfl))
        · simp [f1, mapGroup_length, len_suspended]
        · exact hcs
        · exact check_restart_faulty .code _ _ c ha
        · intro j bj _ _
          exact check_restart_sibling .code _ _ bj
      · apply sig_same <;> first | rfl | simp
    · have := inv_group (f' := { f1 with cs := mapGroup f1 all i (fun _ c => (restartOne c).1) }) i c
        (fun _ c => (restartOne (recordFault (window g.sup) g.now c)).1) true hinv hc ha rfl rfl hcs
        (fun _ _ hw => wf_restartOne (wf_recordFault g.now hinv.now_pos hw))
        (fun j c => by simp [restartOne_hist, recordFault_hist])
      simpa [hsup] using this

theorem good_suspendOnly {opts g h i c} (hinv : Inv opts g h) (hc : g.cs[i]? = some c) (ha : c.alive = true) :
    Good opts g (suspended g i) i (.suspendOnly, h) := by
  refine ⟨?_, by simp, inv_suspended hinv hc ha⟩
  unfold check
  rw [Bool.and_eq_true]
  constructor
  · exact branch_suspended .code _ .suspendOnly i g _ c hc ha (Or.inl rfl) (Or.inl rfl)
  · apply sig_same <;> first | rfl | simp

theorem good_unchanged {opts g h i} (e : Expect) (hinv : Inv opts g h) (he : e = .ignored ∨ e = .resume) :
    Good opts g g i (e, h) := by
  refine ⟨?_, by rcases he with rfl | rfl <;> simp, hinv⟩
  apply branch_unchanged
  rcases he with rfl | rfl <;> simp

/-- a failure of a running child: the model's `notifyParent` does what the text's `expect` prescribes
    (in the code variant of the two deviating clauses) -/
theorem notify_refines {opts g h i c} (k : Kind) (hinv : Inv opts g h) (hc : g.cs[i]? = some c) (ha : c.alive = true) :
    Good opts g (notifyParent g i k.ty).1 i (expect opts h g.now g.obs i k) := by
  have halive := obs_alive g i c hc
  unfold expect
  simp only [halive, ha, Bool.not_true, Bool.false_eq_true, if_false]
  cases hk : k.ty with
  | none =>
    simp only [notifyParent]
    exact good_unchanged .ignored hinv (Or.inl rfl)
  | some ty =>
    have hl : lookup g.sup ty = specDirective opts ty := by rw [hinv.sup]; exact lookup_eq_spec opts ty
    simp only
    cases hd : specDirective opts ty with
    | none =>
      rw [hd] at hl
      rw [notify_none g i ty hl]
      exact good_suspendOnly hinv hc ha
    | some d =>
      rw [hd] at hl
      simp only
      by_cases h0 : d = dStop
      · subst h0
        rw [notify_some g i ty dStop hl (by decide)]
        simp only [if_true]
        exact good_stop hinv hc ha
      · by_cases h1 : d = dResume
        · subst h1
          rw [notify_resume g i ty c hc ha hl]
          simp only [h0, if_false, if_true]
          exact good_unchanged .resume hinv (Or.inr rfl)
        · rw [notify_some g i ty d hl h1]
          by_cases h3 : d = dEscalate
          · subst h3
            simp only [h0, h1, if_false, if_true]
            exact good_escalate hinv hc ha
          · by_cases h2 : d = dRestart
            · subst h2
              simp only [h0, h1, h3, if_false, if_true]
              exact good_restart hinv hc ha
            · simp only [h0, h1, h2, h3, if_false]
              exact good_invalid d hinv hc ha h0 h1 h2 h3

end GoaktVerif.C07

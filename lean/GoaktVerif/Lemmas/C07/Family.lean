/-
C07 helper lemmas, part 4: list-level plumbing (groups, per-index views, the invariant).
-/
import GoaktVerif.Lemmas.C07.Check
import GoaktVerif.Lemmas.C07.Lookup

namespace GoaktVerif.C07
open GoaktVerif.Model.C07 GoaktVerif.Spec.C07

/-- invariant tying the model state to the oracle's own state -/
structure Inv (opts : List Opt) (f : Family) (h : Hists) : Prop where
  sup : f.sup = newSupervisor opts
  hists : h = f.cs.map (·.hist)
  wf : ∀ (j : Nat) (c : Child), f.cs[j]? = some c → ChildWF (window f.sup) c
  now_pos : 0 < f.now

theorem getD_fresh {l : List Child} {i : Nat} {c : Child} (h : l[i]? = some c) : l.getD i Child.fresh = c := by
  simp [List.getD_eq_getElem?_getD, h]

theorem mapGroup_length (f : Family) (all : Bool) (i : Nat) (g : Nat → Child → Child) :
    (mapGroup f all i g).length = f.cs.length := by
  simp [mapGroup]

theorem mapGroup_getElem? (f : Family) (all : Bool) (i : Nat) (g : Nat → Child → Child) (j : Nat) :
    (mapGroup f all i g)[j]? = (f.cs[j]?).map (fun c => if inGroup f all i j then g j c else c) := by
  simp [mapGroup, List.getElem?_mapIdx]

theorem setChild_getElem? (f : Family) (i : Nat) (c : Child) (j : Nat) :
    (setChild f i c).cs[j]? = if i = j then (f.cs[j]?).map (fun _ => c) else f.cs[j]? := by
  simp only [setChild, List.getElem?_set]
  split
  · next h =>
    subst h
    by_cases hlt : i < f.cs.length
    · simp [hlt]
    · have : f.cs[i]? = none := by simp; omega
      simp [hlt, this]
  · rfl

/-- the group depends only on the `reg` flags -/
theorem inGroup_congr (f f' : Family) (all : Bool) (i j : Nat)
    (h : ∀ k : Nat, (f'.cs[k]?).map Child.reg = (f.cs[k]?).map Child.reg) :
    inGroup f' all i j = inGroup f all i j := by
  have key : ∀ k : Nat, (f'.cs[k]?.getD Child.fresh).reg = (f.cs[k]?.getD Child.fresh).reg := by
    intro k
    have hk := h k
    cases h1 : f'.cs[k]? <;> cases h2 : f.cs[k]? <;> simp_all
  simp [inGroup, key]

theorem group_eq_inGroup (f : Family) (i j : Nat) (ci cj : Child) (hi : f.cs[i]? = some ci) (hj : f.cs[j]? = some cj) :
    group f.sup.strategy f.obs i j = inGroup f (f.sup.strategy == .oneForAll) i j := by
  simp [group, inGroup, Family.obs, List.getElem?_map, hi, hj, Child.obs]

theorem obs_cs (f : Family) : f.obs.cs = f.cs.map Child.obs := rfl

/-- how an index-wise check is established -/
theorem allIdx_of (b a : Family) (P : Nat → CObs → CObs → Bool) (hlen : a.cs.length = b.cs.length)
    (H : ∀ (j : Nat) (bj : Child), b.cs[j]? = some bj → ∃ aj, a.cs[j]? = some aj ∧ P j bj.obs aj.obs = true) :
    allIdx b.obs.cs a.obs.cs P = true := by
  unfold allIdx
  simp only [obs_cs, List.length_map, hlen, beq_self_eq_true, Bool.true_and, List.all_eq_true, List.mem_range]
  intro j hj
  have hb : b.cs[j]? = some b.cs[j] := by simp [hj]
  obtain ⟨aj, ha, hc⟩ := H j _ hb
  simp only [List.getElem?_map, hb, ha, Option.map_some]
  exact hc

theorem checkChildren_of (v : Variant) (st : Strategy) (e : Expect) (i : Nat) (b a : Family)
    (hlen : a.cs.length = b.cs.length)
    (H : ∀ j bj, b.cs[j]? = some bj → ∃ aj, a.cs[j]? = some aj ∧
      checkChild v e (j == i) (groupFor e st b.obs i j) bj.obs aj.obs = true) :
    checkChildren v st e i b.obs a.obs = true :=
  allIdx_of b a _ hlen H

end GoaktVerif.C07

/-
C07 helper lemmas, part 8: the remaining ops (ping, reinstate, age), one step, whole runs.
-/
import GoaktVerif.Lemmas.C07.Step

namespace GoaktVerif.C07
open GoaktVerif.Model.C07 GoaktVerif.Spec.C07

theorem setChild_same (f : Family) (i : Nat) (c c' : Child) (_hc : f.cs[i]? = some c) (j : Nat) (bj : Child)
    (hb : f.cs[j]? = some bj) : (setChild f i c').cs[j]? = some (if j = i then c' else bj) := by
  rw [setChild_getElem?, hb]
  by_cases h : i = j
  · subst h; simp
  · have : ¬ j = i := fun e => h e.symm
    simp [h, this]

theorem inv_setChild {opts f h i c c'} (hinv : Inv opts f h) (hc : f.cs[i]? = some c)
    (hw : ChildWF (window f.sup) c') (hh : c'.hist = c.hist) : Inv opts (setChild f i c') h := by
  obtain ⟨h1, h2, h3, h4⟩ := hinv
  refine ⟨h1, ?_, ?_, h4⟩
  · rw [h2]
    apply List.ext_getElem?
    intro j
    simp only [List.getElem?_map]
    cases hb : f.cs[j]? with
    | none =>
      have : (setChild f i c').cs[j]? = none := by
        simp [setChild_getElem?, hb]
      rw [this]
    | some bj =>
      rw [setChild_same f i c c' hc j bj hb]
      by_cases hji : j = i
      · subst hji
        have : bj = c := by rw [hb] at hc; exact Option.some.inj hc
        subst this
        simp [hh]
      · simp [hji]
  · intro j cj hj
    cases hb : f.cs[j]? with
    | none =>
      have : (setChild f i c').cs[j]? = none := by
        simp [setChild_getElem?, hb]
      rw [this] at hj; simp at hj
    | some bj =>
      rw [setChild_same f i c c' hc j bj hb] at hj
      simp only [Option.some.injEq] at hj
      subst hj
      show ChildWF (window f.sup) _
      split
      · exact hw
      · exact h3 j bj hb

theorem len_setChild (f : Family) (i : Nat) (c : Child) : (setChild f i c).cs.length = f.cs.length := by
  simp [setChild]

/-- ping -/
theorem ping_refines (opts : List Opt) (f : Family) (h : Hists) (i : Nat) (hinv : Inv opts f h) (c : Child)
    (hc : f.cs[i]? = some c) :
    checkPing i f.obs (step f (.ping i)).1.obs (step f (.ping i)).2.1 = true ∧ Inv opts (step f (.ping i)).1 h := by
  have hgd : f.cs.getD i Child.fresh = c := getD_fresh hc
  have hstep : step f (.ping i) =
      if !c.alive then (tickF f, .dead, []) else (setChild (tickF f) i { c with handled := c.handled + 1 }, .ok, []) := by
    simp only [step]
    rw [show ({ f with now := f.now + tick } : Family) = tickF f from rfl, hgd]
  rw [hstep]
  by_cases ha : c.alive = true
  · simp only [ha, Bool.not_true, Bool.false_eq_true, if_false]
    constructor
    · unfold checkPing
      simp only [show (setChild (tickF f) i { c with handled := c.handled + 1 }).obs.pSig = f.obs.pSig from rfl,
        show (setChild (tickF f) i { c with handled := c.handled + 1 }).obs.gSig = f.obs.gSig from rfl,
        beq_self_eq_true, Bool.true_and]
      apply allIdx_of f _ _ (len_setChild _ _ _)
      intro j bj hb
      refine ⟨_, setChild_same (tickF f) i c _ hc j bj hb, ?_⟩
      by_cases hji : j = i
      · subst hji
        have : bj = c := by rw [hb] at hc; exact Option.some.inj hc
        subst this
        have hoa : bj.obs.alive = true := by simpa [Child.obs] using ha
        simp only [beq_self_eq_true, hoa, Bool.and_self, if_true]
        rw [visible_ping]
        simp
      · simp [hji]
    · exact inv_setChild (inv_tick hinv) hc (wf_handled (hinv.wf i c hc) _) rfl
  · have ha' : c.alive = false := by simpa using ha
    simp only [ha', Bool.not_false, if_true]
    constructor
    · unfold checkPing
      simp only [tick_obs, beq_self_eq_true, Bool.true_and]
      apply allIdx_of f f _ rfl
      intro j bj hb
      refine ⟨bj, hb, ?_⟩
      by_cases hji : j = i
      · subst hji
        have : bj = c := by rw [hb] at hc; exact Option.some.inj hc
        subst this
        have hoa : bj.obs.alive = false := by simpa [Child.obs] using ha'
        simp [hoa]
      · simp [hji]
    · exact inv_tick hinv

/-- reinstate -/
theorem reinstate_refines (opts : List Opt) (f : Family) (h : Hists) (i : Nat) (hinv : Inv opts f h) (c : Child)
    (hc : f.cs[i]? = some c) :
    checkReinstate i f.obs (step f (.reinstate i)).1.obs (step f (.reinstate i)).2.1 = true
    ∧ Inv opts (step f (.reinstate i)).1 h := by
  have hgd : f.cs.getD i Child.fresh = c := getD_fresh hc
  have hw := hinv.wf i c hc
  have hstep : step f (.reinstate i) =
      if !c.reg then (tickF f, .err, [])
      else if !c.susp || c.alive then (tickF f, .ok, [])
      else (setChild (tickF f) i (doReinstate c).1, .ok, evIf (doReinstate c).2 .ri i) := by
    simp only [step]
    rw [show ({ f with now := f.now + tick } : Family) = tickF f from rfl, hgd]
  rw [hstep]
  by_cases hr : c.reg = true
  · by_cases hs : c.susp = true
    · have hna : c.alive = false := by simp [Child.alive, hs]
      simp only [hr, hs, hna, Bool.not_true, Bool.or_self, Bool.false_eq_true, if_false]
      constructor
      · unfold checkReinstate
        simp only [show (setChild (tickF f) i (doReinstate c).1).obs.pSig = f.obs.pSig from rfl,
          show (setChild (tickF f) i (doReinstate c).1).obs.gSig = f.obs.gSig from rfl, beq_self_eq_true, Bool.true_and]
        apply allIdx_of f _ _ (len_setChild _ _ _)
        intro j bj hb
        refine ⟨_, setChild_same (tickF f) i c _ hc j bj hb, ?_⟩
        by_cases hji : j = i
        · subst hji
          have : bj = c := by rw [hb] at hc; exact Option.some.inj hc
          subst this
          have h1 : bj.obs.reg = true := by simpa [Child.obs] using hr
          have h2 : bj.obs.susp = true := by simpa [Child.obs] using hs
          simp only [beq_self_eq_true, h1, h2, Bool.and_self, if_true]
          rw [visible_reinstate bj hs hw.run_of_susp]
          simp
        · simp [hji]
      · apply inv_setChild (inv_tick hinv) hc (wf_doReinstate hw)
        unfold doReinstate; split <;> rfl
    · have hs' : c.susp = false := by simpa using hs
      simp only [hr, hs', Bool.not_true, Bool.not_false, Bool.true_or, Bool.false_eq_true, if_false, if_true]
      constructor
      · unfold checkReinstate
        simp only [tick_obs, beq_self_eq_true, Bool.true_and]
        apply allIdx_of f f _ rfl
        intro j bj hb
        refine ⟨bj, hb, ?_⟩
        by_cases hji : j = i
        · subst hji
          have : bj = c := by rw [hb] at hc; exact Option.some.inj hc
          subst this
          have h1 : bj.obs.reg = true := by simpa [Child.obs] using hr
          have h2 : bj.obs.susp = false := by simpa [Child.obs] using hs'
          simp [h1, h2]
        · simp [hji]
      · exact inv_tick hinv
  · have hr' : c.reg = false := by simpa using hr
    simp only [hr', Bool.not_false, if_true]
    constructor
    · unfold checkReinstate
      simp only [tick_obs, beq_self_eq_true, Bool.true_and]
      apply allIdx_of f f _ rfl
      intro j bj hb
      refine ⟨bj, hb, ?_⟩
      by_cases hji : j = i
      · subst hji
        have : bj = c := by rw [hb] at hc; exact Option.some.inj hc
        subst this
        have h1 : bj.obs.reg = false := by simpa [Child.obs] using hr'
        simp [h1]
      · simp [hji]
    · exact inv_tick hinv

/-- age (a harness intervention: the stamp of the last fault is moved into the distant past) -/
theorem age_refines (opts : List Opt) (f : Family) (h : Hists) (i : Nat) (hinv : Inv opts f h) (c : Child)
    (hc : f.cs[i]? = some c) :
    checkAge f.obs (step f (.age i)).1.obs = true ∧ (step f (.age i)).2.1 = .ok
    ∧ Inv opts (step f (.age i)).1 (ageHists (window (newSupervisor opts)) i h) := by
  have hgd : f.cs.getD i Child.fresh = c := getD_fresh hc
  have hw := hinv.wf i c hc
  have hsup := hinv.sup
  have hstep : step f (.age i) =
      if c.last = 0 then (tickF f, .ok, [])
      else (setChild (tickF f) i { c with last := 1, hist := List.replicate c.cf 1 }, .ok, []) := by
    simp only [step]
    rw [show ({ f with now := f.now + tick } : Family) = tickF f from rfl, hgd]
  -- the oracle's history update, index by index
  have hage : ∀ (c' : Child), c'.hist = List.replicate c.cf 1 →
      ageHists (window (newSupervisor opts)) i h = (setChild f i c').cs.map (·.hist) := by
    intro c' hh
    rw [hinv.hists]
    apply List.ext_getElem?
    intro j
    simp only [ageHists, List.getElem?_mapIdx, List.getElem?_map]
    cases hb : f.cs[j]? with
    | none => simp [setChild_getElem?, hb]
    | some bj =>
      rw [setChild_same f i c c' hc j bj hb]
      by_cases hji : j = i
      · subst hji
        have : bj = c := by rw [hb] at hc; exact Option.some.inj hc
        subst this
        simp [hh, hw.cf_eq, hsup]
      · simp [hji]
  rw [hstep]
  by_cases hl : c.last = 0
  · simp only [hl, if_true]
    refine ⟨?_, by trivial, ?_⟩
    · unfold checkAge
      simp only [tick_obs, beq_self_eq_true, Bool.true_and]
      apply allIdx_of f f _ rfl
      intro j bj hb
      exact ⟨bj, hb, by simp⟩
    · have hnil : c.hist = [] := (last_zero_iff hw).mp hl
      have hcf : c.cf = 0 := by rw [hw.cf_eq, hnil]; rfl
      have := hage c (by rw [hnil, hcf]; rfl)
      obtain ⟨h1, h2, h3, h4⟩ := inv_tick hinv
      refine ⟨h1, ?_, h3, h4⟩
      rw [this]
      have hset : (setChild f i c).cs = f.cs := by
        obtain ⟨hlt, heq⟩ := List.getElem?_eq_some_iff.mp hc
        simp only [setChild]
        rw [← heq, List.set_getElem_self]
      rw [hset]; rfl
  · simp only [hl, if_false]
    refine ⟨?_, by trivial, ?_⟩
    · unfold checkAge
      simp only [show (setChild (tickF f) i { c with last := 1, hist := List.replicate c.cf 1 }).obs.pSig = f.obs.pSig from rfl,
        show (setChild (tickF f) i { c with last := 1, hist := List.replicate c.cf 1 }).obs.gSig = f.obs.gSig from rfl,
        beq_self_eq_true, Bool.true_and]
      apply allIdx_of f _ _ (len_setChild _ _ _)
      intro j bj hb
      refine ⟨_, setChild_same (tickF f) i c _ hc j bj hb, ?_⟩
      by_cases hji : j = i
      · subst hji
        have : bj = c := by rw [hb] at hc; exact Option.some.inj hc
        subst this
        simp only [if_true]
        rw [visible_age]; simp
      · simp [hji]
    · have := hage { c with last := 1, hist := List.replicate c.cf 1 } rfl
      obtain ⟨h1, _, h3, h4⟩ := inv_tick hinv
      refine ⟨h1, this, ?_, h4⟩
      intro j cj hj
      cases hb : f.cs[j]? with
      | none =>
        have : (setChild (tickF f) i { c with last := 1, hist := List.replicate c.cf 1 }).cs[j]? = none := by
          simp [setChild_getElem?, tickF, hb]
        rw [this] at hj; simp at hj
      | some bj =>
        rw [setChild_same (tickF f) i c _ hc j bj hb] at hj
        simp only [Option.some.injEq] at hj
        subst hj
        show ChildWF (window f.sup) _
        split
        · exact wf_age hw hl
        · exact h3 j bj hb

theorem handlePanicking_now (g : Family) (i : Nat) (d : Directive) : (handlePanicking g i d).1.now = g.now := by
  unfold handlePanicking handleStopDirective handleRestartDirective
  simp only
  repeat' split
  all_goals rfl

theorem notifyParent_now (g : Family) (i : Nat) (ty : Option ErrType) : (notifyParent g i ty).1.now = g.now := by
  unfold notifyParent
  cases ty with
  | none => rfl
  | some ty =>
    simp only
    cases lookup g.sup ty with
    | none => rfl
    | some d =>
      simp only
      by_cases hd : d = dResume
      · simp only [hd, if_true]
        cases (g.cs.getD i Child.fresh).susp <;> simp [setChild]
      · simp only [hd, if_false, handlePanicking_now]; rfl

theorem step_now (f : Family) (op : Op) : (step f op).1.now = f.now + tick := by
  cases op <;> simp only [step] <;> repeat' split
  all_goals first | rfl | (simp only [notifyParent_now])

end GoaktVerif.C07

/-
C30 — the inductive invariant of the grain activation protocol and its preservation.

Setting of the invariant: every node runs its grain operations sequentially (`Seq`: one logical
thread per node — the per-identity single flight for activations, and no deactivation concurrent with
them), and either the repaired `tryClaimGrain` (`fix = true`) or a step that does not take the
lost-claim branch (`lostClaim c tid = false`).
-/
import GoaktVerif.Model.C30

namespace GoaktVerif.C30
open GoaktVerif.Model.C30

/-- the step of `tid` would take the branch of `tryClaimGrain` that returns (false, nil, nil):
the NX put was refused and the re-read finds no record any more -/
def lostClaim (c : Cfg) (tid : Nat) : Bool :=
  match c.threads[tid]? with
  | some t =>
    match t.pc with
    | some (.claimGet _) => !t.pre && c.sh.reg.isNone
    | _ => false
  | none => false

/-- facts a thread of node `n` parked at `pc` relies on -/
def Loc (sh : Sh) (n : Node) : Option PC → Prop
  | none => True
  | some .opStart => True
  | some (.ownExists p) | some (.ownGet p) | some (.claimNx p) | some (.claimGet p) =>
    sh.tbl n = none ∧ p < sh.nprocs ∧ sh.procs p = ⟨n, false, false⟩
  | some (.activate p _) =>
    sh.tbl n = none ∧ p < sh.nprocs ∧ sh.procs p = ⟨n, false, false⟩ ∧ sh.reg = some n
  | some (.failDel _) => sh.tbl n = none ∧ sh.reg = some n
  | some (.finPut p) => sh.tbl n = some p
  | some (.rbHook p) | some (.dHook p) => sh.tbl n = some p
  | some (.rbDel p) | some (.dDel p) =>
    sh.tbl n = none ∧ sh.reg = some n ∧ p < sh.nprocs ∧ (sh.procs p).node = n ∧ (sh.procs p).hook = false

/-- facts about node `n`: its table entry is an active, activated process of that node and the
registry names `n`; every active instance of the node is the one in its table -/
def NodeInv (sh : Sh) (n : Node) : Prop :=
  (∀ p, sh.tbl n = some p → p < sh.nprocs ∧ sh.procs p = ⟨n, true, true⟩ ∧ sh.reg = some n) ∧
  (∀ q, q < sh.nprocs → (sh.procs q).node = n → (sh.procs q).hook = true → sh.tbl n = some q)

/-- one thread per node -/
def Seq (ts : List Thread) : Prop :=
  ∀ (i j : Nat) (ti tj : Thread), ts[i]? = some ti → ts[j]? = some tj → ti.node = tj.node → i = j

structure Inv (c : Cfg) : Prop where
  node : ∀ n, NodeInv c.sh n
  loc : ∀ (tid : Nat) (t : Thread), c.threads[tid]? = some t → Loc c.sh t.node t.pc
  seq : Seq c.threads

/-- what a step of a thread of node `m` may change -/
structure Frame (m : Node) (sh sh' : Sh) : Prop where
  tbl : ∀ n, n ≠ m → sh'.tbl n = sh.tbl n
  mono : sh.nprocs ≤ sh'.nprocs
  fwd : ∀ p, p < sh.nprocs → (sh.procs p).node ≠ m → sh'.procs p = sh.procs p
  bwd : ∀ p, p < sh'.nprocs → (sh'.procs p).node ≠ m → p < sh.nprocs ∧ sh.procs p = sh'.procs p
  reg : sh'.reg = sh.reg ∨ sh.reg = none ∨ sh.reg = some m

theorem loc_frame {sh sh' : Sh} {n m : Node} {pc : Option PC}
    (h : Loc sh n pc) (hn : n ≠ m) (f : Frame m sh sh') : Loc sh' n pc := by
  have hreg : sh.reg = some n → sh'.reg = some n := by
    intro hr
    rcases f.reg with h1 | h1 | h1
    · rw [h1, hr]
    · rw [hr] at h1; cases h1
    · rw [hr] at h1; injection h1 with h1; exact absurd h1 hn
  have hproc : ∀ p b1 b2, p < sh.nprocs → sh.procs p = ⟨n, b1, b2⟩ → sh'.procs p = ⟨n, b1, b2⟩ := by
    intro p b1 b2 hp he
    rw [f.fwd p hp (by rw [he]; exact hn), he]
  match pc, h with
  | none, _ => trivial
  | some .opStart, _ => trivial
  | some (.ownExists p), ⟨h1, h2, h3⟩ => exact ⟨by rw [f.tbl n hn, h1], Nat.lt_of_lt_of_le h2 f.mono, hproc p _ _ h2 h3⟩
  | some (.ownGet p), ⟨h1, h2, h3⟩ => exact ⟨by rw [f.tbl n hn, h1], Nat.lt_of_lt_of_le h2 f.mono, hproc p _ _ h2 h3⟩
  | some (.claimNx p), ⟨h1, h2, h3⟩ => exact ⟨by rw [f.tbl n hn, h1], Nat.lt_of_lt_of_le h2 f.mono, hproc p _ _ h2 h3⟩
  | some (.claimGet p), ⟨h1, h2, h3⟩ => exact ⟨by rw [f.tbl n hn, h1], Nat.lt_of_lt_of_le h2 f.mono, hproc p _ _ h2 h3⟩
  | some (.activate p _), ⟨h1, h2, h3, h4⟩ =>
    exact ⟨by rw [f.tbl n hn, h1], Nat.lt_of_lt_of_le h2 f.mono, hproc p _ _ h2 h3, hreg h4⟩
  | some (.failDel _), ⟨h1, h2⟩ => exact ⟨by rw [f.tbl n hn, h1], hreg h2⟩
  | some (.finPut p), h1 => exact (by show sh'.tbl n = some p; rw [f.tbl n hn]; exact h1)
  | some (.rbHook p), h1 => exact (by show sh'.tbl n = some p; rw [f.tbl n hn]; exact h1)
  | some (.dHook p), h1 => exact (by show sh'.tbl n = some p; rw [f.tbl n hn]; exact h1)
  | some (.rbDel p), ⟨h1, h2, h3, h4, h5⟩ =>
    have e : sh'.procs p = sh.procs p := f.fwd p h3 (by rw [h4]; exact hn)
    exact ⟨by rw [f.tbl n hn, h1], hreg h2, Nat.lt_of_lt_of_le h3 f.mono, by rw [e]; exact h4, by rw [e]; exact h5⟩
  | some (.dDel p), ⟨h1, h2, h3, h4, h5⟩ =>
    have e : sh'.procs p = sh.procs p := f.fwd p h3 (by rw [h4]; exact hn)
    exact ⟨by rw [f.tbl n hn, h1], hreg h2, Nat.lt_of_lt_of_le h3 f.mono, by rw [e]; exact h4, by rw [e]; exact h5⟩

theorem nodeinv_frame {sh sh' : Sh} {n m : Node}
    (h : NodeInv sh n) (hn : n ≠ m) (f : Frame m sh sh') : NodeInv sh' n := by
  constructor
  · intro p hp
    rw [f.tbl n hn] at hp
    obtain ⟨h1, h2, h3⟩ := h.1 p hp
    refine ⟨Nat.lt_of_lt_of_le h1 f.mono, ?_, ?_⟩
    · rw [f.fwd p h1 (by rw [h2]; exact hn), h2]
    · rcases f.reg with e | e | e
      · rw [e, h3]
      · rw [h3] at e; cases e
      · rw [h3] at e; injection e with e; exact absurd e hn
  · intro q hq hnode hhook
    obtain ⟨h1, h2⟩ := f.bwd q hq (by rw [hnode]; exact hn)
    rw [f.tbl n hn]
    exact h.2 q h1 (by rw [h2]; exact hnode) (by rw [h2]; exact hhook)


@[simp] theorem upd_same {α : Type} (f : Nat → α) (k : Nat) (v : α) : upd f k v k = v := by simp [upd]
theorem upd_other {α : Type} (f : Nat → α) (k i : Nat) (v : α) (h : i ≠ k) : upd f k v i = f i := by simp [upd, h]

theorem finish_node (t : Thread) (r : Res) : (finish t r).node = t.node := by
  unfold finish; split <;> rfl
theorem goto_node (t : Thread) (pc : PC) : (goto t pc).node = t.node := rfl
theorem goto_pc (t : Thread) (pc : PC) : (goto t pc).pc = some pc := rfl
theorem loc_finish (sh : Sh) (n : Node) (t : Thread) (r : Res) : Loc sh n (finish t r).pc := by
  unfold finish; split <;> exact True.intro

/-- a step that leaves registry cell, tables and processes alone -/
theorem frame_of_eq {m : Node} {sh sh' : Sh} (h1 : sh'.tbl = sh.tbl) (h2 : sh'.nprocs = sh.nprocs)
    (h3 : sh'.procs = sh.procs) (h4 : sh'.reg = sh.reg ∨ sh.reg = none ∨ sh.reg = some m) : Frame m sh sh' where
  tbl := fun n _ => by rw [h1]
  mono := by rw [h2]; exact Nat.le_refl _
  fwd := fun p _ _ => by rw [h3]
  bwd := fun p hp _ => ⟨by rw [← h2]; exact hp, by rw [h3]⟩
  reg := h4

theorem nodeinv_of_eq {n : Node} {sh sh' : Sh} (h : NodeInv sh n) (h1 : sh'.tbl = sh.tbl) (h2 : sh'.nprocs = sh.nprocs)
    (h3 : sh'.procs = sh.procs) (h4 : sh'.reg = sh.reg ∨ sh.tbl n = none) : NodeInv sh' n := by
  constructor
  · intro p hp
    rw [h1] at hp
    obtain ⟨a, b, c⟩ := h.1 p hp
    refine ⟨by rw [h2]; exact a, by rw [h3]; exact b, ?_⟩
    rcases h4 with e | e
    · rw [e]; exact c
    · rw [e] at hp; cases hp
  · intro q hq hnode hhook
    rw [h1]
    exact h.2 q (by rw [← h2]; exact hq) (by rw [← h3]; exact hnode) (by rw [← h3]; exact hhook)

end GoaktVerif.C30

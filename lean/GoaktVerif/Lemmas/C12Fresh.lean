/-
C12 helper lemmas for the time clause: the invariant that ties an entry's deadline to its actor's
activity stamps (through the 100 ms coalescing of Touch), for all op sequences.
-/
import GoaktVerif.Lemmas.C12Heap

namespace GoaktVerif.C12
open GoaktVerif.Model.C12 GoaktVerif.Model.C12.State

/-- the deadline of entry `g` (of actor `a`) is no older than the last Touch and less than
    `touchIv` older than the latest activity -/
def FreshAt (s : State) (a g : Nat) : Prop :=
  ∃ d, (s.objs g).deadline = some d ∧
    (∀ u, (s.actors a).lastTouch = some u → u + (s.objs g).timeout ≤ d) ∧
    (∀ l, (s.actors a).latest = some l → l + (s.objs g).timeout < d + touchIv)

/-- everything but "paused entries are off the heap" -/
structure FCore (s : State) : Prop where
  sync : Sync s
  /-- the map's entry for actor `a` targets `a` -/
  owner : ∀ a g, s.entries a = some g → (s.objs g).actor = a
  /-- entry objects in use are allocated -/
  entBound : ∀ a g, s.entries a = some g → g < s.nE
  idxBound : ∀ g, 0 ≤ s.idx g → g < s.nE
  touchLe : ∀ a u, (s.actors a).lastTouch = some u → u ≤ s.now
  latestLe : ∀ a l, (s.actors a).latest = some l → l ≤ s.now
  touchLatest : ∀ a u l, (s.actors a).lastTouch = some u → (s.actors a).latest = some l → u ≤ l
  /-- every current, unpaused, time-based entry that is ON the heap is fresh -/
  fresh : ∀ a g, s.entries a = some g → (s.objs g).strat.isTime = true → (s.objs g).paused = false →
      0 ≤ s.idx g → FreshAt s a g

/-- a paused entry is off the heap -/
def POff (s : State) : Prop := ∀ g, (s.objs g).paused = true → s.idx g < 0

structure FInv (s : State) : Prop where
  core : FCore s
  pausedOff : POff s

/-- states that agree on everything the invariant reads -/
structure SameF (s t : State) : Prop where
  now : t.now = s.now
  nE : t.nE = s.nE
  objs : ∀ g, (t.objs g).actor = (s.objs g).actor ∧ (t.objs g).strat = (s.objs g).strat ∧
    (t.objs g).timeout = (s.objs g).timeout ∧ (t.objs g).deadline = (s.objs g).deadline ∧
    (t.objs g).paused = (s.objs g).paused
  actors : ∀ a, (t.actors a).latest = (s.actors a).latest ∧ (t.actors a).lastTouch = (s.actors a).lastTouch
  entries : t.entries = s.entries
  queue : t.queue = s.queue
  idx : t.idx = s.idx

theorem SameF.finv {s t : State} (h : SameF s t) (hi : FInv s) : FInv t := by
  have ho := h.objs
  have ha := h.actors
  have hc := hi.core
  refine ⟨⟨?_, ?_, ?_, ?_, ?_, ?_, ?_, ?_⟩, ?_⟩
  · intro g i; rw [h.queue, h.idx]; exact hc.sync g i
  · intro a g he; rw [(ho g).1]; exact hc.owner a g (by rw [← h.entries]; exact he)
  · intro a g he; rw [h.nE]; exact hc.entBound a g (by rw [← h.entries]; exact he)
  · intro g hx; rw [h.nE]; exact hc.idxBound g (by rw [← h.idx]; exact hx)
  · intro a u hu; rw [h.now]; exact hc.touchLe a u (by rw [← (ha a).2]; exact hu)
  · intro a l hl; rw [h.now]; exact hc.latestLe a l (by rw [← (ha a).1]; exact hl)
  · intro a u l hu hl; exact hc.touchLatest a u l (by rw [← (ha a).2]; exact hu) (by rw [← (ha a).1]; exact hl)
  · intro a g he ht hp hx
    have := hc.fresh a g (by rw [← h.entries]; exact he) (by rw [← (ho g).2.1]; exact ht)
      (by rw [← (ho g).2.2.2.2]; exact hp) (by rw [← h.idx]; exact hx)
    obtain ⟨d, hd, h1, h2⟩ := this
    refine ⟨d, by rw [(ho g).2.2.2.1]; exact hd, ?_, ?_⟩
    · intro u hu; rw [(ho g).2.2.1]; exact h1 u (by rw [← (ha a).2]; exact hu)
    · intro l hl; rw [(ho g).2.2.1]; exact h2 l (by rw [← (ha a).1]; exact hl)
  · intro g hp; rw [h.idx]; exact hi.pausedOff g (by rw [← (ho g).2.2.2.2]; exact hp)

theorem SameF.refl (s : State) : SameF s s :=
  ⟨rfl, rfl, fun _ => ⟨rfl, rfl, rfl, rfl, rfl⟩, fun _ => ⟨rfl, rfl⟩, rfl, rfl, rfl⟩

theorem SameF.trans {s t u : State} (h1 : SameF s t) (h2 : SameF t u) : SameF s u :=
  ⟨h2.now.trans h1.now, h2.nE.trans h1.nE,
   fun g => ⟨(h2.objs g).1.trans (h1.objs g).1, (h2.objs g).2.1.trans (h1.objs g).2.1,
     (h2.objs g).2.2.1.trans (h1.objs g).2.2.1, (h2.objs g).2.2.2.1.trans (h1.objs g).2.2.2.1,
     (h2.objs g).2.2.2.2.trans (h1.objs g).2.2.2.2⟩,
   fun a => ⟨(h2.actors a).1.trans (h1.actors a).1, (h2.actors a).2.trans (h1.actors a).2⟩,
   h2.entries.trans h1.entries, h2.queue.trans h1.queue, h2.idx.trans h1.idx⟩

theorem sameF_emit (s : State) (e : Ev) : SameF s (s.emit e) :=
  ⟨rfl, rfl, fun _ => ⟨rfl, rfl, rfl, rfl, rfl⟩, fun _ => ⟨rfl, rfl⟩, rfl, rfl, rfl⟩
theorem sameF_signal (s : State) (g : Nat) : SameF s (s.signal g) :=
  ⟨rfl, rfl, fun _ => ⟨rfl, rfl, rfl, rfl, rfl⟩, fun _ => ⟨rfl, rfl⟩, rfl, rfl, rfl⟩

/-- an actor update that keeps the two activity stamps -/
theorem sameF_setA (s : State) (a : Nat) (f : Actor → Actor)
    (h : (f (s.actors a)).latest = (s.actors a).latest ∧ (f (s.actors a)).lastTouch = (s.actors a).lastTouch) :
    SameF s (s.setA a f) := by
  refine ⟨rfl, rfl, fun _ => ⟨rfl, rfl, rfl, rfl, rfl⟩, fun b => ?_, rfl, rfl, rfl⟩
  by_cases hb : b = a
  · subst hb; simpa [setA, upd] using h
  · simp [setA, upd, hb]

/-- an entry update that keeps target, strategy, timeout, deadline and the paused flag -/
theorem sameF_setE (s : State) (g : Nat) (f : Entry → Entry)
    (h : (f (s.objs g)).actor = (s.objs g).actor ∧ (f (s.objs g)).strat = (s.objs g).strat ∧
      (f (s.objs g)).timeout = (s.objs g).timeout ∧ (f (s.objs g)).deadline = (s.objs g).deadline ∧
      (f (s.objs g)).paused = (s.objs g).paused) : SameF s (s.setE g f) := by
  refine ⟨rfl, rfl, fun x => ?_, fun _ => ⟨rfl, rfl⟩, rfl, rfl, rfl⟩
  by_cases hx : x = g
  · subst hx; simpa [setE, upd] using h
  · simp [setE, upd, hx]

/-- a heap-only change that keeps the array in sync and does not put anything new on the heap -/
theorem fcore_heap {s t : State} (hc : SameCore s t) (hi : FCore s) (hs : Sync t)
    (hback : ∀ g, 0 ≤ t.idx g → 0 ≤ s.idx g) : FCore t := by
  refine ⟨hs, ?_, ?_, ?_, ?_, ?_, ?_, ?_⟩
  · intro a g he; rw [hc.objs]; exact hi.owner a g (by rw [← hc.entries]; exact he)
  · intro a g he; rw [hc.nE]; exact hi.entBound a g (by rw [← hc.entries]; exact he)
  · intro g hx; rw [hc.nE]; exact hi.idxBound g (hback g hx)
  · intro a u hu; rw [hc.now]; rw [hc.actors] at hu; exact hi.touchLe a u hu
  · intro a l hl; rw [hc.now]; rw [hc.actors] at hl; exact hi.latestLe a l hl
  · intro a u l hu hl; rw [hc.actors] at hu hl; exact hi.touchLatest a u l hu hl
  · intro a g he ht hp hx
    rw [hc.entries] at he
    rw [hc.objs] at ht hp
    obtain ⟨d, hd, h1, h2⟩ := hi.fresh a g he ht hp (hback g hx)
    exact ⟨d, by rw [hc.objs]; exact hd, by rw [hc.objs, hc.actors]; exact h1, by rw [hc.objs, hc.actors]; exact h2⟩

theorem poff_heap {s t : State} (hc : SameCore s t) (hp : POff s) (hback : ∀ g, 0 ≤ t.idx g → 0 ≤ s.idx g) : POff t := by
  intro g hg
  rw [hc.objs] at hg
  have := hp g hg
  rcases Int.lt_or_le (t.idx g) 0 with h' | h'
  · exact h'
  · have := hback g h'; omega

theorem finv_heap {s t : State} (hc : SameCore s t) (hi : FInv s) (hs : Sync t)
    (hback : ∀ g, 0 ≤ t.idx g → 0 ≤ s.idx g) : FInv t :=
  ⟨fcore_heap hc hi.core hs hback, poff_heap hc hi.pausedOff hback⟩


theorem sync_setIdx_neg (s : State) (g : Nat) (h : Sync s) (hg : s.idx g < 0) : Sync (s.setIdx g (-1)) := by
  intro g' k
  have e1 := h g' k
  have e2 := h g k
  simp only [setIdx, upd]
  by_cases hgg : g' = g
  · subst hgg
    simp only [↓reduceIte]
    constructor
    · intro hq; have := e1.mp hq; omega
    · intro hq; omega
  · simp only [hgg, ↓reduceIte]; exact e1

/-- taking an entry off the heap; `paused` may already be set on that very entry -/
theorem finv_dropFromHeap (s : State) (g : Nat) (hc : FCore s)
    (hp : ∀ g', g' ≠ g → (s.objs g').paused = true → s.idx g' < 0) :
    FInv (s.dropFromHeap g) ∧ (s.dropFromHeap g).idx g < 0 ∧ (s.dropFromHeap g).halt = s.halt := by
  unfold dropFromHeap
  split
  · rename_i hge
    obtain ⟨hs, hidx, hh⟩ := sync_hremove s g hc.sync hge
    have hcore : SameCore s ((s.hremove (s.idx g)).setIdx g (-1)) :=
      (sameCore_hremove s _).trans (sameCore_setIdx _ _ _)
    have hback : ∀ x, 0 ≤ ((s.hremove (s.idx g)).setIdx g (-1)).idx x → 0 ≤ s.idx x := by
      intro x hx
      simp only [setIdx, upd] at hx
      split at hx
      · omega
      · exact hremove_back s _ x hc.sync hx
    have hidx' : ((s.hremove (s.idx g)).setIdx g (-1)).idx g < 0 := by simp [setIdx, upd]
    refine ⟨⟨fcore_heap hcore hc (sync_setIdx_neg _ g hs (by omega)) hback, ?_⟩, hidx', hh⟩
    intro x hx
    rw [hcore.objs] at hx
    by_cases hxg : x = g
    · subst hxg; exact hidx'
    · have := hp x hxg hx
      rcases Int.lt_or_le (((s.hremove (s.idx g)).setIdx g (-1)).idx x) 0 with h' | h'
      · exact h'
      · have := hback x h'; omega
  · rename_i hneg
    refine ⟨⟨hc, ?_⟩, by omega, rfl⟩
    intro x hx
    by_cases hxg : x = g
    · subst hxg; omega
    · exact hp x hxg hx

theorem FInv.pOthers {s : State} (hi : FInv s) (g : Nat) :
    ∀ g', g' ≠ g → (s.objs g').paused = true → s.idx g' < 0 := fun g' _ h => hi.pausedOff g' h

/-- `refreshDeadline` -/
theorem finv_refresh (s : State) (g : Nat) (hi : FInv s) :
    FInv (s.refresh g) ∧ (∀ a, s.entries a = some g → FreshAt (s.refresh g) a g) := by
  have hc := hi.core
  have hfr : ∀ a, s.entries a = some g → FreshAt (s.refresh g) a g := by
    intro a he
    have ho := hc.owner a g he
    refine ⟨(((s.actors a).latest).getD s.now) + (s.objs g).timeout, ?_, ?_, ?_⟩
    · simp [refresh, setE, upd, ho]
    · intro u hu
      have hu' : (s.actors a).lastTouch = some u := hu
      have : (s.refresh g).objs g = { s.objs g with deadline := some ((((s.actors a).latest).getD s.now) + (s.objs g).timeout) } := by
        simp [refresh, setE, upd, ho]
      rw [this]
      cases hl : (s.actors a).latest with
      | none => simp only [Option.getD_none]; have := hc.touchLe a u hu'; omega
      | some l => simp only [Option.getD_some]; have := hc.touchLatest a u l hu' hl; omega
    · intro l hl
      have hl' : (s.actors a).latest = some l := hl
      have : (s.refresh g).objs g = { s.objs g with deadline := some ((((s.actors a).latest).getD s.now) + (s.objs g).timeout) } := by
        simp [refresh, setE, upd, ho]
      rw [this, hl']
      simp only [Option.getD_some, touchIv]
      omega
  refine ⟨⟨⟨?_, ?_, ?_, ?_, ?_, ?_, ?_, ?_⟩, ?_⟩, hfr⟩
  · exact hc.sync
  · intro a g' he
    by_cases hg : g' = g
    · subst hg; simpa [refresh, setE, upd] using hc.owner a g' he
    · simpa [refresh, setE, upd, hg] using hc.owner a g' he
  · exact hc.entBound
  · exact hc.idxBound
  · exact hc.touchLe
  · exact hc.latestLe
  · exact hc.touchLatest
  · intro a g' he ht hp hx
    by_cases hg : g' = g
    · subst hg; exact hfr a he
    · have ht' : (s.objs g').strat.isTime = true := by simpa [refresh, setE, upd, hg] using ht
      have hp' : (s.objs g').paused = false := by simpa [refresh, setE, upd, hg] using hp
      obtain ⟨d, hd, h1, h2⟩ := hc.fresh a g' he ht' hp' hx
      refine ⟨d, by simpa [refresh, setE, upd, hg] using hd, ?_, ?_⟩
      · intro u hu; simpa [refresh, setE, upd, hg] using h1 u hu
      · intro l hl; simpa [refresh, setE, upd, hg] using h2 l hl
  · intro g' hp
    by_cases hg : g' = g
    · subst hg; exact hi.pausedOff g' (by simpa [refresh, setE, upd] using hp)
    · exact hi.pausedOff g' (by simpa [refresh, setE, upd, hg] using hp)


/-- pushing an off-heap, unpaused entry whose deadline is fresh (or that is not a current time-based entry) -/
theorem finv_hpush (s : State) (g : Nat) (hi : FInv s) (hneg : s.idx g < 0) (hb : g < s.nE)
    (hnp : (s.objs g).paused = false)
    (hf : ∀ a, s.entries a = some g → (s.objs g).strat.isTime = true → FreshAt s a g) :
    FInv (s.hpush g) ∧ 0 ≤ (s.hpush g).idx g := by
  have hc := hi.core
  have hcore := sameCore_hpush s g
  have hs := sync_hpush s g hc.sync hneg
  have hback : ∀ x, x ≠ g → 0 ≤ (s.hpush g).idx x → 0 ≤ s.idx x :=
    fun x hx h => hpush_back s g x hc.sync hx h hneg
  refine ⟨⟨⟨hs, ?_, ?_, ?_, ?_, ?_, ?_, ?_⟩, ?_⟩, hpush_idx s g⟩
  · intro a g' he; rw [hcore.objs]; exact hc.owner a g' (by rw [← hcore.entries]; exact he)
  · intro a g' he; rw [hcore.nE]; exact hc.entBound a g' (by rw [← hcore.entries]; exact he)
  · intro x hx
    rw [hcore.nE]
    by_cases hxg : x = g
    · subst hxg; exact hb
    · exact hc.idxBound x (hback x hxg hx)
  · intro a u hu; rw [hcore.now]; rw [hcore.actors] at hu; exact hc.touchLe a u hu
  · intro a l hl; rw [hcore.now]; rw [hcore.actors] at hl; exact hc.latestLe a l hl
  · intro a u l hu hl; rw [hcore.actors] at hu hl; exact hc.touchLatest a u l hu hl
  · intro a g' he ht hp hx
    rw [hcore.entries] at he
    rw [hcore.objs] at ht hp
    have : FreshAt s a g' := by
      by_cases hxg : g' = g
      · subst hxg; exact hf a he ht
      · exact hc.fresh a g' he ht hp (hback g' hxg hx)
    obtain ⟨d, hd, h1, h2⟩ := this
    exact ⟨d, by rw [hcore.objs]; exact hd, by rw [hcore.objs, hcore.actors]; exact h1, by rw [hcore.objs, hcore.actors]; exact h2⟩
  · intro x hx
    rw [hcore.objs] at hx
    by_cases hxg : x = g
    · subst hxg; rw [hnp] at hx; cases hx
    · have := hi.pausedOff x hx
      rcases Int.lt_or_le ((s.hpush g).idx x) 0 with h' | h'
      · exact h'
      · have := hback x hxg h'; omega

/-- an update of an off-heap entry that keeps its target and does not pause it -/
theorem finv_setE_off (s : State) (g : Nat) (f : Entry → Entry) (hi : FInv s) (hneg : s.idx g < 0)
    (hact : (f (s.objs g)).actor = (s.objs g).actor)
    (hp : (f (s.objs g)).paused = true → (s.objs g).paused = true) : FInv (s.setE g f) := by
  have hc := hi.core
  refine ⟨⟨hc.sync, ?_, hc.entBound, hc.idxBound, hc.touchLe, hc.latestLe, hc.touchLatest, ?_⟩, ?_⟩
  · intro a g' he
    by_cases hg : g' = g
    · subst hg; simpa [setE, upd, hact] using hc.owner a g' he
    · simpa [setE, upd, hg] using hc.owner a g' he
  · intro a g' he ht hpp hx
    by_cases hg : g' = g
    · subst hg; have : (s.setE g' f).idx g' = s.idx g' := rfl; omega
    · have ht' : (s.objs g').strat.isTime = true := by simpa [setE, upd, hg] using ht
      have hp' : (s.objs g').paused = false := by simpa [setE, upd, hg] using hpp
      obtain ⟨d, hd, h1, h2⟩ := hc.fresh a g' he ht' hp' hx
      refine ⟨d, by simpa [setE, upd, hg] using hd, ?_, ?_⟩
      · intro u hu; simpa [setE, upd, hg] using h1 u hu
      · intro l hl; simpa [setE, upd, hg] using h2 l hl
  · intro g' hpp
    by_cases hg : g' = g
    · subst hg; exact hneg
    · exact hi.pausedOff g' (by simpa [setE, upd, hg] using hpp)

theorem finv_delEntry (s : State) (a : Nat) (hi : FInv s) : FInv (s.delEntry a) := by
  have hc := hi.core
  refine ⟨⟨hc.sync, ?_, ?_, hc.idxBound, hc.touchLe, hc.latestLe, hc.touchLatest, ?_⟩, hi.pausedOff⟩
  · intro b g he
    by_cases hb : b = a
    · subst hb; simp [delEntry, upd] at he
    · exact hc.owner b g (by simpa [delEntry, upd, hb] using he)
  · intro b g he
    by_cases hb : b = a
    · subst hb; simp [delEntry, upd] at he
    · exact hc.entBound b g (by simpa [delEntry, upd, hb] using he)
  · intro b g he ht hp hx
    by_cases hb : b = a
    · subst hb; simp [delEntry, upd] at he
    · exact hc.fresh b g (by simpa [delEntry, upd, hb] using he) ht hp hx

theorem finv_allocEntry (s : State) (a : Nat) (hi : FInv s) :
    FInv (s.allocEntry a) ∧ (s.allocEntry a).idx s.nE < 0 ∧ (s.allocEntry a).entries a = some s.nE ∧
      ((s.allocEntry a).objs s.nE).paused = false := by
  have hc := hi.core
  have hnE : s.idx s.nE < 0 := by
    rcases Int.lt_or_le (s.idx s.nE) 0 with h | h
    · exact h
    · have := hc.idxBound _ h; omega
  refine ⟨⟨⟨?_, ?_, ?_, ?_, hc.touchLe, hc.latestLe, hc.touchLatest, ?_⟩, ?_⟩, by simp [allocEntry, upd], by simp [allocEntry, upd], by simp [allocEntry, upd]⟩
  · have := sync_setIdx_neg s s.nE hc.sync hnE
    intro g k; exact this g k
  · intro b g he
    by_cases hb : b = a
    · subst hb
      have : g = s.nE := by simpa [allocEntry, upd] using he.symm
      subst this; simp [allocEntry, upd]
    · have he' : s.entries b = some g := by simpa [allocEntry, upd, hb] using he
      have hg : g ≠ s.nE := by have := hc.entBound b g he'; omega
      simpa [allocEntry, upd, hg] using hc.owner b g he'
  · intro b g he
    by_cases hb : b = a
    · subst hb
      have : g = s.nE := by simpa [allocEntry, upd] using he.symm
      subst this; simp [allocEntry]
    · have he' : s.entries b = some g := by simpa [allocEntry, upd, hb] using he
      have := hc.entBound b g he'
      simp only [allocEntry]; omega
  · intro g hx
    by_cases hg : g = s.nE
    · subst hg; simp [allocEntry, upd] at hx
    · have := hc.idxBound g (by simpa [allocEntry, upd, hg] using hx)
      simp only [allocEntry]; omega
  · intro b g he ht hp hx
    by_cases hb : b = a
    · subst hb
      have : g = s.nE := by simpa [allocEntry, upd] using he.symm
      subst this; simp [allocEntry, upd] at hx
    · have he' : s.entries b = some g := by simpa [allocEntry, upd, hb] using he
      have hg : g ≠ s.nE := by have := hc.entBound b g he'; omega
      have ht' : (s.objs g).strat.isTime = true := by simpa [allocEntry, upd, hg] using ht
      have hp' : (s.objs g).paused = false := by simpa [allocEntry, upd, hg] using hp
      have hx' : 0 ≤ s.idx g := by simpa [allocEntry, upd, hg] using hx
      obtain ⟨d, hd, h1, h2⟩ := hc.fresh b g he' ht' hp' hx'
      exact ⟨d, by simpa [allocEntry, upd, hg] using hd, by simpa [allocEntry, upd, hg] using h1, by simpa [allocEntry, upd, hg] using h2⟩
  · intro g hp
    by_cases hg : g = s.nE
    · subst hg; simp [allocEntry, upd]
    · have := hi.pausedOff g (by simpa [allocEntry, upd, hg] using hp)
      simpa [allocEntry, upd, hg] using this


/-- `regTarget`: afterwards the target entry is current for `a`, allocated, off the heap -/
theorem finv_regTarget (s : State) (a : Nat) (hi : FInv s) :
    FInv (s.regTarget a).1 ∧ (s.regTarget a).1.entries a = some (s.regTarget a).2 ∧
      (s.regTarget a).1.idx (s.regTarget a).2 < 0 ∧ (s.regTarget a).2 < (s.regTarget a).1.nE := by
  unfold regTarget
  cases he : s.entries a with
  | none =>
    obtain ⟨h1, h2, h3, _⟩ := finv_allocEntry s a hi
    exact ⟨h1, h3, h2, by simp [allocEntry]⟩
  | some g =>
    obtain ⟨h1, h2, _⟩ := finv_dropFromHeap s g hi.core (hi.pOthers g)
    refine ⟨h1, ?_, h2, ?_⟩
    · rw [(sameCore_dropFromHeap s g).entries]; exact he
    · rw [(sameCore_dropFromHeap s g).nE]; exact hi.core.entBound a g he

theorem finv_regFinish (s : State) (a g : Nat) (st : Strat) (hi : FInv s) (_he : s.entries a = some g)
    (hneg : s.idx g < 0) (hb : g < s.nE) : FInv (s.regFinish a g st) := by
  unfold regFinish
  have h1 : FInv (s.setE g fun e => { e with strat := st, paused := false, pending := false, enqueued := false }) :=
    finv_setE_off s g _ hi hneg rfl (by intro h; simp at h)
  cases st with
  | time T =>
    dsimp only
    have h2 := finv_setE_off _ g (fun e => { e with timeout := T }) h1 hneg rfl (fun h => h)
    obtain ⟨h3, hf⟩ := finv_refresh _ g h2
    refine (finv_hpush _ g h3 hneg hb ?_ ?_).1
    · simp [refresh, setE, upd]
    · intro b hb' _
      exact hf b hb'
  | count n =>
    dsimp only
    exact finv_setE_off _ g _ h1 hneg rfl (fun h => h)
  | longLived => exact finv_delEntry _ a h1

theorem finv_register (s : State) (a : Nat) (st : Strat) (hi : FInv s) : FInv (s.register a st) := by
  unfold register
  obtain ⟨h1, h2, h3, h4⟩ := finv_regTarget s a hi
  exact finv_regFinish _ a _ st h1 h2 h3 h4

theorem finv_unregister (s : State) (a : Nat) (hi : FInv s) : FInv (s.unregister a) := by
  unfold unregister
  split
  · exact hi
  · exact finv_delEntry _ a (finv_dropFromHeap s _ hi.core (hi.pOthers _)).1

/-- setting `paused` on an entry and taking it off the heap -/
theorem finv_mpause (s : State) (a : Nat) (hi : FInv s) : FInv (s.mpause a) := by
  unfold mpause
  cases he : s.entries a with
  | none => exact hi
  | some g =>
    dsimp only
    split
    · exact hi
    · have hc := hi.core
      -- the core invariant survives the flag (a paused entry is exempt from freshness)
      have hcore : FCore (s.setE g fun e => { e with paused := true }) := by
        refine ⟨hc.sync, ?_, hc.entBound, hc.idxBound, hc.touchLe, hc.latestLe, hc.touchLatest, ?_⟩
        · intro b g' hb
          by_cases hg : g' = g
          · subst hg; simpa [setE, upd] using hc.owner b g' hb
          · simpa [setE, upd, hg] using hc.owner b g' hb
        · intro b g' hb ht hp hx
          by_cases hg : g' = g
          · subst hg; simp [setE, upd] at hp
          · have ht' : (s.objs g').strat.isTime = true := by simpa [setE, upd, hg] using ht
            have hp' : (s.objs g').paused = false := by simpa [setE, upd, hg] using hp
            obtain ⟨d, hd, h1, h2⟩ := hc.fresh b g' hb ht' hp' hx
            exact ⟨d, by simpa [setE, upd, hg] using hd, by simpa [setE, upd, hg] using h1, by simpa [setE, upd, hg] using h2⟩
      refine (finv_dropFromHeap _ g hcore ?_).1
      intro g' hg hp
      exact hi.pausedOff g' (by simpa [setE, upd, hg] using hp)

theorem finv_resumeEntry (s : State) (a g : Nat) (hi : FInv s) (he : s.entries a = some g)
    (hp : (s.objs g).paused = true) : FInv (s.resumeEntry g) := by
  unfold resumeEntry
  dsimp only
  have hneg := hi.pausedOff g hp
  have h1 : FInv (s.setE g fun e => { e with paused := false }) :=
    finv_setE_off s g _ hi hneg rfl (by intro h; simp at h)
  split
  · obtain ⟨h3, hf⟩ := finv_refresh _ g h1
    refine (finv_hpush _ g h3 hneg (hi.core.entBound a g he) ?_ ?_).1
    · simp [refresh, setE, upd]
    · intro b hb' _; exact hf b hb'
  · split
    · exact (sameF_signal _ _).finv (finv_setE_off _ g _ h1 hneg rfl (fun h => h))
    · exact h1

theorem finv_mresumeS (s : State) (a : Nat) (hi : FInv s) : FInv (s.mresumeS a) := by
  unfold mresumeS
  cases he : s.entries a with
  | none => exact hi
  | some g =>
    dsimp only
    split
    · exact hi
    · rename_i hp
      exact finv_resumeEntry s a g hi he (by simpa using hp)

theorem finv_mtouch (s : State) (a : Nat) (hi : FInv s) : FInv (s.mtouch a) := by
  unfold mtouch
  cases he : s.entries a with
  | none => exact hi
  | some g =>
    dsimp only
    split
    · exact hi
    · split
      · exact hi
      · rename_i hc2
        simp only [Bool.or_eq_true, Bool.not_eq_true', decide_eq_true_eq, not_or, Bool.not_eq_false, Int.not_lt] at hc2
        obtain ⟨h3, _⟩ := finv_refresh s g hi
        have hidx : (s.refresh g).idx g = s.idx g := rfl
        exact finv_heap (sameCore_hfix _ _) h3 (sync_hfix _ _ h3.core.sync)
          (fun x hx => hfix_back _ _ x h3.core.sync hx)

/-- `MessageProcessed` touches none of the fields the invariant reads -/
theorem finv_mproc (s : State) (a : Nat) (hi : FInv s) : FInv (s.mproc a) := by
  unfold mproc
  cases he : s.entries a with
  | none => exact hi
  | some g =>
    dsimp only
    split
    · exact hi
    · split
      · exact hi
      · have h1 : SameF s ((s.setE g fun e => { e with pending := true }).emit
            (.crossed a g (s.actors a).processed (s.objs g).baseline (s.objs g).maxMessages)) :=
          (sameF_setE s g _ ⟨rfl, rfl, rfl, rfl, rfl⟩).trans (sameF_emit _ _)
        split
        · exact h1.finv hi
        · exact ((h1.trans (sameF_setE _ g _ ⟨rfl, rfl, rfl, rfl, rfl⟩)).trans (sameF_signal _ _)).finv hi


/-- an actor update that only forgets the latest activity (the deferred `reset` of `doStop`) -/
theorem finv_forget (s : State) (a : Nat) (f : Actor → Actor) (hi : FInv s)
    (h : (f (s.actors a)).latest = none ∧ (f (s.actors a)).lastTouch = (s.actors a).lastTouch) : FInv (s.setA a f) := by
  have hc := hi.core
  have hother : ∀ b, b ≠ a → (s.setA a f).actors b = s.actors b := fun b hb => by simp [setA, upd, hb]
  have hself : (s.setA a f).actors a = f (s.actors a) := by simp [setA, upd]
  refine ⟨⟨hc.sync, hc.owner, hc.entBound, hc.idxBound, ?_, ?_, ?_, ?_⟩, hi.pausedOff⟩
  · intro b u hu
    by_cases hb : b = a
    · subst hb; rw [hself, h.2] at hu; exact hc.touchLe b u hu
    · rw [hother b hb] at hu; exact hc.touchLe b u hu
  · intro b l hl
    by_cases hb : b = a
    · subst hb; rw [hself, h.1] at hl; cases hl
    · rw [hother b hb] at hl; exact hc.latestLe b l hl
  · intro b u l hu hl
    by_cases hb : b = a
    · subst hb; rw [hself, h.1] at hl; cases hl
    · rw [hother b hb] at hu hl; exact hc.touchLatest b u l hu hl
  · intro b g he ht hp hx
    obtain ⟨d, hd, h1, h2⟩ := hc.fresh b g he ht hp hx
    refine ⟨d, hd, ?_, ?_⟩
    · intro u hu
      by_cases hb : b = a
      · subst hb; rw [hself, h.2] at hu; exact h1 u hu
      · rw [hother b hb] at hu; exact h1 u hu
    · intro l hl
      by_cases hb : b = a
      · subst hb; rw [hself, h.1] at hl; cases hl
      · rw [hother b hb] at hl; exact h2 l hl

theorem finv_doStopS (s : State) (a : Nat) (hi : FInv s) : FInv (s.doStopS a) := by
  unfold doStopS
  exact finv_forget _ a _ ((sameF_emit s _).finv hi) ⟨rfl, rfl⟩

theorem finv_tryS (s : State) (a : Nat) (src : Src) (hi : FInv s) : FInv (s.tryS a src) := by
  unfold tryS
  dsimp only
  split
  · split
    · exact ((sameF_setA s a _ ⟨rfl, rfl⟩).trans (sameF_emit _ _)).finv hi
    · exact (sameF_emit _ _).finv hi
  · exact (sameF_emit _ _).finv (finv_doStopS _ a (finv_unregister s a hi))

theorem finv_shutdown (s : State) (a : Nat) (hi : FInv s) : FInv (s.shutdown a) := by
  unfold shutdown
  split
  · exact hi
  · exact finv_doStopS _ a (finv_unregister _ a ((sameF_setA s a _ ⟨rfl, rfl⟩).finv hi))

/-- a state that differs from `s` by: actor `a` stamped `latest = lastTouch = now`, and possibly a new
    deadline on ONE entry `g0`; if `a`'s on-heap entry is fresh in it, the invariant holds -/
theorem finv_stamped (s t : State) (a g0 : Nat) (hi : FInv s)
    (hnow : t.now = s.now) (hnE : t.nE = s.nE) (hent : t.entries = s.entries) (hq : t.queue = s.queue) (hidx : t.idx = s.idx)
    (hself : (t.actors a).latest = some s.now ∧ (t.actors a).lastTouch = some s.now)
    (hother : ∀ b, b ≠ a → t.actors b = s.actors b)
    (hobjs : ∀ g, g ≠ g0 → t.objs g = s.objs g)
    (hobj0 : (t.objs g0).actor = (s.objs g0).actor ∧ (t.objs g0).strat = (s.objs g0).strat ∧
      (t.objs g0).timeout = (s.objs g0).timeout ∧ (t.objs g0).paused = (s.objs g0).paused)
    (hg0 : ∀ b, b ≠ a → s.entries b ≠ some g0)
    (hF : ∀ g, t.entries a = some g → (t.objs g).strat.isTime = true → (t.objs g).paused = false → 0 ≤ t.idx g →
      FreshAt t a g) : FInv t := by
  have hc := hi.core
  have hpaused : ∀ g, (t.objs g).paused = (s.objs g).paused := fun g => by
    by_cases hg : g = g0
    · subst hg; exact hobj0.2.2.2
    · rw [hobjs g hg]
  refine ⟨⟨?_, ?_, ?_, ?_, ?_, ?_, ?_, ?_⟩, ?_⟩
  · intro g i; rw [hq, hidx]; exact hc.sync g i
  · intro b g he
    rw [hent] at he
    by_cases hg : g = g0
    · subst hg; rw [hobj0.1]; exact hc.owner b g he
    · rw [hobjs g hg]; exact hc.owner b g he
  · intro b g he; rw [hnE]; exact hc.entBound b g (by rw [← hent]; exact he)
  · intro g hx; rw [hnE]; exact hc.idxBound g (by rw [← hidx]; exact hx)
  · intro b u hu
    rw [hnow]
    by_cases hb : b = a
    · subst hb; rw [hself.2] at hu; have : u = s.now := by simpa using hu.symm
      omega
    · rw [hother b hb] at hu; exact hc.touchLe b u hu
  · intro b l hl
    rw [hnow]
    by_cases hb : b = a
    · subst hb; rw [hself.1] at hl; have : l = s.now := by simpa using hl.symm
      omega
    · rw [hother b hb] at hl; exact hc.latestLe b l hl
  · intro b u l hu hl
    by_cases hb : b = a
    · subst hb; rw [hself.2] at hu; rw [hself.1] at hl
      have : u = s.now := by simpa using hu.symm
      have : l = s.now := by simpa using hl.symm
      omega
    · rw [hother b hb] at hu hl; exact hc.touchLatest b u l hu hl
  · intro b g he ht hp hx
    by_cases hb : b = a
    · subst hb; exact hF g he ht hp hx
    · have he' : s.entries b = some g := by rw [← hent]; exact he
      have hg : g ≠ g0 := fun h => hg0 b hb (h ▸ he')
      rw [hobjs g hg] at ht hp
      obtain ⟨d, hd, h1, h2⟩ := hc.fresh b g he' ht hp (by rw [← hidx]; exact hx)
      exact ⟨d, by rw [hobjs g hg]; exact hd, by rw [hobjs g hg, hother b hb]; exact h1,
        by rw [hobjs g hg, hother b hb]; exact h2⟩
  · intro g hp; rw [hidx]; exact hi.pausedOff g (by rw [← hpaused g]; exact hp)

/-- stamping only `latest := now` while the last Touch is less than `touchIv` old -/
theorem finv_stampLatest (s : State) (a u0 : Nat) (hi : FInv s) (hu0 : (s.actors a).lastTouch = some u0)
    (hlt : s.now < u0 + touchIv) : FInv (s.setA a fun x => { x with latest := some s.now }) := by
  have hc := hi.core
  have hother : ∀ b, b ≠ a → (s.setA a fun x => { x with latest := some s.now }).actors b = s.actors b :=
    fun b hb => by simp [setA, upd, hb]
  have hself : (s.setA a fun x => { x with latest := some s.now }).actors a = { s.actors a with latest := some s.now } := by
    simp [setA, upd]
  refine ⟨⟨hc.sync, hc.owner, hc.entBound, hc.idxBound, ?_, ?_, ?_, ?_⟩, hi.pausedOff⟩
  · intro b u hu
    by_cases hb : b = a
    · subst hb; rw [hself] at hu; exact hc.touchLe b u hu
    · rw [hother b hb] at hu; exact hc.touchLe b u hu
  · intro b l hl
    by_cases hb : b = a
    · subst hb; rw [hself] at hl
      have : l = s.now := by simpa using hl.symm
      show l ≤ s.now; omega
    · rw [hother b hb] at hl; exact hc.latestLe b l hl
  · intro b u l hu hl
    by_cases hb : b = a
    · subst hb; rw [hself] at hu hl
      have hl' : l = s.now := by simpa using hl.symm
      have := hc.touchLe b u hu; omega
    · rw [hother b hb] at hu hl; exact hc.touchLatest b u l hu hl
  · intro b g he ht hp hx
    obtain ⟨d, hd, h1, h2⟩ := hc.fresh b g he ht hp hx
    refine ⟨d, hd, ?_, ?_⟩
    · intro u hu
      by_cases hb : b = a
      · subst hb; rw [hself] at hu; exact h1 u hu
      · rw [hother b hb] at hu; exact h1 u hu
    · intro l hl
      by_cases hb : b = a
      · subst hb; rw [hself] at hl
        have hl' : l = s.now := by simpa using hl.symm
        have := h1 u0 hu0
        show l + (s.objs g).timeout < d + touchIv
        omega
      · rw [hother b hb] at hl; exact h2 l hl

/-- `markActivity`: the coalescing argument.  Not due: the new stamp is less than `touchIv` after the
    last Touch, and the deadline is at least that Touch plus the timeout.  Due: Touch refreshes the
    deadline of an on-heap entry; an entry it does not reach (paused, not time-based, off the heap) is
    exempt from freshness. -/
theorem finv_markActivity (s : State) (a : Nat) (hi : FInv s) : FInv (s.markActivity a) := by
  have hc := hi.core
  unfold markActivity
  dsimp only
  split
  · -- due: stamp both, then Touch
    generalize ht : ((s.setA a fun x => { x with latest := some s.now }).setA a
        fun x => { x with lastTouch := some s.now }) = t
    have hself : (t.actors a).latest = some s.now ∧ (t.actors a).lastTouch = some s.now := by
      rw [← ht]; simp [setA, upd]
    have hother : ∀ b, b ≠ a → t.actors b = s.actors b := by
      intro b hb; rw [← ht]; simp [setA, upd, hb]
    have hnow : t.now = s.now := by rw [← ht]; rfl
    have hnE : t.nE = s.nE := by rw [← ht]; rfl
    have hent : t.entries = s.entries := by rw [← ht]; rfl
    have hq : t.queue = s.queue := by rw [← ht]; rfl
    have hidx : t.idx = s.idx := by rw [← ht]; rfl
    have hobjs : t.objs = s.objs := by rw [← ht]; rfl
    -- if the Touch does not reach an on-heap entry of `a`, nothing of `a` needs to be fresh
    have hexempt : (∀ g, t.entries a = some g → (t.objs g).strat.isTime = true → (t.objs g).paused = false →
        0 ≤ t.idx g → False) → FInv t := by
      intro hex
      refine finv_stamped s t a s.nE hi hnow hnE hent hq hidx hself hother (fun g _ => by rw [hobjs])
        ⟨by rw [hobjs], by rw [hobjs], by rw [hobjs], by rw [hobjs]⟩ ?_ (fun g he htm hp hx => absurd (hex g he htm hp hx) id)
      intro b _ he
      have := hc.entBound b _ he
      omega
    unfold mtouch
    cases he : t.entries a with
    | none =>
      dsimp only
      exact hexempt (fun g hg => by rw [he] at hg; cases hg)
    | some g =>
      dsimp only
      split
      · rename_i hp
        exact hexempt (fun g' hg _ hp' _ => by
          rw [he] at hg; cases hg; rw [hp] at hp'; cases hp')
      · split
        · rename_i hc2
          refine hexempt (fun g' hg htm _ hx => ?_)
          rw [he] at hg; cases hg
          simp only [Bool.or_eq_true, Bool.not_eq_true', decide_eq_true_eq] at hc2
          rcases hc2 with h | h
          · rw [h] at htm; cases htm
          · omega
        · -- refresh + Fix
          have hes : s.entries a = some g := by rw [← hent]; exact he
          have hown : (s.objs g).actor = a := hc.owner a g hes
          have h3 : FInv (t.refresh g) := by
            refine finv_stamped s (t.refresh g) a g hi hnow hnE hent hq hidx hself hother ?_ ?_ ?_ ?_
            · intro g' hg'; simp [refresh, setE, upd, hg', hobjs]
            · simp [refresh, setE, upd, hobjs]
            · intro b hb heb
              have := hc.owner b g heb
              exact hb (this.symm.trans hown)
            · intro g' hg' _ _ _
              have : g' = g := by
                have : (t.refresh g).entries a = t.entries a := rfl
                rw [this, he] at hg'; exact (Option.some.inj hg').symm
              subst this
              have hact : (t.objs g').actor = a := by rw [hobjs]; exact hown
              refine ⟨s.now + (t.objs g').timeout, ?_, ?_, ?_⟩
              · simp [refresh, setE, upd, hact, hself.1]
              · intro u hu
                have : ((t.refresh g').actors a).lastTouch = (t.actors a).lastTouch := rfl
                rw [this, hself.2] at hu
                have hu' : u = s.now := by simpa using hu.symm
                have htm : ((t.refresh g').objs g').timeout = (t.objs g').timeout := by simp [refresh, setE, upd]
                rw [htm]; omega
              · intro l hl
                have : ((t.refresh g').actors a).latest = (t.actors a).latest := rfl
                rw [this, hself.1] at hl
                have hl' : l = s.now := by simpa using hl.symm
                have htm : ((t.refresh g').objs g').timeout = (t.objs g').timeout := by simp [refresh, setE, upd]
                rw [htm]; simp only [touchIv]; omega
          exact finv_heap (sameCore_hfix _ _) h3 (sync_hfix _ _ h3.core.sync)
            (fun x hx => hfix_back _ _ x h3.core.sync hx)
  · rename_i hnd
    have : ∃ u, (s.actors a).lastTouch = some u ∧ s.now < u + touchIv := by
      unfold touchDue at hnd
      cases hl : (s.actors a).lastTouch with
      | none => rw [hl] at hnd; simp at hnd
      | some u => rw [hl] at hnd; exact ⟨u, rfl, by simpa using hnd⟩
    obtain ⟨u, hu, hlt⟩ := this
    exact finv_stampLatest s a u hi hu hlt


theorem sameF_sysStopping (s : State) (b : Bool) : SameF s { s with sysStopping := b } :=
  ⟨rfl, rfl, fun _ => ⟨rfl, rfl, rfl, rfl, rfl⟩, fun _ => ⟨rfl, rfl⟩, rfl, rfl, rfl⟩
theorem sameF_halt (s : State) (h : Option Halt) : SameF s { s with halt := h } :=
  ⟨rfl, rfl, fun _ => ⟨rfl, rfl, rfl, rfl, rfl⟩, fun _ => ⟨rfl, rfl⟩, rfl, rfl, rfl⟩
theorem sameF_chan (s : State) (c : List Nat) : SameF s { s with chan := c } :=
  ⟨rfl, rfl, fun _ => ⟨rfl, rfl, rfl, rfl, rfl⟩, fun _ => ⟨rfl, rfl⟩, rfl, rfl, rfl⟩

theorem finv_recordProcessed (s : State) (a : Nat) (hi : FInv s) : FInv (s.recordProcessed a) := by
  unfold recordProcessed
  dsimp only
  split
  · exact finv_mproc _ a ((sameF_setA s a _ ⟨rfl, rfl⟩).finv hi)
  · exact (sameF_setA s a _ ⟨rfl, rfl⟩).finv hi

theorem finv_startPassivation (s : State) (a : Nat) (hi : FInv s) : FInv (s.startPassivation a) := by
  unfold startPassivation
  split
  · exact hi
  · exact finv_register _ _ _ hi

theorem finv_pausePassivation (s : State) (a : Nat) (hi : FInv s) : FInv (s.pausePassivation a) :=
  (sameF_setA _ a _ ⟨rfl, rfl⟩).finv (finv_mpause s a hi)

theorem finv_resumePassivation (s : State) (a : Nat) (hi : FInv s) : FInv (s.resumePassivation a) := by
  unfold resumePassivation
  split
  · dsimp only
    have h1 := finv_mresumeS _ a ((sameF_setA s a (fun x => { x with pausedF := false }) ⟨rfl, rfl⟩).finv hi)
    split
    · exact h1
    · exact finv_startPassivation _ a h1
  · exact finv_startPassivation _ a hi

theorem finv_suspend (s : State) (a : Nat) (hi : FInv s) : FInv (s.suspend a) :=
  finv_pausePassivation _ a ((sameF_setA s a _ ⟨rfl, rfl⟩).finv hi)

theorem finv_reinstate (s : State) (a : Nat) (hi : FInv s) : FInv (s.reinstate a) := by
  unfold reinstate
  split
  · exact hi
  · exact finv_resumePassivation _ a (finv_markActivity _ a ((sameF_setA s a _ ⟨rfl, rfl⟩).finv hi))

theorem finv_sstep (s : State) (o : SOp) (hi : FInv s) : FInv (sstep s o).1 := by
  cases o <;> simp only [sstep]
  case act a => exact finv_markActivity _ _ hi
  case recd a => exact finv_recordProcessed _ _ hi
  case pause a => exact finv_pausePassivation _ _ hi
  case resume a => exact finv_resumePassivation _ _ hi
  case susp a => exact finv_suspend _ _ hi
  case reinst a => exact finv_reinstate _ _ hi
  case stop a => exact finv_shutdown _ _ hi
  case mreg a => exact finv_register _ _ _ hi
  case munreg a => exact finv_unregister _ _ hi
  case mpause a => exact finv_mpause _ _ hi
  case mresume a => exact finv_mresumeS _ _ hi
  case mtouch a => exact finv_mtouch _ _ hi
  case mproc a => exact finv_mproc _ _ hi
  case try_ a => exact finv_tryS _ _ _ hi
  case sysstop b => exact (sameF_sysStopping s b).finv hi
  case flagstop a b => exact (sameF_setA s a _ ⟨rfl, rfl⟩).finv hi
  case deliver a => split; exact finv_recordProcessed _ _ (finv_markActivity _ _ hi); exact hi
  case pauseMsg a => split; exact finv_pausePassivation _ _ hi; exact hi
  case resumeMsg a => split; exact finv_resumePassivation _ _ hi; exact hi
  case fail a => split; exact finv_suspend _ _ hi; exact hi
  case reinstateApi a => split; exact finv_reinstate _ _ hi; exact hi

theorem finv_srun (s : State) (os : List SOp) (hi : FInv s) : FInv (srun s os) := by
  induction os generalizing s with
  | nil => exact hi
  | cons o os ih => exact ih _ (finv_sstep s o hi)

theorem finv_passivateS (s : State) (g : Nat) (src : Src) (pre post : List SOp) (hi : FInv s) :
    FInv (passivateS s g src pre post) :=
  finv_srun _ _ (finv_tryS _ _ _ (finv_srun _ _ hi))

/-- under the invariant the head of the heap is never paused: `nextEntry` only inspects -/
theorem nextEntry_eq (f : Nat) (s : State) (hi : FInv s) : (nextEntry f s).1 = s := by
  cases f with
  | zero => rfl
  | succ f =>
    unfold nextEntry
    cases hq : s.queue with
    | nil => rfl
    | cons g rest =>
      dsimp only
      have h0 : s.queue[0]? = some g := by rw [hq]; rfl
      have hidx : s.idx g = 0 := by simpa using (hi.core.sync g 0).mp h0
      split
      · rename_i hp
        have := hi.pausedOff g hp
        omega
      · split <;> rfl

theorem nextEntry_head (f : Nat) (s : State) (g : Nat) (hi : FInv s) (h : (nextEntry f s).2 = some g) :
    s.queue[0]? = some g ∧ s.dl g ≤ s.now := by
  cases f with
  | zero => simp [nextEntry] at h
  | succ f =>
    unfold nextEntry at h
    cases hq : s.queue with
    | nil => rw [hq] at h; simp at h
    | cons g' rest =>
      rw [hq] at h
      dsimp only at h
      have h0 : s.queue[0]? = some g' := by rw [hq]; rfl
      have hidx : s.idx g' = 0 := by simpa using (hi.core.sync g' 0).mp h0
      split at h
      · rename_i hp
        have := hi.pausedOff g' hp
        omega
      · split at h
        · rename_i hd
          have : g' = g := by simpa using h
          subst this
          exact ⟨rfl, hd⟩
        · simp at h

/-- popping the head `g`: the invariant holds, `g` is off the heap -/
theorem finv_popHead (s : State) (g : Nat) (hi : FInv s) (hq : s.queue[0]? = some g) :
    FInv (s.popHead g) ∧ (s.popHead g).idx g < 0 := by
  unfold popHead
  have h1 : FInv (s.emit (s.decideEv g)) := (sameF_emit s _).finv hi
  have hq1 : (s.emit (s.decideEv g)).queue[0]? = some g := hq
  obtain ⟨hs, hidx⟩ := sync_hpop _ g h1.core.sync hq1
  have hcore : SameCore (s.emit (s.decideEv g)) (((s.emit (s.decideEv g)).hpop).setIdx g (-1)) :=
    (sameCore_hpop _).trans (sameCore_setIdx _ _ _)
  have hback : ∀ x, 0 ≤ (((s.emit (s.decideEv g)).hpop).setIdx g (-1)).idx x → 0 ≤ (s.emit (s.decideEv g)).idx x := by
    intro x hx
    simp only [setIdx, upd] at hx
    split at hx
    · omega
    · exact hpop_back _ x h1.core.sync hx
  exact ⟨finv_heap hcore h1 (sync_setIdx_neg _ g hs (by omega)) hback, by simp [setIdx, upd]⟩

theorem finv_trigger (f : Nat) (s : State) (g : Nat) (pre post : List SOp) (hi : FInv s) :
    FInv (trigger f s g pre post) := by
  fun_induction trigger f s g pre post with
  | case1 => exact hi
  | case2 => exact hi
  | case3 => exact hi
  | case4 s => exact (sameF_halt s _).finv hi
  | case5 s g pre post h rest hq hh hd f a t ht =>
    have h0 : s.queue[0]? = some g := by rw [hq]; simp [Decidable.of_not_not hh]
    exact finv_passivateS _ _ _ _ _ (finv_popHead s g hi h0).1
  | case6 s g pre post h rest hq hh hd f a t ht hb =>
    have h0 : s.queue[0]? = some g := by rw [hq]; simp [Decidable.of_not_not hh]
    exact finv_delEntry _ _ (finv_passivateS _ _ _ _ _ (finv_popHead s g hi h0).1)
  | case7 s g pre post h rest hq hh hd f a t ht hb hp =>
    have h0 : s.queue[0]? = some g := by rw [hq]; simp [Decidable.of_not_not hh]
    exact finv_passivateS _ _ _ _ _ (finv_popHead s g hi h0).1
  | case8 s g pre post h rest hq hh hd f a t ht hb hp hx ih =>
    have h0 : s.queue[0]? = some g := by rw [hq]; simp [Decidable.of_not_not hh]
    have ht' : FInv t := finv_passivateS _ _ _ _ _ (finv_popHead s g hi h0).1
    apply ih
    have hcur : t.entries a = some g := Decidable.of_not_not ht
    obtain ⟨h3, hf⟩ := finv_refresh t g ht'
    refine (finv_hpush _ g h3 hx (ht'.core.entBound a g hcur) ?_ ?_).1
    · have : ((t.refresh g).objs g).paused = (t.objs g).paused := by simp [refresh, setE, upd]
      rw [this]; simpa using hp
    · intro b hb' _; exact hf b hb'
  | case9 s g pre post h rest hq hh hd f a t ht hb hp hx ih =>
    have h0 : s.queue[0]? = some g := by rw [hq]; simp [Decidable.of_not_not hh]
    exact ih (finv_passivateS _ _ _ _ _ (finv_popHead s g hi h0).1)


theorem finv_processMessageEntry (s : State) (g : Nat) (pre post : List SOp) (hi : FInv s) :
    FInv (processMessageEntry s g pre post) := by
  unfold processMessageEntry
  dsimp only
  have ht : FInv ((passivateS (s.emit (.countFire (s.objs g).actor g)) g .count pre post).setE g
      fun e => { e with enqueued := false }) :=
    (sameF_setE _ g _ ⟨rfl, rfl, rfl, rfl, rfl⟩).finv (finv_passivateS _ _ _ _ _ ((sameF_emit s _).finv hi))
  split
  · exact hi
  · split
    · exact (sameF_setE s g _ ⟨rfl, rfl, rfl, rfl, rfl⟩).finv hi
    · split
      · exact ht
      · split
        · exact (sameF_setE _ g _ ⟨rfl, rfl, rfl, rfl, rfl⟩).finv (finv_delEntry _ _ ht)
        · split
          · exact ht
          · split
            · exact ((sameF_setE _ g _ ⟨rfl, rfl, rfl, rfl, rfl⟩).trans (sameF_signal _ _)).finv ht
            · exact ht

theorem finv_tickStep (s : State) (pre post : List SOp) (hi : FInv s) : FInv (tickStep s pre post) := by
  unfold tickStep
  rw [nextEntry_eq _ s hi]
  split
  · exact hi
  · exact finv_trigger _ _ _ _ _ hi

theorem finv_drainStep (s : State) (pre post : List SOp) (hi : FInv s) : FInv (drainStep s pre post) := by
  unfold drainStep
  split
  · exact hi
  · exact finv_processMessageEntry _ _ _ _ ((sameF_chan s _).finv hi)

/-- the clock only moves forward -/
theorem finv_adv (s : State) (d : Nat) (hi : FInv s) : FInv { s with now := s.now + d } := by
  have hc := hi.core
  refine ⟨⟨hc.sync, hc.owner, hc.entBound, hc.idxBound, ?_, ?_, hc.touchLatest, hc.fresh⟩, hi.pausedOff⟩
  · intro a u hu; have := hc.touchLe a u hu; show u ≤ s.now + d; omega
  · intro a l hl; have := hc.latestLe a l hl; show l ≤ s.now + d; omega

theorem finv_step (s : State) (o : Op) (hi : FInv s) : FInv (step s o) := by
  unfold step
  split
  · exact hi
  · cases o with
    | adv d => exact finv_adv s d hi
    | simple o => exact finv_sstep _ _ hi
    | tick pre post => exact finv_tickStep _ _ _ hi
    | drain pre post => exact finv_drainStep _ _ _ hi

theorem finv_run (s : State) (os : List Op) (hi : FInv s) : FInv (run s os) := by
  induction os generalizing s with
  | nil => exact hi
  | cons o os ih => exact ih _ (finv_step s o hi)

theorem finv_empty : FInv ({} : State) := by
  refine ⟨⟨?_, ?_, ?_, ?_, ?_, ?_, ?_, ?_⟩, ?_⟩
  · intro g i; simp
  · intro a g h; cases h
  · intro a g h; cases h
  · intro g h; simp at h
  · intro a u h; cases h
  · intro a l h; cases h
  · intro a u l h; cases h
  · intro a g h; cases h
  · intro g h; cases h

theorem finv_spawnAll (s : State) (cfg : List (Strat × Bool)) (hi : FInv s) : FInv (spawnAll s cfg) := by
  induction cfg generalizing s with
  | nil => exact hi
  | cons c cfg ih =>
    obtain ⟨st, fail⟩ := c
    unfold spawnAll
    have hc := hi.core
    -- the new actor record carries no stamps
    have h1 : FInv { s with nA := s.nA + 1, actors := upd s.actors s.nA { strat := st, failStop := fail } } := by
      have hother : ∀ b, b ≠ s.nA → (upd s.actors s.nA ({ strat := st, failStop := fail } : Actor)) b = s.actors b :=
        fun b hb => by simp [upd, hb]
      have hself : (upd s.actors s.nA ({ strat := st, failStop := fail } : Actor)) s.nA = { strat := st, failStop := fail } := by
        simp [upd]
      refine ⟨⟨hc.sync, hc.owner, hc.entBound, hc.idxBound, ?_, ?_, ?_, ?_⟩, hi.pausedOff⟩
      · intro b u hu
        by_cases hb : b = s.nA
        · subst hb; simp only [hself] at hu; cases hu
        · simp only [hother b hb] at hu; exact hc.touchLe b u hu
      · intro b l hl
        by_cases hb : b = s.nA
        · subst hb; simp only [hself] at hl; cases hl
        · simp only [hother b hb] at hl; exact hc.latestLe b l hl
      · intro b u l hu hl
        by_cases hb : b = s.nA
        · subst hb; simp only [hself] at hu; cases hu
        · simp only [hother b hb] at hu hl; exact hc.touchLatest b u l hu hl
      · intro b g he ht hp hx
        obtain ⟨d, hd, h1, h2⟩ := hc.fresh b g he ht hp hx
        refine ⟨d, hd, ?_, ?_⟩
        · intro u hu
          by_cases hb : b = s.nA
          · subst hb; simp only [hself] at hu; cases hu
          · simp only [hother b hb] at hu; exact h1 u hu
        · intro l hl
          by_cases hb : b = s.nA
          · subst hb; simp only [hself] at hl; cases hl
          · simp only [hother b hb] at hl; exact h2 l hl
    exact ih _ (finv_startPassivation _ _ h1)

/-- the freshness invariant holds in every state reachable by any op sequence -/
theorem finv_reachable (cfg : List (Strat × Bool)) (ops : List Op) : FInv (run (init cfg) ops) :=
  finv_run _ _ (finv_spawnAll _ _ finv_empty)

/-- the decision: whenever the head of the heap is due and is its actor's current, unpaused, time-based
    entry, the actor's latest activity is more than `timeout − touchIv` old -/
theorem decision_fresh (s : State) (a g : Nat) (hi : FInv s) (hq : s.queue[0]? = some g) (hd : s.dl g ≤ s.now)
    (he : s.entries a = some g) (ht : (s.objs g).strat.isTime = true) (hp : (s.objs g).paused = false)
    (l : Nat) (hl : (s.actors a).latest = some l) : l + (s.objs g).timeout < s.now + touchIv := by
  have hidx : s.idx g = 0 := by simpa using (hi.core.sync g 0).mp hq
  obtain ⟨d, hdl, _, h2⟩ := hi.core.fresh a g he ht hp (by omega)
  have := h2 l hl
  simp only [dl, hdl] at hd
  omega

end GoaktVerif.C12

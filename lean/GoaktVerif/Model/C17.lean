/-
C17 — model of ActorSystem.Stop's teardown of the user actors (actor/actor_system.go shutdown,
actor/pid.go Shutdown/doStop/freeChildren) at the granularity the property speaks about: WHICH
actors get PostStop and IN WHAT ORDER.

The actor tree below the user guardian is a forest in first-child / next-sibling form.
`PID.Shutdown` on a running actor: freeChildren shuts the children down CONCURRENTLY (errgroup: any
interleaving of the children's own teardown), waits for all of them, then runs PostStop; a child
that is neither running nor suspended is skipped together with its subtree (`freeChildren` only
calls Shutdown `if child.IsSuspended() || child.IsRunning()`, and Shutdown itself returns at once
when `!running`).  `Stops f out`: `out` is a possible PostStop order of shutting down, concurrently,
all trees of the forest `f`.

Each actor's own stop is the critical section of Model/C06 (PostStop at most once per incarnation,
serialised by stopLocker); what a handler that is mid-turn does meanwhile is C06's finding F1 and is
inherited, not re-modelled (see Props/C17).
-/
namespace GoaktVerif.Model.C17

/-- forest of actors: `cons id running kids sibs` -/
inductive F where
  | nil
  | cons (id : Nat) (running : Bool) (kids : F) (sibs : F)
  deriving Repr, DecidableEq, Inhabited

/-- `Interleave a b out`: `out` is an interleaving of `a` and `b` -/
inductive Interleave {α : Type} : List α → List α → List α → Prop
  | nil : Interleave [] [] []
  | left {x a b out} : Interleave a b out → Interleave (x :: a) b (x :: out)
  | right {x a b out} : Interleave a b out → Interleave a (x :: b) (x :: out)

/-- possible PostStop orders of a forest whose trees are shut down concurrently -/
inductive Stops : F → List Nat → Prop
  | nil : Stops .nil []
  | skip {id kids sibs ls} : Stops sibs ls → Stops (.cons id false kids sibs) ls
  | node {id kids sibs lk ls out} :
      Stops kids lk → Stops sibs ls → Interleave (lk ++ [id]) ls out → Stops (.cons id true kids sibs) out

/-- the actors the teardown reaches: running actors all of whose ancestors are running -/
def visited : F → List Nat
  | .nil => []
  | .cons _ false _ sibs => visited sibs
  | .cons id true kids sibs => visited kids ++ [id] ++ visited sibs

/-- every actor of the forest -/
def ids : F → List Nat
  | .nil => []
  | .cons id _ kids sibs => id :: (ids kids ++ ids sibs)

/-- every running actor of the forest -/
def runningIds : F → List Nat
  | .nil => []
  | .cons id r kids sibs => (if r then [id] else []) ++ runningIds kids ++ runningIds sibs

/-- a stopped actor has no running descendant (what stopping an actor establishes: C09) -/
def closed : F → Bool
  | .nil => true
  | .cons _ true kids sibs => closed kids && closed sibs
  | .cons _ false kids sibs => (runningIds kids).isEmpty && closed kids && closed sibs

/-- `Below f c p`: in forest `f`, `p` is reached by the teardown and `c` is reached inside `p`'s subtree -/
inductive Below : F → Nat → Nat → Prop
  | here {p kids sibs c} : c ∈ visited kids → Below (.cons p true kids sibs) c p
  | inKids {id kids sibs c p} : Below kids c p → Below (.cons id true kids sibs) c p
  | inSibs {id r kids sibs c p} : Below sibs c p → Below (.cons id r kids sibs) c p

/-- one executable teardown order: children left to right, depth first (used by the driver) -/
def dfs : F → List Nat
  | .nil => []
  | .cons _ false _ sibs => dfs sibs
  | .cons id true kids sibs => dfs kids ++ [id] ++ dfs sibs

end GoaktVerif.Model.C17

/-
C24 model — the compression wrapper around a connection (internal/net/compress.go and the three
compress_<codec>.go wrappers).  ONLY the wrapper is modelled: `Wrap` takes pooled codec objects and resets
them onto the connection, `Write` = codec write followed by `Flush`, `Read` = codec read (gzip: the reader is
initialised by the first Read), `Close` returns the objects to their pools.  The codec itself (gzip, zstd,
brotli) is an abstract streaming codec: a PARAMETER.
-/
namespace GoaktVerif.Model.C24

abbrev Bytes := List Nat

/-- an abstract streaming codec -/
structure Codec where
  St : Type                          -- encoder object state
  init : St                          -- state of a freshly reset encoder
  write : St → Bytes → St × Bytes    -- Write(p): new state, bytes put on the raw connection
  flush : St → St × Bytes            -- Flush(): new state, bytes put on the raw connection
  reset : St → St                    -- Reset(conn) on a pooled object
  decode : Bytes → Bytes             -- what a freshly reset decoder yields once the raw connection delivered these bytes

/-- `compressedConn.Write`: `writer.Write(p)`, then `writer.Flush()` -/
def connWrite (c : Codec) (s : c.St) (p : Bytes) : c.St × Bytes :=
  let r1 := c.write s p
  let r2 := c.flush r1.1
  (r2.1, r1.2 ++ r2.2)

/-- encoder state after a sequence of application writes -/
def stateAfter (c : Codec) : c.St → List Bytes → c.St
  | s, [] => s
  | s, p :: ps => stateAfter c (connWrite c s p).1 ps

/-- raw bytes produced by a sequence of application writes -/
def wireOf (c : Codec) : c.St → List Bytes → Bytes
  | _, [] => []
  | s, p :: ps => (connWrite c s p).2 ++ wireOf c (connWrite c s p).1 ps

/-- one direction of a wrapped connection pair: writer end, raw pipe, reader end (with ghost histories) -/
structure Pipe (c : Codec) where
  enc : c.St           -- the writer end's encoder object
  wire : Bytes         -- bytes that reached the raw connection, in order
  writes : List Bytes  -- ghost: the application's writes, in order
  readerInit : Bool    -- gzip's lazy reader: `Reset(raw)` happens in the first Read
  taken : Nat          -- decoded bytes already handed to the reading application
  got : Bytes          -- ghost: everything the reading application received, in order

inductive Op
  | write (p : Bytes)
  | read (n : Nat)      -- Read into a buffer of n bytes
  deriving Repr

/-- `Wrap(conn)`: pooled objects (whatever connection they served before) are reset onto the new connection -/
def wrap (c : Codec) (pooled : c.St) : Pipe c :=
  { enc := c.reset pooled, wire := [], writes := [], readerInit := false, taken := 0, got := [] }

def step (c : Codec) (k : Pipe c) : Op → Pipe c
  | .write p =>
    let r := connWrite c k.enc p
    { k with enc := r.1, wire := k.wire ++ r.2, writes := k.writes ++ [p] }
  | .read n =>
    -- the decoder hands over at most n of the bytes it can produce from what the raw connection delivered
    let chunk := ((c.decode k.wire).drop k.taken).take n
    { k with readerInit := true, taken := k.taken + chunk.length, got := k.got ++ chunk }

def run (c : Codec) (k : Pipe c) (ops : List Op) : Pipe c := ops.foldl (step c) k

/-- `Close()` of the writer end: the encoder object goes back to the pool in whatever state it is -/
def closePooled (c : Codec) (k : Pipe c) : c.St := k.enc

/-- the wrapper WITHOUT the flush (what `Write` would be if it only called `writer.Write`) — used to show the flush matters -/
def connWriteNoFlush (c : Codec) (s : c.St) (p : Bytes) : c.St × Bytes := c.write s p

/-! ### two concrete codecs -/

/-- the identity codec (compression "none") -/
def idCodec : Codec :=
  { St := Unit, init := (), write := fun s p => (s, p), flush := fun s => (s, []), reset := fun _ => (), decode := id }

/-- a buffering block codec: `Write` only buffers, `Flush` emits one block `len :: data`; the decoder yields complete blocks -/
def decodeBlocksF : Nat → Bytes → Bytes
  | 0, _ => []
  | _ + 1, [] => []
  | f + 1, n :: rest => if n ≤ rest.length then rest.take n ++ decodeBlocksF f (rest.drop n) else []

def blockCodec : Codec :=
  { St := Bytes, init := [], write := fun s p => (s ++ p, []), flush := fun s => ([], s.length :: s),
    reset := fun _ => [], decode := fun w => decodeBlocksF (w.length + 1) w }

end GoaktVerif.Model.C24

/-
C25 — a protobuf wire DECODER for the delivery envelope, on the encodings `Wire.encEnv` produces
(fields in order, each at most once; wire types 0 and 2).  Together with `encEnv` it is a concrete instance of
the `EnvCodec` parameter for which the round-trip law is PROVED (Lemmas/C25Wire.lean), so the delivery
envelope round trip needs no hypothesis about protobuf beyond "protobuf-go emits these bytes", which the
differential checks byte for byte.  On non-canonical input (repeated or unknown fields) this decoder is not
protobuf: it takes the FIRST occurrence of a field.
-/
import GoaktVerif.Model.C25Wire

namespace GoaktVerif.Model.C25.Wire
open GoaktVerif.Model.C25

def unvarintF : Nat → Bytes → Option (Nat × Bytes)
  | 0, _ => none
  | _ + 1, [] => none
  | f + 1, b :: rest =>
    if b < 128 then some (b, rest)
    else
      match unvarintF f rest with
      | some (v, r) => some ((b - 128) + 128 * v, r)
      | none => none

/-- `varint` emits at most 11 groups -/
def unvarint (b : Bytes) : Option (Nat × Bytes) := unvarintF 11 b

inductive FVal
  | vint (n : Nat)
  | vbytes (b : Bytes)
  deriving DecidableEq, Repr

/-- one field: tag, then a varint (wire type 0) or a length-delimited payload (wire type 2) -/
def parseField (b : Bytes) : Option ((Nat × FVal) × Bytes) :=
  match unvarint b with
  | none => none
  | some (t, r) =>
    if t % 8 = 0 then
      match unvarint r with
      | some (v, r') => some ((t / 8, .vint v), r')
      | none => none
    else if t % 8 = 2 then
      match unvarint r with
      | some (len, r') => if len ≤ r'.length then some ((t / 8, .vbytes (r'.take len)), r'.drop len) else none
      | none => none
    else none

def parseFieldsF : Nat → Bytes → Option (List (Nat × FVal))
  | _, [] => some []
  | 0, _ :: _ => none
  | f + 1, b :: bs =>
    match parseField (b :: bs) with
    | none => none
    | some (fv, r) =>
      match parseFieldsF f r with
      | some l => some (fv :: l)
      | none => none

def parseFields (b : Bytes) : Option (List (Nat × FVal)) := parseFieldsF b.length b

/-- first occurrence of field `k` -/
def getBytes : List (Nat × FVal) → Nat → Option Bytes
  | [], _ => none
  | (f, .vbytes b) :: rest, k => if f = k then some b else getBytes rest k
  | (f, .vint _) :: rest, k => if f = k then none else getBytes rest k

def getVint : List (Nat × FVal) → Nat → Option Nat
  | [], _ => none
  | (f, .vint n) :: rest, k => if f = k then some n else getVint rest k
  | (f, .vbytes _) :: rest, k => if f = k then none else getVint rest k

def getStr (fs : List (Nat × FVal)) (k : Nat) : Bytes := (getBytes fs k).getD []
def getInt (fs : List (Nat × FVal)) (k : Nat) : Int := toI64 ((getVint fs k).getD 0)
def getBool (fs : List (Nat × FVal)) (k : Nat) : Bool := (getVint fs k).getD 0 != 0

def decPayload (fs : List (Nat × FVal)) : Option (Option Bytes) :=
  match getBytes fs 4 with
  | none => some none
  | some pb =>
    match parseFields pb with
    | some pf => some (some (getStr pf 1))
    | none => none

def decChunk (fs : List (Nat × FVal)) : Option (Option (Bool × Bool)) :=
  match getBytes fs 5 with
  | none => some none
  | some cb =>
    match parseFields cb with
    | some cf => some (some (getBool cf 1, getBool cf 2))
    | none => none

def decBody (k : Nat) (g : List (Nat × FVal)) : Option Env :=
  if k = 1 then some (.registerConsumer (getStr g 1))
  else if k = 2 then some (.registrationAck (getStr g 1) (getInt g 2) (getStr g 3))
  else if k = 3 then some (.request (getStr g 1) (getStr g 2) (getInt g 3) (getInt g 4) (getBool g 5))
  else if k = 4 then some (.ack (getStr g 1) (getStr g 2) (getInt g 3))
  else if k = 5 then
    match decPayload g, decChunk g with
    | some p, some c => some (.sequenced (getStr g 1) (getStr g 2) (getInt g 3) p c)
    | _, _ => none
  else none

/-- `proto.Unmarshal(data, &internalpb.DeliveryEnvelope{})` on canonical input -/
def decEnv (b : Bytes) : Option Env :=
  match parseFields b with
  | none => none
  | some [] => some .none
  | some ((k, .vbytes body) :: _) =>
    match parseFields body with
    | some g => decBody k g
    | none => none
  | some ((_, .vint _) :: _) => none

/-- the concrete instance of the protobuf parameter -/
def wireEnvCodec : EnvCodec := { marshal := fun e => some (encEnv e), unmarshal := decEnv }

/-- values protobuf can hold: int64 fields in range, lengths below 2^63 -/
def envFits : Env → Bool
  | .none => true
  | .registerConsumer n => n.length < 2^32
  | .registrationAck s n nonce => s.length < 2^32 && nonce.length < 2^32 && decide (-2^63 ≤ n) && decide (n < 2^63)
  | .request s nonce c u _ => s.length < 2^32 && nonce.length < 2^32 && decide (-2^63 ≤ c) && decide (c < 2^63)
      && decide (-2^63 ≤ u) && decide (u < 2^63)
  | .ack s nonce c => s.length < 2^32 && nonce.length < 2^32 && decide (-2^63 ≤ c) && decide (c < 2^63)
  | .sequenced s id seq p _ => s.length < 2^32 && id.length < 2^32 && decide (-2^63 ≤ seq) && decide (seq < 2^63)
      && (match p with | some b => decide (b.length < 2^32) | none => true)

end GoaktVerif.Model.C25.Wire

/-
C10 — `freeWatchers` (actor/pid.go) interleaved with other actors' `Watch`/`UnWatch` calls and state changes.

`freeWatchers(p)` takes ONE snapshot `tree.watchers(p)` (under the tree's read lock), then walks it:
for each watcher `w`: `if w.IsRunning() { p.Tell(w, Terminated(p)); w.UnWatch(p) }`.
Every tree op is atomic (one mutex), so an interleaving is: the snapshot, then before each loop
iteration an arbitrary finite burst of environment steps performed by other goroutines.
Environment steps never write `Terminated(p)`: only the (single, see `Sys.shutdown`) `freeWatchers(p)` of
this incarnation does.
-/
import GoaktVerif.Model.C09.Stop

namespace GoaktVerif.Model.C10
open GoaktVerif.Model.C09

/-- what other goroutines may do between two steps of `freeWatchers` -/
inductive Env where
  | watch (watcher watchee : Pid)          -- watcher.Watch(watchee)
  | unwatch (watcher watchee : Nat)        -- watcher.UnWatch(watchee)
  | setRunning (a : Nat) (b : Bool)        -- a starts / goes offline
  | setSuspended (a : Nat) (b : Bool)
  deriving Repr

def Env.apply (s : Sys) : Env → Sys
  | .watch w e => s.watch w e
  | .unwatch w e => s.unwatch w e
  | .setRunning a true => { s with running := a :: s.running }
  | .setRunning a false => { s with running := s.running.filter (· != a) }
  | .setSuspended a true => { s with suspended := a :: s.suspended }
  | .setSuspended a false => { s with suspended := s.suspended.filter (· != a) }

def applyEnvs (s : Sys) (es : List Env) : Sys := es.foldl Env.apply s

/-- the loop of `freeWatchers(p)` over the snapshot `ws`, with the environment bursts `envs`
    (one burst before each iteration; missing bursts are empty) -/
def notifyAll (p : Nat) : List Pid → List (List Env) → Sys → Sys
  | [], _, s => s
  | w :: ws, envs, s =>
    let s := applyEnvs s (envs.headD [])
    notifyAll p ws envs.tail (Sys.notify p s w)

/-- `freeWatchers(p)` under interleaving: `pre` runs before the snapshot, `envs` during the walk -/
def freeWatchersI (s : Sys) (p : Nat) (pre : List Env) (envs : List (List Env)) : Sys :=
  let s := applyEnvs s pre
  match s.tree.watchers p with
  | none => s
  | some ws => notifyAll p ws envs s

/-- did the walk find `w` running at its turn?  (`some true/false`; `none` = `w` is not in the snapshot) -/
def runningAtTurn (p w : Nat) : List Pid → List (List Env) → Sys → Option Bool
  | [], _, _ => none
  | x :: ws, envs, s =>
    let s := applyEnvs s (envs.headD [])
    if x.id = w then some (s.isRunning w) else runningAtTurn p w ws envs.tail (Sys.notify p s x)

end GoaktVerif.Model.C10
